import BV.Lemmas.LedgerFlags
import BV.Lemmas.LedgerSpec
import BV.Lemmas.LedgerCall
import BV.Lemmas.LedgerInterleave
import BV.Lemmas.LedgerQueue
/-!
# C09 — every block obtained from a plugged-in allocator is returned to it exactly once

Model: `BV/Model/Ledger.lean` (slots + ledger + sites + entry points, assembled under the site flags
regenerated from the Rust source).  Spec side: `judge` (independent replay of a raw event log) and the
count-based reading `exactly_once`.

Hypothesis of the whole file (oracle, checked at run time by the harness after every call):
`ScopedBalanced` — temporaries of one call are allocated and freed inside it; in the model a call's
temporaries are `scopedActs` (proved, not assumed, for the IR logger's command queue:
`command_queue_balanced`).  Multi-threaded entry points: per job fate (`multiFates`).
-/
namespace BV.Props.C09
open BV.Ledger

/-! ## The tree this build was generated from -/

/-- every site flag extracted from the current Rust sources has the value the proofs need; if a fix
    is reverted (or a new exit path forgets the cleanup) the generated flag flips and this fails -/
theorem tree_flags : Flags.current = Flags.allTrue := by decide

theorem allTrue_sitesOk : Flags.allTrue.sitesOk = true := rfl

/-- the owning fields of `BrotliEncoderStateStruct`, as generated from the struct definition, are
    exactly the model's seven field slots, and `cleanup` names every one of them -/
theorem fields_generated :
    (∀ f ∈ BV.Gen.encoderAllocFields, f ∈ fieldSlots.map Prod.fst) ∧
    (∀ f ∈ fieldSlots.map Prod.fst, f ∈ BV.Gen.encoderAllocFields) ∧
    (∀ f ∈ BV.Gen.encoderAllocFields, f ∈ BV.Gen.cleanupFreedFields) ∧
    BV.Gen.encoderAllocFields.length = 7 ∧ BV.Gen.ringBufferAllocFields = ["data_mo"] := by decide

/-- the model's `cleanup` is the generated list of released fields, in source order -/
theorem cleanup_generated :
    cleanupActs = BV.Gen.cleanupFreedFields.filterMap (fun f => (fieldSlots.lookup f).map Act.free) := by decide

/-- every hasher variant releases at most two blocks and `Uninit` none (what the `hasher` slot assumes) -/
theorem hasher_arms_generated :
    (∀ v ∈ BV.Gen.hasherVariants, v ∈ BV.Gen.hasherFreeArms.map Prod.fst) ∧
    (∀ a ∈ BV.Gen.hasherFreeArms, a.2 ≤ 2) ∧ BV.Gen.hasherFreeArms.lookup "Uninit" = some 0 := by decide

/-! ## `ledger_wf` -/

/-- **ledger_wf**: for every accepted history of the model (any op sequence, any parameters), from a
    fresh instance: no block is freed twice, no free names a block that was never allocated, every free
    goes through the allocator that produced the block, no identity is handed out twice.  Needs only
    that every allocation is made from the instance's own allocator (the one-shot fix). -/
theorem ledger_wf (fl : Flags) (hown : fl.oneshotHasherOwn = true) (m8 q : Nat) (ops : List Op) (w : W)
    (h : run fl (W.init m8 q) ops = .ok w) :
    (judge w.log).foreign = 0 ∧ (judge w.log).double = 0 ∧ (judge w.log).unknown = 0 ∧
      (judge w.log).realloc = 0 := by
  have hb := (run_inv_owned hown ops _ _ (Inv.init m8 q) h).bad
  simp only [Judge.bad] at hb
  omega

/-- **the live set is exactly what the slots reference** (plus what a defective site abandoned): the
    model-side statement of the harness oracle "live set == blocks held by the long-lived fields" -/
theorem live_is_fields (fl : Flags) (hown : fl.oneshotHasherOwn = true) (m8 q : Nat) (ops : List Op) (w : W)
    (h : run fl (W.init m8 q) ops = .ok w) (b : BlockId) :
    (judge w.log).live.count b = w.enc.held.count b + w.lost.count b :=
  (run_inv_owned hown ops _ _ (Inv.init m8 q) h).live b

/-- on the current tree nothing is ever abandoned -/
theorem nothing_lost (m8 q : Nat) (ops : List Op) (w : W) (h : run Flags.current (W.init m8 q) ops = .ok w) :
    w.lost = [] := by
  rw [tree_flags] at h
  exact (run_inv allTrue_sitesOk ops _ _ (Inv.init m8 q) h).2.1

/-! ## `cleanup_frees_all_fields` -/

/-- **cleanup_frees_all_fields**: after `cleanup`, whatever the history before, each of the seven
    owning fields is empty, the blocks they held are not live, and nothing else changed hands -/
theorem cleanup_frees_all_fields (fl : Flags) (hown : fl.oneshotHasherOwn = true) (m8 q : Nat) (ops : List Op)
    (w w' : W) (h : run fl (W.init m8 q) ops = .ok w) (hc : step fl w .cleanup = .ok w') :
    w'.enc.fields = [] ∧ (∀ b ∈ w.enc.fields, b ∉ (judge w'.log).live) ∧
    (∀ s, s.isField = false → w'.enc.get s = w.enc.get s) := by
  have hw := run_inv_owned hown ops _ _ (Inv.init m8 q) h
  have hw' := step_inv_owned hown hw hc
  obtain ⟨_, rfl⟩ := step_ok hc
  have hf : ∀ s, s.isField = true → (opBook (w.acts (opActs fl w.m8 .cleanup)) .cleanup).enc.get s = [] := by
    intro s hs
    rw [opBook_enc]
    exact acts_emptyAfter s _ w false (by simp) (cleanup_empties_fields s hs false)
  refine ⟨?_, ?_, ?_⟩
  · have h1 := hf .storage rfl; have h2 := hf .commands rfl; have h3 := hf .ring rfl
    have h4 := hf .hasher rfl; have h5 := hf .table rfl; have h6 := hf .cbuf rfl; have h7 := hf .lbuf rfl
    simp only [Enc.get] at h1 h2 h3 h4 h5 h6 h7
    simp [Enc.fields, h1, h2, h3, h4, h5, h6, h7]
  · intro b hb
    -- the free event of `b` is in the log, and the log is clean
    apply freed_not_live (via := w.m8) _ hw'.bad
    simp only [opBook_log, opActs, cleanupActs, W.acts, List.foldl, W.act, Enc.get, Enc.set]
    simp only [Enc.fields, List.mem_append] at hb
    simp only [List.mem_append, List.mem_map]
    rcases hb with (((((hb | hb) | hb) | hb) | hb) | hb) | hb
    · exact Or.inl (Or.inl (Or.inl (Or.inl (Or.inl (Or.inl (Or.inr ⟨b, hb, rfl⟩))))))
    · exact Or.inl (Or.inl (Or.inl (Or.inl (Or.inl (Or.inr ⟨b, hb, rfl⟩)))))
    · exact Or.inl (Or.inl (Or.inl (Or.inl (Or.inr ⟨b, hb, rfl⟩))))
    · exact Or.inl (Or.inl (Or.inl (Or.inr ⟨b, hb, rfl⟩)))
    · exact Or.inl (Or.inl (Or.inr ⟨b, hb, rfl⟩))
    · exact Or.inl (Or.inr ⟨b, hb, rfl⟩)
    · exact Or.inr ⟨b, hb, rfl⟩
  · intro s hs
    rw [opBook_enc]
    cases s <;> simp [Slot.isField] at hs <;> rfl

/-! ## `replace_frees_old` -/

/-- the four growth sites: `get_brotli_storage`, `GetHashTableInternal`, `RingBufferInitBuffer`, the
    command-array growth of `encode_data` -/
def growthSite (m8 : Nat) : Slot → List Act
  | .storage => storageGrowActs m8
  | .table => tableGrowActs m8
  | .ring => ringInitActs m8
  | .commands => commandsGrowActs m8
  | _ => []

def isGrowthSlot : Slot → Bool
  | .storage | .table | .ring | .commands => true
  | _ => false

/-- **replace_frees_old**: in any state reachable by the model (invariant), a growth site frees the
    block it replaces through the instance's allocator, leaves exactly one fresh block in the field,
    and the replaced block is not live afterwards — right after the site and after any later actions -/
theorem replace_frees_old (w : W) (hw : Inv w) (s : Slot) (hs : isGrowthSlot s = true) (htmp : w.enc.tmp = [])
    (b : BlockId) (hb : b ∈ w.enc.get s) (later : List Act)
    (hlater : ∀ a ∈ later, a.owned w.m8) :
    Ev.free w.m8 b ∈ (w.acts (growthSite w.m8 s)).log ∧
    (w.acts (growthSite w.m8 s)).enc.get s = [⟨w.m8, w.next⟩] ∧
    b ∉ (judge (w.acts (growthSite w.m8 s)).log).live ∧
    b ∉ (judge ((w.acts (growthSite w.m8 s)).acts later).log).live := by
  have hown : ∀ a ∈ growthSite w.m8 s, a.owned w.m8 := by
    intro a ha
    cases s <;> simp [isGrowthSlot] at hs <;>
      simp [growthSite, storageGrowActs, tableGrowActs, ringInitActs, commandsGrowActs] at ha <;>
      rcases ha with rfl | rfl | rfl <;> simp [Act.owned]
  have hw1 := hw.acts _ hown
  have hw2 := hw1.acts later (by intro a ha; rw [acts_m8]; exact hlater a ha)
  have hmem : Ev.free w.m8 b ∈ (w.acts (growthSite w.m8 s)).log := by
    cases s <;> simp [isGrowthSlot] at hs <;>
      simp [growthSite, storageGrowActs, tableGrowActs, ringInitActs, commandsGrowActs, W.acts, W.act,
        Enc.get, Enc.set, fresh] at hb ⊢ <;> exact Or.inr hb
  have hslot : (w.acts (growthSite w.m8 s)).enc.get s = [⟨w.m8, w.next⟩] := by
    cases s <;> simp [isGrowthSlot] at hs <;>
      simp [growthSite, storageGrowActs, tableGrowActs, ringInitActs, commandsGrowActs, W.acts, W.act,
        Enc.get, Enc.set, fresh, htmp]
  refine ⟨hmem, hslot, freed_not_live hmem hw1.bad, ?_⟩
  obtain ⟨suf, hsuf⟩ := acts_log_prefix (w.acts (growthSite w.m8 s)) later
  exact freed_not_live (via := w.m8) (by rw [hsuf]; exact List.mem_append_left _ hmem) hw2.bad

/-- **replace_frees_old, whole call**: a `compress_stream` call is ANY number of `encode_data` rounds
    (`callActs`); in whichever round a field is re-allocated (`get_brotli_storage`, `GetHashTableInternal`,
    `RingBufferInitBuffer`, command growth — several times per call, several fields per round), every
    block the field holds at the start of that round is freed through the instance's allocator and is
    not live when the call returns -/
theorem replace_frees_old_call (w : W) (hw : Inv w) (pre : List CsDelta) (d : CsDelta) (post : List CsDelta)
    (s : Slot) (hs : d.grows s = true) (b : BlockId) (hb : b ∈ (w.acts (callActs w.m8 pre)).enc.get s) :
    Ev.free w.m8 b ∈ (w.acts (callActs w.m8 (pre ++ d :: post))).log ∧
    b ∉ (judge (w.acts (callActs w.m8 (pre ++ d :: post))).log).live := by
  have hmem : Ev.free w.m8 b ∈ (w.acts (callActs w.m8 (pre ++ d :: post))).log := by
    have e : callActs w.m8 (pre ++ d :: post) = callActs w.m8 pre ++ (roundActs w.m8 d ++ callActs w.m8 post) := by
      simp [callActs]
    rw [e, acts_append, acts_append]
    obtain ⟨suf, hsuf⟩ := acts_log_prefix (((w.acts (callActs w.m8 pre))).acts (roundActs w.m8 d)) (callActs w.m8 post)
    rw [hsuf]
    apply List.mem_append_left
    have := acts_freesFirst s b (roundActs w.m8 d) (w.acts (callActs w.m8 pre))
      (round_freesFirst w.m8 d s hs) hb
    rwa [acts_m8] at this
  exact ⟨hmem, freed_not_live hmem (hw.acts _ (callActs_owned w.m8 _)).bad⟩

/-- the same for one recorded call of a history, and for everything that follows it -/
theorem replace_frees_old_cs (fl : Flags) (hown : fl.oneshotHasherOwn = true) (m8 q : Nat) (ops later : List Op)
    (d : CsDelta) (w w' w'' : W) (h : run fl (W.init m8 q) ops = .ok w) (hc : step fl w (.cs d) = .ok w')
    (hl : run fl w' later = .ok w'') (s : Slot) (hs : d.grows s = true) (b : BlockId) (hb : b ∈ w.enc.get s) :
    Ev.free w.m8 b ∈ w'.log ∧ b ∉ (judge w'.log).live ∧ b ∉ (judge w''.log).live := by
  have hw := run_inv_owned hown ops _ _ (Inv.init m8 q) h
  have hw' := step_inv_owned hown hw hc
  have hw'' := run_inv_owned hown later _ _ hw' hl
  have hmem : Ev.free w.m8 b ∈ w'.log := by
    obtain ⟨_, rfl⟩ := step_ok hc
    rw [opBook_log, roundActs_eq_opActs]
    exact acts_freesFirst s b _ w (round_freesFirst w.m8 d s hs) hb
  refine ⟨hmem, freed_not_live hmem hw'.bad, ?_⟩
  obtain ⟨suf, hsuf⟩ := run_log_prefix later w' w'' hl
  exact freed_not_live (via := w.m8) (by rw [hsuf]; exact List.mem_append_left _ hmem) hw''.bad

/-! ## `entry_point_releases_all` — one theorem per entry point

`body` is an ARBITRARY list of body calls (`compress_stream` in any mode incl. failed calls and calls
that grow any field, `take_output`, `set_custom_dictionary`), so early destruction (any prefix of a
longer history) and error returns (a body that stops anywhere) are covered.  The statements are about
`Flags.allTrue`; `tree_flags` says that this is the tree the build was generated from, and the
corollary `…_current` restates the most exposed ones for `Flags.current`. -/

/-- what "releases all" means: the ledger is clean and nothing is live -/
def ReleasesAll (w : W) : Prop := (judge w.log).clean = true ∧ (judge w.log).live = []

macro "ep_slots" : tactic =>
  `(tactic| (intro s; cases s <;> first | (left; intro b; cases b <;> rfl) | (right; exact ⟨rfl, rfl, rfl⟩)))

/-- Rust streaming instance: `new`, any history, `BrotliEncoderDestroyInstance` -/
theorem entry_point_releases_all_stream (m8 q : Nat) (body : List Op) (hb : ∀ op ∈ body, op.isBody = true)
    (w : W) (h : run Flags.allTrue (W.init m8 q) (epStream body) = .ok w) : ReleasesAll w := by
  have h' : run Flags.allTrue (W.init m8 q) ([.create false] ++ body ++ [.cleanup]) = .ok w := by
    simpa [epStream] using h
  exact ep_releases allTrue_sitesOk m8 q _ body _ hb (by ep_slots) h'

/-- C ABI: `BrotliEncoderCreateInstance` with callbacks, any history, `BrotliEncoderDestroyInstance`
    (the state block itself included) -/
theorem entry_point_releases_all_ffi (m8 q : Nat) (body : List Op) (hb : ∀ op ∈ body, op.isBody = true)
    (w : W) (h : run Flags.allTrue (W.init m8 q) (epFfi body) = .ok w) : ReleasesAll w := by
  have h' : run Flags.allTrue (W.init m8 q) ([.create true] ++ body ++ [.ffiDestroy]) = .ok w := by
    simpa [epFfi] using h
  exact ep_releases allTrue_sitesOk m8 q _ body _ hb (by ep_slots) h'

/-- `CompressorWriterCustomIo`: any writes / flushes / failed calls, then `drop` (also after `into_inner`
    took the output) -/
theorem entry_point_releases_all_writer (m8 q : Nat) (body : List Op) (hb : ∀ op ∈ body, op.isBody = true)
    (w : W) (h : run Flags.allTrue (W.init m8 q) (epWriter Flags.allTrue body) = .ok w) : ReleasesAll w := by
  have h' : run Flags.allTrue (W.init m8 q) ([.create false] ++ body ++ [.cleanup]) = .ok w := by
    simpa [epWriter, condCleanup, Flags.allTrue] using h
  exact ep_releases allTrue_sitesOk m8 q _ body _ hb (by ep_slots) h'

/-- `CompressorReaderCustomIo`: any reads incl. errors of the wrapped reader, then `StateWrapper::drop` -/
theorem entry_point_releases_all_reader (m8 q : Nat) (body : List Op) (hb : ∀ op ∈ body, op.isBody = true)
    (w : W) (h : run Flags.allTrue (W.init m8 q) (epReader Flags.allTrue body) = .ok w) : ReleasesAll w := by
  have h' : run Flags.allTrue (W.init m8 q) ([.create false] ++ body ++ [.cleanup]) = .ok w := by
    simpa [epReader, condCleanup, Flags.allTrue] using h
  exact ep_releases allTrue_sitesOk m8 q _ body _ hb (by ep_slots) h'

/-- `BrotliCompressCustomIoCustomDict` (the copy function): normal exit, encoder failure, read error and
    the early return on a write error -/
theorem entry_point_releases_all_copy (m8 q : Nat) (body : List Op) (hb : ∀ op ∈ body, op.isBody = true)
    (w : W) (h : run Flags.allTrue (W.init m8 q) (epCopy Flags.allTrue body) = .ok w) : ReleasesAll w := by
  have h' : run Flags.allTrue (W.init m8 q) ([.create false] ++ body ++ [.cleanup]) = .ok w := by
    simpa [epCopy, condCleanup, Flags.allTrue] using h
  exact ep_releases allTrue_sitesOk m8 q _ body _ hb (by ep_slots) h'

/-- Rust one-shot (`encoder_compress`), with and without the quality-10 hasher made up front; `other` is
    the identity of the spare allocator -/
theorem entry_point_releases_all_oneshot (m8 q other : Nat) (q10 : Bool) (lens : List Nat) (body : List Op)
    (hb : ∀ op ∈ body, op.isBody = true) (w : W)
    (h : run Flags.allTrue (W.init m8 q) (epOneshot Flags.allTrue q10 other lens body) = .ok w) : ReleasesAll w := by
  cases q10
  · have h' : run Flags.allTrue (W.init m8 q) ([.create false] ++ body ++ [.cleanup]) = .ok w := by
      simpa [epOneshot, condCleanup, Flags.allTrue] using h
    exact ep_releases allTrue_sitesOk m8 q _ body _ hb (by ep_slots) h'
  · have h' : run Flags.allTrue (W.init m8 q) ([.create false, .oneshotHasher other lens] ++ body ++ [.cleanup]) = .ok w := by
      simpa [epOneshot, condCleanup, Flags.allTrue] using h
    exact ep_releases allTrue_sitesOk m8 q _ body _ hb (by ep_slots) h'

/-- `help_brotli_encoder_compress_single` (1-thread branch of the C-ABI multi call) -/
theorem entry_point_releases_all_ffi_single (m8 q : Nat) (body : List Op) (hb : ∀ op ∈ body, op.isBody = true)
    (w : W) (h : run Flags.allTrue (W.init m8 q) (epFfiSingle Flags.allTrue body) = .ok w) : ReleasesAll w := by
  have h' : run Flags.allTrue (W.init m8 q) ([.create false] ++ body ++ [.cleanup]) = .ok w := by
    simpa [epFfiSingle, condCleanup, Flags.allTrue] using h
  exact ep_releases allTrue_sitesOk m8 q _ body _ hb (by ep_slots) h'

/-- evaluate the slot flags of the fixed parts of an entry point whose calls have symbolic parameters -/
macro "ep_slots_sym" : tactic =>
  `(tactic| (intro s; cases s <;>
      first
      | (left; intro b; (cases b <;>
          simp [flagAfter_cons, flagAfter_nil, opFlag_cleanup, opFlag_freeMem, opFlag_freeInput, Slot.isField]); done)
      | (right; refine ⟨rfl, ?_, ?_⟩ <;>
          (simp [flagAfter_cons, flagAfter_nil, opFlag_create, opFlag_allocMem, opFlag_allocInput, opFlag_cleanup,
            opFlag_freeMem, opFlag_freeInput, opFlag_mkExt, opFlag_setDictExt_ext, Slot.isField]
           try (first | exact opFlag_setDict _ _ _ rfl _ _ | exact opFlag_setDictExt _ _ rfl _ _)))))

/-- one allocator's share of a multi-threaded call (`CompressMulti` / `CompressMultiSlice` / work pool,
    Rust and C ABI): `compress_part` in either arm, without a dictionary (job 0), with a dictionary built
    in place, or with the pre-computed hasher cloned for this job by the coordinator — kept, or destroyed
    and rebuilt when the dictionary is truncated; optionally carrying `CompressMultiSlice`'s input copy.
    EXACT hypothesis: the coordinator joined this job (`join()` returned `Ok`, or it is the last job, run
    inline, and every earlier join returned `Ok`) — i.e. `multiFates t p` gives `joined` for it.  What
    happens otherwise is `job_panicked_strands_what_it_held` / `job_unjoined_strands_at_most_output`. -/
theorem entry_point_releases_all_job (m8 q : Nat) (slice ok : Bool) (body : List Op)
    (hb : ∀ op ∈ body, op.isBody = true) (w : W) :
    -- job without dictionary
    (run Flags.allTrue (W.init m8 q) (epJob Flags.allTrue slice [] none body ok) = .ok w → ReleasesAll w) ∧
    -- dictionary, hasher built by the job
    (∀ ring fresh, run Flags.allTrue (W.init m8 q) (epJob Flags.allTrue slice [] (some (ring, fresh)) body ok) = .ok w →
      ReleasesAll w) ∧
    -- dictionary + pre-computed hasher
    (∀ x xs ring fresh, run Flags.allTrue (W.init m8 q) (epJob Flags.allTrue slice (x :: xs) (some (ring, fresh)) body ok) = .ok w →
      ReleasesAll w) := by
  refine ⟨?_, ?_, ?_⟩
  · intro h
    cases slice <;> cases ok
    all_goals
      first
      | (have h' : run Flags.allTrue (W.init m8 q) ([.allocMem, .create false] ++ body ++ [.cleanup, .freeMem]) = .ok w := by
           simpa [epJob, condCleanup, Flags.allTrue] using h
         exact ep_releases allTrue_sitesOk m8 q _ body _ hb (by ep_slots_sym) h')
      | (have h' : run Flags.allTrue (W.init m8 q) ([.allocInput, .allocMem, .create false] ++ body ++ [.cleanup, .freeMem, .freeInput]) = .ok w := by
           simpa [epJob, condCleanup, Flags.allTrue] using h
         exact ep_releases allTrue_sitesOk m8 q _ body _ hb (by ep_slots_sym) h')
  · intro ring fresh h
    cases slice <;> cases ok
    all_goals
      first
      | (have h' : run Flags.allTrue (W.init m8 q) ([.allocMem, .create false, .setDict ring fresh] ++ body ++ [.cleanup, .freeMem]) = .ok w := by
           simpa [epJob, condCleanup, Flags.allTrue] using h
         exact ep_releases allTrue_sitesOk m8 q _ body _ hb (by ep_slots_sym) h')
      | (have h' : run Flags.allTrue (W.init m8 q) ([.allocInput, .allocMem, .create false, .setDict ring fresh] ++ body ++ [.cleanup, .freeMem, .freeInput]) = .ok w := by
           simpa [epJob, condCleanup, Flags.allTrue] using h
         exact ep_releases allTrue_sitesOk m8 q _ body _ hb (by ep_slots_sym) h')
  · intro x xs ring fresh h
    cases slice <;> cases ok
    all_goals
      first
      | (have h' : run Flags.allTrue (W.init m8 q) ([.mkExt (x :: xs), .allocMem, .create false, .setDictExt ring fresh] ++ body ++ [.cleanup, .freeMem]) = .ok w := by
           simpa [epJob, condCleanup, Flags.allTrue] using h
         exact ep_releases allTrue_sitesOk m8 q _ body _ hb (by ep_slots_sym) h')
      | (have h' : run Flags.allTrue (W.init m8 q) ([.allocInput, .mkExt (x :: xs), .allocMem, .create false, .setDictExt ring fresh] ++ body ++ [.cleanup, .freeMem, .freeInput]) = .ok w := by
           simpa [epJob, condCleanup, Flags.allTrue] using h
         exact ep_releases allTrue_sitesOk m8 q _ body _ hb (by ep_slots_sym) h')

/-! ## One callee of `ScopedBalanced`, proved: the IR logger's command queue -/

/-- **command_queue_balanced**: the allocation skeleton of `LogMetaBlock` — `k` helper blocks,
    `CommandQueue::new` for ANY number of commands, ANY number of pushes (each push on a full queue
    allocates the doubled queue and frees the old one), `CommandQueue::free` — keeps the ledger
    invariant, leaves every slot of the encoder exactly as it was, loses nothing, leaves the live set
    unchanged, and never ends over-full (so `command_queue.free(callback).unwrap()` cannot panic) -/
theorem command_queue_balanced (w : W) (hw : Inv w) (ht : w.enc.tmp = []) (ht2 : w.enc.tmp2 = [])
    (haux : w.enc.aux = []) (k numCommands pushes : Nat) :
    Inv (logMetaBlockIR w k numCommands pushes).1 ∧ (logMetaBlockIR w k numCommands pushes).1.enc = w.enc ∧
    (logMetaBlockIR w k numCommands pushes).1.lost = w.lost ∧ (logMetaBlockIR w k numCommands pushes).2 = true ∧
    ∀ b, (judge (logMetaBlockIR w k numCommands pushes).1.log).live.count b = (judge w.log).live.count b := by
  have hw1 : Inv (w.acts [.alloc w.m8 .aux k]) := hw.acts _ (by intro a ha; simp at ha; subst ha; simp [Act.owned])
  have hfr1 : ∀ t, t ≠ Slot.aux → (w.acts [.alloc w.m8 .aux k]).enc.get t = w.enc.get t := by
    intro t h1
    apply acts_frame
    intro a ha; simp at ha; subst ha
    simp [Act.writes]; exact fun h => h1 h.symm
  have ht' : (w.acts [.alloc w.m8 .aux k]).enc.tmp = [] := by have := hfr1 .tmp (by decide); simpa [Enc.get, ht] using this
  have ht2' : (w.acts [.alloc w.m8 .aux k]).enc.tmp2 = [] := by have := hfr1 .tmp2 (by decide); simpa [Enc.get, ht2] using this
  obtain ⟨hq1, hq2, hq3, hq4, hq5, _⟩ := queue_balanced _ hw1 ht' ht2' numCommands pushes
  have hinv : Inv (logMetaBlockIR w k numCommands pushes).1 :=
    hq1.acts _ (by intro a ha; simp at ha; subst ha; simp [Act.owned])
  have henc : (logMetaBlockIR w k numCommands pushes).1.enc = w.enc := by
    apply Enc.ext_get
    intro t
    by_cases h1 : t = .aux
    · subst h1; simp [logMetaBlockIR, W.acts, W.act, Enc.get, Enc.set, haux]
    · have : (logMetaBlockIR w k numCommands pushes).1.enc.get t =
          (cqFree (cqPushN pushes (cqNew (w.acts [.alloc w.m8 .aux k]) numCommands))).1.enc.get t := by
        apply acts_frame
        intro a ha; simp at ha; subst ha
        simp [Act.writes]; exact fun h => h1 h.symm
      rw [this, hq2, hfr1 t h1]
  have hlost : (logMetaBlockIR w k numCommands pushes).1.lost = w.lost := by
    have : (logMetaBlockIR w k numCommands pushes).1.lost =
        (cqFree (cqPushN pushes (cqNew (w.acts [.alloc w.m8 .aux k]) numCommands))).1.lost := by
      simp [logMetaBlockIR, W.acts, W.act]
    rw [this, hq3]; simp [W.acts, W.act]
  refine ⟨hinv, henc, hlost, hq5, ?_⟩
  intro b
  rw [hinv.live b, hw.live b, henc, hlost]

/-- non-vacuity: 100 commands (queue of 110 slots), 500 pushes: three growths, nothing left, not over-full -/
example : (logMetaBlockIR (W.init 0 5) 6 100 500).2 = true ∧
    (judge (logMetaBlockIR (W.init 0 5) 6 100 500).1.log).allocs = 10 ∧
    (judge (logMetaBlockIR (W.init 0 5) 6 100 500).1.log).frees = 10 ∧
    (cqPushN 500 (cqNew (W.init 0 5) 100)).2.cap = 880 := by decide +kernel

/-! ## The early returns of `CompressMulti` (a job panicked / a lock is poisoned)

`entry_point_releases_all_job` above is about a job the coordinator **joined** (`join()` returned `Ok`),
which is the case for every job iff no job panics.  When job `p` panics, `CompressMulti` returns from
inside the join loop (`multiFates`): the jobs before `p` were joined (theorem above), job `p` unwound
(`job_panicked_strands_what_it_held`), the jobs after `p` ran to completion but nobody takes their result
(`job_unjoined_strands_at_most_output`). -/

theorem held_mem_input (e : Enc) (h : ∀ s, (s ≠ .mem ∧ s ≠ .input) → e.get s = []) (b : BlockId) :
    e.held.count b = e.mem.count b + e.input.count b := by
  have h1 := h .storage (by decide); have h2 := h .commands (by decide); have h3 := h .ring (by decide)
  have h4 := h .hasher (by decide); have h5 := h .table (by decide); have h6 := h .cbuf (by decide)
  have h7 := h .lbuf (by decide); have h8 := h .ext (by decide); have h9 := h .self (by decide)
  have h12 := h .tmp (by decide); have h13 := h .tmp2 (by decide); have h14 := h .aux (by decide)
  simp only [Enc.get] at h1 h2 h3 h4 h5 h6 h7 h8 h9 h12 h13 h14
  simp [Enc.held, h1, h2, h3, h4, h5, h6, h7, h8, h9, h12, h13, h14, List.count_append]

/-- what an un-joined job leaves behind: the ledger is clean and the only blocks still live are the
    job's output block and (allocator 0 of `CompressMultiSlice`) the input copy -/
def StrandsAtMostOutput (w : W) : Prop :=
  (judge w.log).clean = true ∧ ∀ b, (judge w.log).live.count b = w.enc.mem.count b + w.enc.input.count b

macro "ep_slots_keep" : tactic =>
  `(tactic| (intro s hs; cases s <;> simp at hs <;>
      first
      | (left; intro b; (cases b <;>
          simp [flagAfter_cons, flagAfter_nil, opFlag_cleanup, opFlag_freeMem, opFlag_freeInput, Slot.isField]); done)
      | (right; refine ⟨rfl, ?_, ?_⟩ <;>
          (simp [flagAfter_cons, flagAfter_nil, opFlag_create, opFlag_allocMem, opFlag_allocInput, opFlag_cleanup,
            opFlag_freeMem, opFlag_freeInput, opFlag_mkExt, opFlag_setDictExt_ext, Slot.isField]
           try (first | exact opFlag_setDict _ _ _ rfl _ _ | exact opFlag_setDictExt _ _ rfl _ _)))))

theorem strands_of_empty {w : W} (h : Inv w ∧ w.lost = [] ∧ ∀ s, (s ≠ Slot.mem ∧ s ≠ Slot.input) → w.enc.get s = []) :
    StrandsAtMostOutput w := by
  obtain ⟨hi, hl, he⟩ := h
  refine ⟨(clean_iff_bad _).mpr hi.bad, fun b => ?_⟩
  rw [hi.live b, hl, held_mem_input _ he b]
  simp

/-- **un-joined job** (a job after the panicking one, or any job when `CompressMulti` returns before the
    join loop): whatever it did, only its output block / the input copy can remain; in the error arm of
    `compress_part` the output block is freed by the job itself -/
theorem job_unjoined_strands_at_most_output (m8 q : Nat) (slice ok : Bool) (body : List Op)
    (hb : ∀ op ∈ body, op.isBody = true) (w : W) :
    (run Flags.allTrue (W.init m8 q) (epJob Flags.unjoined slice [] none body ok) = .ok w → StrandsAtMostOutput w) ∧
    (∀ ring fresh, run Flags.allTrue (W.init m8 q) (epJob Flags.unjoined slice [] (some (ring, fresh)) body ok) = .ok w →
      StrandsAtMostOutput w) ∧
    (∀ x xs ring fresh, run Flags.allTrue (W.init m8 q) (epJob Flags.unjoined slice (x :: xs) (some (ring, fresh)) body ok) = .ok w →
      StrandsAtMostOutput w) := by
  refine ⟨?_, ?_, ?_⟩
  · intro h
    cases slice <;> cases ok
    all_goals
      first
      | (have h' : run Flags.allTrue (W.init m8 q) ([.allocMem, .create false] ++ body ++ [.cleanup]) = .ok w := by
           simpa [epJob, condCleanup, Flags.unjoined, Flags.allTrue] using h
         exact strands_of_empty (ep_empty_slots allTrue_sitesOk m8 q _ body _ hb _ (by ep_slots_keep) h'))
      | (have h' : run Flags.allTrue (W.init m8 q) ([.allocMem, .create false] ++ body ++ [.cleanup, .freeMem]) = .ok w := by
           simpa [epJob, condCleanup, Flags.unjoined, Flags.allTrue] using h
         exact strands_of_empty (ep_empty_slots allTrue_sitesOk m8 q _ body _ hb _ (by ep_slots_keep) h'))
      | (have h' : run Flags.allTrue (W.init m8 q) ([.allocInput, .allocMem, .create false] ++ body ++ [.cleanup]) = .ok w := by
           simpa [epJob, condCleanup, Flags.unjoined, Flags.allTrue] using h
         exact strands_of_empty (ep_empty_slots allTrue_sitesOk m8 q _ body _ hb _ (by ep_slots_keep) h'))
      | (have h' : run Flags.allTrue (W.init m8 q) ([.allocInput, .allocMem, .create false] ++ body ++ [.cleanup, .freeMem]) = .ok w := by
           simpa [epJob, condCleanup, Flags.unjoined, Flags.allTrue] using h
         exact strands_of_empty (ep_empty_slots allTrue_sitesOk m8 q _ body _ hb _ (by ep_slots_keep) h'))
  · intro ring fresh h
    cases slice <;> cases ok
    all_goals
      first
      | (have h' : run Flags.allTrue (W.init m8 q) ([.allocMem, .create false, .setDict ring fresh] ++ body ++ [.cleanup]) = .ok w := by
           simpa [epJob, condCleanup, Flags.unjoined, Flags.allTrue] using h
         exact strands_of_empty (ep_empty_slots allTrue_sitesOk m8 q _ body _ hb _ (by ep_slots_keep) h'))
      | (have h' : run Flags.allTrue (W.init m8 q) ([.allocMem, .create false, .setDict ring fresh] ++ body ++ [.cleanup, .freeMem]) = .ok w := by
           simpa [epJob, condCleanup, Flags.unjoined, Flags.allTrue] using h
         exact strands_of_empty (ep_empty_slots allTrue_sitesOk m8 q _ body _ hb _ (by ep_slots_keep) h'))
      | (have h' : run Flags.allTrue (W.init m8 q) ([.allocInput, .allocMem, .create false, .setDict ring fresh] ++ body ++ [.cleanup]) = .ok w := by
           simpa [epJob, condCleanup, Flags.unjoined, Flags.allTrue] using h
         exact strands_of_empty (ep_empty_slots allTrue_sitesOk m8 q _ body _ hb _ (by ep_slots_keep) h'))
      | (have h' : run Flags.allTrue (W.init m8 q) ([.allocInput, .allocMem, .create false, .setDict ring fresh] ++ body ++ [.cleanup, .freeMem]) = .ok w := by
           simpa [epJob, condCleanup, Flags.unjoined, Flags.allTrue] using h
         exact strands_of_empty (ep_empty_slots allTrue_sitesOk m8 q _ body _ hb _ (by ep_slots_keep) h'))
  · intro x xs ring fresh h
    cases slice <;> cases ok
    all_goals
      first
      | (have h' : run Flags.allTrue (W.init m8 q) ([.mkExt (x :: xs), .allocMem, .create false, .setDictExt ring fresh] ++ body ++ [.cleanup]) = .ok w := by
           simpa [epJob, condCleanup, Flags.unjoined, Flags.allTrue] using h
         exact strands_of_empty (ep_empty_slots allTrue_sitesOk m8 q _ body _ hb _ (by ep_slots_keep) h'))
      | (have h' : run Flags.allTrue (W.init m8 q) ([.mkExt (x :: xs), .allocMem, .create false, .setDictExt ring fresh] ++ body ++ [.cleanup, .freeMem]) = .ok w := by
           simpa [epJob, condCleanup, Flags.unjoined, Flags.allTrue] using h
         exact strands_of_empty (ep_empty_slots allTrue_sitesOk m8 q _ body _ hb _ (by ep_slots_keep) h'))
      | (have h' : run Flags.allTrue (W.init m8 q) ([.allocInput, .mkExt (x :: xs), .allocMem, .create false, .setDictExt ring fresh] ++ body ++ [.cleanup]) = .ok w := by
           simpa [epJob, condCleanup, Flags.unjoined, Flags.allTrue] using h
         exact strands_of_empty (ep_empty_slots allTrue_sitesOk m8 q _ body _ hb _ (by ep_slots_keep) h'))
      | (have h' : run Flags.allTrue (W.init m8 q) ([.allocInput, .mkExt (x :: xs), .allocMem, .create false, .setDictExt ring fresh] ++ body ++ [.cleanup, .freeMem]) = .ok w := by
           simpa [epJob, condCleanup, Flags.unjoined, Flags.allTrue] using h
         exact strands_of_empty (ep_empty_slots allTrue_sitesOk m8 q _ body _ hb _ (by ep_slots_keep) h'))

/-- **panicking job**: at whatever point of whatever history the thread unwinds, every block it holds is
    dropped without `free_cell`: the ledger stays clean (nothing is freed twice or elsewhere), nothing is
    referenced any more, and exactly the blocks it held are stranded -/
theorem job_panicked_strands_what_it_held (fl : Flags) (hown : fl.oneshotHasherOwn = true) (m8 q : Nat)
    (done : List Op) (w : W) (h : run fl (W.init m8 q) done = .ok w) :
    (judge (w.acts abandonAllActs).log).clean = true ∧ (w.acts abandonAllActs).enc.held = [] ∧
    (w.acts abandonAllActs).log = w.log ∧
    ∀ b, (judge (w.acts abandonAllActs).log).live.count b = w.enc.held.count b + w.lost.count b := by
  have hw := run_inv_owned hown done _ _ (Inv.init m8 q) h
  have hlog : (w.acts abandonAllActs).log = w.log := by simp [abandonAllActs, W.acts, W.act]
  refine ⟨?_, ?_, hlog, ?_⟩
  · rw [hlog]; exact (clean_iff_bad _).mpr hw.bad
  · apply held_nil_of_slots
    intro s
    cases s <;> simp [abandonAllActs, W.acts, W.act, Enc.get, Enc.set]
  · intro b
    rw [hlog]
    exact hw.live b

/-- the fates of the `t` jobs when job `p` panics (`none`: nobody panics): which theorem applies to which
    allocator -/
theorem multi_fates (t : Nat) (p : Option Nat) (i : Nat) (hi : i < t) :
    (multiFates t p)[i]? = some (match p with
      | none => JobFate.joined
      | some k => if i < k then .joined else if i = k then .panicked else .unjoined) := by
  cases p <;> simp [multiFates, hi]

example : multiFates 4 (some 1) = [.joined, .panicked, .unjoined, .unjoined] := by decide
example : multiFates 3 none = [.joined, .joined, .joined] := by decide

/-! ## Interleavings -/

/-- **interleaving**: however the events of the per-thread allocators are interleaved in time, the whole
    log is clean and balanced iff the sub-log of every allocator is (a block's identity contains its
    allocator, so the sub-logs cannot interfere) -/
theorem interleaving_clean_iff (log : List Ev) :
    ((judge log).clean = true ∧ (judge log).live = []) ↔
      ∀ a, (judge (proj a log)).clean = true ∧ (judge (proj a log)).live = [] := by
  simp only [clean_iff_bad]
  exact interleaving_clean log

/-- given the per-allocator logs `logs a` (thread `a` and the coordinator acting on allocator `a`), ANY
    log whose projections are these — any interleaving — releases everything iff each of them does -/
theorem any_interleaving (logs : Nat → List Ev) (log : List Ev) (hproj : ∀ a, proj a log = logs a) :
    ((judge log).clean = true ∧ (judge log).live = []) ↔
      ∀ a, (judge (logs a)).clean = true ∧ (judge (logs a)).live = [] := by
  rw [interleaving_clean_iff]
  simp [hproj]

/-- two allocators, two interleavings of the same sub-logs, one verdict; and a leak in one sub-log is a
    leak of every interleaving -/
example : (judge [.alloc ⟨0, 0⟩, .alloc ⟨1, 0⟩, .free 1 ⟨1, 0⟩, .free 0 ⟨0, 0⟩]).live = [] ∧
    (judge [.alloc ⟨1, 0⟩, .free 1 ⟨1, 0⟩, .alloc ⟨0, 0⟩, .free 0 ⟨0, 0⟩]).live = [] ∧
    (judge (proj 1 [.alloc ⟨0, 0⟩, .alloc ⟨1, 0⟩, .free 0 ⟨0, 0⟩])).live = [⟨1, 0⟩] := by decide

/-! ## `fast_path_buffers_balanced` -/

theorem fastPrologue_owned (w : W) (kBlock buf : Nat) : ∀ a ∈ fastPrologueActs w kBlock buf, a.owned w.m8 := by
  intro a ha
  unfold fastPrologueActs at ha
  split at ha
  · simp at ha
  · simp only [List.mem_append] at ha
    rcases ha with ha | ha
    · split at ha
      · simp at ha; rcases ha with rfl | rfl <;> simp [Act.owned]
      · simp at ha
    · split at ha
      · simp at ha; rcases ha with rfl | rfl <;> simp [Act.owned]
      · split at ha
        · simp at ha
        · simp at ha; rcases ha with rfl | rfl <;> simp [Act.owned]

theorem fastEpilogue_owned (w : W) (m8 : Nat) (b : Bool) : ∀ a ∈ fastEpilogueActs w b, a.owned m8 := by
  intro a ha
  unfold fastEpilogueActs at ha
  split at ha
  · simp at ha; rcases ha with rfl | rfl | rfl | rfl <;> simp [Act.owned]
  · simp at ha; rcases ha with rfl | rfl <;> simp [Act.owned]

/-- the two-pass buffers are either both absent or one block each -/
def BufShape (e : Enc) : Prop := (e.cbuf = [] ∧ e.lbuf = []) ∨ (∃ c l, e.cbuf = [c] ∧ e.lbuf = [l])

/-- **fast_path_buffers_balanced**: the prologue / epilogue of `compress_stream_fast` (quality 1) —
    allocate the two block-sized buffers into the fields when the input is large, alias the fields into
    locals, or allocate short temporaries; afterwards put the locals back or free them — keeps the ledger
    invariant, loses nothing, leaves no local behind, keeps the fields' shape, gives back exactly the
    blocks it borrowed from the fields, and in the short-input case frees both temporaries -/
theorem fast_path_buffers_balanced (w : W) (hw : Inv w) (kBlock buf : Nat) (ht : w.enc.tmp = [])
    (ht2 : w.enc.tmp2 = []) (hshape : BufShape w.enc) :
    Inv (fastPath w kBlock buf) ∧ (fastPath w kBlock buf).lost = w.lost ∧
    (fastPath w kBlock buf).enc.tmp = [] ∧ (fastPath w kBlock buf).enc.tmp2 = [] ∧
    BufShape (fastPath w kBlock buf).enc ∧
    (w.enc.cbuf ≠ [] → (fastPath w kBlock buf).enc = w.enc ∧ (fastPath w kBlock buf).log = w.log) ∧
    (w.enc.cbuf = [] → buf ≠ kBlock → (fastPath w kBlock buf).enc = w.enc) := by
  have hinv : Inv (fastPath w kBlock buf) := by
    unfold fastPath
    apply Inv.acts
    · exact hw.acts _ (fastPrologue_owned w kBlock buf)
    · exact fastEpilogue_owned _ _ _
  refine ⟨hinv, ?_⟩
  by_cases hq : w.q = 1
  · rcases hshape with ⟨hc, hl⟩ | ⟨c, l, hc, hl⟩
    · by_cases hk : buf = kBlock
      · -- large input: the fields are filled, aliased, and restored
        subst hk
        simp [fastPath, fastPrologueActs, fastEpilogueActs, hq, hc, hl, ht, ht2, W.acts, W.act, Enc.get, Enc.set,
          fresh, BufShape]
      · by_cases h0 : buf = 0
        · subst h0
          have hk' : ¬ (0 = kBlock) := hk
          simp [fastPath, fastPrologueActs, fastEpilogueActs, hq, hc, hl, ht, ht2, hk', W.acts, W.act, Enc.get,
            Enc.set, fresh, BufShape]
          cases hE : w.enc; simp_all
        · simp [fastPath, fastPrologueActs, fastEpilogueActs, hq, hc, hl, ht, ht2, hk, h0, W.acts, W.act, Enc.get,
            Enc.set, fresh, BufShape]
          cases hE : w.enc; simp_all
    · simp [fastPath, fastPrologueActs, fastEpilogueActs, hq, hc, hl, ht, ht2, W.acts, W.act, Enc.get, Enc.set,
        fresh, BufShape]
      cases hE : w.enc; simp_all
  · -- other qualities: nothing happens (`command_buf`, `literal_buf` stay default and their free is a no-op)
    simp [fastPath, fastPrologueActs, fastEpilogueActs, hq, ht, ht2, W.acts, W.act, Enc.get, Enc.set]
    refine ⟨hshape, ?_, ?_⟩ <;> intros <;> (cases hE : w.enc; simp_all)

/-! ## What `ReleasesAll` means (the spec, in event counts) -/

/-- **exactly_once**: if the judge finds a log clean and balanced then, for EVERY block identity, the
    number of times it was handed out is at most one, and it equals both the number of `free` calls
    naming it and the number of those that went through the allocator that produced it: each allocated
    block was freed exactly once, through its own allocator; nothing else was ever freed -/
theorem exactly_once (log : List Ev) (hc : (judge log).clean = true) (hl : (judge log).live = []) (b : BlockId) :
    nAlloc log b ≤ 1 ∧ nFree log b = nAlloc log b ∧ nFreeOwn log b = nAlloc log b := by
  have h := counts_judge log ((clean_iff_bad _).mp hc)
  have ha := h.alloc b
  have hf := h.free b
  have ho := h.own b
  rw [hl] at hf
  by_cases hs : b ∈ (judge log).seen
  · simp [hs] at ha hf
    omega
  · simp [hs] at ha hf
    omega

/-- every entry-point theorem above, read through `exactly_once` -/
theorem releasesAll_exactly_once (w : W) (h : ReleasesAll w) (b : BlockId) :
    nAlloc w.log b ≤ 1 ∧ nFree w.log b = nAlloc w.log b ∧ nFreeOwn w.log b = nAlloc w.log b :=
  exactly_once w.log h.1 h.2 b

/-! ## The current tree -/

/-- the C-ABI destroy and the 1-thread multi helper release everything on the tree this build was
    generated from (they did not before the `fix:` commits; see the counterexamples below) -/
theorem entry_point_releases_all_ffi_current (m8 q : Nat) (body : List Op) (hb : ∀ op ∈ body, op.isBody = true)
    (w : W) (h : run Flags.current (W.init m8 q) (epFfi body) = .ok w) : ReleasesAll w := by
  rw [tree_flags] at h
  exact entry_point_releases_all_ffi m8 q body hb w h

theorem entry_point_releases_all_ffi_single_current (m8 q : Nat) (body : List Op)
    (hb : ∀ op ∈ body, op.isBody = true) (w : W)
    (h : run Flags.current (W.init m8 q) (epFfiSingle Flags.current body) = .ok w) : ReleasesAll w := by
  rw [tree_flags] at h
  exact entry_point_releases_all_ffi_single m8 q body hb w h

theorem entry_point_releases_all_oneshot_current (m8 q other : Nat) (q10 : Bool) (lens : List Nat) (body : List Op)
    (hb : ∀ op ∈ body, op.isBody = true) (w : W)
    (h : run Flags.current (W.init m8 q) (epOneshot Flags.current q10 other lens body) = .ok w) : ReleasesAll w := by
  rw [tree_flags] at h
  exact entry_point_releases_all_oneshot m8 q other q10 lens body hb w h

/-! ## Non-vacuity: the hypotheses are met by concrete, non-trivial histories -/

/-- a history that grows every field of a quality-5 instance, replaces storage and the command array,
    sets a dictionary on the live instance, and has scoped temporaries -/
def sampleBody : List Op :=
  [.setDict (some 500) [16384, 262144],
   .cs { storage := some 200527, commands := some 49169, ring := some 8454153, temps := 17 },
   .cs { storage := some 306313, commands := some 60000, temps := 3 },
   .setDict (some 9000000) [16384, 262144],
   .cs {}]

def sampleBodyQ1 : List Op :=
  [.cs { table := some 131072, q1bufs := some 131072 }, .cs { storage := some 262647, table := some 262144, temps := 2 }]

example : (∀ op ∈ sampleBody, op.isBody = true) ∧ (∀ op ∈ sampleBodyQ1, op.isBody = true) := by decide

/-- (live blocks at the end, allocations, frees) of an accepted history -/
def statsAfter (fl : Flags) (m8 q : Nat) (ops : List Op) : Option (Nat × Nat × Nat) :=
  match run fl (W.init m8 q) ops with
  | .ok w => some ((judge w.log).live.length, (judge w.log).allocs, (judge w.log).frees)
  | .error _ => none

example : statsAfter Flags.allTrue 7 5 (epStream sampleBody) = some (0, 31, 31) := by decide +kernel
example : statsAfter Flags.allTrue 7 5 (epFfi sampleBody) = some (0, 32, 32) := by decide +kernel
example : statsAfter Flags.allTrue 3 1 (epWriter Flags.allTrue sampleBodyQ1) = some (0, 7, 7) := by decide +kernel
example : statsAfter Flags.allTrue 3 9 (epOneshot Flags.allTrue true 4 [1, 2] sampleBody) = some (0, 33, 33) := by decide +kernel
example : statsAfter Flags.allTrue 2 5 (epJob Flags.allTrue true [16384, 262144] (some (some 100, [])) sampleBody true) =
    some (0, 36, 36) := by decide +kernel
example : statsAfter Flags.allTrue 2 5 (epJob Flags.allTrue false [16384, 262144] (some (some 100, [5, 6])) sampleBody false) =
    some (0, 37, 37) := by decide +kernel
/-- the guards are real: storage never shrinks, a hasher is not set up twice, no hash table at quality 5 -/
example : run Flags.allTrue (W.init 0 5) [.create false, .cs { storage := some 10 }, .cs { storage := some 10 }] =
    .error "storage-not-grown" := rfl
example : run Flags.allTrue (W.init 0 5) [.create false, .cs { hasher := [1] }, .cs { hasher := [1] }] =
    .error "hasher-setup" := rfl
example : run Flags.allTrue (W.init 0 5) [.create false, .cs { table := some 4096 }] = .error "table" := rfl

/-! ## The defects: what each site flag is needed for (counterexamples on the model, replayed on the
real code by `bvh ledger d9` before the `fix:` commits) -/

def owedAfter (fl : Flags) (q : Nat) (ops : List Op) : Nat × Nat :=
  match run fl (W.init 0 q) ops with
  | .ok w => ((judge w.log).live.length, (judge w.log).foreign)
  | .error _ => (0, 0)

/-- D9: without the cleanup call the C-ABI destroy leaves the five blocks of a quality-5 instance live -/
theorem ffi_destroy_needs_cleanup :
    owedAfter { Flags.allTrue with ffiDestroyCleanup := false } 5
      (epFfi [.cs { storage := some 200527, commands := some 49169, ring := some 8454153, hasher := [16384, 262144] }]) = (5, 0) := rfl

/-- D9, second site: `help_brotli_encoder_compress_single` -/
theorem ffi_single_needs_cleanup :
    owedAfter { Flags.allTrue with ffiSingleCleanup := false } 5
      (epFfiSingle { Flags.allTrue with ffiSingleCleanup := false }
        [.cs { storage := some 200527, commands := some 49169, ring := some 8454153, hasher := [16384, 262144] }]) = (5, 0) := rfl

/-- quality-10 one-shot: a hasher taken from the spare allocator is freed through the caller's -/
theorem oneshot_q10_needs_own_allocator :
    owedAfter { Flags.allTrue with oneshotHasherOwn := false } 9
      (epOneshot { Flags.allTrue with oneshotHasherOwn := false } true 1 [1, 2] [.cs { storage := some 100 }]) = (0, 2) := rfl

/-- `set_custom_dictionary` on an instance that already has a hasher -/
theorem set_dict_needs_free :
    owedAfter { Flags.allTrue with setDictFrees := false } 5
      (epStream [.setDict (some 500) [1, 2], .setDict (some 900) [1, 2]]) = (2, 0) := rfl

/-- writer `Drop` that skips the destroy (the regression catalogue's mutant) -/
theorem writer_drop_needs_destroy :
    owedAfter Flags.allTrue 5 (epWriter { Flags.allTrue with writerDropDestroys := false } [.cs { storage := some 100 }]) = (1, 0) := rfl

end BV.Props.C09
