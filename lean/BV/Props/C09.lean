import BV.Lemmas.LedgerEntry
/-!
# C09 — every block obtained from a plugged-in allocator is returned to it exactly once

Model: `BV/Model/Ledger.lean` (slots + ledger + sites + entry points, assembled under the site flags
regenerated from the Rust source).  Spec side: `judge` (independent replay of a raw event log) and the
count-based reading `exactly_once`.

Hypothesis of the whole file (oracle, checked at run time by the harness after every call):
`ScopedBalanced` — temporaries of one call are allocated and freed inside it; in the model a call's
temporaries are `scopedActs`.  For the multi-threaded entry points: no job panics.
-/
namespace BV.Props.C09
open BV.Ledger

/-! ## The tree this build was generated from -/

/-- every site flag extracted from the current Rust sources has the value the proofs need; if a fix
    is reverted (or a new exit path forgets the cleanup) the generated flag flips and this fails -/
theorem tree_flags : Flags.current = Flags.allTrue := by decide

theorem allTrue_sitesOk : Flags.allTrue.sitesOk = true := rfl

/-- the owning fields of `BrotliEncoderStateStruct`, as generated from the struct definition, are
    exactly the model's seven field slots, and `cleanup` names every one of them -/
theorem fields_generated :
    (∀ f ∈ BV.Gen.encoderAllocFields, f ∈ fieldSlots.map Prod.fst) ∧
    (∀ f ∈ fieldSlots.map Prod.fst, f ∈ BV.Gen.encoderAllocFields) ∧
    (∀ f ∈ BV.Gen.encoderAllocFields, f ∈ BV.Gen.cleanupFreedFields) ∧
    BV.Gen.encoderAllocFields.length = 7 ∧ BV.Gen.ringBufferAllocFields = ["data_mo"] := by decide

/-- the model's `cleanup` is the generated list of released fields, in source order -/
theorem cleanup_generated :
    cleanupActs = BV.Gen.cleanupFreedFields.filterMap (fun f => (fieldSlots.lookup f).map Act.free) := by decide

/-- every hasher variant releases at most two blocks and `Uninit` none (what the `hasher` slot assumes) -/
theorem hasher_arms_generated :
    (∀ v ∈ BV.Gen.hasherVariants, v ∈ BV.Gen.hasherFreeArms.map Prod.fst) ∧
    (∀ a ∈ BV.Gen.hasherFreeArms, a.2 ≤ 2) ∧ BV.Gen.hasherFreeArms.lookup "Uninit" = some 0 := by decide

/-! ## `ledger_wf` -/

/-- **ledger_wf**: for every accepted history of the model (any op sequence, any parameters), from a
    fresh instance: no block is freed twice, no free names a block that was never allocated, every free
    goes through the allocator that produced the block, no identity is handed out twice.  Needs only
    that every allocation is made from the instance's own allocator (the one-shot fix). -/
theorem ledger_wf (fl : Flags) (hown : fl.oneshotHasherOwn = true) (m8 q : Nat) (ops : List Op) (w : W)
    (h : run fl (W.init m8 q) ops = .ok w) :
    (judge w.log).foreign = 0 ∧ (judge w.log).double = 0 ∧ (judge w.log).unknown = 0 ∧
      (judge w.log).realloc = 0 := by
  have hb := (run_inv_owned hown ops _ _ (Inv.init m8 q) h).bad
  simp only [Judge.bad] at hb
  omega

/-- **the live set is exactly what the slots reference** (plus what a defective site abandoned): the
    model-side statement of the harness oracle "live set == blocks held by the long-lived fields" -/
theorem live_is_fields (fl : Flags) (hown : fl.oneshotHasherOwn = true) (m8 q : Nat) (ops : List Op) (w : W)
    (h : run fl (W.init m8 q) ops = .ok w) (b : BlockId) :
    (judge w.log).live.count b = w.enc.held.count b + w.lost.count b :=
  (run_inv_owned hown ops _ _ (Inv.init m8 q) h).live b

/-- on the current tree nothing is ever abandoned -/
theorem nothing_lost (m8 q : Nat) (ops : List Op) (w : W) (h : run Flags.current (W.init m8 q) ops = .ok w) :
    w.lost = [] := by
  rw [tree_flags] at h
  exact (run_inv allTrue_sitesOk ops _ _ (Inv.init m8 q) h).2.1

/-! ## `cleanup_frees_all_fields` -/

/-- **cleanup_frees_all_fields**: after `cleanup`, whatever the history before, each of the seven
    owning fields is empty, the blocks they held are not live, and nothing else changed hands -/
theorem cleanup_frees_all_fields (fl : Flags) (hown : fl.oneshotHasherOwn = true) (m8 q : Nat) (ops : List Op)
    (w w' : W) (h : run fl (W.init m8 q) ops = .ok w) (hc : step fl w .cleanup = .ok w') :
    w'.enc.fields = [] ∧ (∀ b ∈ w.enc.fields, b ∉ (judge w'.log).live) ∧
    (∀ s, s.isField = false → w'.enc.get s = w.enc.get s) := by
  have hw := run_inv_owned hown ops _ _ (Inv.init m8 q) h
  have hw' := step_inv_owned hown hw hc
  obtain ⟨_, rfl⟩ := step_ok hc
  have hf : ∀ s, s.isField = true → (opBook (w.acts (opActs fl w.m8 .cleanup)) .cleanup).enc.get s = [] := by
    intro s hs
    rw [opBook_enc]
    exact acts_emptyAfter s _ w false (by simp) (cleanup_empties_fields s hs false)
  refine ⟨?_, ?_, ?_⟩
  · have h1 := hf .storage rfl; have h2 := hf .commands rfl; have h3 := hf .ring rfl
    have h4 := hf .hasher rfl; have h5 := hf .table rfl; have h6 := hf .cbuf rfl; have h7 := hf .lbuf rfl
    simp only [Enc.get] at h1 h2 h3 h4 h5 h6 h7
    simp [Enc.fields, h1, h2, h3, h4, h5, h6, h7]
  · intro b hb
    -- the free event of `b` is in the log, and the log is clean
    apply freed_not_live (via := w.m8) _ hw'.bad
    simp only [opBook_log, opActs, cleanupActs, W.acts, List.foldl, W.act, Enc.get, Enc.set]
    simp only [Enc.fields, List.mem_append] at hb
    simp only [List.mem_append, List.mem_map]
    rcases hb with (((((hb | hb) | hb) | hb) | hb) | hb) | hb
    · exact Or.inl (Or.inl (Or.inl (Or.inl (Or.inl (Or.inl (Or.inr ⟨b, hb, rfl⟩))))))
    · exact Or.inl (Or.inl (Or.inl (Or.inl (Or.inl (Or.inr ⟨b, hb, rfl⟩)))))
    · exact Or.inl (Or.inl (Or.inl (Or.inl (Or.inr ⟨b, hb, rfl⟩))))
    · exact Or.inl (Or.inl (Or.inl (Or.inr ⟨b, hb, rfl⟩)))
    · exact Or.inl (Or.inl (Or.inr ⟨b, hb, rfl⟩))
    · exact Or.inl (Or.inr ⟨b, hb, rfl⟩)
    · exact Or.inr ⟨b, hb, rfl⟩
  · intro s hs
    rw [opBook_enc]
    cases s <;> simp [Slot.isField] at hs <;> rfl

/-! ## `replace_frees_old` -/

/-- the four growth sites: `get_brotli_storage`, `GetHashTableInternal`, `RingBufferInitBuffer`, the
    command-array growth of `encode_data` -/
def growthSite (m8 : Nat) : Slot → List Act
  | .storage => storageGrowActs m8
  | .table => tableGrowActs m8
  | .ring => ringInitActs m8
  | .commands => commandsGrowActs m8
  | _ => []

def isGrowthSlot : Slot → Bool
  | .storage | .table | .ring | .commands => true
  | _ => false

/-- **replace_frees_old**: in any state reachable by the model (invariant), a growth site frees the
    block it replaces through the instance's allocator, leaves exactly one fresh block in the field,
    and the replaced block is not live afterwards — right after the site and after any later actions -/
theorem replace_frees_old (w : W) (hw : Inv w) (s : Slot) (hs : isGrowthSlot s = true) (htmp : w.enc.tmp = [])
    (b : BlockId) (hb : b ∈ w.enc.get s) (later : List Act)
    (hlater : ∀ a ∈ later, a.owned w.m8) :
    Ev.free w.m8 b ∈ (w.acts (growthSite w.m8 s)).log ∧
    (w.acts (growthSite w.m8 s)).enc.get s = [⟨w.m8, w.next⟩] ∧
    b ∉ (judge (w.acts (growthSite w.m8 s)).log).live ∧
    b ∉ (judge ((w.acts (growthSite w.m8 s)).acts later).log).live := by
  have hown : ∀ a ∈ growthSite w.m8 s, a.owned w.m8 := by
    intro a ha
    cases s <;> simp [isGrowthSlot] at hs <;>
      simp [growthSite, storageGrowActs, tableGrowActs, ringInitActs, commandsGrowActs] at ha <;>
      rcases ha with rfl | rfl | rfl <;> simp [Act.owned]
  have hw1 := hw.acts _ hown
  have hw2 := hw1.acts later (by intro a ha; rw [acts_m8]; exact hlater a ha)
  have hmem : Ev.free w.m8 b ∈ (w.acts (growthSite w.m8 s)).log := by
    cases s <;> simp [isGrowthSlot] at hs <;>
      simp [growthSite, storageGrowActs, tableGrowActs, ringInitActs, commandsGrowActs, W.acts, W.act,
        Enc.get, Enc.set, fresh] at hb ⊢ <;> exact Or.inr hb
  have hslot : (w.acts (growthSite w.m8 s)).enc.get s = [⟨w.m8, w.next⟩] := by
    cases s <;> simp [isGrowthSlot] at hs <;>
      simp [growthSite, storageGrowActs, tableGrowActs, ringInitActs, commandsGrowActs, W.acts, W.act,
        Enc.get, Enc.set, fresh, htmp]
  refine ⟨hmem, hslot, freed_not_live hmem hw1.bad, ?_⟩
  obtain ⟨suf, hsuf⟩ := acts_log_prefix (w.acts (growthSite w.m8 s)) later
  exact freed_not_live (via := w.m8) (by rw [hsuf]; exact List.mem_append_left _ hmem) hw2.bad

end BV.Props.C09
