/-
C01Chain — from the match finders to the decoder: the commands `CreateBackwardReferences` produces
(quality 2–9 loop, model BV/Model/Cbr.lean) satisfy the hypotheses `cmdOK` / `lockstep` /
`replayCommands … = some (hist ++ mb)` under which BV/Props/C01MetaBlock.lean proves that the
meta-block writers round-trip — for whichever matches the hasher returns.

Property theorems ONLY.  Definitions of `cmdOK`, `lockstep`, the writers and the RFC reader are
w-metablock's (BV/Model/MetaBlock.lean, imported, not copied); `decStep` / `replayCommands` are C14's
(BV/Model/Recoder.lean).  Helper lemmas: BV/Lemmas/Cbr{Emit,Loop,Good,Ops}.lean and BV/Lemmas/Match*.lean.

Scope: one `CreateBackwardReferences` call covering one meta-block (`mb` = the `last_insert_len`
pending literals followed by the `num_bytes` of the block), NPOSTFIX = NDIRECT = 0 (what quality 2–3
and every non-FONT mode use), positions = number of bytes produced so far (no wrap of the 3 GiB
position counter), H10 / Zopfli (quality 10, 11) out of scope.

The ring hypothesis (`BlockOK.ring`) is EXACTLY w-stream's `RingViewW` (BV/Props/C01.lean), which
`ring_view_w` proves from the `RingBufferWrite` invariant `RingOK` (`ring_buffer_faithful`): positions at
their offset, wrapped positions with offset < tail mirrored behind the ring; nothing about the 7 slack
bytes or about tail cells of first-lap positions.  `ring_hypothesis_of_ringOK`, `blockOK_of_ringOK` and
`cbr_fast_roundtrip_of_ringOK` compose the two developments.  The one remaining representation step is
`hdata`: the `ByteArray` the match-finder models read is the slice `data_mo[2..]` of w-stream's cell
map (`(data.get! i).toNat = rb.get (2 + i)` for the cells of ring + tail).  Side conditions: the tail is
at most the ring (`RingGeom.tail`) and the bytes handed to the call are at most one tail (input block).
-/
import BV.Lemmas.CbrOps
import BV.Lemmas.CbrDict
import BV.Props.C01MetaBlock

namespace BV.Props.C01Chain
open BV.Hasher BV.MatchFinder BV.Recoder BV.PrefixArith BV.MetaBlock BV.Cbr

/-- the hypotheses about one meta-block shared by the theorems below -/
structure BlockOK (p : Params) (large : Bool) (data : ByteArray) (k tail : Nat) (hist mb : Bytes) (lo : Nat) : Prop where
  np : p.npostfix = 0
  nd : p.ndirect = 0
  /-- the ring hypothesis is EXACTLY w-stream's `RingViewW` (proved from `RingOK` by `ring_view_w`),
  over the bytes of the slice the hashers read: the ring (size `2^k`) holds the text `hist ++ mb` from
  position `lo` on at offset `p mod 2^k`, and wrapped positions with offset below `tail` are also
  behind the ring; `lo` is at least a window before the block -/
  ring : BV.Props.C01.RingViewW (ringBytes data) k tail (hist ++ mb) lo (hist.length + mb.length)
  /-- `tail_size_` (one input block) is at most the ring (`RingGeom.tail`: even half of it), and the
  bytes handed to this call — pending literals + block — are at most one input block, so that no match
  read runs past ring + tail -/
  tail_le : tail ≤ 2 ^ k
  block_le : mb.length ≤ tail
  lo_le : lo ≤ hist.length - maxBackwardLimit p
  /-- `2^lgwin - 16 ≤ 2^30` (lgwin ≤ 30); the standard distance alphabet is only used up to lgwin 24,
  with `params.dist.max_distance = 0x3FFFFFC` (the bound `TestStaticDictionaryItem` checks) -/
  window : maxBackwardLimit p ≤ 2 ^ 30
  std : large = false → maxBackwardLimit p ≤ 2 ^ 26 - 4
  dist : large = false → p.maxDistance ≤ 2 ^ 26 - 4
  len : mb.length ≤ 2 ^ 24
  total : hist.length + mb.length < 2 ^ 64

/-- **commands_lockstep** (abstract hasher): for EVERY hasher whose `true` results are sound (`OpsOK`,
i.e. the conclusion of `match_sound_*`: a copy whose bytes agree in the ring buffer, or a static
dictionary reference `DictOK` to a slot that satisfies the word-oracle hypothesis `SlotOK wo`) —
whatever it finds, misses, stores or skips — every starting distance cache of `i32`s, every pending `last_insert_len`, every
block: the command list of `CreateBackwardReferences`, closed with the insert-only command for the
trailing literals as `encode.rs` does, satisfies `cmdOK` for every command and `lockstep`, and the
RFC decoder replays it to exactly `hist ++ mb`. -/
theorem commands_lockstep {H : Type} (ops : HasherOps H) (p : Params) (large : Bool) (wo : WordOracle)
    (data : ByteArray) (k tail : Nat) (hist mb : Bytes) (lo : Nat)
    (hb : BlockOK p large data k tail hist mb lo) (hops : OpsOK (SlotOK wo) ops p data k)
    (numBytes position : Nat) (h0 : H) (cache : List Int) (lastInsertLen numLiterals : Nat) (res : Result H)
    (hpos : position = hist.length + lastInsertLen) (hmb : mb.length = lastInsertLen + numBytes)
    (hc : CacheI32 cache) (hcl : 4 ≤ cache.length)
    (h : createBackwardReferences ops p numBytes position h0 cache lastInsertLen numLiterals = some res) :
    (∀ c ∈ closeMetaBlock res.cmds res.lastInsertLen, cmdOK (distAlphabetSize large 0 0) 0 0 c = true) ∧
    lockstep wo 0 0 (maxBackwardLimit p) mb ⟨hist, cache.take 4, 0⟩ 0
      (closeMetaBlock res.cmds res.lastInsertLen) = true ∧
    replayCommands wo 0 0 (maxBackwardLimit p) mb (cache.take 4) hist
      (closeMetaBlock res.cmds res.lastInsertLen) = some (hist ++ mb) := by
  have p24 : (2 : Nat) ^ 24 = 16777216 := by decide
  obtain ⟨a, b, c⟩ := cbr_lockstep (C := ⟨wo, data, k, hist, mb, lo⟩) hops
    (emitHyp_all ⟨wo, data, k, hist, mb, lo⟩ p large hb.np hb.nd tail hb.ring hb.tail_le hb.block_le hb.lo_le hb.window hb.std hb.dist hb.len)
    (fun l _ hl => cmdOK_initInsert large l (Nat.le_trans hl hb.len))
    numBytes position h0 cache lastInsertLen numLiterals res hpos hmb (show mb.length < 2 ^ 32 by have := hb.len; omega) hb.total hc hcl h
  simp only [hb.np, hb.nd] at a c
  exact ⟨b, a, c⟩

/-- the three bucketed families: NOTHING about the hasher is assumed — `OpsOK` is
`match_sound_basic/adv/h9`.  The static dictionary enters through `dict` (the slots looked up for the
four bytes at a ring position) and `DictFaithful wo dict data`: every non-empty slot agrees with the
decoder's word oracle (`SlotOK`: length 4..24, NDBITS, index in range, and the oracle's expansion
under each of the ten cut-off transforms is the word minus its last `cut` bytes).  With the
dictionary off (`dict = fun _ _ => none`, `params.use_dictionary = false`, every catable / appendable
stream) that hypothesis is `dictFaithful_none`, i.e. nothing. -/
theorem commands_lockstep_basic (P : BasicP) (useDict : Bool) (lbs : Nat) (p : Params) (large : Bool) (wo : WordOracle)
    (data : ByteArray) (k tail : Nat) (hk : k ≤ 32) (hist mb : Bytes) (lo : Nat) (hb : BlockOK p large data k tail hist mb lo)
    (dict : ByteArray → Nat → Option (List DictItem)) (hd : DictFaithful wo dict data)
    (numBytes position : Nat) (b0 : Tab) (c0 : Common) (cache : List Int) (lastInsertLen numLiterals : Nat)
    (res : Result (Tab × Common))
    (hpos : position = hist.length + lastInsertLen) (hmb : mb.length = lastInsertLen + numBytes)
    (hc : CacheI32 cache) (hcl : 4 ≤ cache.length)
    (h : createBackwardReferences (basicOps P useDict lbs dict data (2 ^ k - 1)) p numBytes position
      (b0, c0) cache lastInsertLen numLiterals = some res) :
    (∀ c ∈ closeMetaBlock res.cmds res.lastInsertLen, cmdOK (distAlphabetSize large 0 0) 0 0 c = true) ∧
    lockstep wo 0 0 (maxBackwardLimit p) mb ⟨hist, cache.take 4, 0⟩ 0 (closeMetaBlock res.cmds res.lastInsertLen) = true ∧
    replayCommands wo 0 0 (maxBackwardLimit p) mb (cache.take 4) hist (closeMetaBlock res.cmds res.lastInsertLen)
      = some (hist ++ mb) :=
  commands_lockstep _ p large wo data k tail hist mb lo hb
    (basicOps_ok _ P useDict lbs _ data k hk p hd)
    numBytes position (b0, c0) cache lastInsertLen numLiterals res hpos hmb hc hcl h

theorem commands_lockstep_adv (P : AdvP) (hla : 4 ≤ P.lookahead) (numLast lbs : Nat) (p : Params) (large : Bool)
    (wo : WordOracle) (data : ByteArray) (k tail : Nat) (hk : k ≤ 32) (hist mb : Bytes) (lo : Nat)
    (hb : BlockOK p large data k tail hist mb lo)
    (dict : ByteArray → Nat → Option (List DictItem)) (hd : DictFaithful wo dict data)
    (numBytes position : Nat) (st0 : AdvSt) (c0 : Common) (cache : List Int) (lastInsertLen numLiterals : Nat)
    (res : Result (AdvSt × Common))
    (hpos : position = hist.length + lastInsertLen) (hmb : mb.length = lastInsertLen + numBytes)
    (hc : CacheI32 cache) (hcl : 4 ≤ cache.length)
    (h : createBackwardReferences (advOps P numLast lbs dict data (2 ^ k - 1)) p numBytes position
      (st0, c0) cache lastInsertLen numLiterals = some res) :
    (∀ c ∈ closeMetaBlock res.cmds res.lastInsertLen, cmdOK (distAlphabetSize large 0 0) 0 0 c = true) ∧
    lockstep wo 0 0 (maxBackwardLimit p) mb ⟨hist, cache.take 4, 0⟩ 0 (closeMetaBlock res.cmds res.lastInsertLen) = true ∧
    replayCommands wo 0 0 (maxBackwardLimit p) mb (cache.take 4) hist (closeMetaBlock res.cmds res.lastInsertLen)
      = some (hist ++ mb) :=
  commands_lockstep _ p large wo data k tail hist mb lo hb
    (advOps_ok _ P numLast lbs _ data k hk p hla hd)
    numBytes position (st0, c0) cache lastInsertLen numLiterals res hpos hmb hc hcl h

theorem commands_lockstep_h9 (P : H9P) (lbs : Nat) (p : Params) (large : Bool)
    (wo : WordOracle) (data : ByteArray) (k tail : Nat) (hk : k ≤ 32) (hist mb : Bytes) (lo : Nat)
    (hb : BlockOK p large data k tail hist mb lo)
    (dict : ByteArray → Nat → Option (List DictItem)) (hd : DictFaithful wo dict data)
    (numBytes position : Nat) (st0 : AdvSt) (c0 : Common) (cache : List Int) (lastInsertLen numLiterals : Nat)
    (res : Result (AdvSt × Common))
    (hpos : position = hist.length + lastInsertLen) (hmb : mb.length = lastInsertLen + numBytes)
    (hc : CacheI32 cache) (hcl : 4 ≤ cache.length)
    (h : createBackwardReferences (h9Ops P lbs dict data (2 ^ k - 1)) p numBytes position
      (st0, c0) cache lastInsertLen numLiterals = some res) :
    (∀ c ∈ closeMetaBlock res.cmds res.lastInsertLen, cmdOK (distAlphabetSize large 0 0) 0 0 c = true) ∧
    lockstep wo 0 0 (maxBackwardLimit p) mb ⟨hist, cache.take 4, 0⟩ 0 (closeMetaBlock res.cmds res.lastInsertLen) = true ∧
    replayCommands wo 0 0 (maxBackwardLimit p) mb (cache.take 4) hist (closeMetaBlock res.cmds res.lastInsertLen)
      = some (hist ++ mb) :=
  commands_lockstep _ p large wo data k tail hist mb lo hb
    (h9Ops_ok _ P lbs _ data k hk p hd)
    numBytes position (st0, c0) cache lastInsertLen numLiterals res hpos hmb hc hcl h

/-- non-vacuity: a concrete ring buffer (first lap: tail and slack all zero, as the code leaves them), hasher, dictionary slot and word oracle satisfy every
hypothesis of `commands_lockstep_basic`; the run emits a static-dictionary reference, and
`commands_lockstep_basic` yields that the RFC decoder replays the closed command list to the text -/
example : ∃ res, createBackwardReferences (basicOps Example.hasher true 540 Example.dict Example.data (2 ^ 6 - 1))
      Example.params 32 0 (Array.replicate 32 0, ⟨0, 0⟩) [4, 11, 15, 16] 0 0 = some res ∧
    closeMetaBlock res.cmds res.lastInsertLen = [⟨8, 4, 1, 186, 3092⟩, initInsert 20] ∧
    replayCommands Example.oracle 0 0 (maxBackwardLimit Example.params) Example.text [4, 11, 15, 16] []
      (closeMetaBlock res.cmds res.lastInsertLen) = some Example.text := by
  have hb : BlockOK Example.params false Example.data 6 32 [] Example.text 0 :=
    ⟨rfl, rfl, Example.ring_ok, by decide, by decide, by decide, by decide, fun _ => by decide, fun _ => by decide,
      by decide, by decide⟩
  cases hr : createBackwardReferences (basicOps Example.hasher true 540 Example.dict Example.data (2 ^ 6 - 1))
      Example.params 32 0 (Array.replicate 32 0, ⟨0, 0⟩) [4, 11, 15, 16] 0 0 with
  | none => have := Example.run; rw [hr] at this; cases this
  | some res =>
    have hrun := Example.run
    rw [hr] at hrun
    simp only [Option.map_some, Option.some.injEq, Prod.mk.injEq] at hrun
    obtain ⟨_, _, hrep⟩ := commands_lockstep_basic Example.hasher true 540 Example.params false Example.oracle
      Example.data 6 32 (by decide) [] Example.text 0 hb Example.dict Example.dict_ok 32 0 (Array.replicate 32 0) ⟨0, 0⟩
      [4, 11, 15, 16] 0 0 res rfl rfl (by intro x hx; simp at hx; rcases hx with rfl | rfl | rfl | rfl <;> decide)
      (by decide) hr
    refine ⟨res, rfl, ?_, by simpa using hrep⟩
    rw [hrun.1, hrun.2.1]; rfl

/-! ## the chain: CreateBackwardReferences ∘ writer ∘ RFC reader = history ++ block -/

/-- **cbr_fast_roundtrip** — `fast_metablock_roundtrip` (quality 2, `BrotliStoreMetaBlockFast`) with its
command hypotheses DISCHARGED: the commands are those of `CreateBackwardReferences` over any sound
hasher; the writer does not panic, and the RFC reader, started with the decoder state
`(hist, distance cache)`, consumes exactly the emitted bits and outputs `hist ++ mb`.
(`ring`/`RingHolds`/`inputPairCheck` are the writer's view of the same ring buffer.) -/
theorem cbr_fast_roundtrip {H : Type} (ops : HasherOps H) (p : Params) (large : Bool) (wo : WordOracle)
    (data : ByteArray) (k tail : Nat) (hist mb : Bytes) (lo : Nat)
    (hb : BlockOK p large data k tail hist mb lo) (hops : OpsOK (SlotOK wo) ops p data k)
    (numBytes position : Nat) (h0 : H) (cache : List Int) (lastInsertLen numLiterals : Nat) (res : Result H)
    (hpos : position = hist.length + lastInsertLen) (hmb : mb.length = lastInsertLen + numBytes)
    (hc : CacheI32 cache) (hcl : 4 ≤ cache.length)
    (h : createBackwardReferences ops p numBytes position h0 cache lastInsertLen numLiterals = some res)
    (ring : Bytes) (start mask : Nat) (isLast : Bool) (w : List Bool)
    (hR : RingHolds ring mask start mb) (h256 : ∀ b ∈ mb, b < 256) (h1 : 1 ≤ mb.length) (hst : start < 2 ^ 64)
    (hIP : inputPairCheck ring start mb.length mask = .ok ()) :
    ∃ bits ring',
      storeMetaBlockFast ring start mb.length mask isLast (distAlphabetSize large 0 0)
        (closeMetaBlock res.cmds res.lastInsertLen) w = .ok (w ++ bits) ∧
      ∀ rest, readMetaBlockFull wo (maxBackwardLimit p) large w.length ⟨hist, cache.take 4⟩ (bits ++ rest)
        = some (⟨hist ++ mb, ring'⟩, isLast, (w ++ bits).length, rest) := by
  obtain ⟨hok, hlock, hrep⟩ := commands_lockstep ops p large wo data k tail hist mb lo hb hops numBytes position h0 cache
    lastInsertLen numLiterals res hpos hmb hc hcl h
  obtain ⟨bits, out, ring', e, _, hrd, hout⟩ := BV.Props.C01MetaBlock.fast_metablock_roundtrip wo (maxBackwardLimit p)
    large ring start mask mb isLast _ hist (cache.take 4) w hR h256 h1 hb.len hst hIP hok hlock
  have := hout hrep
  subst this
  exact ⟨bits, ring', e, hrd⟩

/-- **cbr_trivial_roundtrip** — the same for quality 3 (`BrotliStoreMetaBlockTrivial`) -/
theorem cbr_trivial_roundtrip {H : Type} (ops : HasherOps H) (p : Params) (large : Bool) (wo : WordOracle)
    (data : ByteArray) (k tail : Nat) (hist mb : Bytes) (lo : Nat)
    (hb : BlockOK p large data k tail hist mb lo) (hops : OpsOK (SlotOK wo) ops p data k)
    (numBytes position : Nat) (h0 : H) (cache : List Int) (lastInsertLen numLiterals : Nat) (res : Result H)
    (hpos : position = hist.length + lastInsertLen) (hmb : mb.length = lastInsertLen + numBytes)
    (hc : CacheI32 cache) (hcl : 4 ≤ cache.length)
    (h : createBackwardReferences ops p numBytes position h0 cache lastInsertLen numLiterals = some res)
    (ring : Bytes) (start mask : Nat) (isLast : Bool) (w : List Bool)
    (hR : RingHolds ring mask start mb) (h256 : ∀ b ∈ mb, b < 256) (h1 : 1 ≤ mb.length) (hst : start < 2 ^ 64)
    (hIP : inputPairCheck ring start mb.length mask = .ok ()) :
    ∃ bits ring',
      storeMetaBlockTrivial ring start mb.length mask isLast (distAlphabetSize large 0 0)
        (closeMetaBlock res.cmds res.lastInsertLen) w = .ok (w ++ bits) ∧
      ∀ rest, readMetaBlockFull wo (maxBackwardLimit p) large w.length ⟨hist, cache.take 4⟩ (bits ++ rest)
        = some (⟨hist ++ mb, ring'⟩, isLast, (w ++ bits).length, rest) := by
  obtain ⟨hok, hlock, hrep⟩ := commands_lockstep ops p large wo data k tail hist mb lo hb hops numBytes position h0 cache
    lastInsertLen numLiterals res hpos hmb hc hcl h
  obtain ⟨bits, out, ring', e, _, hrd, hout⟩ := BV.Props.C01MetaBlock.trivial_metablock_roundtrip wo (maxBackwardLimit p)
    large ring start mask mb isLast _ hist (cache.take 4) w hR h256 h1 hb.len hst hIP hok hlock
  have := hout hrep
  subst this
  exact ⟨bits, ring', e, hrd⟩

/-! ## the ring hypothesis from w-stream's `RingBufferWrite` invariant

w-stream models `data_mo` as a cell map (`rb.get`); the match-finder models read a `ByteArray` (the slice
`data_mo[2..]`).  The bridge is the one-line abstraction `hdata`: byte `i` of the slice is cell `2 + i`,
for the cells of ring + tail (nothing is said about the slack). -/

/-- **ring_hypothesis_of_ringOK**: `RingOK` (what `ring_buffer_faithful` establishes after any call
history) yields the ring hypothesis of `BlockOK`, for the last `size_` bytes of the text -/
theorem ring_hypothesis_of_ringOK {rb : BV.Stream.Ring} {T : Bytes} {k : Nat} (data : ByteArray)
    (hR : BV.Stream.RingOK rb T) (hk : rb.size = 2 ^ k)
    (hdata : ∀ i, i < 2 ^ k + rb.tailSize → (data.get! i).toNat = rb.get (2 + i)) :
    BV.Props.C01.RingViewW (ringBytes data) k rb.tailSize T (T.length - rb.size) T.length ∧ rb.tailSize ≤ 2 ^ k := by
  have hv := BV.Props.C01.ring_view_w hR hk
  have ht : rb.tailSize ≤ 2 ^ k := by have := hR.geom.tail; omega
  have hpos : 0 < 2 ^ k := Nat.pow_pos (by decide)
  refine ⟨⟨?_, ?_⟩, ht⟩
  · intro p hlo hhi
    have := hv.holds p hlo hhi
    have hm := Nat.mod_lt p hpos
    simp only [ringBytes, hdata (p % 2 ^ k) (by omega)]
    exact this
  · intro p hlo hhi hge hr
    have := hv.mirror p hlo hhi hge hr
    simp only [ringBytes, hdata (2 ^ k + p % 2 ^ k) (by omega)]
    exact this

/-- `BlockOK` from `RingOK`: the ring invariant, the ring being at least window + block long (it is
`2^(max(lgwin, lgblock) + 1)`), and the block at most one input block (`tail_size_`) -/
theorem blockOK_of_ringOK {rb : BV.Stream.Ring} (p : Params) (large : Bool) (data : ByteArray) (k : Nat)
    (hist mb : Bytes) (hR : BV.Stream.RingOK rb (hist ++ mb)) (hk : rb.size = 2 ^ k)
    (hdata : ∀ i, i < 2 ^ k + rb.tailSize → (data.get! i).toNat = rb.get (2 + i))
    (hnp : p.npostfix = 0) (hnd : p.ndirect = 0) (hwb : maxBackwardLimit p + mb.length ≤ rb.size)
    (hblk : mb.length ≤ rb.tailSize) (hwin : maxBackwardLimit p ≤ 2 ^ 30)
    (hstd : large = false → maxBackwardLimit p ≤ 2 ^ 26 - 4) (hdist : large = false → p.maxDistance ≤ 2 ^ 26 - 4)
    (hlen : mb.length ≤ 2 ^ 24) (htot : hist.length + mb.length < 2 ^ 64) :
    BlockOK p large data k rb.tailSize hist mb (hist.length + mb.length - rb.size) := by
  obtain ⟨hv, ht⟩ := ring_hypothesis_of_ringOK data hR hk hdata
  rw [List.length_append] at hv
  exact ⟨hnp, hnd, hv, ht, hblk, by omega, hwin, hstd, hdist, hlen, htot⟩

/-- **cbr_fast_roundtrip_of_ringOK** — the composed corollary: the ring hypothesis of `cbr_fast_roundtrip`
discharged by w-stream's ring-buffer invariant.  After any history that leaves `RingOK rb (hist ++ mb)`
(`ring_buffer_faithful`), with `data` = the slice the hashers read (`hdata`), the commands of
`CreateBackwardReferences` written by `BrotliStoreMetaBlockFast` decode to `hist ++ mb`. -/
theorem cbr_fast_roundtrip_of_ringOK {H : Type} {rb : BV.Stream.Ring} (ops : HasherOps H) (p : Params) (large : Bool)
    (wo : WordOracle) (data : ByteArray) (k : Nat) (hist mb : Bytes)
    (hR : BV.Stream.RingOK rb (hist ++ mb)) (hk : rb.size = 2 ^ k)
    (hdata : ∀ i, i < 2 ^ k + rb.tailSize → (data.get! i).toNat = rb.get (2 + i))
    (hnp : p.npostfix = 0) (hnd : p.ndirect = 0) (hwb : maxBackwardLimit p + mb.length ≤ rb.size)
    (hblk : mb.length ≤ rb.tailSize) (hwin : maxBackwardLimit p ≤ 2 ^ 30)
    (hstd : large = false → maxBackwardLimit p ≤ 2 ^ 26 - 4) (hdist : large = false → p.maxDistance ≤ 2 ^ 26 - 4)
    (hlen : mb.length ≤ 2 ^ 24) (htot : hist.length + mb.length < 2 ^ 64)
    (hops : OpsOK (SlotOK wo) ops p data k)
    (numBytes position : Nat) (h0 : H) (cache : List Int) (lastInsertLen numLiterals : Nat) (res : Result H)
    (hpos : position = hist.length + lastInsertLen) (hmb : mb.length = lastInsertLen + numBytes)
    (hc : CacheI32 cache) (hcl : 4 ≤ cache.length)
    (h : createBackwardReferences ops p numBytes position h0 cache lastInsertLen numLiterals = some res)
    (ring : Bytes) (start mask : Nat) (isLast : Bool) (w : List Bool)
    (hRH : RingHolds ring mask start mb) (h256 : ∀ b ∈ mb, b < 256) (h1 : 1 ≤ mb.length) (hst : start < 2 ^ 64)
    (hIP : inputPairCheck ring start mb.length mask = .ok ()) :
    ∃ bits ring',
      storeMetaBlockFast ring start mb.length mask isLast (distAlphabetSize large 0 0)
        (closeMetaBlock res.cmds res.lastInsertLen) w = .ok (w ++ bits) ∧
      ∀ rest, readMetaBlockFull wo (maxBackwardLimit p) large w.length ⟨hist, cache.take 4⟩ (bits ++ rest)
        = some (⟨hist ++ mb, ring'⟩, isLast, (w ++ bits).length, rest) :=
  cbr_fast_roundtrip ops p large wo data k rb.tailSize hist mb _
    (blockOK_of_ringOK p large data k hist mb hR hk hdata hnp hnd hwb hblk hwin hstd hdist hlen htot) hops
    numBytes position h0 cache lastInsertLen numLiterals res hpos hmb hc hcl h ring start mask isLast w hRH h256 h1 hst hIP

/-- **cbr_trivial_roundtrip_of_ringOK** — the same for quality 3: the ring hypothesis of `cbr_trivial_roundtrip`
discharged by w-stream's ring-buffer invariant.  After any history that leaves `RingOK rb (hist ++ mb)`
(`ring_buffer_faithful`), with `data` = the slice the hashers read (`hdata`), the commands of
`CreateBackwardReferences` written by `BrotliStoreMetaBlockTrivial` decode to `hist ++ mb`. -/
theorem cbr_trivial_roundtrip_of_ringOK {H : Type} {rb : BV.Stream.Ring} (ops : HasherOps H) (p : Params) (large : Bool)
    (wo : WordOracle) (data : ByteArray) (k : Nat) (hist mb : Bytes)
    (hR : BV.Stream.RingOK rb (hist ++ mb)) (hk : rb.size = 2 ^ k)
    (hdata : ∀ i, i < 2 ^ k + rb.tailSize → (data.get! i).toNat = rb.get (2 + i))
    (hnp : p.npostfix = 0) (hnd : p.ndirect = 0) (hwb : maxBackwardLimit p + mb.length ≤ rb.size)
    (hblk : mb.length ≤ rb.tailSize) (hwin : maxBackwardLimit p ≤ 2 ^ 30)
    (hstd : large = false → maxBackwardLimit p ≤ 2 ^ 26 - 4) (hdist : large = false → p.maxDistance ≤ 2 ^ 26 - 4)
    (hlen : mb.length ≤ 2 ^ 24) (htot : hist.length + mb.length < 2 ^ 64)
    (hops : OpsOK (SlotOK wo) ops p data k)
    (numBytes position : Nat) (h0 : H) (cache : List Int) (lastInsertLen numLiterals : Nat) (res : Result H)
    (hpos : position = hist.length + lastInsertLen) (hmb : mb.length = lastInsertLen + numBytes)
    (hc : CacheI32 cache) (hcl : 4 ≤ cache.length)
    (h : createBackwardReferences ops p numBytes position h0 cache lastInsertLen numLiterals = some res)
    (ring : Bytes) (start mask : Nat) (isLast : Bool) (w : List Bool)
    (hRH : RingHolds ring mask start mb) (h256 : ∀ b ∈ mb, b < 256) (h1 : 1 ≤ mb.length) (hst : start < 2 ^ 64)
    (hIP : inputPairCheck ring start mb.length mask = .ok ()) :
    ∃ bits ring',
      storeMetaBlockTrivial ring start mb.length mask isLast (distAlphabetSize large 0 0)
        (closeMetaBlock res.cmds res.lastInsertLen) w = .ok (w ++ bits) ∧
      ∀ rest, readMetaBlockFull wo (maxBackwardLimit p) large w.length ⟨hist, cache.take 4⟩ (bits ++ rest)
        = some (⟨hist ++ mb, ring'⟩, isLast, (w ++ bits).length, rest) :=
  cbr_trivial_roundtrip ops p large wo data k rb.tailSize hist mb _
    (blockOK_of_ringOK p large data k hist mb hR hk hdata hnp hnd hwb hblk hwin hstd hdist hlen htot) hops
    numBytes position h0 cache lastInsertLen numLiterals res hpos hmb hc hcl h ring start mask isLast w hRH h256 h1 hst hIP

end BV.Props.C01Chain
