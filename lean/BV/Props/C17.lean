/-
C17 — Prefix codes are complete, length-limited, canonical and serialise faithfully.

"For every symbol histogram the code builder assigns a non-zero length to
exactly the symbols that occur (when two or more occur), no length exceeds the
limit (15, or 5 for the code-length alphabet), the lengths satisfy Kraft
equality, and the bit patterns are the canonical assignment. The run-length
serialisation of the length vector expands back to that same vector."

Property theorems ONLY (helper lemmas live in BV/Lemmas/Huffman*.lean).  The
executable model is BV/Model/Huffman.lean (+ BV/Model/Bits.lean); the static
tables are the generated BV/Gen/Source.lean.  The specification side
(`canonicalCodes`, `rfcExpandCodeLengths`, `kraftSum`) is RFC 7932 §3.2/§3.5
written independently of the encoder functions, at the end of the model file.
-/
import BV.Lemmas.HuffmanRle
import BV.Lemmas.HuffmanPrefix
import BV.Lemmas.HuffmanCreate
import BV.Lemmas.HuffmanEntry
import BV.Lemmas.HuffmanRead
import BV.Lemmas.HuffmanStoreRead
import BV.Lemmas.HuffmanStoreTree
import BV.Lemmas.HuffmanOptRle
import BV.Lemmas.HuffmanEntryPoints

namespace BV.Props.C17
open BV.Gen BV.Bits BV.Huffman

/-! ## 1. the run-length serialisation expands back to the length vector -/

/-- `BrotliWriteHuffmanTree`, for either value of each of its two RLE switches:
the RFC 7932 §3.5 expansion of the emitted (code-length symbol, extra bits)
sequence is the input vector without its trailing zeros (the encoder drops
them, the decoder pads with zeros up to the alphabet size).  This covers the
base-4 / base-8 digit emission, the `repetitions == 7` / `== 11` special cases
and the `Reverse` of each block. -/
theorem rle_roundtrip (d : List Nat) (hd : ∀ x ∈ d, x ≤ 15) (hlen : d.length < 2 ^ 64)
    (useNZ useZ : Bool) :
    rfcExpandCodeLengths (writeHuffmanTreeWith useNZ useZ d) = trimTrailingZeros d := by
  have hd' : ∀ x ∈ trimTrailingZeros d, x < 16 :=
    Lemmas.HuffmanRle.trim_lt d (fun x hx => Nat.lt_succ_of_le (hd x hx))
  have hl := Lemmas.HuffmanRle.trim_length_le d
  have := Lemmas.HuffmanRle.writeLoop_roundtrip useNZ useZ _ (trimTrailingZeros d) rfl
    (by unfold u64; omega) hd' 8 ⟨[], 8, none⟩ rfl (by intro x _; rfl)
  rw [Lemmas.HuffmanRle.rfcExpand_eq_run]
  simpa [writeHuffmanTreeWith] using this

/-- non-vacuity: a vector with long runs, a run of 7, a run of 11 zeros, trailing zeros -/
example : (∀ x ∈ [3, 3, 3, 3, 3, 3, 3, 0, 0, 0, 0, 0, 0, 0, 0, 0, 0, 0, 15, 8, 8, 8, 8, 0, 0], x ≤ 15)
    ∧ [3, 3, 3, 3, 3, 3, 3, 0, 0, 0, 0, 0, 0, 0, 0, 0, 0, 0, 15, 8, 8, 8, 8, 0, 0].length < 2 ^ 64 := by
  decide

/-- the decoder's padding restores the dropped zeros -/
theorem trim_pad (d : List Nat) :
    trimTrailingZeros d ++ List.replicate (d.length - (trimTrailingZeros d).length) 0 = d :=
  Lemmas.HuffmanRle.trim_pad d

/-- The same for the function as it runs (switches chosen by
`decide_over_rle_use` when `length > 50`): whenever the model of
`BrotliWriteHuffmanTree(depth, length, …)` returns the arrays `(tree, extra)`,
their expansion is `depth[..length]` without trailing zeros. -/
theorem rle_roundtrip_run (depth : List Nat) (length cap : Nat) (syms extras : List Nat)
    (hd : ∀ x ∈ depth, x ≤ 15) (hlen : depth.length < 2 ^ 64)
    (h : writeHuffmanTree depth length cap = .ok (syms, extras)) :
    rfcExpandCodeLengths (syms.zip extras) = trimTrailingZeros (depth.take length) := by
  unfold writeHuffmanTree at h
  split at h
  · cases h
  · simp only [] at h
    split at h
    · cases h
    · injection h with h
      injection h with h1 h2
      subst h1 h2
      rw [List.zip_map', List.map_id'' (by intro x; rfl)]
      refine rle_roundtrip _ (fun x hx => hd x (List.mem_of_mem_take hx)) ?_ _ _
      rw [List.length_take]; omega


/-- `BrotliWriteHuffmanTree` writes at most `length` entries, so with the 704-entry
arrays of `BrotliStoreHuffmanTree` it cannot run off their end for any alphabet
of at most 704 symbols: the model never takes its panic branch. -/
theorem rle_never_panics (depth : List Nat) (length cap : Nat) (hl : length ≤ depth.length)
    (hc : length ≤ cap) (h64 : depth.length < 2 ^ 64) :
    ∃ syms extras, writeHuffmanTree depth length cap = .ok (syms, extras) ∧
      syms.length = extras.length ∧ syms.length ≤ length := by
  unfold writeHuffmanTree
  have hlt : (depth.take length).length = length := by rw [List.length_take]; omega
  have h1 := Lemmas.HuffmanRle.trim_length_le (depth.take length)
  have h2 := Lemmas.HuffmanRle.writeLoop_length (rleSwitches (depth.take length)).1
    (rleSwitches (depth.take length)).2 _ (trimTrailingZeros (depth.take length)) rfl
    (by unfold u64; omega) 8
  have h3 : (writeHuffmanTreeWith (rleSwitches (depth.take length)).1
      (rleSwitches (depth.take length)).2 (depth.take length)).length ≤ length := by
    unfold writeHuffmanTreeWith; omega
  simp only [show ¬ length > depth.length by omega, ↓reduceIte,
    show ¬ (writeHuffmanTreeWith (rleSwitches (depth.take length)).1
      (rleSwitches (depth.take length)).2 (depth.take length)).length > cap by omega]
  exact ⟨_, _, rfl, by simp, by simpa using h3⟩

/-! ## 2. the bit patterns are the canonical assignment -/

/-- `BrotliConvertBitDepthsToSymbols(depth, len, bits)` never panics on a depth
vector with entries `≤ 15`, writes exactly the entries of symbols with a
non-zero depth, and what it writes for symbol `i` is the RFC 7932 §3.2
canonical code of `i` (`canonicalCodes`, MSB-first value) passed through
`BrotliReverseBits` (the bit writer is LSB-first).  No Kraft hypothesis is
needed for this: the `u16` truncations of `next_code` do not change the low
`depth[i] ≤ 15` bits. -/
theorem canonical (d bits : List Nat) (hd : ∀ x ∈ d, x ≤ 15) (hn : d.length < 65536)
    (hb : d.length ≤ bits.length) :
    ∃ bits', convertBitDepthsToSymbols d d.length bits = .ok bits' ∧
      bits'.length = bits.length ∧
      (∀ k, d.length ≤ k → bits'.getD k 0 = bits.getD k 0) ∧
      ∀ i, i < d.length → bits'.getD i 0 =
        if d.getD i 0 ≠ 0 then reverseBits (d.getD i 0) ((canonicalCodes d).getD i 0)
        else bits.getD i 0 :=
  Lemmas.HuffmanCanon.convert_spec d bits hd hn hb

/-- non-vacuity of `canonical`, and the RFC 7932 §3.2 example
(lengths 3,3,3,3,3,2,4,4 ↦ codes 010,011,100,101,110,00,1110,1111) -/
example : (∀ x ∈ [3, 3, 3, 3, 3, 2, 4, 4], x ≤ 15) ∧ [3, 3, 3, 3, 3, 2, 4, 4].length < 65536 ∧
    canonicalCodes [3, 3, 3, 3, 3, 2, 4, 4] = [2, 3, 4, 5, 6, 0, 14, 15] := by decide

/-- With Kraft sum `≤ 1` every canonical code fits in its length … -/
theorem canonical_fits (lens : List Nat) (L i : Nat) (hi : i < lens.length)
    (hall : ∀ x ∈ lens, x ≤ L) (hk : kraftSum L lens ≤ 2 ^ L) (h0 : lens.getD i 0 ≠ 0) :
    (canonicalCodes lens).getD i 0 < 2 ^ lens.getD i 0 :=
  Lemmas.HuffmanPrefix.code_lt lens L i hi hall hk h0

/-- … and the codes of two distinct symbols of non-zero length are prefix-free:
the code of `i` is not the leading `lens[i]` bits of the (not shorter) code of `j`. -/
theorem canonical_prefix_free (lens : List Nat) (L i j : Nat) (hi : i < lens.length)
    (hj : j < lens.length) (hall : ∀ x ∈ lens, x ≤ L) (hij : i ≠ j)
    (hi0 : lens.getD i 0 ≠ 0) (hle : lens.getD i 0 ≤ lens.getD j 0) :
    (canonicalCodes lens).getD j 0 / 2 ^ (lens.getD j 0 - lens.getD i 0)
      ≠ (canonicalCodes lens).getD i 0 :=
  Lemmas.HuffmanPrefix.prefix_free lens L i j hi hj hall hij hi0 hle

/-- non-vacuity of the two: a complete code of 8 symbols, `i = 5` (length 2), `j = 6` (length 4) -/
example : (5 < [3, 3, 3, 3, 3, 2, 4, 4].length) ∧ (6 < [3, 3, 3, 3, 3, 2, 4, 4].length) ∧
    (∀ x ∈ [3, 3, 3, 3, 3, 2, 4, 4], x ≤ 15) ∧ kraftSum 15 [3, 3, 3, 3, 3, 2, 4, 4] ≤ 2 ^ 15 ∧
    [3, 3, 3, 3, 3, 2, 4, 4].getD 5 0 ≠ 0 ∧
    [3, 3, 3, 3, 3, 2, 4, 4].getD 5 0 ≤ [3, 3, 3, 3, 3, 2, 4, 4].getD 6 0 := by decide

/-! ## 5. `BrotliReverseBits` -/

/-- bit `i` of `BrotliReverseBits(n, b)` is bit `n - 1 - i` of `b` (and the
result has no bits at positions `≥ n`), for every `b` and `1 ≤ n ≤ 16` -/
theorem reverse_bits_spec (n b i : Nat) (h1 : 1 ≤ n) (h16 : n ≤ 16) :
    (reverseBits n b).testBit i = (decide (i < n) && b.testBit (n - 1 - i)) := by
  rw [Lemmas.HuffmanBits.reverseBits_eq n b h1 h16, Lemmas.HuffmanBits.revSpec_testBit]

/-- reversing twice returns the `n` low bits -/
theorem reverse_bits_involutive (n b : Nat) (h1 : 1 ≤ n) (h16 : n ≤ 16) :
    reverseBits n (reverseBits n b) = b % 2 ^ n := by
  rw [Lemmas.HuffmanBits.reverseBits_eq n b h1 h16, Lemmas.HuffmanBits.reverseBits_eq n _ h1 h16,
    Lemmas.HuffmanBits.revSpec_revSpec]

example : reverseBits 5 0b10110 = 0b01101 ∧ reverseBits 16 1 = 32768 ∧ reverseBits 1 1 = 1 := by
  decide

/-! ## 6b. the static code-length code of the fast builder -/

/-- `kCodeLengthDepth` (generated from `constants.rs`) is Kraft-complete with
limit 5, and `kCodeLengthBits` is its canonical code, bit-reversed. -/
theorem static_code_length_code_complete : kraftSum 5 kCodeLengthDepth = 2 ^ 5 := by decide

theorem static_code_length_code_canonical :
    kCodeLengthBits = (List.range 18).map fun i =>
      if kCodeLengthDepth.getD i 0 = 0 then 0
      else reverseBits (kCodeLengthDepth.getD i 0) ((canonicalCodes kCodeLengthDepth).getD i 0) := by
  decide


/-! ## 3/4. the tree construction: Kraft equality, exact support, length limit, termination -/

open BV.Lemmas.HuffmanShape in
/-- `BrotliSetDepth(p, pool, zeroed depth, M)` on a pool that lays out a full
binary tree `t` (`IsTree`: leaves = nodes with negative `index_left_`, inner
nodes point to two roots at smaller indices) with distinct leaf symbols:
if `t` is not higher than `M` it returns `true` and the depths satisfy Kraft
EQUALITY and are `≤ M`; otherwise it returns `false` (never panics, never
runs out of its explicit 16-entry stack). -/
theorem set_depth_kraft (pool : List Node) (M : Nat) (hM : M ≤ 15) (t : T) (p len : Nat)
    (ht : IsTree pool p t) (hnd : t.leaves.Nodup) (hlv : ∀ v ∈ t.leaves, v < len)
    (h2 : 2 ≤ t.leaves.length) (hsz : t.size ≤ setDepthFuel) :
    (t.height ≤ M → ∃ depth, setDepth (p : Int) pool (List.replicate len 0) (M : Int)
        = .ok (true, depth) ∧ kraftSum M depth = 2 ^ M ∧ ∀ x ∈ depth, x ≤ M) ∧
    (M < t.height → ∃ depth, setDepth (p : Int) pool (List.replicate len 0) (M : Int)
        = .ok (false, depth)) :=
  Lemmas.HuffmanCreate.setDepth_kraft pool M hM t p len ht hnd hlv h2 hsz

open BV.Lemmas.HuffmanShape in
/-- non-vacuity: the 3-leaf tree `((2,0),1)` laid out in a 5-node pool -/
example : IsTree [⟨1, -1, 2⟩, ⟨1, -1, 0⟩, ⟨2, 0, 1⟩, ⟨2, -1, 1⟩, ⟨4, 2, 3⟩] 4
    (.node (.node (.leaf 2) (.leaf 0)) (.leaf 1)) :=
  .node (c := 4) (pl := 2) (pr := 3) rfl (by decide) (by decide)
    (.node (c := 2) (pl := 0) (pr := 1) rfl (by decide) (by decide)
      (.leaf (c := 1) (l := -1) rfl (by decide)) (.leaf (c := 1) (l := -1) rfl (by decide)))
    (.leaf (c := 2) (l := -1) rfl (by decide))

open BV.Lemmas.HuffmanCreate BV.Lemmas.HuffmanFib in
/-- MAIN THEOREM for the exact builder.  `BrotliCreateHuffmanTree(data, len, M,
tree, zeroed depth)`, at least two occurring symbols, scratch `tree` of at
least `2·len + 1` nodes, limit `M ≤ 15`.  If for some retry round `R ≤ 31`

  `Σ data + len · 2^R  <  min (2^32 − 1) (fib (M + 3) · 2^R)`

then the retry loop TERMINATES (within `R + 1` rounds), nothing panics, and the
returned depths satisfy Kraft EQUALITY for limit `M`, `depth[i] ≠ 0 ↔ data[i] ≠ 0`,
and `depth[i] ≤ M`.  The first bound excludes the `u32` wrap of the node counts
(without it the claim is false: `sentinel_collision_panics`); the second is the
Fibonacci bound on the height of a Huffman tree whose lightest leaf weighs
`2^R` (the two-queue merge over the leaves sorted by `SortHuffmanTreeItems`
always merges the two lightest roots). -/
theorem create_huffman_tree_total (data : List Nat) (M R : Nat) (hM : M ≤ 15)
    (hlen : data.length ≤ 16383) (hn2 : 2 ≤ (data.filter (· ≠ 0)).length) (tree : List Node)
    (htl : 2 * data.length + 1 ≤ tree.length) (hR : R ≤ 31)
    (hW : data.sum + data.length * 2 ^ R < 4294967295)
    (hfit : data.sum + data.length * 2 ^ R < fib (M + 3) * 2 ^ R) :
    ∃ depth, createHuffmanTree data data.length (M : Int) tree (List.replicate data.length 0)
        = .ok depth ∧ depth.length = data.length ∧
      (∀ v, v < data.length → (depth.getD v 0 ≠ 0 ↔ data.getD v 0 ≠ 0)) ∧
      (∀ v, v < data.length → depth.getD v 0 ≤ M) ∧ kraftSum M depth = 2 ^ M :=
  create_total data M R hM hlen hn2 tree htl hR hW hfit

open BV.Lemmas.HuffmanFib in
/-- The instance C17 quantifies over: alphabets of up to 704 symbols, limit 15,
histogram total at most `2^25` (a meta-block has at most `2^24` symbols, so
every histogram the encoder builds sums to at most `2^24`; individual counts
may be anything up to the total).  Round `R = 15` meets both bounds. -/
theorem tree_kraft_eq (data : List Nat) (hlen : data.length ≤ 704) (hsum : data.sum ≤ 2 ^ 25)
    (hn2 : 2 ≤ (data.filter (· ≠ 0)).length) (tree : List Node)
    (htl : 2 * data.length + 1 ≤ tree.length) :
    ∃ depth, createHuffmanTree data data.length 15 tree (List.replicate data.length 0)
        = .ok depth ∧ depth.length = data.length ∧
      (∀ v, v < data.length → (depth.getD v 0 ≠ 0 ↔ data.getD v 0 ≠ 0)) ∧
      (∀ v, v < data.length → depth.getD v 0 ≤ 15) ∧ kraftSum 15 depth = 2 ^ 15 := by
  have hf : fib (15 + 3) = 2584 := by decide
  have h1 : data.length * 2 ^ 15 ≤ 704 * 2 ^ 15 := Nat.mul_le_mul_right _ hlen
  have e1 : (2:Nat) ^ 15 = 32768 := by decide
  have e2 : (2:Nat) ^ 25 = 33554432 := by decide
  rw [e1] at h1
  rw [e2] at hsum
  exact create_huffman_tree_total data 15 15 (by decide) (by omega) hn2 tree htl (by decide)
    (by rw [e1]; omega) (by rw [hf, e1]; omega)

/-- non-vacuity of `tree_kraft_eq`, and the value the model computes (= the real code's) -/
example : [5, 1, 1, 3, 0, 7].length ≤ 704 ∧ [5, 1, 1, 3, 0, 7].sum ≤ 2 ^ 25 ∧
    2 ≤ ([5, 1, 1, 3, 0, 7].filter (· ≠ 0)).length ∧
    createHuffmanTree [5, 1, 1, 3, 0, 7] 6 15 (List.replicate 13 default) (List.replicate 6 0)
      = .ok [2, 4, 4, 3, 0, 1] := by decide +kernel

/-- `depth_le_limit`: the length limit alone (any `M ≤ 15` for which some round fits) -/
theorem depth_le_limit (data : List Nat) (hlen : data.length ≤ 704) (hsum : data.sum ≤ 2 ^ 25)
    (hn2 : 2 ≤ (data.filter (· ≠ 0)).length) (tree : List Node)
    (htl : 2 * data.length + 1 ≤ tree.length) (depth : List Nat)
    (h : createHuffmanTree data data.length 15 tree (List.replicate data.length 0) = .ok depth) :
    ∀ x ∈ depth, x ≤ 15 := by
  obtain ⟨d, h1, h2, _, h4, _⟩ := tree_kraft_eq data hlen hsum hn2 tree htl
  rw [h] at h1
  injection h1 with h1
  subst h1
  intro x hx
  obtain ⟨v, hv, hxv⟩ := List.getElem_of_mem hx
  have := h4 v (by omega)
  rw [List.getD_eq_getElem?_getD, List.getElem?_eq_getElem hv] at this
  simpa [hxv] using this

/-- `retry_terminates`: the count_limit doubling loop does not diverge (the model's
`.fuel` outcome = "the Rust loop never exits") and does not panic -/
theorem retry_terminates (data : List Nat) (hlen : data.length ≤ 704) (hsum : data.sum ≤ 2 ^ 25)
    (hn2 : 2 ≤ (data.filter (· ≠ 0)).length) (tree : List Node)
    (htl : 2 * data.length + 1 ≤ tree.length) :
    createHuffmanTree data data.length 15 tree (List.replicate data.length 0) ≠ .fuel ∧
    createHuffmanTree data data.length 15 tree (List.replicate data.length 0) ≠ .panic := by
  obtain ⟨d, h1, _⟩ := tree_kraft_eq data hlen hsum hn2 tree htl
  rw [h1]; exact ⟨by simp, by simp⟩

/-- with limit 1 and three symbols the loop does diverge (the real function hangs on this input) -/
example : createHuffmanTree [1, 1, 1] 3 1 (List.replicate 7 default) [0, 0, 0] = .fuel := by
  decide +kernel

/-- The `u32` wrap / sentinel collision: two counts that sum to `u32::MAX` and a
third not smaller make `BrotliCreateHuffmanTree` index `depth[usize::MAX]`
(confirmed on the real code: `index out of bounds: the len is 3 but the index
is 18446744073709551615`, entropy_encode.rs:45).  The same happens with every
count `≤ 2^24` and 512 symbols (count 2^24 − 1 once and 2^24 for the other
511: the subtree of 256 leaves that contains the smaller count sums to exactly
`u32::MAX`; real code and `bvdrive` both panic) — that instance is checked by
the correspondence run, not by the kernel (evaluating it takes ten minutes). -/
theorem sentinel_collision_panics :
    createHuffmanTree [2147483647, 2147483648, 2147483648] 3 15
      (List.replicate 7 default) [0, 0, 0] = .panic := by decide +kernel

/-! ## 6a. the code-length code (limit 5, 18 symbols) -/

open BV.Lemmas.HuffmanFib in
/-- `BrotliStoreHuffmanTree` builds the code for the 18 code-length symbols with
`BrotliCreateHuffmanTree(histogram, 18, 5, …)`; the histogram counts the at most
704 entries written by `BrotliWriteHuffmanTree`.  With two or more symbols in
use the depths are `≤ 5`, complete and exact on the support (round `R = 8`). -/
theorem code_length_code_complete (histo : List Nat) (hlen : histo.length = 18)
    (hsum : histo.sum ≤ 704) (hn2 : 2 ≤ (histo.filter (· ≠ 0)).length) (tree : List Node)
    (htl : 37 ≤ tree.length) :
    ∃ depth, createHuffmanTree histo 18 5 tree (List.replicate 18 0) = .ok depth ∧
      depth.length = 18 ∧
      (∀ v, v < 18 → (depth.getD v 0 ≠ 0 ↔ histo.getD v 0 ≠ 0)) ∧
      (∀ v, v < 18 → depth.getD v 0 ≤ 5) ∧ kraftSum 5 depth = 2 ^ 5 := by
  have hf : fib (5 + 3) = 21 := by decide
  have e1 : (2:Nat) ^ 8 = 256 := by decide
  have := create_huffman_tree_total histo 5 8 (by decide) (by omega) hn2 tree (by omega)
    (by decide) (by rw [e1, hlen]; omega) (by rw [hf, e1, hlen]; omega)
  rw [hlen] at this
  exact this

example : [3, 0, 0, 7, 1, 0, 0, 0, 2, 0, 0, 0, 0, 0, 0, 0, 9, 4].length = 18 ∧
    [3, 0, 0, 7, 1, 0, 0, 0, 2, 0, 0, 0, 0, 0, 0, 0, 9, 4].sum ≤ 704 ∧
    2 ≤ ([3, 0, 0, 7, 1, 0, 0, 0, 2, 0, 0, 0, 0, 0, 0, 0, 9, 4].filter (· ≠ 0)).length := by decide

/-! ## 3/4 for the fast builder (quality ≤ 2) -/

open BV.Lemmas.HuffmanCreate BV.Lemmas.HuffmanFib in
/-- The `'break11` loop of `BrotliBuildAndStoreHuffmanTreeFast` (its own sort
comparator, limit 14, freshly allocated `2·length + 1` nodes) over the first
`m ≤ 704` histogram entries with total `≤ 2^25`, at least two of them non-zero,
and `depth[..m]` zeroed as the function does: it terminates (round `R = 16` at
the latest), does not panic, leaves `depth[m..]` alone, and `depth[..m]` is
complete for limit 14 (hence for 15), exact on the support and `≤ 14`. -/
theorem fast_tree_kraft_eq (data : List Nat) (m : Nat) (hm : m ≤ data.length) (hm704 : m ≤ 704)
    (hsum : (data.take m).sum ≤ 2 ^ 25) (hn2 : 2 ≤ ((data.take m).filter (· ≠ 0)).length)
    (rest : List Nat) :
    ∃ depth', fastLoop data m createFuel 1 (List.replicate (2 * m + 1) default)
        (List.replicate m 0 ++ rest) = .ok depth' ∧
      depth'.length = m + rest.length ∧ depth'.drop m = rest ∧
      (∀ v, v < m → (depth'.getD v 0 ≠ 0 ↔ data.getD v 0 ≠ 0)) ∧
      (∀ v, v < m → depth'.getD v 0 ≤ 14) ∧ kraftSum 14 (depth'.take m) = 2 ^ 14 := by
  have hf : fib 17 = 1597 := by decide
  have e1 : (2:Nat) ^ 16 = 65536 := by decide
  have e2 : (2:Nat) ^ 25 = 33554432 := by decide
  have h1 : m * 2 ^ 16 ≤ 704 * 2 ^ 16 := Nat.mul_le_mul_right _ hm704
  rw [e1] at h1
  rw [e2] at hsum
  obtain ⟨depth', he, hg⟩ := fast_total data m 16 hm (by omega) hn2 (List.replicate m 0 ++ rest)
    (by simp)
    (by
      intro v hv _
      rw [List.getD_eq_getElem?_getD, List.getElem?_append_left (by simpa using hv)]
      simp [hv])
    (by decide) (by rw [e1]; omega) (by rw [hf, e1]; omega)
  refine ⟨depth', he, by simpa using hg.hlen, ?_, hg.hsupp, hg.hlim, hg.hkraft⟩
  apply List.ext_getElem?
  intro k
  rw [List.getElem?_drop, hg.hframe (m + k) (by omega),
    List.getElem?_append_right (by simp), List.length_replicate]
  congr 1; omega

example : (3 : Nat) ≤ [4, 0, 9, 1].length ∧ ([4, 0, 9, 1].take 3).sum ≤ 2 ^ 25 ∧
    2 ≤ (([4, 0, 9, 1].take 3).filter (· ≠ 0)).length := by decide


/-! ## the two entry points C17 quantifies over -/

/-- `BuildAndStoreHuffmanTree(histogram, len, alphabet_size, tree, depth, bits, …)`
(the exact builder), `len ≤ 704`, histogram total `≤ 2^25`, two or more symbols
in use: whenever the model returns (i.e. also the serialisation did not hit an
`assert`), `depth[..len]` is Kraft-complete for limit 15, non-zero exactly at
the symbols in use, `≤ 15`, the rest of `depth` is untouched, and `bits[i]` is
the bit-reversed RFC 7932 §3.2 canonical code of `depth[..len]` for every
symbol in use (other entries of `bits` untouched). -/
theorem build_and_store_good (histogram : List Nat) (len alphabetSize : Nat) (tree : List Node)
    (depth bits : List Nat) (w : Writer) (depth' bits' : List Nat) (w' : Writer)
    (hlen : len ≤ histogram.length) (h704 : len ≤ 704)
    (hsum : (histogram.take len).sum ≤ 2 ^ 25)
    (hn2 : 2 ≤ ((histogram.take len).filter (· ≠ 0)).length)
    (htl : 2 * len + 1 ≤ tree.length) (hdl : len ≤ depth.length) (hbl : len ≤ bits.length)
    (h : buildAndStoreHuffmanTree histogram len alphabetSize tree depth bits w
      = .ok (depth', bits', w')) :
    depth'.length = depth.length ∧ depth'.drop len = depth.drop len ∧
    (∀ v, v < len → (depth'.getD v 0 ≠ 0 ↔ histogram.getD v 0 ≠ 0)) ∧
    (∀ v, v < len → depth'.getD v 0 ≤ 15) ∧ kraftSum 15 (depth'.take len) = 2 ^ 15 ∧
    bits'.length = bits.length ∧ (∀ k, len ≤ k → bits'.getD k 0 = bits.getD k 0) ∧
    ∀ i, i < len → bits'.getD i 0 =
      if depth'.getD i 0 ≠ 0 then
        reverseBits (depth'.getD i 0) ((canonicalCodes (depth'.take len)).getD i 0)
      else bits.getD i 0 := by
  obtain ⟨hg, hb1, hb2, hb3⟩ := Lemmas.HuffmanEntry.build_good histogram len alphabetSize tree
    depth bits w depth' bits' w' hlen h704 hsum hn2 htl hdl hbl h
  refine ⟨by simpa [Nat.add_sub_cancel' hdl] using hg.hlen, ?_, hg.hsupp, hg.hlim, hg.hkraft,
    hb1, hb2, hb3⟩
  apply List.ext_getElem?
  intro k
  rw [List.getElem?_drop, List.getElem?_drop, hg.hframe (len + k) (by omega),
    List.getElem?_append_right (by simp), List.length_replicate, List.getElem?_drop]
  congr 1; omega

/-- non-vacuity, and the complete answer of the model on this histogram
(depths; bits; 29 stored bits), equal to the real function's -/
example : (6 ≤ [5, 1, 1, 3, 0, 7].length) ∧ ([5, 1, 1, 3, 0, 7].take 6).sum ≤ 2 ^ 25 ∧
    2 ≤ (([5, 1, 1, 3, 0, 7].take 6).filter (· ≠ 0)).length ∧
    (buildAndStoreHuffmanTree [5, 1, 1, 3, 0, 7] 6 6 (List.replicate 1409 default)
      (List.replicate 6 0) (List.replicate 6 0) []).bind (fun r => .ok (r.1, r.2.1, r.2.2.length))
      = .ok ([2, 4, 4, 3, 0, 1], [1, 7, 15, 3, 0, 0], 29) := by decide +kernel

/-- `BrotliBuildAndStoreHuffmanTreeFast` (the builder of quality ≤ 2), alphabet
`≤ 704`, histogram total `≤ 2^25`, two or more symbols counted by its scan
(`fastScan … = (count, symbols, length)` is that scan): whenever the model
returns, `depth[..length]` is Kraft-complete for limit 14 (a fortiori a valid
code of limit 15), non-zero exactly at the symbols in use, `≤ 14`, and
`bits[..length]` is its bit-reversed canonical code. -/
theorem fast_build_and_store_good (histogram : List Nat) (total maxBits : Nat)
    (depth bits : List Nat) (w : Writer) (depth' bits' : List Nat) (w' : Writer)
    (count length : Nat) (symbols : List Nat)
    (hscan : fastScan histogram total 0 0 [0, 0, 0, 0] = .ok (count, symbols, length))
    (hc2 : 2 ≤ count) (h704 : histogram.length ≤ 704) (hsum : histogram.sum ≤ 2 ^ 25)
    (hbl : length ≤ bits.length)
    (h : buildAndStoreHuffmanTreeFast histogram total maxBits depth bits w
      = .ok (depth', bits', w')) :
    length ≤ histogram.length ∧
    (∀ v, v < length → (depth'.getD v 0 ≠ 0 ↔ histogram.getD v 0 ≠ 0)) ∧
    (∀ v, v < length → depth'.getD v 0 ≤ 14) ∧ kraftSum 14 (depth'.take length) = 2 ^ 14 ∧
    bits'.length = bits.length ∧ (∀ k, length ≤ k → bits'.getD k 0 = bits.getD k 0) ∧
    ∀ i, i < length → bits'.getD i 0 =
      if depth'.getD i 0 ≠ 0 then
        reverseBits (depth'.getD i 0) ((canonicalCodes (depth'.take length)).getD i 0)
      else bits.getD i 0 := by
  obtain ⟨hl, hg, hb1, hb2, hb3⟩ := Lemmas.HuffmanEntry.fast_good histogram total maxBits depth
    bits w depth' bits' w' count length symbols hscan hc2 h704 hsum hbl h
  exact ⟨hl, hg.hsupp, hg.hlim, hg.hkraft, hb1, hb2, hb3⟩

example : fastScan [4, 0, 9, 1] 14 0 0 [0, 0, 0, 0] = .ok (3, [0, 2, 3, 0], 4) ∧
    (buildAndStoreHuffmanTreeFast [4, 0, 9, 1] 14 2 (List.replicate 4 0) (List.replicate 4 0) []).bind
      (fun r => .ok (r.1, r.2.1, r.2.2.length)) = .ok ([2, 0, 1, 2], [1, 0, 0, 3], 10) := by
  decide +kernel

/-- a Kraft-complete code of limit 14 is Kraft-complete for limit 15 -/
theorem kraft_limit_mono (lens : List Nat) (h : ∀ x ∈ lens, x ≤ 14)
    (hk : kraftSum 14 lens = 2 ^ 14) : kraftSum 15 lens = 2 ^ 15 := by
  have key : ∀ l : List Nat, (∀ x ∈ l, x ≤ 14) → kraftSum 15 l = 2 * kraftSum 14 l := by
    intro l
    induction l with
    | nil => intro _; rfl
    | cons x xs ih =>
      intro hl
      have hx := hl x (by simp)
      have ih' := ih (fun y hy => hl y (List.mem_cons_of_mem _ hy))
      unfold kraftSum at ih' ⊢
      simp only [List.map_cons, List.sum_cons, ih']
      by_cases h0 : x = 0
      · simp [h0]
      · simp only [h0, ↓reduceIte, Nat.mul_add]
        have : 15 - x = (14 - x) + 1 := by omega
        rw [this, Nat.pow_succ]; omega
  have := key lens h
  rw [this, hk]


/-! ## 7. reading the serialisation back (RFC 7932 §3.2, §3.4, §3.5 reader) -/

/-- the reader's RFC tables are the encoder's generated tables -/
theorem rfc_code_length_tables :
    rfcClOrder = kStorageOrder ∧
    rfcClVlc = (List.range 6).map fun l =>
      (l, kHuffmanBitLengthHuffmanCodeBitLengths.getD l 0,
        kHuffmanBitLengthHuffmanCodeSymbols.getD l 0) := by decide

/-- `symbol_roundtrip`: for every prefix code with lengths `≤ 15`, Kraft sum `≤ 1`
and at least two symbols in use, a symbol written the way the encoder writes
it — `BrotliWriteBits(depth[s], bits[s])` with `bits[s]` the bit-reversed
canonical code (`canonical`) — passes both `assert`s of `BrotliWriteBits`, and the
RFC 7932 §3.2 decoder reading the stream from that point returns `s` and stops
exactly behind its bits. -/
theorem symbol_roundtrip (lens : List Nat) (s : Nat) (w rest : List Bool) (hs : s < lens.length)
    (hall : ∀ x ∈ lens, x ≤ 15) (hk : kraftSum 15 lens ≤ 2 ^ 15) (h0 : lens.getD s 0 ≠ 0)
    (h2 : 2 ≤ ((List.range lens.length).filter fun t => lens.getD t 0 != 0).length) :
    ∃ code, writeBits (lens.getD s 0)
        (reverseBits (lens.getD s 0) ((canonicalCodes lens).getD s 0)) w = .ok (w ++ code) ∧
      code.length = lens.getD s 0 ∧ readSym lens (code ++ rest) = some (s, rest) := by
  have hmem : lens.getD s 0 ∈ lens := by
    rw [List.getD_eq_getElem?_getD, List.getElem?_eq_getElem hs]; simp
  have hl15 := hall _ hmem
  refine ⟨bitsOf (lens.getD s 0) (reverseBits (lens.getD s 0) ((canonicalCodes lens).getD s 0)),
    ?_, Lemmas.HuffmanRead.bitsOf_length _ _,
    Lemmas.HuffmanRead.readSym_spec lens s rest hs hall hk h0 h2⟩
  unfold writeBits
  have hlt : reverseBits (lens.getD s 0) ((canonicalCodes lens).getD s 0) < 2 ^ lens.getD s 0 := by
    rw [Lemmas.HuffmanBits.reverseBits_eq _ _ (by omega) (by omega)]
    exact Lemmas.HuffmanBits.revSpec_lt _ _
  rw [Nat.div_eq_of_lt hlt]
  simp only [ne_eq, not_true_eq_false, ↓reduceIte, show ¬ lens.getD s 0 > 56 by omega]

/-- non-vacuity: the code `[2,4,4,3,0,1]` built above, symbol 3 -/
example : (3 < [2, 4, 4, 3, 0, 1].length) ∧ (∀ x ∈ [2, 4, 4, 3, 0, 1], x ≤ 15) ∧
    kraftSum 15 [2, 4, 4, 3, 0, 1] ≤ 2 ^ 15 ∧ [2, 4, 4, 3, 0, 1].getD 3 0 ≠ 0 ∧
    2 ≤ ((List.range [2, 4, 4, 3, 0, 1].length).filter
      fun t => [2, 4, 4, 3, 0, 1].getD t 0 != 0).length := by decide

/-- `StoreStaticCodeLengthCode`'s 40 bits are HSKIP = 0 followed by the RFC 7932 §3.5
encoding of the code length code lengths `kCodeLengthDepth` -/
theorem static_code_length_code_stored :
    (storeStaticCodeLengthCode []).bind (fun w => .ok (takeBits 2 w)) = .ok (some (0,
      (bitsOf 38 (0xff55555554 / 4)))) ∧
    readClLens rfcClOrder 32 (List.replicate 18 0) (bitsOf 38 (0xff55555554 / 4))
      = some (kCodeLengthDepth, []) := by decide +kernel

/-- Complete descriptions read back (checked instances of `store_tree_roundtrip`):
what `BuildAndStoreHuffmanTree` / the fast builder store for these histograms —
a complex code, the four simple forms NSYM = 1..4 (both tree shapes of
NSYM = 4), a code using both repeat codes, the fast builder's static-code
form — is decoded by the RFC reader to exactly the depths, consuming all bits. -/
theorem store_tree_roundtrip_instances :
    (∀ h ∈ [[5, 1, 1, 3, 0, 7], [5, 1], [0, 0, 4], [5, 0, 1], [5, 0, 1, 9], [5, 3, 1, 9],
        [5, 5, 5, 5], [1, 1, 1, 1, 1, 1, 1, 0, 0, 0, 0, 0, 0, 0, 0, 0, 0, 0, 0, 0, 0, 0, 9, 9, 9, 9,
          9, 9, 9, 9, 9, 9, 9, 3]],
      (buildAndStoreHuffmanTree h h.length h.length (List.replicate 1409 default)
        (List.replicate h.length 0) (List.replicate h.length 0) []).bind
        (fun r => .ok (readPrefixCode h.length r.2.2 == some (r.1, []))) = .ok true) ∧
    (∀ h ∈ [[5, 1, 1, 3, 0, 7], [4, 0, 9, 1], [3, 3, 3, 3, 3, 3, 3, 3, 3, 0, 0, 0, 1, 1, 1, 1, 1, 8]],
      (buildAndStoreHuffmanTreeFast h h.sum (alphabetBits h.length)
        (List.replicate h.length 0) (List.replicate h.length 0) []).bind
        (fun r => .ok (readPrefixCode h.length r.2.2 == some (r.1, []))) = .ok true) := by
  decide +kernel


open BV.Lemmas.HuffmanStoreRead in
/-- `store_tree_roundtrip_partial` (kept as the general entry-list lemma; the full
statement is `store_tree_roundtrip` below): the body of a complex prefix code description.
For every Kraft-complete depth vector `d` (entries `≤ 15`), either value of the
two RLE switches, and every code-length code `cl`/`clBits` that is usable
(`ClCode`: 18 lengths `≤ 15`, Kraft sum `≤ 1`, two or more used symbols, patterns
= bit-reversed canonical codes) and covers the emitted code-length symbols
(`ValidEntry`: symbol in use, extra bits in range), what
`BrotliStoreHuffmanTreeToBitMask` writes for the entries of
`BrotliWriteHuffmanTree` passes every `BrotliWriteBits` assertion, and the
RFC 7932 §3.5 reader (prefix-decode a code length symbol, read its extra bits,
apply the repeat rules, stop when the code space is used up, pad with zeros)
returns exactly `d` and stops exactly behind these bits.
It holds for ANY usable code-length code, in particular for the static one of
the fast builder (`example` below). -/
theorem store_tree_roundtrip_partial (cl clBits : List Nat) (hc : ClCode cl clBits) (d : List Nat)
    (hd : ∀ x ∈ d, x ≤ 15) (hlen : d.length < 2 ^ 64) (hk : kraftSum 15 d = 32768)
    (useNZ useZ : Bool)
    (hvalid : ∀ e ∈ writeHuffmanTreeWith useNZ useZ d, ValidEntry cl e) (w rest : List Bool) :
    ∃ bits, storeHuffmanTreeToBitMask cl clBits (writeHuffmanTreeWith useNZ useZ d) w
        = .ok (w ++ bits) ∧
      readLensGo cl d.length (d.length + 1) ⟨[], 8, none⟩ (bits ++ rest) = some (d, rest) :=
  store_entries_roundtrip cl clBits hc d hd hlen hk useNZ useZ hvalid w rest

open BV.Lemmas.HuffmanStoreRead in
/-- non-vacuity: the static code-length code of the fast builder is a usable `ClCode` -/
example : ClCode kCodeLengthDepth kCodeLengthBits :=
  { hlen := by decide, hblen := by decide, hall := by decide, hk := by decide, h2 := by decide,
    hbits := by decide }


/-- `store_tree_roundtrip` (FULL, for the complex form): for every depth vector
`depths[..num]` with `num ≤ 704`, entries `≤ 15` and Kraft EQUALITY (what
`tree_kraft_eq` guarantees for the builder's output), and a scratch tree of at
least 37 nodes, `BrotliStoreHuffmanTree(depths, num, tree, 0, zeroed storage)`
does not panic (no index out of range, no `BrotliWriteBits` assertion, the
inner `BrotliCreateHuffmanTree(…, 18, 5, …)` terminates), and the RFC 7932 §3.5
reader `readPrefixCode` — HSKIP, the code length code lengths in the order
1,2,3,4,0,5,17,6,16,7..15 with their fixed variable-length code until the code
space 32 is used up, the canonical code-length code (a single used symbol has
a zero-length code word), then the code length symbols with the repeat codes
16/17 and their chaining until the space 32768 is used up, zero padding —
applied to the written bits returns exactly `depths[..num]` and consumes every
bit.  Both branches of the code are covered: two or more code-length symbols
in use (`num_codes = 2`, trailing zero code-length code lengths dropped), and a
single one (`num_codes = 1`, all 18 lengths stored, its length zeroed before
writing the symbols).
The simple forms (NSYM 1..4 of `StoreSimpleHuffmanTree` and of the fast
builder) and the fast builder's static-code form are covered, in general, by
`build_and_store_roundtrip` and `fast_build_and_store_roundtrip` below. -/
theorem store_tree_roundtrip (depths : List Nat) (num : Nat) (tree : List Node)
    (hnum : num ≤ depths.length) (h704 : num ≤ 704) (hd : ∀ x ∈ depths.take num, x ≤ 15)
    (hk : kraftSum 15 (depths.take num) = 32768) (htl : 37 ≤ tree.length) :
    ∃ w, storeHuffmanTree depths num tree [] = .ok w ∧
      readPrefixCode num w = some (depths.take num, []) :=
  Lemmas.HuffmanStoreTree.store_tree_roundtrip_gen depths num tree hnum h704 hd hk htl

/-- non-vacuity: the depths `[2,4,4,3,0,1]` of the running example (followed by an
unrelated entry), with the stored bits evaluated -/
example : (6 ≤ [2, 4, 4, 3, 0, 1, 9].length) ∧ (∀ x ∈ [2, 4, 4, 3, 0, 1, 9].take 6, x ≤ 15) ∧
    kraftSum 15 ([2, 4, 4, 3, 0, 1, 9].take 6) = 32768 ∧
    (storeHuffmanTree [2, 4, 4, 3, 0, 1, 9] 6 (List.replicate 37 default) []).bind
      (fun w => .ok (w.length, readPrefixCode 6 w)) = .ok (29, some ([2, 4, 4, 3, 0, 1], [])) := by
  decide +kernel


/-! ## 7b. every form of prefix code description, at the two entry points, in a bit stream -/

/-- `store_tree_roundtrip` in a bit-stream context: `w` already written, `rest` following,
and a reader whose alphabet size `A` is smaller than the stored vector (`depths[A..num]`
zero; e.g. the distance code: 140 table entries, 64 symbols read). -/
theorem store_tree_roundtrip_ctx (depths : List Nat) (num A : Nat) (tree : List Node)
    (w rest : List Bool) (hnum : num ≤ depths.length) (h704 : num ≤ 704)
    (hd : ∀ x ∈ depths.take num, x ≤ 15) (hk : kraftSum 15 (depths.take num) = 32768)
    (htl : 37 ≤ tree.length) (hA : A ≤ num)
    (hz : ∀ i, A ≤ i → i < num → depths.getD i 0 = 0) :
    ∃ bits, storeHuffmanTree depths num tree w = .ok (w ++ bits) ∧
      readPrefixCode A (bits ++ rest) = some (depths.take A, rest) :=
  Lemmas.HuffmanStoreTree.store_tree_roundtrip_ctx depths num A tree w rest hnum h704 hd hk htl hA hz

/-- `build_and_store_roundtrip` (GENERAL, every input the exact builder accepts).
`BuildAndStoreHuffmanTree(histogram, len, A, tree, depth, bits, storage)` as the meta-block
writers call it: zeroed `depth`/`bits` tables of `n ≥ len` entries, alphabet size
`1 ≤ A ≤ len ≤ 704`, no count at or above `A`, counts summing to at most `2^25`
(the no-wrap bound of `sentinel_collision_panics`), any bits `w` already written and any
bits `rest` following.  Whenever the model returns, what it appended (`cb`) is:
* two or more symbols in use — whichever of the three stored forms is chosen
  (`StoreSimpleHuffmanTree` NSYM = 2, 3, 4 with its sort of the symbols by depth and
  the tree-select bit; `BrotliStoreHuffmanTree`): the RFC 7932 §3.4/§3.5 reader applied
  to `cb ++ rest` returns exactly `depth[..A]` and stops exactly at `rest`;
* exactly one symbol `s` in use: `cb` is the NSYM = 1 description `0b0001` (4 bits),
  `s` (`alphabetBits A` bits), and the tables stay all zero (a zero-length code word:
  the data loop writes nothing for `s`);
* no symbol in use: the NSYM = 1 description of symbol 0. -/
theorem build_and_store_roundtrip (histogram : List Nat) (len A n : Nat) (tree : List Node)
    (w rest : List Bool) (depth' bits' : List Nat) (w' : Writer)
    (hlen : len ≤ histogram.length) (h704 : len ≤ 704) (hsum : (histogram.take len).sum ≤ 2 ^ 25)
    (htl : 2 * len + 1 ≤ tree.length) (ht37 : 37 ≤ tree.length) (hn : len ≤ n)
    (hA1 : 1 ≤ A) (hA : A ≤ len)
    (hz : ∀ i, A ≤ i → i < len → histogram.getD i 0 = 0)
    (h : buildAndStoreHuffmanTree histogram len A tree (List.replicate n 0) (List.replicate n 0) w
      = .ok (depth', bits', w')) :
    ∃ cb, w' = w ++ cb ∧
      (2 ≤ ((histogram.take len).filter (· ≠ 0)).length →
        readPrefixCode A (cb ++ rest) = some (depth'.take A, rest)) ∧
      (∀ s, s < len → histogram.getD s 0 ≠ 0 →
        ((histogram.take len).filter (· ≠ 0)).length = 1 →
          cb = bitsOf 4 1 ++ bitsOf (alphabetBits A) s ∧ depth' = List.replicate n 0 ∧
          bits' = List.replicate n 0) ∧
      (((histogram.take len).filter (· ≠ 0)).length = 0 →
          cb = bitsOf 4 1 ++ bitsOf (alphabetBits A) 0 ∧ depth' = List.replicate n 0 ∧
          bits' = List.replicate n 0) := by
  obtain ⟨cb, h1, h2, h3, h4⟩ := Lemmas.HuffmanEntryPoints.build_and_store_roundtrip histogram len A
    n tree w rest depth' bits' w' hlen h704 hsum htl ht37 hn hA1 hA hz h
  exact ⟨cb, h1, fun h => (h2 h).1, h3, h4⟩

/-- non-vacuity: the hypotheses hold and the three cases occur (complex form, 8 table
entries of which 6 are read; NSYM = 3; NSYM = 1), with the model's answers evaluated;
the stream continues with `[true]` -/
example : (∀ h ∈ [[5, 1, 1, 3, 0, 7, 0, 0], [5, 0, 1, 9, 0, 0, 0, 0], [0, 0, 4, 0, 0, 0, 0, 0]],
      8 ≤ h.length ∧ (h.take 8).sum ≤ 2 ^ 25 ∧ (∀ i : Fin 8, 6 ≤ i.val → h.getD i.val 0 = 0) ∧
      (buildAndStoreHuffmanTree h 8 6 (List.replicate 37 default) (List.replicate 8 0)
        (List.replicate 8 0) []).bind
        (fun r => .ok (readPrefixCode 6 (r.2.2 ++ [true]) == some (r.1.take 6, [true]))) = .ok true) ∧
    (([5, 1, 1, 3, 0, 7, 0, 0].take 8).filter (· ≠ 0)).length = 5 ∧
    (([5, 0, 1, 9, 0, 0, 0, 0].take 8).filter (· ≠ 0)).length = 3 ∧
    (([0, 0, 4, 0, 0, 0, 0, 0].take 8).filter (· ≠ 0)).length = 1 := by decide +kernel

/-- `fast_build_and_store_roundtrip` (GENERAL, every input the fast builder accepts).
`BrotliBuildAndStoreHuffmanTreeFast(histogram, histogram_total, max_bits, depth, bits, storage)`
as `BrotliStoreMetaBlockFast` calls it: `histogram_total` = the sum of the counts
(`≤ 2^25`), `max_bits` = the width of the alphabet, at most 704 counts, none at or above
`A`, zeroed tables of `n ≥ A` entries.  Whenever the model returns, with `count` the
number of symbols in use:
* `count ≥ 2` — NSYM = 2, 3, 4 (with the fast builder's own sort), or, for five or more,
  the static code-length code `0xff55555554` followed by the depths with the precomputed
  repeat patterns `kZeroRepsBits/Depth`, `kNonZeroRepsBits/Depth`: the RFC reader returns
  exactly `depth[..A]` and stops exactly at `rest`;
* `count = 1`, `count = 0`: as in `build_and_store_roundtrip`. -/
theorem fast_build_and_store_roundtrip (histogram : List Nat) (A n : Nat)
    (w rest : List Bool) (depth' bits' : List Nat) (w' : Writer)
    (h704 : histogram.length ≤ 704) (hsum : histogram.sum ≤ 2 ^ 25)
    (hA1 : 1 ≤ A) (hAn : A ≤ n) (hA : A ≤ 65536)
    (hz : ∀ i, A ≤ i → histogram.getD i 0 = 0)
    (h : buildAndStoreHuffmanTreeFast histogram histogram.sum (alphabetBits A)
      (List.replicate n 0) (List.replicate n 0) w = .ok (depth', bits', w')) :
    ∃ cb, w' = w ++ cb ∧
      (2 ≤ (histogram.filter (· ≠ 0)).length →
        readPrefixCode A (cb ++ rest) = some (depth'.take A, rest)) ∧
      (∀ s, histogram.getD s 0 ≠ 0 → (histogram.filter (· ≠ 0)).length = 1 →
          cb = bitsOf 4 1 ++ bitsOf (alphabetBits A) s ∧ depth' = List.replicate n 0 ∧
          bits' = List.replicate n 0) ∧
      ((histogram.filter (· ≠ 0)).length = 0 →
          cb = bitsOf 4 1 ++ bitsOf (alphabetBits A) 0 ∧ depth' = List.replicate n 0 ∧
          bits' = List.replicate n 0) := by
  obtain ⟨cb, count, symbols, length, h1, _, hc, _, h2, h3, h4⟩ :=
    Lemmas.HuffmanEntryPoints.fast_build_and_store_roundtrip histogram A n w rest depth' bits' w'
      h704 hsum hA1 hAn hA hz h
  rw [← hc]
  exact ⟨cb, h1, fun h => (h2 h).1, h3, h4⟩

/-- non-vacuity: static-code form (a run of 9 equal depths, a run of zeros), NSYM = 3,
NSYM = 1; 18 or 8 table entries, 20 resp. 8 counts -/
example : (∀ h ∈ [[3, 3, 3, 3, 3, 3, 3, 3, 3, 0, 0, 0, 1, 1, 1, 1, 1, 8, 0, 0],
        [5, 0, 1, 9, 0, 0, 0, 0], [0, 0, 4, 0, 0, 0, 0, 0]],
      h.length ≤ 704 ∧ h.sum ≤ 2 ^ 25 ∧ (∀ i : Fin 20, 18 ≤ i.val → h.getD i.val 0 = 0) ∧
      (buildAndStoreHuffmanTreeFast h h.sum (alphabetBits 18) (List.replicate 18 0)
        (List.replicate 18 0) []).bind
        (fun r => .ok (readPrefixCode 18 (r.2.2 ++ [true]) == some (r.1.take 18, [true]))) = .ok true) ∧
    ([3, 3, 3, 3, 3, 3, 3, 3, 3, 0, 0, 0, 1, 1, 1, 1, 1, 8, 0, 0].filter (· ≠ 0)).length = 15 := by
  decide +kernel


/-! ## `BrotliOptimizeHuffmanCountsForRle` (applied to the histograms before the codes are built) -/

/-- `optimize_counts_for_rle_safe`.  `BrotliOptimizeHistograms` (metablock.rs) rewrites
every literal / command / distance histogram in place with
`BrotliOptimizeHuffmanCountsForRle(length, counts, good_for_rle)` before
`BuildAndStoreHuffmanTree` sees it.  What is TRUE of that rewrite, for every
histogram of `u32` counts shorter than `2^31`, whenever the function returns:
the length is unchanged, every count is still a `u32`, and a NON-ZERO COUNT
STAYS NON-ZERO — so every symbol that occurs in the data still occurs in the
histogram the code is built from, and by "support exact" of the builder it gets
a code word.  (The isolated-zero filling writes 1 over zeros only; a smoothed
stride is overwritten with `max(1, rounded average)` unless its sum is 0, in
which case it was all zeros.)
What is NOT true: zeros do not stay zero (`optimize_counts_fills_zeros`): the
built code may contain symbols that never occur, which costs code space but
not correctness. -/
theorem optimize_counts_for_rle_safe (length : Nat) (counts good r : List Nat)
    (hb : ∀ x ∈ counts, x < 2 ^ 32) (hl : counts.length < 2 ^ 31)
    (h : optimizeHuffmanCountsForRle length counts good = .ok r) :
    r.length = counts.length ∧ (∀ p, counts.getD p 0 ≠ 0 → r.getD p 0 ≠ 0) ∧
      ∀ x ∈ r, x < 2 ^ 32 := by
  have := Lemmas.HuffmanOptRle.optimize_keep length counts good r hb hl h
  exact ⟨this.hlen, this.hnz, this.hu32⟩

/-- non-vacuity, and the negative half: symbol 5 does not occur but gets count 1 -/
theorem optimize_counts_fills_zeros :
    optimizeHuffmanCountsForRle 17 [3, 3, 3, 3, 3, 0, 3, 3, 3, 3, 3, 3, 3, 3, 3, 3, 3]
      (List.replicate 17 0) = .ok [3, 3, 3, 3, 3, 1, 3, 3, 3, 3, 3, 3, 3, 3, 3, 3, 3] := by
  decide +kernel

end BV.Props.C17
