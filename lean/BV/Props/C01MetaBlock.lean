/-
C01 (second module) — the compressed meta-block writers of quality ≤ 3 round-trip.

This discharges the hypothesis `MetaBlockDecodes.payload` of `BV/Props/C01.lean` ("the bits of a
compressed meta-block decode to the input range") for the two simplest real writers,
`BrotliStoreMetaBlockTrivial` (quality 3) and `BrotliStoreMetaBlockFast` (quality ≤ 2).

Model: `BV/Model/MetaBlock.lean` (`storeCompressedMetaBlockHeader`, `buildHistograms`, `storeData`,
`storeMetaBlockTrivial`, `storeMetaBlockFast`), composed from the models of C17 (`buildAndStoreHuffmanTree`,
`buildAndStoreHuffmanTreeFast`), C18 (`getInsertLengthCode`, `getCopyLengthCode`, `copyLenCode`, `encodeMlen`)
and the raw command record of C14.  SPEC side, written from RFC 7932 independently of the writers:
`readMetaBlockFull` / `readMetaBlocks` = §9.2 header (`BV.HeaderSpec.readMetaBlock`, C08/C15) → NBLTYPES×3 / NPOSTFIX / NDIRECT /
context mode / NTREES×2 (restricted to one block type and one tree per category) → three prefix codes
(`readCode`: C17's §3.4/§3.5 reader `readPrefixCode`, NSYM = 1 read here) → the §9.3/§10 command loop
`readCommands` (insert-and-copy symbol, extra bits, literals, distance symbol — implied 0 for symbols < 128 —,
ring of last distances `rfcDistance`, LZ77 copy or static-dictionary word) until MLEN bytes are produced →
zero padding to the byte boundary after the last meta-block.

What is assumed of a command array (all three are Bool-valued and evaluated by the correspondence run on
every command array the real match finders produced, `metablock hyp` lines):
* `cmdOK`   — each command is one `Command::init` / `init_insert` could have built (C18 / C14 `init_commands_are_wf`):
              command symbol = `get_length_code` of its lengths, lengths in range, symbol < 128 only with distance
              symbol 0, distance symbol inside the alphabet, NDISTBITS field and extra bits consistent;
* `lockstep`— the RFC decoder (C14 `decStep`) accepts the array and the writer's position bookkeeping
              (`pos += insert_len + copy_len()`) agrees with the decoder's cursor before every command; a command whose
              insert part completes the meta-block is the last one and has `copy_len() = 0`;
* `replayCommands … = some (history ++ mb)` — C14's payload hypothesis: the decoder run on the raw commands
              reproduces the meta-block bytes.
Histograms: nothing is assumed.  `BuildHistograms` is modelled and proved to count exactly the literal bytes,
command symbols and distance symbols written (`buildHistograms_inv`); the totals are ≤ MLEN + 1 ≤ 2^24 + 1,
which is below the 2^25 bound C17 needs for its no-`u32`-wrap hypothesis.
-/
import BV.Lemmas.MetaBlockWmbi

namespace BV.Props.C01MetaBlock
open BV.Gen BV.Bits BV.Huffman BV.PrefixArith BV.Recoder BV.MetaBlock BV.HeaderSpec

/-- **header_roundtrip** — `StoreCompressedMetaBlockHeader(is_last, length)` for every `1 ≤ length ≤ 2^24`
and both values of `is_last`, behind any already written bits `w` and before any following bits `rest`:
no `BrotliWriteBits` / `BrotliEncodeMlen` assertion fails, and the RFC 7932 §9.2 reader (ISLAST, ISLASTEMPTY,
MNIBBLES, MLEN − 1 with the minimal-nibbles check, ISUNCOMPRESSED) returns "compressed meta-block of `length`
bytes, ISLAST as written" and stops exactly behind the header. -/
theorem header_roundtrip (isLast : Bool) (length : Nat) (w rest : List Bool) (h1 : 1 ≤ length)
    (h2 : length ≤ 2 ^ 24) :
    ∃ hb, storeCompressedMetaBlockHeader isLast length w = .ok (w ++ hb) ∧
      readMetaBlock w.length (hb ++ rest) = some (MetaBlock.compressed length isLast, w.length + hb.length, rest) :=
  ⟨headerBits isLast length, storeHeader_ok isLast length w h1 h2, readHeader_ok isLast length w.length rest h1 h2⟩

example : storeCompressedMetaBlockHeader true 65537 [] =
    .ok ([true, false] ++ bitsOf 2 1 ++ bitsOf 20 65536) := by decide

/-- the distance alphabet sizes the encoder uses with NPOSTFIX = NDIRECT = 0 -/
theorem distAlphabet_values (large : Bool) :
    distAlphabetSize large 0 0 = (if large then 140 else 64) := by cases large <;> rfl

/-- **trivial_metablock_roundtrip** — `BrotliStoreMetaBlockTrivial` (quality 3).
For EVERY ring buffer / mask / start position holding the meta-block bytes `mb` (`1 ≤ |mb| ≤ 2^24`, wrapped or
not; `hIP`: the two slices `InputPairFromMaskedInput` takes are inside the buffer — true for a ring of exactly
`mask + 1` bytes and `|mb| ≤` its size, `BV.MetaBlock.inputPairCheck_ok`), every command array
satisfying `cmdOK` and `lockstep`, every history (`hist` = custom-dictionary tail ++ earlier output), distance
ring `dc`, window, static-dictionary oracle, standard or large-window distance alphabet, `is_last`, and already
written bits `w`:
* the model of the writer does NOT PANIC (no slice index out of range, no `BrotliWriteBits` / `BrotliEncodeMlen`
  assertion, every Huffman tree construction terminates) and appends some `bits` to `w`;
* for whatever bits `rest` follow, the RFC reader, started at bit position `|w|` with the decoder state
  `(hist, dc)`, accepts `bits ++ rest`, stops exactly behind `bits` (behind the zero padding when `is_last`),
  reports ISLAST as written and the position `|w ++ bits|`;
* its output is what C14's RFC decoder `replayCommands` produces from the raw commands — hence, with C14's
  payload hypothesis `replayCommands … = some (hist ++ mb)`, exactly `hist ++ mb`. -/
theorem trivial_metablock_roundtrip (wo : WordOracle) (window : Nat) (large : Bool) (ring : Bytes)
    (start mask : Nat) (mb : Bytes) (isLast : Bool) (cmds : List Cmd) (hist : Bytes) (dc : List Int)
    (w : List Bool)
    (hR : RingHolds ring mask start mb) (h256 : ∀ b ∈ mb, b < 256)
    (h1 : 1 ≤ mb.length) (h2 : mb.length ≤ 2 ^ 24) (hst : start < 2 ^ 64)
    (hIP : inputPairCheck ring start mb.length mask = .ok ())
    (hok : ∀ c ∈ cmds, cmdOK (distAlphabetSize large 0 0) 0 0 c = true)
    (hlock : lockstep wo 0 0 window mb ⟨hist, dc, 0⟩ 0 cmds = true) :
    ∃ bits out ring',
      storeMetaBlockTrivial ring start mb.length mask isLast (distAlphabetSize large 0 0) cmds w = .ok (w ++ bits) ∧
      replayCommands wo 0 0 window mb dc hist cmds = some out ∧
      (∀ rest, readMetaBlockFull wo window large w.length ⟨hist, dc⟩ (bits ++ rest)
        = some (⟨out, ring'⟩, isLast, (w ++ bits).length, rest)) ∧
      (replayCommands wo 0 0 window mb dc hist cmds = some (hist ++ mb) → out = hist ++ mb) := by
  obtain ⟨bits, fin, e, hdec, _, hrd⟩ := trivial_core wo window large ring start mask mb isLast cmds hist dc w
    hR h256 h1 h2 (by unfold two64; simpa using hst) hIP hok hlock
  refine ⟨bits, fin.out, fin.ring, e, ?_, hrd, ?_⟩
  · unfold replayCommands; rw [hdec]; rfl
  · intro hp
    unfold replayCommands at hp
    rw [hdec] at hp
    simpa using hp

/-- **fast_metablock_roundtrip** — `BrotliStoreMetaBlockFast` (quality ≤ 2), BOTH branches: `n_commands ≤ 128`
with the standard distance alphabet (literal code from `BrotliBuildAndStoreHuffmanTreeFast`, the static command code of
`StoreStaticCommandHuffmanTree` and the static distance code of `StoreStaticDistanceHuffmanTree`) and otherwise
(three codes from the fast builder).  Same statement as `trivial_metablock_roundtrip`: no panic, the RFC reader
consumes exactly the emitted bits and outputs what `replayCommands` outputs.
(Before the fix `5ef5adf` of /repo the static branch was also taken with the 140-symbol large-window alphabet and
panicked on a distance symbol ≥ 64 — `/verif/proposed/fast-static-distance-large-window.md`; the theorem then needed
the extra hypothesis "≤ 128 commands ⇒ distance symbols < 64".) -/
theorem fast_metablock_roundtrip (wo : WordOracle) (window : Nat) (large : Bool) (ring : Bytes)
    (start mask : Nat) (mb : Bytes) (isLast : Bool) (cmds : List Cmd) (hist : Bytes) (dc : List Int)
    (w : List Bool)
    (hR : RingHolds ring mask start mb) (h256 : ∀ b ∈ mb, b < 256)
    (h1 : 1 ≤ mb.length) (h2 : mb.length ≤ 2 ^ 24) (hst : start < 2 ^ 64)
    (hIP : inputPairCheck ring start mb.length mask = .ok ())
    (hok : ∀ c ∈ cmds, cmdOK (distAlphabetSize large 0 0) 0 0 c = true)
    (hlock : lockstep wo 0 0 window mb ⟨hist, dc, 0⟩ 0 cmds = true) :
    ∃ bits out ring',
      storeMetaBlockFast ring start mb.length mask isLast (distAlphabetSize large 0 0) cmds w = .ok (w ++ bits) ∧
      replayCommands wo 0 0 window mb dc hist cmds = some out ∧
      (∀ rest, readMetaBlockFull wo window large w.length ⟨hist, dc⟩ (bits ++ rest)
        = some (⟨out, ring'⟩, isLast, (w ++ bits).length, rest)) ∧
      (replayCommands wo 0 0 window mb dc hist cmds = some (hist ++ mb) → out = hist ++ mb) := by
  obtain ⟨bits, fin, e, hdec, _, hrd⟩ := fast_core wo window large ring start mask mb isLast cmds hist dc w
    hR h256 h1 h2 (by unfold two64; simpa using hst) hIP hok hlock
  refine ⟨bits, fin.out, fin.ring, e, ?_, hrd, ?_⟩
  · unfold replayCommands; rw [hdec]; rfl
  · intro hp
    unfold replayCommands at hp
    rw [hdec] at hp
    simpa using hp

/-- regression witness for the large-window fix: the command `Command::new` builds for insert 1, copy 7,
distance 2^26 + 5 (distance symbol 64, 25 extra bits) satisfies `cmdOK`, and the fast writer — which indexed the
64-entry static distance code with it and panicked before `5ef5adf` — now takes the built-codes branch and returns -/
theorem fast_writer_large_window_symbol_64 :
    cmdOK 140 0 0 ⟨1, 7, 8, 141, 25664⟩ = true ∧
    (storeMetaBlockFast [65, 65, 65, 65, 65, 65, 65, 65] 0 8 7 true 140 [⟨1, 7, 8, 141, 25664⟩] []).bind
      (fun w => .ok w.length) = .ok 96 := by
  constructor
  · decide
  · decide +kernel

/-! ### composing meta-blocks: what `BV/Props/C01.lean` can connect to -/

/-- a non-last piece followed by more: the meta-block loop continues behind it from the new state -/
theorem readMetaBlocks_step (wo : WordOracle) (window : Nat) (large : Bool) (pos pos' : Nat) (s s' : RdSt)
    (bits rest : List Bool) (f : Nat) (h : ReadsTo wo window large pos s bits false pos' s') :
    readMetaBlocks wo window large (f + 1) pos s (bits ++ rest) = readMetaBlocks wo window large f pos' s' rest := by
  simp only [readMetaBlocks, h rest]

/-- a last piece ends the stream -/
theorem readMetaBlocks_last (wo : WordOracle) (window : Nat) (large : Bool) (pos pos' : Nat) (s s' : RdSt)
    (bits rest : List Bool) (f : Nat) (h : ReadsTo wo window large pos s bits true pos' s') :
    readMetaBlocks wo window large (f + 1) pos s (bits ++ rest) = some (s', rest) := by
  simp only [readMetaBlocks, h rest]

/-! ### the size decision of `WriteMetaBlockInternal` around the two writers -/

open BV.Stored (writeMetaBlockInternal MbOracle) in
/-- **wmbi_trivial_roundtrip** — `WriteMetaBlockInternal` at quality 3 (model of its size decision:
`BV.Stored.writeMetaBlockInternal`, C08 `guard_holds`; compressed attempt = `BrotliStoreMetaBlockTrivial`).
For EVERY verdict of `should_compress`, appendable / catable / last or not: the attempt is written without panic,
the call returns, and what it leaves in the storage — the compressed meta-block, or the stored one when the attempt
was not tried or is more than `len + 4` bytes long, plus the separate empty last meta-block of appendable streams —
is read by the RFC reader from the decoder state `(hist, dc)` to a state whose output is `hist ++ mb`:
as one non-last meta-block if the stream goes on, as the end of the stream if `actual_is_last`.
(`w.length < 256`: the staging storage holds at most the stream head and 7 carry bits, C08 `headLen_lt_256`.) -/
theorem wmbi_trivial_roundtrip (wo : WordOracle) (window : Nat) (large : Bool) (ring : Bytes)
    (start mask : Nat) (mb : Bytes) (appendable catable actualIsLast shouldCompress : Bool) (cmds : List Cmd)
    (hist : Bytes) (dc : List Int) (w : List Bool)
    (hR : RingHolds ring mask start mb) (h256 : ∀ b ∈ mb, b < 256)
    (h1 : 1 ≤ mb.length) (h2 : mb.length ≤ 2 ^ 24) (hst : start < 2 ^ 64)
    (hIP : inputPairCheck ring start mb.length mask = .ok ())
    (hok : ∀ c ∈ cmds, cmdOK (distAlphabetSize large 0 0) 0 0 c = true)
    (hlock : lockstep wo 0 0 window mb ⟨hist, dc, 0⟩ 0 cmds = true)
    (hpay : replayCommands wo 0 0 window mb dc hist cmds = some (hist ++ mb))
    (hcat : catable = true → appendable = true) (hw : w.length < 256) :
    ∃ att r bits s'',
      storeMetaBlockTrivial ring start mb.length mask (if appendable then false else actualIsLast)
        (distAlphabetSize large 0 0) cmds w = .ok (w ++ att) ∧
      writeMetaBlockInternal appendable catable actualIsLast mb ⟨shouldCompress, att⟩ w = .ok r ∧
      r.fin = w ++ bits ∧ s''.out = hist ++ mb ∧
      (actualIsLast = true → ∀ rest f,
        readMetaBlocks wo window large (f + 2) w.length ⟨hist, dc⟩ (bits ++ rest) = some (s'', rest)) ∧
      (actualIsLast = false → ReadsTo wo window large w.length ⟨hist, dc⟩ bits false (w.length + bits.length) s'') := by
  obtain ⟨att, out, ring', e, _, hrd, hout⟩ := trivial_metablock_roundtrip wo window large ring start mask mb
    (if appendable then false else actualIsLast) cmds hist dc w hR h256 h1 h2 hst hIP hok hlock
  have ho := hout hpay
  obtain ⟨r, bits, s'', a1, a2, a3, a4, a5⟩ := wmbi_reads wo window large appendable catable actualIsLast mb
    ⟨shouldCompress, att⟩ w ⟨hist, dc⟩ ⟨out, ring'⟩ hcat h1 h2 hw h256 ho
    (fun _ => by intro rest; rw [hrd rest, List.length_append])
  exact ⟨att, r, bits, s'', e, a1, a2, a3, a4, a5⟩

open BV.Stored (writeMetaBlockInternal MbOracle) in
/-- **wmbi_fast_roundtrip** — the same for quality 2 (compressed attempt = `BrotliStoreMetaBlockFast`) -/
theorem wmbi_fast_roundtrip (wo : WordOracle) (window : Nat) (large : Bool) (ring : Bytes)
    (start mask : Nat) (mb : Bytes) (appendable catable actualIsLast shouldCompress : Bool) (cmds : List Cmd)
    (hist : Bytes) (dc : List Int) (w : List Bool)
    (hR : RingHolds ring mask start mb) (h256 : ∀ b ∈ mb, b < 256)
    (h1 : 1 ≤ mb.length) (h2 : mb.length ≤ 2 ^ 24) (hst : start < 2 ^ 64)
    (hIP : inputPairCheck ring start mb.length mask = .ok ())
    (hok : ∀ c ∈ cmds, cmdOK (distAlphabetSize large 0 0) 0 0 c = true)
    (hlock : lockstep wo 0 0 window mb ⟨hist, dc, 0⟩ 0 cmds = true)
    (hpay : replayCommands wo 0 0 window mb dc hist cmds = some (hist ++ mb))
    (hcat : catable = true → appendable = true) (hw : w.length < 256) :
    ∃ att r bits s'',
      storeMetaBlockFast ring start mb.length mask (if appendable then false else actualIsLast)
        (distAlphabetSize large 0 0) cmds w = .ok (w ++ att) ∧
      writeMetaBlockInternal appendable catable actualIsLast mb ⟨shouldCompress, att⟩ w = .ok r ∧
      r.fin = w ++ bits ∧ s''.out = hist ++ mb ∧
      (actualIsLast = true → ∀ rest f,
        readMetaBlocks wo window large (f + 2) w.length ⟨hist, dc⟩ (bits ++ rest) = some (s'', rest)) ∧
      (actualIsLast = false → ReadsTo wo window large w.length ⟨hist, dc⟩ bits false (w.length + bits.length) s'') := by
  obtain ⟨att, out, ring', e, _, hrd, hout⟩ := fast_metablock_roundtrip wo window large ring start mask mb
    (if appendable then false else actualIsLast) cmds hist dc w hR h256 h1 h2 hst hIP hok hlock
  have ho := hout hpay
  obtain ⟨r, bits, s'', a1, a2, a3, a4, a5⟩ := wmbi_reads wo window large appendable catable actualIsLast mb
    ⟨shouldCompress, att⟩ w ⟨hist, dc⟩ ⟨out, ring'⟩ hcat h1 h2 hw h256 ho
    (fun _ => by intro rest; rw [hrd rest, List.length_append])
  exact ⟨att, r, bits, s'', e, a1, a2, a3, a4, a5⟩

/-- `RingHolds` from a finite check -/
theorem ringHolds_of_check (ring : Bytes) (mask start : Nat) (mb : Bytes)
    (h : ((List.range mb.length).all fun k => getAt ring (posOf start k &&& mask) == .ok (mb.getD k 0)) = true) :
    RingHolds ring mask start mb := by
  intro k hk
  rw [List.all_eq_true] at h
  have := h k (List.mem_range.mpr hk)
  simpa using this

/-! non-vacuity: a command array the real encoder produced (quality 5, lgwin 10: two copies through short distance
codes, the second one ends the meta-block), in a 32-byte ring at a wrapping position -/
def exMb : Bytes := [0x69, 0x8e, 0x69, 0x69, 0x8e, 0x69, 0x8e, 0x69, 0x69, 0x8e, 0x69, 0x8e, 0x69, 0x69, 0x8e,
  0x69, 0x8e, 0x69, 0x69, 0x8e, 0x69]
def exRing : Bytes := [0x69, 0x8e, 0x69, 0x8e, 0x69, 0x69, 0x8e, 0x69, 0, 0, 0, 0, 0, 0, 0, 0, 0, 0, 0,
  0x69, 0x8e, 0x69, 0x69, 0x8e, 0x69, 0x8e, 0x69, 0x69, 0x8e, 0x69, 0x8e, 0x69]
def exCmds : List Cmd := [⟨5, 10, 0, 232, 5⟩, ⟨0, 6, 0, 132, 3⟩]
def noWords : WordOracle := fun _ _ _ => none

example : RingHolds exRing 31 19 exMb ∧ (∀ b ∈ exMb, b < 256) ∧ 1 ≤ exMb.length ∧ exMb.length ≤ 2 ^ 24 ∧
    inputPairCheck exRing 19 exMb.length 31 = .ok () ∧
    (∀ c ∈ exCmds, cmdOK (distAlphabetSize false 0 0) 0 0 c = true) ∧
    lockstep noWords 0 0 1008 exMb ⟨[], [4, 11, 15, 16], 0⟩ 0 exCmds = true ∧
    replayCommands noWords 0 0 1008 exMb [4, 11, 15, 16] [] exCmds = some ([] ++ exMb) :=
  ⟨ringHolds_of_check _ _ _ _ (by decide), by decide, by decide, by decide, by decide, by decide, by decide, by decide⟩

end BV.Props.C01MetaBlock
