/-
C15Window — "a decoder limited to the declared window can decode the stream", the half of C15 that
used to be judged only differentially: the window a decoder DERIVES FROM THE HEADER BITS is the window
the command generator's lock-step theorems (BV/Props/C01Chain.lean) were proved against.

Encoder side (code-mirroring):
* `genInit` — the first three statements of `ensure_initialized` (`SanitizeParams`; `lgblock =
  ComputeLgBlock`; `ChooseDistanceParams`) as the composition of the definitions GENERATED from the Rust
  text by tools/rs2lean.py (BV/Gen/FnC15.lean); `cbrParams` — the fields `CreateBackwardReferences`
  reads of the result (`quality`, `lgwin`, `dist.max_distance`, `dist.distance_postfix_bits`,
  `dist.num_direct_distance_codes`); both tied to the real encoder by the `window` correspondence
  stage (real `ensure_initialized` on the whole parameter grid).  `gen_init_header` equates the
  generated side with the hand-written header model `BV.Header.ensureInitialized` the C15 theorems
  are stated over.
Decoder side (specification): `BV.HeaderSpec.readWbits` (RFC 7932 §9.1 + large-window extension),
`BV.Recoder.decStep`/`replayCommands`, `BV.MetaBlock.lockstep`, and — new here — `copyEvents` (which
distance each command's copy resolves to and whether it is an LZ77 copy or a static-dictionary
reference) and the bounded-memory reading of the decoder (`decSteps_forgets_history`).
-/
import BV.Props.C15
import BV.Props.C01Chain
import BV.Gen.FnC15
import BV.Model.Window
import BV.Lemmas.FragmentWindow

namespace BV.Props.C15Window
open BV.Bits BV.Header BV.HeaderSpec BV.Recoder BV.MetaBlock BV.Cbr BV.Hasher BV.MatchFinder BV.PrefixArith
open BV.Props.C01Chain BV.Window

abbrev GenParams := BV.Window.GenParams
export BV.Window (genInit cbrParams genHeaderBits)

/-- the fields of the generated parameter structure the header model looks at -/
def hdrParams (gp : GenParams) : Header.Params :=
  { quality := gp.quality, lgwin := gp.lgwin, lgblock := gp.lgblock, largeWindow := gp.large_window,
    catable := gp.catable, appendable := gp.appendable, useDictionary := gp.use_dictionary,
    magicNumber := gp.magic_number, sizeHint := gp.size_hint }

/-- the window the stream header has to declare for the request (specification: `clampWindow`) -/
def declaredWbits (gp : GenParams) : Nat := (clampWindow gp.quality gp.lgwin gp.large_window).toNat

/-- RFC 7932 §9.1: "the sliding window size is `(1 << WBITS) − 16`" -/
def declaredWindow (gp : GenParams) : Nat := 2 ^ declaredWbits gp - 16

theorem gen_sanitize_lgwin (gp : GenParams) :
    (BV.Gen.FnC15.SanitizeParams gp).lgwin = max 10 (min (if gp.large_window then 30 else 24) gp.lgwin) := by
  unfold BV.Gen.FnC15.SanitizeParams BV.Gen.FnC15.check_large_window_ok
  cases hc : gp.catable <;> cases hw : gp.large_window <;> simp <;> split <;> (try split) <;> (try split) <;>
    simp_all <;> omega

theorem gen_sanitize_quality (gp : GenParams) :
    (BV.Gen.FnC15.SanitizeParams gp).quality = min 11 (max 0 gp.quality) := by
  unfold BV.Gen.FnC15.SanitizeParams BV.Gen.FnC15.check_large_window_ok
  cases hc : gp.catable <;> cases hw : gp.large_window <;> simp <;> split <;> (try split) <;> (try split) <;> simp_all

theorem gen_sanitize_large (gp : GenParams) : (BV.Gen.FnC15.SanitizeParams gp).large_window = gp.large_window := by
  unfold BV.Gen.FnC15.SanitizeParams BV.Gen.FnC15.check_large_window_ok
  cases hc : gp.catable <;> cases hw : gp.large_window <;> simp <;> split <;> (try split) <;> (try split) <;> simp_all

theorem gen_sanitize_mode_dist (gp : GenParams) :
    (BV.Gen.FnC15.SanitizeParams gp).mode = gp.mode ∧ (BV.Gen.FnC15.SanitizeParams gp).dist = gp.dist := by
  unfold BV.Gen.FnC15.SanitizeParams BV.Gen.FnC15.check_large_window_ok
  cases hc : gp.catable <;> cases hw : gp.large_window <;> simp <;> split <;> (try split) <;> (try split) <;> simp_all

theorem choose_keeps (g : GenParams) :
    (BV.Gen.FnC15.ChooseDistanceParams g).lgwin = g.lgwin ∧ (BV.Gen.FnC15.ChooseDistanceParams g).quality = g.quality ∧
    (BV.Gen.FnC15.ChooseDistanceParams g).large_window = g.large_window := by
  unfold BV.Gen.FnC15.ChooseDistanceParams BV.Gen.FnC15.BrotliInitDistanceParams
  exact ⟨rfl, rfl, rfl⟩

/-- **gen_init_header**: the generated head of `ensure_initialized` leaves the `quality`, `lgwin` and
`large_window` the hand-written header model computes (every field value, no range hypothesis) -/
theorem gen_init_header (gp : GenParams) :
    (genInit gp).lgwin = (ensureInitialized true (hdrParams gp)).params.lgwin ∧
    (genInit gp).quality = (ensureInitialized true (hdrParams gp)).params.quality ∧
    (genInit gp).large_window = (ensureInitialized true (hdrParams gp)).params.largeWindow := by
  obtain ⟨a, b, c⟩ := choose_keeps
    { BV.Gen.FnC15.SanitizeParams gp with lgblock := BV.Gen.FnC15.ComputeLgBlock (BV.Gen.FnC15.SanitizeParams gp) }
  refine ⟨?_, ?_, ?_⟩
  · rw [init_params_lgwin, sanitize_lgwin]
    show (BV.Gen.FnC15.ChooseDistanceParams _).lgwin = _
    rw [a]; exact gen_sanitize_lgwin gp
  · rw [init_params_quality, sanitize_quality]
    show (BV.Gen.FnC15.ChooseDistanceParams _).quality = _
    rw [b]; exact gen_sanitize_quality gp
  · rw [init_params_large]
    show (BV.Gen.FnC15.ChooseDistanceParams _).large_window = _
    rw [c]; exact gen_sanitize_large gp

/-- the request leaves NPOSTFIX = NDIRECT = 0: quality below 4, or a non-FONT mode with the two
`dist` fields at their initial value 0 (`set_parameter` has no way to set them before the first call
other than through the mode) -/
def PlainDist (gp : GenParams) : Prop :=
  gp.quality < 4 ∨ (gp.mode ≠ 2 ∧ gp.dist.distance_postfix_bits = 0 ∧ gp.dist.num_direct_distance_codes = 0)

/-- **gen_init_dist**: `ChooseDistanceParams` (generated) for such a request: NPOSTFIX = NDIRECT = 0,
`max_distance = 0x3FFFFFC` (standard alphabet, 64 symbols) or `0x7FFFFFC` (large window, 140 symbols) -/
theorem gen_init_dist (gp : GenParams) (h : PlainDist gp) :
    (genInit gp).dist = ⟨0, 0, if gp.large_window then 140 else 64, if gp.large_window then 0x7FFFFFC else 0x3FFFFFC⟩ := by
  have hq := gen_sanitize_quality gp
  have hl := gen_sanitize_large gp
  obtain ⟨hm, hd⟩ := gen_sanitize_mode_dist gp
  unfold genInit BV.Gen.FnC15.ChooseDistanceParams
  simp only [hq, hm, hd]
  rcases h with h | ⟨h1, h2, h3⟩
  · have : ¬ (min (11 : Int) (max 0 gp.quality) ≥ 4) := by omega
    simp only [this, decide_false, Bool.false_eq_true, if_false]
    unfold BV.Gen.FnC15.BrotliInitDistanceParams BV.Gen.FnC15.BROTLI_DISTANCE_ALPHABET_SIZE
    simp only [hl]
    cases gp.large_window <;> rfl
  · have hm2 : (gp.mode == 2) = false := by simpa using h1
    simp only [hm2, h2, h3, Bool.false_eq_true, if_false]
    by_cases hq4 : min (11 : Int) (max 0 gp.quality) ≥ 4
    · simp only [hq4, decide_true, if_true]
      unfold BV.Gen.FnC15.BrotliInitDistanceParams BV.Gen.FnC15.BROTLI_DISTANCE_ALPHABET_SIZE
      simp only [hl]
      cases gp.large_window <;> rfl
    · simp only [hq4, decide_false, Bool.false_eq_true, if_false]
      unfold BV.Gen.FnC15.BrotliInitDistanceParams BV.Gen.FnC15.BROTLI_DISTANCE_ALPHABET_SIZE
      simp only [hl]
      cases gp.large_window <;> rfl

/-! ## the window: used = declared -/

theorem maxBackwardLimit_eq (p : Cbr.Params) : maxBackwardLimit p = 2 ^ p.lgwin - 16 := by
  simp [maxBackwardLimit, Nat.one_shiftLeft]

/-- the sanitised `lgwin` as a natural number -/
theorem gen_init_lgwin_nat (gp : GenParams) :
    ((genInit gp).lgwin.toNat : Int) = max 10 (min (if gp.large_window then 30 else 24) gp.lgwin) := by
  rw [(gen_init_header gp).1, init_params_lgwin, sanitize_lgwin]
  show ((max 10 (min (if gp.large_window then 30 else 24) gp.lgwin) : Int).toNat : Int) = _
  omega

/-- **window_used_le_declared** in the decoder's units: the backward limit every match finder call
works with (`(1 << params.lgwin) − 16`) never exceeds the window the header declares -/
theorem cbr_window_le_declared (gp : GenParams) :
    maxBackwardLimit (cbrParams (genInit gp)) ≤ declaredWindow gp := by
  rw [maxBackwardLimit_eq]
  have h := gen_init_lgwin_nat gp
  have hle : (cbrParams (genInit gp)).lgwin ≤ declaredWbits gp := by
    show (genInit gp).lgwin.toNat ≤ (clampWindow gp.quality gp.lgwin gp.large_window).toNat
    simp only [clampWindow]
    cases hw : gp.large_window <;> simp [hw] at h ⊢ <;> split <;> omega
  have := Nat.pow_le_pow_right (show 0 < 2 by decide) hle
  show 2 ^ (cbrParams (genInit gp)).lgwin - 16 ≤ 2 ^ declaredWbits gp - 16
  omega

/-- **cbr_window_eq_declared**: from quality 2 on (every quality that runs `CreateBackwardReferences`) they are EQUAL -/
theorem cbr_window_eq_declared (gp : GenParams) (hq : 2 ≤ gp.quality) :
    maxBackwardLimit (cbrParams (genInit gp)) = declaredWindow gp := by
  rw [maxBackwardLimit_eq]
  have h := gen_init_lgwin_nat gp
  have he : (cbrParams (genInit gp)).lgwin = declaredWbits gp := by
    show (genInit gp).lgwin.toNat = (clampWindow gp.quality gp.lgwin gp.large_window).toNat
    simp only [clampWindow]
    cases hw : gp.large_window <;> simp [hw] at h ⊢ <;> split <;> omega
  show 2 ^ (cbrParams (genInit gp)).lgwin - 16 = 2 ^ declaredWbits gp - 16
  rw [he]

/-- **decoder_derives_declared_window**: what a decoder reads (RFC 7932 §9.1 reader, independent of the
encoder model) from the first bits of ANY stream of this encoder is `declaredWbits`, in the requested
form — so its sliding window is `declaredWindow`; for quality ≥ 2 that is exactly the backward limit of
the command generator -/
theorem decoder_derives_declared_window (gp : GenParams) (rest : List Bool) :
    readWbits (pendingWriter (ensureInitialized true (hdrParams gp)) ++ rest)
      = some (declaredWbits gp, gp.large_window, rest) ∧
    windowSize (declaredWbits gp) = declaredWindow gp ∧
    (2 ≤ gp.quality → maxBackwardLimit (cbrParams (genInit gp)) = windowSize (declaredWbits gp)) :=
  ⟨BV.Props.C15.declared_window (hdrParams gp) rest, rfl, cbr_window_eq_declared gp⟩

/-! ## decoder side: which distances the copies resolve to -/

/-- RFC 7932 §4 / §8, per command with a copy part: the distance its distance symbol denotes (given
the decoder's ring of last distances) and whether the decoder executes it as an LZ77 copy (`true`:
distance ≤ min(bytes produced so far, window)) or as a static-dictionary reference (`false`).
Written from the RFC, independently of `decStep`; `none` = the command has no copy part
(its insert completes the meta-block) or is malformed. -/
def copyEvent (np nd window : Nat) (mb : Bytes) (s : DecSt) (c : Cmd) : Option (Nat × Bool) :=
  if s.cursor + c.insertLen ≥ mb.length then none else
  match rfcDistance np nd s.ring (c.distPrefix % 1024) c.distExtra with
  | none => none
  | some (d, _) => if d ≤ 0 then none else some (d.toNat, decide (d.toNat ≤ min (s.out.length + c.insertLen) window))

/-- the copy events of a command list, in order, along the decoder's run -/
def copyEvents (w : WordOracle) (np nd window : Nat) (mb : Bytes) : DecSt → List Cmd → List (Nat × Bool)
  | _, [] => []
  | s, c :: cs =>
    (copyEvent np nd window mb s c).toList ++
      (match decStep w np nd window mb s c with
       | none => []
       | some s' => copyEvents w np nd window mb s' cs)

/-- every LZ77 copy of a replay stays inside the decoder's window and inside the bytes produced -/
theorem lz77_copies_within_window (w : WordOracle) (np nd window : Nat) (mb : Bytes) (cs : List Cmd) :
    ∀ (s : DecSt) (d : Nat), (d, true) ∈ copyEvents w np nd window mb s cs → 1 ≤ d ∧ d ≤ window := by
  induction cs with
  | nil => intro s d h; cases h
  | cons c cs ih =>
    intro s d h
    simp only [copyEvents, List.mem_append] at h
    rcases h with h | h
    · simp only [copyEvent] at h
      split at h
      · cases h
      · split at h
        · cases h
        · rename_i dd u _
          split at h
          · cases h
          · simp only [Option.toList_some, List.mem_singleton, Prod.mk.injEq] at h
            obtain ⟨rfl, h2⟩ := h
            have := of_decide_eq_true h2.symm
            omega
    · cases hs : decStep w np nd window mb s c with
      | none => simp only [hs] at h; cases h
      | some s' => simp only [hs] at h; exact ih s' d h

/-! ## a decoder that keeps only one window of history -/

theorem copyBytes_drop : ∀ (n d : Nat) (out : Bytes) (k : Nat), 1 ≤ d → d + k ≤ out.length →
    (copyBytes n d out).drop k = copyBytes n d (out.drop k) := by
  intro n
  induction n with
  | zero => intro d out k _ _; rfl
  | succ n ih =>
    intro d out k h1 h2
    simp only [copyBytes]
    rw [ih d _ k h1 (by simp; omega)]
    congr 1
    rw [List.drop_append_of_le_length (by omega)]
    congr 2
    simp only [List.length_drop, List.getD_eq_getElem?_getD, List.getElem?_drop]
    congr 2
    omega

theorem decStep_drop (w : WordOracle) (np nd window : Nat) (mb : Bytes) (s : DecSt) (c : Cmd) (k : Nat)
    (hk : k + window ≤ s.out.length) :
    decStep w np nd window mb ⟨s.out.drop k, s.ring, s.cursor⟩ c
      = (decStep w np nd window mb s c).map (fun s' => { s' with out := s'.out.drop k }) := by
  have e1 : ∀ X : Bytes, s.out.drop k ++ X = (s.out ++ X).drop k := by
    intro X; rw [List.drop_append_of_le_length (by omega)]
  unfold decStep
  simp only [e1]
  generalize hout : s.out ++ List.take c.insertLen (List.drop s.cursor mb) = out
  have hlen : k + window ≤ out.length := by rw [← hout]; simp; omega
  have e2 : min (out.drop k).length window = min out.length window := by simp; omega
  simp only [e2]
  split
  · rfl
  · split
    · rfl
    · split
      · rfl
      · cases hd : rfcDistance np nd s.ring (c.distPrefix % 1024) c.distExtra with
        | none => rfl
        | some r =>
          obtain ⟨d, upd⟩ := r
          simp only []
          split
          · rfl
          · split
            · split
              · rfl
              · rename_i hle _
                simp only [Option.map_some]
                rw [copyBytes_drop _ _ _ _ (by omega) (by omega)]
            · split
              · rfl
              · cases hw : w (copyLenCode c.copyLenField)
                    ((d.toNat - min out.length window - 1) % 2 ^ dictSizeBits.getD (copyLenCode c.copyLenField) 0)
                    ((d.toNat - min out.length window - 1) / 2 ^ dictSizeBits.getD (copyLenCode c.copyLenField) 0) with
                | none => simp only [hw, Option.map_none]
                | some word =>
                  simp only [hw]
                  split
                  · rfl
                  · simp only [Option.map_some]
                    rw [List.drop_append_of_le_length (by omega)]

/-- the decoder's output only grows -/
theorem decStep_out_mono (w : WordOracle) (np nd window : Nat) (mb : Bytes) (s : DecSt) (c : Cmd) (s' : DecSt)
    (h : decStep w np nd window mb s c = some s') : s.out.length ≤ s'.out.length := by
  unfold decStep at h
  simp only [] at h
  split at h
  · cases h
  · split at h
    · cases h
    · split at h
      · simp only [Option.some.injEq] at h; subst h; simp
      · split at h
        · cases h
        · split at h
          · cases h
          · split at h
            · split at h
              · cases h
              · simp only [Option.some.injEq] at h; subst h
                simp [BV.Recoder.copyBytes_length]; omega
            · split at h
              · cases h
              · split at h
                · cases h
                · split at h
                  · cases h
                  · simp only [Option.some.injEq] at h; subst h; simp

theorem decSteps_drop (w : WordOracle) (np nd window : Nat) (mb : Bytes) (cs : List Cmd) :
    ∀ (s : DecSt) (k : Nat), k + window ≤ s.out.length →
      decSteps w np nd window mb ⟨s.out.drop k, s.ring, s.cursor⟩ cs
        = (decSteps w np nd window mb s cs).map (fun s' => { s' with out := s'.out.drop k }) := by
  induction cs with
  | nil => intro s k _; rfl
  | cons c cs ih =>
    intro s k hk
    simp only [decSteps]
    rw [decStep_drop w np nd window mb s c k hk]
    cases hs : decStep w np nd window mb s c with
    | none => rfl
    | some s' =>
      simp only [Option.map_some]
      have hmono : s.out.length ≤ s'.out.length := decStep_out_mono w np nd window mb s c s' hs
      exact ih s' k (by omega)

/-- **decoder_limited_to_declared_window** (the bounded-memory reading of "a decoder limited to the declared
window can decode the stream"): the RFC decoder needs, of everything it has produced, only the last
`window` bytes.  Replaying any command list from a history of which all but the last `window` (or more)
bytes have been DISCARDED (`hist.drop k`, `k + window ≤ |hist|`) succeeds exactly when the full replay does
and produces the full result minus the discarded bytes — for every window, command list, word oracle.
With `window = 2^W − 16` read from the header this is a decoder with a `2^W`-byte ring buffer. -/
theorem decoder_limited_to_declared_window (w : WordOracle) (np nd window : Nat) (mb : Bytes) (ring : List Int)
    (hist : Bytes) (cmds : List Cmd) (k : Nat) (hk : k + window ≤ hist.length) :
    replayCommands w np nd window mb ring (hist.drop k) cmds
      = (replayCommands w np nd window mb ring hist cmds).map (fun out => out.drop k) := by
  unfold replayCommands
  have := decSteps_drop w np nd window mb cmds ⟨hist, ring, 0⟩ k hk
  simp only [] at this
  rw [this]
  cases decSteps w np nd window mb ⟨hist, ring, 0⟩ cmds <;> rfl

/-- the two together: the blocks of `emitted_distances_within_declared_window` are replayed to the block by
a decoder that kept only `2^W − 16` bytes (W read from the header) of the history -/
theorem cbr_block_decodes_with_window_memory (wo : WordOracle) (W : Nat) (mb : Bytes) (ring : List Int) (hist : Bytes)
    (cmds : List Cmd) (h : replayCommands wo 0 0 (2 ^ W - 16) mb ring hist cmds = some (hist ++ mb))
    (hlong : 2 ^ W - 16 ≤ hist.length) :
    replayCommands wo 0 0 (2 ^ W - 16) mb ring (hist.drop (hist.length - (2 ^ W - 16))) cmds
      = some (hist.drop (hist.length - (2 ^ W - 16)) ++ mb) := by
  rw [decoder_limited_to_declared_window wo 0 0 (2 ^ W - 16) mb ring hist cmds _ (by omega), h]
  simp only [Option.map_some]
  rw [List.drop_append_of_le_length (by omega)]

/-- window 4: one literal, then a copy of 2 bytes from distance 4 (last distance), replayed on a history cut to its last 4 bytes -/
example : replayCommands (fun _ _ _ => none) 0 0 4 [9, 2, 3] [4, 11, 15, 16] ([5, 6, 7, 1, 2, 3, 4].drop 3)
    [⟨1, 2, 0, getLengthCode 1 2 true, 0⟩] = some ([1, 2, 3, 4, 9, 2, 3]) := by decide


/-! ## quality 0 / 1: the fragment writers

The header of a quality 0/1 stream declares `max(lgwin, 18)`; `compress_fragment_fast` /
`compress_fragment_two_pass` never consult `lgwin` for distances: a candidate is used only when
`ip − candidate ≤ MAX_DISTANCE = 262128 = 2^18 − 16` (the hash table holds positions of the current
fragment only).  Stated here over the two-pass model BV/Model/Fragment.lean: the guard lemmas
(`BV.Fragment.scan_candidate_within_table_window`, BV/Lemmas/FragmentWindow.lean; the loop of immediate matches `chain` carries the same guard `wsub c.ip cand > 262128 → stop` textually), the parameter side
(`q01_declared_window_covers_table_window`) and the decoder side (`applyCopy_lz77_window_mono`: an LZ77 copy
within a smaller window is executed identically by a decoder with any larger window — the fragment
writers emit no static-dictionary references, so replaying their commands with the DECLARED window instead
of 2^18 − 16 changes nothing).  NOT proved: the induction through `matchLoop` / `chain` / `createCommands`
that every distance word in the command buffer encodes such a distance (`emitDistanceQ1` of a guarded
`wsub`), i.e. hypothesis (b) of BV/Props/C01Fragment.lean. -/

/-- quality ≤ 1: the declared window is at least the fragment writers' `MAX_DISTANCE` -/
theorem q01_declared_window_covers_table_window (gp : GenParams) (hq : gp.quality ≤ 1) :
    262128 ≤ declaredWindow gp ∧ 18 ≤ declaredWbits gp := by
  have h18 : 18 ≤ declaredWbits gp := by
    unfold declaredWbits clampWindow
    simp only [hq, if_true]
    omega
  have := Nat.pow_le_pow_right (show 0 < 2 by decide) h18
  refine ⟨?_, h18⟩
  unfold declaredWindow
  have e : (2 : Nat) ^ 18 = 262144 := by decide
  omega

/-- decoder side: a copy that is an LZ77 copy under window `W` (resolved distance ≤ min(produced, W)) is
executed identically under every larger window -/
theorem applyCopy_lz77_window_mono (wo : WordOracle) (W W' np nd mlen done cl : Nat) (out : Bytes) (ring : List Int)
    (ds extra : Nat) (d : Int) (upd : Bool) (hW : W ≤ W')
    (hd : rfcDistance np nd ring ds extra = some (d, upd)) (hle : d.toNat ≤ min out.length W) :
    applyCopy wo W' np nd mlen done cl out ring ds extra = applyCopy wo W np nd mlen done cl out ring ds extra := by
  unfold applyCopy
  simp only [hd]
  have h' : d.toNat ≤ min out.length W' := by omega
  simp only [hle, h', if_true]

example : (262128 : Nat) = 2 ^ 18 - 16 := by decide
example : declaredWbits { (default : GenParams) with quality := 1, lgwin := 10 } = 18 ∧
    declaredWbits { (default : GenParams) with quality := 0, lgwin := 22 } = 22 := by decide

/-! ## the composition -/

/-- what is assumed of one meta-block besides the parameters: the ring-buffer view (exactly
`BlockOK.ring`, proved from the `RingBufferWrite` invariant by `ring_hypothesis_of_ringOK`), the
geometry side conditions, and `lo` at least one DECLARED window before the block -/
structure BlockData (data : ByteArray) (k tail : Nat) (hist mb : Bytes) (lo window : Nat) : Prop where
  ring : BV.Props.C01.RingViewW (ringBytes data) k tail (hist ++ mb) lo (hist.length + mb.length)
  tail_le : tail ≤ 2 ^ k
  block_le : mb.length ≤ tail
  lo_le : lo ≤ hist.length - window
  len : mb.length ≤ 2 ^ 24
  total : hist.length + mb.length < 2 ^ 64

theorem declaredWbits_range (gp : GenParams) :
    10 ≤ declaredWbits gp ∧ declaredWbits gp ≤ 30 ∧ (gp.large_window = false → declaredWbits gp ≤ 24) := by
  obtain ⟨a, b, c⟩ := clampWindow_range gp.quality gp.lgwin gp.large_window
  unfold declaredWbits
  refine ⟨by omega, by omega, fun h => by have := c h; omega⟩

/-- **blockOK_of_header**: every PARAMETER hypothesis of `BlockOK` (NPOSTFIX = NDIRECT = 0, window ≤ 2^30,
standard alphabet only up to 2^26 − 4 for window and `max_distance`) holds of the parameters
`ensure_initialized` produces; what remains is the data -/
theorem blockOK_of_header (gp : GenParams) (hq : 2 ≤ gp.quality) (hpd : PlainDist gp)
    (data : ByteArray) (k tail : Nat) (hist mb : Bytes) (lo : Nat)
    (hd : BlockData data k tail hist mb lo (declaredWindow gp)) :
    BlockOK (cbrParams (genInit gp)) gp.large_window data k tail hist mb lo := by
  have hw := cbr_window_eq_declared gp hq
  have hdist := gen_init_dist gp hpd
  obtain ⟨r1, r2, r3⟩ := declaredWbits_range gp
  have p30 : 2 ^ declaredWbits gp ≤ 2 ^ 30 := Nat.pow_le_pow_right (by decide) r2
  refine ⟨?_, ?_, hd.ring, hd.tail_le, hd.block_le, by rw [hw]; exact hd.lo_le, ?_, ?_, ?_, hd.len, hd.total⟩
  · show (genInit gp).dist.distance_postfix_bits = 0
    rw [hdist]
  · show (genInit gp).dist.num_direct_distance_codes = 0
    rw [hdist]
  · rw [hw]; unfold declaredWindow; omega
  · intro hl
    have p24 : 2 ^ declaredWbits gp ≤ 2 ^ 24 := Nat.pow_le_pow_right (by decide) (r3 hl)
    rw [hw]; unfold declaredWindow
    have : (2 : Nat) ^ 24 - 16 ≤ 2 ^ 26 - 4 := by decide
    omega
  · intro hl
    show (genInit gp).dist.max_distance ≤ 2 ^ 26 - 4
    rw [hdist, hl]; decide

/-- **emitted_distances_within_declared_window** (abstract sound hasher; the three bucketed families
are instances through `basicOps_ok` / `advOps_ok` / `h9Ops_ok`, see the corollaries below).

For every request `gp` with quality ≥ 2 (any integers, any flags) that leaves NPOSTFIX = NDIRECT = 0,
every meta-block processed by the `CreateBackwardReferences` model WITH THE PARAMETERS
`ensure_initialized` PRODUCES (`cbrParams (genInit gp)`: sanitised `lgwin`, `large_window`,
`ChooseDistanceParams`), every sound hasher, starting cache, pending insert:

* the window `W` a decoder reads from the header bits of the stream (RFC §9.1 reader, any continuation
  `rest`) gives the sliding window `2^W − 16`, and the commands of the block, closed as `encode.rs`
  closes them, are `cmdOK`, in `lockstep` with, and replayed to exactly `hist ++ mb` by, the RFC decoder
  RUN WITH THAT DECLARED WINDOW (not with the encoder's `max_backward_limit`): the two are proved equal;
* along that run every LZ77 copy has distance `1 ≤ d ≤ 2^W − 16` — every other copy is a
  static-dictionary reference, which the decoder resolves to the same word the encoder meant because it
  computes `distance − min(produced, window) − 1` with the same window. -/
theorem emitted_distances_within_declared_window {H : Type} (ops : HasherOps H) (gp : GenParams)
    (hq : 2 ≤ gp.quality) (hpd : PlainDist gp) (wo : WordOracle)
    (data : ByteArray) (k tail : Nat) (hist mb : Bytes) (lo : Nat)
    (hd : BlockData data k tail hist mb lo (declaredWindow gp))
    (hops : OpsOK (SlotOK wo) ops (cbrParams (genInit gp)) data k)
    (numBytes position : Nat) (h0 : H) (cache : List Int) (lastInsertLen numLiterals : Nat) (res : Result H)
    (hpos : position = hist.length + lastInsertLen) (hmb : mb.length = lastInsertLen + numBytes)
    (hc : CacheI32 cache) (hcl : 4 ≤ cache.length)
    (h : createBackwardReferences ops (cbrParams (genInit gp)) numBytes position h0 cache lastInsertLen numLiterals = some res)
    (rest : List Bool) :
    ∃ W, readWbits (pendingWriter (ensureInitialized true (hdrParams gp)) ++ rest) = some (W, gp.large_window, rest) ∧
      W = declaredWbits gp ∧
      (∀ c ∈ closeMetaBlock res.cmds res.lastInsertLen, cmdOK (distAlphabetSize gp.large_window 0 0) 0 0 c = true) ∧
      lockstep wo 0 0 (2 ^ W - 16) mb ⟨hist, cache.take 4, 0⟩ 0 (closeMetaBlock res.cmds res.lastInsertLen) = true ∧
      replayCommands wo 0 0 (2 ^ W - 16) mb (cache.take 4) hist (closeMetaBlock res.cmds res.lastInsertLen)
        = some (hist ++ mb) ∧
      ∀ d, (d, true) ∈ copyEvents wo 0 0 (2 ^ W - 16) mb ⟨hist, cache.take 4, 0⟩
          (closeMetaBlock res.cmds res.lastInsertLen) → 1 ≤ d ∧ d ≤ 2 ^ W - 16 := by
  have hb := blockOK_of_header gp hq hpd data k tail hist mb lo hd
  obtain ⟨a, b, c⟩ := commands_lockstep ops (cbrParams (genInit gp)) gp.large_window wo data k tail hist mb lo hb hops
    numBytes position h0 cache lastInsertLen numLiterals res hpos hmb hc hcl h
  rw [cbr_window_eq_declared gp hq] at b c
  exact ⟨declaredWbits gp, (decoder_derives_declared_window gp rest).1, rfl, a, b, c,
    fun d hd' => lz77_copies_within_window _ _ _ _ _ _ _ d hd'⟩

/-- the same with NOTHING assumed about the hasher, for the BasicHasher family (H2, H3, H4, H54):
`OpsOK` is `match_sound_basic` -/
theorem emitted_distances_within_declared_window_basic (P : BasicP) (useDict : Bool) (lbs : Nat) (gp : GenParams)
    (hq : 2 ≤ gp.quality) (hpd : PlainDist gp) (wo : WordOracle)
    (data : ByteArray) (k tail : Nat) (hk : k ≤ 32) (hist mb : Bytes) (lo : Nat)
    (hd : BlockData data k tail hist mb lo (declaredWindow gp))
    (dict : ByteArray → Nat → Option (List DictItem)) (hdf : DictFaithful wo dict data)
    (numBytes position : Nat) (b0 : Tab) (c0 : Common) (cache : List Int) (lastInsertLen numLiterals : Nat)
    (res : Result (Tab × Common))
    (hpos : position = hist.length + lastInsertLen) (hmb : mb.length = lastInsertLen + numBytes)
    (hc : CacheI32 cache) (hcl : 4 ≤ cache.length)
    (h : createBackwardReferences (basicOps P useDict lbs dict data (2 ^ k - 1)) (cbrParams (genInit gp)) numBytes position
      (b0, c0) cache lastInsertLen numLiterals = some res) (rest : List Bool) :
    ∃ W, readWbits (pendingWriter (ensureInitialized true (hdrParams gp)) ++ rest) = some (W, gp.large_window, rest) ∧
      W = declaredWbits gp ∧
      (∀ c ∈ closeMetaBlock res.cmds res.lastInsertLen, cmdOK (distAlphabetSize gp.large_window 0 0) 0 0 c = true) ∧
      lockstep wo 0 0 (2 ^ W - 16) mb ⟨hist, cache.take 4, 0⟩ 0 (closeMetaBlock res.cmds res.lastInsertLen) = true ∧
      replayCommands wo 0 0 (2 ^ W - 16) mb (cache.take 4) hist (closeMetaBlock res.cmds res.lastInsertLen)
        = some (hist ++ mb) ∧
      ∀ d, (d, true) ∈ copyEvents wo 0 0 (2 ^ W - 16) mb ⟨hist, cache.take 4, 0⟩
          (closeMetaBlock res.cmds res.lastInsertLen) → 1 ≤ d ∧ d ≤ 2 ^ W - 16 :=
  emitted_distances_within_declared_window _ gp hq hpd wo data k tail hist mb lo hd
    (basicOps_ok _ P useDict lbs _ data k hk _ hdf) numBytes position (b0, c0) cache lastInsertLen numLiterals res
    hpos hmb hc hcl h rest

/-- AdvHasher family (H5, H6, and the q9.5 variants) -/
theorem emitted_distances_within_declared_window_adv (P : AdvP) (hla : 4 ≤ P.lookahead) (numLast lbs : Nat) (gp : GenParams)
    (hq : 2 ≤ gp.quality) (hpd : PlainDist gp) (wo : WordOracle)
    (data : ByteArray) (k tail : Nat) (hk : k ≤ 32) (hist mb : Bytes) (lo : Nat)
    (hd : BlockData data k tail hist mb lo (declaredWindow gp))
    (dict : ByteArray → Nat → Option (List DictItem)) (hdf : DictFaithful wo dict data)
    (numBytes position : Nat) (st0 : AdvSt) (c0 : Common) (cache : List Int) (lastInsertLen numLiterals : Nat)
    (res : Result (AdvSt × Common))
    (hpos : position = hist.length + lastInsertLen) (hmb : mb.length = lastInsertLen + numBytes)
    (hc : CacheI32 cache) (hcl : 4 ≤ cache.length)
    (h : createBackwardReferences (advOps P numLast lbs dict data (2 ^ k - 1)) (cbrParams (genInit gp)) numBytes position
      (st0, c0) cache lastInsertLen numLiterals = some res) (rest : List Bool) :
    ∃ W, readWbits (pendingWriter (ensureInitialized true (hdrParams gp)) ++ rest) = some (W, gp.large_window, rest) ∧
      W = declaredWbits gp ∧
      (∀ c ∈ closeMetaBlock res.cmds res.lastInsertLen, cmdOK (distAlphabetSize gp.large_window 0 0) 0 0 c = true) ∧
      lockstep wo 0 0 (2 ^ W - 16) mb ⟨hist, cache.take 4, 0⟩ 0 (closeMetaBlock res.cmds res.lastInsertLen) = true ∧
      replayCommands wo 0 0 (2 ^ W - 16) mb (cache.take 4) hist (closeMetaBlock res.cmds res.lastInsertLen)
        = some (hist ++ mb) ∧
      ∀ d, (d, true) ∈ copyEvents wo 0 0 (2 ^ W - 16) mb ⟨hist, cache.take 4, 0⟩
          (closeMetaBlock res.cmds res.lastInsertLen) → 1 ≤ d ∧ d ≤ 2 ^ W - 16 :=
  emitted_distances_within_declared_window _ gp hq hpd wo data k tail hist mb lo hd
    (advOps_ok _ P numLast lbs _ data k hk _ hla hdf) numBytes position (st0, c0) cache lastInsertLen numLiterals res
    hpos hmb hc hcl h rest

/-- H9 (quality 9 with large inputs) -/
theorem emitted_distances_within_declared_window_h9 (P : H9P) (lbs : Nat) (gp : GenParams)
    (hq : 2 ≤ gp.quality) (hpd : PlainDist gp) (wo : WordOracle)
    (data : ByteArray) (k tail : Nat) (hk : k ≤ 32) (hist mb : Bytes) (lo : Nat)
    (hd : BlockData data k tail hist mb lo (declaredWindow gp))
    (dict : ByteArray → Nat → Option (List DictItem)) (hdf : DictFaithful wo dict data)
    (numBytes position : Nat) (st0 : AdvSt) (c0 : Common) (cache : List Int) (lastInsertLen numLiterals : Nat)
    (res : Result (AdvSt × Common))
    (hpos : position = hist.length + lastInsertLen) (hmb : mb.length = lastInsertLen + numBytes)
    (hc : CacheI32 cache) (hcl : 4 ≤ cache.length)
    (h : createBackwardReferences (h9Ops P lbs dict data (2 ^ k - 1)) (cbrParams (genInit gp)) numBytes position
      (st0, c0) cache lastInsertLen numLiterals = some res) (rest : List Bool) :
    ∃ W, readWbits (pendingWriter (ensureInitialized true (hdrParams gp)) ++ rest) = some (W, gp.large_window, rest) ∧
      W = declaredWbits gp ∧
      (∀ c ∈ closeMetaBlock res.cmds res.lastInsertLen, cmdOK (distAlphabetSize gp.large_window 0 0) 0 0 c = true) ∧
      lockstep wo 0 0 (2 ^ W - 16) mb ⟨hist, cache.take 4, 0⟩ 0 (closeMetaBlock res.cmds res.lastInsertLen) = true ∧
      replayCommands wo 0 0 (2 ^ W - 16) mb (cache.take 4) hist (closeMetaBlock res.cmds res.lastInsertLen)
        = some (hist ++ mb) ∧
      ∀ d, (d, true) ∈ copyEvents wo 0 0 (2 ^ W - 16) mb ⟨hist, cache.take 4, 0⟩
          (closeMetaBlock res.cmds res.lastInsertLen) → 1 ≤ d ∧ d ≤ 2 ^ W - 16 :=
  emitted_distances_within_declared_window _ gp hq hpd wo data k tail hist mb lo hd
    (h9Ops_ok _ P lbs _ data k hk _ hdf) numBytes position (st0, c0) cache lastInsertLen numLiterals res
    hpos hmb hc hcl h rest

/-! ## non-vacuity -/

/-- a request: quality 5, lgwin 10 (everything else at the value `BrotliEncoderInitParams` gives the
fields that matter here: mode GENERIC, dist fields 0) -/
def exampleReq : GenParams := { (default : GenParams) with quality := 5, lgwin := 10 }

example : cbrParams (genInit exampleReq) = ⟨5, 10, 0x3FFFFFC, 0, 0⟩ ∧ declaredWbits exampleReq = 10 ∧
    declaredWindow exampleReq = 1008 ∧ PlainDist exampleReq := by
  refine ⟨rfl, by decide, by decide, Or.inr ⟨by decide, rfl, rfl⟩⟩

/-- large window, FONT mode at quality 3 (< 4: the FONT postfix is not applied), lgwin beyond the range -/
example : cbrParams (genInit { (default : GenParams) with quality := 3, lgwin := 99, large_window := true, mode := 2 })
    = ⟨3, 30, 0x7FFFFFC, 0, 0⟩ := rfl

/-- FONT mode from quality 4 on is NOT covered (`PlainDist` fails): NPOSTFIX = 1, NDIRECT = 12 -/
example : (genInit { (default : GenParams) with quality := 4, lgwin := 22, mode := 2 }).dist = ⟨1, 12, 124, 134217732⟩ := by
  decide

/-- the concrete run of BV/Lemmas/CbrDict.lean (`Example`: a 32-byte text in a 64-byte ring, BasicHasher,
one static-dictionary slot) IS a run with the parameters of the request `exampleReq`; every hypothesis of
`emitted_distances_within_declared_window_basic` holds of it, the header of that stream reads back as
WBITS = 10, and the decoder run with the window 2^10 − 16 replays its two commands (a static-dictionary
reference and the closing insert) to the text -/
example : ∃ res, createBackwardReferences (basicOps Example.hasher true 540 Example.dict Example.data (2 ^ 6 - 1))
      (cbrParams (genInit exampleReq)) 32 0 (Array.replicate 32 0, ⟨0, 0⟩) [4, 11, 15, 16] 0 0 = some res ∧
    readWbits (pendingWriter (ensureInitialized true (hdrParams exampleReq)) ++ [true, true]) = some (10, false, [true, true]) ∧
    replayCommands Example.oracle 0 0 (2 ^ 10 - 16) Example.text [4, 11, 15, 16] []
      (closeMetaBlock res.cmds res.lastInsertLen) = some Example.text := by
  have hp : cbrParams (genInit exampleReq) = Example.params := rfl
  have hd : BlockData Example.data 6 32 [] Example.text 0 (declaredWindow exampleReq) :=
    ⟨Example.ring_ok, by decide, by decide, by decide, by decide, by decide⟩
  cases hr : createBackwardReferences (basicOps Example.hasher true 540 Example.dict Example.data (2 ^ 6 - 1))
      (cbrParams (genInit exampleReq)) 32 0 (Array.replicate 32 0, ⟨0, 0⟩) [4, 11, 15, 16] 0 0 with
  | none => have := Example.run; rw [← hp, hr] at this; cases this
  | some res =>
    obtain ⟨W, h1, h2, _, _, h5, _⟩ := emitted_distances_within_declared_window_basic Example.hasher true 540 exampleReq
      (by decide) (Or.inr ⟨by decide, rfl, rfl⟩) Example.oracle Example.data 6 32 (by decide) [] Example.text 0 hd
      Example.dict Example.dict_ok 32 0 (Array.replicate 32 0) ⟨0, 0⟩ [4, 11, 15, 16] 0 0 res rfl rfl
      (by intro x hx; simp at hx; rcases hx with rfl | rfl | rfl | rfl <;> decide) (by decide) hr [true, true]
    have hW : W = 10 := by rw [h2]; decide
    subst hW
    exact ⟨res, rfl, h1, by simpa using h5⟩

end BV.Props.C15Window
