/-
C14 — Meta-block callback (IR) replays to exactly the input.

Model: `BV.Recoder` (`process_command_queue`, `CommandQueue`, `InputPair::split_at`,
`InputPairFromMaskedInput`, `distance_index_and_offset`, the assertions of `LogMetaBlock`), tied to the real
code by running `process_command_queue` itself on crafted command arrays / block splits / wrap positions
(public wrappers `BrotliStoreMetaBlock*`) and on the raw commands of the real encoder (hook).

SPEC side, written independently of the mirrored code: `replayIR` (what a consumer of the callback does) and
`replayCommands` (what RFC 7932 says a decoder does with the same raw command array: insert literals, stop at
MLEN, resolve the distance symbol through the ring of last distances / `rfcDistDecode`, LZ77 copy if
`distance ≤ min(position, window)`, else static-dictionary word `distance − max_distance − 1`).

Proved here, for EVERY command array, block-split description (also inconsistent ones), literal split,
wrap position of the `InputPair`, distance parameters, distance cache and history:
* `recode_preserves_replay` — if the model does not panic and the command array is a valid meta-block for the
  RFC decoder, replaying the IR gives EXACTLY the decoder's output; `replayIR` is defined only if every copy
  distance is ≥ 1, ≤ the bytes already produced (history = custom-dictionary tail ++ earlier input) and ≤ the
  window, and every dictionary command expands to its `final_size`, so these are part of the statement;
  and the recoder's returned position is the decoder's position.
* `recode_replays_input` — with the payload hypothesis (the decoder reproduces the meta-block input) the IR
  replays to history ++ input, and `num_bytes_encoded` advances by exactly the meta-block length.
* `recoder_position_is_stream_position` — over a whole sequence of meta-blocks started at the custom
  dictionary length (what `set_custom_dictionary` seeds, C10 `enc_book_used`), the position handed to each call
  is the decoder's position: dictionary tail + all earlier input.
* `queue_growth_lossless` — the growing queue hands the callback exactly what was pushed, in order.
NOT proved: that the encoder's commands decode to the input (`PayloadOK`, the payload hypothesis — judged on
the real code by the independent IR replay of engine `recoder` on every run).  `slices_tile` (end of this file) is
proved on top of the stream-machine model of C01/C20 relative to a small callback-invocation interface.
-/
import BV.Lemmas.RecoderSim
import BV.Lemmas.RecoderPos
import BV.Lemmas.RecoderSlices
import BV.Lemmas.RecoderStride
import BV.Props.C18

namespace BV.Props.C14
open BV.Recoder BV.PrefixArith

/-- **`queue_growth_lossless`** — `CommandQueue::new(num_commands)` followed by any number of `push`es (any
number of doublings): the callback receives exactly the pushed commands, in order, and `overfull` (which would
make `free(..).unwrap()` panic) is never set. -/
theorem queue_growth_lossless (numCommands : Nat) (vs : List IR) :
    ((Queue.new numCommands).pushAll vs).items = vs ∧ ((Queue.new numCommands).pushAll vs).overfull = false := by
  obtain ⟨h1, h2⟩ := Queue.pushAll_lossless vs (Queue.new numCommands) (Queue.new_ok numCommands)
  exact ⟨by rw [h2]; rfl, h1.not_over⟩

/-- `LogMetaBlock` hands the callback exactly what `process_command_queue` pushed -/
theorem logMetaBlock_eq (e : Env) (i0 i1 : Bytes) (cmds : List Cmd) (dc : List Int) (nbe : Nat)
    (ir : List IR) (nbe' : Nat) (h : logMetaBlock e i0 i1 cmds dc nbe = some (ir, nbe')) :
    processCommandQueue e (mkPair i0 i1) cmds dc nbe = some (ir, nbe') := by
  unfold logMetaBlock at h
  split at h
  · cases hp : processCommandQueue e (mkPair i0 i1) cmds dc nbe with
    | none => rw [hp] at h; cases h
    | some r =>
      obtain ⟨ir0, n0⟩ := r
      rw [hp] at h
      simp only at h
      obtain ⟨q1, q2⟩ := queue_growth_lossless cmds.length ir0
      rw [q2, q1] at h
      simpa using h
  · cases h

/-- the loop state `process_command_queue` starts from -/
def initSt (i0 i1 : Bytes) (nbe : Nat) (dc : List Int) (ls cs ds : Nat) : St :=
  { iter := mkPair i0 i1, mbLen := (mkPair i0 i1).len, nbe := nbe, cache := dc, lc := 0, cc := 0, dc := 0,
    lsub := ls, csub := cs, dsub := ds, out := [IR.bsl 0] }

/-- **`recode_preserves_replay`** — for EVERY raw command array `cmds`, block-split description (`e.btl`,
`e.btc`, `e.btd`, consistent or not), split of the meta-block into the two ring-buffer halves `i0 ++ i1`
(wrap position), distance cache, history `h` (custom-dictionary tail ++ all earlier input) with the recoder
position equal to its length:
if `process_command_queue` does not panic and the RFC 7932 decoder accepts the same command array
(`replayCommands … = some r`), then replaying the IR handed to the callback yields exactly `r`
— in particular every IR copy has `1 ≤ distance ≤ bytes produced so far (+ dictionary)` and `≤ window`, and
every dictionary command expands to its `final_size` (otherwise `replayIR` is `none`) —
and the returned `num_bytes_encoded` is the decoder's position `r.length`. -/
theorem recode_preserves_replay (w : WordOracle) (e : Env) (i0 i1 : Bytes) (cmds : List Cmd)
    (dc : List Int) (h : Bytes) (ir : List IR) (nbe' : Nat) (r : Bytes)
    (hE : EnvOK e w (windowSize e.lgwin)) (h32 : (i0 ++ i1).length < 2 ^ 32)
    (hdc : CacheOk dc) (wf : CmdsWF cmds e.dp)
    (hm : processCommandQueue e (mkPair i0 i1) cmds dc h.length = some (ir, nbe'))
    (hd : replayCommands w e.dp.npostfix e.dp.ndirect (windowSize e.lgwin) (i0 ++ i1) dc h cmds = some r) :
    replayIR w (windowSize e.lgwin) (i0 ++ i1) ir h = some r ∧ nbe' = r.length := by
  unfold processCommandQueue at hm
  cases hl : initSub e.btl with
  | none => rw [hl] at hm; simp at hm
  | some ls =>
    cases hc : initSub e.btc with
    | none => rw [hl, hc] at hm; simp at hm
    | some cs =>
      cases hdd : initSub e.btd with
      | none => rw [hl, hc, hdd] at hm; simp at hm
      | some ds =>
        rw [hl, hc, hdd] at hm
        simp only at hm
        rw [if_neg (by rw [hdc.1]; simp)] at hm
        unfold replayCommands at hd
        change (match stepAll e (initSt i0 i1 h.length dc ls cs ds) cmds with
          | none => none
          | some s => some (s.out, s.nbe)) = some (ir, nbe') at hm
        cases hs : stepAll e (initSt i0 i1 h.length dc ls cs ds) cmds with
        | none => rw [hs] at hm; cases hm
        | some s' =>
          rw [hs] at hm
          cases hm
          cases ht : decSteps w e.dp.npostfix e.dp.ndirect (windowSize e.lgwin) (i0 ++ i1) ⟨h, dc, 0⟩ cmds with
          | none => rw [ht] at hd; cases hd
          | some t' =>
            rw [ht] at hd
            simp only [Option.map_some, Option.some.injEq] at hd
            have hlen : (mkPair i0 i1).len = (i0 ++ i1).length := by simp [Pair.len, mkPair]
            have h0 : Sim w (windowSize e.lgwin) (i0 ++ i1) h (initSt i0 i1 h.length dc ls cs ds) ⟨h, dc, 0⟩ :=
              ⟨Nat.zero_le _, rfl, by simp [initSt, replayIR],
                fun _ => ⟨mkPair_rep i0 i1, by simpa [initSt] using hlen, by simpa [initSt] using hlen, rfl, hdc⟩⟩
            have hsim := stepAll_sim w (windowSize e.lgwin) (i0 ++ i1) h h32 e hE cmds _ s' _ t' h0 wf hs ht
            exact ⟨by rw [← hd]; exact hsim.out, by rw [← hd]; exact hsim.nbe⟩

/-- **position bookkeeping for EVERY command array** (no well-formedness, no payload hypothesis, any block
splits, any dictionary oracle): after the loop, `num_bytes_encoded` has advanced by exactly the number of
meta-block bytes consumed (`input.len() − mb_len`), and the input iterator holds exactly the unconsumed rest.
In particular the position never runs ahead of the input, whatever the commands claim. -/
theorem recoder_position_every_array (e : Env) (i0 i1 : Bytes) (cmds : List Cmd) (dc : List Int) (nbe ls cs ds : Nat)
    (s' : St) (h32 : (i0 ++ i1).length < 2 ^ 32)
    (hm : stepAll e (initSt i0 i1 nbe dc ls cs ds) cmds = some s') :
    s'.nbe + s'.mbLen = nbe + (i0 ++ i1).length ∧ s'.iter.len = s'.mbLen ∧ s'.mbLen ≤ (i0 ++ i1).length := by
  have hlen : (mkPair i0 i1).len = (i0 ++ i1).length := by simp [Pair.len, mkPair]
  have h0 : Pos (i0 ++ i1) (initSt i0 i1 nbe dc ls cs ds) :=
    ⟨by simpa [initSt, hlen] using mkPair_rep i0 i1, rfl, by simp [initSt, hlen]⟩
  obtain ⟨p, e1⟩ := stepAll_position (i0 ++ i1) h32 e cmds _ s' h0 hm
  exact ⟨by rw [e1]; simp [initSt, hlen], p.iterLen, p.le⟩

/-- **the literal-splitting loop terminates**: the fuel the model gives the `while tmp_inserts.len() > btypel_sub`
loop (`inserts.len() + types.len() + 2`) is never the reason for a `none`: any extra fuel leaves the result
unchanged, for every block-split description and every starting counter (meta-block slices are ≤ 2^24 < 2^31 bytes).
So a model `panic` of the literal part always is a Rust panic site, and the Rust loop cannot spin. -/
theorem literal_loop_terminates (e : Env) (s : St) (inserts : Pair) (k : Nat) (h31 : inserts.len ≤ 2 ^ 31) :
    litLoop e.he e.btl (inserts.len + e.btl.types.length + 2 + k) inserts s.lsub s.lc s.mbLen s.out =
    litLoop e.he e.btl (inserts.len + e.btl.types.length + 2) inserts s.lsub s.lc s.mbLen s.out :=
  litLoop_fuel_enough e.he e.btl k _ inserts s.lsub s.lc s.mbLen s.out h31 (by omega)

/-- PAYLOAD HYPOTHESIS (the only unproved link): the RFC decoder, run on the encoder's command array with
the encoder's history, reproduces the meta-block input -/
def PayloadOK (w : WordOracle) (e : Env) (mb : Bytes) (dc : List Int) (h : Bytes) (cmds : List Cmd) : Prop :=
  replayCommands w e.dp.npostfix e.dp.ndirect (windowSize e.lgwin) mb dc h cmds = some (h ++ mb)

/-- **`recode_replays_input`** — under the payload hypothesis the IR of a meta-block replays to
history ++ input byte for byte, and the recoder position advances by exactly the meta-block length -/
theorem recode_replays_input (w : WordOracle) (e : Env) (i0 i1 : Bytes) (cmds : List Cmd)
    (dc : List Int) (h : Bytes) (ir : List IR) (nbe' : Nat)
    (hE : EnvOK e w (windowSize e.lgwin)) (h32 : (i0 ++ i1).length < 2 ^ 32)
    (hdc : CacheOk dc) (wf : CmdsWF cmds e.dp)
    (hm : logMetaBlock e i0 i1 cmds dc h.length = some (ir, nbe'))
    (hp : PayloadOK w e (i0 ++ i1) dc h cmds) :
    replayIR w (windowSize e.lgwin) (i0 ++ i1) ir h = some (h ++ (i0 ++ i1)) ∧
      nbe' = h.length + (i0 ++ i1).length := by
  obtain ⟨a, b⟩ := recode_preserves_replay w e i0 i1 cmds dc h ir nbe' _ hE h32 hdc wf
    (logMetaBlock_eq e i0 i1 cmds dc h.length ir nbe' hm) hp
  exact ⟨a, by rw [b]; simp⟩

/-- one logged meta-block: the two ring-buffer halves, the raw commands and the saved distance cache -/
structure MbCall where
  i0 : Bytes
  i1 : Bytes
  cmds : List Cmd
  dc : List Int
  env : Env

/-- run the logger over a sequence of meta-blocks, threading `recoder_state.num_bytes_encoded`;
returns the position handed to each call and the final position -/
def runLog : Nat → List MbCall → Option (List Nat × Nat)
  | nbe, [] => some ([], nbe)
  | nbe, m :: ms =>
    match logMetaBlock m.env m.i0 m.i1 m.cmds m.dc nbe with
    | none => none
    | some (_, nbe') => (runLog nbe' ms).map fun (ps, fin) => (nbe :: ps, fin)

/-- the stream position of each meta-block of a sequence: dictionary tail + all earlier input -/
def streamPositions : Nat → List MbCall → List Nat
  | _, [] => []
  | p, m :: ms => p :: streamPositions (p + (m.i0 ++ m.i1).length) ms

/-- per-meta-block side conditions + payload hypothesis along a sequence (history grows by each input) -/
def SeqOK (w : WordOracle) : Bytes → List MbCall → Prop
  | _, [] => True
  | h, m :: ms =>
    EnvOK m.env w (windowSize m.env.lgwin) ∧ (m.i0 ++ m.i1).length < 2 ^ 32 ∧ CacheOk m.dc ∧ CmdsWF m.cmds m.env.dp ∧
    PayloadOK w m.env (m.i0 ++ m.i1) m.dc h m.cmds ∧ SeqOK w (h ++ (m.i0 ++ m.i1)) ms

/-- **`recoder_position_is_stream_position`** — start the recoder at the length of the history the decoder
starts with (`h` = the effective custom-dictionary tail; `set_custom_dictionary` seeds
`num_bytes_encoded = d'`, C10 `enc_book_used`; without a dictionary `h = []`).  Then the
`num_bytes_encoded` handed to EVERY later `LogMetaBlock` call is the decoder's position at that meta-block —
dictionary tail + all earlier input — and the final value is the total. -/
theorem recoder_position_is_stream_position (w : WordOracle) :
    ∀ (ms : List MbCall) (h : Bytes) (ps : List Nat) (fin : Nat), SeqOK w h ms →
      runLog h.length ms = some (ps, fin) →
      ps = streamPositions h.length ms ∧ fin = h.length + (ms.map fun m => (m.i0 ++ m.i1).length).sum := by
  intro ms
  induction ms with
  | nil => intro h ps fin _ hr; simp [runLog] at hr; obtain ⟨rfl, rfl⟩ := hr; simp [streamPositions]
  | cons m ms ih =>
    intro h ps fin hok hr
    obtain ⟨hE, h32, hdc, wf, hp, hrest⟩ := hok
    unfold runLog at hr
    cases hl : logMetaBlock m.env m.i0 m.i1 m.cmds m.dc h.length with
    | none => rw [hl] at hr; cases hr
    | some r =>
      obtain ⟨ir, nbe'⟩ := r
      rw [hl] at hr
      simp only at hr
      obtain ⟨_, hn⟩ := recode_replays_input w m.env m.i0 m.i1 m.cmds m.dc h ir nbe' hE h32 hdc wf hl hp
      cases hrr : runLog nbe' ms with
      | none => rw [hrr] at hr; cases hr
      | some pf =>
        obtain ⟨ps', fin'⟩ := pf
        rw [hrr] at hr
        simp only [Option.map_some, Option.some.injEq, Prod.mk.injEq] at hr
        obtain ⟨rfl, rfl⟩ := hr
        have hlen : nbe' = (h ++ (m.i0 ++ m.i1)).length := by rw [hn]; simp
        rw [hlen] at hrr
        obtain ⟨a, b⟩ := ih (h ++ (m.i0 ++ m.i1)) ps' fin' hrest hrr
        refine ⟨?_, ?_⟩
        · rw [a]; simp [streamPositions]
        · rw [b]; simp; omega

end BV.Props.C14

namespace BV.Props.C14
open BV.Recoder BV.PrefixArith

open BV.Lemmas.PrefixArith in
/-- **the encoder's commands are well formed** — a command whose distance fields were stored by
`Command::init` (`PrefixEncodeCopyDistance`, model `prefixEncodeCopyDistance`; `init_insert` is the case
`dc = 16`) for a distance code `dc < 2^31` satisfies `DistWF` for the same distance parameters.
(Uses C18 `dist_encode_exact`.)  So `CmdsWF` is a fact about everything `CreateBackwardReferences` /
the Zopfli path produce, as long as the block's distance parameters are the ones the commands were built
with. -/
theorem init_commands_are_wf (p nd dc : Nat) (hp : p ≤ 3) (hnd : nd ≤ 120) (hdc : dc < 2 ^ 31) (c : Cmd)
    (h1 : c.distPrefix = (prefixEncodeCopyDistance dc nd p).packed)
    (h2 : c.distExtra = (prefixEncodeCopyDistance dc nd p).extra32) : DistWF c ⟨p, nd⟩ := by
  have hlt : c.distPrefix < 65536 := by rw [h1]; unfold DistCode.packed; exact Nat.mod_lt _ (by decide)
  refine ⟨hlt, ?_⟩
  intro hlong
  simp only at hlong ⊢
  by_cases hs : dc < 16 + nd
  · exfalso
    have := (BV.Props.C18.dist_direct_exact p nd dc hs).1
    rw [h1, this] at hlong
    simp only [DistCode.packed] at hlong
    have h1' : (0 * 1024 ||| dc) % 65536 % 1024 ≤ dc := by
      simp only [Nat.zero_mul, Nat.zero_or]
      exact Nat.le_trans (Nat.mod_le _ _) (Nat.mod_le _ _)
    omega
  · have hge : 16 + nd ≤ dc := by omega
    obtain ⟨e1, e2, e3, e4, e5⟩ := BV.Props.C18.dist_encode_exact p nd dc hge
    have hnb := BV.Props.C18.dist_nbits_le p nd dc hdc hp
    have hsym := BV.Props.C18.dist_symbol_lt_alphabet p nd dc hge 30 hnb
    have hpw : 2 ^ (p + 1) ≤ 2 ^ 4 := Nat.pow_le_pow_right (by decide) (by omega)
    have hsym' : (prefixEncodeCopyDistance dc nd p).sym < 1024 := by
      have : 30 * 2 ^ (p + 1) ≤ 30 * 16 := by omega
      omega
    have hpk : (prefixEncodeCopyDistance dc nd p).packed =
        (prefixEncodeCopyDistance dc nd p).nbits * 1024 + (prefixEncodeCopyDistance dc nd p).sym := by
      unfold DistCode.packed
      rw [or_eq_add_of_lt _ _ hsym', Nat.mod_eq_of_lt (by omega)]
    have hpow : 2 ^ (prefixEncodeCopyDistance dc nd p).nbits ≤ 2 ^ 30 := Nat.pow_le_pow_right (by decide) hnb
    have hex : (prefixEncodeCopyDistance dc nd p).extra32 = (prefixEncodeCopyDistance dc nd p).extra := by
      unfold DistCode.extra32
      exact Nat.mod_eq_of_lt (by omega)
    rw [h1, h2, hpk, hex]
    have hm : ((prefixEncodeCopyDistance dc nd p).nbits * 1024 + (prefixEncodeCopyDistance dc nd p).sym) % 1024 =
        (prefixEncodeCopyDistance dc nd p).sym := by omega
    have hdv : ((prefixEncodeCopyDistance dc nd p).nbits * 1024 + (prefixEncodeCopyDistance dc nd p).sym) / 1024 =
        (prefixEncodeCopyDistance dc nd p).nbits := by omega
    rw [hm, hdv]
    exact ⟨e1, by omega⟩


/-! ### `slices_tile` (on top of the stream machine of C01 / C20) -/

section Slices
open BV.Slices BV.Stream

/-- **exactly one slice per input range on every path of `WriteMetaBlockInternal`**: not compressible
(`store_uncompressed_meta_block`, logged), compressed (logged by `store_meta_block*`), and compressed-then-stored-raw
(the fallback passes `suppress_meta_block_logging = true`): the logged list is `[(lf, hi)]` in all of them -/
theorem one_slice_per_range (lf hi : Nat) (shouldCompress fallback : Bool) (h : lf < hi) :
    wmbLogs lf hi shouldCompress fallback = [(lf, hi)] := wmb_logs_once lf hi shouldCompress fallback h

/-- **one `encode_data` invocation** hands over consecutive non-empty ranges from `last_flush_pos_` before to
`last_flush_pos_` after (catable 2-byte prelude first, then the meta-block) -/
theorem slices_of_one_invocation {o : Oracle} {sc fb : Bool} {s s' : Stream.St} {site : Nat} {il ff : Bool} {req : Req}
    (hI : Inv s) (hq : 2 ≤ s.params.quality) (h : encodeData o s site il ff = .ok (s', true, req)) :
    Chain (loggedSlices o sc fb s site il ff) s.lastFlushPos s'.lastFlushPos := logged_chain hI hq h

/-- **one `compress_stream` call** (PROCESS / FLUSH / FINISH on the general path) extends a history by exactly the
slices the modelled loop logs: the loop of `BV.Stream.slowLoop` is an instance of the interface `Hist` -/
theorem compress_stream_call_is_history {o : Oracle} {sc fb : Bool} {op : Nat} {c0 : SState} {n total fuel : Nat}
    {s0 s s' : Stream.St} {sl : List Slice} {io io' : Io} {r : Bool}
    (hH : Hist o s0 sl s) (hP : SlowInv op c0 n total s io) (hq : 2 ≤ s.params.quality)
    (h : slowLoop o op fuel s io = .ok (s', io', r)) :
    Hist o s0 (sl ++ slowLoopSlices o sc fb op fuel s io) s' ∧ s'.params.quality = s.params.quality :=
  slowLoop_hist fuel s0 s s' sl io io' r hH hP hq h

/-- **`slices_tile`** — see `BV.Slices.slices_tile`: over a whole history the ranges handed to the callback are
consecutive, non-empty, and once `last_flush_pos_ = input_pos_` (after FLUSH / FINISH) they cover exactly the input fed
since the start: nothing twice (also not on the stored fallback), nothing skipped (also not the catable prelude). -/
theorem slices_tile {o : Oracle} {s0 s : Stream.St} {sl : List Slice} (input : Stream.Bytes)
    (h : Hist o s0 sl s) (hflushed : s.lastFlushPos = s.inputPos) :
    Chain sl s0.lastFlushPos s.inputPos ∧
    cover input sl = (input.drop s0.lastFlushPos).take (s.inputPos - s0.lastFlushPos) :=
  BV.Slices.slices_tile input h hflushed

/-- non-vacuity: the catable prelude followed by the rest of a 10-byte input -/
example : Chain [(0, 2), (2, 10)] 0 10 := ⟨rfl, by decide, rfl, by decide, rfl⟩
example : cover [10, 11, 12, 13, 14, 15, 16, 17, 18, 19] [(0, 2), (2, 10)] = [10, 11, 12, 13, 14, 15, 16, 17, 18, 19] := by decide

end Slices

/-! ### the detection passes fed by the same `process_command_queue` -/

/-- **the `choose_stride` assertion follows from the allocation policy, for every block count**: whatever IR
`process_command_queue` pushes into `StrideEval` (any number of literal block switches, any literals), no score index of
`update_cost_base` is out of range, the three assertions of `choose_stride` hold and all its reads are in bounds; it
chooses one stride per `BlockSwitchLiteral` command. -/
theorem stride_pass_never_panics (ir : List IR) : stridePass ir = some (countBsl ir) := stride_pass_total ir

/-- the bound itself: after any IR, `score.len() ≥ 8 · epochs + 8` (what `choose_stride` reads), and `≥ 32` -/
theorem stride_score_bound (ir : List IR) :
    ∃ s, StrideSt.new.pushAll ir = some s ∧ 32 ≤ s.len ∧ s.epoch * 8 + 8 ≤ s.len ∧ s.epoch = countBsl ir := by
  obtain ⟨s, e, h⟩ := StrideSt.pushAll_ok ir StrideSt.new StrideSt.new_ok
  exact ⟨s, e, h.1, h.2, by rw [StrideSt.pushAll_epoch ir _ _ e]; simp [StrideSt.new]⟩

/-- the assertion as it was before the fix demanded 8 more slots than the policy guarantees: it failed exactly when
the last epoch's scores end at the end of the array, first at 3, 7, 15, 31 literal blocks -/
theorem old_choose_stride_assert_too_strict :
    (∀ s : StrideSt, s.Ok → (s.chooseAssertsOld s.epoch = false ↔ s.len < s.epoch * 8 + 16)) ∧
    stridePassOld (List.replicate 3 (IR.bsl 0)) = none ∧ stridePassOld (List.replicate 7 (IR.bsl 0)) = none ∧
    stridePassOld (List.replicate 15 (IR.bsl 0)) = none ∧ stridePassOld (List.replicate 31 (IR.bsl 0)) = none :=
  ⟨old_assert_fails_iff, old_assert_panics_at_3_7_15_31.1, old_assert_panics_at_3_7_15_31.2.1,
   old_assert_panics_at_3_7_15_31.2.2.1, old_assert_panics_at_3_7_15_31.2.2.2.1⟩

/-- `PriorEval`: every score index of a literal is inside the fixed 8192-entry table and `choose_bitmask` fills an array
of exactly that size -/
theorem prior_pass_indices_in_bounds (strideByte cmPrior highNibble : Nat) (h1 : strideByte < 256) (h2 : cmPrior < 256)
    (h3 : highNibble < 16) :
    priorUpperIndex strideByte cmPrior < priorScoreLen ∧ priorLowerIndex cmPrior highNibble < priorScoreLen ∧
    priorScoreLen = numMixingValues := prior_eval_indices_in_bounds strideByte cmPrior highNibble h1 h2 h3

/-! ### non-vacuity: a concrete meta-block that wraps the ring buffer inside its first literal run -/

/-- no static dictionary needed for the example -/
def noWords : WordOracle := fun _ _ _ => none
def exEnv : Env := { dp := ⟨0, 0⟩, lgwin := 22, hedq := 0, ctxSome := true, btl := Split.nop, btc := Split.nop,
                     btd := Split.nop, expand := fun _ _ => none }
/-- insert 3 + copy 6 at distance 3 (symbol 17, 1 extra bit = 0), then the closing insert-only command (1 byte) -/
def exCmds : List Cmd := [⟨3, 6, 0, 130, 1041⟩, ⟨1, 134217728, 0, 130, 1040⟩]
def exI0 : Bytes := [1, 2]
def exI1 : Bytes := [3, 1, 2, 3, 1, 2, 3, 9]
def exHist : Bytes := [7, 7, 7, 7, 7]       -- e.g. a 5-byte custom dictionary tail

example : processCommandQueue exEnv (mkPair exI0 exI1) exCmds [4, 11, 15, 16] exHist.length =
    some ([IR.bsl 0, IR.lit 0 2 false, IR.lit 2 1 false, IR.copy 3 6, IR.lit 9 1 false], 15) := by decide

example : replayCommands noWords 0 0 (windowSize 22) (exI0 ++ exI1) [4, 11, 15, 16] exHist exCmds =
    some (exHist ++ (exI0 ++ exI1)) := by decide

example : replayIR noWords (windowSize 22) (exI0 ++ exI1)
    [IR.bsl 0, IR.lit 0 2 false, IR.lit 2 1 false, IR.copy 3 6, IR.lit 9 1 false] exHist =
    some (exHist ++ (exI0 ++ exI1)) := by decide

/-- the hypotheses of `recode_preserves_replay` / `recode_replays_input` hold for it -/
example : EnvOK exEnv noWords (windowSize exEnv.lgwin) :=
  ⟨rfl, by decide, ⟨fun _ _ _ _ => rfl, fun _ _ _ _ h => by cases h⟩⟩

example : CmdsWF exCmds exEnv.dp := by
  intro c hc
  simp only [exCmds, List.mem_cons, List.mem_nil_iff, or_false] at hc
  rcases hc with rfl | rfl
  · exact ⟨⟨by decide, fun _ => by decide⟩, by decide⟩
  · exact ⟨⟨by decide, fun _ => by decide⟩, by decide⟩

example : CacheOk [4, 11, 15, 16] := ⟨rfl, by decide⟩

example : PayloadOK noWords exEnv (exI0 ++ exI1) [4, 11, 15, 16] exHist exCmds := by
  unfold PayloadOK; decide

/-- and a copy that the recoder must refuse to call a dictionary word only because the history is counted:
with the recoder position 0 instead of 5 the same array panics (`assert!(copy_len < 25)` class of D12) -/
example : processCommandQueue exEnv (mkPair [] [1, 2, 3, 4]) [⟨0, 4, 0, 130, 1041⟩] [4, 11, 15, 16] 0 = none := by decide
example : (processCommandQueue exEnv (mkPair [] [7, 7, 7, 7]) [⟨0, 4, 0, 130, 1041⟩] [4, 11, 15, 16] 5).isSome = true := by
  decide

end BV.Props.C14
