/-
C14, translator tie: the Lean definition GENERATED from the current Rust text of
`Command::distance_index_and_offset` (src/enc/command.rs; tools/rs2lean.py -> BV/Gen/FnC18v.lean, `Command` and
`BrotliDistanceParams` as Lean structures) returns what the recoder model's `BV.Recoder.distanceIndexAndOffset`
(over which C14's theorems about the IR of `LogMetaBlock` are stated) returns, on every command with a `u16`
distance prefix and every `u32` NDIRECT, WHENEVER the model returns (`none` = a debug-build overflow / shift
panic, which the release-semantics generated function cannot show): the 16 short-code rows, the direct codes
and the long codes (`>>`/`&` against `/`/`%`, the `u32` wrap-arounds shown not to happen).
The generated debug no-panic companion `distance_index_and_offset_ok` holds on the same commands whenever the
model returns (`distance_index_and_offset_ok_generated`).
-/
import BV.Gen.FnC18v
import BV.Model.Recoder
import BV.Lemmas.RsPrelude

namespace BV.Props.C14Gen
open BV.Gen BV.Rs BV.Recoder

def toCmd (c : FnC18v.Command) : Cmd := ⟨c.insert_len_, c.copy_len_, c.dist_extra_, c.cmd_prefix_, c.dist_prefix_⟩
def toDp (d : FnC18v.BrotliDistanceParams) : DistParams := ⟨d.distance_postfix_bits, d.num_direct_distance_codes⟩

theorem wrapS64_of_range (x : Int) (h1 : -9223372036854775808 ≤ x) (h2 : x < 9223372036854775808) : wrapS 64 x = x := by
  unfold wrapS
  have e1 : (2 : Int) ^ (64 - 1) = 9223372036854775808 := by decide
  have e2 : (2 : Int) ^ 64 = 18446744073709551616 := by decide
  rw [e1, e2]
  omega

/-- the 16 short-code rows -/
theorem short_table : ∀ k : Fin 16,
    shortCodeTable[k.val]? = some (List.getD [(1, (0 : Int)), (2, (0 : Int)), (3, (0 : Int)), (4, (0 : Int)), (1, (BV.Rs.wrapS 64 (-(1 : Int)))), (1, (1 : Int)), (1, (BV.Rs.wrapS 64 (-(2 : Int)))), (1, (2 : Int)), (1, (BV.Rs.wrapS 64 (-(3 : Int)))), (1, (3 : Int)), (2, (BV.Rs.wrapS 64 (-(1 : Int)))), (2, (1 : Int)), (2, (BV.Rs.wrapS 64 (-(2 : Int)))), (2, (2 : Int)), (2, (BV.Rs.wrapS 64 (-(3 : Int)))), (2, (3 : Int))] k.val (0, (0 : Int))) := by
  decide +kernel

theorem mask_eq (np : Nat) (h : np < 32) :
    ((((1 <<< (np % 32)) % 4294967296) + 4294967296 - 1) % 4294967296) = 2 ^ np - 1 := by
  have e : np % 32 = np := Nat.mod_eq_of_lt h
  rw [e, Nat.one_shiftLeft]
  have hlt : 2 ^ np < 2 ^ 32 := Nat.pow_lt_pow_right (by decide) h
  have hpos : 0 < 2 ^ np := Nat.pow_pos (by decide)
  have p32 : (2 : Nat) ^ 32 = 4294967296 := by decide
  rw [p32] at hlt
  omega

/-- the arithmetic of the long-code branch on plain numbers -/
theorem long_arith (sh dextra _v _lcode _nd : Nat) (hsh : sh < 4294967296) (h4 : 4 ≤ sh)
    (h1 : sh - 4 + dextra < 4294967296) :
    ((sh + 4294967296 - 4) % 4294967296 + dextra) % 4294967296 = sh - 4 + dextra := by
  omega

theorem long_sum (v lcode nd : Nat) (h : v + lcode + nd + 1 < 4294967296) :
    ((((((v + lcode) % 4294967296) + nd) % 4294967296) + 1) % 4294967296) = v + lcode + nd + 1 := by
  omega

/-- whenever the recoder model returns, the generated function returns the same pair -/
theorem distance_index_and_offset_generated (c : FnC18v.Command) (dp : FnC18v.BrotliDistanceParams) (hp : c.dist_prefix_ < 65536)
    (hnd : dp.num_direct_distance_codes < 4294967296) (r : Nat × Int)
    (h : distanceIndexAndOffset (toCmd c) (toDp dp) = some r) :
    FnC18v.distance_index_and_offset c dp = r := by
  unfold distanceIndexAndOffset at h
  simp only [toCmd, toDp] at h
  unfold FnC18v.distance_index_and_offset
  have hand : c.dist_prefix_ &&& 1023 = c.dist_prefix_ % 1024 := and_1023 _
  have hndb : c.dist_prefix_ >>> (10 % 16) = c.dist_prefix_ % 65536 / 1024 := by
    rw [Nat.mod_eq_of_lt hp]
    show c.dist_prefix_ >>> 10 = _
    rw [Nat.shiftRight_eq_div_pow]
  simp only [hand, hndb]
  have hdp : c.dist_prefix_ % 1024 < 1024 := Nat.mod_lt _ (by decide)
  have hnb : c.dist_prefix_ % 65536 / 1024 < 64 := by omega
  by_cases hA : c.dist_prefix_ % 1024 < 16
  · simp only [hA, ↓reduceIte] at h
    have dA : decide (c.dist_prefix_ % 1024 < 16) = true := by simpa using hA
    simp only [dA, if_true]
    have := short_table ⟨c.dist_prefix_ % 1024, hA⟩
    simp only [] at this
    rw [this] at h
    exact Option.some.inj h
  · simp only [hA, ↓reduceIte] at h
    have dA : decide (c.dist_prefix_ % 1024 < 16) = false := by simpa using hA
    simp only [dA, if_false, Bool.false_eq_true]
    have e16 : (16 + dp.num_direct_distance_codes) % 18446744073709551616 = 16 + dp.num_direct_distance_codes := by omega
    rw [e16]
    by_cases hB : c.dist_prefix_ % 1024 < 16 + dp.num_direct_distance_codes
    · simp only [hB, ↓reduceIte] at h
      have dB : decide (c.dist_prefix_ % 1024 < 16 + dp.num_direct_distance_codes) = true := by simpa using hB
      simp only [dB, if_true]
      have := Option.some.inj h
      rw [← this]
      have e1 : wrapS 64 (((c.dist_prefix_ % 1024 : Nat) : Int) + (1 : Int)) = ((c.dist_prefix_ % 1024 : Nat) : Int) + 1 :=
        wrapS64_of_range _ (by omega) (by omega)
      rw [e1, wrapS64_of_range _ (by omega) (by omega)]
      have : ((c.dist_prefix_ % 1024 : Nat) : Int) + 1 - ((16 : Nat) : Int) = ((c.dist_prefix_ % 1024 + 1 - 16 : Nat) : Int) := by omega
      rw [this]
    · simp only [hB, ↓reduceIte] at h
      have dB : decide (c.dist_prefix_ % 1024 < 16 + dp.num_direct_distance_codes) = false := by simpa using hB
      simp only [dB, if_false, Bool.false_eq_true]
      by_cases hC : dp.distance_postfix_bits ≥ 32 ∨ c.dist_prefix_ % 65536 / 1024 ≥ 32
      · simp only [hC, ↓reduceIte] at h; cases h
      simp only [hC, ↓reduceIte] at h
      have hnp : dp.distance_postfix_bits < 32 := by omega
      have hndb32 : c.dist_prefix_ % 65536 / 1024 < 32 := by omega
      have enp : dp.distance_postfix_bits % 32 = dp.distance_postfix_bits := Nat.mod_eq_of_lt hnp
      have endb : (c.dist_prefix_ % 65536 / 1024) % 32 = (c.dist_prefix_ % 65536 / 1024) := Nat.mod_eq_of_lt hndb32
      have edc : ((((c.dist_prefix_ % 1024 + 4294967296 - 16) % 4294967296) + 4294967296 - dp.num_direct_distance_codes) % 4294967296)
          = c.dist_prefix_ % 1024 - 16 - dp.num_direct_distance_codes := by omega
      rw [mask_eq dp.distance_postfix_bits hnp, edc, Nat.and_two_pow_sub_one_eq_mod, enp, endb, Nat.shiftRight_eq_div_pow, Nat.and_one_is_mod]
      have e2 : (2 + (c.dist_prefix_ % 1024 - 16 - dp.num_direct_distance_codes) / 2 ^ dp.distance_postfix_bits % 2) % 4294967296
          = 2 + (c.dist_prefix_ % 1024 - 16 - dp.num_direct_distance_codes) / 2 ^ dp.distance_postfix_bits % 2 := by omega
      rw [e2, Nat.shiftLeft_eq, Nat.shiftLeft_eq]
      have p32 : (2 : Nat) ^ 32 = 4294967296 := by decide
      rw [p32] at h
      have hsh : (2 + (c.dist_prefix_ % 1024 - 16 - dp.num_direct_distance_codes) / 2 ^ dp.distance_postfix_bits % 2) * 2 ^ (c.dist_prefix_ % 65536 / 1024) % 4294967296 < 4294967296 :=
        Nat.mod_lt _ (by decide)
      by_cases h4 : ((2 + (c.dist_prefix_ % 1024 - 16 - dp.num_direct_distance_codes) / 2 ^ dp.distance_postfix_bits % 2) * 2 ^ (c.dist_prefix_ % 65536 / 1024) % 4294967296) < 4
      · simp only [h4, ↓reduceIte] at h; cases h
      simp only [h4, ↓reduceIte] at h
      by_cases h5 : ((2 + (c.dist_prefix_ % 1024 - 16 - dp.num_direct_distance_codes) / 2 ^ dp.distance_postfix_bits % 2) * 2 ^ (c.dist_prefix_ % 65536 / 1024) % 4294967296) - 4 + c.dist_extra_ ≥ 4294967296
      · simp only [h5, ↓reduceIte] at h; cases h
      simp only [h5, ↓reduceIte] at h
      rw [long_arith ((2 + (c.dist_prefix_ % 1024 - 16 - dp.num_direct_distance_codes) / 2 ^ dp.distance_postfix_bits % 2) * 2 ^ (c.dist_prefix_ % 65536 / 1024) % 4294967296) c.dist_extra_ 0 0 0 hsh (by omega) (by omega)]
      by_cases h6 : ((((2 + (c.dist_prefix_ % 1024 - 16 - dp.num_direct_distance_codes) / 2 ^ dp.distance_postfix_bits % 2) * 2 ^ (c.dist_prefix_ % 65536 / 1024) % 4294967296) - 4 + c.dist_extra_) * 2 ^ dp.distance_postfix_bits % 4294967296) + ((c.dist_prefix_ % 1024 - 16 - dp.num_direct_distance_codes) % 2 ^ dp.distance_postfix_bits) + dp.num_direct_distance_codes + 1 ≥ 4294967296
      · simp only [h6, ↓reduceIte] at h; cases h
      simp only [h6, ↓reduceIte] at h
      rw [long_sum ((((2 + (c.dist_prefix_ % 1024 - 16 - dp.num_direct_distance_codes) / 2 ^ dp.distance_postfix_bits % 2) * 2 ^ (c.dist_prefix_ % 65536 / 1024) % 4294967296) - 4 + c.dist_extra_) * 2 ^ dp.distance_postfix_bits % 4294967296) ((c.dist_prefix_ % 1024 - 16 - dp.num_direct_distance_codes) % 2 ^ dp.distance_postfix_bits) _ (by omega)]
      exact Option.some.inj h

theorem one_shl_ge (np : Nat) (h : np < 32) : 1 ≤ (1 <<< (np % 32)) % 4294967296 := by
  have e : np % 32 = np := Nat.mod_eq_of_lt h
  rw [e, Nat.one_shiftLeft]
  have hlt : 2 ^ np < 2 ^ 32 := Nat.pow_lt_pow_right (by decide) h
  have hpos : 0 < 2 ^ np := Nat.pow_pos (by decide)
  have p32 : (2 : Nat) ^ 32 = 4294967296 := by decide
  rw [p32] at hlt
  omega

/-- the generated debug-build no-panic condition holds whenever the recoder model returns -/
theorem distance_index_and_offset_ok_generated (c : FnC18v.Command) (dp : FnC18v.BrotliDistanceParams) (hp : c.dist_prefix_ < 65536)
    (hnd : dp.num_direct_distance_codes < 4294967296) (r : Nat × Int)
    (h : distanceIndexAndOffset (toCmd c) (toDp dp) = some r) :
    FnC18v.distance_index_and_offset_ok c dp = true := by
  unfold distanceIndexAndOffset at h
  simp only [toCmd, toDp] at h
  unfold FnC18v.distance_index_and_offset_ok
  have hand : c.dist_prefix_ &&& 1023 = c.dist_prefix_ % 1024 := and_1023 _
  have hndb : c.dist_prefix_ >>> (10 % 16) = c.dist_prefix_ % 65536 / 1024 := by
    rw [Nat.mod_eq_of_lt hp]
    show c.dist_prefix_ >>> 10 = _
    rw [Nat.shiftRight_eq_div_pow]
  simp only [hand, hndb]
  have hdp : c.dist_prefix_ % 1024 < 1024 := Nat.mod_lt _ (by decide)
  have hnb : c.dist_prefix_ % 65536 / 1024 < 64 := by omega
  have t0 : decide (10 < 16) = true := by decide
  simp only [t0, Bool.and_self, Bool.true_and]
  by_cases hA : c.dist_prefix_ % 1024 < 16
  · have dA : decide (c.dist_prefix_ % 1024 < 16) = true := by simpa using hA
    simp only [dA, if_true]
    have : decide (c.dist_prefix_ % 1024 < 16) = true := dA
    simp [hA]
  · simp only [hA, ↓reduceIte] at h
    have dA : decide (c.dist_prefix_ % 1024 < 16) = false := by simpa using hA
    simp only [dA, if_false, Bool.false_eq_true]
    have e16 : (16 + dp.num_direct_distance_codes) % 18446744073709551616 = 16 + dp.num_direct_distance_codes := by omega
    have t1 : decide (16 + dp.num_direct_distance_codes < 18446744073709551616) = true := by simp only [decide_eq_true_eq]; omega
    rw [e16]
    simp only [t1, Bool.true_and]
    by_cases hB : c.dist_prefix_ % 1024 < 16 + dp.num_direct_distance_codes
    · have dB : decide (c.dist_prefix_ % 1024 < 16 + dp.num_direct_distance_codes) = true := by simpa using hB
      simp only [dB, if_true]
      have e1 : wrapS 64 (((c.dist_prefix_ % 1024 : Nat) : Int) + (1 : Int)) = ((c.dist_prefix_ % 1024 : Nat) : Int) + 1 :=
        wrapS64_of_range _ (by omega) (by omega)
      rw [e1]
      simp only [Bool.and_eq_true, decide_eq_true_eq]
      omega
    · simp only [hB, ↓reduceIte] at h
      have dB : decide (c.dist_prefix_ % 1024 < 16 + dp.num_direct_distance_codes) = false := by simpa using hB
      simp only [dB, if_false, Bool.false_eq_true]
      by_cases hC : dp.distance_postfix_bits ≥ 32 ∨ c.dist_prefix_ % 65536 / 1024 ≥ 32
      · simp only [hC, ↓reduceIte] at h; cases h
      simp only [hC, ↓reduceIte] at h
      have hnp : dp.distance_postfix_bits < 32 := by omega
      have hndb32 : c.dist_prefix_ % 65536 / 1024 < 32 := by omega
      have enp : dp.distance_postfix_bits % 32 = dp.distance_postfix_bits := Nat.mod_eq_of_lt hnp
      have endb : (c.dist_prefix_ % 65536 / 1024) % 32 = (c.dist_prefix_ % 65536 / 1024) := Nat.mod_eq_of_lt hndb32
      have edc : ((((c.dist_prefix_ % 1024 + 4294967296 - 16) % 4294967296) + 4294967296 - dp.num_direct_distance_codes) % 4294967296)
          = c.dist_prefix_ % 1024 - 16 - dp.num_direct_distance_codes := by omega
      have hone := one_shl_ge dp.distance_postfix_bits hnp
      have e16' : (c.dist_prefix_ % 1024 + 4294967296 - 16) % 4294967296 = c.dist_prefix_ % 1024 - 16 := by omega
      rw [mask_eq dp.distance_postfix_bits hnp, edc, Nat.and_two_pow_sub_one_eq_mod, e16']
      simp only [enp, endb, Nat.shiftRight_eq_div_pow, Nat.and_one_is_mod]
      have e2 : (2 + (c.dist_prefix_ % 1024 - 16 - dp.num_direct_distance_codes) / 2 ^ dp.distance_postfix_bits % 2) % 4294967296
          = 2 + (c.dist_prefix_ % 1024 - 16 - dp.num_direct_distance_codes) / 2 ^ dp.distance_postfix_bits % 2 := by omega
      rw [e2, Nat.shiftLeft_eq, Nat.shiftLeft_eq]
      have p32 : (2 : Nat) ^ 32 = 4294967296 := by decide
      rw [p32] at h
      have hsh : (2 + (c.dist_prefix_ % 1024 - 16 - dp.num_direct_distance_codes) / 2 ^ dp.distance_postfix_bits % 2) * 2 ^ (c.dist_prefix_ % 65536 / 1024) % 4294967296 < 4294967296 :=
        Nat.mod_lt _ (by decide)
      by_cases h4 : ((2 + (c.dist_prefix_ % 1024 - 16 - dp.num_direct_distance_codes) / 2 ^ dp.distance_postfix_bits % 2) * 2 ^ (c.dist_prefix_ % 65536 / 1024) % 4294967296) < 4
      · simp only [h4, ↓reduceIte] at h; cases h
      simp only [h4, ↓reduceIte] at h
      by_cases h5 : ((2 + (c.dist_prefix_ % 1024 - 16 - dp.num_direct_distance_codes) / 2 ^ dp.distance_postfix_bits % 2) * 2 ^ (c.dist_prefix_ % 65536 / 1024) % 4294967296) - 4 + c.dist_extra_ ≥ 4294967296
      · simp only [h5, ↓reduceIte] at h; cases h
      simp only [h5, ↓reduceIte] at h
      rw [long_arith _ c.dist_extra_ 0 0 0 hsh (by omega) (by omega)]
      by_cases h6 : (((2 + (c.dist_prefix_ % 1024 - 16 - dp.num_direct_distance_codes) / 2 ^ dp.distance_postfix_bits % 2) * 2 ^ (c.dist_prefix_ % 65536 / 1024) % 4294967296 - 4 + c.dist_extra_) * 2 ^ dp.distance_postfix_bits % 4294967296) + ((c.dist_prefix_ % 1024 - 16 - dp.num_direct_distance_codes) % 2 ^ dp.distance_postfix_bits) + dp.num_direct_distance_codes + 1 ≥ 4294967296
      · simp only [h6, ↓reduceIte] at h; cases h
      simp only [Bool.and_eq_true, decide_eq_true_eq]
      rw [enp] at hone
      simp only [Nat.shiftLeft_eq] at hone ⊢
      omega

example : distanceIndexAndOffset ⟨0, 0, 5, 0, 8 * 1024 + 31⟩ ⟨0, 0⟩ = some (0, 770) := by decide +kernel
example : FnC18v.distance_index_and_offset ⟨0, 0, 5, 0, 8 * 1024 + 31⟩ ⟨0, 0, 0, 0⟩ = (0, 770) := by decide +kernel
example : FnC18v.distance_index_and_offset ⟨0, 0, 0, 0, 6⟩ ⟨0, 0, 0, 0⟩ = (1, -2) := by decide +kernel

end BV.Props.C14Gen
