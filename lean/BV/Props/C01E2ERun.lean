/-
C01E2ERun — the payload model of `encode_data` (quality 2/3) over a SEQUENCE of forced invocations, with the RFC reader's
state threaded through: output so far and the ring of last distances, which equals `dist_cache_[..4]` after every
invocation — also when the block ends up stored and the encoder rolls `dist_cache_` back to `saved_dist_cache_`.

Property theorems only.  Uses w-compose's `cbr_final_state` (BV/Lemmas/ChainFinal.lean: after one
CreateBackwardReferences call the decoder's ring is the returned dist_cache) and `wmbi_reads_state`
(BV/Lemmas/E2EWmbi.lean: `wmbi_reads` with the reader's final state named); the closing half of `encode_data` is
`writePart_roundtrip` (BV/Lemmas/E2EStep.lean), stated for ANY command list in lock step with the decoder, so that it also
serves meta-blocks assembled from several calls.
-/
import BV.Lemmas.E2EStep

namespace BV.Props.C01E2E
open BV.Hasher BV.MatchFinder BV.Recoder BV.PrefixArith BV.MetaBlock BV.Cbr BV.E2E BV.Bits BV.Props.C01Chain

/-- how the reader consumes the bits of one invocation: as the end of the stream, or as one more meta-block -/
def Reads (wo : WordOracle) (window : Nat) (large isLast : Bool) (pos : Nat) (s : RdSt) (bits : List Bool) (s' : RdSt) : Prop :=
  if isLast then ∀ rest f, readMetaBlocks wo window large (f + 2) pos s (bits ++ rest) = some (s', rest)
  else ReadsTo wo window large pos s bits false (pos + bits.length) s'

theorem payload_step_core (e : EParams) (P : BasicP) (cells : Nat) (kindDict : Bool)
    (hch : chooseHasher e.quality = some (P, cells, kindDict))
    (wo : WordOracle) (dict : ByteArray → Nat → Option (List DictItem)) (data : ByteArray) (k tail : Nat) (hk : k ≤ 32)
    (hist mb : Bytes) (lo : Nat) (hb : BlockOK e.cbr e.large data k tail hist mb lo)
    (hsize : 2 ^ k ≤ data.size) (hmbk : mb.length ≤ 2 ^ k)
    (hd : DictFaithful wo (if e.useDict then dict else fun _ _ => none) data)
    (ps : PSt) (hF : Fresh ps)
    (lp lf ip : Nat) (hlf : lf = hist.length) (hlp : lp = hist.length) (hip : ip = hist.length + mb.length)
    (hsmall : ip < 2 ^ 30) (h1 : 1 ≤ mb.length) (hcat : e.catable = true → e.appendable = true)
    (isLast forceFlush verdict : Bool) (hforce : isLast = true ∨ forceFlush = true)
    (w : List Bool) (hw : w.length < 256) (r : Res)
    (h : encodeDataPayload e dict data (2 ^ k - 1) lp lf ip isLast forceFlush verdict ps w = .ok r) :
    ∃ bits, r.w = w ++ bits ∧ r.emit = true ∧ r.wrote = true ∧ Fresh r.st ∧
      Reads wo (maxBackwardLimit e.cbr) e.large isLast w.length ⟨hist, ps.distCache.take 4⟩ bits
        ⟨hist ++ mb, r.st.distCache.take 4⟩ := by
  have hU : U32 = 4294967296 := rfl
  have hlen24 := hb.len
  have hcm := hF.cmds
  have hli := hF.lil
  have hbytes : (ip - lp) % U32 = mb.length := by
    rw [hip, hlp, Nat.add_sub_cancel_left]; exact Nat.mod_eq_of_lt (by omega)
  have hwlp : wrapPosition lp = hist.length := by rw [hlp]; exact wrapPosition_small (by omega)
  unfold encodeDataPayload at h
  rw [hch] at h
  simp only [hbytes, hwlp] at h
  cases hio : initOrStitch P cells data (2 ^ k - 1) ps.hasher hist.length mb.length with
  | none => rw [hio] at h; cases h
  | some h0 =>
    obtain ⟨b0, c0⟩ := h0
    rw [hio] at h
    simp only [hcm, hli, List.length_nil, ne_eq, not_true_eq_false, false_and, if_false, Nat.sub_zero, Nat.add_zero,
      List.nil_append] at h
    cases hcbr : createBackwardReferences
        (basicOps P kindDict e.lbs (if e.useDict = true then dict else fun _ _ => none) data (2 ^ k - 1)) e.cbr mb.length
        hist.length (b0, c0) ps.distCache 0 ps.numLiterals with
    | none => rw [hcbr] at h; cases h
    | some r0 =>
      rw [hcbr] at h
      obtain ⟨hok, hlock, _⟩ := commands_lockstep_basic P kindDict e.lbs e.cbr e.large wo data k tail hk hist mb lo hb
        (if e.useDict = true then dict else fun _ _ => none) hd mb.length hist.length b0 c0 ps.distCache 0 ps.numLiterals r0
        (by omega) (by omega) hF.i32 hF.len hcbr
      obtain ⟨hfin, hcR, hclR⟩ := cbr_final_state _ e.cbr e.large wo data k tail hist mb lo hb
        (basicOps_ok (SlotOK wo) P kindDict e.lbs _ data k hk e.cbr hd) mb.length hist.length (b0, c0) ps.distCache 0
        ps.numLiterals r0 (by omega) (by omega) hF.i32 hF.len hcbr
      have hdec : ¬ ((!isLast) = true ∧ (!forceFlush) = true ∧
          (!decide (e.quality < 4 ∧ r0.numLiterals + r0.cmds.length ≥ 0x2fff)) = true ∧
          decide (ip - lf + 1 <<< e.lgblock ≤ maxMetablockSize e) = true ∧
          r0.numLiterals < maxMetablockSize e / 8 ∧ r0.cmds.length < maxMetablockSize e / 8) := by
        rcases hforce with hf | hf <;> simp [hf]
      simp only [] at h
      rw [if_neg hdec] at h
      obtain ⟨bits, a1, a2, a3, a4, a5, a6⟩ := writePart_roundtrip e wo data k tail hist mb lo hb hsize hmbk ps.distCache
        ps.savedDistCache r0.cache hF.i32 hF.len hF.saved hcR hclR r0.cmds r0.lastInsertLen r0.numLiterals r0.h hok hlock hfin
        lp lf ip hlf (by omega) hip hsmall h1 hcat isLast verdict w hw r h
      refine ⟨bits, a1, a2, a3, a4, ?_⟩
      unfold Reads
      cases isLast with
      | true => simpa using a5 rfl
      | false => simpa using a6 rfl

/-- **payload_step_roundtrip** — `payload_single_roundtrip` with the reader's FINAL STATE: one forced `encode_data`
invocation at quality 2/3 that starts a fresh meta-block (`Fresh ps`: no pending commands, an i32 distance cache of ≥ 4
entries, `saved_dist_cache_ = dist_cache_[..4]`) takes the RFC reader from `(hist, dist_cache_[..4] before)` to
`(hist ++ mb, dist_cache_[..4] after)` — for the compressed outcome by `cbr_final_state`, for the stored outcome because
the reader's ring is untouched and the model rolls `dist_cache_` back — and leaves a `Fresh` payload state again. -/
theorem payload_step_roundtrip (e : EParams) (hq : e.quality = 2 ∨ e.quality = 3)
    (wo : WordOracle) (dict : ByteArray → Nat → Option (List DictItem)) (data : ByteArray) (k tail : Nat) (hk : k ≤ 32)
    (hist mb : Bytes) (lo : Nat) (hb : BlockOK e.cbr e.large data k tail hist mb lo)
    (hsize : 2 ^ k ≤ data.size) (hmbk : mb.length ≤ 2 ^ k)
    (hd : DictFaithful wo (if e.useDict then dict else fun _ _ => none) data)
    (ps : PSt) (hF : Fresh ps)
    (lp lf ip : Nat) (hlf : lf = hist.length) (hlp : lp = hist.length) (hip : ip = hist.length + mb.length)
    (hsmall : ip < 2 ^ 30) (h1 : 1 ≤ mb.length) (hcat : e.catable = true → e.appendable = true)
    (isLast forceFlush verdict : Bool) (hforce : isLast = true ∨ forceFlush = true)
    (w : List Bool) (hw : w.length < 256) (r : Res)
    (h : encodeDataPayload e dict data (2 ^ k - 1) lp lf ip isLast forceFlush verdict ps w = .ok r) :
    ∃ bits, r.w = w ++ bits ∧ r.emit = true ∧ r.wrote = true ∧ Fresh r.st ∧
      Reads wo (maxBackwardLimit e.cbr) e.large isLast w.length ⟨hist, ps.distCache.take 4⟩ bits
        ⟨hist ++ mb, r.st.distCache.take 4⟩ := by
  rcases hq with hq | hq
  · exact payload_step_core e H2 65537 true (by simp [chooseHasher, hq]) wo dict data k tail hk hist mb lo hb hsize hmbk hd
      ps hF lp lf ip hlf hlp hip hsmall h1 hcat isLast forceFlush verdict hforce w hw r h
  · exact payload_step_core e H3 65538 false (by simp [chooseHasher, hq]) wo dict data k tail hk hist mb lo hb hsize hmbk hd
      ps hF lp lf ip hlf hlp hip hsmall h1 hcat isLast forceFlush verdict hforce w hw r h

/-- the payload state `ensure_initialized` leaves is `Fresh` (also the catable placeholder cache) -/
theorem fresh_init (catable : Bool) : Fresh (PSt.init catable) := by
  cases catable
  · refine ⟨rfl, rfl, ?_, by decide, rfl⟩
    intro x hx
    simp [PSt.init] at hx
    rcases hx with rfl | rfl | rfl | rfl <;> decide
  · refine ⟨rfl, rfl, ?_, by decide, rfl⟩
    intro x hx
    simp [PSt.init] at hx
    subst hx
    decide

/-! ### a sequence of forced invocations -/

/-- one forced invocation of a run: the ring slice at that moment, `input_pos_`, the flags, the verdict of
`should_compress`, and the storage bits (carry, skeleton) it starts behind -/
structure Step where
  data : ByteArray
  ip : Nat
  isLast : Bool
  forceFlush : Bool
  verdict : Bool
  w : List Bool

/-- the payload model run over the invocations: each one starts where the previous one flushed
(`last_processed_pos_ = last_flush_pos_ = lf`) with the payload state the previous one left -/
def payRun (e : EParams) (dict : ByteArray → Nat → Option (List DictItem)) (k : Nat) : PSt → Nat → List Step → Option (List Res)
  | _, _, [] => some []
  | ps, lf, s :: ss =>
    match encodeDataPayload e dict s.data (2 ^ k - 1) lf lf s.ip s.isLast s.forceFlush s.verdict ps s.w with
    | .ok r => (payRun e dict k r.st s.ip ss).map (r :: ·)
    | _ => none

/-- what is asked of every invocation (the hypotheses of `payload_step_roundtrip`, for the text `T`) -/
def StepsOK (e : EParams) (wo : WordOracle) (dict : ByteArray → Nat → Option (List DictItem)) (k : Nat) (T : Bytes) :
    Nat → List Step → Prop
  | _, [] => True
  | lf, s :: ss =>
    (∃ tail lo, BlockOK e.cbr e.large s.data k tail (T.take lf) ((T.drop lf).take (s.ip - lf)) lo) ∧
    lf < s.ip ∧ s.ip ≤ T.length ∧ s.ip < 2 ^ 30 ∧ s.ip - lf ≤ 2 ^ k ∧ 2 ^ k ≤ s.data.size ∧
    DictFaithful wo (if e.useDict then dict else fun _ _ => none) s.data ∧
    (s.isLast = true ∨ s.forceFlush = true) ∧ s.w.length < 256 ∧ StepsOK e wo dict k T s.ip ss

/-- the reader chained through the pieces: piece `i` takes it from `(T[..lf], ring)` to `(T[..ip_i], dist_cache_[..4] after
invocation i)` -/
def ChainReads (wo : WordOracle) (window : Nat) (large : Bool) (T : Bytes) : RdSt → List Step → List Res → Prop
  | _, [], [] => True
  | st, s :: ss, r :: rs =>
    ∃ bits, r.w = s.w ++ bits ∧ r.emit = true ∧
      Reads wo window large s.isLast s.w.length st bits ⟨T.take s.ip, r.st.distCache.take 4⟩ ∧
      ChainReads wo window large T ⟨T.take s.ip, r.st.distCache.take 4⟩ ss rs
  | _, _, _ => False

/-- **payload_run_roundtrip** — a sequence of forced `encode_data` invocations at quality 2/3 over the text `T` (every
invocation closes the meta-block `[lf, ip)` it was given; FLUSH / FINISH histories), run by the payload model from a
`Fresh` payload state: every piece appends `bits_i` behind its storage bits, and the RFC reader — its state THREADED
through the pieces: output so far and ring of last distances = the encoder's `dist_cache_[..4]`, rolled back when a
block ends up stored — reads piece `i` from `(T[..ip_{i-1}], ring_{i-1})` to `(T[..ip_i], ring_i)`; the last one, if
`is_last`, as the end of the stream.  No hypothesis about the payload encoder: per invocation only `BlockOK` (ring slice holds
the text), `DictFaithful`, positions < 2^30, < 256 storage bits. -/
theorem payload_run_roundtrip (e : EParams) (hq : e.quality = 2 ∨ e.quality = 3) (hcat : e.catable = true → e.appendable = true)
    (wo : WordOracle) (dict : ByteArray → Nat → Option (List DictItem)) (k : Nat) (hk : k ≤ 32) (T : Bytes) :
    ∀ (steps : List Step) (ps : PSt) (lf : Nat) (out : List Res), Fresh ps → lf ≤ T.length → StepsOK e wo dict k T lf steps →
      payRun e dict k ps lf steps = some out →
      ChainReads wo (maxBackwardLimit e.cbr) e.large T ⟨T.take lf, ps.distCache.take 4⟩ steps out := by
  intro steps
  induction steps with
  | nil =>
    intro ps lf out _ _ _ h
    simp only [payRun, Option.some.injEq] at h
    subst h
    trivial
  | cons s ss ih =>
    intro ps lf out hF hle hS h
    obtain ⟨⟨tail, lo, hb⟩, h1, h2, h3, h4, h5, h6, h7, h8, hrest⟩ := hS
    rw [payRun] at h
    cases hr : encodeDataPayload e dict s.data (2 ^ k - 1) lf lf s.ip s.isLast s.forceFlush s.verdict ps s.w with
    | panic => rw [hr] at h; cases h
    | fuel => rw [hr] at h; cases h
    | ok r =>
      rw [hr] at h
      simp only [Option.map_eq_some_iff] at h
      obtain ⟨rs, hrs, rfl⟩ := h
      have hl1 : (T.take lf).length = lf := by rw [List.length_take]; omega
      have hl2 : ((T.drop lf).take (s.ip - lf)).length = s.ip - lf := by
        rw [List.length_take, List.length_drop]; omega
      have hcat' : T.take lf ++ (T.drop lf).take (s.ip - lf) = T.take s.ip := by
        have := BV.Stream.take_drop_add T 0 lf (s.ip - lf)
        simp only [List.drop_zero, Nat.zero_add] at this
        rw [this]; congr 1; omega
      obtain ⟨bits, a1, a2, _, a4, a5⟩ := payload_step_roundtrip e hq wo dict s.data k tail hk (T.take lf)
        ((T.drop lf).take (s.ip - lf)) lo hb h5 (by rw [hl2]; exact h4) h6 ps hF lf lf s.ip hl1.symm hl1.symm
        (by rw [hl1, hl2]; omega) h3 (by rw [hl2]; omega) hcat s.isLast s.forceFlush s.verdict h7 s.w h8 r hr
      rw [hcat'] at a5
      refine ⟨bits, a1, a2, a5, ?_⟩
      exact ih r.st s.ip rs a4 h2 hrest hrs

/-! non-vacuity: a one-invocation run over `BV.Cbr.Example` (quality 2, FINISH) meets `StepsOK`, and the initial payload
state is `Fresh`; every correspondence line of the `e2e` stage whose calls are all forced is a longer instance -/
example : StepsOK exE (fun _ _ _ => none) (fun _ _ => none) 6 BV.Cbr.Example.text 0
      [⟨BV.Cbr.Example.data, 32, true, false, true, []⟩] ∧ Fresh (PSt.init false) ∧ 0 ≤ BV.Cbr.Example.text.length := by
  refine ⟨⟨⟨32, 0, ?_⟩, by decide, by decide, by decide, by decide, by decide, ?_, Or.inl rfl, by decide, trivial⟩,
    fresh_init false, Nat.zero_le _⟩
  · show BlockOK exE.cbr exE.large BV.Cbr.Example.data 6 32 [] BV.Cbr.Example.text 0
    exact ⟨rfl, rfl, BV.Cbr.Example.ring_ok, by decide, by decide, by decide, by decide, fun _ => by decide,
      fun _ => by decide, by decide, by decide⟩
  · simpa [exE] using dictFaithful_none _ _

/-
STATUS.  Proved here: forced invocations chained at the PAYLOAD level (reader state threaded, rollback included).
Still open for the whole-history `C01_roundtrip_q23`:
* meta-blocks kept open across invocations: `writePart_roundtrip` already takes an arbitrary command list with its lock-step
  and final-state facts; what is missing is the front half for a non-`Fresh` state — `extendLastCommand` + a second
  CreateBackwardReferences call — i.e. instantiating w-compose's `Merged` / `Merged.extend` (BV/Lemmas/CbrMerge.lean,
  `merged_extend_of_e2e`) with the model's `ps.cmds`;
* the bit POSITION: `Reads` is stated at the position `|w_i|` of each invocation's own storage (carry < 8 bits + skeleton),
  as the encoder sees it; gluing the pieces into ONE `readMetaBlocks` run over the delivered stream needs that the reader
  depends on the position only modulo 8 (w-window's C04Run `blocks_one` / `PayloadDecode` is the bridge on the reader side);
* the stream machine: `StepsOK` per invocation (`BlockOK` from `RingOK` at each `encode_data` event; `lf`, `ip`, flags,
  carry from the log of `delivered_is_framed_concat`).
-/

end BV.Props.C01E2E
