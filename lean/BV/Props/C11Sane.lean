import BV.Lemmas.AdaptersStreamEnc
import BV.Lemmas.StreamTotal
/-
C11 addendum: `EncSane` of the modelled encoder WITHOUT the hypothesis `OracleBounded`.

`EncSane (streamEnc o)` — a `compress_stream` call never reports more input consumed than was
offered nor more output produced than there was room for — from the byte ledger of
`Lemmas/StreamTotal` (`call_ledger`: an invariant of every atomic step), for EVERY payload oracle.
(Since the rework of the termination potential `streamEnc_sane` and `EncProgress` in
`Lemmas/AdaptersStreamEnc` are free of `OracleBounded` as well; this is the independent route.)
-/
namespace BV.Props.C11
open BV.Adapters BV.Stream

/-- `EncSane` for the stream-machine model as the adapters' encoder, for every payload oracle -/
theorem enc_sane_stream_free (o : Oracle) : EncSane (streamEnc o) := by
  constructor
  · intro s op inp cap
    rcases streamEnc_step o s op inp cap with h | ⟨s0, s', io', r, _, _, _, _, h⟩
    · rw [h]; simp [deadAns]
    · rw [h]; exact Nat.sub_le _ _
  · intro s op inp cap
    rcases streamEnc_step o s op inp cap with h | ⟨s0, s', io', r, _, hG, hw, hc, h⟩
    · rw [h]; simp [deadAns]
    · rw [h]
      have := (call_ledger 0 (by have := opCode_le op; omega) hG.inv hw hc).outBal
      show io'.out.length ≤ cap
      simp only at this
      omega

/-- non-vacuity: the statement is about a real step function — a fresh, initialised encoder is inside
the envelope `streamEnc` works in -/
example (o : Oracle) : ((streamEnc o).step (some (ensureInitialized St.new)) .process [1, 2, 3] 10).2.consumed ≤ 3 :=
  (enc_sane_stream_free o).1 _ .process [1, 2, 3] 10

end BV.Props.C11
