import BV.Lemmas.FFI
import BV.Lemmas.FFIStream
/-
C13 — the C ABI behaves as the Rust API: exact cursor accounting, `total_out`, `take_output`,
no unwinding, thread-count clamp.

Model: `BV/Model/FFI.lean` (the wrappers of src/ffi/compressor.rs and the dispatch of
src/ffi/multicompress/mod.rs), over the answers of the Rust calls (`compress_stream`,
`take_output`) as an oracle; tied to the code by the `ffi` correspondence run, in which the harness
passes the model what the C caller passed and what the TWIN Rust call answered, and the model must
predict every value the real C function wrote through its out-pointers.

Proved here: the cursor arithmetic, the `total_out` bookkeeping, the partition property of
`take_output`, what the panic barrier returns, the dispatch of the multi-threaded entry points;
and, over the stream-machine model `BV.Stream` (section "over the stream-machine model"):
`unwrapped_entry_points_cannot_panic` in full, `ffi_refines_requests` (the wrapper performs exactly
the Rust call on the same state with the caller's bytes and hands back its results — byte identity
then follows from `compress_stream` being a function of its arguments; the harness still compares
the real bytes call by call, `ffi:bytes-differ`), `ffi_cursor_exact_stream` (the hypothesis
`CursorsAgree` is a theorem for all four operations, accepted or refused calls, with no hypothesis
on the payload encoder), `total_tracks_stream` / `total_out_cell_stream` (the hypothesis
`TotalTracks` is a theorem) and `total_out_is_sum_stream` (along any history of C ABI calls
`*total_out` is the number of bytes delivered so far, `take_output` bytes INCLUDED, modulo 2^64),
`take_output_never_panics_stream` (`OutOk` holds after every such history: `TakeOutput` cannot panic).
`catch_unwind` itself, the `extern "C"` ABI and the validity of the caller's pointers are runtime
facts outside the model.
-/
namespace BV.Props.C13
open BV.FFI

/-- `ffi_cursor_exact`: after every stream call that did not unwind, each pointer has advanced by
exactly the amount its counter decreased — also when a count is 0 (the pointer, null or not, is
not touched) — and a null pointer stays null when its count is 0 -/
theorem ffi_cursor_exact (c : StreamCall) (a : StreamAns) (hp : a.panicked = false) (h : CursorsAgree c a) :
    (compressStream c a).availIn ≤ c.availIn ∧ (compressStream c a).availOut ≤ c.availOut ∧
    (∀ p, c.nextIn = some p → (compressStream c a).nextIn = some (p + (c.availIn - (compressStream c a).availIn))) ∧
    (∀ p, c.nextOut = some p → (compressStream c a).nextOut = some (p + (c.availOut - (compressStream c a).availOut))) ∧
    (c.availIn = 0 → (compressStream c a).nextIn = c.nextIn) ∧
    (c.availOut = 0 → (compressStream c a).nextOut = c.nextOut) := by
  obtain ⟨h1, h2⟩ := h
  simp only [compressStream, hp, Bool.false_eq_true, if_false]
  refine ⟨by omega, by omega, ?_, ?_, ?_, ?_⟩
  · intro p hpn
    by_cases h0 : c.availIn = 0
    · have : a.inOff = 0 := by omega
      simp [h0, hpn]
    · have : (c.availIn != 0) = true := by simpa using h0
      simp only [this, if_true, hpn, ptrAdd_some]
      congr 1; omega
  · intro p hpn
    by_cases h0 : c.availOut = 0
    · have : a.outOff = 0 := by omega
      simp [h0, hpn]
    · have : (c.availOut != 0) = true := by simpa using h0
      simp only [this, if_true, hpn, ptrAdd_some]
      congr 1; omega
  · intro h0; simp [h0]
  · intro h0; simp [h0]

/-- the counters the C caller reads back are the ones the Rust call left; the return value is the
Rust call's bool -/
theorem ffi_passes_results_through (c : StreamCall) (a : StreamAns) (hp : a.panicked = false) :
    (compressStream c a).availIn = a.availIn ∧ (compressStream c a).availOut = a.availOut ∧
    (compressStream c a).ret = (if a.ok then 1 else 0) := by
  simp [compressStream, hp]

/-- `total_out_is_sum` (one step): if the encoder's running total before the call is the number
of bytes delivered so far (`D`), then after a call that did not unwind `*total_out` is `D` plus
the bytes this call delivered — in particular it is still `D` after a call that delivered nothing -/
theorem total_out_is_sum_step (c : StreamCall) (a : StreamAns) (D : Nat) (hD : c.encTotal = D)
    (hp : a.panicked = false) (ht : TotalTracks c a) (hptr : c.totalOutPtr = true) :
    (compressStream c a).totalOutCell = D + a.outOff := by
  unfold TotalTracks at ht
  simp only [compressStream, hp, Bool.false_eq_true, if_false, hptr, if_true, ht]
  by_cases h0 : a.outOff = 0
  · simp [h0, hD]
  · simp [h0, hD]

/-- a null `total_out` pointer: nothing is stored -/
theorem total_out_null_untouched (c : StreamCall) (a : StreamAns) (hptr : c.totalOutPtr = false) :
    (compressStream c a).totalOutCell = c.totalOutCell := by
  by_cases hp : a.panicked = true
  · simp [compressStream, hp]
  · have : a.panicked = false := by simpa using hp
    simp [compressStream, this, hptr]

/-- a history of stream calls on one instance: `D` = bytes delivered before it.  Every call sees the
encoder total left by the previous ones. -/
def historyOK : Nat → List (StreamCall × StreamAns) → Prop
  | _, [] => True
  | D, (c, a) :: rest =>
    c.encTotal = D ∧ a.panicked = false ∧ TotalTracks c a ∧ c.totalOutPtr = true ∧ historyOK (D + a.outOff) rest

/-- `total_out_is_sum`: along any history, after every call `*total_out` equals the number of
bytes delivered up to and including that call -/
theorem total_out_is_sum : ∀ (D : Nat) (hs : List (StreamCall × StreamAns)), historyOK D hs →
    ∀ (pre : List (StreamCall × StreamAns)) (c : StreamCall) (a : StreamAns) (post : List (StreamCall × StreamAns)),
      hs = pre ++ (c, a) :: post →
      (compressStream c a).totalOutCell = D + (pre.map (fun x => x.2.outOff)).sum + a.outOff := by
  intro D hs
  induction hs generalizing D with
  | nil => intro _ pre c a post h; simp at h
  | cons x rest ih =>
    intro hok pre c a post h
    obtain ⟨c0, a0⟩ := x
    obtain ⟨h1, h2, h3, h4, h5⟩ := hok
    cases pre with
    | nil =>
      simp only [List.nil_append, List.cons.injEq, Prod.mk.injEq] at h
      obtain ⟨⟨hc, ha⟩, _⟩ := h
      subst hc ha
      simpa using total_out_is_sum_step c0 a0 D h1 h2 h3 h4
    | cons y pre' =>
      simp only [List.cons_append, List.cons.injEq] at h
      obtain ⟨hy, hrest⟩ := h
      subst hy
      have := ih (D + a0.outOff) h5 pre' c a post hrest
      rw [this]; simp; omega

/-- `take_output_partition` (one call): the slice handed out and what stays pending are the
pending bytes split in two; `*size` reports the length of the slice; `size = 0` asks for everything -/
theorem take_output_splits (pending : Bytes) (size : Nat) :
    (takeOutput pending size).1 ++ (takeOutput pending size).2.2 = pending ∧
    (takeOutput pending size).2.1 = (takeOutput pending size).1.length ∧
    (takeOutput pending size).1.length = (if size = 0 then pending.length else min size pending.length) :=
  takeOutput_spec pending size

/-- `take_output_partition`: for ANY interleaving of `take_output(size)` calls and pushes by stream
calls, the chunks handed out, in order, followed by what is still pending, are exactly the pending
bytes — each byte once, none lost, order kept -/
theorem take_output_partition : ∀ (evs : List Hand) (pending : Bytes),
    (handOut pending evs).1.flatten ++ (handOut pending evs).2 = pending := by
  intro evs
  induction evs with
  | nil => intro pending; simp [handOut]
  | cons e rest ih =>
    intro pending
    cases e with
    | take size =>
      obtain ⟨h1, _, _⟩ := takeOutput_spec pending size
      simp only [handOut]
      have := ih (takeOutput pending size).2.2
      simp only [List.flatten_cons, List.append_assoc, this]
      exact h1
    | push k =>
      simp only [handOut]
      have := ih (pending.drop (min k pending.length))
      simp only [List.flatten_cons, List.append_assoc, this, List.take_append_drop]

/-- `unwrapped_entry_points_cannot_panic_partial`: `BrotliEncoderTakeOutput` is not wrapped in
`catch_panic`; its arithmetic cannot leave the pending bytes (proved here).  That `GetNextOut!`
yields a slice holding `available_out_` bytes is an invariant of the stream machine (C20), and
`SetParameter` / `IsFinished` / `HasMoreOutput` are field assignments and comparisons without a
panic site (read, and exercised with out-of-range values by the harness) — not modelled: partial. -/
theorem unwrapped_entry_points_cannot_panic_partial (pending : Bytes) (size : Nat) :
    (takeOutput pending size).1.length ≤ pending.length ∧ (takeOutput pending size).2.2.length ≤ pending.length := by
  obtain ⟨h1, _, _⟩ := takeOutput_spec pending size
  have : ((takeOutput pending size).1 ++ (takeOutput pending size).2.2).length = pending.length := by rw [h1]
  simp only [List.length_append] at this
  omega

/-- `wrapped_entry_points_return_zero`: a Rust call that unwinds inside `catch_panic` makes the
entry point return 0 (NULL for constructors); for the stream call the two pointers and
`*total_out` are as before -/
theorem wrapped_entry_points_return_zero (c : StreamCall) (a : StreamAns) (hp : a.panicked = true) :
    catchPanic none = 0 ∧ (compressStream c a).ret = 0 ∧ (compressStream c a).nextIn = c.nextIn ∧
    (compressStream c a).nextOut = c.nextOut ∧ (compressStream c a).totalOutCell = c.totalOutCell := by
  simp [catchPanic, compressStream, hp]

/-- thread-count clamp: `n = 0 ⇒ 0` before anything is touched; otherwise `min(n, 16)` threads —
never more than 16, never more than asked for, exactly `n` up to 16 -/
theorem thread_count_clamp (n : Nat) :
    (n = 0 → multiDispatch n = .reject) ∧
    (n = 1 → multiDispatch n = .single) ∧
    (2 ≤ n → multiDispatch n = .multi (min n 16) ∧ min n 16 ≤ 16 ∧ min n 16 ≤ n ∧ (n ≤ 16 → min n 16 = n)) := by
  refine ⟨?_, ?_, ?_⟩
  · intro h; simp [multiDispatch, h]
  · intro h; simp [multiDispatch, h, maxThreads]
  · intro h
    refine ⟨?_, by omega, by omega, by omega⟩
    unfold multiDispatch maxThreads
    rw [if_neg (by omega), if_neg (by omega)]

/-- the allocator-opaque index of every one of the 16 allocator slots is in range (no panic in
the array literal of 16 `make_send_alloc!`), for the caller's array of `n` entries as well as for
the 16 nulls, whenever `n ≥ 1` -/
theorem opaque_index_in_range (n : Nat) (hn : 0 < n) (callerArray : Bool) (k : Nat) (hk : k < 16) :
    ∃ i, opaqueIndex n callerArray k = some i ∧ i < (if callerArray then n else 16) := by
  unfold opaqueIndex maxThreads
  rw [if_neg (by omega)]
  simp only
  have hmod : k % n < n := Nat.mod_lt _ hn
  have hmod16 : k % n < 16 := Nat.lt_of_le_of_lt (Nat.mod_le _ _) hk
  by_cases h0 : k = 0
  · subst h0
    cases callerArray
    · exact ⟨0, by simp, by simp⟩
    · exact ⟨0, by simp [hn], by simpa using hn⟩
  · cases callerArray
    · exact ⟨k % n, by simp [h0, hmod16], by simpa using hmod16⟩
    · exact ⟨k % n, by simp [h0, hmod], by simpa using hmod⟩

/-! ## over the stream-machine model (M8, `BV.Stream`) instead of recorded answers -/

section OverStream
open BV.Stream BV.Bits

/-- `unwrapped_entry_points_cannot_panic` (in full): the four entry points that are NOT wrapped in
`catch_panic`, as functions of the modelled encoder state.
* `BrotliEncoderSetParameter`, `BrotliEncoderIsFinished`, `BrotliEncoderHasMoreOutput` are total
  (their models have no panic outcome: field updates and comparisons only) and answer 0/1;
  `SetParameter` answers 1 exactly when the Rust method returns `true` (C20 `set_parameter_table`,
  `params_frozen` say when that is);
* `BrotliEncoderTakeOutput` has exactly one panic site — the slice start `storage_[off..]` /
  `tiny_buf_[off..]` of `GetNextOut!` — and that cannot fire while the pending bytes lie inside the
  buffer `next_out_` points into (`OutOk`), a condition `take_output` itself preserves; it never
  loops.  (Every push of `compress_stream` checks the same bound and panics INSIDE `catch_panic`
  otherwise, so a state handed back by a stream call satisfies it.) -/
theorem unwrapped_entry_points_cannot_panic (s : St) :
    (∀ id v, (ffiSetParameter s id v).2 ≤ 1 ∧ ((ffiSetParameter s id v).2 = 1 ↔ (setParameter s id v).2 = true) ∧
             (ffiSetParameter s id v).1 = (setParameter s id v).1) ∧
    ffiIsFinished s ≤ 1 ∧ ffiHasMoreOutput s ≤ 1 ∧
    (∀ size, ffiTakeOutput s size ≠ .fuel) ∧
    (∀ size, OutOk s → ∃ s' n bytes, ffiTakeOutput s size = .ok (s', n, bytes) ∧ n = bytes.length ∧ OutOk s' ∧
                        s.pending = bytes ++ s'.pending) := by
  refine ⟨?_, ?_, ?_, ffiTakeOutput_ne_fuel s, ?_⟩
  · intro id v
    unfold ffiSetParameter
    cases h : setParameter s id v with
    | mk s' b => cases b <;> simp
  · unfold ffiIsFinished; split <;> omega
  · unfold ffiHasMoreOutput; split <;> omega
  · intro size hok
    have hs := takeSliceOk_of_outOk hok
    cases ht : BV.Stream.takeOutput s size with
    | panic => exact absurd ((takeOutput_panic_iff s size).mp ht) (by rw [hs]; simp)
    | fuel => exact absurd ht (takeOutput_ne_fuel s size)
    | ok x =>
      obtain ⟨s', bytes⟩ := x
      refine ⟨s', bytes.length, bytes, by unfold ffiTakeOutput; rw [ht], rfl, takeOutput_outOk hok ht, ?_⟩
      unfold BV.Stream.takeOutput at ht
      rw [hs] at ht
      simp only [Bool.not_true, Bool.false_eq_true, if_false] at ht
      split at ht
      · simp only [Out.ok.injEq, Prod.mk.injEq] at ht
        obtain ⟨rfl, rfl⟩ := ht
        have hp : (checkFlushComplete (takeAdvance s (takeCount s size))).pending = s.pending.drop (takeCount s size) := by
          have := (checkFlushComplete_frame (takeAdvance s (takeCount s size))).2.2.2.2.2.2.2.1
          rw [this]; rfl
        rw [hp, List.take_append_drop]
      · simp only [Out.ok.injEq, Prod.mk.injEq] at ht
        obtain ⟨rfl, rfl⟩ := ht
        simp

/-- `ffi_refines_requests`: on an instance in state `s`, `BrotliEncoderCompressStream` performs
EXACTLY the Rust call `compress_stream(op, the caller's bytes, available_out)` on that very state —
whatever the addresses, and with a null or dangling pointer never looked at when its count is 0 —
ends in the state that call ends in, stores the bytes that call produced, and hands back its
return value and counters.  Byte identity with the Rust API follows because `compress_stream` is a
function of (state, op, input bytes, capacity). -/
theorem ffi_refines_requests (o : Oracle) (fuel : Nat) (s : St) (mem : Mem) (op : Nat) (c : StreamCall)
    (input : List Nat)
    (hin : (c.availIn = 0 ∧ input = []) ∨ (c.availIn ≠ 0 ∧ ∃ p, c.nextIn = some p ∧ mem p c.availIn = input))
    (s' : St) (io' : Io) (r : Bool)
    (h : BV.Stream.compressStream o fuel s op input c.availOut = .ok (s', io', r)) :
    (ffiCompressStream o fuel s mem op c).1 = s' ∧
    (ffiCompressStream o fuel s mem op c).2.2 = io'.out ∧
    (ffiCompressStream o fuel s mem op c).2.1.ret = (if r then 1 else 0) ∧
    (ffiCompressStream o fuel s mem op c).2.1.availIn = io'.availIn ∧
    (ffiCompressStream o fuel s mem op c).2.1.availOut = io'.availOut := by
  have hslice : inputSlice mem c.nextIn c.availIn = input := by
    unfold inputSlice
    rcases hin with ⟨h0, h1⟩ | ⟨h0, p, h1, h2⟩
    · rw [if_pos h0, h1]
    · rw [if_neg h0, h1]; exact h2
  unfold ffiCompressStream
  simp only [hslice, h]
  simp [BV.FFI.compressStream, ansOfStream]

/-- two C callers that pass the same bytes and the same counts — at different addresses, in
different memories, with or without a null pointer for a zero count — drive the instance to the same
state, get the same bytes, the same return value and the same counters -/
theorem ffi_independent_of_addresses (o : Oracle) (fuel : Nat) (s : St) (mem1 mem2 : Mem) (op : Nat) (c1 c2 : StreamCall)
    (hai : c1.availIn = c2.availIn) (hao : c1.availOut = c2.availOut)
    (hbytes : inputSlice mem1 c1.nextIn c1.availIn = inputSlice mem2 c2.nextIn c2.availIn) :
    (ffiCompressStream o fuel s mem1 op c1).1 = (ffiCompressStream o fuel s mem2 op c2).1 ∧
    (ffiCompressStream o fuel s mem1 op c1).2.2 = (ffiCompressStream o fuel s mem2 op c2).2.2 ∧
    (ffiCompressStream o fuel s mem1 op c1).2.1.ret = (ffiCompressStream o fuel s mem2 op c2).2.1.ret ∧
    (ffiCompressStream o fuel s mem1 op c1).2.1.availIn = (ffiCompressStream o fuel s mem2 op c2).2.1.availIn ∧
    (ffiCompressStream o fuel s mem1 op c1).2.1.availOut = (ffiCompressStream o fuel s mem2 op c2).2.1.availOut := by
  unfold ffiCompressStream
  simp only
  rw [hbytes, hai, hao]
  cases BV.Stream.compressStream o fuel s op (inputSlice mem2 c2.nextIn c2.availIn) c2.availOut with
  | ok x => obtain ⟨s', io', r⟩ := x; simp [BV.FFI.compressStream, ansOfStream]
  | panic => simp [BV.FFI.compressStream, ansOfStream]
  | fuel => simp [BV.FFI.compressStream, ansOfStream]

/-- `ffi_cursor_exact` for the modelled machine, ALL FOUR operations (PROCESS / FLUSH / FINISH /
EMIT_METADATA), accepted or refused calls, from a fresh instance or any state satisfying the
invariant, with NO hypothesis on the payload encoder: the hypothesis `CursorsAgree` is a theorem
(byte ledger of `BV.Stream.compressStream`, `Lemmas/StreamTotal`), so both pointers advance by
exactly the decrease of their counters; the bytes stored at `*next_out` are as many as
`available_out` lost; and the part of the input slice the callee has not read is the caller's slice
minus its first `available_in(before) - available_in(after)` bytes (the Rust `input_offset`) -/
theorem ffi_cursor_exact_stream (o : Oracle) (fuel : Nat) (s : St) (mem : Mem)
    (op : Nat) (hop : op ≤ 3) (c : StreamCall) (hR : IsFresh s ∨ Inv s)
    (hlen : (inputSlice mem c.nextIn c.availIn).length = c.availIn)
    (hw : s.inputPos + c.availIn < two64)
    (s' : St) (io' : Io) (r : Bool)
    (h : BV.Stream.compressStream o fuel s op (inputSlice mem c.nextIn c.availIn) c.availOut = .ok (s', io', r)) :
    (∀ p, c.nextIn = some p → (ffiCompressStream o fuel s mem op c).2.1.nextIn
        = some (p + (c.availIn - (ffiCompressStream o fuel s mem op c).2.1.availIn))) ∧
    (∀ p, c.nextOut = some p → (ffiCompressStream o fuel s mem op c).2.1.nextOut
        = some (p + (c.availOut - (ffiCompressStream o fuel s mem op c).2.1.availOut))) ∧
    (ffiCompressStream o fuel s mem op c).2.2.length = c.availOut - (ffiCompressStream o fuel s mem op c).2.1.availOut ∧
    (ffiCompressStream o fuel s mem op c).2.1.availIn ≤ c.availIn ∧
    io'.input = (inputSlice mem c.nextIn c.availIn).drop (c.availIn - (ffiCompressStream o fuel s mem op c).2.1.availIn) := by
  obtain ⟨hca, hin⟩ := cursorsAgree_of_stream_all c hop hR hlen (by rw [hlen]; exact hw) h
  have hca' : CursorsAgree { c with encTotal := s.totalOut } (ansOfStream c.availIn c.availOut (.ok (s', io', r))) := ⟨hca.inEq, hca.outEq⟩
  obtain ⟨e1, _, e3, e4, _, _⟩ := ffi_cursor_exact { c with encTotal := s.totalOut } _ (by simp [ansOfStream]) hca'
  unfold ffiCompressStream
  simp only [h]
  refine ⟨e3, e4, ?_, e1, ?_⟩
  · have := hca.outEq
    simp only [ansOfStream] at this
    simp only [BV.FFI.compressStream, ansOfStream, Bool.false_eq_true, if_false]
    omega
  · simp only [BV.FFI.compressStream, ansOfStream, Bool.false_eq_true, if_false]
    exact hin

/-- the hypothesis `TotalTracks` of `total_out_is_sum` is a theorem of the modelled machine — all four
operations, no hypothesis on the payload encoder — as long as the 64-bit counter cannot wrap in this
call (fewer than 2^64 bytes delivered so far plus the capacity offered) -/
theorem total_tracks_stream (o : Oracle) (fuel : Nat) (s : St) (mem : Mem) (op : Nat) (hop : op ≤ 3) (c : StreamCall)
    (hR : IsFresh s ∨ Inv s) (hlen : (inputSlice mem c.nextIn c.availIn).length = c.availIn)
    (hw : s.inputPos + c.availIn < two64) (hnw : s.totalOut + c.availOut < two64)
    (s' : St) (io' : Io) (r : Bool)
    (h : BV.Stream.compressStream o fuel s op (inputSlice mem c.nextIn c.availIn) c.availOut = .ok (s', io', r)) :
    TotalTracks { c with encTotal := s.totalOut } (ansOfStream c.availIn c.availOut (.ok (s', io', r))) :=
  totalTracks_of_stream c hop hR (by rw [hlen]; exact hw) hnw h

/-- `total_out_is_sum`, one call, over the modelled machine and exact in 64-bit arithmetic: a stream
call (any operation, accepted or refused) made with a non-null `total_out` leaves in `*total_out` the
instance's `total_out_`, and that is the value before the call plus the bytes this call stored at
`*next_out`, wrapping at 2^64 — also when it stored nothing.  No hypothesis on the Rust call. -/
theorem total_out_cell_stream (o : Oracle) (fuel : Nat) (s : St) (mem : Mem) (op : Nat) (hop : op ≤ 3) (c : StreamCall)
    (hR : IsFresh s ∨ Inv s) (hlen : (inputSlice mem c.nextIn c.availIn).length = c.availIn)
    (hw : s.inputPos + c.availIn < two64) (hT : s.totalOut < two64) (hptr : c.totalOutPtr = true)
    (s' : St) (io' : Io) (r : Bool)
    (h : BV.Stream.compressStream o fuel s op (inputSlice mem c.nextIn c.availIn) c.availOut = .ok (s', io', r)) :
    (ffiCompressStream o fuel s mem op c).2.1.totalOutCell = s'.totalOut ∧
    s'.totalOut = (s.totalOut + (ffiCompressStream o fuel s mem op c).2.2.length) % two64 := by
  have hw0 : s.inputPos + (inputSlice mem c.nextIn c.availIn).length < two64 := by rw [hlen]; exact hw
  refine ⟨ffi_cell_is_total o fuel s mem op c s' io' r hptr hT hR hop hw0 h, ?_⟩
  rw [(ffiCompressStream_ok o fuel s mem op c h).2]
  exact totalOut_of_stream s.totalOut hop hR hw0 (Nat.mod_eq_of_lt hT).symm h

/-- what `BrotliEncoderTakeOutput` does to the total: the bytes it hands out by pointer ARE counted
into `total_out_` (encode.rs `take_output`: `total_out_ += consumed_size`), exactly like bytes copied
to `next_out` — so `*total_out` of the next stream call includes them -/
theorem take_output_counts_into_total (s s' : St) (size n : Nat) (bytes : List Nat)
    (h : ffiTakeOutput s size = .ok (s', n, bytes)) :
    s'.totalOut = (s.totalOut + n) % two64 ∨ (n = 0 ∧ s' = s) := by
  have hn : n = bytes.length := by
    unfold ffiTakeOutput at h
    split at h
    · simp only [Out.ok.injEq, Prod.mk.injEq] at h; obtain ⟨_, h2, h3⟩ := h; rw [← h2, ← h3]
    · simp at h
    · simp at h
  rcases take_total (ffiTakeOutput_ok h) with h1 | ⟨h1, h2⟩
  · left; rw [hn]; exact h1
  · right; exact ⟨by rw [hn, h1]; rfl, h2⟩

/-- `total_out_is_sum` over the modelled machine (`total_out_is_sum_stream`): on an instance that
starts fresh, after ANY history of `SetParameter` / `CompressStream` (PROCESS, FLUSH, FINISH,
EMIT_METADATA; accepted or refused; any capacities, null pointers with zero counts) / `TakeOutput` /
`HasMoreOutput` / `IsFinished` calls in which no Rust call unwound, every value a stream call left in
`*total_out` equals the number of bytes delivered to the caller up to and including that call —
bytes stored at `*next_out` PLUS bytes handed out by `TakeOutput` — modulo 2^64, and so does the
instance's `total_out_` at the end.  The hypothesis `TotalTracks` of `total_out_is_sum` is gone; the
only hypotheses left are the caller's (operation codes in range, input pointers address
`available_in` bytes, fewer than 2^64 bytes offered in total). -/
theorem total_out_is_sum_stream (o : Oracle) (fuel : Nat) (mem : Mem) (calls : List FfiCall) (s0 : St)
    (hf : IsFresh s0) (hok : FfiHistOK mem calls) (hw : ffiHistLen calls < two64)
    (s : St) (seen : FfiSeen) (h : ffiRun o fuel mem calls s0 {} = some (s, seen)) :
    (∀ x ∈ seen.cells, x.1 = x.2 % two64) ∧ s.totalOut = seen.delivered.length % two64 := by
  obtain ⟨_, _, hip, _, _⟩ := isFresh_fields hf
  have hT0 : s0.totalOut = ([] : List Nat).length % two64 := by
    obtain ⟨p, rfl⟩ := hf; rfl
  obtain ⟨h1, h2⟩ := ffiRun_total (runOK_fresh hf) hok (by rw [hip]; omega) hT0 (by intro x hx; cases hx) h
  exact ⟨h2, h1⟩

/-- `unwrapped_entry_points_cannot_panic`, closed over histories (`take_output_never_panics_stream`):
the side condition `OutOk` of `unwrapped_entry_points_cannot_panic` is a THEOREM — after ANY history
of C ABI calls on a fresh instance in which no Rust call unwound (any operations, capacities, take
sizes; no hypothesis on the payload encoder: neither `OracleOK` nor `OracleBounded`), the pending
bytes lie inside the buffer `next_out_` points into, so `BrotliEncoderTakeOutput`, which is NOT
behind `catch_panic`, returns normally for every `size`, hands out a prefix of the pending bytes
and leaves `OutOk` in place.  (Invariants used: `StoreOK` of C01, `TinyOK` + carry ≤ 14 bits proved
here atom by atom without the oracle bound, `Lemmas/StreamTinyFree`.) -/
theorem take_output_never_panics_stream (o : Oracle) (fuel : Nat) (mem : Mem) (calls : List FfiCall) (s0 : St)
    (hf : IsFresh s0) (hok : FfiHistOK mem calls) (hw : ffiHistLen calls < two64)
    (s : St) (seen : FfiSeen) (h : ffiRun o fuel mem calls s0 {} = some (s, seen)) :
    OutOk s ∧ ∀ size, ∃ s' n bytes, ffiTakeOutput s size = .ok (s', n, bytes) ∧ n = bytes.length ∧ OutOk s' ∧
      s.pending = bytes ++ s'.pending := by
  obtain ⟨_, _, hip, _, _⟩ := isFresh_fields hf
  have hJ := ffiRun_histInv (histInv_fresh hf) hok (by rw [hip]; omega) h
  have hO := outOk_of_histInv hJ
  exact ⟨hO, fun size => (unwrapped_entry_points_cannot_panic s).2.2.2.2 size hO⟩

/-! ### the hypothesis `OracleBounded` (used by C11 / C20 / C01, no longer by C13)

`OracleBounded o B` asks for ONE bound on all answers; what `encode_data`'s own storage sizing
(`get_brotli_storage(2 * span + 527)`, C01 `encode_data_storage_suffices`) relies on is the per-request
bound `OracleOK.fits` (`≤ 8 * (2 * span + 500)` bits for a request over `span` bytes).  The two are
related as follows: `fits` gives `OracleBounded` as soon as the payload encoder is only asked — or only
answers — about spans of at most `N` bytes; and every `OracleOK` oracle can be cut down to such a one
without leaving `OracleOK`.  What is NOT proved is that the stream machine only issues requests of
bounded span: `hi - lo ≤ 2^lgblock` is part of the state invariant, but `hi - lf` (the meta-block
being accumulated) is bounded only by the emit policy of the payload encoder, which is an oracle. -/

/-- the number of input bytes a payload-encoder request is about -/
def reqSpan (r : Req) : Nat := if r.site = 2 then r.lo else max (r.hi - r.lo) (r.hi - r.lf)

/-- `OracleBounded` is a consequence of `OracleOK.fits` for a payload encoder that answers nothing
for requests over more than `N` bytes -/
theorem oracle_bounded_of_fits (o : Oracle) (hO : OracleOK o) (N : Nat)
    (hN : ∀ k r, N < reqSpan r → (o k r).bits = []) : OracleBounded o (8 * (2 * N + 500)) := by
  intro k r
  by_cases h : N < reqSpan r
  · rw [hN k r h]; exact Nat.zero_le _
  · have := hO.fits k r
    unfold reqSpan at h
    have hle : (if r.site = 2 then r.lo else max (r.hi - r.lo) (r.hi - r.lf)) ≤ N := by omega
    have h2 : 8 * (2 * (if r.site = 2 then r.lo else max (r.hi - r.lo) (r.hi - r.lf)) + 500) ≤ 8 * (2 * N + 500) := by omega
    exact Nat.le_trans this h2

/-- cutting an oracle down to requests of at most `N` bytes -/
def clampOracle (N : Nat) (o : Oracle) : Oracle :=
  fun k r => if reqSpan r ≤ N then o k r else { result := true, emit := true, bits := [] }

/-- the cut-down oracle still satisfies `OracleOK`, satisfies `OracleBounded` with the bound `fits`
gives for `N` bytes, and agrees with the original on every request of at most `N` bytes -/
theorem clampOracle_ok (o : Oracle) (hO : OracleOK o) (N : Nat) :
    OracleOK (clampOracle N o) ∧ OracleBounded (clampOracle N o) (8 * (2 * N + 500)) ∧
    (∀ k r, reqSpan r ≤ N → clampOracle N o k r = o k r) := by
  have hok : OracleOK (clampOracle N o) := by
    refine ⟨?_, ?_, ?_⟩
    · intro k r; unfold clampOracle; split
      · exact hO.result_true k r
      · rfl
    · intro k r h; unfold clampOracle; split
      · exact hO.emits_when_forced k r h
      · rfl
    · intro k r; unfold clampOracle; split
      · exact hO.fits k r
      · exact Nat.zero_le _
  refine ⟨hok, oracle_bounded_of_fits _ hok N ?_, ?_⟩
  · intro k r h; unfold clampOracle; rw [if_neg (by omega)]
  · intro k r h; unfold clampOracle; rw [if_pos h]

end OverStream

/-! ## non-vacuity -/

example : CursorsAgree ⟨5, some 1000, 10, some 2000, true, 0, 40⟩ ⟨5, 0, 3, 7, true, false, some 43⟩ := ⟨rfl, rfl⟩
example : TotalTracks ⟨5, some 1000, 10, some 2000, true, 0, 40⟩ ⟨5, 0, 3, 7, true, false, some 43⟩ := rfl
example : TotalTracks ⟨0, none, 0, none, true, 9, 43⟩ ⟨0, 0, 0, 0, true, false, none⟩ := rfl
example : compressStream ⟨0, none, 0, none, true, 9, 43⟩ ⟨0, 0, 0, 0, true, false, none⟩ = ⟨1, 0, none, 0, none, 43⟩ := rfl
example : historyOK 40 [(⟨5, some 1000, 10, some 2000, true, 0, 40⟩, ⟨5, 0, 3, 7, true, false, some 43⟩),
                        (⟨0, none, 0, none, true, 43, 43⟩, ⟨0, 0, 0, 0, true, false, none⟩)] :=
  ⟨rfl, rfl, rfl, rfl, rfl, rfl, rfl, rfl, trivial⟩
example : handOut [1, 2, 3, 4, 5] [.take 2, .push 1, .take 0] = ([[1, 2], [3], [4, 5]], []) := rfl
example : multiDispatch 32 = .multi 16 := rfl
example : BV.Stream.OracleOK (clampOracle 100 (fun _ _ => { bits := [true] })) :=
  (clampOracle_ok _ ⟨fun _ _ => rfl, fun _ _ _ => rfl, fun _ _ => by simp; omega⟩ 100).1

/-- a concrete history through `ffiRun` (quality 5; the payload encoder answers 41 one-bits): PROCESS
3 bytes with no output room, FLUSH into 2 bytes, `TakeOutput(1)`, a 2-byte metadata block in two
calls (the first is refused: the flush is still draining), FINISH.  The cell after the refused call
is 3 although only 2 bytes went through `next_out`: the byte taken by pointer is counted. -/
example : (ffiRun (fun _ _ => { bits := List.replicate 41 true }) 100 (fun _ n => List.replicate n 65)
      [.setParam 1 5, .stream 0 ⟨3, some 1000, 0, none, true, 7, 0⟩, .stream 1 ⟨0, none, 2, some 100, true, 0, 0⟩, .take 1,
       .stream 3 ⟨2, some 1000, 10, some 100, true, 0, 0⟩, .stream 3 ⟨2, some 1000, 10, some 100, true, 0, 0⟩,
       .stream 2 ⟨0, none, 10, some 100, true, 0, 0⟩] BV.Stream.St.new {}).map (fun x => (x.2.cells, x.2.delivered.length, x.1.totalOut))
    = some ([(0, 0), (2, 2), (3, 3), (3, 3), (7, 7)], 7, 7) := by decide +kernel
example : FfiHistOK (fun _ n => List.replicate n 65) [.setParam 1 5, .stream 0 ⟨3, some 1000, 0, none, true, 7, 0⟩, .take 1] :=
  ⟨by decide, by simp [inputSlice], trivial⟩
example : BV.Stream.IsFresh (BV.Stream.setParameter BV.Stream.St.new 1 5).1 := BV.Stream.setParameter_fresh ⟨{}, rfl⟩ 1 5

end BV.Props.C13
