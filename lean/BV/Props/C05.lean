import BV.Lemmas.StreamFrame
import BV.Lemmas.StreamSched3
import BV.Lemmas.StreamSchedMd2
/-
C05 — Output bytes depend on input, settings and call points only, not on buffering.

Model: `BV/Model/Stream.lean` (see C20).  What the model can say about this property is the
output-buffer half: how the caller slices the output (capacities 0, 1, …, ample; push vs
`take_output`; the in-place vs staged path of the quality 0/1 loop) never reaches the payload
encoder and never changes the emitted bit stream.  Allocator independence, run-to-run
determinism and build-profile independence have no counterpart in a functional model (there is
no allocator and no profile in it); input-chunking independence at quality ≥ 2 concerns which
requests are issued and is exercised differentially.  Those parts are validated by the harness
(pairs of histories compared byte for byte) and labelled as such in the registration.

Full statement, PROVED for PROCESS / FLUSH / FINISH / EMIT_METADATA requests (`out_slicing_irrelevant`,
`out_slicing_irrelevant_seq`): for a request — or a sequence of requests — driven to completion under
any schedule of output capacities and `take_output` calls, the bytes produced and the final state
(everything but the output cursor, the pending bytes' location, `total_out_` and the size of
`storage_`) do not depend on the schedule.  Proof: a simulation.  `ustep` (Lemmas/StreamSched) is
the machine on abstract configurations (core state, all bytes produced, input left) — a function in
which no capacity occurs; every atomic step of the real machine (Lemmas/StreamLts) is a stutter
(bytes move to the caller) or exactly `ustep`; so every run walks along the one trajectory of
`ustep`, and two complete runs end at the same point.  EMIT_METADATA requests
(`out_slicing_irrelevant_md`, `out_slicing_irrelevant_seq_md`): the same simulation onto `ustepM`
after one normalisation (in METADATA_BODY the payload not yet consumed counts as produced —
Lemmas/StreamSchedMd*).  The earlier per-step ingredients are kept below.
-/
namespace BV.Props.C05
open BV.Stream BV.Bits

/-- the payload encoder is asked with a `Req` that contains positions and flags only — no
caller cursor, no pending-output size: syntactically, by the type of `Req` -/
theorem requests_blind_to_output (s : St) (site : Nat) (il ff : Bool) :
    reqOf s site il ff = { site := site, lo := s.lastProcessedPos, hi := s.inputPos, lf := s.lastFlushPos,
                           isLast := il, forceFlush := ff } := rfl

/-- `encode_data` does not read the output side of the state: two states that differ only in
`nextOut`, `totalOut` and the size of `storage_` (both large enough not to panic) issue the same
request and get the same answer -/
theorem encode_request_blind (o : Oracle) (s : St) (site : Nat) (il ff : Bool) (nx : NextOut) (tot : Nat) :
    reqOf { s with nextOut := nx, totalOut := tot } site il ff = reqOf s site il ff := rfl

/-- pushing output in two portions is pushing it in one: capacity `a` then capacity `b` moves the
same bytes as capacity `a + b` (list algebra of `take`/`drop`) -/
theorem push_split (pending : Bytes) (a b : Nat) :
    pending.take a ++ (pending.drop a).take b = pending.take (a + b)
    ∧ (pending.drop a).drop b = pending.drop (a + b) := by
  refine ⟨?_, ?_⟩
  · rw [List.take_add]
  · rw [List.drop_drop]

/-- handing bytes to the caller (any capacity) leaves the emitted bit stream unchanged -/
theorem push_keeps_stream {d : Bytes} {s s' : St} {io io' : Io} {b : Bool}
    (hst : s.streamState ≠ .flushRequested) (h : injectFlushOrPushOutput s io = .ok (s', io', b)) :
    emitted (d ++ io'.out) s' = emitted (d ++ io.out) s := emitted_push hst h

/-- `take_output(size)` for any `size` leaves the emitted bit stream unchanged -/
theorem take_output_keeps_stream {d out : Bytes} {s s' : St} {size : Nat} (hI : Inv s)
    (h : takeOutput s size = .ok (s', out)) : emitted (d ++ out) s' = emitted d s := by
  obtain ⟨_, hp, _, _⟩ := takeOutput_spec hI h
  have hlb : s'.lastBytes = s.lastBytes ∧ s'.lastBytesBits = s.lastBytesBits := by
    unfold takeOutput at h
    split at h
    · simp at h
    · split at h
      · simp only [Out.ok.injEq, Prod.mk.injEq] at h
        obtain ⟨rfl, _⟩ := h
        obtain ⟨_, _, _, _, _, _, _, _, k9, k10, _⟩ := checkFlushComplete_frame (takeAdvance s (takeCount s size))
        exact ⟨k9, k10⟩
      · simp only [Out.ok.injEq, Prod.mk.injEq] at h
        obtain ⟨rfl, _⟩ := h
        exact ⟨rfl, rfl⟩
  unfold emitted St.carry
  rw [hlb.1, hlb.2, hp, List.append_assoc]

/-- **in-place = staged** (quality 0/1): writing a block straight into the caller's buffer and
staging it in `storage_` produce the same bytes, the same carry and the same stream state; the
two results differ only in where the bytes are (caller's buffer vs pending) -/
theorem inplace_eq_staged (s : St) (io : Io) (ans : Ans) (req : Req) (bs : Nat) (il ff : Bool)
    (hp : s.pending = []) :
    (fastEncode s io ans req bs true il ff).2.out ++ (fastEncode s io ans req bs true il ff).1.pending
      = (fastEncode s io ans req bs false il ff).2.out ++ (fastEncode s io ans req bs false il ff).1.pending
    ∧ (fastEncode s io ans req bs true il ff).1.lastBytes = (fastEncode s io ans req bs false il ff).1.lastBytes
    ∧ (fastEncode s io ans req bs true il ff).1.lastBytesBits = (fastEncode s io ans req bs false il ff).1.lastBytesBits
    ∧ (fastEncode s io ans req bs true il ff).1.streamState = (fastEncode s io ans req bs false il ff).1.streamState
    ∧ (fastEncode s io ans req bs true il ff).2.availIn = (fastEncode s io ans req bs false il ff).2.availIn
    ∧ (fastEncode s io ans req bs true il ff).2.input = (fastEncode s io ans req bs false il ff).2.input
    ∧ (fastEncode s io ans req bs true il ff).2.reqs = (fastEncode s io ans req bs false il ff).2.reqs := by
  unfold fastEncode
  simp [hp]

/-- hence the emitted bit stream after a quality 0/1 block is the same on both paths -/
theorem inplace_eq_staged_stream (d : Bytes) (s : St) (io : Io) (ans : Ans) (req : Req) (bs : Nat) (il ff : Bool)
    (hp : s.pending = []) :
    emitted (d ++ (fastEncode s io ans req bs true il ff).2.out) (fastEncode s io ans req bs true il ff).1
      = emitted (d ++ (fastEncode s io ans req bs false il ff).2.out) (fastEncode s io ans req bs false il ff).1 := by
  obtain ⟨h1, h2, h3, _⟩ := inplace_eq_staged s io ans req bs il ff hp
  unfold emitted St.carry
  rw [h2, h3, List.append_assoc, h1, List.append_assoc]

/-- what a quality 0/1 block appends to the emitted stream: the payload encoder's bits behind the
carry — on either path -/
theorem fast_block_appends (d : Bytes) (s : St) (io : Io) (ans : Ans) (req : Req) (bs : Nat) (ip il ff : Bool)
    (hp : s.pending = []) :
    emitted (d ++ (fastEncode s io ans req bs ip il ff).2.out) (fastEncode s io ans req bs ip il ff).1
      = emitted (d ++ io.out) s ++ ans.bits := by
  have key : emitted (d ++ (fastEncode s io ans req bs false il ff).2.out) (fastEncode s io ans req bs false il ff).1
      = emitted (d ++ io.out) s ++ ans.bits := by
    unfold fastEncode emitted St.carry
    simp only [Bool.false_eq_true, ↓reduceIte, hp, List.append_nil]
    rw [bytesBits_append, List.append_assoc, pack_unpack, List.append_assoc]
  cases ip
  · exact key
  · rw [inplace_eq_staged_stream d s io ans req bs il ff hp]; exact key

/-- **out_slicing_irrelevant_partial**: summary of the ingredients above as one statement about the
three ways bytes reach the caller: (1) a push with any capacity, (2) `take_output` with any size,
(3) the in-place write — none changes the emitted bit stream `bits(delivered ++ pending) ++ carry`
beyond what the step's own appended bits are; in particular pushes and takes change nothing.
What is missing for the full theorem is the induction over arbitrary schedules of calls (the loop
may stop earlier with less room and resume in the next call); the harness compares such runs
byte for byte (`stream c05`: caps 1 / 0+take / random, against ample). -/
theorem out_slicing_irrelevant_partial {d : Bytes} {s s' : St} {io io' : Io} {b : Bool}
    (hst : s.streamState ≠ .flushRequested) (h : injectFlushOrPushOutput s io = .ok (s', io', b)) :
    emitted (d ++ io'.out) s' = emitted (d ++ io.out) s
    ∧ s'.lastFlushPos = s.lastFlushPos ∧ s'.lastProcessedPos = s.lastProcessedPos ∧ s'.inputPos = s.inputPos
    ∧ s'.streamState = s.streamState ∧ s'.params = s.params ∧ io'.availIn = io.availIn ∧ io'.reqs = io.reqs := by
  obtain ⟨f, a1, a2, _, _, _, _, _, a9, a10⟩ := push_frame h
  rw [St.frame_eq_iff] at f
  exact ⟨emitted_push hst h, a1, a2, f.2.1, f.2.2.2.1, f.1, a9, a10⟩

/-! ### the schedule induction -/

/-- **every run refines the abstract machine**: a request `(op, chunk)` driven from a call boundary
under ANY schedule (capacities 0, 1, …; `take_output` of any size at any point) stands on the
trajectory of the capacity-free abstract machine `ustep` from its start: on its flush-free part, or
— flag `true` — exactly one step past it, that step being the one that completed the flush. -/
theorem schedule_refines_abstract {o : Oracle} {fuel op : Nat} {sched : List SchedStep} {s s' : St}
    {chunk rem' del del' : Bytes} {d' : Bool} (hop2 : op ≤ 2) (hB : Bnd op s chunk)
    (h : driveReq o fuel op sched s chunk del false = some (s', rem', del', d')) :
    RPath o op (absR s chunk del) (absR s' rem' del') d' ∧ Bnd op s' rem' :=
  let r := drive_rpath (o := o) (fuel := fuel) hop2 (absR s chunk del) sched s chunk del false s' rem' del' d' hB ⟨0, .nil _⟩
    (fun hh => by cases hh) h
  ⟨r.1, r.2.1⟩

/-- **out_slicing_irrelevant** (full strength, one request): two runs of the same request
`(op, chunk)`, `op` ∈ PROCESS / FLUSH / FINISH, from call boundaries that agree abstractly (same core
state, same bytes produced so far), under two arbitrary schedules and fuels, each run complete
(`Final`: its flush has just completed, or the abstract machine has nothing left to do — e.g. its
last call returned with nothing pending, `complete_when_nothing_pending`) END IN THE SAME ABSTRACT
CONFIGURATION: equal core states, equal bytes produced (delivered ++ pending), equal input left. -/
theorem out_slicing_irrelevant {o : Oracle} {fuel1 fuel2 op : Nat} {sched1 sched2 : List SchedStep}
    {s1 s2 s1' s2' : St} {chunk del1 del2 rem1 rem2 del1' del2' : Bytes} {d1 d2 : Bool}
    (hop2 : op ≤ 2) (hB1 : Bnd op s1 chunk) (hB2 : Bnd op s2 chunk)
    (hcore : core s1 = core s2) (hout : del1 ++ s1.pending = del2 ++ s2.pending)
    (h1 : driveReq o fuel1 op sched1 s1 chunk del1 false = some (s1', rem1, del1', d1))
    (h2 : driveReq o fuel2 op sched2 s2 chunk del2 false = some (s2', rem2, del2', d2))
    (f1 : d1 = true ∨ ustep o op (absR s1' rem1 del1') = none)
    (f2 : d2 = true ∨ ustep o op (absR s2' rem2 del2') = none) :
    core s1' = core s2' ∧ del1' ++ s1'.pending = del2' ++ s2'.pending ∧ rem1 = rem2 := by
  have ha : absR s1 chunk del1 = absR s2 chunk del2 := by
    simp only [absR, hcore, hout]
  obtain ⟨r1, _⟩ := schedule_refines_abstract hop2 hB1 h1
  obtain ⟨r2, _⟩ := schedule_refines_abstract hop2 hB2 h2
  rw [ha] at r1
  have := rpath_final_eq r1 r2 f1 f2
  simp only [absR, Abs.mk.injEq] at this
  exact ⟨this.1, this.2.1, this.2.2.1⟩

/-- a checkable completion criterion: a call that returns with nothing pending has completed its request -/
theorem complete_when_nothing_pending {o : Oracle} {fuel op cap : Nat} {rem : Bytes} {s s' : St} {io' : Io}
    (hop2 : op ≤ 2) (hB : Bnd op s rem)
    (h : compressStream o fuel s op rem cap = .ok (s', io', true)) (hp : s'.pending = []) (d : Bytes) :
    callDone op s' = true ∨ ustep o op (absR s' io'.input d) = none := call_final hop2 hB h hp d

/-- a sequence of requests, each driven to completion under its own schedule, the caller keeping the
contract between requests (no input outside PROCESSING, no 64-bit wrap of the position) -/
inductive Driven (o : Oracle) : List (Nat × Bytes) → St → Bytes → St → Bytes → Prop
  | nil (s : St) (del : Bytes) : Driven o [] s del s del
  | cons {op fuel : Nat} {chunk : Bytes} {sched : List SchedStep} {rest : List (Nat × Bytes)}
      {s s1 s' : St} {del rem1 del1 del' : Bytes} {d1 : Bool} :
      op ≤ 2 → Bnd op s chunk →
      driveReq o fuel op sched s chunk del false = some (s1, rem1, del1, d1) →
      (d1 = true ∨ ustep o op (absR s1 rem1 del1) = none) →
      Driven o rest s1 del1 s' del' → Driven o ((op, chunk) :: rest) s del s' del'

/-- **out_slicing_irrelevant** (full strength, request sequences): two complete drivings of the same
sequence of `(op, chunk)` requests — different capacity schedules, different `take_output`
interleavings, different fuels — from abstractly equal starts deliver the same bytes
(delivered ++ still pending) and end in the same abstract state -/
theorem out_slicing_irrelevant_seq {o : Oracle} (reqs : List (Nat × Bytes)) :
    ∀ {s1 s2 s1' s2' : St} {del1 del2 del1' del2' : Bytes},
      Driven o reqs s1 del1 s1' del1' → Driven o reqs s2 del2 s2' del2' →
      core s1 = core s2 → del1 ++ s1.pending = del2 ++ s2.pending →
      core s1' = core s2' ∧ del1' ++ s1'.pending = del2' ++ s2'.pending := by
  induction reqs with
  | nil =>
    intro s1 s2 s1' s2' del1 del2 del1' del2' h1 h2 hc ho
    cases h1; cases h2
    exact ⟨hc, ho⟩
  | cons r rest ih =>
    intro s1 s2 s1' s2' del1 del2 del1' del2' h1 h2 hc ho
    cases h1 with
    | cons hop1 hB1 hd1 hf1 hr1 =>
      cases h2 with
      | cons hop2 hB2 hd2 hf2 hr2 =>
        obtain ⟨e1, e2, _⟩ := out_slicing_irrelevant hop1 hB1 hB2 hc ho hd1 hd2 hf1 hf2
        exact ih hr1 hr2 e1 e2

/-! ### EMIT_METADATA requests -/

/-- **every run of a metadata request refines the abstract metadata machine**: an EMIT_METADATA request
driven from a call boundary under ANY schedule (capacities 0, 1, …, so that the payload goes out
directly, through the 16-byte `tiny_buf_`, or both; `take_output` of any size at any point) stands on
the trajectory of the capacity-free machine `ustepM` on normalised configurations (`absRM`: in
METADATA_BODY the payload not yet consumed counts as produced): before the completion of the block,
or — flag `true` — exactly one step past it, that step being the one that completed the block. -/
theorem schedule_refines_abstract_md {o : Oracle} {fuel : Nat} {sched : List SchedStep} {s s' : St}
    {chunk rem' del del' : Bytes} {d' : Bool} (hB : BndM s chunk)
    (h : driveReq o fuel 3 sched s chunk del false = some (s', rem', del', d')) :
    RPathM o (absRM s chunk del) (absRM s' rem' del') d' ∧ BndM s' rem'
    ∧ (d' = true → s'.pending = [] ∧ s'.streamState = .processing) :=
  drive_rpathM (o := o) (fuel := fuel) (absRM s chunk del) sched s chunk del false s' rem' del' d' hB ⟨0, .nil _⟩
    (fun hh => by cases hh) h

/-- **out_slicing_irrelevant for EMIT_METADATA** (full strength, one request): two runs of the same
metadata request from call boundaries that agree abstractly (same core state — which may hold
buffered, not yet flushed input —, same bytes produced so far), under two arbitrary schedules and
fuels, each run complete (flag `true`: its last call returned in PROCESSING, the block is closed),
END IN THE SAME CONFIGURATION: equal core states, equal bytes produced (delivered ++ pending: the
flushed meta-block if input was buffered, the header, the payload), equal input left. -/
theorem out_slicing_irrelevant_md {o : Oracle} {fuel1 fuel2 : Nat} {sched1 sched2 : List SchedStep}
    {s1 s2 s1' s2' : St} {chunk del1 del2 rem1 rem2 del1' del2' : Bytes}
    (hB1 : BndM s1 chunk) (hB2 : BndM s2 chunk)
    (hcore : core s1 = core s2) (hout : del1 ++ s1.pending = del2 ++ s2.pending)
    (h1 : driveReq o fuel1 3 sched1 s1 chunk del1 false = some (s1', rem1, del1', true))
    (h2 : driveReq o fuel2 3 sched2 s2 chunk del2 false = some (s2', rem2, del2', true)) :
    core s1' = core s2' ∧ del1' ++ s1'.pending = del2' ++ s2'.pending ∧ rem1 = rem2 := by
  have ha : absRM s1 chunk del1 = absRM s2 chunk del2 := absRM_of_core chunk hcore hout
  obtain ⟨r1, _, e1⟩ := schedule_refines_abstract_md hB1 h1
  obtain ⟨r2, _, e2⟩ := schedule_refines_abstract_md hB2 h2
  rw [ha] at r1
  have := rpathM_done_eq r1 r2
  have n1 : s1'.streamState ≠ .metadataBody := by rw [(e1 rfl).2]; simp
  have n2 : s2'.streamState ≠ .metadataBody := by rw [(e2 rfl).2]; simp
  unfold absRM at this
  rw [absM_of_not_body n1, absM_of_not_body n2] at this
  simp only [absOf, Io.start, List.append_nil, Abs.mk.injEq] at this
  exact ⟨this.1, this.2.1, this.2.2.1⟩

/-- a sequence of requests of ALL FOUR kinds, each driven to completion under its own schedule -/
inductive DrivenAll (o : Oracle) : List (Nat × Bytes) → St → Bytes → St → Bytes → Prop
  | nil (s : St) (del : Bytes) : DrivenAll o [] s del s del
  | req {op fuel : Nat} {chunk : Bytes} {sched : List SchedStep} {rest : List (Nat × Bytes)}
      {s s1 s' : St} {del rem1 del1 del' : Bytes} {d1 : Bool} :
      op ≤ 2 → Bnd op s chunk →
      driveReq o fuel op sched s chunk del false = some (s1, rem1, del1, d1) →
      (d1 = true ∨ ustep o op (absR s1 rem1 del1) = none) →
      DrivenAll o rest s1 del1 s' del' → DrivenAll o ((op, chunk) :: rest) s del s' del'
  | md {fuel : Nat} {chunk : Bytes} {sched : List SchedStep} {rest : List (Nat × Bytes)}
      {s s1 s' : St} {del rem1 del1 del' : Bytes} :
      BndM s chunk →
      driveReq o fuel 3 sched s chunk del false = some (s1, rem1, del1, true) →
      DrivenAll o rest s1 del1 s' del' → DrivenAll o ((3, chunk) :: rest) s del s' del'

/-- **out_slicing_irrelevant** (full strength, request sequences with metadata): two complete drivings
of the same sequence of PROCESS / FLUSH / FINISH / EMIT_METADATA requests — different capacity
schedules, different `take_output` interleavings, different fuels — from abstractly equal starts
deliver the same bytes (delivered ++ still pending) and end in the same abstract state -/
theorem out_slicing_irrelevant_seq_md {o : Oracle} (reqs : List (Nat × Bytes)) :
    ∀ {s1 s2 s1' s2' : St} {del1 del2 del1' del2' : Bytes},
      DrivenAll o reqs s1 del1 s1' del1' → DrivenAll o reqs s2 del2 s2' del2' →
      core s1 = core s2 → del1 ++ s1.pending = del2 ++ s2.pending →
      core s1' = core s2' ∧ del1' ++ s1'.pending = del2' ++ s2'.pending := by
  induction reqs with
  | nil =>
    intro s1 s2 s1' s2' del1 del2 del1' del2' h1 h2 hc ho
    cases h1; cases h2
    exact ⟨hc, ho⟩
  | cons r rest ih =>
    intro s1 s2 s1' s2' del1 del2 del1' del2' h1 h2 hc ho
    cases h1 with
    | req hop1 hB1 hd1 hf1 hr1 =>
      cases h2 with
      | req hop2 hB2 hd2 hf2 hr2 =>
        obtain ⟨e1, e2, _⟩ := out_slicing_irrelevant hop1 hB1 hB2 hc ho hd1 hd2 hf1 hf2
        exact ih hr1 hr2 e1 e2
      | md hB2 hd2 hr2 => omega
    | md hB1 hd1 hr1 =>
      cases h2 with
      | req hop2 hB2 hd2 hf2 hr2 => omega
      | md hB2 hd2 hr2 =>
        obtain ⟨e1, e2, _⟩ := out_slicing_irrelevant_md hB1 hB2 hc ho hd1 hd2
        exact ih hr1 hr2 e1 e2

/-! ### non-vacuity -/

example : (fastEncode {} {} { bits := [true, false, true] } { site := 2, lo := 0, hi := 0, isLast := false, forceFlush := false } 0 true false false).2.out
    = (fastEncode {} {} { bits := [true, false, true] } { site := 2, lo := 0, hi := 0, isLast := false, forceFlush := false } 0 false false false).1.pending := by
  decide

/-- two concrete schedules of one FINISH request (ample room vs one byte at a time with
`take_output` in between) both run, complete, and — as the theorem says — agree -/
def exOracle : Oracle := fun _ _ => { result := true, emit := true, bits := List.replicate 20 true }
def exStart : St := (setParameter St.new 1 5).1
example : Bnd 2 exStart [1, 2, 3] := bnd_fresh (setParameter_fresh ⟨{}, rfl⟩ 1 5) (by decide)
def exCheck (r : Option (St × Bytes × Bytes × Bool)) : Bool :=
  match r with
  | some (s, rem, _, _) => isFinished s && rem.isEmpty
  | none => false
example : exCheck (driveReq exOracle 60 2 [.call 100] exStart [1, 2, 3] [] false) = true := by decide
example : exCheck (driveReq exOracle 60 2 [.call 1, .take 1, .call 1, .take 0, .call 1, .call 1, .take 0] exStart [1, 2, 3] [] false) = true := by decide

/-- a metadata request on a fresh encoder is at a call boundary -/
example : BndM exStart [7, 8, 9] := bndM_fresh (setParameter_fresh ⟨{}, rfl⟩ 1 5) (by decide)
/-- the flag a drive ends with -/
def exDone (r : Option (St × Bytes × Bytes × Bool)) : Bool :=
  match r with
  | some (s, rem, _, d) => d && rem.isEmpty && decide (s.streamState = .processing)
  | none => false
/-- everything a drive has produced (delivered ++ pending) -/
def exBytes (r : Option (St × Bytes × Bytes × Bool)) : Bytes :=
  match r with
  | some (s, _, del, _) => del ++ s.pending
  | none => []
/-- the state after PROCESS [1, 2, 3] (input buffered, nothing emitted yet) -/
def exBuffered : St :=
  match driveReq exOracle 60 0 [.call 100] exStart [1, 2, 3] [] false with
  | some (s, _, _, _) => s
  | none => exStart
example : exBuffered.inputPos = 3 ∧ exBuffered.lastFlushPos = 0 := by decide
/-- three schedules of one EMIT_METADATA request of 20 bytes behind buffered input (ample room; one
byte of room per call; no room at all and `take_output`, i.e. through the 16-byte `tiny_buf_`): all
run, complete, and — as the theorem says — produce the same bytes -/
def exPayload : Bytes := List.range 20
example : exDone (driveReq exOracle 80 3 [.call 100] exBuffered exPayload [] false) = true := by decide
def exSchedOne : List SchedStep := List.replicate 25 (.call 1)
def exSchedTiny : List SchedStep := (List.replicate 5 [SchedStep.call 0, .take 0]).flatten
def exSchedTiny3 : List SchedStep := (List.replicate 11 [SchedStep.call 0, .take 3]).flatten
example : exDone (driveReq exOracle 80 3 exSchedOne exBuffered exPayload [] false) = true := by decide
example : exDone (driveReq exOracle 80 3 exSchedTiny exBuffered exPayload [] false) = true := by decide
example : exDone (driveReq exOracle 80 3 exSchedTiny3 exBuffered exPayload [] false) = true := by decide
example : exBytes (driveReq exOracle 80 3 [.call 100] exBuffered exPayload [] false)
    = exBytes (driveReq exOracle 80 3 exSchedTiny3 exBuffered exPayload [] false) := by decide
example : exBytes (driveReq exOracle 80 3 [.call 100] exBuffered exPayload [] false)
    = [251, 255, 255, 214, 4] ++ exPayload := by decide

end BV.Props.C05
