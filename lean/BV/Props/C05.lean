import BV.Lemmas.StreamFrame
/-
C05 — Output bytes depend on input, settings and call points only, not on buffering.

Model: `BV/Model/Stream.lean` (see C20).  What the model can say about this property is the
output-buffer half: how the caller slices the output (capacities 0, 1, …, ample; push vs
`take_output`; the in-place vs staged path of the quality 0/1 loop) never reaches the payload
encoder and never changes the emitted bit stream.  Allocator independence, run-to-run
determinism and build-profile independence have no counterpart in a functional model (there is
no allocator and no profile in it); input-chunking independence at quality ≥ 2 concerns which
requests are issued and is exercised differentially.  Those parts are validated by the harness
(pairs of histories compared byte for byte) and labelled as such in the registration.

Full statement (not proved as one theorem): for a request driven to completion under any schedule
of output capacities and `take_output` calls, the concatenation of the delivered bytes and the
final state do not depend on the schedule.  Proved: every ingredient of the induction over
schedules — `out_slicing_irrelevant_partial`.
-/
namespace BV.Props.C05
open BV.Stream BV.Bits

/-- the payload encoder is asked with a `Req` that contains positions and flags only — no
caller cursor, no pending-output size: syntactically, by the type of `Req` -/
theorem requests_blind_to_output (s : St) (site : Nat) (il ff : Bool) :
    reqOf s site il ff = { site := site, lo := s.lastProcessedPos, hi := s.inputPos, lf := s.lastFlushPos,
                           isLast := il, forceFlush := ff } := rfl

/-- `encode_data` does not read the output side of the state: two states that differ only in
`nextOut`, `totalOut` and the size of `storage_` (both large enough not to panic) issue the same
request and get the same answer -/
theorem encode_request_blind (o : Oracle) (s : St) (site : Nat) (il ff : Bool) (nx : NextOut) (tot : Nat) :
    reqOf { s with nextOut := nx, totalOut := tot } site il ff = reqOf s site il ff := rfl

/-- pushing output in two portions is pushing it in one: capacity `a` then capacity `b` moves the
same bytes as capacity `a + b` (list algebra of `take`/`drop`) -/
theorem push_split (pending : Bytes) (a b : Nat) :
    pending.take a ++ (pending.drop a).take b = pending.take (a + b)
    ∧ (pending.drop a).drop b = pending.drop (a + b) := by
  refine ⟨?_, ?_⟩
  · rw [List.take_add]
  · rw [List.drop_drop]

/-- handing bytes to the caller (any capacity) leaves the emitted bit stream unchanged -/
theorem push_keeps_stream {d : Bytes} {s s' : St} {io io' : Io} {b : Bool}
    (hst : s.streamState ≠ .flushRequested) (h : injectFlushOrPushOutput s io = .ok (s', io', b)) :
    emitted (d ++ io'.out) s' = emitted (d ++ io.out) s := emitted_push hst h

/-- `take_output(size)` for any `size` leaves the emitted bit stream unchanged -/
theorem take_output_keeps_stream {d out : Bytes} {s s' : St} {size : Nat} (hI : Inv s)
    (h : takeOutput s size = .ok (s', out)) : emitted (d ++ out) s' = emitted d s := by
  obtain ⟨_, hp, _, _⟩ := takeOutput_spec hI h
  have hlb : s'.lastBytes = s.lastBytes ∧ s'.lastBytesBits = s.lastBytesBits := by
    unfold takeOutput at h
    split at h
    · simp at h
    · split at h
      · simp only [Out.ok.injEq, Prod.mk.injEq] at h
        obtain ⟨rfl, _⟩ := h
        obtain ⟨_, _, _, _, _, _, _, _, k9, k10, _⟩ := checkFlushComplete_frame (takeAdvance s (takeCount s size))
        exact ⟨k9, k10⟩
      · simp only [Out.ok.injEq, Prod.mk.injEq] at h
        obtain ⟨rfl, _⟩ := h
        exact ⟨rfl, rfl⟩
  unfold emitted St.carry
  rw [hlb.1, hlb.2, hp, List.append_assoc]

/-- **in-place = staged** (quality 0/1): writing a block straight into the caller's buffer and
staging it in `storage_` produce the same bytes, the same carry and the same stream state; the
two results differ only in where the bytes are (caller's buffer vs pending) -/
theorem inplace_eq_staged (s : St) (io : Io) (ans : Ans) (req : Req) (bs : Nat) (il ff : Bool)
    (hp : s.pending = []) :
    (fastEncode s io ans req bs true il ff).2.out ++ (fastEncode s io ans req bs true il ff).1.pending
      = (fastEncode s io ans req bs false il ff).2.out ++ (fastEncode s io ans req bs false il ff).1.pending
    ∧ (fastEncode s io ans req bs true il ff).1.lastBytes = (fastEncode s io ans req bs false il ff).1.lastBytes
    ∧ (fastEncode s io ans req bs true il ff).1.lastBytesBits = (fastEncode s io ans req bs false il ff).1.lastBytesBits
    ∧ (fastEncode s io ans req bs true il ff).1.streamState = (fastEncode s io ans req bs false il ff).1.streamState
    ∧ (fastEncode s io ans req bs true il ff).2.availIn = (fastEncode s io ans req bs false il ff).2.availIn
    ∧ (fastEncode s io ans req bs true il ff).2.input = (fastEncode s io ans req bs false il ff).2.input
    ∧ (fastEncode s io ans req bs true il ff).2.reqs = (fastEncode s io ans req bs false il ff).2.reqs := by
  unfold fastEncode
  simp [hp]

/-- hence the emitted bit stream after a quality 0/1 block is the same on both paths -/
theorem inplace_eq_staged_stream (d : Bytes) (s : St) (io : Io) (ans : Ans) (req : Req) (bs : Nat) (il ff : Bool)
    (hp : s.pending = []) :
    emitted (d ++ (fastEncode s io ans req bs true il ff).2.out) (fastEncode s io ans req bs true il ff).1
      = emitted (d ++ (fastEncode s io ans req bs false il ff).2.out) (fastEncode s io ans req bs false il ff).1 := by
  obtain ⟨h1, h2, h3, _⟩ := inplace_eq_staged s io ans req bs il ff hp
  unfold emitted St.carry
  rw [h2, h3, List.append_assoc, h1, List.append_assoc]

/-- what a quality 0/1 block appends to the emitted stream: the payload encoder's bits behind the
carry — on either path -/
theorem fast_block_appends (d : Bytes) (s : St) (io : Io) (ans : Ans) (req : Req) (bs : Nat) (ip il ff : Bool)
    (hp : s.pending = []) :
    emitted (d ++ (fastEncode s io ans req bs ip il ff).2.out) (fastEncode s io ans req bs ip il ff).1
      = emitted (d ++ io.out) s ++ ans.bits := by
  have key : emitted (d ++ (fastEncode s io ans req bs false il ff).2.out) (fastEncode s io ans req bs false il ff).1
      = emitted (d ++ io.out) s ++ ans.bits := by
    unfold fastEncode emitted St.carry
    simp only [Bool.false_eq_true, ↓reduceIte, hp, List.append_nil]
    rw [bytesBits_append, List.append_assoc, pack_unpack, List.append_assoc]
  cases ip
  · exact key
  · rw [inplace_eq_staged_stream d s io ans req bs il ff hp]; exact key

/-- **out_slicing_irrelevant_partial**: summary of the ingredients above as one statement about the
three ways bytes reach the caller: (1) a push with any capacity, (2) `take_output` with any size,
(3) the in-place write — none changes the emitted bit stream `bits(delivered ++ pending) ++ carry`
beyond what the step's own appended bits are; in particular pushes and takes change nothing.
What is missing for the full theorem is the induction over arbitrary schedules of calls (the loop
may stop earlier with less room and resume in the next call); the harness compares such runs
byte for byte (`stream c05`: caps 1 / 0+take / random, against ample). -/
theorem out_slicing_irrelevant_partial {d : Bytes} {s s' : St} {io io' : Io} {b : Bool}
    (hst : s.streamState ≠ .flushRequested) (h : injectFlushOrPushOutput s io = .ok (s', io', b)) :
    emitted (d ++ io'.out) s' = emitted (d ++ io.out) s
    ∧ s'.lastFlushPos = s.lastFlushPos ∧ s'.lastProcessedPos = s.lastProcessedPos ∧ s'.inputPos = s.inputPos
    ∧ s'.streamState = s.streamState ∧ s'.params = s.params ∧ io'.availIn = io.availIn ∧ io'.reqs = io.reqs := by
  obtain ⟨f, a1, a2, _, _, _, _, _, a9, a10⟩ := push_frame h
  rw [St.frame_eq_iff] at f
  exact ⟨emitted_push hst h, a1, a2, f.2.1, f.2.2.2.1, f.1, a9, a10⟩

/-! ### non-vacuity -/

example : (fastEncode {} {} { bits := [true, false, true] } { site := 2, lo := 0, hi := 0, isLast := false, forceFlush := false } 0 true false false).2.out
    = (fastEncode {} {} { bits := [true, false, true] } { site := 2, lo := 0, hi := 0, isLast := false, forceFlush := false } 0 false false false).1.pending := by
  decide

end BV.Props.C05
