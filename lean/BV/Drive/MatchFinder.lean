import BV.Model.MatchFinder
import BV.Model.Cbr
import BV.Drive.Hasher
/-!
Line protocol of `hasher flm` (FindLongestMatch; supports C01):

  `hasher flm <kind> <mask|max> <data> <pre-op>… F <cur_ix> <max_length> <max_backward> <max_distance>
       <cache: 16 comma separated i32> <in_len> <in_score> <dict|-> <num_last_distances> <literal_byte_score>`

pre-ops: as in `hasher` (`S:`, `R:`, `B:`) plus `P:b:<index>:<value>` / `P:n:<index>:<value>` (poke a table entry);
dict = `<lookups>:<matches>:` followed by `-` (no dictionary) or `<item>.<sizebits>.<wordhex>+…` (the looked-up slots).
answer: `<0|1> <len> <len_x_code> <distance> <score> <num_digest> <buckets_digest> <lookups> <matches>` | `panic`
-/
namespace BV.Drive.MatchFinder
open BV.Drive BV.Hasher BV.MatchFinder BV.Drive.Hasher

def intArg (s : String) : Int :=
  if s.startsWith "-" then -((natArg (s.drop 1).toString : Nat) : Int) else (natArg s : Int)

def poke (a : Tab) (i v : Nat) : Tab := if h : i < a.size then a.set i v h else a

def parseDict (s : String) : Option (List DictItem) × Common :=
  match s.splitOn ":" with
  | [l, m, items] =>
    if items = "-" then (none, ⟨natArg l, natArg m⟩) else
    let its := if items = "" then [] else (items.splitOn "+").filterMap fun t =>
      match t.splitOn "." with
      | [it, bits, w] => some ⟨natArg it, natArg bits, hexToBytes w⟩
      | _ => none
    (some its, ⟨natArg l, natArg m⟩)
  | _ => (none, ⟨0, 0⟩)

/-- pre-ops; `none` = panic, `some none` = bad op -/
def runPre (k : Kind) (data : ByteArray) (mask : Nat) : List String → AdvSt → Option (Option AdvSt)
  | [], st => some (some st)
  | op :: rest, st =>
    match op.splitOn ":" with
    | ["P", "b", i, v] => runPre k data mask rest ⟨st.num, poke st.buckets (natArg i) (natArg v)⟩
    | ["P", "n", i, v] => runPre k data mask rest ⟨poke st.num (natArg i) (natArg v), st.buckets⟩
    | _ =>
      match applyOp k data mask op st true with
      | none => some none
      | some none => none
      | some (some (st, _)) => runPre k data mask rest st

def showRes (r : Option (Bool × SR × AdvSt × Common)) : String :=
  match r with
  | none => "panic"
  | some (found, out, st, c) =>
    let (dn, _) := digestTab st.num
    let (db, _) := digestTab st.buckets
    s!"{if found then 1 else 0} {out.len} {out.lenXCode} {out.distance} {out.score} {dn} {db} {c.lookups} {c.hits}"

def useDictOf (kindTok : String) : Bool :=
  match kindTok.splitOn ":" with
  | ["basic", "16", "1", _, _] => true
  | ["basic", "17", "4", _, _] => true
  | _ => false

def handle : List String → String
  | kindTok :: mask :: data :: rest =>
    match parseKind kindTok with
    | none => "bad-op"
    | some (k, st) =>
      let mask := if mask = "max" then USIZE_MAX else natArg mask
      let data := parseData data
      let pre := rest.takeWhile (· ≠ "F")
      match rest.dropWhile (· ≠ "F") with
      | _ :: cur :: ml :: mb :: md :: cache :: inLen :: inScore :: dict :: numLast :: lbs :: _ =>
        match runPre k data mask pre st with
        | none => "panic"
        | some none => "bad-op"
        | some (some st) =>
          let cache : List Int := (cache.splitOn ",").map intArg
          let (dq, c) := parseDict dict
          let out : SR := ⟨natArg inLen, 0, 0, natArg inScore⟩
          let (cur, ml, mb, md, lbs) := (natArg cur, natArg ml, natArg mb, natArg md, natArg lbs)
          match k with
          | .basic P =>
            match Basic.findLongestMatch P (useDictOf kindTok) lbs dq data mask cache cur ml mb md out st.buckets c with
            | none => "panic"
            | some (f, o, b, c) => showRes (some (f, o, ⟨st.num, b⟩, c))
          | .adv P => showRes (Adv.findLongestMatch P (natArg numLast) lbs dq data mask cache cur ml mb md out st c)
          | .h9 P => showRes (H9.findLongestMatch P lbs dq data mask cache cur ml mb md out st c)
      | _ => "bad-op"
  | _ => "bad-op"

/-! `hasher cbr` lines (CreateBackwardReferences):

  `hasher cbr <kind> <mask> <data> <pre-ops…> C <quality> <lgwin> <max_distance> <np> <nd> <position> <num_bytes>
       <cache,16> <last_insert_len> <num_literals> <lookups:hits:use_dict> <num_last> <lbs> [D<cm>=slots]…`
answer: `<n_cmds> <cmd_digest> <cache,16> <last_insert_len> <num_literals> <num_digest> <buckets_digest> <lookups> <hits>` | `panic` -/

open BV.Cbr in
def showCbr {H : Type} (r : Option (BV.Cbr.Result H)) (tabs : H → AdvSt × Common) : String :=
  match r with
  | none => "panic"
  | some res =>
    let d := res.cmds.foldl (fun h (c : BV.Recoder.Cmd) =>
      fnvStep (fnvStep (fnvStep (fnvStep (fnvStep h c.insertLen) c.copyLenField) c.distExtra) c.cmdPrefix) c.distPrefix) fnvInit
    let (st, c) := tabs res.h
    let (dn, _) := digestTab st.num
    let (db, _) := digestTab st.buckets
    let cache := ",".intercalate (res.cache.map toString)
    s!"{res.cmds.length} {d} {cache} {res.lastInsertLen} {res.numLiterals} {dn} {db} {c.lookups} {c.hits}"

def parseSlots (toks : List String) : List (Nat × List DictItem) :=
  toks.filterMap fun t =>
    if t.startsWith "D" then
      match (t.drop 1).toString.splitOn "=" with
      | [cm, items] =>
        some (natArg cm, (items.splitOn "+").filterMap fun it =>
          match it.splitOn "." with
          | [i, b, w] => some ⟨natArg i, natArg b, hexToBytes w⟩
          | _ => none)
      | _ => none
    else none

def handleCbr : List String → String
  | kindTok :: mask :: data :: rest =>
    match parseKind kindTok with
    | none => "bad-op"
    | some (k, st) =>
      let mask := if mask = "max" then USIZE_MAX else natArg mask
      let data := parseData data
      let pre := rest.takeWhile (· ≠ "C")
      match rest.dropWhile (· ≠ "C") with
      | _ :: q :: lgwin :: md :: np :: nd :: pos :: nb :: cache :: lil :: nlit :: dict :: numLast :: lbs :: slots =>
        match runPre k data mask pre st with
        | none => "panic"
        | some none => "bad-op"
        | some (some st) =>
          let cache : List Int := (cache.splitOn ",").map intArg
          let (useDict, c) : Bool × Common := match dict.splitOn ":" with
            | [l, m, u] => (u = "1", ⟨natArg l, natArg m⟩)
            | _ => (false, ⟨0, 0⟩)
          let table := parseSlots slots
          let p : BV.Cbr.Params := ⟨natArg q, natArg lgwin, natArg md, natArg np, natArg nd⟩
          let lbs := natArg lbs
          let dictFn (shallow : Bool) : ByteArray → Nat → Option (List DictItem) := fun _ cm =>
            if useDict then
              match table.find? (·.1 == cm) with
              | some (_, its) => some its
              | none => some (List.replicate (if shallow then 1 else 2) ⟨0, 0, []⟩)
            else none
          match k with
          | .basic P =>
            showCbr (BV.Cbr.createBackwardReferences (BV.Cbr.basicOps P (useDictOf kindTok) lbs (dictFn true) data mask) p
              (natArg nb) (natArg pos) (st.buckets, c) cache (natArg lil) (natArg nlit)) (fun (b, c) => (⟨st.num, b⟩, c))
          | .adv P =>
            showCbr (BV.Cbr.createBackwardReferences (BV.Cbr.advOps P (natArg numLast) lbs (dictFn false) data mask) p
              (natArg nb) (natArg pos) (st, c) cache (natArg lil) (natArg nlit)) id
          | .h9 P =>
            showCbr (BV.Cbr.createBackwardReferences (BV.Cbr.h9Ops P lbs (dictFn false) data mask) p
              (natArg nb) (natArg pos) (st, c) cache (natArg lil) (natArg nlit)) id
      | _ => "bad-op"
  | _ => "bad-op"

end BV.Drive.MatchFinder
