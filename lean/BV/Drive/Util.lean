/- Shared helpers of the line-protocol driver (no imports beyond core). -/
namespace BV.Drive

/-- value-wise FNV-1a style fold over 64-bit words -/
@[inline] def fnvStep (h : UInt64) (v : Nat) : UInt64 :=
  (h ^^^ v.toUInt64) * 0x100000001b3

def fnvInit : UInt64 := 0xcbf29ce484222325

def natArg (s : String) : Nat := s.toNat?.getD 0

def hexDigit (c : Char) : Nat :=
  if '0' ≤ c ∧ c ≤ '9' then c.toNat - '0'.toNat
  else if 'a' ≤ c ∧ c ≤ 'f' then c.toNat - 'a'.toNat + 10
  else if 'A' ≤ c ∧ c ≤ 'F' then c.toNat - 'A'.toNat + 10
  else 0

/-- "0a1b" → [10, 27]; "-" → [] -/
def hexToBytes (s : String) : List Nat :=
  let rec go : List Char → List Nat → List Nat
    | a :: b :: rest, acc => go rest ((hexDigit a * 16 + hexDigit b) :: acc)
    | _, acc => acc.reverse
  if s = "-" then [] else go s.toList []

def hexChar (n : Nat) : Char :=
  if n < 10 then Char.ofNat ('0'.toNat + n) else Char.ofNat ('a'.toNat + n - 10)

def bytesToHex (bs : List Nat) : String :=
  if bs.isEmpty then "-" else
  String.ofList (bs.foldr (fun b acc => hexChar (b / 16 % 16) :: hexChar (b % 16) :: acc) [])

/-- fold `f` over `[lo, hi)` -/
@[specialize] def foldRange (lo hi : Nat) (init : α) (f : α → Nat → α) : α := Id.run do
  let mut acc := init
  for i in [lo:hi] do
    acc := f acc i
  return acc

end BV.Drive
