import BV.Model.Concat
import BV.Drive.Util
/-
Line protocol of the `concat` engine (the leading token `concat` is stripped by
`Drive.lean`):

  pw <hex>                 parse_window_size      → `ok <window> <bits>` | `err` | `panic`
  vo <hex>                 detect_varlen_offset   → `ok <offset>` | `err` | `panic`
  <w> <call> <call> …      w = 0: `BroCatli::new()`, else `new_with_window_size(w)`
                           (a panicking constructor answers the single token `panic`)
      N                    new_brotli_file                                   → `-`
      S:<hex>:<cap>        stream(in = hex bytes, in_offset = 0,
                                  out = <cap> free bytes, out_offset = 0)    → `<result>:<consumed>:<hexproduced>`
      F:<cap>              finish(out = <cap> free bytes, out_offset = 0)    → `<result>:0:<hexproduced>`
      Z                    serialize into a zeroed 120-byte buffer, then
                           deserialize, replacing the state                  → `-`
  one answer token per call; a model panic prints `panic` for that call and ends
  the line; a malformed call token prints `bad-op` and ends the line.
-/
namespace BV.Drive.Concat
open BV.Drive BV.Concat

def retToken (r : Ret) : String :=
  s!"{r.code}:{r.consumed}:{bytesToHex r.produced}"

/-- run the calls, accumulating answer tokens (in reverse) -/
def runCalls : State → List String → List String → List String
  | _, [], acc => acc
  | s, tok :: rest, acc =>
    match tok.splitOn ":" with
    | ["N"] => runCalls (newBrotliFile s) rest ("-" :: acc)
    | ["Z"] =>
      match saveRestore s with
      | .panic _ => "panic" :: acc
      | .ok s' => runCalls s' rest ("-" :: acc)
    | ["S", hex, cap] =>
      match stream s (hexToBytes hex) (natArg cap) with
      | .panic _ => "panic" :: acc
      | .ok r => runCalls r.st rest (retToken r :: acc)
    | ["F", cap] =>
      match finish s (natArg cap) with
      | .panic _ => "panic" :: acc
      | .ok r => runCalls r.st rest (retToken r :: acc)
    | _ => "bad-op" :: acc

def handle (args : List String) : String :=
  match args with
  | ["pw", hex] =>
    match parseWindowSize (hexToBytes hex) with
    | .panic _ => "panic"
    | .ok none => "err"
    | .ok (some (w, bits)) => s!"ok {w} {bits}"
  | ["vo", hex] =>
    match detectVarlenOffset (hexToBytes hex) with
    | .panic _ => "panic"
    | .ok none => "err"
    | .ok (some off) => s!"ok {off}"
  | w :: calls =>
    if w.toNat?.isNone then "bad-op" else
    let init := if natArg w = 0 then Outcome.ok State.new else State.newWithWindowSize (natArg w)
    match init with
    | .panic _ => "panic"
    | .ok s => " ".intercalate (runCalls s calls []).reverse
  | _ => "bad-op"

end BV.Drive.Concat
