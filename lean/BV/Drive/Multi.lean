import BV.Model.Multi
import BV.Drive.Util
/-
Line protocol of the `multi` engine (the leading token `multi` is stripped by `Drive.lean`):

  range <i> <t> <n>            get_range (debug build: overflow panics)   → `ok <lo> <hi>` | `panic`
  rangew <i> <t> <n>           get_range (release build: wrapping)        → `ok <lo> <hi>` | `panic`
  max <n>                      BrotliEncoderMaxCompressedSize             → `<size>`
  maxmulti <n> <t>             BrotliEncoderMaxCompressedSizeMulti        → `<size>`
  dict <size> <lgwin> <q>      set_custom_dictionary…: used? dropped kept → `<0|1> <dropped> <kept>`
  part <i> <t> <n> <call>…     compress_part with recorded compress_stream answers
        call = `<result 0|1>:<is_finished 0|1>:<consumed>:<hexproduced>` | `P` (the call panicked)
                               → `ok:<hex>` | `err` | `panic` | `spin`
  run <sp> <t> <cap> <job>…    CompressMulti, sp = threads | pool | inline, one job token per index
        job = `ok:<hex>` | `err` | `panic` | `spin`
                               → `<class>:<returned 0|1>:<hex of output[..n] when Ok, else ->`
                                 class = ok | insufficient | caterr<code> | finerr<code> | threadexec | otherpanic
                               | `panic` | `hang`
  runv0 <sp> <t> <cap> <job>…     the same through `compressMultiV0` (the code before e1db7f0 / 19df515)
-/
namespace BV.Drive.Multi
open BV.Drive BV.Multi

def rangeTok : Res (Nat × Nat) → String
  | .ok (lo, hi) => s!"ok {lo} {hi}"
  | _ => "panic"

def parseCall (tok : String) : Option EncAns :=
  match tok.splitOn ":" with
  | ["P"] => some .panic
  | [r, f, c, hex] => some (.ans ⟨r = "1", f = "1", natArg c, hexToBytes hex⟩)
  | _ => none

def parseJob (tok : String) : Option JobRes :=
  match tok.splitOn ":" with
  | ["ok", hex] => some (.ok (hexToBytes hex))
  | ["err"] => some .err
  | ["panic"] => some .panic
  | ["spin"] => some .spin
  | _ => none

def jobTok : JobRes → String
  | .ok b => s!"ok:{bytesToHex b}"
  | .err => "err"
  | .panic => "panic"
  | .spin => "spin"

def parseSpawner : String → Option Spawner
  | "threads" => some .threads
  | "pool" => some .pool
  | "inline" => some .inline
  | _ => none

def errTok : TErr → String
  | .insufficient => "insufficient"
  | .notFull => "notfull"
  | .concat c => s!"caterr{c}"
  | .finalization c => s!"finerr{c}"
  | .otherPanic => "otherpanic"
  | .threadExec => "threadexec"

def retTok : Res MultiRet → String
  | .panic _ => "panic"
  | .hang => "hang"
  | .ok r =>
    let ret := if r.returned then "1" else "0"
    match r.result with
    | .ok k => s!"ok:{ret}:{bytesToHex (r.out.take k)}"
    | .error e => s!"{errTok e}:{ret}:-"

def allSome {α : Type} : List (Option α) → Option (List α)
  | [] => some []
  | none :: _ => none
  | some a :: r => (allSome r).map (a :: ·)

def handle (args : List String) : String :=
  match args with
  | ["range", i, t, n] => rangeTok (getRange (natArg i) (natArg t) (natArg n))
  | ["rangew", i, t, n] => rangeTok (getRangeWrap (natArg i) (natArg t) (natArg n))
  | ["max", n] => toString (maxCompressedSize (natArg n))
  | ["maxmulti", n, t] => toString (maxCompressedSizeMulti (natArg n) (natArg t))
  | ["dict", size, lgwin, q] =>
    let p := dictPlan (natArg size) (natArg lgwin) (natArg q)
    s!"{if p.used then 1 else 0} {p.dropped} {p.kept}"
  | "part" :: i :: t :: n :: calls =>
    match allSome (calls.map parseCall) with
    | none => "bad-op"
    | some cs => jobTok (compressPart (natArg i) (natArg t) (natArg n) cs)
  | "run" :: sp :: t :: cap :: jobs =>
    match parseSpawner sp, allSome (jobs.map parseJob) with
    | some sp, some js =>
      if js.length ≠ natArg t then "bad-op" else
      retTok (compressMulti sp (natArg t) (fun i => js.getD i .panic) (natArg cap))
    | _, _ => "bad-op"
  | "runv0" :: sp :: t :: cap :: jobs =>
    match parseSpawner sp, allSome (jobs.map parseJob) with
    | some sp, some js =>
      if js.length ≠ natArg t then "bad-op" else
      retTok (compressMultiV0 sp (natArg t) (fun i => js.getD i .panic) (natArg cap))
    | _, _ => "bad-op"
  | _ => "bad-op"

end BV.Drive.Multi
