/-
Driver of engine `greedy` (harness/src/greedy.rs): the greedy meta-block builder `BrotliBuildMetaBlockGreedy`.

  greedy build <mode> <num_contexts> <static_context_map csv|-> <prev_byte> <prev_byte2> <mask> <pos> <ringhex> <cmds> <exc>
      → `ok <lit> <cmd> <dist> cmap=<size>:<digest> lh=<size>:<digest> ch=<size>:<digest> dh=<size>:<digest> opt=<lit>:<cmd>:<dist>` | `panic`
      (`opt` = the three histogram digests behind `BrotliOptimizeHistograms(64, mb)`, model `optimizeHistograms`, or `opt=panic`)
      the model `buildGreedy` with the oracle instantiated by `Float32` (`floatX = f32`): `BitsEntropy` recomputed here
      (`shannon_entropy` with `FastLog2u16` = the 65536-entry table `logs_16`, `FastLog2` = `logs_8` below 256 and
      `log2f` above), `+`, `-`, `<`, `>` of `Float32`.  split = num_types/num_blocks/types/lengths; digests are FNV
      folds over the context map resp. over all `data_` entries of the first `size` histograms.
  greedy log2 <exc>
      → `<digest of logs_16[0..65536)> <digest of FastLog2(256..2^20)>`
  exc = v:hexbits,… | - : the entries of `logs_16` / `logs_8` that differ from `(v as f64).log2() as f32` (the harness compares
      the whole tables of the crate with that recomputation on every run and transmits the differences; at the time
      of writing: `39407:41744235`).
  cmds = ins:copyfield:extra:cmdprefix:distprefix;… | -
-/
import BV.Model.Greedy
import BV.Drive.MetaBlock

namespace BV.Drive.Greedy
open BV.Drive BV.Bits BV.Recoder BV.MetaBlock BV.Greedy BV.Drive.MetaBlock

def parseExc (s : String) : List (Nat × UInt32) :=
  if s = "-" then [] else
  (s.splitOn ",").filterMap fun t =>
    match t.splitOn ":" with
    | [v, h] => some (natArg v, (h.toList.foldl (fun a c => a * 16 + hexDigit c) 0).toUInt32)
    | _ => none

def f32OfNat (n : Nat) : Float32 := n.toUInt64.toFloat32

/-- `logs_16[v]` / `logs_8[v]`: `(v as f64).log2() as f32` with `log2(0) = 0`, except the transmitted entries -/
def logTab (exc : List (Nat × UInt32)) (v : Nat) : Float32 :=
  match exc.find? (·.1 == v) with
  | some (_, b) => Float32.ofBits b
  | none => if v == 0 then 0.0 else (Float.log2 v.toUInt64.toFloat).toFloat32

/-- `FastLog2(v)` (feature `std`): `logs_8[v]` below 256, else `(v as f32).log2()` -/
def fastLog2 (exc : List (Nat × UInt32)) (v : Nat) : Float32 :=
  if v < 256 then logTab exc v else Float32.log2 (f32OfNat v)

/-- `BitsEntropy(population, size)` = `shannon_entropy` clamped from below by the total count.
(`shannon_entropy` takes `population[0]` first when `size` is odd and then `size − 1` entries: the first `size`
entries in order either way.) -/
def bitsEntropy32 (exc : List (Nat × UInt32)) (population : List Nat) (size : Nat) : Float32 :=
  let (retval, sum) := (population.take size).foldl
    (fun (rs : Float32 × Nat) p => (rs.1 - f32OfNat p * logTab exc (p % 65536), (rs.2 + p) % two64)) (0.0, 0)
  let retval := if sum != 0 then retval + f32OfNat sum * fastLog2 exc sum else retval
  if retval < f32OfNat sum then f32OfNat sum else retval

def f32Ops (exc : List (Nat × UInt32)) : FOps Float32 where
  bitsEntropy := bitsEntropy32 exc
  zero := 0.0
  add := (· + ·)
  sub := (· - ·)
  gt := fun a b => a > b
  lt := fun a b => a < b
  c20 := 20.0
  thrLit := 400.0
  thrCmd := 500.0
  thrDist := 100.0

def showSplit (s : BSplit) : String :=
  s!"{s.numTypes}/{s.numBlocks}/{showNats s.types}/{showNats s.lengths}"

def digestNats (l : List Nat) : UInt64 := l.foldl fnvStep fnvInit

def digestHistos (hs : List (List Nat)) (size : Nat) : UInt64 :=
  (hs.take size).foldl (fun d h => h.foldl fnvStep d) fnvInit

def handle : List String → String
  | ["build", mode, nctx, scm, prev, prev2, mask, pos, ring, cmds, exc] =>
    match parseCmds cmds with
    | none => "bad-op"
    | some cs =>
      match buildGreedy (f32Ops (parseExc exc)) (hexToBytes ring) (natArg pos) (natArg mask) (natArg prev) (natArg prev2)
          (natArg mode) (natArg nctx) (listArg scm) cs with
      | .ok mb =>
        s!"ok {showSplit mb.lit} {showSplit mb.cmd} {showSplit mb.dist} cmap={mb.litCmapSize}:{digestNats mb.litCmap} " ++
        s!"lh={mb.litHistosSize}:{digestHistos mb.litHistos mb.litHistosSize} " ++
        s!"ch={mb.cmdHistosSize}:{digestHistos mb.cmdHistos mb.cmdHistosSize} " ++
        s!"dh={mb.distHistosSize}:{digestHistos mb.distHistos mb.distHistosSize} " ++
        (match optimizeHistograms 64 mb with
         | .ok o => s!"opt={digestHistos o.litHistos o.litHistosSize}:{digestHistos o.cmdHistos o.cmdHistosSize}:{digestHistos o.distHistos o.distHistosSize}"
         | _ => "opt=panic")
      | .panic => "panic"
      | .fuel => "fuel"
  | ["log2", exc] =>
    let e := parseExc exc
    let a := foldRange 0 65536 fnvInit (fun d v => fnvStep d (logTab e v).toBits.toNat)
    let b := foldRange 256 (1 <<< 20) fnvInit (fun d v => fnvStep d (fastLog2 e v).toBits.toNat)
    s!"{a} {b}"
  | _ => "bad-op"

end BV.Drive.Greedy
