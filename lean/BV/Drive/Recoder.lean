import BV.Model.Recoder
import BV.Drive.Util
/-! Line protocol of engine `recoder` (see `/verif/harness/src/recoder.rs`):

    recoder tables
    recoder pcq <variant> <lgwin> <npostfix> <ndirect> <hedq> <nbe> <dc0,dc1,dc2,dc3> <mask> <pos> <len> <ringhex>
                <cmds ins:copyfield:extra:cmdprefix:distprefix;…|-> <btl> <btc> <btd> <words len:offset:hex|!,…|->
    bt = <num_types>/<types,|->/<lengths,|->
    recoder lmb <lgwin> <npostfix> <ndirect> <hedq> <ctx> <nbe> <dc> <input0hex> <input1hex> <cmds> <btl> <btc> <btd> <words>
      (inputs of `LogMetaBlock` dumped by the cfg(brotli_verif) hook `verif_recoder_hook` in the real encoder)
    answer: `ok <nbe'> <ir tokens…>` | `panic`
    recoder stride <n> <withLits>   StrideEval bookkeeping after n literal block switches: `ok <num_types>` | `panic`
-/
namespace BV.Drive.Recoder
open BV.Drive BV.Recoder

def intArg (s : String) : Int := s.toInt?.getD 0

def listArg (s : String) : List String := if s = "-" then [] else s.splitOn ","

def parseSplit (s : String) : Option Split :=
  match s.splitOn "/" with
  | [nt, ts, ls] => some ⟨natArg nt, (listArg ts).map natArg, (listArg ls).map natArg⟩
  | _ => none

def parseCmd (s : String) : Option Cmd :=
  match s.splitOn ":" with
  | [a, b, c, d, e] => some ⟨natArg a, natArg b, natArg c, natArg d, natArg e⟩
  | _ => none

def parseCmds (s : String) : Option (List Cmd) :=
  if s = "-" then some [] else (s.splitOn ";").mapM parseCmd

/-- recorded answers of `TransformDictionaryWord`: (copy_len, dictionary_offset, some bytes | none = panic) -/
def parseWords (s : String) : List (Nat × Nat × Option Bytes) :=
  (listArg s).filterMap fun t =>
    match t.splitOn ":" with
    | [l, o, h] => some (natArg l, natArg o, if h = "!" then none else some (hexToBytes h))
    | _ => none

def lookupWord (ws : List (Nat × Nat × Option Bytes)) (l o : Nat) : Option Bytes :=
  match ws.find? (fun x => x.1 == l && x.2.1 == o) with
  | some (_, _, r) => r
  | none => none      -- not recorded: treated like a panic (the harness attaches every computable word)

def irToken : IR → String
  | .lit off len he => s!"L{off},{len},{if he then 1 else 0}"
  | .copy d n => s!"C{d},{n}"
  | .dict ws tr fs id => s!"D{ws},{tr},{fs},{id}"
  | .bsl t => s!"l{t}"
  | .bsc t => s!"c{t}"
  | .bsd t => s!"d{t}"

def variantOf : String → Option Variant
  | "fast" => some .fast | "trivial" => some .trivial | "full" => some .full | "unc" => some .unc | _ => none

def joinNats (l : List Nat) : String := ",".intercalate (l.map toString)

def handle (args : List String) : String :=
  match args with
  | ["tables"] => s!"bits={joinNats dictSizeBits} offsets={joinNats dictOffsets} dictlen={dictLen}"
  | ["pcq", v, lgwin, np, nd, hedq, nbe, dc, mask, pos, len, ring, cmds, btl, btc, btd, words] =>
    match variantOf v, parseCmds cmds, parseSplit btl, parseSplit btc, parseSplit btd with
    | some v, some cmds, some btl, some btc, some btd =>
      let ws := parseWords words
      let e : Env := { dp := ⟨natArg np, natArg nd⟩, lgwin := natArg lgwin, hedq := natArg hedq, ctxSome := true,
                       btl := btl, btc := btc, btd := btd, expand := lookupWord ws }
      match entry v e (hexToBytes ring) (natArg pos) (natArg len) (natArg mask) cmds ((dc.splitOn ",").map intArg) (natArg nbe) with
      | none => "panic"
      | some (ir, nbe') => " ".intercalate (s!"ok {nbe'}" :: ir.map irToken)
    | _, _, _, _, _ => "bad-op"
  | ["lmb", lgwin, np, nd, hedq, ctx, nbe, dc, in0, in1, cmds, btl, btc, btd, words] =>
    match parseCmds cmds, parseSplit btl, parseSplit btc, parseSplit btd with
    | some cmds, some btl, some btc, some btd =>
      let ws := parseWords words
      let e : Env := { dp := ⟨natArg np, natArg nd⟩, lgwin := natArg lgwin, hedq := natArg hedq, ctxSome := natArg ctx != 0,
                       btl := btl, btc := btc, btd := btd, expand := lookupWord ws }
      match logMetaBlock e (hexToBytes in0) (hexToBytes in1) cmds ((dc.splitOn ",").map intArg) (natArg nbe) with
      | none => "panic"
      | some (ir, nbe') => " ".intercalate (s!"ok {nbe'}" :: ir.map irToken)
    | _, _, _, _ => "bad-op"
  | ["stride", n, withLits] =>
    -- n literal block switches (the first is the one `process_command_queue` pushes itself), each optionally followed by a literal
    let ir : List IR := (List.range (natArg n)).flatMap fun k =>
      if natArg withLits != 0 then [IR.bsl (k % 4), IR.lit 0 3 false] else [IR.bsl (k % 4)]
    match stridePass ir with
    | none => "panic"
    | some k => s!"ok {k}"
  | _ => "bad-op"

end BV.Drive.Recoder
