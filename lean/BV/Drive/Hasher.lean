import BV.Model.Hasher
import BV.Drive.Util
/-!
Line protocol of engine `hasher` (property C19):

  `hasher <kind> <mask|max> <data> <op>...`     tables start zeroed

  kind = `basic:<bucket_bits>:<sweep>:<hash_bytes>:<table_len>` | `adv32:<bucket_bits>:<block_bits>`
       | `adv64:<bucket_bits>:<block_bits>:<hash_len>` | `h9`
  data = hex bytes | `rep:<hexpattern>:<len>`
  op   = `S:<s>:<e>` (Store one by one) | `R:<s>:<e>` (StoreRange) | `B:<s>:<e>` (BulkStoreRange) | `C` (clone)

answer: `ok <num_digest> <buckets_digest> <nonzero_num> <nonzero_buckets> <clone_eq>` | `panic`
-/
namespace BV.Drive.Hasher
open BV.Drive BV.Hasher

def parseData (s : String) : ByteArray :=
  if s.startsWith "rep:" then
    match (s.drop 4).toString.splitOn ":" with
    | [p, n] =>
      let pat := (hexToBytes p).toArray
      let n := natArg n
      if pat.isEmpty then ByteArray.empty
      else ByteArray.mk (Array.ofFn (n := n) fun i => (pat[i.val % pat.size]!).toUInt8)
    | _ => ByteArray.empty
  else ByteArray.mk ((hexToBytes s).map Nat.toUInt8).toArray

/-- digest over (index, value) of the non-zero entries, in index order; and their number -/
def digestTab (a : Tab) : UInt64 × Nat := Id.run do
  let mut h := fnvInit
  let mut n := 0
  for i in [0:a.size] do
    let v := a[i]!
    if v != 0 then
      h := fnvStep (fnvStep h i) v
      n := n + 1
  return (h, n)

inductive Kind
  | basic (P : BasicP)
  | adv (P : AdvP)
  | h9 (P : H9P)

def parseKind (s : String) : Option (Kind × AdvSt) :=
  match s.splitOn ":" with
  | ["basic", bb, sw, hl, len] =>
    some (.basic (basicP (natArg bb) (natArg sw) (natArg hl)), ⟨#[], Array.replicate (natArg len) 0⟩)
  | ["adv32", bb, kb] =>
    some (.adv (adv32P (natArg bb) (natArg kb)),
      ⟨Array.replicate (1 <<< natArg bb) 0, Array.replicate (1 <<< (natArg bb + natArg kb)) 0⟩)
  | ["adv64", bb, kb, hl] =>
    some (.adv (adv64P (natArg bb) (natArg kb) (natArg hl)),
      ⟨Array.replicate (1 <<< natArg bb) 0, Array.replicate (1 <<< (natArg bb + natArg kb)) 0⟩)
  | ["h9"] => some (.h9 H9std, ⟨Array.replicate (1 <<< 15) 0, Array.replicate (1 <<< 23) 0⟩)
  | _ => none

def liftBasic (f : Tab → Option Tab) (st : AdvSt) : Option AdvSt :=
  match st with
  | ⟨num, buckets⟩ =>
    match f buckets with
    | none => none
    | some b => some ⟨num, b⟩

/-- one op; `none` = panic, `some none` = bad op -/
def applyOp (k : Kind) (data : ByteArray) (mask : Nat) (op : String) (st : AdvSt) (ceq : Bool) :
    Option (Option (AdvSt × Bool)) :=
  match op.splitOn ":" with
  | ["C"] =>
    match k with
    | .basic _ =>
      match Basic.clone st.buckets with
      | none => some none
      | some c => some (some (⟨st.num, c⟩, ceq && Basic.eq c st.buckets))
    | _ =>
      match Adv.clone st with
      | none => some none
      | some c => some (some (c, ceq && Adv.eq c st))
  | [o, s, e] =>
    let s := natArg s
    let e := natArg e
    let r : Option (Option AdvSt) :=
      match k, o with
      | .basic P, "S" => some (liftBasic (forRange (Basic.store P data mask) s (e - s)) st)
      | .basic P, "R" => some (liftBasic (Basic.storeRange P data mask s e) st)
      | .basic P, "B" => some (liftBasic (Basic.bulkStoreRange P data mask s e) st)
      | .adv P, "S" => some (forRange (Adv.store P data mask) s (e - s) st)
      | .adv P, "R" => some (Adv.storeRange P data mask s e st)
      | .adv P, "B" => some (Adv.bulkStoreRange P data mask s e st)
      | .h9 P, "S" => some (forRange (H9.store P data mask) s (e - s) st)
      | .h9 P, "R" => some (H9.storeRange P data mask s e st)
      | .h9 P, "B" => some (H9.bulkStoreRange P data mask s e st)
      | _, _ => none
    match r with
    | none => none
    | some none => some none
    | some (some st) => some (some (st, ceq))
  | _ => none

def runOps (k : Kind) (data : ByteArray) (mask : Nat) : List String → AdvSt → Bool → String
  | [], st, ceq =>
    let (dn, cn) := digestTab st.num
    let (db, cb) := digestTab st.buckets
    s!"ok {dn} {db} {cn} {cb} {if ceq then 1 else 0}"
  | op :: rest, st, ceq =>
    match applyOp k data mask op st ceq with
    | none => "bad-op"
    | some none => "panic"
    | some (some (st, ceq)) => runOps k data mask rest st ceq

def handle : List String → String
  | kind :: mask :: data :: ops =>
    match parseKind kind with
    | none => "bad-op"
    | some (k, st) =>
      let mask := if mask = "max" then USIZE_MAX else natArg mask
      runOps k (parseData data) mask ops st true
  | _ => "bad-op"

end BV.Drive.Hasher
