import BV.Model.Dict
import BV.Drive.Util
/-! Line protocol of engine `dict` (see `/verif/harness/src/dict.rs`):

    dict book <lgwin> <quality> <size> <seed>
      the book-keeping of the encoder right after `set_custom_dictionary(size, gen_dict(seed, size))` on a fresh
      state with default parameters except lgwin/quality (both may be out of range: they are sanitised):
      `ok ip= lf= lp= pb= pb2= cat= app= ud= lgwin= lgblock= q= pos= mask= cur= dlen= tail= rfnv= dfnv= rec=` | `panic`
    dict ringw <lgwin> <quality> <size> <seed> <n1,n2,…>
      book line after `set_custom_dictionary` + `copy_input_to_ring_buffer(n_k, gen_in(seed, ·))` calls (writes across the ring end)
    dict decrun <wbits> <d> <seed> <mlen> <B<hex>|C<dist>,<len> …>
      decoder copy path on a single last meta-block: `ok <output hex>` | `panic`
    dict dec <wbits> <d> <seed> <rbits> <P1,P2,…>
      decoder hand model: `deff= mbd= ctx1= ctx2= max=<max_distance after visiting the positions>`
-/
namespace BV.Drive.Dict
open BV.Drive BV.Dict BV.Header

def intArg (s : String) : Int := s.toInt?.getD 0

def hex16 (x : UInt64) : String :=
  String.ofList ((List.range 16).map fun i => hexChar ((x.toNat / 16 ^ (15 - i)) % 16))

def b01 (b : Bool) : Nat := if b then 1 else 0

def bookLine (s : Enc) : String :=
  let rb := s.ring
  let k := min rb.pos 64
  let tail := if rb.dataLen = 0 then [] else (List.range k).map fun j => rb.at (rb.pos - k + j)
  let rfnv := if rb.dataLen = 0 then fnvInit else foldRange 0 rb.pos fnvInit fun h p => fnvStep h (rb.at p)
  let dfnv := foldRange 0 rb.dataLen fnvInit fun h i => fnvStep h (rb.data i)
  s!"ok ip={s.inputPos} lf={s.lastFlushPos} lp={s.lastProcessedPos} pb={s.prevByte} pb2={s.prevByte2} " ++
  s!"cat={b01 s.params.catable} app={b01 s.params.appendable} ud={b01 s.params.useDictionary} " ++
  s!"lgwin={s.params.lgwin} lgblock={s.params.lgblock} q={s.params.quality} pos={rb.pos} mask={rb.mask} cur={rb.curSize} " ++
  s!"dlen={rb.dataLen} tail={bytesToHex tail} rfnv={hex16 rfnv} dfnv={hex16 dfnv} rec={s.recoderPos}"

def defaultParams (q lgwin : Int) : Params :=
  { quality := q, lgwin := lgwin, lgblock := 0, largeWindow := false, catable := false, appendable := false,
    useDictionary := true, magicNumber := false, sizeHint := 0 }

def handle (args : List String) : String :=
  match args with
  | ["book", lgwin, q, size, seed] =>
    let size := natArg size
    match setCustomDictionary (defaultParams (intArg q) (intArg lgwin)) size (dictGen (natArg seed)) size with
    | none => "panic"
    | some s => bookLine s
  | ["dec", wbits, d, seed, rbits, ps] =>
    let D : Dec := ⟨natArg wbits, natArg d, dictGen (natArg seed)⟩
    let ps := if ps = "-" then [] else (ps.splitOn ",").map natArg
    s!"deff={D.dEff} mbd={D.mbd} ctx1={D.ctx1 (natArg rbits)} ctx2={D.ctx2 (natArg rbits)} max={D.runMax 0 ps}"
  | ["ringw", lgwin, q, size, seed, writes] =>
    let size := natArg size
    let seed := natArg seed
    match setCustomDictionary (defaultParams (intArg q) (intArg lgwin)) size (dictGen seed) size with
    | none => "panic"
    | some s0 =>
      let ws := if writes = "-" then [] else (writes.splitOn ",").map natArg
      let r := ws.foldl (fun (acc : Option (Enc × Nat)) n =>
        match acc with
        | none => none
        | some (s, off) =>
          match copyInputToRingBuffer (fun i => inGen seed (off + i)) n n s with
          | none => none
          | some s' => some (s', off + n)) (some (s0, 0))
      match r with
      | none => "panic"
      | some (s, _) => bookLine s
  | "decrun" :: wbits :: d :: seed :: mlen :: toks =>
    let D : Dec := ⟨natArg wbits, natArg d, dictGen (natArg seed)⟩
    let cmds : List DecCmd := toks.filterMap fun t =>
      if t.startsWith "B" then some (DecCmd.bytes (hexToBytes (t.drop 1).toString))
      else if t.startsWith "C" then
        match (t.drop 1).toString.splitOn "," with
        | [a, b] => some (DecCmd.copy (natArg a) (natArg b))
        | _ => none
      else none
    match decOutput D (natArg mlen) cmds with
    | none => "panic"
    | some out => s!"ok {bytesToHex out}"
  | _ => "bad-op"

end BV.Drive.Dict
