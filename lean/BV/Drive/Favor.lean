import BV.Lemmas.MultiFavorKinds
import BV.Drive.Hasher
/-!
Line protocol of engine `favor` (property C06, part 3: the shared pre-built match index):

  `favor <kind> <lgwin> <quality> <t> <j> <data>`

  kind = as in engine `hasher` (`basic:<bucket_bits>:<sweep>:<hash_bytes>:<table_len>` |
         `adv32:<bucket_bits>:<block_bits>` | `adv64:<bucket_bits>:<block_bits>:<hash_len>` | `h9`)
  lgwin, quality = the job encoder's sanitised parameters; t = thread count; j = job index (1 ≤ j < t);
  data = the whole input (hex), n = its length

answer: `<stored_end> <shared> <own> <job-on> <job-off>`:
  shared  = `(prebuilt M input t n overlap j).1`, stored_end its second component,
  own     = `selfbuilt M input (bnd t n j) lgwin quality overlap`,
  job-on  = `jobIndex … (some shared)`, job-off = `jobIndex … none`,
each index as `<num_digest>:<buckets_digest>:<nonzero_num>:<nonzero_buckets>` or `panic`.
-/
namespace BV.Drive.Favor
open BV.Drive BV.Hasher BV.Multi BV.Lemmas.Multi BV.Drive.Hasher

def digSt (st : Option AdvSt) : String :=
  match st with
  | none => "panic"
  | some st =>
    let (dn, cn) := digestTab st.num
    let (db, cb) := digestTab st.buckets
    s!"{dn}:{db}:{cn}:{cb}"

def digTab (b : Option Tab) : String := digSt (b.map fun b => ⟨#[], b⟩)

def answer {H : Type} (M : HasherModel H) (dig : H → String) (input : List Nat)
    (t lgwin q j overlap : Nat) : String :=
  let n := input.length
  let p := prebuilt M input t n overlap j
  let size := bnd t n j
  let own := selfbuilt M input size lgwin q overlap
  let jobOn := jobIndex M input size lgwin q overlap (some p.1)
  let jobOff := jobIndex M input size lgwin q overlap none
  s!"{p.2} {dig p.1} {dig own} {dig jobOn} {dig jobOff}"

def handle : List String → String
  | [kind, lgwin, q, t, j, data] =>
    let input := hexToBytes data
    let lgwin := natArg lgwin
    let q := natArg q
    let t := natArg t
    let j := natArg j
    match kind.splitOn ":" with
    | ["basic", bb, sw, hl, len] =>
      answer (basicModel (basicP (natArg bb) (natArg sw) (natArg hl)) (natArg len)) digTab input t lgwin q j 7
    | ["adv32", bb, kb] =>
      answer (advModel (adv32P (natArg bb) (natArg kb))) digSt input t lgwin q j 3
    | ["adv64", bb, kb, hl] =>
      answer (advModel (adv64P (natArg bb) (natArg kb) (natArg hl))) digSt input t lgwin q j 7
    | ["h9"] => answer (h9Model H9std) digSt input t lgwin q j 3
    | _ => "bad-op"
  | _ => "bad-op"

end BV.Drive.Favor
