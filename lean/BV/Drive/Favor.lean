import BV.Lemmas.MultiFavorKinds
import BV.Model.StreamJob
import BV.Drive.Hasher
import BV.Drive.Multi
import BV.Drive.Stream
/-!
Line protocol of engine `favor` (property C06, part 3: the shared pre-built match index):

  `favor <kind> <lgwin> <quality> <t> <j> <data>`

  kind = as in engine `hasher` (`basic:<bucket_bits>:<sweep>:<hash_bytes>:<table_len>` |
         `adv32:<bucket_bits>:<block_bits>` | `adv64:<bucket_bits>:<block_bits>:<hash_len>` | `h9`)
  lgwin, quality = the job encoder's sanitised parameters; t = thread count; j = job index (1 ≤ j < t);
  data = the whole input (hex), n = its length

answer: `<stored_end> <shared> <own> <job-on> <job-off>`:
  shared  = `(prebuilt M input t n overlap j).1`, stored_end its second component,
  own     = `selfbuilt M input (bnd t n j) lgwin quality overlap`,
  job-on  = `jobIndex … (some shared)`, job-off = `jobIndex … none`,
each index as `<num_digest>:<buckets_digest>:<nonzero_num>:<nonzero_buckets>` or `panic`.

  `favor sjob <i> <t> <n> <quality> <lgwin> <catable> <appendable> <magic> <piece> <answers>`

  a job of `CompressMulti` on a FRESH encoder over the stream machine (`BV.StreamJob.streamJob`):
  params as handed to `compress_part` (before its own catable/appendable/magic changes), the job's
  piece (hex), and the recorded answers of the payload-encoder invocations of its FINISH call
  (`<result>.<emit>.<nbits>.<hexbits|->` joined by `/`, `-` = none; hexbits `-` = bits not recoverable
  from the delivered bytes: `nbits` zeros).  answer: `ok:<hex>` | `err` | `panic` | `spin`.
-/
namespace BV.Drive.Favor
open BV.Drive BV.Hasher BV.Multi BV.Lemmas.Multi BV.Drive.Hasher

def digSt (st : Option AdvSt) : String :=
  match st with
  | none => "panic"
  | some st =>
    let (dn, cn) := digestTab st.num
    let (db, cb) := digestTab st.buckets
    s!"{dn}:{db}:{cn}:{cb}"

def digTab (b : Option Tab) : String := digSt (b.map fun b => ⟨#[], b⟩)

def answer {H : Type} (M : HasherModel H) (dig : H → String) (input : List Nat)
    (t lgwin q j overlap : Nat) : String :=
  let n := input.length
  let p := prebuilt M input t n overlap j
  let size := bnd t n j
  let own := selfbuilt M input size lgwin q overlap
  let jobOn := jobIndex M input size lgwin q overlap (some p.1)
  let jobOff := jobIndex M input size lgwin q overlap none
  s!"{p.2} {dig p.1} {dig own} {dig jobOn} {dig jobOff}"

def parseAns (t : String) : Option BV.Stream.Ans :=
  match t.splitOn "." with
  | [r, e, n, h] =>
    let nb := natArg n
    let bits := if h = "-" then List.replicate nb false else BV.Drive.Stream.bitsOfBytes (hexToBytes h) nb
    if bits.length ≠ nb then none else some { result := r == "1", emit := e == "1", bits := bits }
  | _ => none

def parseAnswers (t : String) : Option (List BV.Stream.Ans) :=
  if t = "-" then some [] else
  (t.splitOn "/").foldr (fun a acc => match acc, parseAns a with
    | some l, some x => some (x :: l)
    | _, _ => none) (some [])

def sjob : List String → String
  | [i, t, n, q, lgwin, cat, app, magic, piece, ans] =>
    match parseAnswers ans with
    | none => "bad-op"
    | some answers =>
      let piece := hexToBytes piece
      let p : BV.Stream.Params :=
        { quality := (natArg q : Int), lgwin := (natArg lgwin : Int), catable := cat == "1", appendable := app == "1", magic := magic == "1" }
      let o : BV.Stream.Oracle := fun k _ => answers.getD k {}
      let fuel := 8 * piece.length + 4 * maxCompressedSize piece.length + 4096
      BV.Drive.Multi.jobTok (BV.StreamJob.streamJob o fuel p (natArg i) (natArg t) (natArg n) piece)
  | _ => "bad-op"

def handle : List String → String
  | "sjob" :: rest => sjob rest
  | [kind, lgwin, q, t, j, data] =>
    let input := hexToBytes data
    let lgwin := natArg lgwin
    let q := natArg q
    let t := natArg t
    let j := natArg j
    match kind.splitOn ":" with
    | ["basic", bb, sw, hl, len] =>
      answer (basicModel (basicP (natArg bb) (natArg sw) (natArg hl)) (natArg len)) digTab input t lgwin q j 7
    | ["adv32", bb, kb] =>
      answer (advModel (adv32P (natArg bb) (natArg kb))) digSt input t lgwin q j 3
    | ["adv64", bb, kb, hl] =>
      answer (advModel (adv64P (natArg bb) (natArg kb) (natArg hl))) digSt input t lgwin q j 7
    | ["h9"] => answer (h9Model H9std) digSt input t lgwin q j 3
    | _ => "bad-op"
  | _ => "bad-op"

end BV.Drive.Favor
