/-
Driver of engine `zopfli` (harness/src/zopfli.rs): the quality 10 / 11 command generation.

  zopfli cc <lgwin> <block_start> <num_bytes> <cache,4> <last_insert_len> <num_literals> <hist_len> <text> N <node>… W <word>…
      → `<n> <cmd_digest> <cache,4> <last_insert_len> <num_literals> <ok>`
      (`zopfliCreateCommands` on the recorded node array; `ok` = the closed command list satisfies
       `cmdOK` + `lockstep` and the spec decoder `replayCommands` yields `hist ++ mb`)
  zopfli path <num_bytes> N <node>…
      → `<num_commands> <digest of the (index, next) pairs>` (`computeShortestPathFromNodes`)
  zopfli sp <quality> <lgwin> <mask> <position> <num_bytes> <cache,4> <data> <literal costs> <log2(11+i)> <log2(20+i)> B <bucket>… F <forest>… D <cm=l.id+…>…
      → `<num_commands> <node digest>` (`zopfliComputeShortestPath` with `K = Float32`, the H10 model,
       the cost model set from the RECORDED literal costs / log2 tables as `set_from_literal_costs` does)
-/
import BV.Model.Zopfli
import BV.Model.Cbr
import BV.Model.MetaBlock
import BV.Drive.Util

namespace BV.Drive.Zopfli
open BV.Zopfli BV.Recoder BV.MetaBlock BV.Hasher BV.MatchFinder

def intArg (s : String) : Int :=
  if s.startsWith "-" then -((s.drop 1).toString.toNat?.getD 0 : Int) else (s.toNat?.getD 0 : Int)

/-- `i:length:distance:dcil:u` -/
def parseNode {K : Type} (cost : K) (t : String) : Option (Nat × Node K) :=
  match t.splitOn ":" with
  | [i, l, d, c, u] =>
    let uu : U K :=
      if u.startsWith "n" then .next (natArg (u.drop 1).toString)
      else if u.startsWith "s" then .shortcut (natArg (u.drop 1).toString)
      else .cost cost
    some (natArg i, ⟨natArg l, natArg d, natArg c, uu⟩)
  | _ => none

def buildNodes {K : Type} (cost : K) (numBytes : Nat) (toks : List String) : Array (Node K) :=
  toks.foldl (fun a t => match parseNode cost t with
    | some (i, n) => a.set! i n
    | none => a) (Array.replicate (numBytes + 1) ⟨1, 0, 0, .cost cost⟩)

/-- `len.idx.transform=hex` -/
def parseWord (t : String) : Option ((Nat × Nat × Nat) × List Nat) :=
  match t.splitOn "=" with
  | [k, h] =>
    match k.splitOn "." with
    | [a, b, c] => some ((natArg a, natArg b, natArg c), hexToBytes h)
    | _ => none
  | _ => none

def cmdDigest (cs : List Cmd) : UInt64 :=
  cs.foldl (fun d c => fnvStep (fnvStep (fnvStep (fnvStep (fnvStep d c.insertLen) c.copyLenField) c.distExtra) c.cmdPrefix) c.distPrefix) fnvInit

def showCache (c : List Int) : String := ",".intercalate ((c.take 4).map toString)

def handleCc : List String → String
  | lgwin :: blockStart :: numBytes :: cache :: lil :: nlit :: histLen :: text :: "N" :: rest =>
    let nodeToks := rest.takeWhile (· ≠ "W")
    let wordToks := (rest.dropWhile (· ≠ "W")).drop 1
    let numBytes := natArg numBytes
    let nodes : Array (Node Unit) := buildNodes () numBytes nodeToks
    let cache : List Int := (cache.splitOn ",").map intArg
    let window := (1 <<< natArg lgwin) - 16
    match zopfliCreateCommands 0 0 numBytes (natArg blockStart) window nodes cache (natArg lil) (natArg nlit) with
    | none => "panic"
    | some r =>
      let text := hexToBytes text
      let hist := text.take (natArg histLen)
      let mb := text.drop (natArg histLen)
      let words := wordToks.filterMap parseWord
      let wo : WordOracle := fun l i t => (words.find? (·.1 == (l, i, t))).map (·.2)
      let closed := BV.Cbr.closeMetaBlock r.cmds r.lastInsertLen
      let ok := closed.all (cmdOK (distAlphabetSize false 0 0) 0 0) &&
        lockstep wo 0 0 window mb ⟨hist, cache.take 4, 0⟩ 0 closed &&
        (replayCommands wo 0 0 window mb (cache.take 4) hist closed == some (hist ++ mb))
      s!"{r.cmds.length} {cmdDigest r.cmds} {showCache r.cache} {r.lastInsertLen} {r.numLiterals} {if ok then 1 else 0}"
  | _ => "bad-op"

def handlePath : List String → String
  | numBytes :: "N" :: nodeToks =>
    let numBytes := natArg numBytes
    let nodes : Array (Node Unit) := buildNodes () numBytes nodeToks
    match computeShortestPathFromNodes numBytes nodes with
    | none => "panic"
    | some (nodes, n) =>
      let d := (nodes.toList.zipIdx).foldl (fun d (nd, i) => match nd.u with
        | .next x => fnvStep (fnvStep d i) x
        | _ => d) fnvInit
      s!"{n} {d}"
  | _ => "bad-op"

/-! ### `sp`: the whole path computation with `K = Float32` -/

def f32Ops : CostOps Float32 where
  zero := 0.0
  one := 1.0
  inf := 1.7e38
  add := (· + ·)
  sub := (· - ·)
  le := fun a b => a ≤ b
  lt := fun a b => a < b
  ofNat := fun n => Float32.ofNat n

def parseF32s (s : String) : Array Float32 :=
  let cs := s.toList
  let rec go : List Char → Array Float32 → Array Float32
    | a :: b :: c :: d :: e :: f :: g :: h :: rest, acc =>
      let v := [a, b, c, d, e, f, g, h].foldl (fun v ch => v * 16 + hexDigit ch) 0
      go rest (acc.push (Float32.ofBits v.toUInt32))
    | _, acc => acc
  go cs #[]

/-- the prefix sums of `set_from_literal_costs` (Kahan-style carry) -/
def literalPrefix (raw : Array Float32) (numBytes : Nat) : Array Float32 := Id.run do
  let mut lc := raw.set! 0 0.0
  let mut carry : Float32 := 0.0
  for i in [0:numBytes] do
    carry := carry + lc[i + 1]!
    lc := lc.set! (i + 1) (lc[i]! + carry)
    carry := carry - (lc[i + 1]! - lc[i]!)
  return lc

def parseSparse (toks : List String) (a : Array Nat) : Array Nat :=
  toks.foldl (fun a t => match t.splitOn ":" with
    | [i, v] => a.set! (natArg i) (natArg v)
    | _ => a) a

def nodesDigest (nodes : Array (Node Float32)) : UInt64 :=
  nodes.foldl (fun d n =>
    let (t, v) : Nat × Nat := match n.u with
      | .cost c => (0, c.toBits.toNat)
      | .next x => (1, x)
      | .shortcut x => (2, x)
    fnvStep (fnvStep (fnvStep (fnvStep (fnvStep d n.length) n.distance) n.dcil) t) v) fnvInit

def handleSp : List String → String
  | quality :: lgwin :: mask :: position :: numBytes :: cache :: data :: lit :: lcmd :: ldist :: "B" :: rest =>
    let bToks := rest.takeWhile (· ≠ "F")
    let fToks := ((rest.dropWhile (· ≠ "F")).drop 1).takeWhile (· ≠ "D")
    let dToks := (rest.dropWhile (· ≠ "D")).drop 1
    let dtab : List (Nat × List (Nat × Nat)) := dToks.filterMap fun t =>
      match t.splitOn "=" with
      | [cm, es] => some (natArg cm, (es.splitOn "+").filterMap fun e =>
          match e.splitOn "." with
          | [l, id] => some (natArg l, natArg id)
          | _ => none)
      | _ => none
    let dictAt : Nat → Nat → Nat → List (Nat × Nat) := fun cm _ _ => ((dtab.find? (·.1 == cm)).map (·.2)).getD []
    let lgwin := natArg lgwin
    let numBytes := natArg numBytes
    let data := ByteArray.mk ((hexToBytes data).map (·.toUInt8)).toArray
    let windowMask := (1 <<< lgwin) - 1
    let invalid := (U32 - windowMask) % U32
    let st : H10St := ⟨parseSparse bToks (Array.replicate (1 <<< 17) invalid), parseSparse fToks (Array.replicate (2 * (1 <<< lgwin)) 0)⟩
    let p : Params := ⟨natArg quality, lgwin, 0x3fffffc, 0, 0⟩
    let raw := parseF32s lit
    let dist := parseF32s ldist
    let m : CostModel Float32 :=
      ⟨parseF32s lcmd, dist ++ Array.replicate (numBytes + 64 - dist.size) 0.0, literalPrefix raw numBytes, (parseF32s lcmd)[0]!⟩
    let cache : List Int := (cache.splitOn ",").map intArg
    let mask := natArg mask
    match zopfliComputeShortestPath f32Ops (h10Ops p windowMask invalid data mask dictAt) m p data mask numBytes
        (natArg position) cache st (initNodes f32Ops numBytes) with
    | none => "panic"
    | some (nodes, n, _) => s!"{n} {nodesDigest nodes}"
  | _ => "bad-op"

def handle : List String → String
  | "cc" :: rest => handleCc rest
  | "path" :: rest => handlePath rest
  | "sp" :: rest => handleSp rest
  | _ => "bad-op"

end BV.Drive.Zopfli
