import BV.Model.Huffman
import BV.Drive.Util
namespace BV.Drive.Huffman
open BV.Drive BV.Bits BV.Huffman

/-- "5,1,0" → [5,1,0]; "-" → [] -/
def parseList (s : String) : List Nat :=
  if s = "-" then [] else (s.splitOn ",").map natArg

def showList (l : List Nat) : String :=
  if l.isEmpty then "-" else ",".intercalate (l.map toString)

def showBits (w : Writer) : String := s!"{w.length} {bytesToHex (toBytes w)}"

def showOut {α : Type} (f : α → String) : Out α → String
  | .ok a => f a
  | .panic => "panic"
  | .fuel => "fuel"

/-- the scratch `tree` real callers pass: `MAX_HUFFMAN_TREE_SIZE = 2 * 704 + 1` nodes -/
def scratchTree (n : Nat) : List Node := List.replicate (2 * n + 1) default

/-- requests of the `huff` engine (the leading token is already stripped) -/
def handle (args : List String) : String :=
  match args with
  | ["tree", limit, cs] =>
    let data := parseList cs
    showOut showList
      (createHuffmanTree data data.length (natArg limit) (scratchTree data.length)
        (List.replicate data.length 0))
  | ["symbols", ds] =>
    let d := parseList ds
    showOut showList (convertBitDepthsToSymbols d d.length (List.replicate d.length 0))
  | ["rle", ds] =>
    let d := parseList ds
    showOut (fun (p : List Nat × List Nat) => s!"{showList p.1};{showList p.2}")
      (writeHuffmanTree d d.length (max d.length 704))
  | ["store", ds] =>
    let d := parseList ds
    showOut showBits (storeHuffmanTree d d.length (scratchTree 704) [])
  | ["build", alphabetSize, cs] =>
    let h := parseList cs
    showOut (fun (r : List Nat × List Nat × Writer) =>
        s!"{showList r.1};{showList r.2.1};{showBits r.2.2}")
      (buildAndStoreHuffmanTree h h.length (natArg alphabetSize) (scratchTree 704)
        (List.replicate h.length 0) (List.replicate h.length 0) [])
  | ["fast", maxBits, cs] =>
    let h := parseList cs
    showOut (fun (r : List Nat × List Nat × Writer) =>
        s!"{showList r.1};{showList r.2.1};{showBits r.2.2}")
      (buildAndStoreHuffmanTreeFast h h.sum (natArg maxBits)
        (List.replicate h.length 0) (List.replicate h.length 0) [])
  | ["optrle", cs] =>
    let c := parseList cs
    showOut showList (optimizeHuffmanCountsForRle c.length c (List.replicate c.length 0))
  | _ => "bad-op"

end BV.Drive.Huffman
