import BV.Model.Huffman
import BV.Drive.Util
namespace BV.Drive.Huffman
open BV.Drive BV.Bits BV.Huffman

/-- "5,1,0" → [5,1,0]; "-" → [] -/
def parseList (s : String) : List Nat :=
  if s = "-" then [] else (s.splitOn ",").map natArg

def showList (l : List Nat) : String :=
  if l.isEmpty then "-" else ",".intercalate (l.map toString)

def showBits (w : Writer) : String := s!"{w.length} {bytesToHex (toBytes w)}"

def showOut {α : Type} (f : α → String) : Out α → String
  | .ok a => f a
  | .panic => "panic"
  | .fuel => "fuel"

/-- the scratch `tree` real callers pass: `MAX_HUFFMAN_TREE_SIZE = 2 * 704 + 1` nodes -/
def scratchTree (n : Nat) : List Node := List.replicate (2 * n + 1) default

/-- fold an outcome into a digest: a panic is the word 0xdead -/
def foldOut {α : Type} (h : UInt64) (o : Out α) (f : UInt64 → α → UInt64) : UInt64 :=
  match o with
  | .ok a => f h a
  | .panic => fnvStep h 0xdead
  | .fuel => fnvStep h 0xf00d

def foldList (h : UInt64) (l : List Nat) : UInt64 := l.foldl fnvStep (fnvStep h l.length)

def foldBits (h : UInt64) (w : Writer) : UInt64 := foldList (fnvStep h w.length) (toBytes w)

/-- count vector number `idx` over `nsym` symbols, counts `0..12` (base-13 digits, symbol 0 first) -/
def exhVector (nsym idx : Nat) : List Nat := (List.range nsym).map fun i => idx / 13 ^ i % 13

/-- digest of everything the builders do on one small count vector
(a 37-node scratch tree is enough for alphabets of at most 6 symbols and for the
18-symbol code-length code: C17.store_tree_roundtrip, create_huffman_tree_total; the real code gets 1409) -/
def exhStep (nsym : Nat) (withBuild : Bool) (h : UInt64) (idx : Nat) : UInt64 :=
  let v := exhVector nsym idx
  let nz := (v.filter (· ≠ 0)).length
  let h := fnvStep h idx
  let zeros := List.replicate nsym 0
  let h := if nz ≥ 1 then
      let t15 := createHuffmanTree v nsym 15 (scratchTree nsym) zeros
      let h := foldOut h t15 foldList
      let h := foldOut h (createHuffmanTree v nsym 5 (scratchTree nsym) zeros) foldList
      match t15 with
      | .ok d =>
        let h := foldOut h (convertBitDepthsToSymbols d nsym zeros) foldList
        if nz ≥ 2 then foldOut h (storeHuffmanTree d nsym (scratchTree 18) []) foldBits else h
      | _ => h
    else h
  let h := foldOut h (buildAndStoreHuffmanTreeFast v v.sum 3 zeros zeros [])
    fun h r => foldBits (foldList (foldList h r.1) r.2.1) r.2.2
  if withBuild then
    foldOut h (buildAndStoreHuffmanTree v nsym nsym (scratchTree 18) zeros zeros [])
      fun h r => foldBits (foldList (foldList h r.1) r.2.1) r.2.2
  else h

/-- requests of the `huff` engine (the leading token is already stripped) -/
def handle (args : List String) : String :=
  match args with
  | ["tree", limit, cs] =>
    let data := parseList cs
    showOut showList
      (createHuffmanTree data data.length (natArg limit) (scratchTree data.length)
        (List.replicate data.length 0))
  | ["symbols", ds] =>
    let d := parseList ds
    showOut showList (convertBitDepthsToSymbols d d.length (List.replicate d.length 0))
  | ["rle", ds] =>
    let d := parseList ds
    showOut (fun (p : List Nat × List Nat) => s!"{showList p.1};{showList p.2}")
      (writeHuffmanTree d d.length (max d.length 704))
  | ["store", ds] =>
    let d := parseList ds
    showOut showBits (storeHuffmanTree d d.length (scratchTree 704) [])
  | ["build", alphabetSize, cs] =>
    let h := parseList cs
    showOut (fun (r : List Nat × List Nat × Writer) =>
        s!"{showList r.1};{showList r.2.1};{showBits r.2.2}")
      (buildAndStoreHuffmanTree h h.length (natArg alphabetSize) (scratchTree 704)
        (List.replicate h.length 0) (List.replicate h.length 0) [])
  | ["fast", maxBits, cs] =>
    let h := parseList cs
    showOut (fun (r : List Nat × List Nat × Writer) =>
        s!"{showList r.1};{showList r.2.1};{showBits r.2.2}")
      (buildAndStoreHuffmanTreeFast h h.sum (natArg maxBits)
        (List.replicate h.length 0) (List.replicate h.length 0) [])
  | ["optrle", cs] =>
    let c := parseList cs
    showOut showList (optimizeHuffmanCountsForRle c.length c (List.replicate c.length 0))
  | ["exh", nsym, lo, hi, withBuild] =>   -- digest over count vectors lo..hi-1 (see `exhStep`)
    toString (foldRange (natArg lo) (natArg hi) fnvInit (exhStep (natArg nsym) (natArg withBuild != 0)))
  | _ => "bad-op"

end BV.Drive.Huffman
