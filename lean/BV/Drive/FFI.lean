import BV.Model.FFI
import BV.Model.FFIStream
import BV.Drive.Util
/-
Line protocol of the `ffi` engine (leading token `ffi` stripped by `Drive.lean`).

  S <call> <call> …     a history of one encoder instance, one answer token per call
     stream call   s:<availIn>:<nextIn|n>:<availOut>:<nextOut|n>:<totptr 0|1>:<*total_out before>:<compressor.total_out_ before>|
                     <inOff>:<availIn after>:<outOff>:<availOut after>:<ok 0|1>:<panicked 0|1>:<value stored in the total_out cell|n>
                   (before `|`: what the C caller passed; after: what the twin Rust `compress_stream` call did)
                   → <ret>:<availIn>:<nextIn|n>:<availOut>:<nextOut|n>:<*total_out>
     take_output   t:<size>:<pending bytes hex>  → <bytes hex>:<size after>:<#bytes still pending>
  M <desired>           dispatch of BrotliEncoderCompressMulti → reject | single | multi:<threads>
  P <init 0|1> <id> <v> BrotliEncoderSetParameter(id, v) on an instance that has (1) / has not (0) been used yet
                        (default parameters otherwise) → 0 | 1   (`ffiSetParameter` of BV/Model/FFIStream.lean)
  O <desired> <0|1>     allocator-opaque index of the 16 slots (1 = caller passed an array) → i0,i1,…,i15 | panic
Addresses are numbers; `n` = null.
-/
namespace BV.Drive.FFI
open BV.Drive BV.FFI

def optNat (s : String) : Option (Option Nat) :=
  if s = "n" then some none else s.toNat?.map some

def showOpt : Option Nat → String
  | none => "n"
  | some v => toString v

def handleCall (tok : String) : String :=
  match tok.splitOn "|" with
  | [c, a] =>
    match c.splitOn ":", a.splitOn ":" with
    | ["s", ai, ni, ao, no, tp, tc, et], [io, aia, oo, aoa, ok, pk, tw] =>
      match ai.toNat?, optNat ni, ao.toNat?, optNat no, tc.toNat?, et.toNat?, io.toNat?, aia.toNat?, oo.toNat?, aoa.toNat?, optNat tw with
      | some ai, some ni, some ao, some no, some tc, some et, some io, some aia, some oo, some aoa, some tw =>
        let r := compressStream ⟨ai, ni, ao, no, tp = "1", tc, et⟩ ⟨io, aia, oo, aoa, ok = "1", pk = "1", tw⟩
        s!"{r.ret}:{r.availIn}:{showOpt r.nextIn}:{r.availOut}:{showOpt r.nextOut}:{r.totalOutCell}"
      | _, _, _, _, _, _, _, _, _, _, _ => "bad-op"
    | _, _ => "bad-op"
  | [c] =>
    match c.splitOn ":" with
    | ["t", sz, hex] =>
      match sz.toNat? with
      | some sz =>
        let (bs, sz', rest) := takeOutput (hexToBytes hex) sz
        s!"{bytesToHex bs}:{sz'}:{rest.length}"
      | none => "bad-op"
    | _ => "bad-op"
  | _ => "bad-op"

def handle (args : List String) : String :=
  match args with
  | "S" :: calls => " ".intercalate (calls.map handleCall)
  | ["P", i, id, v] =>
    match id.toNat?, v.toNat? with
    | some id, some v =>
      let s : BV.Stream.St := { BV.Stream.St.new with isInitialized := (i = "1") }
      toString (ffiSetParameter s id v).2
    | _, _ => "bad-op"
  | ["M", d] =>
    match d.toNat? with
    | some d => match multiDispatch d with
      | .reject => "reject"
      | .single => "single"
      | .multi n => s!"multi:{n}"
    | none => "bad-op"
  | ["O", d, c] =>
    match d.toNat? with
    | some d =>
      let idx := (List.range 16).map (opaqueIndex d (c = "1"))
      if idx.any Option.isNone then "panic" else ",".intercalate (idx.map (fun o => toString (o.getD 0)))
    | none => "bad-op"
  | _ => "bad-op"

end BV.Drive.FFI
