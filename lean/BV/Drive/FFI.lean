import BV.Model.FFI
import BV.Model.FFIStream
import BV.Model.FFIEntry
import BV.Drive.Util
import BV.Drive.Stream
/-
Line protocol of the `ffi` engine (leading token `ffi` stripped by `Drive.lean`).

  S <call> <call> …     a history of one encoder instance, one answer token per call
     stream call   s:<availIn>:<nextIn|n>:<availOut>:<nextOut|n>:<totptr 0|1>:<*total_out before>:<compressor.total_out_ before>|
                     <inOff>:<availIn after>:<outOff>:<availOut after>:<ok 0|1>:<panicked 0|1>:<value stored in the total_out cell|n>
                   (before `|`: what the C caller passed; after: what the twin Rust `compress_stream` call did)
                   → <ret>:<availIn>:<nextIn|n>:<availOut>:<nextOut|n>:<*total_out>
     take_output   t:<size>:<pending bytes hex>  → <bytes hex>:<size after>:<#bytes still pending>
  M <desired>           dispatch of BrotliEncoderCompressMulti → reject | single | multi:<threads>
  P <init 0|1> <id> <v> BrotliEncoderSetParameter(id, v) on an instance that has (1) / has not (0) been used yet
                        (default parameters otherwise) → 0 | 1   (`ffiSetParameter` of BV/Model/FFIStream.lean)
  O <desired> <0|1>     allocator-opaque index of the 16 slots (1 = caller passed an array) → i0,i1,…,i15 | panic
  V                     BrotliEncoderVersion() → the constant
  X <n>                 BrotliEncoderMaxCompressedSize(n) → value (release build)
  Q <stream_state_ 0..4> <available_out_>
                        BrotliEncoderIsFinished / BrotliEncoderHasMoreOutput on an instance whose two fields
                        they read are as given → <is_finished 0|1>:<has_more 0|1>
  C <input_size> <in null 0|1> <*encoded_size> <out null 0|1> <so.result> <so.finished> <so.total_out> <so bytes hex> <input hex>
                        BrotliEncoderCompress, given the outcome of the stream phase re-run on a twin encoder
                        → <ret>:<*encoded_size after | u>:<#bytes>:<fnv of the bytes>:<unwound 0|1>
  D <quality> <lgwin> <size>
                        BrotliEncoderSetCustomDictionary(size, …) on a fresh instance with that quality / lgwin:
                        the fields of the stream machine afterwards → <is_initialized_>:<catable>:<appendable>:<quality>:<lgwin>:<dictionary copied 0|1>
  H <tok> <tok> …       a WHOLE history of one instance through `ffiRun` (BV/Model/FFIStream.lean), the payload encoder
                        being the recorded answers of the C instance's own invocations, in order (one oracle for the line):
                        `P:<id>:<v>` SetParameter, `T:<size>` TakeOutput, `M` HasMoreOutput, `F` IsFinished,
                        `<flags>~C:<op>:<hex>+0:<cap>[:<answers>]` CompressStream (token grammar of the `stream` engine;
                        flags = total_out pointer passed + 2 * null next_in + 4 * null next_out)
                        → <cell.delivered,…|->:<#delivered>:<FNV-1a of the delivered bytes>:<total_out_>:<is_finished>:<has_more> | unwound
Addresses are numbers; `n` = null.
-/
namespace BV.Drive.FFI
open BV.Drive BV.FFI

def optNat (s : String) : Option (Option Nat) :=
  if s = "n" then some none else s.toNat?.map some

def showOpt : Option Nat → String
  | none => "n"
  | some v => toString v

def handleCall (tok : String) : String :=
  match tok.splitOn "|" with
  | [c, a] =>
    match c.splitOn ":", a.splitOn ":" with
    | ["s", ai, ni, ao, no, tp, tc, et], [io, aia, oo, aoa, ok, pk, tw] =>
      match ai.toNat?, optNat ni, ao.toNat?, optNat no, tc.toNat?, et.toNat?, io.toNat?, aia.toNat?, oo.toNat?, aoa.toNat?, optNat tw with
      | some ai, some ni, some ao, some no, some tc, some et, some io, some aia, some oo, some aoa, some tw =>
        let r := compressStream ⟨ai, ni, ao, no, tp = "1", tc, et⟩ ⟨io, aia, oo, aoa, ok = "1", pk = "1", tw⟩
        s!"{r.ret}:{r.availIn}:{showOpt r.nextIn}:{r.availOut}:{showOpt r.nextOut}:{r.totalOutCell}"
      | _, _, _, _, _, _, _, _, _, _, _ => "bad-op"
    | _, _ => "bad-op"
  | [c] =>
    match c.splitOn ":" with
    | ["t", sz, hex] =>
      match sz.toNat? with
      | some sz =>
        let (bs, sz', rest) := takeOutput (hexToBytes hex) sz
        s!"{bytesToHex bs}:{sz'}:{rest.length}"
      | none => "bad-op"
    | _ => "bad-op"
  | _ => "bad-op"

def b01 (b : Bool) : String := if b then "1" else "0"

def stateOfCode (c : Nat) : Option BV.Stream.SState :=
  match c with
  | 0 => some .processing | 1 => some .flushRequested | 2 => some .finished | 3 => some .metadataHead | 4 => some .metadataBody
  | _ => none

/-- one token of an `H` line: the call, the recorded answers of its invocations, the memory it reads -/
def parseH (idx : Nat) (tok : String) : Option (FfiCall × List BV.Stream.Ans × List (Nat × List Nat)) :=
  if tok = "M" then some (.hasMore, [], []) else if tok = "F" then some (.isFinished, [], []) else
  match tok.splitOn "~" with
  | [d, c] =>
    match BV.Drive.Stream.parseCall true c with
    | some (.stream op input cap, as) =>
      let f := natArg d
      let base := 1000000 * (idx + 1)
      some (.stream op ⟨input.length, if f / 2 % 2 = 1 then none else some base, cap,
                        if f / 4 % 2 = 1 then none else some (base + 500000), f % 2 = 1, 57005, 0⟩, as, [(base, input)])
    | _ => none
  | [c] =>
    match BV.Drive.Stream.parseCall true c with
    | some (.setParam id v, _) => some (.setParam id v, [], [])
    | some (.take n, _) => some (.take n, [], [])
    | _ => none
  | _ => none

def parseHs : Nat → List String → Option (List FfiCall × List BV.Stream.Ans × List (Nat × List Nat))
  | _, [] => some ([], [], [])
  | i, t :: ts =>
    match parseH i t, parseHs (i + 1) ts with
    | some (c, a, m), some (cs, as, ms) => some (c :: cs, a ++ as, m ++ ms)
    | _, _ => none

def handleH (toks : List String) : String :=
  match parseHs 0 toks with
  | none => "bad-op"
  | some (calls, answers, tbl) =>
    let mem : Mem := fun p n => match tbl.find? (fun x => x.1 == p) with
      | some (_, bs) => bs.take n
      | none => []
    let o : BV.Stream.Oracle := fun k _ => answers.getD k {}
    let fuel := 8 * (tbl.foldl (fun m x => m + x.2.length) 0)
                + 8 * (calls.foldl (fun m c => match c with | .stream _ c => max m c.availOut | _ => m) 0)
                + (answers.foldl (fun m a => m + a.bits.length) 0) + 8192
    match ffiRun o fuel mem calls BV.Stream.St.new {} with
    | none => "unwound"
    | some (s, seen) =>
      let cells := if seen.cells.isEmpty then "-" else ",".intercalate (seen.cells.map (fun x => s!"{x.1}.{x.2}"))
      s!"{cells}:{seen.delivered.length}:{BV.Drive.Stream.fnv1a seen.delivered}:{s.totalOut}:{ffiIsFinished s}:{ffiHasMoreOutput s}"

def handle (args : List String) : String :=
  match args with
  | "H" :: toks => handleH toks
  | "S" :: calls => " ".intercalate (calls.map handleCall)
  | ["V"] => toString ffiVersion
  | ["X", n] => match n.toNat? with
    | some n => toString (ffiMaxCompressedSize n)
    | none => "bad-op"
  | ["Q", st, av] =>
    match st.toNat?.bind stateOfCode, av.toNat? with
    | some st, some av =>
      let s : BV.Stream.St := { BV.Stream.St.new with streamState := st, pending := List.replicate av 0 }
      s!"{ffiIsFinished s}:{ffiHasMoreOutput s}"
    | _, _ => "bad-op"
  | ["C", n, inull, cap, onull, r, f, t, sob, inp] =>
    match n.toNat?, cap.toNat?, t.toNat? with
    | some n, some cap, some t =>
      let input := hexToBytes inp
      let mem : Mem := fun _ k => input.take k
      let c : OneShotCall := { quality := 0, lgwin := 0, mode := 0, inputSize := n, inputPtr := if inull = "1" then none else some 1000000,
                               encodedSize := cap, outPtr := if onull = "1" then none else some 5000000 }
      let so : BV.Stored.StreamOutcome := { result := r = "1", finished := f = "1", totalOut := t, bytes := hexToBytes sob }
      let x := ffiCompress mem c so
      let fnv := x.bytes.foldl fnvStep fnvInit
      let sz := match x.encodedSize with | some v => toString v | none => "u"
      s!"{x.ret}:{sz}:{x.bytes.length}:{fnv}:{b01 x.unwound}"
    | _, _, _ => "bad-op"
  | ["D", q, lgwin, size] =>
    match q.toNat?, lgwin.toNat?, size.toNat? with
    | some q, some lgwin, some size =>
      let s0 := (BV.Stream.setParameter (BV.Stream.setParameter BV.Stream.St.new 1 q).1 2 lgwin).1
      let (s, copied) := setCustomDictionaryHead s0 size
      s!"{b01 s.isInitialized}:{b01 s.params.catable}:{b01 s.params.appendable}:{s.params.quality}:{s.params.lgwin}:{b01 copied}"
    | _, _, _ => "bad-op"
  | ["P", i, id, v] =>
    match id.toNat?, v.toNat? with
    | some id, some v =>
      let s : BV.Stream.St := { BV.Stream.St.new with isInitialized := (i = "1") }
      toString (ffiSetParameter s id v).2
    | _, _ => "bad-op"
  | ["M", d] =>
    match d.toNat? with
    | some d => match multiDispatch d with
      | .reject => "reject"
      | .single => "single"
      | .multi n => s!"multi:{n}"
    | none => "bad-op"
  | ["O", d, c] =>
    match d.toNat? with
    | some d =>
      let idx := (List.range 16).map (opaqueIndex d (c = "1"))
      if idx.any Option.isNone then "panic" else ",".intercalate (idx.map (fun o => toString (o.getD 0)))
    | none => "bad-op"
  | _ => "bad-op"

end BV.Drive.FFI
