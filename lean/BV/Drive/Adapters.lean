import BV.Model.Adapters
import BV.Drive.Util
/-
Line protocol of the `adapters` engine (leading token `adapters` stripped by `Drive.lean`).

  W <bufsize> <cfg> <script> <tail> <fscript> <calls> <trace>      CompressorWriterCustomAlloc (std layer; `Wc`:
                                                                    CompressorWriterCustomIo over IntoIoWriter, no restocking)
      calls (comma separated): w<hex> = write(bytes) · f = flush() · c = into_inner()
  R <bufsize> <cfg> <srchex> <script> <tail> <calls> <trace>       CompressorReaderCustomAlloc (std layer; `Rc`:
                                                                    CompressorReaderCustomIo over IntoIoReader)
      calls: r<n> = read(&mut [0; n]) · t = copy_to_front()
  C <ib> <ob> <cfg> <srchex> <rscript> <rtail> <wscript> <wtail> <trace>
                                                                    BrotliCompressCustomAlloc

  <cfg>      free-form (quality/lgwin of the real run), ignored by the model
  <script>   comma separated behaviours of the wrapped object, `-` = empty:
             F full · S<k> at most k bytes · I Interrupted · E<c> hard error c · Z Ok(0)
  <tail>     behaviour after the script, one of F S<k> E<c> Z
  <trace>    `;`-separated recorded encoder calls, `-` = none:
             <op><availIn>/<cap>:<consumed>:<producedhex>:<ok><more><fin>:<tot>
             op = p (PROCESS) · f (FLUSH) · x (FINISH)

Answer: `<results> n=<#inner calls> h=<fnv of the inner log> acc=<own-buffer accesses>
enc=<#encoder calls> bad=<0|1> sink=<hex>` (reader: `left=<bytes not read from the source>`
instead of `sink`; copy: `rn rh wn wh` for the two logs).  Results, comma separated:
write `ok<n>` · flush/close `ok` · read `ok:<hex>` · copy_to_front `-` · copy `ok<total>` ·
`err:E<c>|WZ|ID|UE` · `panic` · `livelock`; a panic or livelock ends the call list and prints
`acc=- enc=-` (after a livelock every field but the results is `-`).  `bad=1`: the model asked the encoder for something the trace does not contain.
Every loop gets `fuel = 2500` iterations (the harness' bound on the real run).
-/
namespace BV.Drive.Adapters
open BV.Drive BV.Adapters

def fuel : Nat := 2500

def parseBeh (t : String) : Option Beh :=
  match t.toList with
  | ['F'] => some .full
  | ['I'] => some .intr
  | ['Z'] => some .zero
  | 'S' :: ds => (String.ofList ds).toNat?.map .atMost
  | 'E' :: ds => (String.ofList ds).toNat?.map .err
  | _ => none

def parseTail (t : String) : Option Tail :=
  match parseBeh t with
  | some .full => some .full
  | some (.atMost k) => some (.atMost k)
  | some (.err c) => some (.err c)
  | some .zero => some .zero
  | _ => none

def parseList (f : String → Option α) (sep : String) (s : String) : Option (List α) :=
  if s = "-" then some [] else (s.splitOn sep).mapM f

def parseScript (s : String) : Option (List Beh) := parseList parseBeh "," s

def parseOp (c : Char) : Option Op :=
  if c = 'p' then some .process else if c = 'f' then some .flush else if c = 'x' then some .finish else none

def bit (c : Char) : Bool := c = '1'

def parseRecorded (t : String) : Option Recorded :=
  match t.splitOn ":" with
  | [head, cons, hex, flags, tot] =>
    match head.toList, flags.toList with
    | opc :: restc, [a, b, c] =>
      match parseOp opc, (String.ofList restc).splitOn "/" with
      | some op, [ai, cap] =>
        match ai.toNat?, cap.toNat?, cons.toNat?, tot.toNat? with
        | some ai, some cap, some cons, some tot =>
          some ⟨op, ai, cap, ⟨cons, hexToBytes hex, bit a, tot⟩, bit b, bit c⟩
        | _, _, _, _ => none
      | _, _ => none
    | _, _ => none
  | _ => none

def parseTrace (s : String) : Option (List Recorded) := parseList parseRecorded ";" s

def errTok : Err → String
  | .inner c => s!"E{c}"
  | .writeZero => "WZ"
  | .invalidData => "ID"
  | .unexpectedEof => "UE"

def resCode : Res → Nat
  | .n k => 4 * k
  | .intr => 1
  | .err c => 4 * c + 2

/-- digest of a log (stored newest first), oldest entry first -/
def logHash (log : List LogE) : UInt64 :=
  log.reverse.foldl (fun h e => fnvStep (fnvStep (fnvStep h e.kind) e.req) (resCode e.res)) fnvInit

def trailer (results : List String) (log : List LogE) (acc enc : Option Nat) (bad : Bool) (last : String) : String :=
  let r := if results.isEmpty then "-" else ",".intercalate results.reverse
  let f : Option Nat → String := fun o => match o with | some n => toString n | none => "-"
  -- after a livelock the real run is cut off at an unrelated point: only the verdict is compared
  if results.head? = some "livelock" then s!"{r} n=- h=- acc=- enc=- bad={if bad then 1 else 0} -"
  else s!"{r} n={log.length} h={logHash log} acc={f acc} enc={f enc} bad={if bad then 1 else 0} {last}"

/-! ### writer -/

inductive WCall where
  | write (b : Bytes) | flush | close

def parseWCall (t : String) : Option WCall :=
  match t.toList with
  | ['f'] => some .flush
  | ['c'] => some .close
  | 'w' :: rest => some (.write (hexToBytes (String.ofList rest)))
  | _ => none

/-- returns (state, results newest first, stopped?) -/
def runW (std : Bool) : Writer Replay → List WCall → List String → Writer Replay × List String × Bool
  | w, [], acc => (w, acc, false)
  | w, c :: rest, acc =>
    match c with
    | .write b =>
      match (if std then Writer.stdWrite replayEnc fuel w b else Writer.write replayEnc fuel w b) with
      | (w', .done (.ok n)) => runW std w' rest (s!"ok{n}" :: acc)
      | (w', .done (.error e)) => runW std w' rest (s!"err:{errTok e}" :: acc)
      | (w', .panic) => (w', "panic" :: acc, true)
      | (w', .livelock) => (w', "livelock" :: acc, true)
    | .flush =>
      match (if std then Writer.stdFlush replayEnc fuel w else Writer.flush replayEnc fuel w) with
      | (w', .done (.ok ())) => runW std w' rest ("ok" :: acc)
      | (w', .done (.error e)) => runW std w' rest (s!"err:{errTok e}" :: acc)
      | (w', .panic) => (w', "panic" :: acc, true)
      | (w', .livelock) => (w', "livelock" :: acc, true)
    | .close =>
      match Writer.intoInner replayEnc fuel w with
      | (w', .done ()) => runW std w' rest ("ok" :: acc)
      | (w', .panic) => (w', "panic" :: acc, true)
      | (w', .livelock) => (w', "livelock" :: acc, true)

def handleW (std : Bool) (bufsize script tail fscript calls trace : String) : String :=
  match bufsize.toNat?, parseScript script, parseTail tail, parseScript fscript,
        parseList parseWCall "," calls, parseTrace trace with
  | some b, some sc, some tl, some fs, some cs, some tr =>
    let sink : Sink := ⟨sc, tl, fs, [], []⟩
    let (w, res, stopped) := runW std (Writer.new b (Replay.init tr) sink) cs []
    trailer res w.sink.log (if stopped then none else some w.bufAcc) (if stopped then none else some w.elog.length)
      w.enc.bad s!"sink={bytesToHex w.sink.got}"
  | _, _, _, _, _, _ => "bad-op"

/-! ### reader -/

inductive RCall where
  | read (n : Nat) | toFront

def parseRCall (t : String) : Option RCall :=
  match t.toList with
  | ['t'] => some .toFront
  | 'r' :: rest => (String.ofList rest).toNat?.map .read
  | _ => none

def runR (std : Bool) : Reader Replay → List RCall → List String → Reader Replay × List String × Bool
  | r, [], acc => (r, acc, false)
  | r, c :: rest, acc =>
    match c with
    | .read n =>
      match (if std then Reader.stdRead replayEnc fuel r n else Reader.read replayEnc fuel r n) with
      | (r', .done (.ok bs)) => runR std r' rest (s!"ok:{bytesToHex bs}" :: acc)
      | (r', .done (.error e)) => runR std r' rest (s!"err:{errTok e}" :: acc)
      | (r', .panic) => (r', "panic" :: acc, true)
      | (r', .livelock) => (r', "livelock" :: acc, true)
    | .toFront =>
      match r.copyToFront with
      | some r' => runR std r' rest ("-" :: acc)
      | none => (r, "panic" :: acc, true)

def handleR (std : Bool) (bufsize src script tail calls trace : String) : String :=
  match bufsize.toNat?, parseScript script, parseTail tail, parseList parseRCall "," calls, parseTrace trace with
  | some b, some sc, some tl, some cs, some tr =>
    let source : Source := ⟨hexToBytes src, sc, tl, []⟩
    let (r, res, stopped) := runR std (Reader.new b (Replay.init tr) source) cs []
    trailer res r.src.log (if stopped then none else some r.bufAcc) (if stopped then none else some r.elog.length)
      r.enc.bad s!"left={r.src.data.length}"
  | _, _, _, _, _ => "bad-op"

/-! ### copy -/

def handleC (ib ob src rscript rtail wscript wtail trace : String) : String :=
  match ib.toNat?, ob.toNat?, parseScript rscript, parseTail rtail, parseScript wscript, parseTail wtail,
        parseTrace trace with
  | some ib, some ob, some rs, some rt, some ws, some wt, some tr =>
    let source : Source := ⟨hexToBytes src, rs, rt, []⟩
    let sink : Sink := ⟨ws, wt, [], [], []⟩
    let (c, out) := Copy.run replayEnc fuel ib ob (Replay.init tr) source sink
    let (res, stopped) := match out with
      | .done (.ok n) => (s!"ok{n}", false)
      | .done (.error e) => (s!"err:{errTok e}", false)
      | .panic => ("panic", true)
      | .livelock => ("livelock", true)
    let enc := if stopped then "-" else toString c.elog.length
    if res = "livelock" then s!"livelock rn=- rh=- wn=- wh=- enc=- bad={if c.enc.bad then 1 else 0} -" else
    s!"{res} rn={c.src.log.length} rh={logHash c.src.log} wn={c.sink.log.length} wh={logHash c.sink.log} enc={enc} bad={if c.enc.bad then 1 else 0} sink={bytesToHex c.sink.got}"
  | _, _, _, _, _, _, _ => "bad-op"

def handle (args : List String) : String :=
  match args with
  | ["W", b, _cfg, sc, tl, fs, calls, tr] => handleW true b sc tl fs calls tr
  | ["Wc", b, _cfg, sc, tl, fs, calls, tr] => handleW false b sc tl fs calls tr
  | ["R", b, _cfg, src, sc, tl, calls, tr] => handleR true b src sc tl calls tr
  | ["Rc", b, _cfg, src, sc, tl, calls, tr] => handleR false b src sc tl calls tr
  | ["C", ib, ob, _cfg, src, rs, rt, ws, wt, tr] => handleC ib ob src rs rt ws wt tr
  | _ => "bad-op"

end BV.Drive.Adapters
