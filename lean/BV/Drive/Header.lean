import BV.Model.Header
import BV.Model.Stored
import BV.Drive.Util
import BV.Drive.Stream
import BV.Model.StreamNF
/-
Line protocol of the `header` engine (leading token `header` stripped by `Drive.lean`):

  stream <q> <lgwin> <lw> <cat> <app> <dict> <magic> <hint> <inhex> <outhex>
        q, lgwin: decimal, a leading `-` for negatives; flags 0/1; hint decimal (u64);
        inhex = the whole input (≤ one block); outhex = the first bytes of the real output
        → `<whole|prefix> <hex> lgwin=<declared> bits=<1|4|7|14> magic=<0|1>`
          whole : hex = the model's complete stream
          prefix: hex = outhex with its first `nbits` bits replaced by the model's
                  payload-independent beginning (so equality ⇔ those bits agree)
  oneshothdr <q> <lgwin> <inhex> <outhex>
        the one-shot call (`encoder_compress`: large_window iff lgwin > 24, size hint = input length),
        non-empty input; same answer format as `stream`
  lgblock <q> <lgwin> <lgblock> <lw>   → `<quality> <lgwin> <lgblock> <rb bits>` after `ensure_initialized`
        (`SanitizeParams`, `ComputeLgBlock`, `ComputeRbBits`)
  b128 <v>                      → hex of `encode_base_128(v)` (significant bytes)
  bound <start> <count>         → FNV digest (hex) of `BrotliEncoderMaxCompressedSize(start .. start+count)`
  boundv <n>                    → the value (release-build arithmetic) and `!` if the last `+` overflows
  boundm <n> <threads>          → `BrotliEncoderMaxCompressedSizeMulti`
  stored <n> <gen>              → `MakeUncompressedStream` of the n-byte input `gen`:
                                  `<len> <fnv digest> <first 16 bytes> <last 8 bytes>` | `panic`
  oneshot <n> <cap> <T|big>     → `encoder_compress` decision: `<ret> <encoded_size> <kind>`;
                                  T = length of the complete stream-phase output (`big`: above the bound)
  nfrun <call> <call> …         a whole history in the skeleton format of the `stream` engine (`P:` / `C:` / `T:` tokens,
                                inputs `#<len>`, recorded payload-encoder answers) run through `BV.Stream.run`
                                → `<delivered bytes> <input_pos_> <data bytes consumed> <Max(input_pos_)> <spans of the closed meta-blocks joined by , | ->`
                                  (`BV.Stream.nfSummary`, the run-level object of C08's stream clause)
  oneshotrun <q> <lgwin> <n> <cap> <answers | ->
                                the one-shot call over the stream machine (`BV.Stream.oneshotRun`): n zero bytes,
                                `*encoded_size = cap`, the recorded payload-encoder answers of its stream phase
                                → `<ret> <encoded_size> <kind>`
-/
namespace BV.Drive.Header
open BV.Drive BV.Bits BV.Header BV.Stored

def intArg (s : String) : Int :=
  if s.startsWith "-" then - (Int.ofNat (natArg (s.drop 1).toString)) else Int.ofNat (natArg s)

def flag (s : String) : Bool := s = "1"

def bytesToBits (bs : List Nat) : List Bool := bs.flatMap (bitsOf 8)

/-- test content shared with the harness (`gen_bytes` in `harness/src/header.rs`): a 64-bit LCG, top byte -/
def genInput (n gen : Nat) : List Nat := Id.run do
  let mut st : UInt64 := gen.toUInt64 * 0x9E3779B97F4A7C15 + 1
  let mut acc : Array Nat := Array.mkEmpty n
  for _ in [0:n] do
    acc := acc.push (st >>> 56).toNat
    st := st * 6364136223846793005 + 1442695040888963407
  return acc.toList

def foldList (h : UInt64) (l : List Nat) : UInt64 := l.foldl fnvStep h

def hex64 (h : UInt64) : String :=
  String.ofList ((List.range 16).map fun i => hexChar ((h.toNat >>> (60 - 4 * i)) % 16))

def handle (args : List String) : String :=
  match args with
  | ["stream", q, lgwin, lw, cat, app, dict, magic, hint, inhex, outhex] =>
    let p : Params := { quality := intArg q, lgwin := intArg lgwin, lgblock := 0, largeWindow := flag lw,
                        catable := flag cat, appendable := flag app, useDictionary := flag dict,
                        magicNumber := flag magic, sizeHint := natArg hint }
    let i := ensureInitialized true p
    let tailTok := s!"lgwin={headerLgwin i.params} bits={i.lastBytesBits}"
    match streamStart true p (hexToBytes inhex) with
    | .panic => "panic"
    | .fuel => "fuel"
    | .ok st =>
      let m := if st.magic then "1" else "0"
      if st.whole then s!"whole {bytesToHex (toBytes st.bits)} {tailTok} magic={m}"
      else
        let outBits := bytesToBits (hexToBytes outhex)
        let spliced := st.bits ++ outBits.drop st.bits.length
        s!"prefix {bytesToHex (toBytes spliced)} {tailTok} magic={m}"
  | ["oneshothdr", q, lgwin, inhex, outhex] =>
    let input := hexToBytes inhex
    let p := oneshotParams (intArg q) (intArg lgwin) input.length
    let i := ensureInitialized true p
    let tailTok := s!"lgwin={headerLgwin i.params} bits={i.lastBytesBits}"
    match streamStart true p input with
    | .panic => "panic"
    | .fuel => "fuel"
    | .ok st =>
      let m := if st.magic then "1" else "0"
      if st.whole then s!"whole {bytesToHex (toBytes st.bits)} {tailTok} magic={m}"
      else
        let outBits := bytesToBits (hexToBytes outhex)
        let spliced := st.bits ++ outBits.drop st.bits.length
        s!"prefix {bytesToHex (toBytes spliced)} {tailTok} magic={m}"
  | ["lgblock", q, lgwin, lgb, lw] =>
    let p : Params := { quality := intArg q, lgwin := intArg lgwin, lgblock := intArg lgb, largeWindow := flag lw,
                        catable := false, appendable := false, useDictionary := true, magicNumber := false, sizeHint := 0 }
    let i := ensureInitialized true p
    s!"{i.params.quality} {i.params.lgwin} {i.params.lgblock} {computeRbBits i.params}"
  | ["b128", v] => bytesToHex (encodeBase128 (natArg v))
  | ["bound", start, count] =>
    let s := natArg start
    hex64 (foldRange s (s + natArg count) fnvInit fun h n => fnvStep h (maxCompressedSize n))
  | ["boundv", n] =>
    s!"{maxCompressedSize (natArg n)}{if maxCompressedSizeOverflows (natArg n) then "!" else ""}"
  | ["boundm", n, t] => s!"{maxCompressedSizeMulti (natArg n) (natArg t)}"
  | ["stored", n, gen] =>
    let n := natArg n
    match makeUncompressedStream (genInput n (natArg gen)) n (n + 4096) with
    | .panic => "panic"
    | .fuel => "fuel"
    | .ok out =>
      s!"{out.length} {hex64 (foldList fnvInit out)} {bytesToHex (out.take 16)} {bytesToHex (out.drop (out.length - 8))}"
  | ["oneshot", n, cap, t] =>
    let n := natArg n
    let cap := natArg cap
    let mx := maxCompressedSize n
    let so : StreamOutcome :=
      if t = "big" then
        (if cap ≤ mx then { result := true, finished := false, totalOut := cap, bytes := [] }
         else { result := true, finished := true, totalOut := mx + 1, bytes := [] })
      else
        let total := natArg t
        if total ≤ cap then { result := true, finished := true, totalOut := total, bytes := [] }
        else { result := true, finished := false, totalOut := cap, bytes := [] }
    match encoderCompress (List.replicate n 0) n cap cap so with
    | .panic => "panic"
    | .fuel => "fuel"
    | .ok r => s!"{if r.ret then 1 else 0} {r.encodedSize} {r.kind}"
  | "nfrun" :: toks =>
    match BV.Drive.Stream.parseCalls false toks with
    | none => "bad-op"
    | some (calls, answers) =>
      let o : BV.Stream.Oracle := fun k _ => answers.getD k {}
      let fuel := 8 * BV.Stream.histLen calls + 8 * (calls.foldl (fun m c => match c with | .stream _ _ cap => max m cap | _ => m) 0)
                  + (answers.foldl (fun m a => m + a.bits.length) 0) + 8192
      match BV.Stream.run o fuel calls BV.Stream.St.new {} with
      | .ok (st, t) =>
        let sm := BV.Stream.nfSummary st t
        let sp := if sm.2.2.2.2.isEmpty then "-" else ",".intercalate (sm.2.2.2.2.map toString)
        s!"{sm.1} {sm.2.1} {sm.2.2.1} {sm.2.2.2.1} {sp}"
      | .panic => "panic"
      | .fuel => "fuel"
  | ["oneshotrun", q, lgwin, n, cap, ans] =>
    let n := natArg n
    let cap := natArg cap
    let answers : Option (List BV.Stream.Ans) := if ans = "-" then some [] else BV.Drive.Stream.parseAnswers false ans
    match answers with
    | none => "bad-op"
    | some answers =>
      let o : BV.Stream.Oracle := fun k _ => answers.getD k {}
      let fuel := 8 * n + 8 * cap + (answers.foldl (fun m a => m + a.bits.length) 0) + 8192
      match BV.Stream.oneshotRun o fuel (intArg q) (intArg lgwin) (List.replicate n 0) cap cap with
      | none => "stream-phase-failed"
      | some (.ok r) => s!"{if r.ret then 1 else 0} {r.encodedSize} {r.kind}"
      | some .panic => "panic"
      | some .fuel => "fuel"
  | _ => "bad-op"

end BV.Drive.Header
