import BV.Model.MetaBlockFull
import BV.Drive.Util
/-! Line protocol of engine `metablock` (see `/verif/harness/src/metablock.rs`):

    metablock store <trivial|fast> <islast 0|1> <dist_alphabet_size> <ix0> <byte0> <mask> <start> <len> <ringhex> <cmds>
        the real writer on a storage whose first `ix0` (0..7) bits hold the low bits of `byte0`
        answer: `ok <storage_ix> <hex of storage[..(storage_ix+7)/8]>` | `panic`
    metablock hyp <npostfix> <ndirect> <dist_alphabet_size> <lgwin> <dc0,dc1,dc2,dc3> <histhex> <mbhex> <cmds> <words>
        the hypotheses of the round-trip theorems evaluated on a command array:
        answer: `wf=<0|1> lock=<0|1> replay=<0|1>`
    metablock read <streamhex> <words>
        the RFC reader `readStream` on a whole stream: `ok <hex of the decoded bytes>` | `fail`
    metablock storefull <islast> <npostfix> <ndirect> <dist_alphabet_size> <large 0|1> <mode 0..3> <prev_byte> <prev_byte2>
                        <ix0> <byte0> <mask> <start> <len> <ringhex> <cmds> <mb>
        the real `BrotliStoreMetaBlock`; answer as for `store`
        mb = <lit split>@<cmd split>@<dist split>@<lit cmap>@<dist cmap>@<lit histos>@<cmd histos>@<dist histos>
        split = num_types/num_blocks/types/lengths (comma lists or `-`)     cmap = size/v,… (or `-`)     histos = size/h|h|…  with h = sym:count,… | -
    metablock readg <streamhex> <words>
        the GENERAL RFC reader `readStreamG` on a whole stream: `ok <hex>` | `fail`
    metablock cmap <size> <num_clusters> <v,…>
        `EncodeContextMap`: `ok <storage_ix> <hex> rd=<NTREES>:<the map the general reader reads back>` | `panic`   (maps in run-length syntax `v` | `vxN`)
    metablock bsw <num_types> <types,…> <lengths,…>
        `BuildAndStoreBlockSplitCode` then `StoreBlockSwitch` for blocks 1..: `ok <storage_ix> <hex> rd=<type:length;…>` | `panic`
    cmds  = ins:copyfield:extra:cmdprefix:distprefix;…  | -
    words = len:id:transform:hex,… | -        (recorded expansions of static-dictionary words)
-/
namespace BV.Drive.MetaBlock
open BV.Drive BV.Bits BV.Recoder BV.MetaBlock

def parseCmd (s : String) : Option Cmd :=
  match s.splitOn ":" with
  | [a, b, c, d, e] => some ⟨natArg a, natArg b, natArg c, natArg d, natArg e⟩
  | _ => none

def parseCmds (s : String) : Option (List Cmd) :=
  if s = "-" then some [] else (s.splitOn ";").mapM parseCmd

def parseWords (s : String) : List (Nat × Nat × Nat × Bytes) :=
  if s = "-" then [] else
  (s.splitOn ",").filterMap fun t =>
    match t.splitOn ":" with
    | [l, i, tr, h] => some (natArg l, natArg i, natArg tr, hexToBytes h)
    | _ => none

def lookupWord (ws : List (Nat × Nat × Nat × Bytes)) : WordOracle := fun l i tr =>
  match ws.find? (fun x => x.1 == l && x.2.1 == i && x.2.2.1 == tr) with
  | some (_, _, _, b) => some b
  | none => none

/-- bits of a byte string, first bit first -/
def bytesBits (bs : Bytes) : List Bool := bs.foldr (fun b acc => bitsOf 8 b ++ acc) []

def listArg (s : String) : List Nat := if s = "-" then [] else (s.splitOn ",").map natArg

def parseBSplit (s : String) : Option BSplit :=
  match s.splitOn "/" with
  | [nt, nb, ts, ls] => some ⟨natArg nt, natArg nb, listArg ts, listArg ls⟩
  | _ => none

def parseCmap (s : String) : Option (Nat × List Nat) :=
  match s.splitOn "/" with
  | [sz, vs] => some (natArg sz, listArg vs)
  | _ => none

/-- sparse histogram `sym:count,…` over `n` symbols -/
def parseHisto (n : Nat) (s : String) : List Nat :=
  if s = "-" then List.replicate n 0 else
  (s.splitOn ",").foldl (fun h t =>
    match t.splitOn ":" with
    | [a, b] => h.set (natArg a) (natArg b)
    | _ => h) (List.replicate n 0)

def parseHistos (n : Nat) (s : String) : Option (Nat × List (List Nat)) :=
  match s.splitOn "/" with
  | [sz, hs] => some (natArg sz, if hs = "" then [] else (hs.splitOn "|").map (parseHisto n))
  | _ => none

def parseMb (s : String) : Option MBSplit :=
  match s.splitOn "@" with
  | [a, b, c, d, e, f, g, h] =>
    match parseBSplit a, parseBSplit b, parseBSplit c, parseCmap d, parseCmap e, parseHistos 256 f, parseHistos 704 g,
      parseHistos 544 h with
    | some l, some cm, some ds, some (ls, lm), some (dsz, dm), some (lhs, lh), some (chs, ch), some (dhs, dh) =>
      some ⟨l, cm, ds, lm, ls, dm, dsz, lh, lhs, ch, chs, dh, dhs⟩
    | _, _, _, _, _, _, _, _ => none
  | _ => none

def showNats (l : List Nat) : String := if l.isEmpty then "-" else ",".intercalate (l.map toString)

/-- run-length list syntax `v` | `vxN`, comma separated -/
def rleArg (s : String) : List Nat :=
  if s = "-" then [] else
  (s.splitOn ",").foldr (fun t acc =>
    match t.splitOn "x" with
    | [v, n] => List.replicate (natArg n) (natArg v) ++ acc
    | _ => natArg t :: acc) []

def showRle (l : List Nat) : String :=
  let rec go : List Nat → Option (Nat × Nat) → List String → List String
    | [], none, acc => acc.reverse
    | [], some (v, n), acc => ((if n = 1 then toString v else s!"{v}x{n}") :: acc).reverse
    | x :: xs, none, acc => go xs (some (x, 1)) acc
    | x :: xs, some (v, n), acc =>
      if x = v then go xs (some (v, n + 1)) acc
      else go xs (some (x, 1)) ((if n = 1 then toString v else s!"{v}x{n}") :: acc)
  if l.isEmpty then "-" else ",".intercalate (go l none [])

def b01 (b : Bool) : String := if b then "1" else "0"

def handle (args : List String) : String :=
  match args with
  | ["store", v, il, da, ix0, byte0, mask, start, len, ring, cmds] =>
    match parseCmds cmds with
    | none => "bad-op"
    | some cmds =>
      let w0 := bitsOf (natArg ix0) (natArg byte0)
      let isLast := natArg il != 0
      let r := if v = "trivial" then
          some (storeMetaBlockTrivial (hexToBytes ring) (natArg start) (natArg len) (natArg mask) isLast (natArg da) cmds w0)
        else if v = "fast" then
          some (storeMetaBlockFast (hexToBytes ring) (natArg start) (natArg len) (natArg mask) isLast (natArg da) cmds w0)
        else none
      match r with
      | none => "bad-op"
      | some (.ok w) => s!"ok {w.length} {bytesToHex (toBytes w)}"
      | some .panic => "panic"
      | some .fuel => "fuel"
  | ["hyp", np, nd, da, lgwin, dc, hist, mb, cmds, words] =>
    match parseCmds cmds with
    | none => "bad-op"
    | some cmds =>
      let wo := lookupWord (parseWords words)
      let np := natArg np
      let nd := natArg nd
      let window := 2 ^ natArg lgwin - 16
      let ring : List Int := (dc.splitOn ",").map fun s => s.toInt?.getD 0
      let h := hexToBytes hist
      let m := hexToBytes mb
      let wf := cmds.all (cmdOK (natArg da) np nd)
      let lock := lockstep wo np nd window m ⟨h, ring, 0⟩ 0 cmds
      let rp := replayCommands wo np nd window m ring h cmds == some (h ++ m)
      s!"wf={b01 wf} lock={b01 lock} replay={b01 rp}"
  | ["storefull", il, np, nd, da, large, mode, prev, prev2, ix0, byte0, mask, start, len, ring, cmds, mb] =>
    match parseCmds cmds, parseMb mb with
    | some cmds, some mb =>
      let w0 := bitsOf (natArg ix0) (natArg byte0)
      match storeMetaBlockFull (hexToBytes ring) (natArg start) (natArg len) (natArg mask) (natArg prev) (natArg prev2)
          (natArg il != 0) ⟨natArg np, natArg nd, natArg da, natArg large != 0⟩ (natArg mode) cmds mb w0 with
      | .ok w => s!"ok {w.length} {bytesToHex (toBytes w)}"
      | .panic => "panic"
      | .fuel => "fuel"
    | _, _ => "bad-op"
  | ["readg", stream, words] =>
    match readStreamG (lookupWord (parseWords words)) (bytesBits (hexToBytes stream)) with
    | some out => s!"ok {bytesToHex out}"
    | none => "fail"
  | ["cmap", size, ncl, vs] =>
    let m := rleArg vs
    match encodeContextMap m (natArg size) (natArg ncl) [] with
    | .ok w =>
      let rd := match readContextMap (natArg size) w with
        | some (nt, m', []) => s!"{nt}:{showRle m'}"
        | some (_, _, _) => "leftover"
        | none => "fail"
      s!"ok {w.length} {bytesToHex (toBytes w)} rd={rd}"
    | .panic => "panic"
    | .fuel => "fuel"
  | ["bsw", nt, ts, ls] =>
    let types := listArg ts
    let lengths := listArg ls
    let split : BSplit := ⟨natArg nt, types.length, types, lengths⟩
    let r := (buildAndStoreBlockSplitCode split BSCode.init []).bind fun (c, w) =>
      ((types.zip lengths).drop 1).foldlM (fun (cw : BSCode × Writer) tl =>
        storeBlockSwitch cw.1 tl.2 tl.1 false cw.2) (c, w)
    match r with
    | .ok (_, w) =>
      let rd := match readCatHeader w with
        | none => "fail"
        | some (cat, bs) =>
          if cat.nbl < 2 then s!"single:{cat.count}" else
          match readSwitches (types.length - 1) cat bs [(0, cat.count)] with
          | some (l, []) => ";".intercalate (l.map fun (p : Nat × Nat) => s!"{p.1}:{p.2}")
          | some (_, _) => "leftover"
          | none => "fail"
      s!"ok {w.length} {bytesToHex (toBytes w)} rd={rd}"
    | .panic => "panic"
    | .fuel => "fuel"
  | ["read", stream, words] =>
    match readStream (lookupWord (parseWords words)) (bytesBits (hexToBytes stream)) with
    | some out => s!"ok {bytesToHex out}"
    | none => "fail"
  | _ => "bad-op"

end BV.Drive.MetaBlock
