import BV.Model.MetaBlock
import BV.Drive.Util
/-! Line protocol of engine `metablock` (see `/verif/harness/src/metablock.rs`):

    metablock store <trivial|fast> <islast 0|1> <dist_alphabet_size> <ix0> <byte0> <mask> <start> <len> <ringhex> <cmds>
        the real writer on a storage whose first `ix0` (0..7) bits hold the low bits of `byte0`
        answer: `ok <storage_ix> <hex of storage[..(storage_ix+7)/8]>` | `panic`
    metablock hyp <npostfix> <ndirect> <dist_alphabet_size> <lgwin> <dc0,dc1,dc2,dc3> <histhex> <mbhex> <cmds> <words>
        the hypotheses of the round-trip theorems evaluated on a command array:
        answer: `wf=<0|1> lock=<0|1> replay=<0|1>`
    metablock read <streamhex> <words>
        the RFC reader `readStream` on a whole stream: `ok <hex of the decoded bytes>` | `fail`
    cmds  = ins:copyfield:extra:cmdprefix:distprefix;…  | -
    words = len:id:transform:hex,… | -        (recorded expansions of static-dictionary words)
-/
namespace BV.Drive.MetaBlock
open BV.Drive BV.Bits BV.Recoder BV.MetaBlock

def parseCmd (s : String) : Option Cmd :=
  match s.splitOn ":" with
  | [a, b, c, d, e] => some ⟨natArg a, natArg b, natArg c, natArg d, natArg e⟩
  | _ => none

def parseCmds (s : String) : Option (List Cmd) :=
  if s = "-" then some [] else (s.splitOn ";").mapM parseCmd

def parseWords (s : String) : List (Nat × Nat × Nat × Bytes) :=
  if s = "-" then [] else
  (s.splitOn ",").filterMap fun t =>
    match t.splitOn ":" with
    | [l, i, tr, h] => some (natArg l, natArg i, natArg tr, hexToBytes h)
    | _ => none

def lookupWord (ws : List (Nat × Nat × Nat × Bytes)) : WordOracle := fun l i tr =>
  match ws.find? (fun x => x.1 == l && x.2.1 == i && x.2.2.1 == tr) with
  | some (_, _, _, b) => some b
  | none => none

/-- bits of a byte string, first bit first -/
def bytesBits (bs : Bytes) : List Bool := bs.foldr (fun b acc => bitsOf 8 b ++ acc) []

def b01 (b : Bool) : String := if b then "1" else "0"

def handle (args : List String) : String :=
  match args with
  | ["store", v, il, da, ix0, byte0, mask, start, len, ring, cmds] =>
    match parseCmds cmds with
    | none => "bad-op"
    | some cmds =>
      let w0 := bitsOf (natArg ix0) (natArg byte0)
      let isLast := natArg il != 0
      let r := if v = "trivial" then
          some (storeMetaBlockTrivial (hexToBytes ring) (natArg start) (natArg len) (natArg mask) isLast (natArg da) cmds w0)
        else if v = "fast" then
          some (storeMetaBlockFast (hexToBytes ring) (natArg start) (natArg len) (natArg mask) isLast (natArg da) cmds w0)
        else none
      match r with
      | none => "bad-op"
      | some (.ok w) => s!"ok {w.length} {bytesToHex (toBytes w)}"
      | some .panic => "panic"
      | some .fuel => "fuel"
  | ["hyp", np, nd, da, lgwin, dc, hist, mb, cmds, words] =>
    match parseCmds cmds with
    | none => "bad-op"
    | some cmds =>
      let wo := lookupWord (parseWords words)
      let np := natArg np
      let nd := natArg nd
      let window := 2 ^ natArg lgwin - 16
      let ring : List Int := (dc.splitOn ",").map fun s => s.toInt?.getD 0
      let h := hexToBytes hist
      let m := hexToBytes mb
      let wf := cmds.all (cmdOK (natArg da) np nd)
      let lock := lockstep wo np nd window m ⟨h, ring, 0⟩ 0 cmds
      let rp := replayCommands wo np nd window m ring h cmds == some (h ++ m)
      s!"wf={b01 wf} lock={b01 lock} replay={b01 rp}"
  | ["read", stream, words] =>
    match readStream (lookupWord (parseWords words)) (bytesBits (hexToBytes stream)) with
    | some out => s!"ok {bytesToHex out}"
    | none => "fail"
  | _ => "bad-op"

end BV.Drive.MetaBlock
