import BV.Model.Ledger
import BV.Model.AllocSkel
import BV.Gen.LedgerSkel
import BV.Drive.Util
/-!
Line protocol of engine `ledger` (C09).

* `ledger inst <rust|ffi> <q> <tok>…` — one streaming history.  `tok = name:d0,…,d8,sA/F` where `name` is
  `cr` (create) `mk` (caller makes a pre-computed hasher) `sd` (set dictionary) `sdh` (set dictionary
  with the pre-computed hasher) `cs` (compress_stream / take_output) `cl` (destroy instance) `fd`
  (C-ABI destroy) and `d0..d8` say what happened to the slots storage, commands, ring, hasher, table,
  cbuf, lbuf, ext, self: `=` unchanged, else `<fate><kind>` with fate of the old content `-` (none),
  `F` freed, `D` dropped/abandoned without free, `M` moved to another slot and kind of the new content
  `-` (none), `T` taken over from another slot, `N<len>[+<len>]` newly allocated; `sA/F` = temporaries
  allocated / freed inside the call.  The model re-derives the deltas from its own run and answers, per
  op, `o<owed>a<allocs>f<frees>x<foreign>s<storage_size_>c<cmd_alloc_size_>`; an impossible event
  or a different delta gives `bad-event…` / `mismatch…`.
* `ledger ep <entry point> <args>` — class of a canonical history of the entry point under the
  generated site flags: `clean`, `leak`, `foreign`, `leak+foreign`.
* `ledger cq <cap0> <pushes>` — the IR command queue from its first allocation through `pushes` pushes to
  `free`: `a=<allocs> f=<frees> live=<n> caps=<c0+c1+…> loc=<n> ok=<0|1>`.
* `ledger sk <root> q<quality> log<0|1> <ev>…` — trace inclusion for the allocation skeletons generated from the Rust
  source (`BV/Gen/LedgerSkel.lean`): the events (`A:<type>` / `F:<type>`, in order) the counting allocator
  recorded while ONE activation of `<root>` ran must be the event sequence of some path of the expanded
  skeleton (`BV.Skel.accepts`): `ok`, else `not-a-path`.  `ok` is also the answer when no claim is made: the
  root has no skeleton, the configuration enters a callee that is known to be opaque (`BrotliBuildMetaBlock`
  at quality ≥ 10, `LogMetaBlock` with IR logging), or the expansion contains an opaque callee outside that
  list (extraction of some function failed after a refactoring: the run-time check decides).
* `ledger log <ev>…` — the spec-side judge on a raw allocator log (`A<a>.<n>`, `F<via>.<a>.<n>`,
  `D<a>.<n>`): `owed=… foreign=… dropped=… double=… unknown=…`.
-/
namespace BV.Drive.Ledger
open BV.Drive BV.Ledger

def splitChar (c : Char) (s : String) : List String := s.splitOn (String.singleton c)

def dropChars (n : Nat) (s : String) : String := String.ofList (s.toList.drop n)

structure Delta where
  same : Bool
  fate : Char := '-'
  kind : Char := '-'     -- '-', 'T', 'N'
  lens : List Nat := []

def parseDelta (t : String) : Option Delta :=
  if t = "=" then some { same := true } else
  match t.toList with
  | f :: k :: rest =>
    if k = 'N' then
      match (splitChar '+' (String.ofList rest)).mapM String.toNat? with
      | some ls => some { same := false, fate := f, kind := 'N', lens := ls }
      | none => none
    else if rest.isEmpty ∧ (k = '-' ∨ k = 'T') then some { same := false, fate := f, kind := k }
    else none
  | _ => none

def newLen (d : Delta) : Option Nat := if d.kind = 'N' then d.lens.head? else none
def newLens (d : Delta) : List Nat := if d.kind = 'N' then d.lens else []

def slotOrder : List Slot := [.storage, .commands, .ring, .hasher, .table, .cbuf, .lbuf, .ext, .self]

def allIn (xs ys : List BlockId) : Bool := xs.all (fun x => ys.contains x)

/-- the delta of one slot as the model sees it -/
def renderDelta (w w' : W) (live' : List BlockId) (s : Slot) (lens : List Nat) : String :=
  let old := w.enc.get s
  let new := w'.enc.get s
  if old = new then "=" else
  let fate : String :=
    if old.isEmpty then "-"
    else if allIn old w'.enc.held then "M"
    else if old.all (fun b => !live'.contains b) then "F" else "D"
  let kind : String :=
    if new.isEmpty then "-"
    else if allIn new w.enc.held then "T"
    else "N" ++ "+".intercalate (lens.map toString)
  fate ++ kind

def opOf (ffi : Bool) (name : String) (ds : List Delta) (temps : Nat) : Option Op :=
  match ds with
  | [st, cm, rg, hs, tb, cb, _lb, ex, _se] =>
    match name with
    | "cr" => some (.create ffi)
    | "mk" => if ex.kind = 'N' then some (.mkExt ex.lens) else none
    | "sd" => some (.setDict (newLen rg) (newLens hs))
    | "sdh" => some (.setDictExt (newLen rg) (newLens hs))
    | "cs" => some (.cs { storage := newLen st, commands := newLen cm, ring := newLen rg, hasher := newLens hs,
                           table := newLen tb, q1bufs := newLen cb, temps := temps })
    | "cl" => some .cleanup
    | "fd" => some .ffiDestroy
    | _ => none
  | _ => none

def parseTemps (t : String) : Option (Nat × Nat) :=
  match t.toList with
  | 's' :: rest =>
    match splitChar '/' (String.ofList rest) with
    | [a, b] => match a.toNat?, b.toNat? with
      | some x, some y => some (x, y)
      | _, _ => none
    | _ => none
  | _ => none

def ansOf (w : W) : String :=
  let j := judge w.log
  s!"o{j.live.length}a{j.allocs}f{j.frees}x{j.foreign}s{w.ss}c{w.ca}"

def instLoop (fl : Flags) (ffi : Bool) : W → List String → Nat → List String → String
  | _, [], _, acc => " ".intercalate acc.reverse
  | w, tok :: rest, k, acc =>
    match splitChar ':' tok with
    | [name, body] =>
      let parts := splitChar ',' body
      if parts.length ≠ 10 then s!"bad-op@{k}" else
      match (parts.take 9).mapM parseDelta, parseTemps (parts.getD 9 "") with
      | some ds, some (ta, tf) =>
        if ta ≠ tf then s!"bad-event@{k}:scoped-unbalanced" else
        match opOf ffi name ds ta with
        | none => s!"bad-op@{k}"
        | some op =>
          match step fl w op with
          | .error e => s!"bad-event@{k}:{e}"
          | .ok w' =>
            let live' := (judge w'.log).live
            let mine := ",".intercalate ((slotOrder.zip ds).map (fun (s, d) => renderDelta w w' live' s d.lens))
            let theirs := ",".intercalate (parts.take 9)
            if mine ≠ theirs then s!"mismatch@{k}:{mine}" else
            instLoop fl ffi w' rest (k + 1) (ansOf w' :: acc)
      | _, _ => s!"bad-op@{k}"
    | _ => s!"bad-op@{k}"

def handleInst (args : List String) : String :=
  match args with
  | kind :: q :: toks =>
    if kind ≠ "rust" ∧ kind ≠ "ffi" then "bad-op" else
    instLoop Flags.current (kind = "ffi") (W.init 0 (natArg q)) toks 0 []
  | _ => "bad-op"

/-- a canonical non-trivial body for quality `q` -/
def canonBody (q : Nat) : List Op :=
  [.cs { storage := some 1000, ring := some 100,
         commands := if 2 ≤ q then some 10 else none,
         hasher := if 2 ≤ q then [1, 1] else [],
         table := if q ≤ 1 then some 2048 else none, temps := 3 },
   .cs { storage := some 2000, temps := 1 }]

def argNat (pfx : String) (args : List String) : Nat :=
  match args.find? (fun a => a.startsWith pfx) with
  | some a => natArg (dropChars pfx.length a)
  | none => 0

def handleEp (args : List String) : String :=
  let fl := Flags.current
  match args with
  | name :: rest =>
    let q := argNat "q" rest
    let w0 := W.init 0 q
    let body := canonBody q
    match name with
    | "writer-drop" | "writer-into-inner" => classOf (run fl w0 (epWriter fl body))
    | "reader-drop" | "reader-into-inner" => classOf (run fl w0 (epReader fl body))
    | "copy" => classOf (run fl w0 (epCopy fl body))
    | "oneshot" =>
      if argNat "early" rest = 1 then "clean" else
      -- the one-shot function maps quality 10 to 9 (+ the 9.5 hasher made up front)
      let q' := if q = 10 then 9 else q
      let hb : List Op := if q = 10 then [.cs { storage := some 1000, ring := some 100, commands := some 10, temps := 3 }] else canonBody q'
      classOf (run fl (W.init 0 q') (epOneshot fl (q = 10) 1 [1, 1] hb))
    | "multi" | "ffi-pool" => classOf (run fl w0 (epJob fl (name = "multi") [] none body (argNat "ok" rest = 1)))
    | "ffi-multi" =>
      if argNat "t" rest = 1 then classOf (run fl w0 (epFfiSingle fl body))
      else classOf (run fl w0 (epJob fl false [] none body true))
    | _ => "bad-op"
  | _ => "bad-op"

def parseBlock (a n : String) : Option BlockId :=
  match a.toNat?, n.toNat? with
  | some x, some y => some ⟨x, y⟩
  | _, _ => none

def parseEv (t : String) : Option Ev :=
  match t.toList with
  | 'A' :: rest => match splitChar '.' (String.ofList rest) with
    | [a, n] => (parseBlock a n).map Ev.alloc
    | _ => none
  | 'F' :: rest => match splitChar '.' (String.ofList rest) with
    | [v, a, n] => match v.toNat?, parseBlock a n with
      | some via, some b => some (Ev.free via b)
      | _, _ => none
    | _ => none
  | 'D' :: rest => match splitChar '.' (String.ofList rest) with
    | [a, n] => (parseBlock a n).map Ev.drop
    | _ => none
  | _ => none

def handleLog (args : List String) : String :=
  match args.mapM parseEv with
  | none => "bad-op"
  | some evs =>
    let j := judge evs
    s!"owed={j.live.length} foreign={j.foreign} dropped={j.dropped} double={j.double} unknown={j.unknown + j.realloc}"

/-- `ledger cq <cap0> <pushes>`: the IR command queue from its first allocation (`cap0` slots) through
    `pushes` pushes to `free`: allocations, frees, the sequence of capacities, and whether `free` is `Ok` -/
def handleCq (args : List String) : String :=
  match args with
  | [c, p] =>
    let w0 : W := (W.init 0 5).acts [.alloc 0 .tmp 1]
    let s := cqPushN (natArg p) (w0, ⟨natArg c, 0, false⟩)
    let r := cqFree s
    let j := judge r.1.log
    -- capacities: cap0 doubled until the final capacity
    let rec caps (fuel cur last : Nat) (acc : List Nat) : List Nat :=
      match fuel with
      | 0 => acc.reverse
      | f + 1 => if cur ≥ last then (cur :: acc).reverse else caps f (cur * 2) last (cur :: acc)
    let cs := if natArg c = 0 then [0] else caps 64 (natArg c) s.2.cap []
    s!"a={j.allocs} f={j.frees} live={j.live.length} caps={"+".intercalate (cs.map toString)} loc={s.2.loc} ok={if r.2 then 1 else 0}"
  | _ => "bad-op"

/-! ### `ledger sk` -/

def skFuel : Nat := 16

def skRoot (name : String) : Option (BV.Skel.Sk × List Nat) :=
  match BV.Gen.skelRoots.find? (fun r => r.1 = name) with
  | none => none
  | some r => (BV.Skel.rootOf BV.Gen.skelFns skFuel r.2.1 r.2.2).map (fun s => (s, r.2.2))

def opaquesOf : BV.Skel.Sk → List Nat
  | .seq a b => opaquesOf a ++ opaquesOf b
  | .alt a b => opaquesOf a ++ opaquesOf b
  | .loop b => opaquesOf b
  | .scope _ b => opaquesOf b
  | .opaque f => [f]
  | .call f _ _ => [f]
  | _ => []

def fnName (f : Nat) : String := BV.Gen.skelFnNames.getD f "?"

/-- callees that may be opaque: `BrotliBuildMetaBlock` / `LogMetaBlock` allocate (an activation that enters them
    makes no claim, see `handleSk`); `UpdateNodes` has no allocation of its own (it is opaque only because the
    extractor cannot parse it) and counts as event-free -/
def knownOpaque : List String := ["BrotliBuildMetaBlock", "LogMetaBlock", "UpdateNodes"]

def parseSkEv (t : String) : Option (Bool × Nat) :=
  match splitChar ':' t with
  | [k, ty] =>
    let i := BV.Gen.skelTypes.idxOf ty
    let n := if i < BV.Gen.skelTypes.length then i else 0
    if k = "A" then some (true, n) else if k = "F" then some (false, n) else none
  | _ => none

def handleSk (args : List String) : String :=
  match args with
  | name :: q :: lg :: evs =>
    match skRoot name with
    | none => "ok"
    | some (sk, _) =>
      let ops := (opaquesOf sk).map fnName
      if ops.any (fun n => !knownOpaque.contains n) then "ok" else
      if ops.contains "BrotliBuildMetaBlock" ∧ 10 ≤ argNat "q" [q] then "ok" else
      if ops.contains "LogMetaBlock" ∧ argNat "log" [lg] = 1 then "ok" else
      match evs.mapM parseSkEv with
      | none => "not-a-path"
      | some w => if BV.Skel.accepts sk w.toArray then "ok" else "not-a-path"
  | _ => "bad-op"

def handle (args : List String) : String :=
  match args with
  | "cq" :: rest => handleCq rest
  | "sk" :: rest => handleSk rest
  | "inst" :: rest => handleInst rest
  | "ep" :: rest => handleEp rest
  | "log" :: rest => handleLog rest
  | _ => "bad-op"

end BV.Drive.Ledger
