import BV.Model.Window
import BV.Lemmas.HeaderSpec
import BV.Drive.Util
/-
Line protocol of the `window` engine (leading token `window` stripped by `Drive.lean`):

  init <q> <lgwin> <lw> <mode> <np> <nd>
        raw request: quality, lgwin decimal with a leading `-` for negatives; lw 0/1; mode 0..6 (enum
        discriminant of BrotliEncoderMode); np, nd = the preset `params.dist` fields
        → `<quality> <lgwin> <lgblock> <np'> <nd'> <alphabet_size> <max_distance> <last_bytes> <last_bytes_bits> decl=<W> form=<0|1>`
          the first nine fields from `BV.Window.genInit` / `genHeaderBits` (generated definitions), `decl` /
          `form` from the RFC 9.1 reader `BV.HeaderSpec.readWbits` applied to the staged header bits
-/
namespace BV.Drive.Window
open BV.Drive BV.Bits BV.Window

def intArg (s : String) : Int :=
  if s.startsWith "-" then - (Int.ofNat (natArg (s.drop 1).toString)) else Int.ofNat (natArg s)

def handle (args : List String) : String :=
  match args with
  | ["init", q, lgwin, lw, mode, np, nd] =>
    let gp : GenParams := { (default : GenParams) with
      quality := intArg q, lgwin := intArg lgwin, large_window := (lw = "1"), mode := natArg mode,
      dist := ⟨natArg np, natArg nd, 0, 0⟩ }
    let g := genInit gp
    let hb := genHeaderBits gp
    let rd := match BV.HeaderSpec.readWbits (bitsOf hb.2 hb.1) with
      | some (w, form, _) => s!"decl={w} form={if form then 1 else 0}"
      | none => "decl=? form=?"
    s!"{g.quality} {g.lgwin} {g.lgblock} {g.dist.distance_postfix_bits} {g.dist.num_direct_distance_codes} {g.dist.alphabet_size} {g.dist.max_distance} {hb.1} {hb.2} {rd}"
  | _ => "bad-op"

end BV.Drive.Window
