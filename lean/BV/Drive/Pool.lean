import BV.Model.Pool
import BV.Drive.Util
namespace BV.Drive.Pool
open BV.Drive BV.Pool BV.FixedQueue

/-- `"s12"` → `('s', some 12)`; `"u"` → `('u', none)` -/
def splitTok (t : String) : Option (Char × Option Nat) :=
  match t.toList with
  | [] => none
  | c :: [] => some (c, none)
  | c :: ds => match (String.ofList ds).toNat? with
    | some n => some (c, some n)
    | none => none

def parseOp (t : String) : Option Op :=
  match splitTok t with
  | some ('s', some i) => some (.spawn i)
  | some ('j', some n) => some (.join n)
  | some ('u', none) => some .unwrapInput
  | some ('d', none) => some .dropPool
  | _ => none

def parseChoice (t : String) : Option Choice :=
  match t.toNat? with
  | some n => some (.run n)
  | none =>
    match splitTok t with
    | some ('w', some n) => some (.spurious n)
    | _ => none

def parseList {β : Type} (f : String → Option β) (s : String) : Option (List β) :=
  if s = "-" then some [] else (s.splitOn ",").mapM f

def evStr : Ev → String
  | .exit => "x"
  | .pop id => s!"p{id}"
  | .wait => "w"
  | .run id => s!"r{id}"
  | .publish id => s!"b{id}"
  | .wake => "k"
  | .spawn id => s!"s{id}"
  | .join id v => s!"j{id}={v}"
  | .unwrap ok => if ok then "u1" else "u0"
  | .drop fin => if fin then "d!" else "d"
  | .joinW fin => if fin then "J!" else "J"
  | .spurious => "~"

def siteStr : PanicSite → String
  | .jobsPush => "jobs-push"
  | .resultsPush => "results-push"
  | .nipUnderflow => "nip-underflow"
  | .removeAssert => "remove-assert"

def errStr : Err → String
  | .badChoice => "bad-choice"
  | .badProg => "bad-prog"
  | .panic site => s!"panic:{siteStr site}"

/-- the token printed for the step that produced `s` -/
def stepTok (s : State) : String :=
  match s.hist with
  | (tid, e) :: _ => s!"{tid}{evStr e}:{s.jobs.size},{s.numInProgress},{s.results.size},{s.arc}"
  | [] => "?"

def endTok (s : State) : String :=
  if s.done then "end:done" else if s.anyRunnable then "end:running" else "end:stuck"

/-- tokens (newest first) for running `cs` from `s` -/
def runToks (s : State) : List Choice → List String → List String
  | [], acc => endTok s :: acc
  | c :: cs, acc =>
    match step s c with
    | .ok s' => runToks s' cs (stepTok s' :: acc)
    | .error e => errStr e :: acc

/-- `pool <n> <prog> <sched>` (leading token stripped) -/
def handlePool (args : List String) : String :=
  match args with
  | [n, prog, sched] =>
    match n.toNat?, parseList parseOp prog, parseList parseChoice sched with
    | some n, some p, some cs => " ".intercalate (runToks (init n p) cs []).reverse
    | _, _, _ => "bad-op"
  | _ => "bad-op"

inductive FqOp where
  | push (v : Nat) | pop | remove (v : Nat)

def parseFqOp (t : String) : Option FqOp :=
  match splitTok t with
  | some ('p', some v) => some (.push v)
  | some ('o', none) => some .pop
  | some ('r', some v) => some (.remove v)
  | _ => none

def optStr : Option Nat → String
  | some v => toString v
  | none => "none"

def fqToks (q : FixedQueue Nat) : List FqOp → List String → List String
  | [], acc => s!"size={q.size}" :: acc
  | .push v :: ops, acc =>
    match q.push v with
    | some q' => fqToks q' ops ("ok" :: acc)
    | none => fqToks q ops ("err" :: acc)
  | .pop :: ops, acc =>
    let (r, q') := q.pop
    fqToks q' ops (optStr r :: acc)
  | .remove v :: ops, acc =>
    match q.remove (fun o => o == some v) with
    | some (r, q') => fqToks q' ops (optStr r :: acc)
    | none => "panic" :: acc

/-- `fq <ops>` (leading token stripped) -/
def handleFq (args : List String) : String :=
  match args with
  | [ops] =>
    match parseList parseFqOp ops with
    | some l => " ".intercalate (fqToks FixedQueue.new l []).reverse
    | none => "bad-op"
  | _ => "bad-op"

end BV.Drive.Pool
