import BV.Model.E2EStream
import BV.Drive.Util
/-
Line protocol of the `e2e` engine (the leading token `e2e` is stripped by `Drive.lean`): ONE fresh encoder at
quality 2 or 3, driven through a history of `compress_stream` calls; the Lean side computes EVERYTHING from the
input bytes: ring buffer, hasher tables, commands, distance caches, meta-block boundaries, the stored/compressed
decision and the output bytes (`BV.E2E.compressStreamE2E`: the stream machine of BV/Model/Stream.lean with the payload
model BV/Model/E2E.lean as its oracle).

  <quality> <lgwin> <large> <usedict> <appendable> <catable> <magic> <sizehint> <lbs> <input> <call>… [D<pos>=<slots>]…
    <input>  = `x<hex>` | `g<seed>.<len>.<alpha>.<rep>` (generated text, `genText`)
    <call>   = `C<op>:<n>:<cap>:<hint>`  compress_stream(op, the next n input bytes, available_out = cap);
               `hint` = FNV-1a of the bytes the real call produced — used ONLY to choose the verdict of the float decision
               `should_compress` (the model is run with verdict true; if its output digest differs from the hint it
               is run with verdict false; the answer printed is the model's own either way)
    D<pos>=<item>.<sizebits>.<wordhex>   static-dictionary slot looked up for the 4 bytes at ring position pos
  answer: one token per call
    `<ret>:<consumed>:<outlen>:<outfnv>:<inv>` with `<inv>` = `-` (no payload-encoder invocation) or
    `<emit><wrote>.<ncmds>.<cmddigest>.<dist_cache,16>.<saved,4>.<last_insert_len>.<num_literals>.<lp>.<lf>`
    (ncmds/cmddigest: the commands handed to WriteMetaBlockInternal if a meta-block was written, else those kept)
  `panic` / `fuel` / `bad-op` end the line.
-/
namespace BV.Drive.E2E
open BV.Drive BV.Stream BV.E2E BV.Bits
open BV.MatchFinder (DictItem)

def b2n (b : Bool) : Nat := if b then 1 else 0

def fnv1a (bs : List Nat) : Nat := bs.foldl (fun h b => ((h ^^^ (b % 256)) * 16777619) % 4294967296) 2166136261

/-- generated text: an LCG picks literals from an alphabet of `alpha` letters and, with probability `rep`%, starts
a copy run of 4..63 bytes from 1..3000 bytes back -/
def genText (seed len alpha rep : Nat) : List Nat := Id.run do
  let mut x : Nat := seed % 4294967296
  let mut run : Nat := 0
  let mut back : Nat := 1
  let mut t : Array Nat := Array.mkEmpty len
  for i in [0:len] do
    x := (x * 1664525 + 1013904223) % 4294967296
    if run > 0 ∧ i ≥ back then
      t := t.push (t[i - back]!)
      run := run - 1
    else
      let r := x >>> 16
      if r % 100 < rep then
        run := 4 + (r >>> 7) % 60
        back := 1 + (x >>> 4) % 3000
      t := t.push (97 + r % (max alpha 1))
  return t.toList

def parseInput (t : String) : Option (List Nat) :=
  if t.startsWith "x" then some (hexToBytes (t.drop 1).toString)
  else if t.startsWith "g" then
    match (t.drop 1).toString.splitOn "." with
    | [s, l, a, r] => some (genText (natArg s) (natArg l) (natArg a) (natArg r))
    | _ => none
  else none

def parseSlots (toks : List String) : List (Nat × List DictItem) :=
  toks.filterMap fun t =>
    if t.startsWith "D" then
      match (t.drop 1).toString.splitOn "=" with
      | [cm, items] =>
        some (natArg cm, (items.splitOn "+").filterMap fun it =>
          match it.splitOn "." with
          | [i, b, w] => some ⟨natArg i, natArg b, hexToBytes w⟩
          | _ => none)
      | _ => none
    else none

def cmdDigest (cs : List BV.Recoder.Cmd) : UInt64 :=
  cs.foldl (fun h c =>
    fnvStep (fnvStep (fnvStep (fnvStep (fnvStep h c.insertLen) c.copyLenField) c.distExtra) c.cmdPrefix) c.distPrefix) fnvInit

def showInv (s : St) (r : Res) : String :=
  let dc := ",".intercalate (r.st.distCache.map toString)
  let sdc := ",".intercalate (r.st.savedDistCache.map toString)
  s!"{b2n r.emit}{b2n r.wrote}.{r.cmds.length}.{cmdDigest r.cmds}.{dc}.{sdc}.{r.st.lastInsertLen}.{r.st.numLiterals}.{s.lastProcessedPos}.{s.lastFlushPos}"

def showCall (input : List Nat) (c : CallOut) : String :=
  let inv := match c.invs.getLast? with
    | none => "-"
    | some r => showInv c.s r
  s!"{b2n c.ret}:{input.length - c.io.availIn}:{c.io.out.length}:{fnv1a c.io.out}:{inv}"

def runCalls (lbs : Nat) (dict : ByteArray → Nat → Option (List DictItem)) :
    St → PSt → List Nat → List String → List String → List String
  | _, _, _, [], acc => acc
  | s, ps, rest, tok :: toks, acc =>
    match (tok.drop 1).toString.splitOn ":" with
    | [op, n, cap, hint] =>
      if ¬ tok.startsWith "C" ∨ op.toNat?.isNone ∨ n.toNat?.isNone ∨ cap.toNat?.isNone ∨ hint.toNat?.isNone then "bad-op" :: acc else
      let input := rest.take (natArg n)
      let fuel := 8 * input.length + 4 * s.pending.length + 4096
      let run (v : Bool) := compressStreamE2E lbs dict v fuel s ps (natArg op) input (natArg cap)
      let r1 := run true
      let pick : Out CallOut := match r1 with
        | .ok c =>
          if fnv1a c.io.out = natArg hint then r1
          else match run false with
            | .ok c2 => if fnv1a c2.io.out = natArg hint then .ok c2 else r1
            | _ => r1
        | o => o
      match pick with
      | .panic => "panic" :: acc
      | .fuel => "fuel" :: acc
      | .ok c => runCalls lbs dict c.s c.ps (rest.drop (input.length - c.io.availIn)) toks (showCall input c :: acc)
    | _ => "bad-op" :: acc

def handle : List String → String
  | q :: lgwin :: large :: usedict :: app :: cat :: magic :: hint :: lbs :: input :: rest =>
    match parseInput input with
    | none => "bad-op"
    | some text =>
      let calls := rest.filter (·.startsWith "C")
      let table := parseSlots rest
      let dict : ByteArray → Nat → Option (List DictItem) := fun _ cm =>
        match table.find? (·.1 == cm) with
        | some (_, its) => some its
        | none => some [⟨0, 0, []⟩]
      let sets : List (Nat × Nat) :=
        [(1, natArg q), (2, natArg lgwin), (6, natArg large), (5, natArg hint)]
        ++ (if natArg cat = 1 then [(167, 1)] else []) ++ (if natArg app = 1 then [(168, 1)] else [])
        ++ (if natArg magic = 1 then [(169, 1)] else [])
      let s := sets.foldl (fun s (p : Nat × Nat) => (setParameter s p.1 p.2).1) St.new
      -- `params.use_dictionary` is a public field: the harness pokes it after the set_parameter calls
      let s := { s with params := { s.params with useDict := natArg usedict = 1 } }
      " ".intercalate (runCalls (natArg lbs) dict s (PSt.init (natArg cat == 1)) text calls []).reverse
  | _ => "bad-op"

end BV.Drive.E2E
