import BV.Model.Fragment
import BV.Drive.Util
/-! Line protocol of engine `fragment` (see `/verif/harness/src/fragment.rs`):

    fragment q1 <input> <is_last 0|1> <table_size> <cap> <ix0> <b0> <b1> <storlen> <stale> <dec>
        `compress_fragment_two_pass` on `input` with `command_buf`/`literal_buf` of `cap` entries, a zeroed
        table, a storage of `storlen` bytes filled with the byte `stale` except `storage[0] = b0`,
        `storage[1] = b1`, starting at `storage_ix = ix0`; `dec` = the `ShouldCompress` answers, one
        `0`/`1` per block (`-` = none)
        answer: `ok <storage_ix> <fnv of storage[..(ix+7)/8]> <storage[ix>>3]> rp=<r> cc=<c> rd=<d>` | `panic`
          r: for inputs ≤ 4096 bytes, `replayQ1` of the model's command buffer of every compressed
             block reproduces the block (1/0); `x` = not evaluated
          c (`cc=`): same inputs as r: the hypothesis `CmdCodeOK` of the block theorem holds of the model's
             command buffer of every compressed block (1/0/x)
          d: for inputs ≤ 400 bytes with ix0 = 0, the RFC reader `readMetaBlocks` on the written
             bits (+ an empty last meta-block unless is_last) returns the input (1/0); `x` = not evaluated
    fragment q1cc <input> <input_index> <block_size> <input_size> <table_bits> <cap>
        `CreateCommands` on a zeroed table: `ok <num_literals> <num_commands> <fnv literals> <fnv commands>` | `panic`
    fragment q1store <ix0> <b0> <storlen> <stale> <litshex> <cmds,…>
        `StoreCommands`: `ok <storage_ix> <hex of storage[..(ix+7)/8]>` | `panic`
    fragment q1replay <lgwin> <histhex> <blockhex> <litshex> <cmds,…>
        `replayQ1` from the state (hist, ring 4,11,15,16): `1` when it returns hist ++ block, else `0`
    fragment rewind <new_ix> <hex>            `RewindBitPosition`: `ok <hex>` | `panic`
    fragment unc <ix0> <storhex> <datahex>    `EmitUncompressedMetaBlock` (two-pass): `ok <ix> <hex of the whole storage>` | `panic`
    fragment upd <n_bits> <bits> <pos> <hex>  `UpdateBits`: `ok <hex>` | `panic`
    fragment lithisto <input>                 q0 literal histogram: `<total> <fnv of the 256 counts>`
    fragment litcode <input>                  q0 `BuildAndStoreLiteralPrefixCode` on an empty storage:
                                              `ok <bits written> <ratio> <depths hex>` | `panic`
    input = gen:<class>:<seed>:<size> | hex:<hex>
-/
namespace BV.Drive.Fragment
open BV.Drive BV.Bits BV.Fragment

def mix (z : UInt64) : UInt64 :=
  let z := (z ^^^ (z >>> 30)) * 0xBF58476D1CE4E5B9
  let z := (z ^^^ (z >>> 27)) * 0x94D049BB133111EB
  z ^^^ (z >>> 31)

def hh (seed x : UInt64) : UInt64 := mix (seed + x * 0x9E3779B97F4A7C15)

def textByte (seed : UInt64) (i : Nat) : Nat :=
  let l := 5 + (seed % 11).toNat
  let j := i / l
  let p := (hh (seed ^^^ 1) j.toUInt64 % 40).toNat
  let r := (hh (seed ^^^ 2) (p * 64 + i % l).toUInt64 % 29).toNat
  if r ≥ 26 then 32 else 97 + r

def genByte (cls : Nat) (seed : UInt64) (n i : Nat) : Nat :=
  match cls with
  | 0 => (hh seed i.toUInt64 % 256).toNat
  | 1 => textByte seed i
  | 2 => if i < n * 3 / 4 then 97 + (hh seed i.toUInt64 % 4).toNat else (hh seed i.toUInt64 % 256).toNat
  | 3 =>
    if hh (seed ^^^ 3) i.toUInt64 % 1024 == 0 then (hh seed i.toUInt64 % 256).toNat
    else (hh seed (i / (1 + (seed % 97).toNat * 13)).toUInt64 % 256).toNat
  | 4 => if (i / 65536) % 2 == 0 then textByte seed i else (hh seed i.toUInt64 % 256).toNat
  | 5 => (seed % 256).toNat
  | 6 => textByte seed (i % 70000)
  | 7 => textByte seed (i % 263000)
  | 8 => if (i / 65536) % 2 == 1 then textByte seed i else (hh seed i.toUInt64 % 256).toNat
  | _ => 0

def parseInput (s : String) : Option (Array Nat) :=
  match s.splitOn ":" with
  | ["gen", c, sd, n] =>
    let n := natArg n
    some (Array.ofFn (n := n) fun i => genByte (natArg c) (natArg sd).toUInt64 n i.val)
  | ["hex", h] => some (hexToBytes h).toArray
  | _ => none

def fnvBytes (a : Array Nat) (n : Nat) : UInt64 :=
  foldRange 0 n fnvInit fun h i => fnvStep h (a.getD i 0)

def fnvList (l : List Nat) : UInt64 := l.foldl fnvStep fnvInit

def mkSto (storlen stale ix0 b0 b1 : Nat) : Sto :=
  ⟨((Array.replicate storlen stale).setIfInBounds 0 b0).setIfInBounds 1 b1, ix0⟩

def listArg (s : String) : List Nat := if s = "-" then [] else (s.splitOn ",").map natArg

def decFn (s : String) : Nat → Bool :=
  let l := if s = "-" then [] else s.toList.map (· == '1')
  fun k => l.getD k false

/-- bits of a byte array, first bit first -/
def bytesBits (a : Array Nat) (n : Nat) : List Bool :=
  (List.range n).foldr (fun i acc => bitsOf 8 (a.getD i 0) ++ acc) []

def noWords : BV.Recoder.WordOracle := fun _ _ _ => none

/-- replay of the model's command buffers, block by block (same loop as `twoPassImpl`) -/
def replayAll (inp : Array Nat) (tableBits minMatch cap : Nat) (dec : Nat → Bool) :
    Nat → Nat → Nat → Nat → Array Int → BV.MetaBlock.RdSt → Bool
  | 0, _, _, _, _, _ => false
  | f + 1, k, inputIndex, inputSize, table, st =>
    if inputSize = 0 then true else
    let blockSize := min inputSize kBlockSize
    match createCommands inputIndex blockSize inputSize inp table tableBits minMatch cap cap with
    | .ok (table, lits, cmds) =>
      let block := (inp.extract inputIndex (inputIndex + blockSize)).toList
      let st' : Option BV.MetaBlock.RdSt :=
        if dec k then replayQ1 noWords 262128 blockSize cmds lits 0 st
        else some ⟨st.out ++ block, st.ring⟩
      match st' with
      | some st' =>
        if st'.out == st.out ++ block then
          replayAll inp tableBits minMatch cap dec f (k + 1) (inputIndex + blockSize) (inputSize - blockSize) table st'
        else false
      | none => false
    | _ => false

/-- the hypothesis `CmdCodeOK` of the block theorem, evaluated: `BuildAndStoreCommandPrefixCode` on the
histogram of `cmds` returns, the RFC reader reads the two stored descriptions back (alphabets 704, 64) using
all the bits, and every code word of `cmds` is decoded to its symbol -/
def cmdCodeCheck (cmds : List Nat) : Bool :=
  match cmdHistoQ1 cmds with
  | .ok ch =>
    match buildAndStoreCommandPrefixCodeQ1 ch (List.replicate 128 0) (List.replicate 128 0) [] with
    | .ok (cmdD, cmdB, w) =>
      match BV.MetaBlock.readCode 704 w with
      | some (cmdC, r1) =>
        match BV.MetaBlock.readCode 64 r1 with
        | some (distC, []) =>
          cmds.all fun c =>
            let code := c % 256
            let d := cmdD.getD code 0
            let b := cmdB.getD code 0
            decide (code < 128) && decide (d ≤ 56) && decide (b < 2 ^ d) &&
              (if code < 64 then cmdC.read (bitsOf d b) == some (q1Symbol code, [])
               else distC.read (bitsOf d b) == some (code - 64, []))
        | _ => false
      | none => false
    | _ => false
  | _ => false

/-- `cmdCodeCheck` on the command buffer of every compressed block (same loop as `twoPassImpl`) -/
def ccAll (inp : Array Nat) (tableBits minMatch cap : Nat) (dec : Nat → Bool) :
    Nat → Nat → Nat → Nat → Array Int → Bool
  | 0, _, _, _, _ => false
  | f + 1, k, inputIndex, inputSize, table =>
    if inputSize = 0 then true else
    let blockSize := min inputSize kBlockSize
    match createCommands inputIndex blockSize inputSize inp table tableBits minMatch cap cap with
    | .ok (table, _, cmds) =>
      (!(dec k) || cmdCodeCheck cmds) &&
        ccAll inp tableBits minMatch cap dec f (k + 1) (inputIndex + blockSize) (inputSize - blockSize) table
    | _ => false

def hexArr (a : Array Nat) (n : Nat) : String := bytesToHex ((a.extract 0 n).toList)

def handle : List String → String
  | ["q1", inp, isLast, tsize, cap, ix0, b0, b1, storlen, stale, dec] =>
    match parseInput inp with
    | none => "bad-op"
    | some a =>
      let n := a.size
      let tsize := natArg tsize
      let cap := natArg cap
      let table : Array Int := Array.replicate tsize 0
      let s0 := mkSto (natArg storlen) (natArg stale) (natArg ix0) (natArg b0) (natArg b1)
      let d := decFn dec
      match compressFragmentTwoPass a n (isLast == "1") cap cap table tsize d s0 with
      | .ok s =>
        let nb := (s.ix + 7) / 8
        let tb := log2 tsize
        let mm := if tb < 15 then 4 else 6
        let rp := if n ≤ 4096 ∧ 8 ≤ tb ∧ tb ≤ 17 then
            (if replayAll a tb mm cap d (n / kBlockSize + 2) 0 0 n table ⟨[], [4, 11, 15, 16]⟩ then "1" else "0")
          else "x"
        let cc := if n ≤ 4096 ∧ 8 ≤ tb ∧ tb ≤ 17 then
            (if ccAll a tb mm cap d (n / kBlockSize + 2) 0 0 n table then "1" else "0")
          else "x"
        let rd := if n ≤ 400 ∧ natArg ix0 = 0 then
            let bits := (bytesBits s.bytes nb).take s.ix ++
              (if isLast == "1" then [] else [true, true] ++ List.replicate ((8 - (s.ix + 2) % 8) % 8) false)
            match BV.MetaBlock.readMetaBlocks noWords 262128 false (n + 8) 0 ⟨[], [4, 11, 15, 16]⟩ bits with
            | some (st, rest) => if st.out == a.toList ∧ rest.all (· == false) then "1" else "0"
            | none => "0"
          else "x"
        s!"ok {s.ix} {fnvBytes s.bytes nb} {s.bytes.getD (s.ix / 8) 0} rp={rp} cc={cc} rd={rd}"
      | _ => "panic"
  | ["q1cc", inp, ii, bs, isz, tb, cap] =>
    match parseInput inp with
    | none => "bad-op"
    | some a =>
      let tb := natArg tb
      match createCommands (natArg ii) (natArg bs) (natArg isz) a (Array.replicate (2 ^ tb) 0) tb
          (if tb < 15 then 4 else 6) (natArg cap) (natArg cap) with
      | .ok (_, lits, cmds) => s!"ok {lits.length} {cmds.length} {fnvList lits} {fnvList cmds}"
      | _ => "panic"
  | ["q1store", ix0, b0, storlen, stale, lits, cmds] =>
    let s0 := mkSto (natArg storlen) (natArg stale) (natArg ix0) (natArg b0) (natArg stale)
    match storeCommands (hexToBytes lits) (listArg cmds) s0 with
    | .ok s => s!"ok {s.ix} {hexArr s.bytes ((s.ix + 7) / 8)}"
    | _ => "panic"
  | ["q1replay", lgwin, hist, block, lits, cmds] =>
    let h := hexToBytes hist
    let b := hexToBytes block
    match replayQ1 noWords (2 ^ natArg lgwin - 16) b.length (listArg cmds) (hexToBytes lits) 0 ⟨h, [4, 11, 15, 16]⟩ with
    | some st => if st.out == h ++ b then "1" else "0"
    | none => "0"
  | ["rewind", newIx, hex] =>
    let a := (hexToBytes hex).toArray
    match rewindBitPosition (natArg newIx) ⟨a, 0⟩ with
    | .ok s => s!"ok {hexArr s.bytes s.bytes.size}"
    | _ => "panic"
  | ["unc", ix0, stor, data] =>
    match emitUncompressedMetaBlock (hexToBytes data) ⟨(hexToBytes stor).toArray, natArg ix0⟩ with
    | .ok s => s!"ok {s.ix} {hexArr s.bytes s.bytes.size}"
    | _ => "panic"
  | ["upd", nb, bits, pos, hex] =>
    match updateBits 64 (natArg nb) (natArg bits) (natArg pos) (hexToBytes hex).toArray with
    | .ok a => s!"ok {hexArr a a.size}"
    | _ => "panic"
  | ["lithisto", inp] =>
    match parseInput inp with
    | none => "bad-op"
    | some a =>
      let (h, t) := literalHistogram a.toList
      s!"{t} {fnvList h}"
  | ["litcode", inp] =>
    match parseInput inp with
    | none => "bad-op"
    | some a =>
      match buildAndStoreLiteralPrefixCode a.toList [] with
      | .ok (d, _, w, r) => s!"ok {w.length} {r} {bytesToHex d}"
      | _ => "panic"
  | _ => "bad-op"

end BV.Drive.Fragment
