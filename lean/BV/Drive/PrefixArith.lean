import BV.Model.PrefixArith
import BV.Drive.Util
namespace BV.Drive.PrefixArith
open BV.Drive BV.PrefixArith

/-- requests of the `arith` engine; every answer is a single line -/
def handle (args : List String) : String :=
  match args with
  | ["ins", lo, hi] =>
    toString (foldRange (natArg lo) (natArg hi) fnvInit fun h n => fnvStep h (getInsertLengthCode n))
  | ["copy", lo, hi] =>
    toString (foldRange (natArg lo) (natArg hi) fnvInit fun h n => fnvStep h (getCopyLengthCode n))
  | ["blen", lo, hi] =>
    toString (foldRange (natArg lo) (natArg hi) fnvInit fun h n =>
      let (c, ne, e) := getBlockLengthPrefixCode n
      fnvStep (fnvStep (fnvStep h c) ne) e)
  | ["cmdsym"] =>
    toString (foldRange 0 (24 * 24 * 2) fnvInit fun h i =>
      fnvStep h (combineLengthCodes (i / 48) (i / 2 % 24) (i % 2 == 1)))
  | ["lencode", lo, hi] =>   -- get_length_code(ins = n, copy = max 2 (n mod 3000), last = n odd)
    toString (foldRange (natArg lo) (natArg hi) fnvInit fun h n =>
      fnvStep h (getLengthCode n (max 2 (n % 3000)) (n % 2 == 1)))
  | ["dist", p, nd, lo, hi] =>
    let p := natArg p; let nd := natArg nd
    toString (foldRange (natArg lo) (natArg hi) fnvInit fun h dc =>
      let c := prefixEncodeCopyDistance dc nd p
      fnvStep (fnvStep h c.packed) c.extra32)
  | ["restore", p, nd, lo, hi] =>
    let p := natArg p; let nd := natArg nd
    toString (foldRange (natArg lo) (natArg hi) fnvInit fun h dc =>
      let c := prefixEncodeCopyDistance dc nd p
      fnvStep h (restoreDistanceCode c.packed c.extra32 nd p))
  | ["distv", p, nd, dc] =>
    let c := prefixEncodeCopyDistance (natArg dc) (natArg nd) (natArg p)
    s!"{c.packed} {c.extra32} {restoreDistanceCode c.packed c.extra32 (natArg nd) (natArg p)}"
  | ["insv", n] => toString (getInsertLengthCode (natArg n))
  | ["copyv", n] => toString (getCopyLengthCode (natArg n))
  | ["blenv", n] => let (c, ne, e) := getBlockLengthPrefixCode (natArg n); s!"{c} {ne} {e}"
  | ["mlen", lo, hi] =>
    toString (foldRange (natArg lo) (natArg hi) fnvInit fun h n =>
      let (b, nb, nib) := encodeMlen n
      fnvStep (fnvStep (fnvStep h b) nb) nib)
  | ["mlenv", n] => let (b, nb, nib) := encodeMlen (natArg n); s!"{b} {nb} {nib}"
  | ["varlen", lo, hi] =>
    toString (foldRange (natArg lo) (natArg hi) fnvInit fun h n =>
      (storeVarLenUint8 n).foldl (fun h (a, b) => fnvStep (fnvStep h a) b) h)
  | ["cmdextra", lo, hi] =>  -- Command::new(ins = n, copylen = 2 + n mod 4000, code = copylen + (n mod 7) - 3 clamped ≥ 2)
    toString (foldRange (natArg lo) (natArg hi) fnvInit fun h n =>
      let cl := 2 + n % 4000
      let cc := max 2 (cl + n % 7 - 3)
      let f := packCopyLen cl cc
      let (nb, v) := storeCommandExtra n f
      fnvStep (fnvStep (fnvStep (fnvStep h f) (copyLenCode f)) nb) v)
  | ["cmdextrav", n] =>
      let n := natArg n
      let cl := 2 + n % 4000
      let cc := max 2 (cl + n % 7 - 3)
      let f := packCopyLen cl cc
      let (nb, v) := storeCommandExtra n f
      s!"{f} {copyLenCode f} {nb} {v}"
  | _ => "bad-op"

end BV.Drive.PrefixArith
