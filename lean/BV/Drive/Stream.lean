import BV.Model.Stream
import BV.Model.StreamRun
import BV.Drive.Util
/-
Line protocol of the `stream` engine (the leading token `stream` is stripped by `Drive.lean`):

  <mode> <call> <call> …        one fresh encoder, `mode` = `f` (bytes compared), `k` (skeleton:
                                lengths and counters only; inputs are `#<len>`, oracle bits absent) or
                                `r` (ring content: like `k`, but inputs are `@<start>.<len>` = the bytes
                                b(start), …, b(start+len-1) of the fixed sequence b(p) = ((p * 2654435761) / 2048) % 256
                                and the ring-buffer content digest is compared)
    P:<id>:<value>              set_parameter(id, value)            → `<ret>:<digest>`
    C:<op>:<in>+<extra>:<cap>[:<a>/<a>…]
                                compress_stream(op, next_in = in ++ extra arbitrary bytes,
                                available_out = cap); op 0 PROCESS 1 FLUSH 2 FINISH 3 EMIT_METADATA;
                                `<in>` = hex | `-` | `#<len>` | `@<start>.<len>`; the `<a>` are the recorded answers
                                of the payload-encoder invocations of this call, in order:
                                `<result>.<emit>.<nbits>.<hexbits|->` (all bits appended behind
                                the carry by that invocation; emit = "nothing left unflushed")
                                → `<ret>:<consumed>:<producedhex | #len>:<reqs>:<digest>`
                                  reqs = `<site>.<lo>.<hi>.<lf>.<last>.<flush>` joined by `/`, `-` if none
    T:<size>                    take_output(size)                   → `<n>:<hex | ->:<digest>`
  digest = st,ip,lf,lp,lb(-1 in skeleton mode; 0 when lbb = 0: the code leaves a stale byte there),lbb,ao,rm,le,init,to,fm,q,w,b,hint,cat,app,magic,lw,
           mode,dlcm,usedict,rpos,rcur,2*fin+more,ral(data_mo.len()),rdg(-1 in skeleton mode)
  rdg = FNV-1a over ringbuffer_.data_mo at the indices (those below ral, in this order) 0, 1, 2+((pos-j)&mask) for j = 1..32,
        2+size+((pos-j)&mask) for j = 1..32, 2+(pos&mask)+i for i < 7: prefix, the last bytes written, their tail mirror, the slack
  After the last call's answer, one more token summarises the WHOLE history as computed by the
  run-level object `BV.Stream.run` (one oracle for the whole line = all recorded answers in order):
    `R:<delivered bytes>:<FNV-1a of the delivered bytes | ->:<requests>:<closed flags 0/1… | ->:<data bytes consumed>:<metadata bytes consumed>`
  (omitted when a call of the line panicked, ran out of fuel or was malformed).
  A model panic prints `panic` for that call and ends the line, fuel exhaustion `fuel`, an
  oracle answer that contradicts the skeleton appends `!oracle` to the call's answer; a
  malformed token prints `bad-op`.
-/
namespace BV.Drive.Stream
open BV.Drive BV.Stream BV.Bits

def b2n (b : Bool) : Nat := if b then 1 else 0

def fnv1a (bs : List Nat) : Nat := bs.foldl (fun h b => ((h ^^^ (b % 256)) * 16777619) % 4294967296) 2166136261

def ringDigest (rb : Ring) : Nat :=
  if rb.allocLen = 0 then 0 else
  let back (j : Nat) : Nat := ((rb.pos + 4294967296 - (j + 1)) % 4294967296) % (rb.mask + 1)
  let idxs := [0, 1] ++ (List.range 32).map (fun j => 2 + back j) ++ (List.range 32).map (fun j => 2 + rb.size + back j)
              ++ (List.range 7).map (fun i => 2 + rb.pos % (rb.mask + 1) + i)
  fnv1a ((idxs.filter (fun i => decide (i < rb.allocLen))).map rb.get)

def genByte (p : Nat) : Nat := ((p * 2654435761) / 2048) % 256

def digest (s : St) (full : Bool) (ring : Bool := full) : String :=
  let p := s.params
  let lb : String := if full then toString (if s.lastBytesBits = 0 then 0 else s.lastBytes) else "-1"
  let fin := b2n (isFinished s) * 2 + b2n (hasMoreOutput s)
  s!"{s.streamState.code},{s.inputPos},{s.lastFlushPos},{s.lastProcessedPos},{lb},{s.lastBytesBits},{s.pending.length},{s.remainingMetadata},{b2n s.isLastBlockEmitted},{b2n s.isInitialized},{s.totalOut},{s.isFirstMb.code},{p.quality},{p.lgwin},{p.lgblock},{p.sizeHint},{b2n p.catable},{b2n p.appendable},{b2n p.magic},{b2n p.largeWindow},{p.mode},{p.dlcm},{b2n p.useDict},{s.ring.pos},{s.ring.curSize},{fin},{s.ring.allocLen},{if ring then toString (ringDigest s.ring) else "-1"}"

def bitsOfBytes (bs : List Nat) (n : Nat) : List Bool := (bytesBits bs).take n

def parseAns (full : Bool) (t : String) : Option Ans :=
  match t.splitOn "." with
  | [r, e, n, h] =>
    let nb := natArg n
    let bits := if full then bitsOfBytes (hexToBytes h) nb else List.replicate nb false
    if full ∧ bits.length ≠ nb then none else
    some { result := r == "1", emit := e == "1", bits := bits }
  | _ => none

def parseAnswers (full : Bool) (t : String) : Option (List Ans) :=
  (t.splitOn "/").foldr (fun a acc => match acc, parseAns full a with
    | some l, some x => some (x :: l)
    | _, _ => none) (some [])

def parseInput (t : String) : Option (List Nat) :=
  let (h, extra) := match t.splitOn "+" with
    | [h, e] => (h, natArg e)
    | [h] => (h, 0)
    | _ => ("?", 0)
  if h == "?" then none
  else if h.startsWith "#" then some (List.replicate (natArg (h.drop 1).toString + extra) 0)
  else if h.startsWith "@" then
    match (h.drop 1).toString.splitOn "." with
    | [st, ln] => some ((List.range (natArg ln)).map (fun i => genByte (natArg st + i)) ++ List.replicate extra 0)
    | _ => none
  else some (hexToBytes h ++ List.replicate extra 0)

def reqToken (r : Req) : String := s!"{r.site}.{r.lo}.{r.hi}.{r.lf}.{b2n r.isLast}.{b2n r.forceFlush}"

def runCalls (full : Bool) (ring : Bool) : St → List String → List String → List String
  | _, [], acc => acc
  | s, tok :: rest, acc =>
    match tok.splitOn ":" with
    | ["P", id, v] =>
      if id.toNat?.isNone ∨ v.toNat?.isNone then "bad-op" :: acc else
      let (s', r) := setParameter s (natArg id) (natArg v)
      runCalls full ring s' rest (s!"{b2n r}:{digest s' full ring}" :: acc)
    | ["T", n] =>
      if n.toNat?.isNone then "bad-op" :: acc else
      match takeOutput s (natArg n) with
      | .panic => "panic" :: acc
      | .fuel => "fuel" :: acc
      | .ok (s', out) =>
        let h := if full then bytesToHex out else "-"
        runCalls full ring s' rest (s!"{out.length}:{h}:{digest s' full ring}" :: acc)
    | "C" :: op :: inp :: cap :: more =>
      let answers : Option (List Ans) := match more with
        | [] => some []
        | [a] => parseAnswers full a
        | _ => none
      match op.toNat?, parseInput inp, cap.toNat?, answers with
      | some op, some input, some cap, some answers =>
        if op > 3 then "bad-op" :: acc else
        let base := s.nEnc
        let o : Oracle := fun k _ => answers.getD (k - base) {}
        let fuel := 8 * input.length + 4 * s.pending.length + 4 * cap + 4096
        match compressStream o fuel s op input cap with
        | .panic => "panic" :: acc
        | .fuel => "fuel" :: acc
        | .ok (s', io, ret) =>
          let consumed := input.length - io.availIn
          let prod := if full then bytesToHex io.out else s!"#{io.out.length}"
          let reqs := if io.reqs.isEmpty then "-" else "/".intercalate (io.reqs.map reqToken)
          let bad := if s'.oracleBad ∨ (full ∧ s'.prefixBad) ∨ (s'.nEnc - base ≠ answers.length) then "!oracle" else ""
          let s' := { s' with oracleBad := false, prefixBad := false }
          runCalls full ring s' rest (s!"{b2n ret}:{consumed}:{prod}:{reqs}:{digest s' full ring}{bad}" :: acc)
      | _, _, _, _ => "bad-op" :: acc
    | _ => "bad-op" :: acc

/-- one token as a `Call` of the run-level object, with its recorded answers -/
def parseCall (full : Bool) (tok : String) : Option (Call × List Ans) :=
  match tok.splitOn ":" with
  | ["P", id, v] => if id.toNat?.isNone ∨ v.toNat?.isNone then none else some (.setParam (natArg id) (natArg v), [])
  | ["T", n] => if n.toNat?.isNone then none else some (.take (natArg n), [])
  | "C" :: op :: inp :: cap :: more =>
    let answers : Option (List Ans) := match more with
      | [] => some []
      | [a] => parseAnswers full a
      | _ => none
    match op.toNat?, parseInput inp, cap.toNat?, answers with
    | some op, some input, some cap, some answers => if op > 3 then none else some (.stream op input cap, answers)
    | _, _, _, _ => none
  | _ => none

def parseCalls (full : Bool) (toks : List String) : Option (List Call × List Ans) :=
  toks.foldr (fun t acc => match acc, parseCall full t with
    | some (cs, as), some (c, a) => some (c :: cs, a ++ as)
    | _, _ => none) (some ([], []))

/-- the run-level summary token of a line -/
def runSummary (full : Bool) (toks : List String) : Option String :=
  match parseCalls full toks with
  | none => none
  | some (calls, answers) =>
    let o : Oracle := fun k _ => answers.getD k {}
    let fuel := 8 * histLen calls + 8 * (calls.foldl (fun m c => match c with | .stream _ _ cap => max m cap | _ => m) 0)
                + (answers.foldl (fun m a => m + a.bits.length) 0) + 8192
    match run o fuel calls St.new {} with
    | .ok (_, t) =>
      let h := if full then toString (fnv1a t.delivered) else "-"
      let cl := if t.closed.isEmpty then "-" else String.mk (t.closed.map (fun b => if b then '1' else '0'))
      some s!"R:{t.delivered.length}:{h}:{t.reqs.length}:{cl}:{t.data.length}:{t.mdata.length}"
    | _ => none

def handle (args : List String) : String :=
  match args with
  | mode :: calls =>
    if mode ≠ "f" ∧ mode ≠ "k" ∧ mode ≠ "r" then "bad-op" else
    let outs := (runCalls (mode == "f") (mode != "k") St.new calls []).reverse
    let clean := outs.length == calls.length && outs.all (fun a => a != "panic" && a != "fuel" && a != "bad-op")
    let outs := if clean then (match runSummary (mode == "f") calls with | some r => outs ++ [r] | none => outs) else outs
    " ".intercalate outs
  | _ => "bad-op"

end BV.Drive.Stream
