/- line protocol of the catable parameter set (engine token `catable`; harness: `hasher catable`) -/
import BV.Model.Catable
import BV.Drive.Util

namespace BV.Drive.Catable
open BV.Catable BV.Drive

def b (s : String) : Bool := s != "0"
def showB (x : Bool) : String := if x then "1" else "0"
def showFlags (f : Flags) : String := s!"{showB f.catable} {showB f.appendable} {showB f.useDictionary}"
def showInts (l : List Int) : String := ",".intercalate (l.map toString)

def handle : List String → String
  | ["setparam", c, a, d, "C", v] => showFlags (setCatable ⟨b c, b a, b d⟩ (natArg v))
  | ["setparam", c, a, d, "A", v] => showFlags (setAppendable ⟨b c, b a, b d⟩ (natArg v))
  | ["init", c, a, d, _quality] =>
    let f : Flags := ⟨b c, b a, b d⟩
    s!"{showFlags (sanitize f)} {showInts (distCacheAfterInit f)} {showInts (savedDistCacheAfterInit f)}"
  | _ => "bad-op"

end BV.Drive.Catable
