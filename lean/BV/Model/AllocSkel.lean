import BV.Model.Ledger
/-!
# Allocation skeletons (property C09, the temporaries INSIDE one `encode_data` call)

`tools/gen_ledger.py` extracts from the Rust text, for every function of the call tree below
`WriteMetaBlockInternal` / the Zopfli front end, its **allocation skeleton**: the control structure
(sequence, `if`/`match` as nondeterministic choice, loops with any iteration count, early `return`)
with only the allocation-relevant statements left:

* `alloc ty v`   — `v = allocate::<T,_>(..)` / `let v = m.alloc_cell(..)` (`v` is OVERWRITTEN: what it held
                   is dropped without `free_cell`, i.e. lost);
* `free ty v`    — `free_cell(take(&mut v))` / `free_cell(v)` (a free of an empty block is a no-op);
* `move s d`     — `d = take(&mut s)` (second half of `free_cell(replace(&mut d, s))`);
* `call f site binds` — a call of another extracted function, `binds` = callee parameter ↦ caller path;
* `opaque f`     — a call of a function whose skeleton is not available (still `ScopedBalanced` by hypothesis).

Variables are *paths* (`mb.literal_split.types` = three atoms); atoms, type names and function names
are numbers indexing the generated tables `skelAtoms`, `skelTypes`, `skelFns` (`BV/Gen/LedgerSkel.lean`).

This file defines: the concrete semantics `run` on a ledger state (any path = any *script* of
choices: which branch, how many loop iterations, which allocation has length 0), call expansion
(`expand`), the static checker `chk` (abstract interpretation over "may hold a block"), and the trace
acceptor `accepts` used by the driver for the correspondence lines `ledger sk …`.
Soundness of `chk` w.r.t. `run` is proved in `BV/Lemmas/AllocSkel*.lean`.
-/
namespace BV.Skel
open BV.Ledger

abbrev Var := List Nat

inductive Sk
  | skip
  | alloc (ty : Nat) (v : Var)
  | free (ty : Nat) (v : Var)
  | move (src dst : Var)
  | seq (a b : Sk)
  | alt (a b : Sk)
  | loop (b : Sk)
  | ret
  /-- body of an inlined callee (or of the root function): catches `ret`; on exit every variable whose
      first atom is `tag` (the callee's locals) goes out of scope — what it still holds is lost -/
  | scope (tag : Nat) (b : Sk)
  | call (f site : Nat) (binds : List (Nat × Var))
  | opaque (f : Nat)
deriving Repr, DecidableEq

/-! ## Concrete semantics -/

structure St where
  log : List Ev := []
  next : Nat := 0
  m8 : Nat := 0
  /-- which variable owns which block -/
  store : List (Var × BlockId) := []
  /-- overwritten / gone out of scope without `free_cell` -/
  lost : List BlockId := []
deriving Repr

/-- the blocks variable `v` holds -/
def St.at (s : St) (v : Var) : List BlockId := (s.store.filter (fun p => p.1 = v)).map (·.2)
/-- the store without `v` -/
def St.without (s : St) (v : Var) : List (Var × BlockId) := s.store.filter (fun p => p.1 ≠ v)
/-- every block referenced from a variable -/
def St.held (s : St) : List BlockId := s.store.map (·.2)

/-- `v = allocate(n)`: what `v` held is dropped; `nz = false`: `n = 0`, the empty block, no event -/
def doAlloc (s : St) (v : Var) (nz : Bool) : St :=
  if nz then
    { s with log := s.log ++ [Ev.alloc ⟨s.m8, s.next⟩], next := s.next + 1,
             store := s.without v ++ [(v, ⟨s.m8, s.next⟩)], lost := s.lost ++ s.at v }
  else { s with store := s.without v, lost := s.lost ++ s.at v }

/-- `free_cell(take(&mut v))` -/
def doFree (s : St) (v : Var) : St :=
  { s with log := s.log ++ (s.at v).map (Ev.free s.m8), store := s.without v }

/-- `p` is a prefix of the path `v` (`p = mb`, `v = mb.literal_split.types`) -/
def isPre : Var → Var → Bool
  | [], _ => true
  | _ :: _, [] => false
  | a :: p, b :: v => a == b && isPre p v

/-- the path `v` with its prefix `src` replaced by `dst` -/
def retag (src dst : Var) (v : Var) : Var := if isPre src v then dst ++ v.drop src.length else v

/-- `dst = take(&mut src)` for places that may be structs: everything under `dst` is dropped (lost), everything
    under `src` moves under `dst` -/
def doMove (s : St) (src dst : Var) : St :=
  if src = dst then s else
  { s with store := (s.store.filter (fun p => !isPre dst p.1)).map (fun p => (retag src dst p.1, p.2)),
           lost := s.lost ++ (s.store.filter (fun p => isPre dst p.1)).map (·.2) }

/-- end of a scope: the variables under `tag` disappear, their blocks are lost -/
def doExit (s : St) (tag : Nat) : St :=
  { s with store := s.store.filter (fun p => p.1.head? ≠ some tag),
           lost := s.lost ++ (s.store.filter (fun p => p.1.head? = some tag)).map (·.2) }

structure Res where
  st : St
  script : List Nat
  returned : Bool

def iter (f : St × List Nat → Res) : Nat → St × List Nat → Res
  | 0, x => ⟨x.1, x.2, false⟩
  | n + 1, x =>
    let r := f x
    if r.returned then r else iter f n (r.st, r.script)

/-- one path through a call-free skeleton; the script says which branch (`0` = first), how many loop
    iterations, and whether an allocation is of length 0 (`0`) -/
def run : Sk → St × List Nat → Res
  | .skip, x => ⟨x.1, x.2, false⟩
  | .alloc _ v, x => ⟨doAlloc x.1 v (x.2.headD 1 != 0), x.2.tail, false⟩
  | .free _ v, x => ⟨doFree x.1 v, x.2, false⟩
  | .move s d, x => ⟨doMove x.1 s d, x.2, false⟩
  | .seq a b, x =>
    let r := run a x
    if r.returned then r else run b (r.st, r.script)
  | .alt a b, x => if x.2.headD 0 = 0 then run a (x.1, x.2.tail) else run b (x.1, x.2.tail)
  | .loop b, x => iter (run b) (x.2.headD 0) (x.1, x.2.tail)
  | .ret, x => ⟨x.1, x.2, true⟩
  | .scope tag b, x =>
    let r := run b x
    ⟨doExit r.st tag, r.script, false⟩
  | .call .., x => ⟨x.1, x.2, false⟩      -- only expanded skeletons are run; `chk` rejects a remaining call
  | .opaque _, x => ⟨x.1, x.2, false⟩    -- hypothesis ScopedBalanced for the callees without a skeleton

/-! ## Call expansion -/

/-- callee variable ↦ caller variable: a path that starts with a bound parameter continues the caller's
    path, everything else is a local of this activation (`tag`) -/
def rename (binds : List (Nat × Var)) (tag : Nat) : Var → Var
  | [] => [tag]
  | a :: rest =>
    match binds.lookup a with
    | some p => p ++ rest
    | none => tag :: a :: rest

def mapVars (f : Var → Var) : Sk → Sk
  | .skip => .skip
  | .alloc ty v => .alloc ty (f v)
  | .free ty v => .free ty (f v)
  | .move s d => .move (f s) (f d)
  | .seq a b => .seq (mapVars f a) (mapVars f b)
  | .alt a b => .alt (mapVars f a) (mapVars f b)
  | .loop b => .loop (mapVars f b)
  | .ret => .ret
  | .scope t b => .scope t (mapVars f b)
  | .call g site binds => .call g site (binds.map (fun p => (p.1, f p.2)))
  | .opaque g => .opaque g

/-- inline every call one level: the callee's body with its variables renamed, inside a scope whose tag
    is the call chain in base 1000 (`site < 999`), so distinct activations have distinct locals; an
    unknown callee becomes `opaque`.  `ctx` = tag of the enclosing scope. -/
def expand1 (tbl : List Sk) : Nat → Sk → Sk
  | _, .skip => .skip
  | _, .alloc ty v => .alloc ty v
  | _, .free ty v => .free ty v
  | _, .move s d => .move s d
  | ctx, .seq a b => .seq (expand1 tbl ctx a) (expand1 tbl ctx b)
  | ctx, .alt a b => .alt (expand1 tbl ctx a) (expand1 tbl ctx b)
  | ctx, .loop b => .loop (expand1 tbl ctx b)
  | _, .ret => .ret
  | _, .scope t b => .scope t (expand1 tbl t b)
  | ctx, .call g site binds =>
    match tbl[g]? with
    | none => .opaque g
    | some body =>
      let tag := ctx * 1000 + site + 1
      .scope tag (mapVars (rename binds tag) body)
  | _, .opaque g => .opaque g

/-- `fuel` levels of inlining (the call graph below the roots is acyclic and shallow) -/
def expand (tbl : List Sk) : Nat → Sk → Sk
  | 0, s => s
  | fuel + 1, s => expand tbl fuel (expand1 tbl 1 s)

/-- the root function `f`: its own variables are locals of activation `1`, except the paths that start
    with one of the atoms `esc` (parameters through which blocks may legitimately enter / leave) -/
def rootOf (tbl : List Sk) (fuel f : Nat) (esc : List Nat) : Option Sk :=
  match tbl[f]? with
  | none => none
  | some body => some (expand tbl fuel (.scope 1000000 (mapVars (rename (esc.map (fun a => (a, [a]))) 1000000) body)))

/-! ## Static checker: which variables MAY hold a block -/

structure AOut where
  /-- abstract state at the normal exit (`none` = unreachable) -/
  normal : Option (List Var)
  /-- join of the abstract states at the `ret`s -/
  rets : Option (List Var)
deriving Repr, DecidableEq

def joinO : Option (List Var) → Option (List Var) → Option (List Var)
  | none, y => y
  | x, none => x
  | some a, some b => some (a ++ b.filter (fun v => !a.contains v))

def subsetB (a b : List Var) : Bool := a.all (fun v => b.contains v)

/-- the loop invariant: grow `inv` until the body maps it into itself -/
def loopInv (body : List Var → Option AOut) : Nat → List Var → Option (List Var × AOut)
  | 0, _ => none
  | k + 1, inv =>
    match body inv with
    | none => none
    | some o =>
      match o.normal with
      | none => some (inv, o)
      | some m' => if subsetB m' inv then some (inv, o) else loopInv body k (inv ++ m'.filter (fun v => !inv.contains v))

/-- `none` = the skeleton may overwrite a variable that holds a block, or let a local go out of scope
    with a block, or contains a call that was not expanded -/
def chk : Sk → List Var → Option AOut
  | .skip, m => some ⟨some m, none⟩
  | .alloc _ v, m => if m.contains v then none else some ⟨some (v :: m), none⟩
  | .free _ v, m => some ⟨some (m.filter (fun u => u != v)), none⟩
  | .move s d, m =>
    if s = d then some ⟨some m, none⟩ else
    if m.any (fun u => isPre d u) then none else some ⟨some (m.map (retag s d)), none⟩
  | .seq a b, m =>
    match chk a m with
    | none => none
    | some o =>
      match o.normal with
      | none => some o
      | some m' =>
        match chk b m' with
        | none => none
        | some o2 => some ⟨o2.normal, joinO o.rets o2.rets⟩
  | .alt a b, m =>
    match chk a m, chk b m with
    | some o1, some o2 => some ⟨joinO o1.normal o2.normal, joinO o1.rets o2.rets⟩
    | _, _ => none
  | .loop b, m =>
    match loopInv (chk b) 64 m with
    | none => none
    | some (inv, o) => some ⟨some inv, o.rets⟩
  | .ret, m => some ⟨none, some m⟩
  | .scope tag b, m =>
    match chk b m with
    | none => none
    | some o =>
      match joinO o.normal o.rets with
      | none => some ⟨none, none⟩
      | some m' => if m'.any (fun v => v.head? == some tag) then none else some ⟨some m', none⟩
  | .call .., _ => none
  | .opaque _, m => some ⟨some m, none⟩

/-- the whole verdict for a root skeleton: from a state in which no tracked variable holds a block, every
    path ends with no tracked variable holding a block — except under the parameters `esc` through which
    blocks may legitimately leave (`mb` of `BrotliBuildMetaBlockGreedy`) -/
def balancedFrom (m0 : List Var) (esc : List Nat) (root : Sk) : Bool :=
  match chk root m0 with
  | some ⟨some m, none⟩ => m.all (fun v => match v.head? with | some a => esc.contains a | none => false)
  | some ⟨none, none⟩ => true
  | _ => false

def balancedEsc (esc : List Nat) (root : Sk) : Bool := balancedFrom [] esc root

/-- every place a skeleton names -/
def varsOf : Sk → List Var
  | .alloc _ v => [v]
  | .free _ v => [v]
  | .move s d => [s, d]
  | .seq a b => varsOf a ++ varsOf b
  | .alt a b => varsOf a ++ varsOf b
  | .loop b => varsOf b
  | .scope _ b => varsOf b
  | _ => []

/-- the places that may hold a block when the root is ENTERED: everything the skeleton names under the
    parameters `inn` (`self` of `StrideEval::update_block_type`: the method is called on a live object) -/
def entryVars (inn : List Nat) (root : Sk) : List Var :=
  (varsOf root).filter (fun v => match v.head? with | some a => inn.contains a | none => false)

def balanced (root : Sk) : Bool := balancedEsc [] root

/-! ## Trace acceptor (driver side of the correspondence lines `ledger sk …`)

Is a recorded event word (`(isAlloc, type)`; type `0` = unknown) the event sequence of some path?
Set-of-configurations simulation: a configuration is (position in the word, variables that hold a
block, returned). -/

structure Cfg where
  pos : Nat
  ne : List Var
  ret : Bool
deriving DecidableEq, Repr

def tyMatch (a b : Nat) : Bool := a == 0 || b == 0 || a == b

def insertCfg (c : Cfg) (cs : List Cfg) : List Cfg := if cs.contains c then cs else c :: cs
def unionCfg (a b : List Cfg) : List Cfg := a.foldl (fun acc c => insertCfg c acc) b
def normNe (ne : List Var) : List Var := ne.foldl (fun acc v => if acc.contains v then acc else acc ++ [v]) []

def stepAlloc (w : Array (Bool × Nat)) (ty : Nat) (v : Var) (c : Cfg) : List Cfg :=
  if c.ne.contains v then [] else   -- overwriting a held block would show as a drop event: not a clean path
  [c] ++ (match w[c.pos]? with
    | some (true, t) => if tyMatch ty t then [{ c with pos := c.pos + 1, ne := v :: c.ne }] else []
    | _ => [])

def stepFree (w : Array (Bool × Nat)) (ty : Nat) (v : Var) (c : Cfg) : List Cfg :=
  if c.ne.contains v then
    match w[c.pos]? with
    | some (false, t) => if tyMatch ty t then [{ c with pos := c.pos + 1, ne := c.ne.filter (fun u => u != v) }] else []
    | _ => []
  else [c]

def stepMove (s d : Var) (c : Cfg) : List Cfg :=
  if s = d then [c] else if c.ne.any (fun u => isPre d u) then [] else [{ c with ne := c.ne.map (retag s d) }]

/-- apply `f` to the running configurations, keep the returned ones -/
def onLive (f : Cfg → List Cfg) (cs : List Cfg) : List Cfg :=
  cs.foldl (fun acc c => if c.ret then insertCfg c acc else unionCfg (f c) acc) []

def loopPost (body : List Cfg → List Cfg) : Nat → List Cfg → List Cfg → List Cfg
  | 0, acc, _ => acc
  | k + 1, acc, frontier =>
    let nxt := (body frontier).filter (fun c => !acc.contains c)
    if nxt.isEmpty then acc else loopPost body k (unionCfg nxt acc) (nxt.filter (fun c => !c.ret))

def post (w : Array (Bool × Nat)) : Sk → List Cfg → List Cfg
  | .skip, cs => cs
  | .alloc ty v, cs => onLive (stepAlloc w ty v) cs
  | .free ty v, cs => onLive (stepFree w ty v) cs
  | .move s d, cs => onLive (stepMove s d) cs
  | .seq a b, cs => post w b (post w a cs)
  | .alt a b, cs => unionCfg (post w a cs) (post w b cs)
  | .loop b, cs => loopPost (post w b) (2 * w.size + 64) cs (cs.filter (fun c => !c.ret))
  | .ret, cs => cs.map (fun c => { c with ret := true })
  | .scope tag b, cs =>
    -- configurations that were already returned stay so; those that run the body come out running
    let (done, live) := cs.partition (·.ret)
    let out := (post w b live).filter (fun c => !c.ne.any (fun v => v.head? == some tag))
    unionCfg done (out.map (fun c => { c with ret := false }))
  | .call .., _ => []
  | .opaque _, cs => cs

/-- some path of the skeleton produces exactly the word and ends with nothing held -/
def accepts (root : Sk) (w : Array (Bool × Nat)) : Bool :=
  (post w root [⟨0, [], false⟩]).any (fun c => c.pos == w.size && c.ne.isEmpty)

end BV.Skel
