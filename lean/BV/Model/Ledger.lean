import BV.Gen.Source
/-!
# M11 — allocation ledger of the encoder (property C09)

Executable, import-free model of *who allocates and who frees* in the encoder:

* a **ledger**: the log of `alloc` / `free` events seen by the plugged-in allocators; a block's
  identity contains the allocator that produced it (`BlockId.alloc`);
* the long-lived fields of `BrotliEncoderStateStruct` (`enc/encode.rs`) as **slots** holding block ids
  (`storage_`, `commands_`, `ringbuffer_.data_mo`, the sub-blocks of `hasher_`, `large_table_`,
  `command_buf_`, `literal_buf_`) plus the blocks a caller holds around an instance (a pre-computed
  hasher, the C-ABI state block, `compress_part`'s output block, `CompressMultiSlice`'s input copy);
* every allocating / freeing *site* as a short list of **micro-actions** (`Act`) on slots + log
  (`get_brotli_storage`: free old, alloc new; command growth and `RingBufferInitBuffer`: alloc new,
  free old; `hasher_setup`; `GetHashTableInternal`; the q1 two-pass buffers; `set_custom_dictionary…`;
  `cleanup`; the C-ABI destroy);
* one call (`compress_stream`, `set_custom_dictionary`, …) as an `Op` whose parameters say which sites
  fired (recorded from the implementation: which field was re-allocated, with what length).  The
  model *checks* that such a call is possible in the current state (`step` fails otherwise: storage
  only grows, the command array only exists at quality ≥ 2, the hash table only at quality ≤ 1, a
  hasher is only created when there is none, …) and computes the effect on slots and ledger.
  Temporaries scoped to one call (block splitter, histograms, Zopfli nodes, the IR logger's command
  queue, the short-input buffers of `compress_stream_fast`) are `scoped k`: allocated and freed inside
  the call — the oracle hypothesis `ScopedBalanced`, checked at run time by the harness;
* entry points as `Op` sequences assembled under the site flags regenerated from the Rust source
  (`BV.Gen.ffiDestroyCallsCleanup`, …), so that the model follows the tree it is built against.

The *spec side* is `Judge`: an independent replay of a raw event log that knows nothing about slots
(`BV.Ledger.judge`); the driver also runs it on the raw logs recorded by the counting allocator.
-/
namespace BV.Ledger

/-- a block is identified by the allocator instance that produced it and a serial number -/
structure BlockId where
  alloc : Nat
  n : Nat
deriving DecidableEq, Repr

inductive Ev
  | alloc (b : BlockId)
  | free (via : Nat) (b : BlockId)
  /-- the Rust value owning the block was dropped without `free_cell` (harness logs only) -/
  | drop (b : BlockId)
deriving DecidableEq, Repr

/-! ## Spec side: replay of a raw log -/

structure Judge where
  live : List BlockId := []
  seen : List BlockId := []
  foreign : Nat := 0   -- freed through an allocator that did not produce the block
  double : Nat := 0    -- freed although already freed
  unknown : Nat := 0   -- freed although never allocated
  realloc : Nat := 0   -- the same identity handed out twice
  dropped : Nat := 0
  allocs : Nat := 0
  frees : Nat := 0     -- accepted frees through the right allocator
deriving Repr

def Judge.step (j : Judge) : Ev → Judge
  | .alloc b =>
    if b ∈ j.seen then { j with realloc := j.realloc + 1 }
    else { j with live := b :: j.live, seen := b :: j.seen, allocs := j.allocs + 1 }
  | .free via b =>
    if b ∈ j.live then
      if via = b.alloc then { j with live := j.live.erase b, frees := j.frees + 1 }
      else { j with live := j.live.erase b, foreign := j.foreign + 1 }
    else if b ∈ j.seen then { j with double := j.double + 1 }
    else { j with unknown := j.unknown + 1 }
  | .drop _ => { j with dropped := j.dropped + 1 }

def judge (log : List Ev) : Judge := log.foldl Judge.step {}

/-- no double free, no free of a foreign / unknown block, every free through the producing allocator -/
def Judge.clean (j : Judge) : Bool :=
  j.foreign == 0 && j.double == 0 && j.unknown == 0 && j.realloc == 0

/-! ## Slots -/

inductive Slot
  | storage | commands | ring | hasher | table | cbuf | lbuf   -- the seven owning fields of the state
  | ext      -- a pre-computed hasher held by the caller (CompressMulti, or the user)
  | self     -- the C-ABI state block
  | mem      -- compress_part's output block
  | input    -- CompressMultiSlice's copy of the input
  | tmp      -- a local variable inside one call (`new_commands`, `new_data`, `command_buf`, scoped temporaries)
  | tmp2     -- a second local (`literal_buf` of `compress_stream_fast`, `tmp` of `CommandQueue::push`)
  | aux      -- helper structures of the IR logger (entropy tally / pyramid, context-map entropy, best strides)
deriving DecidableEq, Repr

structure Enc where
  storage : List BlockId := []
  commands : List BlockId := []
  ring : List BlockId := []
  hasher : List BlockId := []
  table : List BlockId := []
  cbuf : List BlockId := []
  lbuf : List BlockId := []
  ext : List BlockId := []
  self : List BlockId := []
  mem : List BlockId := []
  input : List BlockId := []
  tmp : List BlockId := []
  tmp2 : List BlockId := []
  aux : List BlockId := []
deriving Repr

def Enc.get (e : Enc) : Slot → List BlockId
  | .storage => e.storage | .commands => e.commands | .ring => e.ring | .hasher => e.hasher
  | .table => e.table | .cbuf => e.cbuf | .lbuf => e.lbuf | .ext => e.ext | .self => e.self
  | .mem => e.mem | .input => e.input | .tmp => e.tmp | .tmp2 => e.tmp2
  | .aux => e.aux

def Enc.set (e : Enc) (s : Slot) (v : List BlockId) : Enc :=
  match s with
  | .storage => { e with storage := v } | .commands => { e with commands := v }
  | .ring => { e with ring := v } | .hasher => { e with hasher := v } | .table => { e with table := v }
  | .cbuf => { e with cbuf := v } | .lbuf => { e with lbuf := v } | .ext => { e with ext := v }
  | .self => { e with self := v } | .mem => { e with mem := v } | .input => { e with input := v }
  | .tmp => { e with tmp := v }
  | .tmp2 => { e with tmp2 := v }
  | .aux => { e with aux := v }

/-- the seven fields of `BrotliEncoderStateStruct` that own allocator memory, with their Rust names -/
def fieldSlots : List (String × Slot) :=
  [("storage_", .storage), ("commands_", .commands), ("ringbuffer_", .ring), ("hasher_", .hasher),
   ("large_table_", .table), ("command_buf_", .cbuf), ("literal_buf_", .lbuf)]

/-- every block referenced from a slot -/
def Enc.held (e : Enc) : List BlockId :=
  e.storage ++ e.commands ++ e.ring ++ e.hasher ++ e.table ++ e.cbuf ++ e.lbuf ++ e.ext ++ e.self ++
    e.mem ++ e.input ++ e.tmp ++ e.tmp2 ++ e.aux

/-- the blocks referenced from the seven owning fields of the state -/
def Enc.fields (e : Enc) : List BlockId :=
  e.storage ++ e.commands ++ e.ring ++ e.hasher ++ e.table ++ e.cbuf ++ e.lbuf

/-! ## World and micro-actions -/

structure W where
  log : List Ev := []
  next : Nat := 0             -- serial number of the next block
  m8 : Nat := 0               -- the allocator instance owned by the encoder being driven
  enc : Enc := {}
  lost : List BlockId := []   -- overwritten / abandoned without `free_cell`: still owed to the allocator
  q : Nat := 11               -- quality after SanitizeParams
  ss : Nat := 0               -- storage_size_
  ca : Nat := 0               -- cmd_alloc_size_
  ringLen : Nat := 0
  tableLen : Nat := 0
deriving Repr

inductive Act
  /-- `free_cell(&mut self.m8, take(slot))` for every block of the slot -/
  | free (s : Slot)
  /-- `k` blocks from allocator `a` appended to the slot -/
  | alloc (a : Nat) (s : Slot) (k : Nat)
  /-- the slot is overwritten or dropped without `free_cell` -/
  | lose (s : Slot)
  /-- ownership moves (`mem::take` / assignment): `dst := dst ++ src; src := []` -/
  | move (src dst : Slot)
deriving Repr, DecidableEq

def fresh (a : Nat) (next : Nat) : Nat → List BlockId
  | 0 => []
  | k + 1 => ⟨a, next⟩ :: fresh a (next + 1) k

def W.act (w : W) : Act → W
  | .free s =>
    { w with log := w.log ++ (w.enc.get s).map (Ev.free w.m8), enc := w.enc.set s [] }
  | .alloc a s k =>
    let bs := fresh a w.next k
    { w with log := w.log ++ bs.map Ev.alloc, next := w.next + k, enc := w.enc.set s (w.enc.get s ++ bs) }
  | .lose s =>
    { w with lost := w.lost ++ w.enc.get s, enc := w.enc.set s [] }
  | .move src dst =>
    if src = dst then w else
    { w with enc := (w.enc.set dst (w.enc.get dst ++ w.enc.get src)).set src [] }

def W.acts (w : W) (as : List Act) : W := as.foldl W.act w

/-! ## Site flags (regenerated from the Rust source) -/

structure Flags where
  ffiDestroyCleanup : Bool
  ffiSingleCleanup : Bool
  oneshotHasherOwn : Bool
  oneshotDestroys : Bool
  setDictFrees : Bool
  setDictTruncFrees : Bool
  writerDropDestroys : Bool
  readerDropDestroys : Bool
  copyDestroys : Bool
  partDestroys : Bool
  partErrFrees : Bool
  multiNoEarlyReturn : Bool
  multiFreesOutputs : Bool
  sliceFreesInput : Bool
deriving Repr, DecidableEq

def Flags.current : Flags :=
  { ffiDestroyCleanup := BV.Gen.ffiDestroyCallsCleanup
    ffiSingleCleanup := BV.Gen.ffiSingleCallsCleanup
    oneshotHasherOwn := BV.Gen.oneshotHasherFromStateAlloc
    oneshotDestroys := BV.Gen.oneshotDestroys
    setDictFrees := BV.Gen.setDictFreesReplacedHasher
    setDictTruncFrees := BV.Gen.setDictTruncationFreesPrecomputed
    writerDropDestroys := BV.Gen.writerDropDestroys
    readerDropDestroys := BV.Gen.readerDropDestroys
    copyDestroys := BV.Gen.copyDestroysOnEveryExit
    partDestroys := BV.Gen.compressPartDestroys
    partErrFrees := BV.Gen.compressPartErrArmFreesOutput
    multiNoEarlyReturn := BV.Gen.multiNoQuestionMarkAfterSpawn
    multiFreesOutputs := BV.Gen.multiFreesEveryJobOutput
    sliceFreesInput := BV.Gen.multiSliceFreesInputCopy }

def Flags.allTrue : Flags :=
  ⟨true, true, true, true, true, true, true, true, true, true, true, true, true, true⟩

/-! ## Sites -/

/-- `cleanup` (`enc/encode.rs`): the seven fields, in source order -/
def cleanupActs : List Act :=
  [.free .storage, .free .commands, .free .ring, .free .hasher, .free .table, .free .cbuf, .free .lbuf]

/-- dropping the state without `cleanup` (what the C-ABI destroy did before the fix) -/
def abandonActs : List Act :=
  [.lose .storage, .lose .commands, .lose .ring, .lose .hasher, .lose .table, .lose .cbuf, .lose .lbuf]

/-- `get_brotli_storage`: `free_cell(take(storage_)); storage_ = allocate(size)` -/
def storageGrowActs (m8 : Nat) : List Act := [.free .storage, .alloc m8 .storage 1]
/-- command growth in `encode_data`: `new = allocate; if !old.is_empty() {copy; free_cell(old)}; commands_ = new` -/
def commandsGrowActs (m8 : Nat) : List Act := [.alloc m8 .tmp 1, .free .commands, .move .tmp .commands]
/-- `RingBufferInitBuffer`: `new_data = alloc; if !old.is_empty() {copy; free_cell(old)}; data_mo = new_data` -/
def ringInitActs (m8 : Nat) : List Act := [.alloc m8 .tmp 1, .free .ring, .move .tmp .ring]
/-- `GetHashTableInternal`: `free_cell(take(large_table_)); large_table_ = alloc_cell(htsize)` -/
def tableGrowActs (m8 : Nat) : List Act := [.free .table, .alloc m8 .table 1]
/-- temporaries of one call: allocated and freed inside it (`ScopedBalanced`) -/
def scopedActs (m8 : Nat) (k : Nat) : List Act := if k = 0 then [] else [.alloc m8 .tmp k, .free .tmp]

/-- what one `compress_stream` / `take_output` call did to the long-lived fields -/
structure CsDelta where
  storage : Option Nat := none   -- new length of `storage_` if it was re-allocated
  commands : Option Nat := none
  ring : Option Nat := none
  hasher : List Nat := []        -- lengths of the hasher blocks if a hasher was created
  table : Option Nat := none
  q1bufs : Option Nat := none    -- length of command_buf_/literal_buf_ if they were created
  temps : Nat := 0
deriving Repr

inductive Op
  /-- `BrotliEncoderStateStruct::new` (`ffi := true`: `BrotliEncoderCreateInstance` with callbacks) -/
  | create (ffi : Bool)
  /-- the caller makes a pre-computed hasher with the instance's allocator (`hasher_setup` on `Uninit`) -/
  | mkExt (lens : List Nat)
  /-- `set_custom_dictionary` without a pre-computed hasher -/
  | setDict (ring : Option Nat) (hasher : List Nat)
  /-- `set_custom_dictionary_with_optional_precomputed_hasher`; `fresh ≠ []`: the dictionary was truncated
      and a new hasher was built after the pre-computed one had been destroyed -/
  | setDictExt (ring : Option Nat) (fresh : List Nat)
  | cs (d : CsDelta)
  /-- `BrotliEncoderDestroyInstance` / `cleanup` -/
  | cleanup
  /-- C-ABI `BrotliEncoderDestroyInstance` -/
  | ffiDestroy
  /-- `compress_part`: `mem = allocate(max_compressed_size)` -/
  | allocMem
  /-- the output block goes back (error arm of `compress_part`, or `CompressMulti` after stitching) -/
  | freeMem
  /-- `CompressMultiSlice`: copy of the input from allocator 0 / its release -/
  | allocInput
  | freeInput
  /-- quality-10 one-shot: `s_orig.hasher_ = BrotliMakeHasher(..)` before the first call -/
  | oneshotHasher (other : Nat) (lens : List Nat)
deriving Repr

def gt (n : Option Nat) (old : Nat) : Bool := match n with | none => true | some v => old < v

def hasherReplaceActs (fl : Flags) : List Act := [if fl.setDictFrees then .free .hasher else .lose .hasher]

def ringOpt (m8 : Nat) (grow : Bool) : List Act := if grow then ringInitActs m8 else []

/-- the sites of one `compress_stream` call, in the order in which `encode_data` reaches them -/
def csActs (m8 : Nat) (st q1 tb rg cm : Bool) (hk temps : Nat) : List Act :=
  (if st then storageGrowActs m8 else []) ++
  (if q1 then [.alloc m8 .cbuf 1, .alloc m8 .lbuf 1] else []) ++
  (if tb then tableGrowActs m8 else []) ++
  ringOpt m8 rg ++
  (if cm then commandsGrowActs m8 else []) ++
  (if hk = 0 then [] else [.alloc m8 .hasher hk]) ++
  scopedActs m8 temps

/-- is the recorded call possible in this state?  (`none` = yes) -/
def opGuard (w : W) : Op → Option String
  | .create _ => if w.enc.fields ++ w.enc.self ≠ [] then some "create-on-live-instance" else none
  | .mkExt lens => if lens = [] ∨ w.enc.ext ≠ [] then some "mkext" else none
  | .setDict ring hasher =>
    if !gt ring w.ringLen then some "ring-not-grown" else
    if hasher.length > 2 then some "hasher-blocks" else
    if hasher ≠ [] ∧ w.q < 2 then some "hasher-at-q0q1" else none
  | .setDictExt ring fresh =>
    if w.enc.ext = [] then some "no-precomputed-hasher" else
    if !gt ring w.ringLen then some "ring-not-grown" else
    if fresh.length > 2 then some "hasher-blocks" else none
  | .cs d =>
    if !gt d.storage w.ss then some "storage-not-grown" else
    if !gt d.commands w.ca then some "commands-not-grown" else
    if d.commands.isSome ∧ w.q < 2 then some "commands-at-q0q1" else
    if !gt d.ring w.ringLen then some "ring-not-grown" else
    if d.hasher ≠ [] ∧ (w.q < 2 ∨ w.enc.hasher ≠ [] ∨ d.hasher.length > 2) then some "hasher-setup" else
    if d.table.isSome ∧ (1 < w.q ∨ !gt d.table w.tableLen ∨ !gt d.table 1024) then some "table" else
    if d.q1bufs.isSome ∧ (w.q ≠ 1 ∨ w.enc.cbuf ≠ [] ∨ w.enc.lbuf ≠ []) then some "q1bufs" else none
  | .cleanup => none
  | .ffiDestroy => none
  | .allocMem => if w.enc.mem ≠ [] then some "mem" else none
  | .freeMem => none
  | .allocInput => if w.enc.input ≠ [] then some "input" else none
  | .freeInput => none
  | .oneshotHasher _ lens => if w.enc.hasher ≠ [] ∨ lens = [] then some "oneshot-hasher" else none

/-- the micro-actions of one call of the public API -/
def opActs (fl : Flags) (m8 : Nat) : Op → List Act
  | .create ffi => if ffi then [.alloc m8 .self 1] else []
  | .mkExt lens => [.alloc m8 .ext lens.length]
  | .setDict ring hasher =>
    hasherReplaceActs fl ++ ringOpt m8 ring.isSome ++ (if hasher.length = 0 then [] else [.alloc m8 .hasher hasher.length])
  | .setDictExt ring fresh =>
    hasherReplaceActs fl ++ [.move .ext .hasher] ++
      -- dictionary longer than the window: the shared index is useless and is destroyed
      (if fresh.length = 0 then [] else [if fl.setDictTruncFrees then .free .hasher else .lose .hasher]) ++
      ringOpt m8 ring.isSome ++ (if fresh.length = 0 then [] else [.alloc m8 .hasher fresh.length])
  | .cs d =>
    csActs m8 d.storage.isSome d.q1bufs.isSome d.table.isSome d.ring.isSome d.commands.isSome d.hasher.length d.temps
  | .cleanup => cleanupActs
  | .ffiDestroy => (if fl.ffiDestroyCleanup then cleanupActs else abandonActs) ++ [.free .self]
  | .allocMem => [.alloc m8 .mem 1]
  | .freeMem => [.free .mem]
  | .allocInput => [.alloc m8 .input 1]
  | .freeInput => [.free .input]
  | .oneshotHasher other lens => [.alloc (if fl.oneshotHasherOwn then m8 else other) .hasher lens.length]

/-- the size fields the guards look at -/
def opBook (w : W) : Op → W
  | .setDict ring _ => { w with ringLen := ring.getD w.ringLen }
  | .setDictExt ring _ => { w with ringLen := ring.getD w.ringLen }
  | .cs d => { w with ss := d.storage.getD w.ss, ca := d.commands.getD w.ca, ringLen := d.ring.getD w.ringLen,
                      tableLen := d.table.getD w.tableLen }
  | _ => w

/-- one call of the public API; `Except.error` = the recorded event is impossible in this state -/
def step (fl : Flags) (w : W) (op : Op) : Except String W :=
  match opGuard w op with
  | some e => .error e
  | none => .ok (opBook (w.acts (opActs fl w.m8 op)) op)

def run (fl : Flags) : W → List Op → Except String W
  | w, [] => .ok w
  | w, op :: rest =>
    match step fl w op with
    | .ok w' => run fl w' rest
    | .error e => .error e

/-! ## `compress_stream_fast`: the temporary aliasing of `command_buf_` / `literal_buf_`

Mirror of the prologue / epilogue of `compress_stream_fast` at quality 1 (`enc/encode.rs`):
`buf` = `min(kBlock, available_in, 1 << lgwin)`.  The local variables `command_buf`, `literal_buf`
are the slot `tmp`. -/

def fastPrologueActs (w : W) (kBlock buf : Nat) : List Act :=
  if w.q ≠ 1 then [] else
  -- if self.command_buf_.is_empty() && buf_size == kBlock { command_buf_ = allocate(kBlock); literal_buf_ = … }
  (if w.enc.cbuf = [] ∧ buf = kBlock then [.alloc w.m8 .cbuf 1, .alloc w.m8 .lbuf 1] else []) ++
  (if w.enc.cbuf ≠ [] ∨ buf = kBlock then
    -- command_buf = take(self.command_buf_); literal_buf = take(self.literal_buf_)
    [.move .cbuf .tmp, .move .lbuf .tmp2]
   else
    -- command_buf = allocate(buf_size); literal_buf = allocate(buf_size)   (nothing for buf_size = 0)
    (if buf = 0 then [] else [.alloc w.m8 .tmp 1, .alloc w.m8 .tmp2 1]))

/-- `localIsBlock`: `command_buf.len() == kCompressFragmentTwoPassBlockSize` -/
def fastEpilogueActs (w : W) (localIsBlock : Bool) : List Act :=
  if localIsBlock ∧ w.enc.cbuf = [] then
    -- undo the aliasing: `self.command_buf_ = take(command_buf); self.literal_buf_ = take(literal_buf)`
    -- (an assignment drops what the field held)
    [.lose .cbuf, .move .tmp .cbuf, .lose .lbuf, .move .tmp2 .lbuf]
  else [.free .tmp, .free .tmp2]

def fastPath (w : W) (kBlock buf : Nat) : W :=
  let w1 := w.acts (fastPrologueActs w kBlock buf)
  -- the locals have length kBlock exactly when they came from (or were just put into) the fields:
  -- every site that fills `command_buf_`/`literal_buf_` allocates kBlock elements
  w1.acts (fastEpilogueActs w1 (decide (w.q = 1 ∧ (w.enc.cbuf ≠ [] ∨ buf = kBlock))))

/-! ## A callee inside `ScopedBalanced`: the IR logger's `CommandQueue` (`enc/brotli_bit_stream.rs`)

`LogMetaBlock` (reached from `store_meta_block*` when `params.log_meta_block` is set) builds its helper
structures, then `CommandQueue::new` allocates `num_commands * 17 / 16 + 4` slots, `process_command_queue`
pushes the IR (each `push` on a full queue allocates a queue of twice the size, copies, frees the old
one), and `CommandQueue::free` hands the IR to the callback and frees the helpers and the queue.
`queue` is the slot `tmp`, the local `tmp` of `push` is the slot `tmp2`, the helpers are `aux`. -/

structure CQ where
  cap : Nat       -- queue.len()
  loc : Nat
  overfull : Bool
deriving Repr

/-- `CommandQueue::new` -/
def cqNew (w : W) (numCommands : Nat) : W × CQ :=
  (w.acts [.alloc w.m8 .tmp 1], ⟨numCommands * 17 / 16 + 4, 0, false⟩)

/-- the growth step of `CommandQueue::push`: `tmp = allocate(2 * len); copy; free_cell(replace(queue, tmp))` -/
def cqGrowActs (m8 : Nat) : List Act := [.alloc m8 .tmp2 1, .free .tmp, .move .tmp2 .tmp]

/-- `CommandQueue::push` -/
def cqPush (s : W × CQ) : W × CQ :=
  let w1 := if s.2.loc = s.2.cap then s.1.acts (cqGrowActs s.1.m8) else s.1
  let cap1 := if s.2.loc = s.2.cap then s.2.cap * 2 else s.2.cap
  if s.2.loc ≠ cap1 then (w1, ⟨cap1, s.2.loc + 1, s.2.overfull⟩) else (w1, ⟨cap1, s.2.loc, true⟩)

def cqPushN : Nat → W × CQ → W × CQ
  | 0, s => s
  | k + 1, s => cqPushN k (cqPush s)

/-- `CommandQueue::free`: the queue goes back; `Err` (→ `unwrap` panics) iff `overfull` -/
def cqFree (s : W × CQ) : W × Bool := (s.1.acts [.free .tmp], !s.2.overfull)

/-- the allocation skeleton of `LogMetaBlock`: `k` helper blocks, the queue with `pushes` pushes, the release -/
def logMetaBlockIR (w : W) (k numCommands pushes : Nat) : W × Bool :=
  let w1 := w.acts [.alloc w.m8 .aux k]
  let r := cqFree (cqPushN pushes (cqNew w1 numCommands))
  (r.1.acts [.free .aux], r.2)

/-! ## Entry points as op sequences -/

/-- ops a caller may apply to a live instance between creation and destruction -/
def Op.isBody : Op → Bool
  | .setDict .. | .cs .. => true
  | _ => false

/-- the same, for callers that may also hand in a pre-computed hasher -/
def Op.isBodyExt : Op → Bool
  | .setDict .. | .cs .. | .mkExt .. | .setDictExt .. => true
  | _ => false

def condCleanup (b : Bool) : List Op := if b then [.cleanup] else []

/-- Rust streaming instance: `new`, any history, `BrotliEncoderDestroyInstance`, drop -/
def epStream (body : List Op) : List Op := .create false :: body ++ [.cleanup]
/-- C-ABI instance: create with callbacks, any history, destroy -/
def epFfi (body : List Op) : List Op := .create true :: body ++ [.ffiDestroy]
/-- `CompressorWriterCustomIo`: writes / flushes, then `drop` (its closing attempt is part of `body`) -/
def epWriter (fl : Flags) (body : List Op) : List Op := .create false :: body ++ condCleanup fl.writerDropDestroys
/-- `CompressorReaderCustomIo`: reads, then `StateWrapper::drop` -/
def epReader (fl : Flags) (body : List Op) : List Op := .create false :: body ++ condCleanup fl.readerDropDestroys
/-- `BrotliCompressCustomIoCustomDict`: normal exit, encoder failure, read error, write error -/
def epCopy (fl : Flags) (body : List Op) : List Op := .create false :: body ++ condCleanup fl.copyDestroys
/-- `encoder_compress` (Rust one-shot) past its early exits; `q10` adds the 9.5 hasher -/
def epOneshot (fl : Flags) (q10 : Bool) (other : Nat) (lens : List Nat) (body : List Op) : List Op :=
  .create false :: (if q10 then [.oneshotHasher other lens] else []) ++ body ++ condCleanup fl.oneshotDestroys
/-- `help_brotli_encoder_compress_single` -/
def epFfiSingle (fl : Flags) (body : List Op) : List Op := .create false :: body ++ condCleanup fl.ffiSingleCleanup
/-- one allocator's share of a multi-threaded call: the coordinator's hasher for this job (optional),
    `compress_part` (either arm), the coordinator freeing the job's output; `slice`: this allocator also
    carries `CompressMultiSlice`'s copy of the input -/
def epJob (fl : Flags) (slice : Bool) (ext : List Nat) (dict : Option (Option Nat × List Nat)) (body : List Op)
    (ok : Bool) : List Op :=
  (if slice then [.allocInput] else []) ++
  (if ext = [] then [] else [.mkExt ext]) ++
  [.allocMem, .create false] ++
  (match dict with
   | none => []
   | some (ring, fresh) => [if ext = [] then .setDict ring fresh else .setDictExt ring fresh]) ++
  body ++ condCleanup fl.partDestroys ++
  (if ok then (if fl.multiFreesOutputs then [.freeMem] else []) else (if fl.partErrFrees then [.freeMem] else [])) ++
  (if slice ∧ fl.sliceFreesInput then [.freeInput] else [])

/-- a job thread that panics: every value it owns is dropped without `free_cell` -/
def abandonAllActs : List Act :=
  [.lose .storage, .lose .commands, .lose .ring, .lose .hasher, .lose .table, .lose .cbuf, .lose .lbuf,
   .lose .ext, .lose .self, .lose .mem, .lose .input, .lose .tmp, .lose .tmp2, .lose .aux]

/-- what `CompressMulti`'s join loop does with the jobs when job `p` panics (`join()` returns `Err`, the
    function returns at once): jobs before `p` were joined and stitched, job `p` unwound, the jobs after
    it — including the last one, which the coordinator ran itself — completed but are never joined: their
    result (output block + allocator) is dropped -/
inductive JobFate
  | joined | panicked | unjoined
deriving DecidableEq, Repr

def multiFates (t : Nat) (p : Option Nat) : List JobFate :=
  (List.range t).map (fun i => match p with
    | none => .joined
    | some k => if i < k then .joined else if i = k then .panicked else .unjoined)

/-- the flags as an un-joined job experiences them: nobody frees its output, nobody frees the input copy
    (`CompressMultiSlice` only does so when allocator 0 came back) -/
def Flags.unjoined : Flags := { Flags.allTrue with multiFreesOutputs := false, sliceFreesInput := false }

def W.init (m8 q : Nat) : W := { m8 := m8, q := q }

/-- classification used by the `ep` lines of the driver -/
def classOf (r : Except String W) : String :=
  match r with
  | .error e => "bad-event:" ++ e
  | .ok w =>
    let j := judge w.log
    let parts := (if j.live ≠ [] then ["leak"] else []) ++ (if j.foreign ≠ 0 then ["foreign"] else [])
    if parts = [] then "clean" else "+".intercalate parts

end BV.Ledger
