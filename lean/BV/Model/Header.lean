/-
M5 `Header` — what a rust-brotli stream starts with (C15).

Mirrors, from `src/enc/encode.rs`: `SanitizeParams`, `ComputeLgBlock`,
`ComputeRbBits`, `EncodeWindowBits`, the header part of `ensure_initialized`
(quality 0/1 declare `max(lgwin, 18)`), `update_size_hint`, the head of
`encode_data` (magic block on the very first call, the catable 2-byte prelude)
and the dispatch `compress_stream` → `compress_stream_fast` (quality 0/1, not
catable, no magic number: `encode_data` is never reached);
from `src/enc/brotli_bit_stream.rs`: `encode_base_128`,
`BrotliWriteMetadataMetaBlock`, `BrotliStoreUncompressedMetaBlockHeader`
(+`BrotliEncodeMlen`), `store_uncompressed_meta_block`, `JumpToByteBoundary`,
`BrotliWriteEmptyLastMetaBlock`, `BrotliStoreSyncMetaBlock`.

Every integer literal of those functions is taken from the list harvested from
the Rust source (`BV.Gen.lits_*`, source order), so editing a constant in
`/repo` changes the model and re-checks the theorems.

Integers: `quality`, `lgwin`, `lgblock` are Rust `i32` — modelled as `Int`
(only compared, `min`/`max`ed and, for values the sanitizer has confined to
`[10, 30]`, shifted); `size_hint` is `usize = u64` — a `Nat < 2^64`.
The bit stream is `BV.Bits.Writer` (LSB-first, first bit first), see
`BV/Model/Bits.lean` for the storage preconditions under which
`BrotliWriteBits` is "append".
-/
import BV.Gen.Source
import BV.Model.Bits

namespace BV.Header
open BV.Bits BV.Bits.Out

/-- `i`-th harvested literal of a function -/
@[inline] def lit (l : List Nat) (i : Nat) : Nat := l.getD i 0

/-- the fields of `BrotliEncoderParams` that decide the first bytes -/
structure Params where
  quality : Int
  lgwin : Int
  lgblock : Int
  largeWindow : Bool
  catable : Bool
  appendable : Bool
  useDictionary : Bool
  magicNumber : Bool
  sizeHint : Nat
deriving Repr, DecidableEq, Inhabited

/-! ## `SanitizeParams`  (literals `[11, 0, 10, 10, 24, 30, 30, 24]`) -/

def litsSan := BV.Gen.lits_SanitizeParams

/-- `SanitizeParams`; `largeOk` = `check_large_window_ok()` (feature
`disallow_large_window_size` off ⇒ `true`). -/
def sanitizeParams (largeOk : Bool) (p : Params) : Params :=
  let quality : Int := min (lit litsSan 0 : Int) (max (lit litsSan 1 : Int) p.quality)
  let lgwin : Int :=
    if p.lgwin < (lit litsSan 2 : Int) then (lit litsSan 3 : Int)
    else if p.lgwin > (lit litsSan 4 : Int) then
      if p.largeWindow && largeOk then
        (if p.lgwin > (lit litsSan 5 : Int) then (lit litsSan 6 : Int) else p.lgwin)
      else (lit litsSan 7 : Int)
    else p.lgwin
  { p with quality := quality, lgwin := lgwin,
           appendable := if p.catable then true else p.appendable }

/-! ## `ComputeLgBlock`  (literals `[0, 1, 4, 14, 0, 16, 9, 18, 24, 16]`), `ComputeRbBits` -/

def litsLgb := BV.Gen.lits_ComputeLgBlock

def computeLgBlock (p : Params) : Int :=
  if p.quality = (lit litsLgb 0 : Int) ∨ p.quality = (lit litsLgb 1 : Int) then p.lgwin
  else if p.quality < (lit litsLgb 2 : Int) then (lit litsLgb 3 : Int)
  else if p.lgblock = (lit litsLgb 4 : Int) then
    let lgblock : Int := (lit litsLgb 5 : Int)
    if p.quality ≥ (lit litsLgb 6 : Int) ∧ p.lgwin > lgblock then min (lit litsLgb 7 : Int) p.lgwin
    else lgblock
  else min (lit litsLgb 8 : Int) (max (lit litsLgb 9 : Int) p.lgblock)

def computeRbBits (p : Params) : Int :=
  (lit BV.Gen.lits_ComputeRbBits 0 : Int) + max p.lgwin p.lgblock

/-! ## `EncodeWindowBits`
literals `[63, 8, 17, 14, 16, 0, 1, 17, 1, 7, 17, 17, 1, 1, 4, 8, 4, 1, 7]` -/

def litsEwb := BV.Gen.lits_EncodeWindowBits

/-- `EncodeWindowBits(lgwin, large_window)` = `(last_bytes, last_bytes_bits)`.
`x & 0x3F` on an `i32` is `x mod 64`; `(x << k) | 1` is `x * 2^k + 1`
(the low bit of the shifted value is 0); `as u16` is `mod 2^16`.  (`lgwin - 17` /
`lgwin - 8` cannot overflow an `i32` for the values `ensure_initialized` passes:
`sanitized_lgwin_range`.) -/
def encodeWindowBits (lgwin : Int) (largeWindow : Bool) : Nat × Nat :=
  if largeWindow then
    -- the mask 0x3F is the literal 63 = 2^6 - 1: `lgwin & 63 = lgwin mod 64`
    ((((lgwin % ((lit litsEwb 0 : Int) + 1)) * 2 ^ (lit litsEwb 1)).toNat ||| lit litsEwb 2) % 2 ^ 16,
      lit litsEwb 3)
  else if lgwin = (lit litsEwb 4 : Int) then (lit litsEwb 5, lit litsEwb 6)
  else if lgwin = (lit litsEwb 7 : Int) then (lit litsEwb 8, lit litsEwb 9)
  else if lgwin > (lit litsEwb 10 : Int) then
    ((((lgwin - (lit litsEwb 11 : Int)) * 2 ^ (lit litsEwb 12) + (lit litsEwb 13 : Int)) % 65536).toNat,
      lit litsEwb 14)
  else
    ((((lgwin - (lit litsEwb 15 : Int)) * 2 ^ (lit litsEwb 16) + (lit litsEwb 17 : Int)) % 65536).toNat,
      lit litsEwb 18)

/-! ## `ensure_initialized` (header part; literals `[0, 1, 18, …]`) -/

def litsInit := BV.Gen.lits_ensure_initialized

/-- state after `ensure_initialized` as far as the header goes: the sanitized
parameters with `lgblock` computed, and the pending bits `(last_bytes_, last_bytes_bits_)` -/
structure Init where
  params : Params
  lastBytes : Nat
  lastBytesBits : Nat
deriving Repr, DecidableEq

/-- the window the header declares -/
def headerLgwin (p : Params) : Int :=
  if p.quality = (lit litsInit 0 : Int) ∨ p.quality = (lit litsInit 1 : Int) then
    max p.lgwin (lit litsInit 2 : Int)
  else p.lgwin

def ensureInitialized (largeOk : Bool) (p0 : Params) : Init :=
  let p := sanitizeParams largeOk p0
  let p := { p with lgblock := computeLgBlock p }
  let wb := encodeWindowBits (headerLgwin p) p.largeWindow
  { params := p, lastBytes := wb.1, lastBytesBits := wb.2 }

/-- `storage[0] = last_bytes_ as u8; storage[1] = (last_bytes_ >> 8) as u8;
storage_ix = last_bytes_bits_`: the stream so far is the `last_bytes_bits_` low
bits of `last_bytes_`.  The remaining bits of the two bytes are also put into
the storage; `BrotliWriteBits` ORs into them, so they must be zero —
`pendingHighBitsZero` is that condition (proved for every reachable state in
`BV/Lemmas/Header.lean`). -/
def pendingWriter (i : Init) : Writer := bitsOf i.lastBytesBits i.lastBytes

def pendingHighBitsZero (i : Init) : Bool := i.lastBytes / 2 ^ i.lastBytesBits == 0

/-! ## `update_size_hint`  (literals `[0, 1, 30]`) -/

def litsUsh := BV.Gen.lits_update_size_hint

/-- `update_size_hint(available_in)` with `delta = unprocessed_input_size()` -/
def updateSizeHint (sizeHint delta tail : Nat) : Nat :=
  if sizeHint = lit litsUsh 0 then
    let limit := (lit litsUsh 1) * 2 ^ (lit litsUsh 2)
    if delta ≥ limit ∨ tail ≥ limit ∨ (delta + tail) % 2 ^ 64 ≥ limit then limit
    else (delta + tail) % 2 ^ 64 % 2 ^ 32
  else sizeHint

/-! ## `encode_base_128`  (literals `[0, 0, 127, 7, 0, 128, 1]`), `MAX_SIZE_ENCODING` -/

def litsB128 := BV.Gen.lits_encode_base_128

/-- the loop `for index in 0..ret.len()` with `fuel` iterations left; returns
the bytes written so far (in order).  The `return (index + 1, ret)` and the
fall-through `(ret.len(), ret)` both yield "all bytes written so far". -/
def encodeBase128Loop : Nat → Nat → List Nat → List Nat
  | 0, _, acc => acc
  | k + 1, value, acc =>
    let b := value &&& lit litsB128 2
    let value := value >>> lit litsB128 3
    if value ≠ lit litsB128 4 then encodeBase128Loop k value (acc ++ [b ||| lit litsB128 5])
    else acc ++ [b]

/-- `encode_base_128(value)`: the `size_hint_count` significant bytes -/
def encodeBase128 (value : Nat) : List Nat :=
  encodeBase128Loop BV.Gen.MAX_SIZE_ENCODING (value % 2 ^ 64) []

/-! ## bit-stream pieces -/

/-- `JumpToByteBoundary`: `storage_ix = (storage_ix + 7) & !7`  (literals `[7, 7, 3, 0]`) -/
def jumpToByteBoundary (w : Writer) : Writer :=
  let l := BV.Gen.lits_JumpToByteBoundary
  let target := (w.length + lit l 0) / (lit l 1 + 1) * (lit l 1 + 1)
  w ++ List.replicate (target - w.length) false

def litsMeta := BV.Gen.lits_WriteMetadataMetaBlock

/-- the three magic bytes by concatenation mode (literals 9‥17 of the function:
`e1 97 81` / `e1 97 82` / `e1 97 80`) -/
def magicNumber (p : Params) : List Nat :=
  if p.catable && !p.useDictionary then [lit litsMeta 11, lit litsMeta 12, lit litsMeta 13]
  else if p.appendable then [lit litsMeta 14, lit litsMeta 15, lit litsMeta 16]
  else [lit litsMeta 17, lit litsMeta 18, lit litsMeta 19]

def writeBytes (n : Nat) : List Nat → Writer → Out Writer
  | [], w => ok w
  | b :: bs, w => do
    let w ← writeBits n b w
    writeBytes n bs w

/-- `BrotliWriteMetadataMetaBlock(params, storage_ix, storage)`
literals `[1,0, 2,3, 1,0, 2,1, 8,3, 3, e1,97,81, e1,97,82, e1,97,80, 8, 8, 8]` -/
def writeMetadataMetaBlock (p : Params) (w : Writer) : Out Writer := do
  let w ← writeBits (lit litsMeta 0) (lit litsMeta 1) w   -- not last
  let w ← writeBits (lit litsMeta 2) (lit litsMeta 3) w   -- MNIBBLES = 0
  let w ← writeBits (lit litsMeta 4) (lit litsMeta 5) w   -- reserved
  let w ← writeBits (lit litsMeta 6) (lit litsMeta 7) w   -- MSKIPBYTES
  let sh := encodeBase128 p.sizeHint
  let w ← writeBits (lit litsMeta 8) (lit litsMeta 9 + sh.length) w
  let w := jumpToByteBoundary w
  let w ← writeBytes (lit litsMeta 20) (magicNumber p) w
  let w ← writeBits (lit litsMeta 21) BV.Gen.BROTLI_CRATE_VERSION w
  writeBytes (lit litsMeta 22) sh w

/-- `Log2FloorNonZero(v)` for `v > 0` -/
def log2Floor (v : Nat) : Nat := Nat.log2 v

/-- `BrotliEncodeMlen(length)` = `(bits, numbits, nibblesbits)`; the three
`assert!`s are panics.  literals of the function are fingerprinted by the
C18 model; here only the uncompressed header uses it. -/
def encodeMlen (length : Nat) : Out (Nat × Nat × Nat) :=
  let lg := if length = 1 then 1 else log2Floor ((length + 2 ^ 32 - 1) % 2 ^ 32) + 1
  let mnibbles := (if lg < 16 then 16 else lg + 3) / 4
  if ¬ (length > 0) then panic
  else if ¬ (length ≤ 2 ^ 24) then panic
  else if ¬ (lg ≤ 24) then panic
  else ok (length - 1, mnibbles * 4, mnibbles - 4)

def litsUnc := BV.Gen.lits_StoreUncompressedMetaBlockHeader

/-- `BrotliStoreUncompressedMetaBlockHeader(length, …)`; `length as u32`.
literals `[0, 0, 0, 1, 0, 2, 1, 1]` (three initialisers, then the writes) -/
def storeUncompressedMetaBlockHeader (length : Nat) (w : Writer) : Out Writer := do
  let w ← writeBits (lit litsUnc 3) (lit litsUnc 4) w
  let (lenbits, nlenbits, nibblesbits) ← encodeMlen (length % 2 ^ 32)
  let w ← writeBits (lit litsUnc 5) nibblesbits w
  let w ← writeBits (nlenbits % 256) lenbits w
  writeBits (lit litsUnc 6) (lit litsUnc 7) w

/-- `BrotliWriteEmptyLastMetaBlock` (literals `[1, 1, 1, 1]`) -/
def writeEmptyLastMetaBlock (w : Writer) : Out Writer := do
  let l := BV.Gen.lits_WriteEmptyLastMetaBlock
  let w ← writeBits (lit l 0) (lit l 1) w
  let w ← writeBits (lit l 2) (lit l 3) w
  ok (jumpToByteBoundary w)

/-- `BrotliStoreSyncMetaBlock` (literals `[6, 6]`) -/
def storeSyncMetaBlock (w : Writer) : Out Writer := do
  let l := BV.Gen.lits_StoreSyncMetaBlock
  let w ← writeBits (lit l 0) (lit l 1) w
  ok (jumpToByteBoundary w)

/-- the payload copy of `store_uncompressed_meta_block`: whole bytes appended at
a byte boundary -/
def appendBytes (bs : List Nat) (w : Writer) : Writer :=
  w ++ bs.flatMap (bitsOf 8)

/-- `store_uncompressed_meta_block(is_final_block, input[position..position+len], …)`
(the ring-buffer split into two slices is irrelevant for the bits written).
literals of the tail `[1, 1, 1, 1]` = entries 12‥15. -/
def storeUncompressedMetaBlock (isFinal : Bool) (data : List Nat) (w : Writer) : Out Writer := do
  let l := BV.Gen.lits_store_uncompressed_meta_block
  let w ← storeUncompressedMetaBlockHeader data.length w
  let w := jumpToByteBoundary w
  let w := appendBytes data w
  if isFinal then
    let w ← writeBits (lit l 12) (lit l 13) w
    let w ← writeBits (lit l 14) (lit l 15) w
    ok (jumpToByteBoundary w)
  else ok w

/-! ## the start of a stream -/

/-- what is known about the output of the first `compress_stream` call that
reaches the encoder core with all of a (≤ one block) input and `FINISH` -/
structure Start where
  /-- the bits that do not depend on the payload coder -/
  bits : Writer
  /-- `true`: `bits` is the complete stream (nothing is left for the payload coder) -/
  whole : Bool
  /-- the magic block was written -/
  magic : Bool
  /-- number of input bytes stored by the catable prelude -/
  prelude : Nat
deriving Repr

/-- the head of the first `encode_data` call: magic block if `magic_number`, then,
if catable and there is input, an uncompressed meta-block with the first
`min(2, n)` bytes.  Returns the writer and the number of input bytes stored. -/
def encodeDataHead (p : Params) (input : List Nat) (w : Writer) : Out (Writer × Nat) :=
  (if p.magicNumber then writeMetadataMetaBlock p w else ok w).bind fun w1 =>
  let k := if p.catable then min 2 input.length else 0
  (if k ≠ 0 then storeUncompressedMetaBlock false (input.take k) w1 else ok w1).bind fun w2 =>
  ok (w2, k)

/-- if no input is left for the payload coder the stream is closed by the empty
last meta-block (`compress_fragment_*` with `input_size = 0`, or
`WriteMetaBlockInternal` with `bytes = 0`: both write bits `1,1` and pad) -/
def closeIfDone (w : Writer) (left : Nat) (magic : Bool) (k : Nat) : Out Start :=
  if left = 0 then
    (writeEmptyLastMetaBlock w).bind fun w => ok { bits := w, whole := true, magic := magic, prelude := k }
  else ok { bits := w, whole := false, magic := magic, prelude := k }

/-- `compress_stream(FINISH)` on a fresh encoder with the whole `input` (shorter
than one input block) available: the payload-independent beginning.

* quality 0/1, not catable and no magic number → `compress_stream_fast`: pending
  window bits, then the fragment coder (`is_last` with no input: bits `1,1` and padding);
* otherwise → `update_size_hint`, `encode_data`: magic block if `magic_number`,
  then, if catable and there is input, an uncompressed meta-block with the first
  `min(2, n)` bytes; if nothing is left, the empty last meta-block
  (`compress_fragment_*` with `input_size = 0`, or `WriteMetaBlockInternal`
  with `bytes = 0`: both write bits `1,1` and pad). -/
def streamStart (largeOk : Bool) (p0 : Params) (input : List Nat) : Out Start :=
  let i := ensureInitialized largeOk p0
  let p := i.params
  let w := pendingWriter i
  if (p.quality = 0 ∨ p.quality = 1) ∧ ¬ p.catable ∧ ¬ p.magicNumber then
    closeIfDone w input.length false 0
  else
    let p := { p with sizeHint := updateSizeHint p.sizeHint input.length 0 }
    (encodeDataHead p input w).bind fun r =>
    closeIfDone r.1 (input.length - r.2) p.magicNumber r.2

end BV.Header
