/-
M16b — the payload model `BV.E2E.encodeDataPayload` as a CONCRETE answer of the stream machine's oracle
(`BV/Model/Stream.lean`): for the state `s` in which `encode_data` is entered,

  `payAns lbs dict verdict ps s isLast forceFlush`

replays the skeleton of `encode_data` (`encStart`, `get_brotli_storage`, magic block, catable prelude — the model's own
functions), reads the ring buffer of the stream model as the byte slice `data_mo[buffer_index ..]` (`ringData`), runs
`encodeDataPayload` from the payload state `ps` and returns the new payload state and the `Ans` (`result`, `emit`, all
bits appended behind the carry) the stream machine expects.  `stepLoop` is `compress_stream`'s main loop
(`BV.Stream.slowLoop`) with the payload state threaded through and the oracle of every step computed by `payAns`.
-/
import BV.Model.E2E
import BV.Model.Stream

namespace BV.E2E
open BV.Stream BV.Bits
open BV.MatchFinder (DictItem)

/-- `ringbuffer_.data_mo` as a byte array (a cell never written is 0) -/
def ringArr (rb : Ring) : ByteArray :=
  rb.cells.foldr (fun (c : Nat × Nat) a => if c.1 < a.size then a.set! c.1 c.2.toUInt8 else a)
    (ByteArray.mk (Array.replicate rb.allocLen 0))

/-- the slice `data_mo[buffer_index ..]` (`buffer_index` = 2) the hashers and writers get -/
def ringData (rb : Ring) : ByteArray := (ringArr rb).extract 2 rb.allocLen

def eparamsOf (s : St) (lbs : Nat) : EParams :=
  { quality := s.params.quality.toNat, lgwin := s.params.lgwin.toNat, lgblock := s.params.lgblock.toNat,
    large := s.params.largeWindow, useDict := s.params.useDict, appendable := s.params.appendable,
    catable := s.params.catable, lbs := lbs }

/-- the answer of the payload encoder in state `s` (entry of `encode_data`), from payload state `ps` -/
def payAns (lbs : Nat) (dict : ByteArray → Nat → Option (List DictItem)) (verdict : Bool) (ps : PSt) (s : St)
    (isLast forceFlush : Bool) : Out (PSt × Ans × Res) :=
  if s.isLastBlockEmitted ∨ s.unprocessed > s.blockSize then
    .ok (ps, { result := false, emit := false, bits := [] }, { st := ps, emit := false, w := [] })
  else
  let s1 := growStorage (encStart s isLast) (wantStorage s)
  let m := encMagic s1 s.carry
  match encPrelude m.1 m.2.1 m.2.2 (s.unprocessed % two32) with
  | .panic => .panic
  | .fuel => .fuel
  | .ok (s2, w, _) =>
    match encodeDataPayload (eparamsOf s lbs) dict (ringData s.ring) s.ring.mask s2.lastProcessedPos s2.lastFlushPos
        s2.inputPos isLast forceFlush verdict ps w with
    | .panic => .panic
    | .fuel => .fuel
    | .ok r => .ok (r.st, { result := true, emit := r.emit, bits := r.w.drop s.carry.length }, r)

/-- what the driver reports of one call -/
structure CallOut where
  s : St
  io : Io
  ps : PSt
  ret : Bool
  /-- the invocations made, in order -/
  invs : List Res

/-- `compress_stream`'s main loop (`slowLoop`) with the payload state threaded through: the oracle of every step is
`payAns` of the state the step starts in (`update_size_hint` applied, as `slowStep` does before `encode_data`) -/
def stepLoop (lbs : Nat) (dict : ByteArray → Nat → Option (List DictItem)) (verdict : Bool) (op : Nat) :
    Nat → St → Io → PSt → List Res → Out CallOut
  | 0, _, _, _, _ => .fuel
  | fuel + 1, s, io, ps, invs =>
    let il := decide (io.availIn = 0 ∧ op = 2)
    let ff := decide (io.availIn = 0 ∧ op = 1)
    let pa := Thunk.mk fun _ => payAns lbs dict verdict ps (updateSizeHint s io.availIn) il ff
    let o : Oracle := fun _ _ => match pa.get with
      | .ok (_, a, _) => a
      | _ => {}
    match slowStep o op s io with
    | .panic => .panic
    | .fuel => .fuel
    | .ok (s', io', c) =>
      let invoked := decide (io'.reqs.length > io.reqs.length)
      let upd : Out (PSt × List Res) :=
        if invoked then
          match pa.get with
          | .ok (ps', _, r) => .ok (ps', invs ++ [r])
          | .panic => .panic
          | .fuel => .fuel
        else .ok (ps, invs)
      match upd with
      | .panic => .panic
      | .fuel => .fuel
      | .ok (ps', invs') =>
        match c with
        | .fail => .ok ⟨s', io', ps', false, invs'⟩
        | .brk => .ok ⟨checkFlushComplete s', io', ps', true, invs'⟩
        | .cont => stepLoop lbs dict verdict op fuel s' io' ps' invs'

/-- `compress_stream(op, input, cap)` for `op` ∈ {PROCESS, FLUSH, FINISH} at quality ≥ 2 (the dispatch of
`BV.Stream.compressStream`, main-loop arm) -/
def compressStreamE2E (lbs : Nat) (dict : ByteArray → Nat → Option (List DictItem)) (verdict : Bool) (fuel : Nat)
    (s : St) (ps : PSt) (op : Nat) (input : Bytes) (cap : Nat) : Out CallOut :=
  let s := ensureInitialized s
  let io : Io := { input := input, availIn := input.length, availOut := cap }
  if s.remainingMetadata ≠ u32Max then .ok ⟨s, io, ps, false, []⟩
  else if op ≥ 3 then .fuel
  else if s.streamState = .metadataHead ∨ s.streamState = .metadataBody then .ok ⟨s, io, ps, false, []⟩
  else if s.streamState ≠ .processing ∧ io.availIn ≠ 0 then .ok ⟨s, io, ps, false, []⟩
  else if (s.params.quality = 0 ∨ s.params.quality = 1) then .fuel
  else stepLoop lbs dict verdict op fuel s io ps []

end BV.E2E
