/-
M16b `MetaBlockFull` — executable model of the general compressed meta-block writer
`store_meta_block` (`BrotliStoreMetaBlock`, quality ≥ 4) of `src/enc/brotli_bit_stream.rs`:

* `NextBlockTypeCode`, `StoreBlockSwitch`, `BuildAndStoreBlockSplitCode`, `StoreVarLenUint8`,
* `StoreTrivialContextMap`, `IndexOf`, `MoveToFront`, `MoveToFrontTransform`, `RunLengthCodeZeros`,
  `EncodeContextMap`,
* `BlockEncoder::{new, build_and_store_entropy_codes, store_symbol, store_symbol_with_context}`,
* `Context` (the four literal context modes, tables `kUTF8ContextLookup` / `kSigned3BitContextLookup`
  generated from `constants.rs`), `Command::distance_context`,
* `store_meta_block` itself (with `params.log_meta_block = false`; the logging branch is model M12).

The `MetaBlockSplit` (block splits, context maps, per-cluster histograms) is INPUT: the clustering
heuristics that produce it are not modelled.  Conventions as in `BV/Model/MetaBlock.lean`.
Allocated tables (`depths_`, `bits_`, `rle_symbols`) are zero-initialised (`StandardAlloc`).

SPEC side at the end: `readCompressedBodyG` / `readMetaBlockFullG` / `readStreamG`, the RFC 7932
§9.2 / §9.3 / §10 reader of a compressed meta-block in its GENERAL form (NBLTYPES ≥ 1 with
block-type and block-count codes, context modes, context maps with RLEMAX and inverse
move-to-front, NTREES prefix codes per category, block switches inside the command loop).
-/
import BV.Model.MetaBlock

namespace BV.MetaBlock
open BV.Gen BV.Bits BV.Huffman BV.PrefixArith BV.Recoder

/-! ### block splits -/

/-- `BlockSplit` as the writer sees it: `num_types`, `num_blocks`, and the two slices -/
structure BSplit where
  numTypes : Nat
  numBlocks : Nat
  types : List Nat
  lengths : List Nat
deriving Repr, DecidableEq

/-- `BlockSplitCode` (+ its `BlockTypeCodeCalculator`) -/
structure BSCode where
  last : Nat
  secondLast : Nat
  typeDepths : List Nat
  typeBits : List Nat
  lengthDepths : List Nat
  lengthBits : List Nat
deriving Repr, DecidableEq

/-- `BlockSplitCode` as `BlockEncoder::new` initialises it -/
def BSCode.init : BSCode := ⟨1, 0, List.replicate 258 0, List.replicate 258 0, List.replicate 26 0, List.replicate 26 0⟩

/-- `NextBlockTypeCode(calculator, type_)`: (type code, last', second_last') -/
def nextBlockTypeCode (last secondLast t : Nat) : Nat × Nat × Nat :=
  ((if t = (last + 1) % two64 then 1 else if t = secondLast then 0 else t + 2), t, last)

/-- `GetBlockLengthPrefixCode(len, …)`: (code, n_extra, extra); `len.wrapping_sub(offset)` on `u32` -/
def getBlockLenCode (len : Nat) : Nat × Nat × Nat :=
  let code := blockLengthPrefixCode len
  let row := kBlockLengthPrefixCode.getD code (0, 0)     -- `code < 26` always: never out of range
  (code, row.2, (len + two32 - row.1) % two32)

/-- `StoreVarLenUint8(n, …)` (`n: u64`; `nbits as u8`) -/
def storeVarLenUint8M (n : Nat) (w : Writer) : Out Writer :=
  if n = 0 then writeBits 1 0 w
  else do
    let nbits := log2Floor n
    let w ← writeBits 1 1 w
    let w ← writeBits 3 nbits w
    writeBits (nbits % 256) ((n + two64 - 2 ^ nbits) % two64) w

/-- `StoreBlockSwitch(code, block_len, block_type, is_first_block, …)` -/
def storeBlockSwitch (c : BSCode) (blockLen blockType : Nat) (isFirst : Bool) (w : Writer) :
    Out (BSCode × Writer) := do
  let (typecode, last, second) := nextBlockTypeCode c.last c.secondLast blockType
  let w ← (if isFirst then Out.ok w else storeSym c.typeDepths c.typeBits typecode w)
  let (lencode, nextra, extra) := getBlockLenCode blockLen
  let w ← storeSym c.lengthDepths c.lengthBits lencode w
  let w ← writeBits (nextra % 256) extra w
  .ok ({ c with last := last, secondLast := second }, w)

/-- the histogram loop of `BuildAndStoreBlockSplitCode`: `(type_histo, length_histo)`; the local
`type_code_calculator` is `(last, second)` -/
def splitHistos (types lengths : List Nat) : Nat → Nat → Nat → Nat → List Nat → List Nat →
    Out (List Nat × List Nat)
  | 0, _, _, _, th, lh => .ok (th, lh)
  | cnt + 1, i, last, second, th, lh => do
    let t ← getAt types i
    let (tc, last, second) := nextBlockTypeCode last second t
    let th ← (if i ≠ 0 then do
        let c ← getAt th tc
        setAt th tc ((c + 1) % two32)
      else Out.ok th)
    let l ← getAt lengths i
    let lc := blockLengthPrefixCode l
    let c ← getAt lh lc
    let lh ← setAt lh lc ((c + 1) % two32)
    splitHistos types lengths cnt (i + 1) last second th lh

/-- `BuildAndStoreBlockSplitCode(types, lengths, num_blocks, num_types, tree, code, …)` -/
def buildAndStoreBlockSplitCode (s : BSplit) (c : BSCode) (w : Writer) : Out (BSCode × Writer) := do
  let (th, lh) ← splitHistos s.types s.lengths s.numBlocks 0 1 0 (List.replicate 258 0) (List.replicate 26 0)
  let w ← storeVarLenUint8M ((s.numTypes + two64 - 1) % two64) w
  if s.numTypes > 1 then
    let (td, tb, w) ← buildAndStoreHuffmanTree th ((s.numTypes + 2) % two64) ((s.numTypes + 2) % two64)
      scratchTree c.typeDepths c.typeBits w
    let (ld, lb, w) ← buildAndStoreHuffmanTree lh BROTLI_NUM_BLOCK_LEN_SYMBOLS BROTLI_NUM_BLOCK_LEN_SYMBOLS
      scratchTree c.lengthDepths c.lengthBits w
    let c := { c with typeDepths := td, typeBits := tb, lengthDepths := ld, lengthBits := lb }
    let l0 ← getAt s.lengths 0
    let t0 ← getAt s.types 0
    storeBlockSwitch c l0 t0 true w
  else .ok (c, w)

/-! ### context maps -/

/-- `StoreTrivialContextMap(num_types, context_bits, tree, …)` -/
def storeTrivialContextMap (numTypes contextBits : Nat) (w : Writer) : Out Writer := do
  let w ← storeVarLenUint8M ((numTypes + two64 - 1) % two64) w
  if numTypes > 1 then
    let repeatCode := (contextBits + two64 - 1) % two64
    if repeatCode ≥ 32 then .panic else          -- `1u32 << repeat_code`
    let repeatBits := (2 ^ repeatCode + two32 - 1) % two32
    let alphabetSize := (numTypes + repeatCode) % two64
    let histogram := List.replicate 272 0
    let w ← writeBits 1 1 w
    let w ← writeBits 4 ((repeatCode + two64 - 1) % two64) w
    let histogram ← setAt histogram repeatCode (numTypes % two32)
    let histogram ← setAt histogram 0 1
    -- `for i in context_bits..alphabet_size { histogram[i] = 1 }`
    let histogram ← (List.range (alphabetSize - contextBits)).foldlM
      (fun h k => setAt h (contextBits + k) 1) histogram
    let (depths, bits, w) ← buildAndStoreHuffmanTree histogram alphabetSize alphabetSize scratchTree
      (List.replicate 272 0) (List.replicate 272 0) w
    let w ← (List.range numTypes).foldlM (fun w i => do
        let code := if i = 0 then 0 else (i + contextBits + two64 - 1) % two64
        let w ← storeSym depths bits code w
        let w ← storeSym depths bits repeatCode w
        writeBits (repeatCode % 256) repeatBits w) w
    writeBits 1 1 w
  else .ok w

/-- `IndexOf(v, v_size, value)` -/
def indexOf (v : List Nat) (vSize value : Nat) : Out Nat :=
  let rec go : Nat → Nat → Out Nat
    | 0, i => .ok i
    | cnt + 1, i => do
      let x ← getAt v i
      if x = value then .ok i else go cnt (i + 1)
  go vSize 0

/-- `MoveToFront(v, index)` -/
def moveToFront (v : List Nat) (index : Nat) : Out (List Nat) := do
  let value ← getAt v index
  -- `while i != 0 { v[i] = v[i - 1]; i -= 1 }; v[0] = value`
  .ok (value :: (v.take index ++ v.drop (index + 1)))

/-- `MoveToFrontTransform(v_in, v_size, v_out)`: the `v_size` transformed values -/
def moveToFrontTransform (vIn : List Nat) (vSize : Nat) : Out (List Nat) :=
  if vSize = 0 then .ok []
  else if vSize > vIn.length then .panic
  else
    let maxValue := (vIn.take vSize).foldl max 0
    if maxValue ≥ 256 then .panic             -- `mtf[i]` for `i ≤ max_value`, `[u8; 256]`
    else
      let mtf0 := (List.range (maxValue + 1)) ++ List.replicate (255 - maxValue) 0
      let rec go : List Nat → List Nat → List Nat → Out (List Nat)
        | [], _, acc => .ok acc.reverse
        | x :: xs, mtf, acc => do
          let index ← indexOf mtf (maxValue + 1) (x % 256)
          let mtf ← moveToFront mtf index
          go xs mtf (index :: acc)
      go (vIn.take vSize) mtf0 []

/-- number of leading zeros of a list -/
def zeroRun : List Nat → Nat
  | 0 :: xs => zeroRun xs + 1
  | _ => 0

/-- the first loop of `RunLengthCodeZeros`: the longest run of zeros -/
def maxZeroRun : Nat → List Nat → Nat → Nat
  | 0, _, m => m
  | _ + 1, [], m => m
  | f + 1, x :: xs, m =>
    if x ≠ 0 then maxZeroRun f xs m
    else maxZeroRun f (xs.drop (zeroRun xs)) (max m (zeroRun xs + 1))

/-- the `while reps != 0` loop: the packed symbols `prefix + (extra << 9)` of one run of zeros -/
def zeroRunSymbols (maxPrefix : Nat) : Nat → Nat → List Nat
  | 0, _ => []
  | f + 1, reps =>
    if reps = 0 then []
    else if reps < 2 * 2 ^ maxPrefix then
      [(log2Floor reps + ((reps - 2 ^ log2Floor reps) * 512) % two32) % two32]
    else
      ((maxPrefix + ((2 ^ maxPrefix - 1) * 512) % two32) % two32) ::
        zeroRunSymbols maxPrefix f (reps - (2 * 2 ^ maxPrefix - 1))

/-- the second loop of `RunLengthCodeZeros` -/
def rleLoop (maxPrefix : Nat) : Nat → List Nat → List Nat
  | 0, _ => []
  | _ + 1, [] => []
  | f + 1, x :: xs =>
    if x ≠ 0 then ((x + maxPrefix) % two32) :: rleLoop maxPrefix f xs
    else zeroRunSymbols maxPrefix (zeroRun xs + 2) (zeroRun xs + 1) ++ rleLoop maxPrefix f (xs.drop (zeroRun xs))

/-- `RunLengthCodeZeros(in_size, v, out_size, max_run_length_prefix)`: `(v[..out_size], max_prefix)` -/
def runLengthCodeZeros (v : List Nat) (maxRunLengthPrefix : Nat) : List Nat × Nat :=
  let maxReps := maxZeroRun (v.length + 1) v 0
  let maxPrefix := min (if maxReps > 0 then log2Floor maxReps else 0) maxRunLengthPrefix
  (rleLoop maxPrefix (v.length + 1) v, maxPrefix)

/-- `EncodeContextMap(m, context_map, context_map_size, num_clusters, tree, …)` -/
def encodeContextMap (contextMap : List Nat) (size numClusters : Nat) (w : Writer) : Out Writer := do
  let w ← storeVarLenUint8M ((numClusters + two64 - 1) % two64) w
  if numClusters = 1 then .ok w
  else
    let mtf ← moveToFrontTransform contextMap size
    let (rle, maxPrefix) := runLengthCodeZeros mtf 6
    let histogram ← rle.foldlM (fun h s => do
        let c ← getAt h (s % 512)
        setAt h (s % 512) ((c + 1) % two32)) (List.replicate 272 0)
    let w ← writeBits 1 (if maxPrefix > 0 then 1 else 0) w
    let w ← (if maxPrefix > 0 then writeBits 4 (maxPrefix - 1) w else Out.ok w)
    let n := (numClusters + maxPrefix) % two64
    let (depths, bits, w) ← buildAndStoreHuffmanTree histogram n n scratchTree
      (List.replicate 272 0) (List.replicate 272 0) w
    let w ← rle.foldlM (fun w s => do
        let sym := s % 512
        let w ← storeSym depths bits sym w
        if sym > 0 ∧ sym ≤ maxPrefix then writeBits (sym % 256) (s / 512) w else .ok w) w
    writeBits 1 1 w

/-! ### block encoders -/

/-- `BlockEncoder` -/
structure BEnc where
  histLen : Nat
  split : BSplit
  code : BSCode
  blockIx : Nat
  blockLen : Nat
  entropyIx : Nat
  depths : List Nat
  bits : List Nat
deriving Repr

/-- `BlockEncoder::new(histogram_length, num_block_types, block_types, block_lengths, num_blocks)` -/
def BEnc.new (histLen : Nat) (s : BSplit) : BEnc :=
  { histLen := histLen, split := s, code := BSCode.init, blockIx := 0,
    blockLen := (if s.numBlocks ≠ 0 then (match s.lengths with | l :: _ => l | [] => 0) else 0),
    entropyIx := 0, depths := [], bits := [] }

/-- `build_and_store_entropy_codes(m, histograms, histograms_size, alphabet_size, tree, …)`:
the `depths_` / `bits_` tables of `histograms_size * histogram_length_` zeroed entries, one
`BuildAndStoreHuffmanTree` per histogram into the table's tail `[ix..]` -/
def buildEntropyCodes (histLen : Nat) (histos : List (List Nat)) (size alphabetSize : Nat) (w : Writer) :
    Out (List Nat × List Nat × Writer) :=
  let tableSize := (size * histLen) % two64
  let rec go : Nat → Nat → List Nat → List Nat → Writer → Out (List Nat × List Nat × Writer)
    | 0, _, d, b, w => .ok (d, b, w)
    | cnt + 1, i, d, b, w => do
      let h ← getAt histos i
      let ix := (i * histLen) % two64
      if ix > d.length then .panic else
      let (d', b', w) ← buildAndStoreHuffmanTree h histLen alphabetSize scratchTree (d.drop ix) (b.drop ix) w
      go cnt (i + 1) (d.take ix ++ d') (b.take ix ++ b') w
  go size 0 (List.replicate tableSize 0) (List.replicate tableSize 0) w

/-- the block-switch half of `store_symbol` / `store_symbol_with_context`;
`shift = some context_bits` for the context variant (`entropy_ix_ = block_type << context_bits`),
`none` for the plain one (`entropy_ix_ = block_type * histogram_length_`) -/
def BEnc.switchIfNeeded (e : BEnc) (shift : Option Nat) (w : Writer) : Out (BEnc × Writer) :=
  if e.blockLen = 0 then do
    let blockIx := (e.blockIx + 1) % two64
    let blockLen ← getAt e.split.lengths blockIx
    let blockType ← getAt e.split.types blockIx
    let entropyIx := match shift with
      | some cb => (blockType * 2 ^ cb) % two64
      | none => (blockType * e.histLen) % two64
    let (code, w) ← storeBlockSwitch e.code blockLen blockType false w
    .ok ({ e with blockIx := blockIx, blockLen := blockLen, entropyIx := entropyIx, code := code }, w)
  else .ok (e, w)

/-- the common first half of `store_symbol` / `store_symbol_with_context`: the block switch if the current
block is used up, then `self.block_len_ -= 1` -/
def BEnc.adv (e : BEnc) (shift : Option Nat) (w : Writer) : Out (BEnc × Writer) := do
  let (e, w) ← e.switchIfNeeded shift w
  .ok ({ e with blockLen := (e.blockLen + two64 - 1) % two64 }, w)

/-- `BlockEncoder::store_symbol(symbol, …)` -/
def BEnc.storeSymbol (e : BEnc) (symbol : Nat) (w : Writer) : Out (BEnc × Writer) := do
  let (e, w) ← e.adv none w
  let w ← storeSym e.depths e.bits ((e.entropyIx + symbol) % two64) w
  .ok (e, w)

/-- `BlockEncoder::store_symbol_with_context(symbol, context, context_map, …, context_bits)` -/
def BEnc.storeSymbolCtx (e : BEnc) (symbol context : Nat) (cmap : List Nat) (contextBits : Nat) (w : Writer) :
    Out (BEnc × Writer) := do
  let (e, w) ← e.adv (some contextBits) w
  let histoIx ← getAt cmap ((e.entropyIx + context) % two64)
  let w ← storeSym e.depths e.bits ((histoIx * e.histLen + symbol) % two64) w
  .ok (e, w)

/-! ### contexts -/

/-- `Context(p1, p2, mode)`; `mode` = the `ContextType` discriminant 0..3 (a 2-bit enum) -/
def contextOf (p1 p2 mode : Nat) : Out Nat :=
  if mode = 0 then .ok (p1 % 64)
  else if mode = 1 then .ok (p1 / 4 % 256)
  else if mode = 2 then do
    let a ← getAt kUTF8ContextLookup p1
    let b ← getAt kUTF8ContextLookup (p2 + 256)
    .ok ((a ||| b) % 256)
  else do
    let a ← getAt kSigned3BitContextLookup p1
    let b ← getAt kSigned3BitContextLookup p2
    .ok ((a * 8 + b) % 256)

/-- `Command::distance_context()` -/
def distanceContext (c : Cmd) : Nat :=
  let r := c.cmdPrefix / 64
  let cc := c.cmdPrefix % 8
  if (r = 0 ∨ r = 2 ∨ r = 4 ∨ r = 7) ∧ cc ≤ 2 then cc else 3

/-! ### `store_meta_block` -/

/-- `MetaBlockSplit` -/
structure MBSplit where
  lit : BSplit
  cmd : BSplit
  dist : BSplit
  litCmap : List Nat
  litCmapSize : Nat
  distCmap : List Nat
  distCmapSize : Nat
  litHistos : List (List Nat)
  litHistosSize : Nat
  cmdHistos : List (List Nat)
  cmdHistosSize : Nat
  distHistos : List (List Nat)
  distHistosSize : Nat
deriving Repr

/-- `params.dist` + `params.large_window` -/
structure DistP where
  npostfix : Nat
  ndirect : Nat
  alphabetSize : Nat
  large : Bool
deriving Repr

/-- loop state of the command loop of `store_meta_block` -/
structure FullSt where
  pos : Nat
  prev : Nat
  prev2 : Nat
  litE : BEnc
  cmdE : BEnc
  distE : BEnc
  w : Writer

/-- the literal loop of one command -/
def fullLits (ring : Bytes) (mask mode : Nat) (mb : MBSplit) : Nat → FullSt → Out FullSt
  | 0, s => .ok s
  | j + 1, s => do
    let literal ← getAt ring (s.pos &&& mask)
    if mb.litCmapSize = 0 then
      let (e, w) ← s.litE.storeSymbol literal s.w
      fullLits ring mask mode mb j { s with litE := e, w := w, pos := (s.pos + 1) % two64 }
    else
      let context ← contextOf s.prev s.prev2 mode
      let (e, w) ← s.litE.storeSymbolCtx literal context mb.litCmap 6 s.w
      fullLits ring mask mode mb j
        { s with litE := e, w := w, prev2 := s.prev, prev := literal, pos := (s.pos + 1) % two64 }

/-- the second half of one iteration: `pos += copy_len()`, the two context bytes behind the copy, the distance -/
def fullCopy (ring : Bytes) (mask : Nat) (mb : MBSplit) (c : Cmd) (s : FullSt) : Out FullSt := do
  let pos := (s.pos + copyLen c) % two64
  if copyLen c ≠ 0 then
    let prev2 ← (if pos ≥ 2 then getAt ring (((pos + two64 - 2) % two64) &&& mask) else Out.ok 0)
    let prev ← getAt ring (((pos + two64 - 1) % two64) &&& mask)
    if c.cmdPrefix ≥ 128 then
      let distCode := c.distPrefix % 1024
      let (de, w) ← (if mb.distCmapSize = 0 then s.distE.storeSymbol distCode s.w
        else s.distE.storeSymbolCtx distCode (distanceContext c) mb.distCmap 2 s.w)
      let w ← writeBits ((c.distPrefix / 1024) % 256) c.distExtra w
      .ok { s with pos := pos, prev := prev, prev2 := prev2, distE := de, w := w }
    else .ok { s with pos := pos, prev := prev, prev2 := prev2 }
  else .ok { s with pos := pos }

/-- one iteration of `for i in 0..n_commands` -/
def fullCmd (ring : Bytes) (mask mode : Nat) (mb : MBSplit) (s : FullSt) (c : Cmd) : Out FullSt := do
  let (ce, w) ← s.cmdE.storeSymbol c.cmdPrefix s.w
  let w ← storeCommandExtraM c w
  let s ← fullLits ring mask mode mb c.insertLen { s with cmdE := ce, w := w }
  fullCopy ring mask mb c s

def fullCmds (ring : Bytes) (mask mode : Nat) (mb : MBSplit) : List Cmd → FullSt → Out FullSt
  | [], s => .ok s
  | c :: cs, s => do
    let s ← fullCmd ring mask mode mb s c
    fullCmds ring mask mode mb cs s

/-- `store_meta_block(alloc, input, start_pos, length, mask, prev_byte, prev_byte2, is_last, params,
literal_context_mode, …, commands, n_commands, mb, …, storage_ix, storage, …)` -/
def storeMetaBlockFull (ring : Bytes) (start length mask prevByte prevByte2 : Nat) (isLast : Bool)
    (dp : DistP) (mode : Nat) (cmds : List Cmd) (mb : MBSplit) (w : Writer) : Out Writer := do
  inputPairCheck ring start length mask
  let numEff := if dp.large ∧ dp.alphabetSize > BROTLI_NUM_HISTOGRAM_DISTANCE_SYMBOLS
    then BROTLI_NUM_HISTOGRAM_DISTANCE_SYMBOLS else dp.alphabetSize
  let w ← storeCompressedMetaBlockHeader isLast length w
  let litE := BEnc.new BROTLI_NUM_LITERAL_SYMBOLS mb.lit
  let cmdE := BEnc.new BROTLI_NUM_COMMAND_SYMBOLS mb.cmd
  let distE := BEnc.new numEff mb.dist
  let (lc, w) ← buildAndStoreBlockSplitCode mb.lit litE.code w
  let (cc, w) ← buildAndStoreBlockSplitCode mb.cmd cmdE.code w
  let (dc, w) ← buildAndStoreBlockSplitCode mb.dist distE.code w
  let w ← writeBits 2 dp.npostfix w
  if dp.npostfix ≥ 32 then .panic else          -- `num_direct_distance_codes >> distance_postfix_bits` (u32)
  let w ← writeBits 4 (dp.ndirect / 2 ^ dp.npostfix) w
  let w ← (List.range mb.lit.numTypes).foldlM (fun w _ => writeBits 2 mode w) w
  let w ← (if mb.litCmapSize = 0 then storeTrivialContextMap mb.litHistosSize 6 w
    else encodeContextMap mb.litCmap mb.litCmapSize mb.litHistosSize w)
  let w ← (if mb.distCmapSize = 0 then storeTrivialContextMap mb.distHistosSize 2 w
    else encodeContextMap mb.distCmap mb.distCmapSize mb.distHistosSize w)
  let (ld, lb, w) ← buildEntropyCodes BROTLI_NUM_LITERAL_SYMBOLS mb.litHistos mb.litHistosSize
    BROTLI_NUM_LITERAL_SYMBOLS w
  let (cd, cb, w) ← buildEntropyCodes BROTLI_NUM_COMMAND_SYMBOLS mb.cmdHistos mb.cmdHistosSize
    BROTLI_NUM_COMMAND_SYMBOLS w
  let (dd, db, w) ← buildEntropyCodes numEff mb.distHistos mb.distHistosSize dp.alphabetSize w
  let s ← fullCmds ring mask mode mb cmds
    { pos := start, prev := prevByte, prev2 := prevByte2,
      litE := { litE with code := lc, depths := ld, bits := lb },
      cmdE := { cmdE with code := cc, depths := cd, bits := cb },
      distE := { distE with code := dc, depths := dd, bits := db }, w := w }
  .ok (if isLast then jumpToByteBoundary s.w else s.w)

/-! ### the context-map expansion of `BrotliBuildMetaBlock` (`disable_literal_context_modeling != 0`) -/

/-- `while j < 64 { map[(i << 6) + j] = map[i]; j += 1 }` -/
def expandInner (i : Nat) : Nat → Nat → List Nat → Out (List Nat)
  | 0, _, m => .ok m
  | cnt + 1, j, m => do
    let val ← getAt m i
    let m ← setAt m (((i * 64) % two64 + j) % two64) val
    expandInner i cnt (j + 1) m

/-- `i = num_types; while i != 0 { i -= 1; … }`: block types in DESCENDING order, so that the cluster ids
`map[0 .. num_types)` still to be read are not yet overwritten -/
def expandContextMap : Nat → List Nat → Out (List Nat)
  | 0, m => .ok m
  | i + 1, m => do
    let m ← expandInner i 64 0 m
    expandContextMap i m

/-- the same loop with the block types in ASCENDING order (the mutation of seed
`C01-q10-contextmap-expand-ascending`); `i` runs from `i` to `i + cnt − 1` -/
def expandContextMapAsc : Nat → Nat → List Nat → Out (List Nat)
  | 0, _, m => .ok m
  | cnt + 1, i, m => do
    let m ← expandInner i 64 0 m
    expandContextMapAsc cnt (i + 1) m

/-! ## SPEC side: the general RFC 7932 compressed meta-block reader -/

/-- §7.1 context id of a literal from the two previous bytes; the UTF8 / signed lookup tables are
`Lut0 ++ Lut1` = `kUTF8ContextLookup` and `Lut2` = `kSigned3BitContextLookup` (RFC 7932 §7.1; taken
from the source constants) -/
def rfcLiteralContext (mode p1 p2 : Nat) : Nat :=
  if mode = 0 then p1 % 64
  else if mode = 1 then p1 / 4 % 64        -- `p1 >> 2` of a byte; `% 64` only makes the id total on unbounded naturals
  else if mode = 2 then kUTF8ContextLookup.getD p1 0 ||| kUTF8ContextLookup.getD (256 + p2) 0
  else kSigned3BitContextLookup.getD p1 0 * 8 + kSigned3BitContextLookup.getD p2 0

/-- §7.2 context id of a distance from the copy length -/
def rfcDistanceContext (copyLen : Nat) : Nat :=
  if copyLen = 2 then 0 else if copyLen = 3 then 1 else if copyLen = 4 then 2 else 3

/-- the command array reproduces the input: after every command the RFC decoder's output is the history followed
by the bytes of the meta-block up to its cursor (what the encoder's match finders guarantee; needed here because
with context modelling the writer takes the two context bytes from its INPUT, the decoder from its OUTPUT) -/
def faithful (wo : WordOracle) (npostfix ndirect window : Nat) (mb hist : Bytes) : DecSt → List Cmd → Prop
  | _, [] => True
  | s, c :: cs =>
    match decStep wo npostfix ndirect window mb s c with
    | none => False
    | some s' => s'.out = hist ++ mb.take s'.cursor ∧ faithful wo npostfix ndirect window mb hist s' cs

/-- §6: one category of block-switched symbols as the decoder holds it -/
structure Cat where
  nbl : Nat
  typeCode : Code
  countCode : Code
  btype : Nat
  count : Nat
  second : Nat       -- second-to-last block type (for type code 0); initially 1
deriving Repr

/-- §6: a block count: prefix-coded symbol, then its extra bits -/
def readBlockCount (countCode : Code) (bs : List Bool) : Option (Nat × List Bool) :=
  match countCode.read bs with
  | none => none
  | some (sym, bs) =>
    match rfcBlockLenTable[sym]? with
    | none => none
    | some (base, nbits) =>
      match takeBits nbits bs with
      | none => none
      | some (extra, bs) => some (base + extra, bs)

/-- §9.2: NBLTYPESx, and for NBLTYPESx ≥ 2 the block type code, the block count code and the
first block count -/
def readCatHeader (bs : List Bool) : Option (Cat × List Bool) :=
  match readVarLen8 bs with
  | none => none
  | some (n, bs) =>
    if n = 0 then some (⟨1, Code.single 0, Code.single 0, 0, 16777216, 1⟩, bs)
    else
      match readCode (n + 1 + 2) bs with
      | none => none
      | some (tc, bs) =>
        match readCode 26 bs with
        | none => none
        | some (cc, bs) =>
          match readBlockCount cc bs with
          | none => none
          | some (cnt, bs) => some (⟨n + 1, tc, cc, 0, cnt, 1⟩, bs)

/-- §6: called before each symbol of the category: with one block type nothing happens; else a
block switch if the current block is used up (type code 0 = second-to-last type, 1 = last + 1
wrapping at NBLTYPES, else code − 2), then the count is decremented -/
def Cat.next (c : Cat) (bs : List Bool) : Option (Cat × List Bool) :=
  if c.nbl < 2 then some (c, bs)
  else if c.count ≠ 0 then some ({ c with count := c.count - 1 }, bs)
  else
    match c.typeCode.read bs with
    | none => none
    | some (tc, bs) =>
      let t := if tc = 0 then c.second else if tc = 1 then (if c.btype + 1 ≥ c.nbl then 0 else c.btype + 1) else tc - 2
      if t ≥ c.nbl then none else
      match readBlockCount c.countCode bs with
      | none => none
      | some (cnt, bs) =>
        if cnt = 0 then none else
        some ({ c with btype := t, count := cnt - 1, second := c.btype }, bs)

/-- `n` block switches in a row (each block taken as used up at once): the `(type, count)` pairs read,
appended to `acc` (reversed) -/
def readSwitches : Nat → Cat → List Bool → List (Nat × Nat) → Option (List (Nat × Nat) × List Bool)
  | 0, _, bs, acc => some (acc.reverse, bs)
  | n + 1, c, bs, acc =>
    match ({ c with count := 0 } : Cat).next bs with
    | none => none
    | some (c', bs') => readSwitches n c' bs' ((c'.btype, c'.count + 1) :: acc)

/-- inverse move-to-front transform of §7.3 -/
def inverseMtf (v : List Nat) : List Nat :=
  let rec go : List Nat → List Nat → List Nat → List Nat
    | [], _, acc => acc.reverse
    | x :: xs, mtf, acc =>
      let value := mtf.getD x 0
      go xs (value :: (mtf.take x ++ mtf.drop (x + 1))) (value :: acc)
  go v (List.range 256) []

/-- §7.3: the entries of a context map: symbols `1..RLEMAX` are runs of `2^sym + extra` zeros,
symbols above are the value `sym − RLEMAX` -/
def readCmapEntries (code : Code) (rlemax size : Nat) : Nat → List Nat → List Bool → Option (List Nat × List Bool)
  | 0, _, _ => none
  | f + 1, acc, bs =>
    if acc.length = size then some (acc, bs)
    else
      match code.read bs with
      | none => none
      | some (sym, bs) =>
        if sym = 0 then readCmapEntries code rlemax size f (acc ++ [0]) bs
        else if sym ≤ rlemax then
          match takeBits sym bs with
          | none => none
          | some (extra, bs) =>
            let reps := 2 ^ sym + extra
            if acc.length + reps > size then none
            else readCmapEntries code rlemax size f (acc ++ List.replicate reps 0) bs
        else readCmapEntries code rlemax size f (acc ++ [sym - rlemax]) bs

/-- §7.3: NTREES and the context map of `size` entries: `(NTREES, map, rest)` -/
def readContextMap (size : Nat) (bs : List Bool) : Option (Nat × List Nat × List Bool) :=
  match readVarLen8 bs with
  | none => none
  | some (n, bs) =>
    if n = 0 then some (1, List.replicate size 0, bs)
    else
      match bs with
      | [] => none
      | rleFlag :: bs =>
        match (if rleFlag then (takeBits 4 bs).map fun (x, r) => (x + 1, r) else some (0, bs)) with
        | none => none
        | some (rlemax, bs) =>
          match readCode (n + 1 + rlemax) bs with
          | none => none
          | some (code, bs) =>
            match readCmapEntries code rlemax size (size + 1) [] bs with
            | none => none
            | some (entries, bs) =>
              match bs with
              | [] => none
              | imtf :: bs =>
                let m := if imtf then inverseMtf entries else entries
                if m.all (· < n + 1) then some (n + 1, m, bs) else none

/-- `n` prefix codes over the same alphabet -/
def readCodes (alphabetSize : Nat) : Nat → List Bool → Option (List Code × List Bool)
  | 0, bs => some ([], bs)
  | n + 1, bs =>
    match readCode alphabetSize bs with
    | none => none
    | some (c, bs) =>
      match readCodes alphabetSize n bs with
      | none => none
      | some (cs, bs) => some (c :: cs, bs)

/-- everything the command loop of a general meta-block needs besides the categories -/
structure Trees where
  npostfix : Nat
  ndirect : Nat
  modes : List Nat
  cmapL : List Nat
  cmapD : List Nat
  lit : List Code
  cmd : List Code
  dist : List Code

/-- literals of one command, with block switches and context modelling -/
def readLiteralsG (t : Trees) : Nat → Cat → Bytes → List Bool → Option (Cat × Bytes × List Bool)
  | 0, c, out, bs => some (c, out, bs)
  | n + 1, c, out, bs =>
    match c.next bs with
    | none => none
    | some (c, bs) =>
      let p1 := if out.length ≥ 1 then out.getD (out.length - 1) 0 else 0
      let p2 := if out.length ≥ 2 then out.getD (out.length - 2) 0 else 0
      let cid := rfcLiteralContext (t.modes.getD c.btype 0) p1 p2
      match t.cmapL[64 * c.btype + cid]? with
      | none => none
      | some tree =>
        match t.lit[tree]? with
        | none => none
        | some code =>
          match code.read bs with
          | none => none
          | some (b, bs) => readLiteralsG t n c (out ++ [b]) bs

/-- the insert half of a command (general form) -/
def readInsertG (t : Trees) (catL catI : Cat) (mlen done : Nat) (out : Bytes) (bs : List Bool) :
    Option (Cat × Cat × Nat × Nat × Bool × Bytes × List Bool) :=
  match catI.next bs with
  | none => none
  | some (catI, bs) =>
    match t.cmd[catI.btype]? with
    | none => none
    | some code =>
      match code.read bs with
      | none => none
      | some (sym, bs) =>
        if sym ≥ 704 then none else
        match rfcInsTable[(rfcCmdDecode sym).1]?, rfcCopyTable[(rfcCmdDecode sym).2.1]? with
        | some (ib, ie), some (cb, ce) =>
          match takeBits ie bs with
          | none => none
          | some (e1, bs) =>
            match takeBits ce bs with
            | none => none
            | some (e2, bs) =>
              if ib + e1 > mlen - done then none else
              match readLiteralsG t (ib + e1) catL out bs with
              | none => none
              | some (catL, out, bs) => some (catL, catI, ib + e1, cb + e2, (rfcCmdDecode sym).2.2, out, bs)
        | _, _ => none

/-- the copy half of a command (general form): distance block switch and context -/
def readCopyG (wo : WordOracle) (window : Nat) (t : Trees) (catD : Cat) (mlen done : Nat) (implicit0 : Bool)
    (copyLen : Nat) (out : Bytes) (ring : List Int) (bs : List Bool) : Option (Cat × Nat × RdSt × List Bool) :=
  match (if implicit0 then some (catD, 0, bs) else
      match catD.next bs with
      | none => none
      | some (catD, bs) =>
        match t.cmapD[4 * catD.btype + rfcDistanceContext copyLen]? with
        | none => none
        | some tree =>
          match t.dist[tree]? with
          | none => none
          | some code =>
            match code.read bs with
            | none => none
            | some (ds, bs) => some (catD, ds, bs)) with
  | none => none
  | some (catD, ds, bs) =>
    match takeBits (if ds < 16 + t.ndirect then 0 else rfcDistNBits t.npostfix t.ndirect ds) bs with
    | none => none
    | some (extra, bs) =>
      match applyCopy wo window t.npostfix t.ndirect mlen done copyLen out ring ds extra with
      | none => none
      | some (n, s) => some (catD, n, s, bs)

/-- §9.3 / §10 command loop, general form -/
def readCommandsG (wo : WordOracle) (window : Nat) (t : Trees) (mlen : Nat) :
    Nat → Nat → Cat → Cat → Cat → RdSt → List Bool → Option (RdSt × List Bool)
  | 0, _, _, _, _, _, _ => none
  | f + 1, done, catL, catI, catD, s, bs =>
    if done = mlen then some (s, bs) else
    match readInsertG t catL catI mlen done s.out bs with
    | none => none
    | some (catL, catI, ins, cl, imp, out, bs) =>
      if done + ins = mlen then some (⟨out, s.ring⟩, bs) else
      match readCopyG wo window t catD mlen (done + ins) imp cl out s.ring bs with
      | none => none
      | some (catD, n, s', bs) => readCommandsG wo window t mlen f (done + ins + n) catL catI catD s' bs

/-- the context modes: two bits per literal block type -/
def readModes : Nat → List Bool → Option (List Nat × List Bool)
  | 0, bs => some ([], bs)
  | n + 1, bs =>
    match takeBits 2 bs with
    | none => none
    | some (m, bs) =>
      match readModes n bs with
      | none => none
      | some (ms, bs) => some (m :: ms, bs)

/-- §9.2 behind the meta-block header of a compressed meta-block, general form -/
def readCompressedBodyG (wo : WordOracle) (window : Nat) (large : Bool) (mlen : Nat) (s : RdSt)
    (bs : List Bool) : Option (RdSt × List Bool) :=
  match readCatHeader bs with
  | none => none
  | some (catL, bs) =>
    match readCatHeader bs with
    | none => none
    | some (catI, bs) =>
      match readCatHeader bs with
      | none => none
      | some (catD, bs) =>
        match takeBits 2 bs with
        | none => none
        | some (npostfix, bs) =>
          match takeBits 4 bs with
          | none => none
          | some (ndm, bs) =>
            let ndirect := ndm * 2 ^ npostfix
            match readModes catL.nbl bs with
            | none => none
            | some (modes, bs) =>
              match readContextMap (64 * catL.nbl) bs with
              | none => none
              | some (ntreesL, cmapL, bs) =>
                match readContextMap (4 * catD.nbl) bs with
                | none => none
                | some (ntreesD, cmapD, bs) =>
                  match readCodes 256 ntreesL bs with
                  | none => none
                  | some (lit, bs) =>
                    match readCodes 704 catI.nbl bs with
                    | none => none
                    | some (cmd, bs) =>
                      match readCodes (distAlphabetSize large npostfix ndirect) ntreesD bs with
                      | none => none
                      | some (dist, bs) =>
                        readCommandsG wo window ⟨npostfix, ndirect, modes, cmapL, cmapD, lit, cmd, dist⟩ mlen
                          (mlen + 1) 0 catL catI catD s bs

/-- one meta-block of any kind (general compressed form) -/
def readMetaBlockFullG (wo : WordOracle) (window : Nat) (large : Bool) (pos : Nat) (s : RdSt)
    (bs : List Bool) : Option (RdSt × Bool × Nat × List Bool) :=
  match HeaderSpec.readMetaBlock pos bs with
  | none => none
  | some (.lastEmpty, pos', r) => some (s, true, pos', r)
  | some (.metadata _, pos', r) => some (s, false, pos', r)
  | some (.raw payload, pos', r) => some (⟨s.out ++ payload, s.ring⟩, false, pos', r)
  | some (.compressed mlen isLast, pos', r) =>
    match readCompressedBodyG wo window large mlen s r with
    | none => none
    | some (s', r') =>
      let pos'' := pos' + (r.length - r'.length)
      if isLast then
        match HeaderSpec.skipPad pos'' r' with
        | none => none
        | some r'' => some (s', true, pos'' + (8 - pos'' % 8) % 8, r'')
      else some (s', false, pos'', r')

def readMetaBlocksG (wo : WordOracle) (window : Nat) (large : Bool) :
    Nat → Nat → RdSt → List Bool → Option (RdSt × List Bool)
  | 0, _, _, _ => none
  | f + 1, pos, s, bs =>
    match readMetaBlockFullG wo window large pos s bs with
    | none => none
    | some (s', true, _, r) => some (s', r)
    | some (s', false, pos', r) => readMetaBlocksG wo window large f pos' s' r

/-- a whole stream, general meta-blocks -/
def readStreamG (wo : WordOracle) (bs : List Bool) : Option Bytes :=
  match HeaderSpec.readWbits bs with
  | none => none
  | some (lgwin, large, r) =>
    match readMetaBlocksG wo (2 ^ lgwin - 16) large (bs.length + 1) (bs.length - r.length)
        ⟨[], [4, 11, 15, 16]⟩ r with
    | some (s, []) => some s.out
    | _ => none

end BV.MetaBlock
