/-
M3 `PrefixArith` — executable model of the length / distance prefix arithmetic
(`src/enc/command.rs`, parts of `src/enc/brotli_bit_stream.rs`).

Each definition mirrors one Rust function (named in its doc comment).  Integers
are `Nat`; a Rust cast `as uN` is an explicit `% 2^N`.  Shifts by a variable are
written as `* 2^k` / `/ 2^k`.  The tables come from the generated
`BV.Gen.Source` (regenerated from the Rust source on every run).
-/
import BV.Gen.Source

namespace BV.PrefixArith
open BV.Gen

/-- `Log2FloorNonZero` (`src/enc/util.rs`): index of the highest set bit. -/
def log2Floor (n : Nat) : Nat := Nat.log2 n

/-- `GetInsertLengthCode` -/
def getInsertLengthCode (n : Nat) : Nat :=
  if n < 6 then n
  else if n < 130 then
    let nbits := log2Floor (n - 2) - 1
    2 * nbits + (n - 2) / 2 ^ nbits + 2
  else if n < 2114 then log2Floor (n - 66) + 10
  else if n < 6210 then 21
  else if n < 22594 then 22
  else 23

/-- `GetCopyLengthCode` (Rust computes `copylen.wrapping_sub(2)`; for `n < 2` the
wrapped value truncated to u16 is `65534 + n`). -/
def getCopyLengthCode (n : Nat) : Nat :=
  if n < 10 then (if 2 ≤ n then n - 2 else 65534 + n)
  else if n < 134 then
    let nbits := log2Floor (n - 6) - 1
    2 * nbits + (n - 6) / 2 ^ nbits + 4
  else if n < 2118 then log2Floor (n - 70) + 12
  else 23

/-- `combine_length_codes` (for codes `< 24`; no wrap occurs there). -/
def combineLengthCodes (ins copy : Nat) (useLast : Bool) : Nat :=
  let bits64 := (copy % 8) ||| ((ins % 8) <<< 3)
  if useLast && ins < 8 && copy < 16 then
    if copy < 8 then bits64 else bits64 ||| 64
  else
    let sub := 2 * ((copy >>> 3) + 3 * (ins >>> 3))
    let offset := (sub <<< 5) + 0x40 + ((0x520d40 >>> sub) &&& 0xc0)
    (offset % 65536) ||| bits64

/-- `get_length_code` -/
def getLengthCode (insertlen copylen : Nat) (useLast : Bool) : Nat :=
  combineLengthCodes (getInsertLengthCode insertlen) (getCopyLengthCode copylen) useLast

/-- Result of `PrefixEncodeCopyDistance`, with the `nbits << 10 | symbol`
packing of `dist_prefix_` kept as separate fields. -/
structure DistCode where
  sym : Nat
  nbits : Nat
  extra : Nat
deriving Repr, DecidableEq

/-- `PrefixEncodeCopyDistance` on mathematical integers. -/
def prefixEncodeCopyDistance (dc ndirect npostfix : Nat) : DistCode :=
  if dc < BROTLI_NUM_DISTANCE_SHORT_CODES + ndirect then ⟨dc, 0, 0⟩
  else
    let dist := 2 ^ (npostfix + 2) + (dc - BROTLI_NUM_DISTANCE_SHORT_CODES - ndirect)
    let bucket := log2Floor dist - 1
    let pfix := dist % 2 ^ npostfix
    let pre := (dist / 2 ^ bucket) % 2
    let offset := (2 + pre) * 2 ^ bucket
    let nbits := bucket - npostfix
    ⟨BROTLI_NUM_DISTANCE_SHORT_CODES + ndirect + (2 * (nbits - 1) + pre) * 2 ^ npostfix + pfix,
     nbits, (dist - offset) / 2 ^ npostfix⟩

/-- the u16 packing `dist_prefix_ = nbits << 10 | sym` (both truncated as Rust does) -/
def DistCode.packed (c : DistCode) : Nat := ((c.nbits * 1024) ||| c.sym) % 65536
/-- `dist_extra_` as stored (u32) -/
def DistCode.extra32 (c : DistCode) : Nat := c.extra % 2 ^ 32

/-- `Command::restore_distance_code` on the stored fields, u32 wrapping
arithmetic made explicit. -/
def restoreDistanceCode (distPrefix distExtra ndirect npostfix : Nat) : Nat :=
  let M := 2 ^ 32
  let dcode := distPrefix % 1024
  if dcode < BROTLI_NUM_DISTANCE_SHORT_CODES + ndirect then dcode
  else
    let nbits := distPrefix / 1024
    let base := (dcode + M - ndirect % M + M - BROTLI_NUM_DISTANCE_SHORT_CODES) % M
    let hcode := base / 2 ^ npostfix
    let lcode := base % 2 ^ npostfix
    let offset := (((2 + hcode % 2) * 2 ^ nbits) % M + M - 4) % M
    ((((offset + distExtra) % M) * 2 ^ npostfix) % M + lcode + ndirect + BROTLI_NUM_DISTANCE_SHORT_CODES) % M

/-- `BlockLengthPrefixCode`: start bucket, then walk the generated table. -/
def blockLenWalk (len : Nat) : Nat → Nat → Nat
  | 0, code => code
  | fuel + 1, code =>
    if code < 25 ∧ len ≥ (kBlockLengthPrefixCode.getD (code + 1) (0, 0)).1 then
      blockLenWalk len fuel (code + 1)
    else code

def blockLengthPrefixCode (len : Nat) : Nat :=
  let start := if len ≥ 177 then (if len ≥ 753 then 20 else 14) else if len ≥ 41 then 7 else 0
  blockLenWalk len 26 start

/-- `GetBlockLengthPrefixCode`: (code, n_extra, extra) -/
def getBlockLengthPrefixCode (len : Nat) : Nat × Nat × Nat :=
  let code := blockLengthPrefixCode len
  let row := kBlockLengthPrefixCode.getD code (0, 0)
  (code, row.2, len - row.1)

/-- `BrotliEncodeMlen`: (bits, numbits, nibblesbits) for `1 ≤ length ≤ 2^24` -/
def encodeMlen (length : Nat) : Nat × Nat × Nat :=
  let lg := if length = 1 then 1 else log2Floor (length - 1) + 1
  let mnibbles := (if lg < 16 then 16 else lg + 3) / 4
  (length - 1, mnibbles * 4, mnibbles - 4)

/-- `StoreVarLenUint8`: the list of (nbits, value) fields written, in order -/
def storeVarLenUint8 (n : Nat) : List (Nat × Nat) :=
  if n = 0 then [(1, 0)]
  else
    let nbits := log2Floor n
    [(1, 1), (3, nbits), (nbits, n - 2 ^ nbits)]

/-- `Command::init`'s packing of `copy_len_` -/
def packCopyLen (copylen copylenCode : Nat) : Nat :=
  -- delta as i8 then as u8: two's complement in 8 bits
  let delta8 := (copylenCode + 256 - copylen % 256) % 256
  (copylen ||| ((delta8 <<< 25) % 2 ^ 32)) % 2 ^ 32

/-- `Command::copy_len_code` -/
def copyLenCode (copyLenField : Nat) : Nat :=
  let modifier := copyLenField >>> 25
  let m8 := (modifier ||| ((modifier &&& 0x40) <<< 1)) % 256
  let len := copyLenField &&& 0x01ffffff
  -- i32 addition of a sign-extended i8, result as u32
  if m8 < 128 then (len + m8) % 2 ^ 32 else (len + 2 ^ 32 - (256 - m8)) % 2 ^ 32

/-- `StoreCommandExtra`: (number of bits, value) written for a command -/
def storeCommandExtra (insertLen copyLenField : Nat) : Nat × Nat :=
  let clc := copyLenCode copyLenField
  let ic := getInsertLengthCode insertLen
  let cc := getCopyLengthCode clc
  let insnumextra := kInsExtra.getD ic 0
  let insextraval := insertLen - kInsBase.getD ic 0
  let copyextraval := clc - kCopyBase.getD cc 0
  (insnumextra + kCopyExtra.getD cc 0, (copyextraval <<< insnumextra) ||| insextraval)

/-! ### Specification side: RFC 7932 readers, written independently of the encoder -/

/-- RFC 7932 §5: insert-and-copy command symbol → (insert code, copy code, implicit distance 0) -/
def rfcCmdDecode (sym : Nat) : Nat × Nat × Bool :=
  let cell := sym / 64
  let insBase := [0, 0, 0, 0, 8, 8, 0, 16, 8, 16, 16]
  let copyBase := [0, 8, 0, 8, 0, 8, 16, 0, 16, 8, 16]
  (insBase.getD cell 0 + (sym / 8) % 8, copyBase.getD cell 0 + sym % 8, decide (cell < 2))

/-- RFC 7932 §5 insert length code table (base, extra bits) -/
def rfcInsTable : List (Nat × Nat) :=
  [(0,0),(1,0),(2,0),(3,0),(4,0),(5,0),(6,1),(8,1),(10,2),(14,2),(18,3),(26,3),(34,4),(50,4),
   (66,5),(98,5),(130,6),(194,7),(322,8),(578,9),(1090,10),(2114,12),(6210,14),(22594,24)]

/-- RFC 7932 §5 copy length code table (base, extra bits) -/
def rfcCopyTable : List (Nat × Nat) :=
  [(2,0),(3,0),(4,0),(5,0),(6,0),(7,0),(8,0),(9,0),(10,1),(12,1),(14,2),(18,2),(22,3),(30,3),
   (38,4),(54,4),(70,5),(102,5),(134,6),(198,7),(326,8),(582,9),(1094,10),(2118,24)]

/-- RFC 7932 §6 block count code table (base, extra bits) -/
def rfcBlockLenTable : List (Nat × Nat) :=
  [(1,2),(5,2),(9,2),(13,2),(17,3),(25,3),(33,3),(41,3),(49,4),(65,4),(81,4),(97,4),(113,5),
   (145,5),(177,5),(209,5),(241,6),(305,6),(369,7),(497,8),(753,9),(1265,10),(2289,11),
   (4337,12),(8433,13),(16625,24)]

/-- RFC 7932 §4: number of extra bits of a distance symbol `≥ 16 + NDIRECT` -/
def rfcDistNBits (npostfix ndirect sym : Nat) : Nat :=
  1 + (sym - ndirect - 16) / 2 ^ (npostfix + 1)

/-- RFC 7932 §4: distance denoted by (symbol, extra bits), for symbols that do not
use the distance ring buffer (`sym ≥ 16`).  Returns the *distance*; the encoder's
"distance code" is `distance + 15`. -/
def rfcDistDecode (npostfix ndirect sym extra : Nat) : Nat :=
  if sym < 16 + ndirect then sym - 15
  else
    let ndistbits := rfcDistNBits npostfix ndirect sym
    let hcode := (sym - ndirect - 16) / 2 ^ npostfix
    let lcode := (sym - ndirect - 16) % 2 ^ npostfix
    let offset := (2 + hcode % 2) * 2 ^ ndistbits - 4
    (offset + extra) * 2 ^ npostfix + lcode + ndirect + 1

end BV.PrefixArith
