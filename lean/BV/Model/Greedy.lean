/-
M16c `Greedy` — executable model of the GREEDY meta-block builder of `src/enc/metablock.rs`
(quality 4..9: `BrotliBuildMetaBlockGreedy` → `BrotliBuildMetaBlockGreedyInternal`):

* `InitBlockSplitter` / `InitContextBlockSplitter` (on the fresh `MetaBlockSplit::new()` that `encode.rs` hands in:
  empty `types` / `lengths`, `num_types = 0`),
* `BlockSplitterAddSymbol` / `ContextBlockSplitterAddSymbol`,
* `BlockSplitterFinishBlock` / `ContextBlockSplitterFinishBlock` (first block, new block type, "merge with the
  second-to-last type", "merge with the last block", the `is_final` tail),
* `MapStaticContexts`, the command loop of `BrotliBuildMetaBlockGreedyInternal`.

Floating point is NOT modelled: everything the code computes in `floatX` (`BitsEntropy`, the differences `diff[j]`, the
comparisons with `split_threshold_` and `diff[0] - 20.0`) goes through an ORACLE `FOps F` over an abstract carrier `F`
— an arbitrary entropy function and arbitrary arithmetic / comparisons.  The model performs exactly the operations of
the code, in the code's order, on that carrier; the driver instantiates it with `Float32` (`floatX = f32` in this
build) and is compared with the real builder bit for bit.

ONE definition covers both state machines (`plain = true`: `BlockSplitter`, `num_contexts = 1`; `plain = false`:
`ContextBlockSplitter`).  The two Rust functions are line-by-line the same up to
  (a) `diff[j] = ce − e − le` (plain) against `diff[j] += ce[jx] − e[i] − le[jx]` from `0.0` over the contexts,
  (b) `num_types < 256` against `num_types < max_block_types_` (`256 / num_contexts`),
  (c) `last_histogram_ix_[0] = num_types as u8 as usize` against `num_types * num_contexts`,
  (d) `max_num_types = min(max_num_blocks, 257)` against `min(max_num_blocks, max_block_types_ + 1)`;
each is an explicit `if s.plain` below.

Histogram arrays are held in SLOTS of `num_contexts` histograms (`slots[k][i]` = `histograms[k * num_contexts + i]`):
`curr_histogram_ix_` and `last_histogram_ix_[j]` are multiples of `num_contexts_` at all times (0, `+= num_contexts`,
`num_types * num_contexts`) and are kept divided by it; `*histograms_size` likewise.  A static context `≥ num_contexts`
(never produced by the three static maps of `encode.rs`) would make the real code count in the next slot; the model
panics there instead (`getAt slot context`).  Only `data_` of a histogram is kept (`total_count_` / `bit_cost_` are not
read by the builder or the writer).
-/
import BV.Model.MetaBlockFull

namespace BV.Greedy
open BV.Gen BV.Bits BV.Recoder BV.MetaBlock

/-- the `floatX` oracle: an entropy function and the arithmetic / comparisons the builder performs on its values -/
structure FOps (F : Type) where
  /-- `BitsEntropy(histogram.slice(), alphabet_size)` -/
  bitsEntropy : List Nat → Nat → F
  zero : F
  add : F → F → F
  sub : F → F → F
  /-- `a > b` -/
  gt : F → F → Bool
  /-- `a < b` -/
  lt : F → F → Bool
  /-- `20.0` -/
  c20 : F
  /-- `split_threshold`: `400.0` literals, `500.0` commands, `100.0` distances -/
  thrLit : F
  thrCmd : F
  thrDist : F

/-- `num_contexts` histograms (their `data_` arrays) -/
abbrev Slot := List (List Nat)

def zeroSlot (nc H : Nat) : Slot := List.replicate nc (List.replicate H 0)

/-- `HistogramAddHistogram`: element-wise `wrapping_add` on `u32` -/
def addHist (a b : List Nat) : List Nat := List.zipWith (fun x y => (x + y) % two32) a b

def addSlot (a b : Slot) : Slot := List.zipWith addHist a b

/-- `BlockSplitter` / `ContextBlockSplitter` together with the `BlockSplit`, the histogram array and
`*histograms_size` they are handed by reference -/
structure BS (F : Type) where
  plain : Bool
  nc : Nat
  /-- length of `data_` of the histogram type -/
  H : Nat
  alphabetSize : Nat
  minBlockSize : Nat
  maxBlockTypes : Nat
  splitThreshold : F
  numBlocks : Nat
  targetBlockSize : Nat
  blockSize : Nat
  curr : Nat
  last0 : Nat
  last1 : Nat
  lastEntropy : List F
  mergeLastCount : Nat
  numTypes : Nat
  splitNumBlocks : Nat
  types : List Nat
  lengths : List Nat
  slots : List Slot
  histosSize : Nat

/-- `InitBlockSplitter` (`plain`) / `InitContextBlockSplitter` on an EMPTY split (`types`, `lengths` empty,
`num_types = 0`): both arrays are allocated (zeroed) with `max_num_blocks` entries -/
def initBS {F : Type} (ops : FOps F) (plain : Bool) (nc H alphabetSize minBlockSize : Nat) (thr : F)
    (numSymbols : Nat) : Out (BS F) :=
  if minBlockSize = 0 then .panic                       -- `num_symbols.wrapping_div(min_block_size)`
  else if !plain && decide (nc > 13) then .panic        -- `assert!(num_contexts <= BROTLI_MAX_STATIC_CONTEXTS)`
  else if !plain && decide (nc = 0) then .panic         -- `(256usize).wrapping_div(num_contexts)`
  else if H < alphabetSize then .panic                  -- `BitsEntropy`: `population.split_at(size)` of a `data_` of `H` entries
  else
    let maxNumBlocks := (numSymbols / minBlockSize + 1) % two64
    let maxBlockTypes := if plain then 256 else 256 / nc
    let maxNumTypes := min maxNumBlocks (maxBlockTypes + 1)
    if maxNumTypes = 0 then .panic                      -- `histograms.slice_mut()[0]`
    else .ok
      { plain := plain, nc := nc, H := H, alphabetSize := alphabetSize, minBlockSize := minBlockSize,
        maxBlockTypes := maxBlockTypes, splitThreshold := thr, numBlocks := 0, targetBlockSize := minBlockSize,
        blockSize := 0, curr := 0, last0 := 0, last1 := 0, lastEntropy := List.replicate (2 * nc) ops.zero,
        mergeLastCount := 0, numTypes := 0, splitNumBlocks := maxNumBlocks,
        types := List.replicate maxNumBlocks 0, lengths := List.replicate maxNumBlocks 0,
        slots := List.replicate maxNumTypes (zeroSlot nc H), histosSize := maxNumTypes }

/-- the entropies of the histograms of one slot -/
def slotEntropy {F : Type} (ops : FOps F) (alphabetSize : Nat) (slot : Slot) : List F :=
  slot.map (fun h => ops.bitsEntropy h alphabetSize)

/-- `diff[j]`: plain `ce − e − le`; with contexts the sum over `i` from `0.0`, in the order of the loop -/
def diffOf {F : Type} (ops : FOps F) (plain : Bool) (ce e le : List F) : F :=
  if plain then ops.sub (ops.sub (ce.headD ops.zero) (e.headD ops.zero)) (le.headD ops.zero)
  else (ce.zip (e.zip le)).foldl (fun d x => ops.add d (ops.sub (ops.sub x.1 x.2.1) x.2.2)) ops.zero

/-- the three outcomes of a non-first `FinishBlock` -/
inductive Decision where
  | split
  | mergeSecond
  | mergeLast
deriving Repr, DecidableEq

def decision {F : Type} (ops : FOps F) (numTypes maxBlockTypes : Nat) (thr d0 d1 : F) : Decision :=
  if decide (numTypes < maxBlockTypes) && ops.gt d0 thr && ops.gt d1 thr then .split
  else if ops.lt d1 (ops.sub d0 ops.c20) then .mergeSecond
  else .mergeLast

/-- `if curr_histogram_ix_ < *histograms_size { ClearHistograms(&mut histograms[curr_histogram_ix_..], num_contexts) }` -/
def clearIfRoom {F : Type} (s : BS F) (curr : Nat) : Out (List Slot) :=
  if curr < s.histosSize then setAt s.slots curr (zeroSlot s.nc s.H) else .ok s.slots

/-- `FinishBlock`, branch `num_blocks_ == 0` -/
def firstBlock {F : Type} (ops : FOps F) (s : BS F) : Out (BS F) := do
  let lengths ← setAt s.lengths 0 (s.blockSize % two32)
  let types ← setAt s.types 0 0
  let slot0 ← getAt s.slots 0
  let e := slotEntropy ops s.alphabetSize slot0
  let curr := (s.curr + 1) % two64
  let slots ← clearIfRoom s curr
  .ok { s with lengths := lengths, types := types, lastEntropy := e ++ e, numBlocks := (s.numBlocks + 1) % two64,
               numTypes := (s.numTypes + 1) % two64, curr := curr, slots := slots, blockSize := 0 }

/-- branch "new block type" -/
def splitBlock {F : Type} (s : BS F) (e : List F) : Out (BS F) := do
  let lengths ← setAt s.lengths s.numBlocks (s.blockSize % two32)
  let types ← setAt s.types s.numBlocks (s.numTypes % 256)
  let curr := (s.curr + 1) % two64
  let slots ← clearIfRoom s curr
  .ok { s with lengths := lengths, types := types, last1 := s.last0,
               last0 := (if s.plain then s.numTypes % 256 else s.numTypes),
               lastEntropy := e ++ s.lastEntropy.take s.nc, numBlocks := (s.numBlocks + 1) % two64,
               numTypes := (s.numTypes + 1) % two64, curr := curr, slots := slots, blockSize := 0,
               mergeLastCount := 0, targetBlockSize := s.minBlockSize }

/-- branch `diff[1] < diff[0] - 20.0`: a new block of the second-to-last type -/
def mergeSecondBlock {F : Type} (s : BS F) (comb1 : Slot) (ce1 : List F) : Out (BS F) := do
  let lengths ← setAt s.lengths s.numBlocks (s.blockSize % two32)
  let t ← getAt s.types ((s.numBlocks + two64 - 2) % two64)
  let types ← setAt s.types s.numBlocks t
  let slots ← setAt s.slots s.last1 comb1
  let slots ← setAt slots s.curr (zeroSlot s.nc s.H)
  .ok { s with lengths := lengths, types := types, last0 := s.last1, last1 := s.last0, slots := slots,
               lastEntropy := ce1 ++ s.lastEntropy.take s.nc, numBlocks := (s.numBlocks + 1) % two64,
               blockSize := 0, mergeLastCount := 0, targetBlockSize := s.minBlockSize }

/-- last branch: the block is appended to the last block -/
def mergeLastBlock {F : Type} (s : BS F) (comb0 : Slot) (ce0 : List F) : Out (BS F) := do
  let ix := (s.numBlocks + two64 - 1) % two64
  let l ← getAt s.lengths ix
  let lengths ← setAt s.lengths ix ((l + s.blockSize % two32) % two32)
  let slots ← setAt s.slots s.last0 comb0
  let slots ← setAt slots s.curr (zeroSlot s.nc s.H)
  let m := (s.mergeLastCount + 1) % two64
  .ok { s with lengths := lengths, slots := slots,
               lastEntropy := ce0 ++ (if s.numTypes = 1 then ce0 else s.lastEntropy.drop s.nc),
               blockSize := 0, mergeLastCount := m,
               targetBlockSize := (if m > 1 then (s.targetBlockSize + s.minBlockSize) % two64 else s.targetBlockSize) }

/-- the non-first, non-empty branch: entropies, the two combined histograms, `diff`, the decision -/
def laterBlock {F : Type} (ops : FOps F) (s : BS F) : Out (BS F) := do
  let cur ← getAt s.slots s.curr
  let h0 ← getAt s.slots s.last0
  let h1 ← getAt s.slots s.last1
  let e := slotEntropy ops s.alphabetSize cur
  let comb0 := addSlot cur h0
  let comb1 := addSlot cur h1
  let ce0 := slotEntropy ops s.alphabetSize comb0
  let ce1 := slotEntropy ops s.alphabetSize comb1
  let d0 := diffOf ops s.plain ce0 e (s.lastEntropy.take s.nc)
  let d1 := diffOf ops s.plain ce1 e (s.lastEntropy.drop s.nc)
  match decision ops s.numTypes s.maxBlockTypes s.splitThreshold d0 d1 with
  | .split => splitBlock s e
  | .mergeSecond => mergeSecondBlock s comb1 ce1
  | .mergeLast => mergeLastBlock s comb0 ce0

/-- `BlockSplitterFinishBlock` / `ContextBlockSplitterFinishBlock` -/
def finishBlock {F : Type} (ops : FOps F) (s : BS F) (isFinal : Bool) : Out (BS F) := do
  let s := { s with blockSize := max s.blockSize s.minBlockSize }
  let s ← (if s.numBlocks = 0 then firstBlock ops s
    else if s.blockSize > 0 then laterBlock ops s
    else .ok s)
  .ok (if isFinal then { s with histosSize := s.numTypes, splitNumBlocks := s.numBlocks } else s)

/-- `HistogramAddItem(&mut histograms[curr_histogram_ix_ + context], symbol)` -/
def addItem (slots : List Slot) (curr context symbol : Nat) : Out (List Slot) := do
  let slot ← getAt slots curr
  let h ← getAt slot context
  let c ← getAt h symbol
  let h ← setAt h symbol ((c + 1) % two32)
  let slot ← setAt slot context h
  setAt slots curr slot

/-- `BlockSplitterAddSymbol` (`context = 0`) / `ContextBlockSplitterAddSymbol` -/
def addSymbol {F : Type} (ops : FOps F) (s : BS F) (symbol context : Nat) : Out (BS F) := do
  let slots ← addItem s.slots s.curr context symbol
  let s := { s with slots := slots, blockSize := (s.blockSize + 1) % two64 }
  if s.blockSize = s.targetBlockSize then finishBlock ops s false else .ok s

/-! ### `BrotliBuildMetaBlockGreedyInternal` -/

/-- loop state -/
structure GSt (F : Type) where
  pos : Nat
  prev : Nat
  prev2 : Nat
  lit : BS F
  cmd : BS F
  dist : BS F

/-- `while j != 0 { … }`: the literals of one command; `plain` = the variant of `LitBlocks` (fixed when the
splitters are created) -/
def greedyLits {F : Type} (ops : FOps F) (ring : Bytes) (mask mode : Nat) (scm : List Nat) (plain : Bool) :
    Nat → GSt F → Out (GSt F)
  | 0, s => .ok s
  | j + 1, s => do
    let literal ← getAt ring (s.pos &&& mask)
    let lit ← (if plain then addSymbol ops s.lit literal 0
      else do
        let context ← contextOf s.prev s.prev2 mode
        let sc ← getAt scm context
        addSymbol ops s.lit literal sc)
    greedyLits ops ring mask mode scm plain j { s with lit := lit, prev2 := s.prev, prev := literal, pos := (s.pos + 1) % two64 }

/-- the tail of one iteration: `pos += copy_len()`, the two context bytes behind the copy, the distance symbol -/
def greedyCopy {F : Type} (ops : FOps F) (ring : Bytes) (mask : Nat) (c : Cmd) (s : GSt F) : Out (GSt F) := do
  let pos := (s.pos + copyLen c) % two64
  if copyLen c ≠ 0 then
    let prev2 ← (if pos ≥ 2 then getAt ring (((pos + two64 - 2) % two64) &&& mask) else Out.ok 0)
    let prev ← getAt ring (((pos + two64 - 1) % two64) &&& mask)
    if c.cmdPrefix ≥ 128 then
      let dist ← addSymbol ops s.dist (c.distPrefix % 1024) 0
      .ok { s with pos := pos, prev := prev, prev2 := prev2, dist := dist }
    else .ok { s with pos := pos, prev := prev, prev2 := prev2 }
  else .ok { s with pos := pos }

def greedyCmd {F : Type} (ops : FOps F) (ring : Bytes) (mask mode : Nat) (scm : List Nat) (plain : Bool) (s : GSt F)
    (c : Cmd) : Out (GSt F) := do
  let cmd ← addSymbol ops s.cmd c.cmdPrefix 0
  let s ← greedyLits ops ring mask mode scm plain c.insertLen { s with cmd := cmd }
  greedyCopy ops ring mask c s

def greedyCmds {F : Type} (ops : FOps F) (ring : Bytes) (mask mode : Nat) (scm : List Nat) (plain : Bool) :
    List Cmd → GSt F → Out (GSt F)
  | [], s => .ok s
  | c :: cs, s => do
    let s ← greedyCmd ops ring mask mode scm plain s c
    greedyCmds ops ring mask mode scm plain cs s

/-- the `BlockSplit` a finished splitter leaves, as the writer reads it (`types[..num_blocks]`, `lengths[..num_blocks]`) -/
def BS.toSplit {F : Type} (s : BS F) : BSplit :=
  ⟨s.numTypes, s.splitNumBlocks, s.types.take s.splitNumBlocks, s.lengths.take s.splitNumBlocks⟩

/-- the flat histogram array (`slots[k][i]` = `histograms[k * num_contexts + i]`) -/
def BS.flat {F : Type} (s : BS F) : List (List Nat) := s.slots.flatten

/-- `MapStaticContexts`: `map[(i << 6) + j] = (i * num_contexts) as u32 + static_context_map[j]` -/
def mapStaticContexts (nc numTypes : Nat) (scm : List Nat) : Out (List Nat) :=
  (List.range numTypes).foldlM (fun m i =>
    (List.range 64).foldlM (fun m j => do
      let v ← getAt scm j
      setAt m (((i * 64) % two64 + j) % two64) (((i * nc) % two32 + v) % two32)) m)
    (List.replicate ((numTypes * 64) % two64) 0)

/-- `BrotliBuildMetaBlockGreedy(…, num_contexts, static_context_map, commands, n_commands, mb)` on a fresh
`MetaBlockSplit`; `dH` is the length of `HistogramDistance::data_` (544) -/
def buildGreedy {F : Type} (ops : FOps F) (ring : Bytes) (pos mask prevByte prevByte2 mode numContexts : Nat)
    (scm : List Nat) (cmds : List Cmd) : Out MBSplit := do
  let numLiterals := cmds.foldl (fun n c => (n + c.insertLen) % two64) 0
  let plain := decide (numContexts = 1)
  -- `BrotliBuildMetaBlockGreedy` passes `&[]` as the static map when `num_contexts == 1`
  let scm := if plain then [] else scm
  let lit ← initBS ops plain numContexts 256 256 512 ops.thrLit numLiterals
  let cmd ← initBS ops true 1 704 704 1024 ops.thrCmd cmds.length
  let dist ← initBS ops true 1 544 64 512 ops.thrDist cmds.length
  let s ← greedyCmds ops ring mask mode scm plain cmds ⟨pos, prevByte, prevByte2, lit, cmd, dist⟩
  let lit ← finishBlock ops s.lit true
  let cmd ← finishBlock ops s.cmd true
  let dist ← finishBlock ops s.dist true
  let cmap ← (if numContexts > 1 then mapStaticContexts numContexts lit.numTypes scm else Out.ok [])
  .ok { lit := lit.toSplit, cmd := cmd.toSplit, dist := dist.toSplit,
        litCmap := cmap, litCmapSize := cmap.length, distCmap := [], distCmapSize := 0,
        litHistos := lit.flat, litHistosSize := lit.histosSize * numContexts,
        cmdHistos := cmd.flat, cmdHistosSize := cmd.histosSize,
        distHistos := dist.flat, distHistosSize := dist.histosSize }

/-! ### `BrotliOptimizeHistograms` (run by `encode.rs` between the builder and the writer at quality ≥ 4) -/

/-- `for i in 0..size { BrotliOptimizeHuffmanCountsForRle(length, histograms[i].slice_mut(), &mut good_for_rle[..]) }`
with the 704-byte `good_for_rle` buffer (the callee zeroes it itself before use) -/
def optimizeHistos (length : Nat) (histos : List (List Nat)) (size : Nat) : Out (List (List Nat)) :=
  (List.range size).foldlM (fun hs i => do
    let h ← getAt hs i
    let h' ← BV.Huffman.optimizeHuffmanCountsForRle length h (List.replicate 704 0)
    setAt hs i h') histos

/-- `BrotliOptimizeHistograms(num_distance_codes, mb)` -/
def optimizeHistograms (numDistanceCodes : Nat) (mb : MBSplit) : Out MBSplit := do
  let l ← optimizeHistos 256 mb.litHistos mb.litHistosSize
  let c ← optimizeHistos 704 mb.cmdHistos mb.cmdHistosSize
  let d ← optimizeHistos numDistanceCodes mb.distHistos mb.distHistosSize
  .ok { mb with litHistos := l, cmdHistos := c, distHistos := d }

end BV.Greedy
