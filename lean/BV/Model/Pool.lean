/-
M10 `Pool` — executable labelled transition system of the worker pool of
`src/enc/worker_pool.rs` (`WorkQueue`, `WorkerPool::{new, do_work, drop}`,
`WorkerJoinable::join`, `BatchSpawnableLite::spawn`) as used by
`CompressMulti` (`src/enc/threading.rs`): spawn jobs, join them, retrieve the
shared input (`OwnedRetriever::unwrap` = `Arc::try_unwrap`), drop the pool.

Threads: submitter = tid 0, workers = tid 1..n (`workers[i]` is tid `i+1`).
One call of `step` = one scheduling step = the chosen thread runs from its
current yield point to its next one.  Yield points: just before every
`lock()`, inside `cvar.wait` (mutex released, thread parked), the start of the
job function, `JoinHandle::join` of a live thread, thread exit.  A critical
section is therefore atomic (justified by the mutex).

Conventions of this model
* the job function is pure: the value of a job is its `index`;
* `cur_work_id : u64` and `FixedQueue::start : usize` are unbounded `Nat`s
  (they only grow by one per spawn / pop; no overflow in < 2^64 operations);
* the condition variable's wait set is the set of threads whose pc is
  `waiting`; `notify_all` moves all of them to `woken` (they then have to
  re-take the mutex, which is their next step);
* `arc` = strong count of `locked_input : Arc<RwLock<U>>`: 1 for the
  submitter's handle, +1 for the clone stored in every `JobRequest`, −1 when a
  worker drops its `possible_job` (end of the inner block of `do_work`, BEFORE
  the second `lock()`).  `arc - 1` is never taken at 0 (`Inv`, BV/Lemmas/PoolInv);
* `u` (retrieve the input) is an observation: would `Arc::try_unwrap` succeed
  (`arc = 1`)?  It does not consume the handle;
* explicit panic sites: `jobs.push(..).unwrap()` in `spawn`,
  `results.push(..).unwrap()` in `do_work`, `num_in_progress -= 1` underflow
  (debug build) in `do_work`, `assert!(is_none.is_none())` in
  `FixedQueue::remove` (called by `join`).
-/
import BV.Model.FixedQueue

namespace BV.Pool
open BV.Gen BV.FixedQueue

/-- the part of a `JobRequest` that matters: `work_id` and `index` -/
structure Job where
  workId : Nat
  index : Nat
deriving DecidableEq, Repr

/-- `JobReply { result, work_id }`; the result of job `(id, index)` is `index` -/
structure Reply where
  workId : Nat
  value : Nat
deriving DecidableEq, Repr

/-- worker program counter (`do_work`) -/
inductive WPc where
  | atLockA                 -- about to take the first `lock()` of the loop body
  | atRun (j : Job)         -- popped `j`, mutex released, at the start of the job function
  | atLockB (r : Reply)     -- job run and dropped, about to take the second `lock()`
  | waiting                 -- parked in `cvar.wait` (in the wait set)
  | woken                   -- notified / spuriously woken, has to re-acquire the mutex
  | exited                  -- `do_work` returned
deriving DecidableEq, Repr

/-- operations of the submitting thread -/
inductive Op where
  | spawn (idx : Nat)       -- `s<idx>`  `spawn(.., index = idx, ..)`
  | join (n : Nat)          -- `j<n>`    `join()` of the handle made by the n-th spawn (0-based)
  | unwrapInput             -- `u`       `OwnedRetriever::unwrap` would succeed?
  | dropPool                -- `d`       `Drop for WorkerPool`
deriving DecidableEq, Repr

/-- submitter program counter; the current op is the head of `prog` -/
inductive SPc where
  | ready                   -- at the yield point that begins the current op (finished if no op is left)
  | waiting                 -- parked in `cvar.wait` inside `spawn`/`join`
  | woken                   -- has to re-acquire the mutex and re-evaluate the loop condition
  | joining (tid : Nat)     -- inside `drop`: parked in `JoinHandle::join` of worker `tid`
deriving DecidableEq, Repr

/-- events (the label of a step) -/
inductive Ev where
  | exit                        -- `x`   worker saw immediate_shutdown (or shutdown with no job) and returned
  | pop (id : Nat)              -- `p<id>` worker popped job id
  | wait                        -- `w`   entered cvar.wait
  | run (id : Nat)              -- `r<id>` job function ran, job dropped
  | publish (id : Nat)          -- `b<id>` result pushed
  | wake                        -- `k`   woken worker re-acquired and released the mutex
  | spawn (id : Nat)            -- `s<id>`
  | join (id v : Nat)           -- `j<id>=<v>`
  | unwrap (ok : Bool)          -- `u1` / `u0`
  | drop (allJoined : Bool)     -- `d` / `d!`
  | joinW (allJoined : Bool)    -- `J` / `J!`
  | spurious                    -- `~`
deriving DecidableEq, Repr

inductive PanicSite where
  | jobsPush        -- `local_queue.jobs.push(..).unwrap()` in `spawn`
  | resultsPush     -- `local_queue.results.push(ret).unwrap()` in `do_work`
  | nipUnderflow    -- `local_queue.num_in_progress -= 1` at 0
  | removeAssert    -- `assert!(is_none.is_none())` in `FixedQueue::remove`
deriving DecidableEq, Repr

inductive Err where
  | badChoice               -- the chosen thread is not runnable / not waiting
  | badProg                 -- `j<n>` with no n-th spawn before it
  | panic (site : PanicSite)
deriving DecidableEq, Repr

inductive Choice where
  | run (tid : Nat)
  | spurious (tid : Nat)
deriving DecidableEq, Repr

structure State where
  jobs : FixedQueue Job
  results : FixedQueue Reply
  numInProgress : Nat
  immediateShutdown : Bool
  shutdown : Bool
  curWorkId : Nat
  arc : Nat
  workers : List WPc
  spc : SPc
  prog : List Op
  /-- the jobs spawned so far by this program, in order (`spawned[n].workId` is what `j<n>` waits for) -/
  spawned : List Job
  /-- ghost history, newest first: (tid, event) -/
  hist : List (Nat × Ev)
deriving DecidableEq, Repr

/-- `WorkerPool::new(n)` followed by `make_spawner` -/
def init (n : Nat) (prog : List Op) : State :=
  { jobs := FixedQueue.new, results := FixedQueue.new, numInProgress := 0,
    immediateShutdown := false, shutdown := false, curWorkId := 0, arc := 1,
    workers := List.replicate n .atLockA, spc := .ready, prog := prog, spawned := [], hist := [] }

/-- effect of `notify_all` on one worker -/
def WPc.wake : WPc → WPc
  | .waiting => .woken
  | p => p

def SPc.wake : SPc → SPc
  | .waiting => .woken
  | p => p

/-- `cvar.notify_all()` -/
def State.notifyAll (s : State) : State :=
  { s with workers := s.workers.map WPc.wake, spc := s.spc.wake }

def State.setW (s : State) (i : Nat) (p : WPc) : State :=
  { s with workers := s.workers.set i p }

def State.setSpc (s : State) (p : SPc) : State :=
  { s with spc := p }

def State.log (s : State) (tid : Nat) (e : Ev) : State :=
  { s with hist := (tid, e) :: s.hist }

/-- worker `i` (tid `i+1`) scheduled at `atLockA` -/
def stepLockA (s : State) (i : Nat) : Except Err State :=
  if s.immediateShutdown then .ok ((s.setW i .exited).log (i + 1) .exit)
  else
    match s.jobs.pop with
    | (some j, jobs') =>
      .ok ((({ s with jobs := jobs', numInProgress := s.numInProgress + 1 }.notifyAll).setW i
        (.atRun j)).log (i + 1) (.pop j.workId))
    | (none, jobs') =>
      if s.shutdown then .ok (({ s with jobs := jobs' }.setW i .exited).log (i + 1) .exit)
      else .ok (({ s with jobs := jobs' }.setW i .waiting).log (i + 1) .wait)

/-- worker `i` scheduled at `atRun j`: run the job, drop it (`arc - 1`) -/
def stepRun (s : State) (i : Nat) (j : Job) : Except Err State :=
  .ok (({ s with arc := s.arc - 1 }.setW i (.atLockB ⟨j.workId, j.index⟩)).log (i + 1) (.run j.workId))

/-- worker `i` scheduled at `atLockB r` -/
def stepLockB (s : State) (i : Nat) (r : Reply) : Except Err State :=
  if s.numInProgress = 0 then .error (.panic .nipUnderflow)
  else
    match s.results.push r with
    | none => .error (.panic .resultsPush)
    | some results' =>
      .ok ((({ s with numInProgress := s.numInProgress - 1, results := results' }.notifyAll).setW i
        .atLockA).log (i + 1) (.publish r.workId))

/-- worker `i` scheduled at `woken`: re-acquire, drop the guard, `continue` -/
def stepWoken (s : State) (i : Nat) : Except Err State :=
  .ok ((s.setW i .atLockA).log (i + 1) .wake)

def stepWorker (s : State) (i : Nat) : Except Err State :=
  match s.workers[i]? with
  | some .atLockA => stepLockA s i
  | some (.atRun j) => stepRun s i j
  | some (.atLockB r) => stepLockB s i r
  | some .woken => stepWoken s i
  | some .waiting => .error .badChoice
  | some .exited => .error .badChoice
  | none => .error .badChoice

/-- `spawn` from the loop head, mutex held -/
def stepSpawn (s : State) (idx : Nat) (rest : List Op) : Except Err State :=
  if s.jobs.size + s.numInProgress + s.results.size ≤ MAX_THREADS then
    let workId := s.curWorkId
    match s.jobs.push ⟨workId, idx⟩ with
    | none => .error (.panic .jobsPush)
    | some jobs' =>
      .ok ((({ s with jobs := jobs', curWorkId := s.curWorkId + 1, arc := s.arc + 1,
                      spawned := s.spawned ++ [Job.mk workId idx], prog := rest }.notifyAll).setSpc
        .ready).log 0 (.spawn workId))
  else .ok ({ s with spc := .waiting }.log 0 .wait)

/-- the closure passed to `results.remove` by `join` -/
def matchId (id : Nat) : Option Reply → Bool
  | some r => r.workId == id
  | none => false

/-- `join` from the loop head, mutex held -/
def stepJoin (s : State) (n : Nat) (rest : List Op) : Except Err State :=
  match s.spawned[n]? with
  | none => .error .badProg
  | some j =>
    match s.results.remove (matchId j.workId) with
    | none => .error (.panic .removeAssert)
    | some (some r, results') =>
      .ok ({ s with results := results', spc := .ready, prog := rest }.log 0 (.join j.workId r.value))
    | some (none, results') =>
      .ok ({ s with results := results', spc := .waiting }.log 0 .wait)

/-- tid of the first worker that has not exited, the head of the list being tid `t` -/
def firstLive : List WPc → Nat → Option Nat
  | [], _ => none
  | p :: ps, t => if p = .exited then firstLive ps (t + 1) else some t

/-- `for thread_handle in self.join.iter_mut()`: continue with handle `tid`, then park or finish -/
def joinFrom (s : State) (tid : Nat) (rest : List Op) (first : Bool) : State :=
  match firstLive (s.workers.drop (tid - 1)) tid with
  | some t => { s with spc := .joining t }.log 0 (if first then .drop false else .joinW false)
  | none => { s with spc := .ready, prog := rest }.log 0 (if first then .drop true else .joinW true)

def stepDrop (s : State) (rest : List Op) : Except Err State :=
  .ok (joinFrom ({ s with immediateShutdown := true }.notifyAll) 1 rest true)

/-- submitter scheduled -/
def stepSub (s : State) : Except Err State :=
  match s.spc with
  | .waiting => .error .badChoice
  | .joining t =>
    match s.prog with
    | .dropPool :: rest =>
      if s.workers[t - 1]? = some .exited then .ok (joinFrom s (t + 1) rest false)
      else .error .badChoice
    | _ => .error .badChoice
  | _ =>  -- ready / woken: (re-)acquire the mutex and evaluate the op from its loop head
    match s.prog with
    | [] => .error .badChoice
    | .spawn idx :: rest => stepSpawn s idx rest
    | .join n :: rest => stepJoin s n rest
    | .unwrapInput :: rest =>
      .ok ({ s with spc := .ready, prog := rest }.log 0 (.unwrap (s.arc == 1)))
    | .dropPool :: rest => stepDrop s rest

/-- spurious wake-up of thread `tid` -/
def stepSpurious (s : State) (tid : Nat) : Except Err State :=
  if tid = 0 then
    if s.spc = .waiting then .ok ({ s with spc := .woken }.log 0 .spurious) else .error .badChoice
  else if s.workers[tid - 1]? = some .waiting then
    .ok ((s.setW (tid - 1) .woken).log tid .spurious)
  else .error .badChoice

def step (s : State) : Choice → Except Err State
  | .run 0 => stepSub s
  | .run (i + 1) => stepWorker s i
  | .spurious tid => stepSpurious s tid

/-- run a schedule; stops at the first error -/
def runSched (s : State) : List Choice → Except Err State
  | [] => .ok s
  | c :: cs =>
    match step s c with
    | .ok s' => runSched s' cs
    | .error e => .error e

/-! ### observations -/

def WPc.runnable : WPc → Bool
  | .atLockA | .atRun _ | .atLockB _ | .woken => true
  | .waiting | .exited => false

def State.subRunnable (s : State) : Bool :=
  match s.spc with
  | .waiting => false
  | .joining t => s.workers[t - 1]? == some .exited
  | _ => !s.prog.isEmpty

/-- some thread can be scheduled (without a spurious wake-up) -/
def State.anyRunnable (s : State) : Bool := s.subRunnable || s.workers.any WPc.runnable

/-- submitter finished -/
def State.finished (s : State) : Bool := s.prog.isEmpty && s.spc == .ready

/-- submitter finished and, if the pool was dropped, every worker exited -/
def State.done (s : State) : Bool :=
  s.finished && (!s.immediateShutdown || s.workers.all (· == .exited))

/-- the caller contract, as a decidable predicate on programs: `nsp` jobs have
been spawned, the ones in `joined` joined, `dropped` = the pool has been
dropped.  Every `spawn` is called with at most `MAX_THREADS - 1` spawned jobs
not yet joined, every `join` is for a job spawned earlier and not joined yet,
nothing but `u` follows `d`. -/
def contractFrom (nsp : Nat) (joined : List Nat) (dropped : Bool) : List Op → Bool
  | [] => true
  | .spawn _ :: r => !dropped && decide (nsp < joined.length + MAX_THREADS) && contractFrom (nsp + 1) joined dropped r
  | .join n :: r => !dropped && decide (n < nsp) && !joined.contains n && contractFrom nsp (n :: joined) dropped r
  | .unwrapInput :: r => contractFrom nsp joined dropped r
  | .dropPool :: r => !dropped && contractFrom nsp joined true r

def contract (p : List Op) : Bool := contractFrom 0 [] false p

end BV.Pool
