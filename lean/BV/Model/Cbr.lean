/-
M13c `Cbr` — executable model of `CreateBackwardReferences` (`src/enc/backward_references/mod.rs`),
the greedy / lazy match loop of quality 2–9, over an ABSTRACT hasher (`HasherOps`): the loop only
calls `FindLongestMatch`, `StoreRange`, `Store4Vec4`, `StoreEvenVec4`, `PrepareDistanceCache`,
`HashTypeLength`, `StoreLookahead`.  The three bucketed families of BV/Model/MatchFinder.lean are
instances (`basicOps`, `advOps`, `h9Ops`); H10 / Zopfli (quality 10, 11) is out of scope.

Mirrored: the `while position + HashTypeLength < pos_end` loop, the lazy-matching inner loop
(`cost_diff_lazy = 175`, at most 4 delayed references in a row, `sr2.len` seeded with
`min(sr.len - 1, max_length)` below quality 5), `apply_random_heuristics` and the literal-spree
skipping (`Store4Vec4` / `StoreEvenVec4` strides, the jump to `pos_end`), the `last_insert_len` carry,
`ComputeDistanceCode`, the distance-cache rotation + `PrepareDistanceCache`, `Command::init`,
`num_literals`, the `StoreRange` over the copied stretch; and what `encode.rs` appends when the
meta-block is closed with pending literals (`Command::init_insert`).

Conventions as in BV/Model/MatchFinder.lean.  Positions are `Nat`s below 2^63 (no `usize` wrap in
`position + …`); `pos_end - position` (a `wrapping_sub` in the Rust) is a plain subtraction:
`position ≤ pos_end` is an invariant of the loop for every hasher whose matches respect
`max_length` (part of `cbr_sound`).  The `commands` output slice is assumed large enough
(`split_at_mut(1)` on it panics otherwise; the caller sizes it by the number of input bytes).
-/
import BV.Model.MatchFinder

namespace BV.Cbr
open BV.Hasher BV.MatchFinder BV.Recoder BV.PrefixArith

/-- the hasher as `CreateBackwardReferences` sees it; data buffer, mask and dictionary are closed over -/
structure HasherOps (H : Type) where
  /-- `FindLongestMatch(dictionary, hash, data, mask, dist_cache, cur_ix, max_length, max_backward, gap = 0, max_distance, out)` -/
  find : H → List Int → Nat → Nat → Nat → Nat → SR → Option (Bool × SR × H)
  /-- `StoreRange(data, mask, ix_start, ix_end)` -/
  storeRange : H → Nat → Nat → Option H
  /-- `Store4Vec4(data, mask, ix)` -/
  store4Vec4 : H → Nat → Option H
  /-- `StoreEvenVec4(data, mask, ix)` -/
  storeEvenVec4 : H → Nat → Option H
  /-- `PrepareDistanceCache(dist_cache)` -/
  prepareCache : List Int → Option (List Int)
  hashTypeLength : Nat
  storeLookahead : Nat

/-- the parameters the loop reads from `BrotliEncoderParams` -/
structure Params where
  quality : Nat
  lgwin : Nat
  /-- `params.dist.max_distance` -/
  maxDistance : Nat
  npostfix : Nat
  ndirect : Nat

def kMinScore : Nat := 30 * 8 * 8 + 100
def costDiffLazy : Nat := 175

/-- `LiteralSpreeLengthForSparseSearch` -/
def literalSpree (p : Params) : Nat := if p.quality < 9 then 64 else 512

def maxBackwardLimit (p : Params) : Nat := (1 <<< p.lgwin) - 16

/-- the running state of the outer loop -/
structure St (H : Type) where
  h : H
  position : Nat
  insertLength : Nat
  applyRandom : Nat
  cache : List Int
  numLiterals : Nat

/-- the lazy-matching inner loop: `delayed` = `delayed_backward_references_in_row`; returns the
hasher, the (possibly advanced) position, insert length and the result to emit -/
def lazyLoop {H : Type} (ops : HasherOps H) (p : Params) (posEnd : Nat) (cache : List Int) :
    Nat → Nat → H → Nat → Nat → Nat → SR → Option (H × Nat × Nat × SR)
  | 0, _, h, position, insertLength, _, sr => some (h, position, insertLength, sr)
  | fuel + 1, delayed, h, position, insertLength, maxLength, sr =>
    let sr2 : SR := ⟨if p.quality < 5 then min (sr.len - 1) maxLength else 0, 0, 0, kMinScore⟩
    let maxDistance := min (position + 1) (maxBackwardLimit p)
    match ops.find h cache (position + 1) maxLength maxDistance p.maxDistance sr2 with
    | none => none
    | some (found, sr2, h) =>
      if found ∧ sr2.score ≥ (sr.score + costDiffLazy) % U64 then
        if delayed + 1 < 4 ∧ position + 1 + ops.hashTypeLength < posEnd then
          lazyLoop ops p posEnd cache fuel (delayed + 1) h (position + 1) (insertLength + 1) (maxLength - 1) sr2
        else some (h, position + 1, insertLength + 1, sr2)
      else some (h, position, insertLength, sr)

/-- the accepted result becomes a command; the cache rotates and is re-prepared -/
def emit {H : Type} (ops : HasherOps H) (p : Params) (position insertLength : Nat) (sr : SR)
    (cache : List Int) : Option (Cmd × List Int) :=
  let maxDistance := min position (maxBackwardLimit p)
  match emitCommand p.npostfix p.ndirect position (maxBackwardLimit p) insertLength sr cache,
        computeDistanceCode sr.distance maxDistance cache with
  | some (cmd, cache'), some code =>
    if sr.distance ≤ maxDistance ∧ code > 0 then
      -- the cache was rotated: `hasher.PrepareDistanceCache(dist_cache)`
      match ops.prepareCache cache' with
      | none => none
      | some cache'' => some (cmd, cache'')
    else some (cmd, cache')
  | _, _ => none

/-- the literal-spree skipping after a position without a match (`position` already advanced by 1) -/
def skipAhead {H : Type} (ops : HasherOps H) (p : Params) (posEnd : Nat) (s : St H) : Option (St H) :=
  if s.position > s.applyRandom then
    let kMargin := max (ops.storeLookahead - 1) 4
    if s.position + 16 ≥ posEnd - kMargin then
      some { s with insertLength := s.insertLength + (posEnd - s.position), position := posEnd }
    else if s.position > s.applyRandom + 4 * literalSpree p then
      match ops.store4Vec4 s.h s.position with
      | none => none
      | some h => some { s with h := h, insertLength := s.insertLength + 16, position := s.position + 16 }
    else
      match ops.storeEvenVec4 s.h s.position with
      | none => none
      | some h => some { s with h := h, insertLength := s.insertLength + 8, position := s.position + 8 }
  else some s

/-- the accepted result at `position` with `insertLength` pending literals: command, cache, `StoreRange`, new state -/
def stepEmit {H : Type} (ops : HasherOps H) (p : Params) (storeEnd : Nat) (s : St H) (h : H)
    (position insertLength : Nat) (sr : SR) : Option (Option Cmd × St H) :=
  match emit ops p position insertLength sr s.cache with
  | none => none
  | some (cmd, cache) =>
    match ops.storeRange h (position + 2) (min (position + sr.len) storeEnd) with
    | none => none
    | some h =>
      some (some cmd,
        { h := h, position := position + sr.len, insertLength := 0,
          applyRandom := position + 2 * sr.len + literalSpree p, cache := cache,
          numLiterals := s.numLiterals + insertLength })

/-- a match was found at `s.position`: lazy matching, then the command -/
def stepFound {H : Type} (ops : HasherOps H) (p : Params) (posEnd storeEnd : Nat) (s : St H) (h : H)
    (sr : SR) : Option (Option Cmd × St H) :=
  match lazyLoop ops p posEnd s.cache 4 0 h s.position s.insertLength (posEnd - s.position - 1) sr with
  | none => none
  | some (h, position, insertLength, sr) => stepEmit ops p storeEnd s h position insertLength sr

/-- no match at `s.position`: one more literal, then possibly skip ahead -/
def stepMiss {H : Type} (ops : HasherOps H) (p : Params) (posEnd : Nat) (s : St H) (h : H) :
    Option (Option Cmd × St H) :=
  match skipAhead ops p posEnd { s with h := h, insertLength := s.insertLength + 1, position := s.position + 1 } with
  | none => none
  | some s => some (none, s)

/-- one iteration of `while position + HashTypeLength < pos_end`: the command emitted (if any) and the new state -/
def step {H : Type} (ops : HasherOps H) (p : Params) (posEnd storeEnd : Nat) (s : St H) :
    Option (Option Cmd × St H) :=
  match ops.find s.h s.cache s.position (posEnd - s.position) (min s.position (maxBackwardLimit p))
      p.maxDistance ⟨0, 0, 0, kMinScore⟩ with
  | none => none
  | some (false, _, h) => stepMiss ops p posEnd s h
  | some (true, sr, h) => stepFound ops p posEnd storeEnd s h sr

/-- the outer loop; `fuel` bounds the number of iterations (every iteration advances `position`) -/
def loop {H : Type} (ops : HasherOps H) (p : Params) (posEnd storeEnd : Nat) :
    Nat → St H → Option (List Cmd × St H)
  | 0, s => some ([], s)
  | fuel + 1, s =>
    if s.position + ops.hashTypeLength < posEnd then
      match step ops p posEnd storeEnd s with
      | none => none
      | some (oc, s') =>
        match loop ops p posEnd storeEnd fuel s' with
        | none => none
        | some (cs, s'') => some (oc.toList ++ cs, s'')
    else some ([], s)

/-- result of one `CreateBackwardReferences` call -/
structure Result (H : Type) where
  cmds : List Cmd
  h : H
  cache : List Int
  lastInsertLen : Nat
  numLiterals : Nat

/-- `CreateBackwardReferences(.., num_bytes, position, .., hasher, dist_cache, last_insert_len, commands, num_commands, num_literals)` -/
def createBackwardReferences {H : Type} (ops : HasherOps H) (p : Params) (numBytes position : Nat)
    (h : H) (cache : List Int) (lastInsertLen numLiterals : Nat) : Option (Result H) :=
  let posEnd := position + numBytes
  let storeEnd := if numBytes ≥ ops.storeLookahead then position + numBytes - ops.storeLookahead + 1 else position
  match ops.prepareCache cache with
  | none => none
  | some cache =>
    match loop ops p posEnd storeEnd (numBytes + 1)
        ⟨h, position, lastInsertLen, position + literalSpree p, cache, numLiterals⟩ with
    | none => none
    | some (cmds, s) =>
      some ⟨cmds, s.h, s.cache, s.insertLength + (posEnd - s.position), s.numLiterals⟩

/-- `Command::init_insert(insertlen)` -/
def initInsert (insertLen : Nat) : Cmd :=
  { insertLen := insertLen % U32
    copyLenField := (4 <<< 25) % U32
    distExtra := 0
    distPrefix := (1 <<< 10) ||| 16
    cmdPrefix := getLengthCode insertLen 4 false }

/-- closing the meta-block (`encode.rs`): pending literals become a last insert-only command -/
def closeMetaBlock (cmds : List Cmd) (lastInsertLen : Nat) : List Cmd :=
  if lastInsertLen > 0 then cmds ++ [initInsert lastInsertLen] else cmds

/-! ## `PrepareDistanceCache` -/

/-- `adv_prepare_distance_cache(distance_cache, num_distances)`: entries 4..9 from the last
distance, 10..15 from the second-last (`i32` arithmetic; the cache slice has 16 entries) -/
def advPrepareDistanceCache (numDistances : Nat) (cache : List Int) : Option (List Int) :=
  if numDistances > 4 then
    if cache.length < 10 then none
    else
      let l := cache.getD 0 0
      let w (x : Int) : Int := toI32 (x % (2 ^ 32 : Int)).toNat
      let c1 := cache.take 4 ++ [w (l - 1), w (l + 1), w (l - 2), w (l + 2), w (l - 3), w (l + 3)] ++ cache.drop 10
      if numDistances > 10 then
        if cache.length < 16 then none
        else
          let n := cache.getD 1 0
          some (c1.take 10 ++ [w (n - 1), w (n + 1), w (n - 2), w (n + 2), w (n - 3), w (n + 3)] ++ c1.drop 16)
      else some c1
  else some cache

/-! ## the vectorised stores of `AdvHasher` -/

namespace Adv

/-- counter bump + bucket write for one key (shared by the two vectorised stores) -/
def put (P : AdvP) (key v : Nat) (st : AdvSt) : Option AdvSt :=
  match BV.Hasher.Adv.numStep P key st.num with
  | none => none
  | some (r, num) =>
    match wr st.buckets ((key <<< P.blockBits) + r) v with
    | none => none
    | some buckets => some ⟨num, buckets⟩

/-- the four keys are computed first, then the four counters are bumped, then the four bucket
entries are written (`Store4Vec4` / `StoreEvenVec4` share this tail) -/
def put4 (P : AdvP) (k0 k1 k2 k3 v0 v1 v2 v3 : Nat) (st : AdvSt) : Option AdvSt :=
  match st with
  | ⟨num, buckets⟩ =>
  match BV.Hasher.Adv.numStep P k0 num with
  | none => none
  | some (r0, num) =>
  match BV.Hasher.Adv.numStep P k1 num with
  | none => none
  | some (r1, num) =>
  match BV.Hasher.Adv.numStep P k2 num with
  | none => none
  | some (r2, num) =>
  match BV.Hasher.Adv.numStep P k3 num with
  | none => none
  | some (r3, num) =>
  match wr buckets ((k0 <<< P.blockBits) + r0) v0 with
  | none => none
  | some buckets =>
  match wr buckets ((k1 <<< P.blockBits) + r1) v1 with
  | none => none
  | some buckets =>
  match wr buckets ((k2 <<< P.blockBits) + r2) v2 with
  | none => none
  | some buckets =>
  match wr buckets ((k3 <<< P.blockBits) + r3) v3 with
  | none => none
  | some buckets => some ⟨num, buckets⟩

/-- `fn StoreEvenVec4` of `AdvHasher`: positions `ix, ix+2, ix+4, ix+6` -/
def storeEvenVec4 (P : AdvP) (data : ByteArray) (mask ix : Nat) (st : AdvSt) : Option AdvSt :=
  if P.lookahead ≠ 4 then
    forRange (fun i st => BV.Hasher.Adv.store P data mask (ix + i * 2) st) 0 4 st
  else
    match win data (ix &&& mask) 8, win data ((ix + 8) &&& mask) 2 with
    | some l, some hw =>
      let lword := le l
      let hword := le hw
      let m (w : Nat) := BV.Hasher.Adv.mixInline P w
      put4 P (m lword) (m (lword >>> 16)) (m (lword >>> 32))
        (m (((hword &&& 0xffff) <<< 16) ||| ((lword >>> 48) &&& 0xffff)))
        (ix % U32) ((ix + 2) % U32) ((ix + 4) % U32) ((ix + 6) % U32) st
    | _, _ => none

/-- `fn Store4Vec4` of `AdvHasher`: positions `ix, ix+4, ix+8, ix+12` -/
def store4Vec4 (P : AdvP) (data : ByteArray) (mask ix : Nat) (st : AdvSt) : Option AdvSt :=
  if P.lookahead ≠ 4 then
    forRange (fun i st => BV.Hasher.Adv.store P data mask (ix + i * 4) st) 0 4 st
  else
    match win data (ix &&& mask) 8, win data ((ix + 8) &&& mask) 8 with
    | some l, some u =>
      let m (w : Nat) := BV.Hasher.Adv.mixInline P w
      put4 P (m (le (l.take 4))) (m (le (l.drop 4))) (m (le (u.take 4))) (m (le (u.drop 4)))
        (ix % U32) ((ix + 4) % U32) ((ix + 8) % U32) ((ix + 12) % U32) st
    | _, _ => none

end Adv

/-! ## the three families as `HasherOps` -/

/-- BasicHasher state in the loop: table + dictionary counters -/
def basicOps (P : BasicP) (useDict : Bool) (lbs : Nat) (dict : ByteArray → Nat → Option (List DictItem))
    (data : ByteArray) (mask : Nat) : HasherOps (Tab × Common) where
  find := fun (b, c) cache pos ml mb md sr =>
    (MatchFinder.Basic.findLongestMatch P useDict lbs (dict data (pos &&& mask)) data mask cache pos ml mb md sr b c).map
      fun (f, o, b, c) => (f, o, (b, c))
  storeRange := fun (b, c) s e => (BV.Hasher.Basic.storeRange P data mask s e b).map fun b => (b, c)
  store4Vec4 := fun (b, c) ix =>
    (forRange (fun i b => BV.Hasher.Basic.store P data mask (ix + i * 4) b) 0 4 b).map fun b => (b, c)
  storeEvenVec4 := fun (b, c) ix =>
    (forRange (fun i b => BV.Hasher.Basic.store P data mask (ix + i * 2) b) 0 4 b).map fun b => (b, c)
  prepareCache := fun cache => some cache
  hashTypeLength := 8
  storeLookahead := 8

def advOps (P : AdvP) (numLast lbs : Nat) (dict : ByteArray → Nat → Option (List DictItem))
    (data : ByteArray) (mask : Nat) : HasherOps (AdvSt × Common) where
  find := fun (st, c) cache pos ml mb md sr =>
    (MatchFinder.Adv.findLongestMatch P numLast lbs (dict data (pos &&& mask)) data mask cache pos ml mb md sr st c).map
      fun (f, o, st, c) => (f, o, (st, c))
  storeRange := fun (st, c) s e => (BV.Hasher.Adv.storeRange P data mask s e st).map fun st => (st, c)
  store4Vec4 := fun (st, c) ix => (Adv.store4Vec4 P data mask ix st).map fun st => (st, c)
  storeEvenVec4 := fun (st, c) ix => (Adv.storeEvenVec4 P data mask ix st).map fun st => (st, c)
  prepareCache := advPrepareDistanceCache numLast
  hashTypeLength := P.lookahead
  storeLookahead := P.lookahead

def h9Ops (P : H9P) (lbs : Nat) (dict : ByteArray → Nat → Option (List DictItem))
    (data : ByteArray) (mask : Nat) : HasherOps (AdvSt × Common) where
  find := fun (st, c) cache pos ml mb md sr =>
    (MatchFinder.H9.findLongestMatch P lbs (dict data (pos &&& mask)) data mask cache pos ml mb md sr st c).map
      fun (f, o, st, c) => (f, o, (st, c))
  storeRange := fun (st, c) s e => (BV.Hasher.H9.storeRange P data mask s e st).map fun st => (st, c)
  store4Vec4 := fun (st, c) ix =>
    (forRange (fun i st => BV.Hasher.H9.store P data mask (ix + i * 4) st) 0 4 st).map fun st => (st, c)
  storeEvenVec4 := fun (st, c) ix =>
    (forRange (fun i st => BV.Hasher.H9.store P data mask (ix + i * 2) st) 0 4 st).map fun st => (st, c)
  prepareCache := advPrepareDistanceCache 16
  hashTypeLength := 4
  storeLookahead := 4

end BV.Cbr
