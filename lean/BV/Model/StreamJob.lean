/-
`compress_part` (src/enc/threading.rs) over the STREAM MACHINE: the job of `CompressMulti` as the
composition of two existing models — `BV.Stream.compressStream` (M8, `compress_stream`) for the
encoder call and `BV.Multi.compressPart` (M10) for the loop around it.  Executable; the payload
encoder stays the oracle of M8.

Covers the jobs whose encoder is FRESH when the call is issued: job 0, every job at quality 0/1
and every job with an empty prefix (`set_custom_dictionary_with_optional_precomputed_hasher`
returns before it touches positions; its `ensure_initialized` is idempotent).  The stream model has
no dictionary call, so quality ≥ 2 jobs with a non-empty prefix are outside.
-/
import BV.Model.Stream
import BV.Model.Multi

namespace BV.StreamJob
open BV.Stream BV.Multi

/-- what the loop of `compress_part` observes of one `compress_stream(FINISH)` call of the stream
model that was offered `inLen` bytes: return value, `is_finished()`, `next_in_offset`, the bytes
written to `mem` -/
def observed (inLen : Nat) (s' : St) (io' : Io) (r : Bool) : EncAns :=
  .ans ⟨r, isFinished s', inLen - io'.availIn, io'.out⟩

/-- `compress_part`'s parameter changes: `state.params = params.clone()`; jobs `≥ 1` are catable
without magic number; every job appendable (fields set directly, not through `set_parameter`) -/
def jobParams (p : Params) (i : Nat) : Params :=
  if i = 0 then { p with appendable := true }
  else { p with catable := true, magic := false, appendable := true }

/-- a job on a fresh encoder: one FINISH call handed the whole piece and the job buffer
`BrotliEncoderMaxCompressedSize(len)`, then `compress_part`'s loop on what it observed.  A modelled
panic of the call is the job's panic; running out of fuel (excluded by C20 `call_terminates`) is
reported as `spin`. -/
def streamJob (o : Oracle) (fuel : Nat) (p : Params) (i t n : Nat) (piece : Bytes) : JobRes :=
  match compressStream o fuel { St.new with params := jobParams p i } 2 piece (maxCompressedSize piece.length) with
  | .ok (s', io', r) => compressPart i t n [observed piece.length s' io' r]
  | .panic => .panic
  | .fuel => .spin

end BV.StreamJob
