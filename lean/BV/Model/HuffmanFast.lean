/-
Array-backed evaluation path for the heavy loops of the Huffman model
(`SortHuffmanTreeItems`, leaf collection, two-queue merge, `BrotliSetDepth`).
Each `…A` function is the `List` model function with `Array` reads/writes; each is
PROVED equal to the model function (`…A_eq`), and the `@[csimp]` theorems make the
compiled driver run the `Array` code wherever the model function is called.  The
`List` functions of BV/Model/Huffman.lean remain the model all theorems are about.
-/
import BV.Model.HuffmanCore

namespace BV.Huffman.Fast
open BV.Bits BV.Huffman

def omap {α β : Type} (f : α → β) : Out α → Out β
  | .ok a => .ok (f a)
  | .panic => .panic
  | .fuel => .fuel

@[simp] theorem omap_ok {α β : Type} (f : α → β) (a : α) : omap f (.ok a) = .ok (f a) := rfl
@[simp] theorem omap_panic {α β : Type} (f : α → β) : omap f (.panic : Out α) = .panic := rfl
@[simp] theorem omap_fuel {α β : Type} (f : α → β) : omap f (.fuel : Out α) = .fuel := rfl

@[inline] def getA {α : Type} (a : Array α) (i : Nat) : Out α :=
  match a[i]? with
  | some x => .ok x
  | none => .panic

@[inline] def setA {α : Type} (a : Array α) (i : Nat) (v : α) : Out (Array α) :=
  if i < a.size then .ok (a.setIfInBounds i v) else .panic

@[simp] theorem getA_toArray {α : Type} (l : List α) (i : Nat) : getA l.toArray i = getAt l i := by
  simp only [getA, getAt, List.getElem?_toArray]
  cases l[i]? <;> rfl

@[simp] theorem setA_toArray {α : Type} (l : List α) (i : Nat) (v : α) :
    setA l.toArray i v = omap List.toArray (setAt l i v) := by
  simp only [setA, setAt, List.size_toArray]
  split <;> simp

/-! ### sort -/

def gapShiftA (cmp : Node → Node → Bool) (tmp : Node) (gap : Nat) :
    Nat → Array Node → Nat → Out (Array Node × Nat)
  | 0, _, _ => .fuel
  | f + 1, items, j =>
    if j ≥ gap then do
      let x ← getA items (j - gap)
      if cmp tmp x then do
        let items ← setA items j x
        gapShiftA cmp tmp gap f items (j - gap)
      else .ok (items, j)
    else .ok (items, j)

theorem gapShiftA_eq (cmp : Node → Node → Bool) (tmp : Node) (gap : Nat) :
    ∀ (f : Nat) (items : List Node) (j : Nat),
    gapShiftA cmp tmp gap f items.toArray j
      = omap (fun p => (p.1.toArray, p.2)) (gapShift cmp tmp gap f items j) := by
  intro f
  induction f with
  | zero => intro items j; rfl
  | succ f ih =>
    intro items j
    simp only [gapShiftA, gapShift, getA_toArray, setA_toArray]
    split
    · cases getAt items (j - gap) with
      | panic => rfl
      | fuel => rfl
      | ok x =>
        simp only [Out.bind_ok]
        split
        · cases hs : setAt items j x with
          | panic => rfl
          | fuel => rfl
          | ok it => simp only [omap_ok, Out.bind_ok]; exact ih it (j - gap)
        · rfl
    · rfl


def gapInsertA (cmp : Node → Node → Bool) (gap : Nat) (items : Array Node) (i : Nat) :
    Out (Array Node) := do
  let tmp ← getA items i
  let (items, j) ← gapShiftA cmp tmp gap (i + 1) items i
  setA items j tmp

theorem gapInsertA_eq (cmp : Node → Node → Bool) (gap : Nat) (items : List Node) (i : Nat) :
    gapInsertA cmp gap items.toArray i = omap List.toArray (gapInsert cmp gap items i) := by
  simp only [gapInsertA, gapInsert, getA_toArray]
  cases getAt items i with
  | panic => rfl
  | fuel => rfl
  | ok tmp =>
    simp only [Out.bind_ok, gapShiftA_eq]
    cases gapShift cmp tmp gap (i + 1) items i with
    | panic => rfl
    | fuel => rfl
    | ok p => simp only [omap_ok, Out.bind_ok, setA_toArray]

def gapPassA (cmp : Node → Node → Bool) (gap : Nat) : Nat → Nat → Array Node → Out (Array Node)
  | 0, _, items => .ok items
  | c + 1, i, items => do
    let items ← gapInsertA cmp gap items i
    gapPassA cmp gap c (i + 1) items

theorem gapPassA_eq (cmp : Node → Node → Bool) (gap : Nat) :
    ∀ (c i : Nat) (items : List Node),
    gapPassA cmp gap c i items.toArray = omap List.toArray (gapPass cmp gap c i items) := by
  intro c
  induction c with
  | zero => intro i items; rfl
  | succ c ih =>
    intro i items
    simp only [gapPassA, gapPass, gapInsertA_eq]
    cases gapInsert cmp gap items i with
    | panic => rfl
    | fuel => rfl
    | ok it => simp only [omap_ok, Out.bind_ok]; exact ih (i + 1) it

def shellPassesA (cmp : Node → Node → Bool) (n : Nat) : List Nat → Array Node → Out (Array Node)
  | [], items => .ok items
  | gap :: gs, items => do
    let items ← gapPassA cmp gap (n - gap) gap items
    shellPassesA cmp n gs items

theorem shellPassesA_eq (cmp : Node → Node → Bool) (n : Nat) :
    ∀ (gs : List Nat) (items : List Node),
    shellPassesA cmp n gs items.toArray = omap List.toArray (shellPasses cmp n gs items) := by
  intro gs
  induction gs with
  | nil => intro items; rfl
  | cons g gs ih =>
    intro items
    simp only [shellPassesA, shellPasses, gapPassA_eq]
    cases gapPass cmp g (n - g) g items with
    | panic => rfl
    | fuel => rfl
    | ok it => simp only [omap_ok, Out.bind_ok]; exact ih it

def sortItemsA (cmp : Node → Node → Bool) (items : Array Node) (n : Nat) : Out (Array Node) :=
  if n < 13 then gapPassA cmp 1 (n - 1) 1 items
  else shellPassesA cmp n (BV.Gen.kShellGaps.drop (if n < 57 then 2 else 0)) items

theorem sortItemsA_eq (cmp : Node → Node → Bool) (items : List Node) (n : Nat) :
    sortItemsA cmp items.toArray n = omap List.toArray (sortItems cmp items n) := by
  simp only [sortItemsA, sortItems]
  split
  · exact gapPassA_eq cmp 1 _ _ items
  · exact shellPassesA_eq cmp n _ items

/-- the model function, computed through arrays -/
def sortItemsImpl (cmp : Node → Node → Bool) (items : List Node) (n : Nat) : Out (List Node) :=
  omap Array.toList (sortItemsA cmp items.toArray n)

theorem omap_omap {α β γ : Type} (g : β → γ) (f : α → β) (x : Out α) :
    omap g (omap f x) = omap (g ∘ f) x := by cases x <;> rfl

theorem omap_id' {α : Type} (f : α → α) (h : ∀ a, f a = a) (x : Out α) : omap f x = x := by
  cases x <;> simp [omap, h]

@[csimp] theorem sortItems_csimp : @sortItems = @sortItemsImpl := by
  funext cmp items n
  simp only [sortItemsImpl, sortItemsA_eq, omap_omap]
  exact (omap_id' _ (fun a => by simp) _).symm

/-! ### leaf collection -/

def collectLeavesA (data : Array Nat) (countLimit : Nat) :
    Nat → Array Node → Nat → Out (Array Node × Nat)
  | 0, tree, n => .ok (tree, n)
  | i + 1, tree, n => do
    let d ← getA data i
    if d ≠ 0 then
      let tree ← setA tree n ⟨max d countLimit, -1, asI16 i⟩
      collectLeavesA data countLimit i tree (n + 1)
    else collectLeavesA data countLimit i tree n

theorem collectLeavesA_eq (data : List Nat) (countLimit : Nat) :
    ∀ (i : Nat) (tree : List Node) (n : Nat),
    collectLeavesA data.toArray countLimit i tree.toArray n
      = omap (fun p => (p.1.toArray, p.2)) (collectLeaves data countLimit i tree n) := by
  intro i
  induction i with
  | zero => intro tree n; rfl
  | succ i ih =>
    intro tree n
    simp only [collectLeavesA, collectLeaves, getA_toArray]
    cases getAt data i with
    | panic => rfl
    | fuel => rfl
    | ok d =>
      simp only [Out.bind_ok]
      split
      · simp only [setA_toArray]
        cases setAt tree n ⟨max d countLimit, -1, asI16 i⟩ with
        | panic => rfl
        | fuel => rfl
        | ok t => simp only [omap_ok, Out.bind_ok]; exact ih t (n + 1)
      · exact ih tree n

def collectLeavesImpl (data : List Nat) (countLimit i : Nat) (tree : List Node) (n : Nat) :
    Out (List Node × Nat) :=
  omap (fun p => (p.1.toList, p.2)) (collectLeavesA data.toArray countLimit i tree.toArray n)

@[csimp] theorem collectLeaves_csimp : @collectLeaves = @collectLeavesImpl := by
  funext data countLimit i tree n
  simp only [collectLeavesImpl, collectLeavesA_eq, omap_omap]
  exact (omap_id' _ (fun a => by simp) _).symm

/-! ### merge -/

def mergeLoopA (n : Nat) : Nat → Array Node → Nat → Nat → Out (Array Node)
  | 0, tree, _, _ => .ok tree
  | k + 1, tree, i, j => do
    let ti ← getA tree i
    let tj ← getA tree j
    let (left, i, j) := if ti.count ≤ tj.count then (i, i + 1, j) else (j, i, j + 1)
    let ti ← getA tree i
    let tj ← getA tree j
    let (right, i, j) := if ti.count ≤ tj.count then (i, i + 1, j) else (j, i, j + 1)
    let jEnd := 2 * n - (k + 1)
    let tl ← getA tree left
    let tr ← getA tree right
    let tree ← setA tree jEnd ⟨(tl.count + tr.count) % 4294967296, asI16 left, asI16 right⟩
    let tree ← setA tree (jEnd + 1) sentinel
    mergeLoopA n k tree i j

theorem mergeLoopA_eq (n : Nat) : ∀ (k : Nat) (tree : List Node) (i j : Nat),
    mergeLoopA n k tree.toArray i j = omap List.toArray (mergeLoop n k tree i j) := by
  intro k
  induction k with
  | zero => intro tree i j; rfl
  | succ k ih =>
    intro tree i j
    simp only [mergeLoopA, mergeLoop, getA_toArray]
    cases getAt tree i with
    | panic => rfl
    | fuel => rfl
    | ok ti =>
    cases getAt tree j with
    | panic => rfl
    | fuel => rfl
    | ok tj =>
    simp only [Out.bind_ok]
    generalize (if ti.count ≤ tj.count then (i, i + 1, j) else (j, i, j + 1)) = p1
    obtain ⟨left, i1, j1⟩ := p1
    simp only
    cases getAt tree i1 with
    | panic => rfl
    | fuel => rfl
    | ok ti1 =>
    cases getAt tree j1 with
    | panic => rfl
    | fuel => rfl
    | ok tj1 =>
    simp only [Out.bind_ok]
    generalize (if ti1.count ≤ tj1.count then (i1, i1 + 1, j1) else (j1, i1, j1 + 1)) = p2
    obtain ⟨right, i2, j2⟩ := p2
    simp only
    cases getAt tree left with
    | panic => rfl
    | fuel => rfl
    | ok tl =>
    cases getAt tree right with
    | panic => rfl
    | fuel => rfl
    | ok tr =>
    simp only [Out.bind_ok, setA_toArray]
    cases setAt tree (2 * n - (k + 1)) ⟨(tl.count + tr.count) % 4294967296, asI16 left, asI16 right⟩ with
    | panic => rfl
    | fuel => rfl
    | ok t1 =>
    simp only [omap_ok, Out.bind_ok, setA_toArray]
    cases setAt t1 (2 * n - (k + 1) + 1) sentinel with
    | panic => rfl
    | fuel => rfl
    | ok t2 => simp only [omap_ok, Out.bind_ok]; exact ih t2 i2 j2

def mergeLoopImpl (n k : Nat) (tree : List Node) (i j : Nat) : Out (List Node) :=
  omap Array.toList (mergeLoopA n k tree.toArray i j)

@[csimp] theorem mergeLoop_csimp : @mergeLoop = @mergeLoopImpl := by
  funext n k tree i j
  simp only [mergeLoopImpl, mergeLoopA_eq, omap_omap]
  exact (omap_id' _ (fun a => by simp) _).symm

/-! ### `BrotliSetDepth` -/

def setDepthLoopA (pool : Array Node) (maxDepth : Int) :
    Nat → Int → List Int → Array Nat → Out (Bool × Array Nat)
  | 0, _, _, _ => .fuel
  | f + 1, p, stack, depth => do
    let node ← getA pool (asUsize p)
    if node.left ≥ 0 then
      if (stack.length : Int) > maxDepth then .ok (false, depth)
      else if stack.length ≥ 16 then .panic
      else setDepthLoopA pool maxDepth f node.left (node.right :: stack) depth
    else
      let depth ← setA depth (asUsize node.right) ((stack.length - 1) % 256)
      match stack.dropWhile (· == -1) with
      | [] => .ok (true, depth)
      | q :: rest => setDepthLoopA pool maxDepth f q (-1 :: rest) depth

theorem setDepthLoopA_eq (pool : List Node) (maxDepth : Int) :
    ∀ (f : Nat) (p : Int) (stack : List Int) (depth : List Nat),
    setDepthLoopA pool.toArray maxDepth f p stack depth.toArray
      = omap (fun r => (r.1, r.2.toArray)) (setDepthLoop pool maxDepth f p stack depth) := by
  intro f
  induction f with
  | zero => intro p stack depth; rfl
  | succ f ih =>
    intro p stack depth
    simp only [setDepthLoopA, setDepthLoop, getA_toArray]
    cases getAt pool (asUsize p) with
    | panic => rfl
    | fuel => rfl
    | ok node =>
      simp only [Out.bind_ok]
      split
      · split
        · rfl
        · split
          · rfl
          · exact ih _ _ depth
      · simp only [setA_toArray]
        cases setAt depth (asUsize node.right) ((stack.length - 1) % 256) with
        | panic => rfl
        | fuel => rfl
        | ok d =>
          simp only [omap_ok, Out.bind_ok]
          cases stack.dropWhile (· == -1) with
          | nil => rfl
          | cons q rest => exact ih q (-1 :: rest) d

def setDepthLoopImpl (pool : List Node) (maxDepth : Int) (f : Nat) (p : Int) (stack : List Int)
    (depth : List Nat) : Out (Bool × List Nat) :=
  omap (fun r => (r.1, r.2.toList)) (setDepthLoopA pool.toArray maxDepth f p stack depth.toArray)

@[csimp] theorem setDepthLoop_csimp : @setDepthLoop = @setDepthLoopImpl := by
  funext pool maxDepth f p stack depth
  simp only [setDepthLoopImpl, setDepthLoopA_eq, omap_omap]
  exact (omap_id' _ (fun a => by simp) _).symm

end BV.Huffman.Fast
