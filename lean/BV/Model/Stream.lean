import BV.Model.Bits
/-
M8 `Stream` — the streaming encoder state machine of `src/enc/encode.rs`
(`BrotliEncoderStateStruct`): `set_parameter`, `SanitizeParams`, `ComputeLgBlock`,
`RingBufferSetup`, `EncodeWindowBits`, `ensure_initialized`, `RingBufferInitBuffer`,
`RingBufferWriteTail`, `RingBufferWrite`, `copy_input_to_ring_buffer` (index level),
`remaining_input_block_size`, `update_size_hint`, `update_last_processed_pos`,
`inject_byte_padding_block`, `inject_flush_or_push_output`, `write_metadata_header`,
`process_metadata`, `check_flush_complete`, `compress_stream`, `compress_stream_fast`,
`take_output`, `is_finished`, `has_more_output`, and the CONTROL SKELETON of `encode_data`
(magic-number block, catable 2-byte prelude, which positions move when, every early return).

NOT modelled — the payload encoder: whatever `compress_fragment_fast`,
`compress_fragment_two_pass`, `BrotliCreateBackwardReferences` … `WriteMetaBlockInternal`
write.  It is an ORACLE: `Oracle := Nat → Req → Ans`, asked once per invocation (the `Nat`
is the running invocation count, the `Req` what the skeleton passes in).  `Ans.bits` are ALL
bits the invocation appended behind the carry (so they start with the magic block / prelude
the skeleton itself predicts — a disagreement sets the ghost flag `oracleBad`), `Ans.emit`
says whether a quality ≥ 2 invocation closed the meta-block (`last_flush_pos_ = input_pos_`)
or kept accumulating.  Hypotheses about oracles are the named structures at the end.

Abstractions (all checked by the correspondence run, stated in the props files):
* pending output (`next_out_[.. available_out_]`) is the byte list `pending`; `nextOut` keeps
  the tag/offset (`DynamicStorage(off)`, `TinyBuf(off)`, `None`) for the padding-destination
  logic and the capacity panic sites (`tiny_buf_` is 16 bytes, `storage_` is `storageSize`);
* ring buffer: indices, allocation length, every slice bound of the write path AND the content of
  `data_mo` (`Ring.cells`: the cells ever written, newest first; a cell never written is 0, as a
  fresh allocation is) — 2-byte prefix, data, tail mirror, 7 bytes of slack; the (up to three)
  bytes the catable prelude reads are still the ghost `first2`;
* allocator traffic, hasher, commands, dist cache, prev bytes: payload, not here.
`usize = u64`; `wrapping_*` are explicit `% 2^64` / `% 2^32`.
-/
namespace BV.Stream
open BV.Bits

abbrev Bytes := List Nat

def u32Max : Nat := 4294967295
def two64 : Nat := 18446744073709551616
def two32 : Nat := 4294967296

/-- `value as i32` for a `u32` value -/
def toI32 (v : Nat) : Int := if v % two32 < 2147483648 then ((v % two32 : Nat) : Int) else ((v % two32 : Nat) : Int) - 4294967296

/-- `a.wrapping_sub(b)` on u64 -/
def wsub64 (a b : Nat) : Nat := (a + two64 - b % two64) % two64

/-! ### parameters -/

structure Params where
  mode : Nat := 0
  quality : Int := 11
  lgwin : Int := 22
  lgblock : Int := 0
  sizeHint : Nat := 0
  dlcm : Int := 0
  largeWindow : Bool := false
  q95 : Bool := false
  lbs : Int := 0
  catable : Bool := false
  useDict : Bool := true
  appendable : Bool := false
  magic : Bool := false
deriving Repr, DecidableEq, Inhabited

/-- free function `set_parameter(params, p, value)`; `none` = `return false`.
Parameters whose value the stream machine never reads (stride/cdf/prior/speed family,
`BROTLI_METABLOCK_CALLBACK`, avoid-distance-prefix-search, favor-efficiency) are accepted
without being stored. -/
def setParamRaw (p : Params) (id v : Nat) : Option Params :=
  match id with
  | 0 => some { p with mode := if v ≤ 6 then v else 0 }
  | 1 => some { p with quality := toI32 v }
  | 2 => some { p with lgwin := toI32 v }
  | 3 => some { p with lgblock := toI32 v }
  | 4 => if v ≠ 0 ∧ v ≠ 1 then none else some { p with dlcm := if v ≠ 0 then 1 else 0 }
  | 5 => some { p with sizeHint := v % two32 }
  | 6 => some { p with largeWindow := v ≠ 0 }
  | 150 => some { p with q95 := v ≠ 0 }
  | 154 => some { p with lbs := toI32 v }
  | 167 => some { p with catable := v ≠ 0, appendable := if !p.appendable then v ≠ 0 else p.appendable, useDict := v == 0 }
  | 168 => some { p with appendable := v ≠ 0 }
  | 169 => some { p with magic := v ≠ 0 }
  | 151 | 152 | 153 | 155 | 156 | 157 | 158 | 159 | 160 | 161 | 162 | 164 | 165 | 166 | 171 => some p
  | _ => none

/-- `SanitizeParams` (feature `disallow_large_window_size` off) -/
def sanitize (p : Params) : Params :=
  { p with
    quality := min 11 (max 0 p.quality)
    lgwin := if p.lgwin < 10 then 10
             else if p.lgwin > 24 then (if p.largeWindow then (if p.lgwin > 30 then 30 else p.lgwin) else 24)
             else p.lgwin
    appendable := if p.catable then true else p.appendable }

/-- `ComputeLgBlock` -/
def computeLgBlock (p : Params) : Int :=
  if p.quality = 0 ∨ p.quality = 1 then p.lgwin
  else if p.quality < 4 then 14
  else if p.lgblock = 0 then (if p.quality ≥ 9 ∧ p.lgwin > 16 then min 18 p.lgwin else 16)
  else min 24 (max 16 p.lgblock)

/-- `EncodeWindowBits(lgwin, large_window)` → (last_bytes, last_bytes_bits) -/
def encodeWindowBits (lgwin : Int) (large : Bool) : Nat × Nat :=
  if large then ((((lgwin.toNat % 64) * 256) ||| 0x11) % 65536, 14)
  else if lgwin = 16 then (0, 1)
  else if lgwin = 17 then (1, 7)
  else if lgwin > 17 then ((((lgwin - 17).toNat * 2) ||| 1) % 65536, 4)
  else ((((lgwin - 8).toNat * 16) ||| 1) % 65536, 7)

/-! ### state -/

inductive SState where
  | processing | flushRequested | finished | metadataHead | metadataBody
deriving Repr, DecidableEq, Inhabited

def SState.code : SState → Nat
  | .processing => 0 | .flushRequested => 1 | .finished => 2 | .metadataHead => 3 | .metadataBody => 4

inductive NextOut where
  | dyn (off : Nat) | tiny (off : Nat) | none
deriving Repr, DecidableEq, Inhabited

inductive IsFirst where
  | nothing | header | firstCatable | bothCatable
deriving Repr, DecidableEq, Inhabited

def IsFirst.code : IsFirst → Nat
  | .nothing => 0 | .header => 1 | .firstCatable => 2 | .bothCatable => 3

/-- ring buffer: `size_ mask_ tail_size_ total_size_ cur_size_ pos_`,
`allocLen = data_mo.len()` (0 = nothing allocated; `buffer_index` is 2 once allocated), and the
content of `data_mo` as the list of cells written so far, newest first -/
structure Ring where
  size : Nat := 0
  mask : Nat := 0
  tailSize : Nat := 0
  totalSize : Nat := 0
  curSize : Nat := 0
  pos : Nat := 0
  allocLen : Nat := 0
  cells : List (Nat × Nat) := []
deriving Repr, DecidableEq, Inhabited

/-- `data_mo[i]` -/
def cellsGet : List (Nat × Nat) → Nat → Nat
  | [], _ => 0
  | (j, v) :: rest, i => if j = i then v else cellsGet rest i

/-- `data_mo[start .. start + bytes.len()].clone_from_slice(bytes)` -/
def cellsWrite (cells : List (Nat × Nat)) : Nat → Bytes → List (Nat × Nat)
  | _, [] => cells
  | start, b :: bs => (start, b) :: cellsWrite cells (start + 1) bs

def Ring.get (rb : Ring) (i : Nat) : Nat := cellsGet rb.cells i

structure St where
  params : Params := {}
  inputPos : Nat := 0
  lastFlushPos : Nat := 0
  lastProcessedPos : Nat := 0
  lastBytes : Nat := 0
  lastBytesBits : Nat := 0
  storageSize : Nat := 0
  nextOut : NextOut := .none
  pending : Bytes := []          -- `GetNextOut[.. available_out_]`
  totalOut : Nat := 0
  remainingMetadata : Nat := 0
  streamState : SState := .processing
  isLastBlockEmitted : Bool := false
  isInitialized : Bool := false
  isFirstMb : IsFirst := .nothing
  ring : Ring := {}
  first2 : Bytes := []           -- ghost: input bytes at positions 0, 1, 2 (a prelude resumed at position 1 stores 2 more)
  nEnc : Nat := 0                -- ghost: payload-encoder invocations so far
  oracleBad : Bool := false      -- ghost: an oracle answer contradicted the skeleton (result / emit / length)
  prefixBad : Bool := false      -- ghost: an oracle answer does not start with the bits the skeleton predicts
deriving Repr, DecidableEq, Inhabited

def St.availableOut (s : St) : Nat := s.pending.length

/-- `BrotliEncoderStateStruct::new` -/
def St.new : St := {}

/-- method `set_parameter` -/
def setParameter (s : St) (id v : Nat) : St × Bool :=
  if s.isInitialized then (s, false)
  else match setParamRaw s.params id v with
    | some p => ({ s with params := p }, true)
    | none => (s, false)

/-- `RingBufferSetup` -/
def ringSetup (p : Params) (rb : Ring) : Ring :=
  let windowBits := (1 + max p.lgwin p.lgblock).toNat
  let tailBits := p.lgblock.toNat
  { rb with size := 2 ^ windowBits, mask := 2 ^ windowBits - 1, tailSize := 2 ^ tailBits,
            totalSize := (2 ^ windowBits + 2 ^ tailBits) % two32 }

/-- `ensure_initialized` (always returns true) -/
def ensureInitialized (s : St) : St :=
  if s.isInitialized then s else
  let p := sanitize s.params
  let p := { p with lgblock := computeLgBlock p }
  let lgwinHdr := if p.quality = 0 ∨ p.quality = 1 then max p.lgwin 18 else p.lgwin
  let (lb, lbb) := encodeWindowBits lgwinHdr p.largeWindow
  { s with params := p, remainingMetadata := u32Max, ring := ringSetup p s.ring,
           lastBytes := lb, lastBytesBits := lbb, isInitialized := true }

/-- `input_block_size` (after initialisation) -/
def St.blockSize (s : St) : Nat := 2 ^ s.params.lgblock.toNat

def St.unprocessed (s : St) : Nat := wsub64 s.inputPos s.lastProcessedPos

/-- `remaining_input_block_size` -/
def remainingInputBlockSize (s : St) : Nat :=
  let delta := s.unprocessed
  let bs := s.blockSize
  if delta ≥ bs then 0 else bs - delta

/-- the value `update_size_hint` stores: `min(delta + tail, 2^30)` with its overflow guards -/
def sizeHintTotal (delta availIn : Nat) : Nat :=
  if delta ≥ 1073741824 ∨ availIn ≥ 1073741824 ∨ (delta + availIn) % two64 ≥ 1073741824 then 1073741824 else delta + availIn

/-- `update_size_hint` -/
def updateSizeHint (s : St) (availIn : Nat) : St :=
  if s.params.sizeHint = 0 then { s with params := { s.params with sizeHint := sizeHintTotal s.unprocessed availIn } }
  else s

/-! ### ring buffer write path (indices and slice bounds only) -/

/-- `RingBufferInitBuffer(buflen)`: new block of `2 + buflen + 7` bytes, copy of the old
`2 + cur_size_ + 7` bytes if there was a block, zeroing of the 2-byte prefix and 7-byte slack -/
def ringInitBuffer (rb : Ring) (buflen : Nat) : Out Ring :=
  let newLen := ((2 + buflen) % two32) + 7
  let lim := ((2 + rb.curSize) % two32) + 7
  if rb.allocLen ≠ 0 ∧ (lim > newLen ∨ lim > rb.allocLen) then .panic
  else if 2 + buflen + 7 > newLen then .panic      -- the zeroing loop `buffer_index + cur_size_ + i`
  else .ok { rb with allocLen := newLen, curSize := buflen,
                     cells := cellsWrite (cellsWrite rb.cells 0 [0, 0]) (2 + buflen) (List.replicate 7 0) }

/-- the content after the tail-mirror write, the body write(s) and the prefix mirror of
`RingBufferWrite` (all bound checks have passed) -/
def ringWriteCells (rb : Ring) (bytes : Bytes) : List (Nat × Nat) :=
  let n := bytes.length
  let maskedPos := rb.pos % (rb.mask + 1)
  let c1 := if maskedPos < rb.tailSize then cellsWrite rb.cells (2 + rb.size + maskedPos) (bytes.take (min n (rb.tailSize - maskedPos)))
            else rb.cells
  let c2 := if maskedPos + n ≤ rb.size then cellsWrite c1 (2 + maskedPos) bytes
            else cellsWrite (cellsWrite c1 (2 + maskedPos) (bytes.take (min n (rb.totalSize - maskedPos)))) 2
                   ((bytes.drop (rb.size - maskedPos)).take (n - (rb.size - maskedPos)))
  cellsWrite (cellsWrite c2 0 [cellsGet c2 (2 + rb.size - 2)]) 1 [cellsGet c2 (2 + rb.size - 1)]

/-- `RingBufferWrite`, the growth to the full size on the first write that is not a small first one -/
def ringGrow (rb : Ring) : Out Ring :=
  if rb.curSize < rb.totalSize then
    match ringInitBuffer rb rb.totalSize with
    | .ok rb' => if 2 + rb'.size - 1 ≥ rb'.allocLen ∨ rb'.size < 2 then .panic
                 else .ok { rb' with cells := cellsWrite rb'.cells (2 + rb'.size - 2) [0, 0] }
    | o => o
  else .ok rb

/-- `pos_` after writing `n` bytes: `lap = max(2^30, size_)`; `pos_` stays congruent to the stream
position modulo `size_` and, once past the first lap, above `mask_` (u64 arithmetic, then `as u32`) -/
def ringPosAfter (rb : Ring) (n : Nat) : Nat :=
  if (rb.pos + n) % two64 > max 1073741824 rb.size
  then (((rb.pos + n) % two64 % max 1073741824 rb.size) ||| max 1073741824 rb.size) % two32
  else (rb.pos + n) % two64 % two32

/-- `RingBufferWrite` on the full-size buffer: the slice bounds of `RingBufferWriteTail`, of the body
write(s) and of the prefix mirror, then content and position -/
def ringWriteMain (rb : Ring) (bytes : Bytes) (avail : Nat) : Out Ring :=
  let n := bytes.length
  let maskedPos := rb.pos % (rb.mask + 1)
  -- RingBufferWriteTail
  let tailOk : Bool :=
    if maskedPos < rb.tailSize then
      let p := rb.size + maskedPos
      let lim := min n (rb.tailSize - maskedPos)
      decide (2 + p + lim ≤ rb.allocLen ∧ lim ≤ avail)
    else true
  if !tailOk then .panic else
  let bodyOk : Bool :=
    if maskedPos + n ≤ rb.size then decide (2 + maskedPos + n ≤ rb.allocLen ∧ n ≤ avail)
    else
      let mid := min n (rb.totalSize - maskedPos)
      let sz := n - (rb.size - maskedPos)
      let bstart := rb.size - maskedPos
      decide (rb.totalSize ≥ maskedPos ∧ 2 + maskedPos + mid ≤ rb.allocLen ∧ mid ≤ avail ∧
              rb.size ≥ maskedPos ∧ n ≥ rb.size - maskedPos ∧ 2 + sz ≤ rb.allocLen ∧ bstart + sz ≤ avail)
  if !bodyOk then .panic
  else if 2 + rb.size - 1 ≥ rb.allocLen ∨ rb.size < 2 then .panic   -- the two prefix-mirror reads
  else .ok { rb with pos := ringPosAfter rb n, cells := ringWriteCells rb bytes }

/-- `RingBufferWrite(bytes, n)`: `bytes` = the `n` bytes written, `avail` = length of the slice passed -/
def ringWrite (rb : Ring) (bytes : Bytes) (avail : Nat) : Out Ring :=
  let n := bytes.length
  if rb.pos = 0 ∧ n < rb.tailSize then
    match ringInitBuffer { rb with pos := n } n with
    | .ok rb' => if 2 + n > rb'.allocLen ∨ n > avail then .panic else .ok { rb' with cells := cellsWrite rb'.cells 2 bytes }
    | o => o
  else
    match ringGrow rb with
    | .ok rb => ringWriteMain rb bytes avail
    | o => o

/-- `copy_input_to_ring_buffer(input_size, input_buffer)`; `chunk` = the bytes copied -/
def copyInputToRingBuffer (s : St) (chunk : Bytes) (avail : Nat) : Out St :=
  let s := ensureInitialized s
  match ringWrite s.ring chunk avail with
  | .ok rb =>
    if rb.pos ≤ rb.mask ∧ 2 + rb.pos + 7 > rb.allocLen then .panic     -- zeroing of the 7 look-ahead bytes
    else
      let f2 := if s.first2.length < 3 ∧ s.inputPos < 3 then (s.first2 ++ chunk).take 3 else s.first2
      let rb : Ring := if rb.pos ≤ rb.mask then { rb with cells := cellsWrite rb.cells (2 + rb.pos) (List.replicate 7 0) } else rb
      .ok { s with ring := rb, inputPos := (s.inputPos + chunk.length) % two64, first2 := f2 }
  | .panic => .panic
  | .fuel => .fuel

/-! ### bit-level pieces the skeleton writes itself -/

def padToByte (w : Writer) : Writer := w ++ List.replicate ((8 - w.length % 8) % 8) false

def bytesBits : Bytes → List Bool
  | [] => []
  | b :: bs => bitsOf 8 b ++ bytesBits bs

/-- the whole bytes of a bit string (what `storage[.. storage_ix >> 3]` holds) -/
def wholeBytes (w : Writer) : Bytes := (toBytes w).take (w.length / 8)

/-- the carry a bit string leaves: (`last_bytes_`, `last_bytes_bits_`) -/
def carryOf (w : Writer) : Nat × Nat := (valOf (w.drop (8 * (w.length / 8))), w.length % 8)

/-- `encode_base_128` (at most 10 groups) -/
def encodeBase128 : Nat → Nat → Bytes
  | 0, _ => []
  | fuel + 1, v =>
    let lo := v % 128
    let rest := v / 128
    if rest ≠ 0 ∧ fuel ≠ 0 then (lo ||| 128) :: encodeBase128 fuel rest
    else if rest ≠ 0 then [lo ||| 128]
    else [lo]

/-- `BrotliWriteMetadataMetaBlock(params)` appended to `w` -/
def magicBlock (p : Params) (w : Writer) : Writer :=
  let sh := encodeBase128 10 (p.sizeHint % two64)
  let w := w ++ bitsOf 1 0 ++ bitsOf 2 3 ++ bitsOf 1 0 ++ bitsOf 2 1 ++ bitsOf 8 (3 + sh.length)
  let w := padToByte w
  let magic : Bytes := if p.catable ∧ !p.useDict then [0xe1, 0x97, 0x81] else if p.appendable then [0xe1, 0x97, 0x82] else [0xe1, 0x97, 0x80]
  w ++ bytesBits magic ++ bitsOf 8 1 ++ bytesBits sh

/-- `store_uncompressed_meta_block(is_final_block = false, …, len = n)` for the catable
prelude (`n ∈ {1, 2}`): header `ISLAST 0, MNIBBLES 00 (4 nibbles), MLEN-1, ISUNCOMPRESSED 1`,
padding, the bytes -/
def storedBlock (bytes : Bytes) (w : Writer) : Writer :=
  let w := w ++ bitsOf 1 0 ++ bitsOf 2 0 ++ bitsOf 16 (bytes.length - 1) ++ bitsOf 1 1
  padToByte w ++ bytesBits bytes

/-- `write_metadata_header`: the header bits behind the carry, zero-padded to whole bytes -/
def metadataHeaderBits (blockSize : Nat) (carry : Writer) : Writer :=
  let w := carry ++ bitsOf 1 0 ++ bitsOf 2 3 ++ bitsOf 1 0
  let w :=
    if blockSize = 0 then w ++ bitsOf 2 0
    else
      let nbits := if blockSize = 1 then 1 else Nat.log2 ((blockSize % two32 + two32 - 1) % two32) + 1
      let nbytes := (nbits + 7) / 8
      w ++ bitsOf 2 nbytes ++ bitsOf (8 * nbytes) (blockSize - 1)
  padToByte w

/-! ### the payload-encoder oracle -/

structure Req where
  site : Nat            -- 0 compress_stream → encode_data, 1 process_metadata → encode_data, 2 a block of compress_stream_fast
  lo : Nat              -- last_processed_pos_ (sites 0/1); bytes offered (site 2)
  hi : Nat              -- input_pos_
  lf : Nat := 0         -- last_flush_pos_ (sites 0/1): a meta-block covers `[lf, hi)`
  isLast : Bool
  forceFlush : Bool
deriving Repr, DecidableEq, Inhabited

structure Ans where
  result : Bool := true
  emit : Bool := true
  bits : List Bool := []
deriving Repr, DecidableEq, Inhabited

abbrev Oracle := Nat → Req → Ans

def isPrefixOf' : List Bool → List Bool → Bool
  | [], _ => true
  | _ :: _, [] => false
  | a :: as, b :: bs => a == b && isPrefixOf' as bs

/-- `encode_data`, part 1: the magic-number metadata block (first invocation only).
Returns the state, the storage bit string so far and `catable_header_size`. -/
def encMagic (s : St) (w0 : Writer) : St × Writer × Nat :=
  if s.isFirstMb = .nothing ∧ s.params.magic then
    let w := magicBlock s.params w0
    ({ s with lastBytes := (carryOf w).1, lastBytesBits := (carryOf w).2, nextOut := .dyn 0, isFirstMb := .header }, w, w.length / 8)
  else (s, w0, 0)

/-- `encode_data`, part 2: the catable prelude (first two bytes stored uncompressed) -/
def encPrelude (s : St) (w : Writer) (hdr bytes : Nat) : Out (St × Writer × Nat) :=
  if s.isFirstMb = .bothCatable then .ok (s, w, hdr)
  else if !s.params.catable then .ok ({ s with isFirstMb := .bothCatable }, w, hdr)
  else if bytes ≠ 0 then
    if ¬ (s.lastProcessedPos < 2) then .panic     -- assert!(last_processed_pos_ < 2 || custom_dictionary)
    else
      let n := min 2 bytes
      let data := (s.first2.drop s.lastFlushPos).take n
      if data.length < n then .panic else           -- ghost bytes missing: outside the abstraction
      let w := storedBlock data w
      let fm := if n ≥ 2 then IsFirst.bothCatable
                else if s.isFirstMb = .firstCatable then IsFirst.bothCatable else IsFirst.firstCatable
      .ok ({ s with lastBytes := (carryOf w).1, lastBytesBits := (carryOf w).2, lastFlushPos := s.lastFlushPos + n,
                    lastProcessedPos := s.lastProcessedPos + n, isFirstMb := fm, nextOut := .dyn 0 },
           w, w.length / 8)
  else .ok (s, w, hdr)

/-- `encode_data`, part 3: what the payload encoder appended and which positions move.
`w0` = the carry, `w` = carry ++ what parts 1/2 wrote, `hdr` = `catable_header_size`. -/
def encPayload (s : St) (ans : Ans) (w0 w : Writer) (hdr : Nat) (isLast forceFlush : Bool) : Out (St × Bool) :=
  let predicted := w.drop w0.length           -- what the skeleton itself appended behind the carry
  let good := decide (predicted.length ≤ ans.bits.length) && ans.result
  let exact := decide (ans.bits.length = predicted.length)
  let s : St := { s with prefixBad := (s.prefixBad || !isPrefixOf' predicted ans.bits) }
  -- the skeleton's own bits, then whatever the payload encoder appended
  let wFull : Writer := w ++ ans.bits.drop predicted.length
  let headerOnly : St := { s with pending := (wholeBytes w).take hdr }
  if w.length / 8 + 2 > s.storageSize then .panic      -- `storage[1 + (storage_ix >> 3)]` after the magic block / prelude
  else if s.params.quality = 0 ∨ s.params.quality = 1 then
    if s.unprocessed = 0 ∧ !isLast then
      .ok ({ headerOnly with oracleBad := (s.oracleBad || !good || !exact) }, true)
    else
      if wFull.length / 8 + 2 > s.storageSize then .panic else
      .ok ({ s with lastBytes := (carryOf wFull).1, lastBytesBits := (carryOf wFull).2, lastProcessedPos := s.inputPos, lastFlushPos := s.inputPos, nextOut := .dyn 0, pending := wholeBytes wFull, oracleBad := (s.oracleBad || !good) }, true)
  else
    if !isLast ∧ !forceFlush ∧ !ans.emit then
      -- keep accumulating this meta-block
      .ok ({ headerOnly with lastProcessedPos := s.inputPos, oracleBad := (s.oracleBad || !good || !exact) }, true)
    else if !isLast ∧ s.inputPos = s.lastFlushPos then
      .ok ({ headerOnly with oracleBad := (s.oracleBad || !good || !ans.emit || !exact) }, true)
    else
      if wFull.length / 8 + 2 > s.storageSize then .panic else
      .ok ({ s with lastBytes := (carryOf wFull).1, lastBytesBits := (carryOf wFull).2, lastFlushPos := s.inputPos, lastProcessedPos := s.inputPos, nextOut := .dyn 0, pending := wholeBytes wFull, oracleBad := (s.oracleBad || !good || !ans.emit) }, true)

/-- the request `encode_data` issues in state `s` -/
def reqOf (s : St) (site : Nat) (isLast forceFlush : Bool) : Req :=
  { site := site, lo := s.lastProcessedPos, hi := s.inputPos, lf := s.lastFlushPos, isLast := isLast, forceFlush := forceFlush }

/-- `get_brotli_storage(size)`: the staging buffer only grows -/
def growStorage (s : St) (want : Nat) : St :=
  if s.storageSize < want then { s with storageSize := want } else s

/-- bookkeeping at the top of `encode_data` once it is past its two `return false` -/
def encStart (s : St) (isLast : Bool) : St :=
  { s with nEnc := s.nEnc + 1, isLastBlockEmitted := (s.isLastBlockEmitted || isLast) }

/-- `encode_data` returning `false` (`is_last` has already been latched in the second case) -/
def encFail (s : St) (ans : Ans) (latch : Bool) : St :=
  { s with nEnc := s.nEnc + 1, isLastBlockEmitted := (s.isLastBlockEmitted || latch), oracleBad := (s.oracleBad || ans.result) }

/-- size asked of `get_brotli_storage` -/
def wantStorage (s : St) : Nat :=
  (2 * max (s.unprocessed % two32) (wsub64 s.inputPos s.lastFlushPos) + 527) % two64

/-- `encode_data` after the magic block: prelude, then payload -/
def encRest (m : St × Writer × Nat) (ans : Ans) (w0 : Writer) (bytes : Nat) (isLast forceFlush : Bool) : Out (St × Bool) :=
  match encPrelude m.1 m.2.1 m.2.2 bytes with
  | .panic => .panic
  | .fuel => .fuel
  | .ok (s2, w, hdr) => encPayload s2 ans w0 w hdr isLast forceFlush

/-- the carry as a bit string: `storage[0..2] = last_bytes_`, `storage_ix = last_bytes_bits_` -/
def St.carry (s : St) : Writer := bitsOf s.lastBytesBits s.lastBytes

/-- `encode_data(is_last, force_flush)` from call site `site`; returns the state, the
function result, and the request it issued -/
def encodeData (o : Oracle) (s : St) (site : Nat) (isLast forceFlush : Bool) : Out (St × Bool × Req) :=
  if s.isLastBlockEmitted then .ok (encFail s (o s.nEnc (reqOf s site isLast forceFlush)) false, false, reqOf s site isLast forceFlush)
  else if s.unprocessed > s.blockSize then .ok (encFail s (o s.nEnc (reqOf s site isLast forceFlush)) isLast, false, reqOf s site isLast forceFlush)
  else if (growStorage (encStart s isLast) (wantStorage s)).storageSize < 2 then .panic
  else
    match encRest (encMagic (growStorage (encStart s isLast) (wantStorage s)) s.carry) (o s.nEnc (reqOf s site isLast forceFlush)) s.carry (s.unprocessed % two32) isLast forceFlush with
    | .panic => .panic
    | .fuel => .fuel
    | .ok (s3, res) => .ok (s3, res, reqOf s site isLast forceFlush)

/-! ### output side -/

/-- bytes `sealV as u8`, `(sealV >> 8) as u8`, `(sealV >> 16) as u8` -/
def sealBytes (sealV nbytes : Nat) : Bytes :=
  (List.range nbytes).map (fun i => (sealV / 256 ^ i) % 256)

/-- `inject_byte_padding_block`: is the seal appended behind pending output (`next_out_` not null
and `available_out_ != 0`, the fixed condition) or staged at the start of `tiny_buf_`? -/
def padAppend (s : St) : Bool :=
  match s.nextOut with
  | .none => false
  | _ => decide (s.pending.length ≠ 0)

/-- the state after the padding block has been staged with output cursor `nx` -/
def padResult (s : St) (nx : NextOut) : St :=
  { s with lastBytes := 0, lastBytesBits := 0, nextOut := nx,
           pending := s.pending ++ sealBytes (s.lastBytes ||| (6 * 2 ^ s.lastBytesBits)) ((s.lastBytesBits + 6 + 7) / 8) }

/-- `inject_byte_padding_block` -/
def injectBytePaddingBlock (s : St) : Out St :=
  if padAppend s then
    match s.nextOut with
    | .dyn off => if off + s.pending.length + (s.lastBytesBits + 6 + 7) / 8 > s.storageSize then .panic else .ok (padResult s s.nextOut)
    | .tiny off => if off + s.pending.length + (s.lastBytesBits + 6 + 7) / 8 > 16 then .panic else .ok (padResult s s.nextOut)
    | .none => .panic
  else .ok (padResult s (.tiny 0))

def nextOutIncrement (n : NextOut) (inc : Nat) : NextOut :=
  match n with
  | .dyn off => .dyn ((off + inc) % two32)
  | .tiny off => .tiny ((off + inc) % two32)
  | .none => .none

/-- caller-side cursors of one `compress_stream` call -/
structure Io where
  input : Bytes := []      -- the bytes offered (`next_in_array[next_in_offset ..]`)
  availIn : Nat := 0
  availOut : Nat := 0
  out : Bytes := []        -- produced so far
  reqs : List Req := []    -- ghost: payload-encoder requests issued in this call
deriving Repr, DecidableEq, Inhabited

def Io.consumed (io : Io) (offered : Nat) : Nat := offered - io.availIn

/-- `inject_flush_or_push_output`; the `Bool` is the function result -/
def injectFlushOrPushOutput (s : St) (io : Io) : Out (St × Io × Bool) :=
  if s.streamState = .flushRequested ∧ s.lastBytesBits ≠ 0 then
    match injectBytePaddingBlock s with
    | .ok s => .ok (s, io, true)
    | .panic => .panic
    | .fuel => .fuel
  else if s.pending.length ≠ 0 ∧ io.availOut ≠ 0 then
    let n := min s.pending.length io.availOut
    let capOk : Bool := match s.nextOut with
      | .dyn off => decide (off + n ≤ s.storageSize)
      | .tiny off => decide (off + n ≤ 16)
      | .none => false
    if !capOk then .panic else
    .ok ({ s with nextOut := nextOutIncrement s.nextOut n, pending := s.pending.drop n, totalOut := (s.totalOut + n) % two64 },
         { io with availOut := io.availOut - n, out := io.out ++ s.pending.take n }, true)
  else .ok (s, io, false)

/-- `check_flush_complete` -/
def checkFlushComplete (s : St) : St :=
  if s.streamState = .flushRequested ∧ s.pending.length = 0 then { s with streamState := .processing, nextOut := .none } else s

/-- how many bytes `take_output(size)` hands out (`size = 0`: everything) -/
def takeCount (s : St) (size : Nat) : Nat := if size ≠ 0 then min size s.pending.length else s.pending.length

/-- `take_output`: cursor, pending bytes and total after handing out `c` bytes -/
def takeAdvance (s : St) (c : Nat) : St :=
  { s with nextOut := nextOutIncrement s.nextOut c, totalOut := (s.totalOut + c) % two64, pending := s.pending.drop c }

/-- `GetNextOut!`: `storage[off..]` / `tiny_buf[off..]` must be a valid slice start -/
def takeSliceOk (s : St) : Bool :=
  match s.nextOut with
  | .dyn off => decide (off ≤ s.storageSize)
  | .tiny off => decide (off ≤ 16)
  | .none => true

/-- `take_output(size)` → (state, bytes handed out) -/
def takeOutput (s : St) (size : Nat) : Out (St × Bytes) :=
  if !takeSliceOk s then .panic
  else if takeCount s size ≠ 0 then
    .ok (checkFlushComplete (takeAdvance s (takeCount s size)), s.pending.take (takeCount s size))
  else .ok (s, [])

def isFinished (s : St) : Bool := s.streamState = .finished ∧ s.pending.length = 0
def hasMoreOutput (s : St) : Bool := s.pending.length ≠ 0

/-- how a loop iteration ends: `continue`, `break`, or `return false` -/
inductive Ctl where
  | cont | brk | fail
deriving Repr, DecidableEq, Inhabited

/-! ### metadata -/

/-- one iteration of the `process_metadata` loop -/
def processMetadataStep (o : Oracle) (s : St) (io : Io) : Out (St × Io × Ctl) :=
  match injectFlushOrPushOutput s io with
  | .panic => .panic
  | .fuel => .fuel
  | .ok (s, io, true) => .ok (s, io, .cont)
  | .ok (s, io, false) =>
    if s.pending.length ≠ 0 then .ok (s, io, .brk)
    else if s.inputPos ≠ s.lastFlushPos then
      match encodeData o s 1 false true with
      | .panic => .panic
      | .fuel => .fuel
      | .ok (s, res, req) =>
        let io := { io with reqs := io.reqs ++ [req] }
        if !res then .ok (s, io, .fail) else .ok (s, io, .cont)
    else if s.streamState = .metadataHead then
      let carry := bitsOf s.lastBytesBits s.lastBytes
      let hdr := metadataHeaderBits s.remainingMetadata carry
      -- BrotliWriteBits stores 8 bytes at `pos >> 3` of the 16-byte tiny_buf_; the last write
      -- (MSKIPLEN, or MSKIPBYTES for an empty block) starts at bit `carry + 6` / `carry + 4`
      if (carry.length + 6) / 8 + 8 > 16 then .panic else
      .ok ({ s with nextOut := .tiny 0, pending := toBytes hdr, lastBytes := 0, lastBytesBits := 0,
                    streamState := .metadataBody }, io, .cont)
    else
      if s.remainingMetadata = 0 then
        .ok ({ s with remainingMetadata := u32Max, streamState := .processing }, io, .brk)
      else if io.availOut ≠ 0 then
        let copy := (min s.remainingMetadata io.availOut) % two32
        if copy > io.input.length then .panic else
        .ok ({ s with remainingMetadata := (s.remainingMetadata + two32 - copy) % two32, totalOut := (s.totalOut + copy) % two64 },
             { io with input := io.input.drop copy, availIn := (io.availIn + two64 - copy) % two64,
                       availOut := io.availOut - copy, out := io.out ++ io.input.take copy }, .cont)
      else
        let copy := min s.remainingMetadata 16
        if copy > io.input.length then .panic else
        .ok ({ s with nextOut := .tiny 0, pending := io.input.take copy,
                      remainingMetadata := (s.remainingMetadata + two32 - copy) % two32 },
             { io with input := io.input.drop copy, availIn := (io.availIn + two64 - copy) % two64 }, .cont)

def processMetadataLoop (o : Oracle) : Nat → St → Io → Out (St × Io × Bool)
  | 0, _, _ => .fuel
  | fuel + 1, s, io =>
    match processMetadataStep o s io with
    | .panic => .panic
    | .fuel => .fuel
    | .ok (s', io', .fail) => .ok (s', io', false)
    | .ok (s', io', .cont) => processMetadataLoop o fuel s' io'
    | .ok (s', io', .brk) => .ok (s', io', true)

/-- `process_metadata` entered from PROCESSING opens a block of `available_in` bytes -/
def mdEnter (s : St) (availIn : Nat) : St :=
  if s.streamState = .processing then { s with remainingMetadata := availIn % two32, streamState := .metadataHead } else s

/-- `process_metadata` -/
def processMetadata (o : Oracle) (fuel : Nat) (s : St) (io : Io) : Out (St × Io × Bool) :=
  if io.availIn > 16777216 then .ok (s, io, false)
  else if (mdEnter s io.availIn).streamState ≠ .metadataHead ∧ (mdEnter s io.availIn).streamState ≠ .metadataBody then
    .ok (mdEnter s io.availIn, io, false)
  else processMetadataLoop o fuel (mdEnter s io.availIn) io

/-! ### the quality 0/1 one-shot-per-block path -/

/-- `compress_stream_fast`: one block handed to `compress_fragment_*` — the bits `ans.bits`
behind the carry, delivered in place (caller's buffer) or staged in `storage_` -/
def fastEncode (s : St) (io : Io) (ans : Ans) (req : Req) (blockSize : Nat) (inplace isLast forceFlush : Bool) : St × Io :=
  let w : Writer := bitsOf s.lastBytesBits s.lastBytes ++ ans.bits
  let outBytes := wholeBytes w
  let st := if isLast then SState.finished else if forceFlush then SState.flushRequested else s.streamState
  let io1 : Io := { io with input := io.input.drop blockSize, availIn := io.availIn - blockSize, reqs := io.reqs ++ [req] }
  if inplace then
    ({ s with nEnc := s.nEnc + 1, oracleBad := (s.oracleBad || !ans.result), totalOut := (s.totalOut + outBytes.length) % two64,
              lastBytes := (carryOf w).1, lastBytesBits := (carryOf w).2, streamState := st },
     { io1 with availOut := io.availOut - outBytes.length, out := io.out ++ outBytes })
  else
    ({ s with nEnc := s.nEnc + 1, oracleBad := (s.oracleBad || !ans.result), nextOut := .dyn 0, pending := outBytes,
              lastBytes := (carryOf w).1, lastBytesBits := (carryOf w).2, streamState := st }, io1)

/-- staging buffer of a block: none when written in place, else `get_brotli_storage(max_out_size)` -/
def fastStorage (s : St) (inplace : Bool) (maxOut : Nat) : St := if inplace then s else growStorage s maxOut

/-- bytes available behind `storage` for that block -/
def fastCap (s1 : St) (io : Io) (inplace : Bool) : Nat := if inplace then io.availOut else s1.storageSize

/-- one iteration of the `compress_stream_fast` loop (`true` = continue, `false` = break) -/
def fastStep (o : Oracle) (op : Nat) (s : St) (io : Io) : Out (St × Io × Bool) :=
  match injectFlushOrPushOutput s io with
  | .panic => .panic
  | .fuel => .fuel
  | .ok (s, io, true) => .ok (s, io, true)
  | .ok (s, io, false) =>
    if s.pending.length = 0 ∧ s.streamState = .processing ∧ (io.availIn ≠ 0 ∨ op ≠ 0) then
      let blockSize := min (2 ^ s.params.lgwin.toNat) io.availIn
      let isLast := decide (io.availIn = blockSize ∧ op = 2)
      let forceFlush := decide (io.availIn = blockSize ∧ op = 1)
      let maxOut := (2 * blockSize + 503) % two64
      if forceFlush ∧ blockSize = 0 then .ok ({ s with streamState := .flushRequested }, io, true)
      else
        let inplace := decide (maxOut ≤ io.availOut)
        let s1 := fastStorage s inplace maxOut
        let cap := fastCap s1 io inplace
        let req : Req := { site := 2, lo := blockSize, hi := s.inputPos, isLast := isLast, forceFlush := forceFlush }
        let ans := o s.nEnc req
        if cap < 2 then .panic
        else if blockSize > io.input.length then .panic
        else if (s.lastBytesBits + ans.bits.length) / 8 + 2 > cap then .panic       -- `storage[1 + (storage_ix >> 3)]`
        else .ok ((fastEncode s1 io ans req blockSize inplace isLast forceFlush).1, (fastEncode s1 io ans req blockSize inplace isLast forceFlush).2, true)
    else .ok (s, io, false)

def fastLoop (o : Oracle) (op : Nat) : Nat → St → Io → Out (St × Io)
  | 0, _, _ => .fuel
  | fuel + 1, s, io =>
    match fastStep o op s io with
    | .panic => .panic
    | .fuel => .fuel
    | .ok (s', io', true) => fastLoop o op fuel s' io'
    | .ok (s', io', false) => .ok (s', io')

/-- `compress_stream_fast` (the command/literal buffer juggling is allocator traffic) -/
def compressStreamFast (o : Oracle) (fuel op : Nat) (s : St) (io : Io) : Out (St × Io × Bool) :=
  if s.params.quality ≠ 0 ∧ s.params.quality ≠ 1 then .ok (s, io, false) else
  match fastLoop o op fuel s io with
  | .ok (s, io) => .ok (checkFlushComplete s, io, true)
  | .panic => .panic
  | .fuel => .fuel

/-! ### the main loop -/

/-- `if force_flush { FLUSH_REQUESTED } if is_last { FINISHED }` after a successful `encode_data` -/
def markAfterEncode (s : St) (isLast forceFlush : Bool) : St :=
  if isLast then { s with streamState := .finished }
  else if forceFlush then { s with streamState := .flushRequested } else s

/-- one iteration of the `compress_stream` loop -/
def slowStep (o : Oracle) (op : Nat) (s : St) (io : Io) : Out (St × Io × Ctl) :=
  let rbs := remainingInputBlockSize s
  if rbs ≠ 0 ∧ io.availIn ≠ 0 then
    let n := min rbs io.availIn
    if n > io.input.length then .panic else
    match copyInputToRingBuffer s (io.input.take n) io.input.length with
    | .ok s => .ok (s, { io with input := io.input.drop n, availIn := io.availIn - n }, .cont)
    | .panic => .panic
    | .fuel => .fuel
  else
  match injectFlushOrPushOutput s io with
  | .panic => .panic
  | .fuel => .fuel
  | .ok (s, io, true) => .ok (s, io, .cont)
  | .ok (s, io, false) =>
    if s.pending.length = 0 ∧ s.streamState = .processing ∧ (rbs = 0 ∨ op ≠ 0) then
      let isLast := decide (io.availIn = 0 ∧ op = 2)
      let forceFlush := decide (io.availIn = 0 ∧ op = 1)
      let s := updateSizeHint s io.availIn
      match encodeData o s 0 isLast forceFlush with
      | .panic => .panic
      | .fuel => .fuel
      | .ok (s, res, req) =>
        let io := { io with reqs := io.reqs ++ [req] }
        if !res then .ok (s, io, .fail) else .ok (markAfterEncode s isLast forceFlush, io, .cont)
    else .ok (s, io, .brk)

def slowLoop (o : Oracle) (op : Nat) : Nat → St → Io → Out (St × Io × Bool)
  | 0, _, _ => .fuel
  | fuel + 1, s, io =>
    match slowStep o op s io with
    | .panic => .panic
    | .fuel => .fuel
    | .ok (s', io', .fail) => .ok (s', io', false)
    | .ok (s', io', .cont) => slowLoop o op fuel s' io'
    | .ok (s', io', .brk) => .ok (checkFlushComplete s', io', true)

/-- `compress_stream(op, available_in = input.length, next_in = input, available_out = cap)`;
`op`: 0 PROCESS, 1 FLUSH, 2 FINISH, 3 EMIT_METADATA.  Result: state, cursors, return value. -/
def compressStream (o : Oracle) (fuel : Nat) (s : St) (op : Nat) (input : Bytes) (cap : Nat) : Out (St × Io × Bool) :=
  let s := ensureInitialized s
  let io : Io := { input := input, availIn := input.length, availOut := cap }
  if s.remainingMetadata ≠ u32Max ∧ (io.availIn ≠ s.remainingMetadata ∨ op ≠ 3) then .ok (s, io, false)
  else if op = 3 then processMetadata o fuel (updateSizeHint s 0) io
  else if s.streamState = .metadataHead ∨ s.streamState = .metadataBody then .ok (s, io, false)
  else if s.streamState ≠ .processing ∧ io.availIn ≠ 0 then .ok (s, io, false)
  else if (s.params.quality = 0 ∨ s.params.quality = 1) ∧ !s.params.catable ∧ !s.params.magic then
    compressStreamFast o fuel op s io
  else slowLoop o op fuel s io

/-- enough fuel for one call: every iteration consumes input, output room, pending bytes, a
padding obligation or a state rank (proved in `Lemmas/StreamTerm`) -/
def callFuel (s : St) (inLen cap : Nat) : Nat := 4 * inLen + 2 * (s.pending.length + 4) + 2 * cap + 64

/-! ### hypotheses about oracles -/

/-- what the correspondence run checks of every recorded answer -/
structure OracleOK (o : Oracle) : Prop where
  result_true : ∀ k r, (o k r).result = true
  emits_when_forced : ∀ k r, (r.isLast ∨ r.forceFlush) → (o k r).emit = true
  fits : ∀ k r, (o k r).bits.length ≤ 8 * (2 * (if r.site = 2 then r.lo else max (r.hi - r.lo) (r.hi - r.lf)) + 500)

/-- the oracle does not look at the invocation counter (it is a function of the request) -/
def Oracle.Functional (o : Oracle) : Prop := ∀ k k' r, o k r = o k' r

end BV.Stream
