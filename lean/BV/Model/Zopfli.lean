/-
M13d `Zopfli` — executable model of the quality 10 / 11 command generation
(`src/enc/backward_references/hq.rs`, `hash_to_binary_tree.rs`): the counterpart of BV/Model/Cbr.lean.

Mirrored
* `ZopfliNode` accessors (`copy_length`, `length_code`, `distance_code`, `command_length`), `Union1`;
* `BrotliZopfliCreateCommands` (walk along the `next` offsets; insert / copy length, length code,
  `is_dictionary = distance > min(block_start + pos, max_backward_limit) + gap` with `gap = 0`, the
  distance-cache rotation for `!is_dictionary && dist_code > 0`, `Command::init`, the
  `last_insert_len` head and tail);
* `ComputeShortestPathFromNodes` (tail skipping, backward walk writing `next`);
* `ComputeDistanceShortcut`, `ComputeDistanceCache`, `StartPosQueue::{push, at, size}`, `EvaluateNode`,
  `ComputeMinimumCopyLength`, `UpdateZopfliNode`, `UpdateNodes` (the sixteen distance-cache probes
  with their `break` / `continue` conditions and the byte comparison `FindMatchLengthWithLimit`
  against the ring, then the matches of the match finder for the first two queue entries);
* `BrotliZopfliComputeShortestPath` / `BrotliCreateZopfliBackwardReferences` (quality 10) and
  `ZopfliIterate` / `BrotliCreateHqZopfliBackwardReferences` (quality 11: the matches are collected
  once into a flat array + per-position counts, then two path computations) with the `skip` logic;
* `StoreAndFindMatchesH10` / `FindAllMatchesH10` / `StoreRange` of H10 (binary tree over a forest
  array; the static-dictionary matches of `BrotliFindAllStaticDictionaryMatches` are a recorded
  oracle `dictAt`), as one instance `h10Ops` of the abstract `MatcherOps`.

The COST MODEL (`ZopfliCostModel`, all `floatX` arithmetic) is abstract: costs are values of an
arbitrary type `K` with arbitrary operations `CostOps K`; the cost arrays are arbitrary.  Every
comparison the code makes on floats is made through `CostOps`; nothing is assumed about them here.
(BV/Drive/Zopfli.lean instantiates `K` with `Float32`.)

Conventions as in BV/Model/MatchFinder.lean (`Option` = panic, `usize = u64`, `u32` fields are kept
reduced `% U32`, `wrapping_sub` is `wsub`).  Positions are `Nat`s below 2^63 (no `usize` wrap in `+`).
Loops are fuel-bounded; running out of fuel (`none`) stands for the livelock / `commands[i]` overflow
of the Rust loop.  The `commands` output slice is assumed large enough.  `i32 + i32` overflow in the
distance-cache probe (a debug-build panic, a wrap in release) is `none`.
-/
import BV.Model.MatchFinder

namespace BV.Zopfli
open BV.Hasher BV.MatchFinder BV.Recoder BV.PrefixArith BV.Gen

/-! ## nodes -/

/-- `Union1` over an abstract cost type -/
inductive U (K : Type) where
  | cost (c : K)
  | next (n : Nat)
  | shortcut (n : Nat)

/-- `ZopfliNode`; the three `u32` fields are kept below 2^32 by every writer -/
structure Node (K : Type) where
  length : Nat
  distance : Nat
  dcil : Nat          -- `dcode_insert_length`
  u : U K

/-- `a.wrapping_sub(b)` on `u32` -/
def wsub32 (a b : Nat) : Nat := (a + U32 - b % U32) % U32

namespace Node
variable {K : Type}

def copyLength (n : Node K) : Nat := n.length &&& 0x01ffffff
def insertLength (n : Node K) : Nat := n.dcil &&& 0x07ffffff
def shortCode (n : Node K) : Nat := n.dcil >>> 27
/-- `copy_length().wrapping_add(9).wrapping_sub(self.length >> 25)` -/
def lengthCode (n : Node K) : Nat := wsub32 ((n.copyLength + 9) % U32) (n.length >>> 25)
/-- `distance_code()` -/
def distanceCode (n : Node K) : Nat :=
  if n.shortCode = 0 then wsub32 ((n.distance + 16) % U32) 1 else n.shortCode - 1
/-- `command_length()` -/
def commandLength (n : Node K) : Nat := (n.copyLength + n.insertLength) % U32
def nextOf (n : Node K) : Nat := match n.u with | .next o => o | _ => 0
def shortcutOf (n : Node K) : Nat := match n.u with | .shortcut o => o | _ => 0

end Node

/-! ## `BrotliZopfliCreateCommands` -/

/-- loop state of `BrotliZopfliCreateCommands` -/
structure CC where
  pos : Nat
  offset : Nat
  first : Bool          -- `i == 0`
  cache : List Int
  lastInsertLen : Nat
  numLiterals : Nat

/-- the body of `while offset != !0`: the command written to `commands[i]` and the new state -/
def ccStep {K : Type} (np nd blockStart maxBackwardLimit : Nat) (nodes : Array (Node K)) (s : CC) :
    Option (Cmd × CC) :=
  match nodes[s.pos + s.offset]? with
  | none => none
  | some nx =>
    let copyLength := nx.copyLength
    let il := nx.insertLength
    let pos := s.pos + il
    let insertLength := if s.first then il + s.lastInsertLen else il
    let distance := nx.distance
    let maxDistance := min (blockStart + pos) maxBackwardLimit
    let isDictionary := distance > maxDistance          -- `gap = 0`
    let distCode := nx.distanceCode
    let cmd := commandInit np nd insertLength copyLength nx.lengthCode distCode
    let cache' : Option (List Int) :=
      if ¬ isDictionary ∧ distCode > 0 then
        match s.cache with
        | c0 :: c1 :: c2 :: _ :: rest => some (toI32 distance :: c0 :: c1 :: c2 :: rest)
        | _ => none                                     -- `dist_cache[3]`
      else some s.cache
    match cache' with
    | none => none
    | some cache' =>
      some (cmd, { pos := pos + copyLength, offset := nx.nextOf, first := false, cache := cache',
                   lastInsertLen := if s.first then 0 else s.lastInsertLen,
                   numLiterals := s.numLiterals + insertLength })

def ccLoop {K : Type} (np nd blockStart maxBackwardLimit : Nat) (nodes : Array (Node K)) :
    Nat → CC → Option (List Cmd × CC)
  | 0, _ => none
  | fuel + 1, s =>
    if s.offset = 0xffffffff then some ([], s)
    else
      match ccStep np nd blockStart maxBackwardLimit nodes s with
      | none => none
      | some (cmd, s') =>
        match ccLoop np nd blockStart maxBackwardLimit nodes fuel s' with
        | none => none
        | some (cs, s'') => some (cmd :: cs, s'')

/-- what one command-generation call hands back -/
structure CmdResult where
  cmds : List Cmd
  cache : List Int
  lastInsertLen : Nat
  numLiterals : Nat
deriving Repr

/-- `BrotliZopfliCreateCommands(num_bytes, block_start, max_backward_limit, nodes, dist_cache, last_insert_len, params, commands, num_literals)` -/
def zopfliCreateCommands {K : Type} (np nd numBytes blockStart maxBackwardLimit : Nat) (nodes : Array (Node K))
    (cache : List Int) (lastInsertLen numLiterals : Nat) : Option CmdResult :=
  match nodes[0]? with
  | none => none
  | some n0 =>
    match ccLoop np nd blockStart maxBackwardLimit nodes (numBytes + 2)
        ⟨0, n0.nextOf, true, cache, lastInsertLen, numLiterals⟩ with
    | none => none
    | some (cmds, s) =>
      some ⟨cmds, s.cache, s.lastInsertLen + wsub numBytes s.pos, s.numLiterals⟩

/-! ## `ComputeShortestPathFromNodes` -/

/-- `while (nodes[index].dcode_insert_length & 0x7ffffff) == 0 && nodes[index].length == 1 { index -= 1 }`
(`index` wrapping below 0 indexes out of range) -/
def skipTail {K : Type} (nodes : Array (Node K)) : Nat → Option Nat
  | 0 =>
    match nodes[0]? with
    | none => none
    | some n => if n.insertLength = 0 ∧ n.length = 1 then none else some 0
  | i + 1 =>
    match nodes[i + 1]? with
    | none => none
    | some n => if n.insertLength = 0 ∧ n.length = 1 then skipTail nodes i else some (i + 1)

def setU {K : Type} (nodes : Array (Node K)) (i : Nat) (u : U K) : Option (Array (Node K)) :=
  match nodes[i]? with
  | none => none
  | some n => some (nodes.set! i { n with u := u })

/-- `while index != 0 { len = command_length; index -= len; nodes[index].u = next(len); num_commands += 1 }` -/
def backWalk {K : Type} : Nat → Array (Node K) → Nat → Nat → Option (Array (Node K) × Nat)
  | 0, _, _, _ => none
  | fuel + 1, nodes, index, n =>
    if index = 0 then some (nodes, n)
    else
      match nodes[index]? with
      | none => none
      | some nd =>
        let len := nd.commandLength
        if len > index then none                    -- `index.wrapping_sub(len)` is out of range
        else
          match setU nodes (index - len) (.next len) with
          | none => none
          | some nodes => backWalk fuel nodes (index - len) (n + 1)

/-- `ComputeShortestPathFromNodes(num_bytes, nodes)`: the nodes with the `next` chain, `num_commands` -/
def computeShortestPathFromNodes {K : Type} (numBytes : Nat) (nodes : Array (Node K)) :
    Option (Array (Node K) × Nat) :=
  match skipTail nodes numBytes with
  | none => none
  | some index =>
    match setU nodes index (.next 0xffffffff) with
    | none => none
    | some nodes => backWalk (numBytes + 2) nodes index 0

/-! ## the cost model (abstract) -/

/-- the float operations the code uses, over an arbitrary carrier -/
structure CostOps (K : Type) where
  zero : K
  one : K
  inf : K                    -- `kInfinity`
  add : K → K → K
  sub : K → K → K
  le : K → K → Bool
  lt : K → K → Bool
  ofNat : Nat → K            -- `x as floatX`

/-- `ZopfliCostModel`: the arrays are arbitrary -/
structure CostModel (K : Type) where
  costCmd : Array K
  costDist : Array K
  literalCosts : Array K
  minCostCmd : K

def stub {K : Type} (ops : CostOps K) : Node K := ⟨1, 0, 0, .cost ops.inf⟩

/-- `BrotliInitZopfliNodes(array, num_bytes + 1)` on a fresh allocation -/
def initNodes {K : Type} (ops : CostOps K) (numBytes : Nat) : Array (Node K) :=
  Array.replicate (numBytes + 1) (stub ops)

/-- `match nodes[i].u { Union1::cost(c) => c, _ => 0.0 }` -/
def costOf {K : Type} (ops : CostOps K) (n : Node K) : K := match n.u with | .cost c => c | _ => ops.zero

/-- `get_literal_costs(from, to)` -/
def litCost {K : Type} (ops : CostOps K) (m : CostModel K) (a b : Nat) : Option K :=
  match m.literalCosts[b]?, m.literalCosts[a]? with
  | some x, some y => some (ops.sub x y)
  | _, _ => none

/-! ## `ComputeDistanceShortcut`, `ComputeDistanceCache` -/

/-- `ComputeDistanceShortcut(block_start, pos, max_backward, gap = 0, nodes)` -/
def computeDistanceShortcut {K : Type} (blockStart pos maxBackward : Nat) (nodes : Array (Node K)) : Option Nat :=
  match nodes[pos]? with
  | none => none
  | some n =>
    if pos = 0 then some 0
    else if n.distance + n.copyLength ≤ blockStart + pos ∧ n.distance ≤ maxBackward ∧ n.distanceCode > 0 then
      some (pos % U32)
    else
      match nodes[wsub (wsub pos n.copyLength) n.insertLength]? with
      | none => none
      | some m => some m.shortcutOf

/-- `while idx < 4 && p > 0 { dist_cache[idx++] = nodes[p].distance as i32; p = nodes[p - clen - ilen].shortcut }` -/
def cdcLoop {K : Type} (nodes : Array (Node K)) : Nat → Nat → Option (List Int)
  | 0, _ => some []
  | n + 1, p =>
    if p = 0 then some []
    else
      match nodes[p]? with
      | none => none
      | some nd =>
        match nodes[wsub (wsub p nd.copyLength) nd.insertLength]? with
        | none => none
        | some m => (cdcLoop nodes n m.shortcutOf).map (toI32 nd.distance :: ·)

/-- `ComputeDistanceCache(pos, starting_dist_cache, nodes, dist_cache)` -/
def computeDistanceCache {K : Type} (pos : Nat) (starting : List Int) (nodes : Array (Node K)) : Option (List Int) :=
  match nodes[pos]? with
  | none => none
  | some n =>
    match cdcLoop nodes 4 n.shortcutOf with
    | none => none
    | some ds =>
      if starting.length < 4 - ds.length then none      -- `starting_dist_cache.split_at(1)`
      else some (ds ++ starting.take (4 - ds.length))

/-! ## `StartPosQueue` -/

structure PosData (K : Type) where
  pos : Nat
  cache : List Int
  costdiff : K
  cost : K

structure Queue (K : Type) where
  q : Array (PosData K)
  idx : Nat

def Queue.empty {K : Type} (ops : CostOps K) : Queue K :=
  ⟨Array.replicate 8 ⟨0, [0, 0, 0, 0], ops.zero, ops.zero⟩, 0⟩

def Queue.size {K : Type} (q : Queue K) : Nat := min q.idx 8

/-- `&self.q_[k.wrapping_sub(self.idx_) & 7]` -/
def Queue.at {K : Type} (q : Queue K) (k : Nat) : Option (PosData K) := q.q[(wsub k q.idx) &&& 7]?

/-- the bubble loop of `push` -/
def pushLoop {K : Type} (ops : CostOps K) : Nat → Nat → Array (PosData K) → Option (Array (PosData K))
  | 0, _, q => some q
  | n + 1, off, q =>
    match q[off &&& 7]?, q[(off + 1) &&& 7]? with
    | some a, some b =>
      let q := if ops.lt b.costdiff a.costdiff then (q.set! (off &&& 7) b).set! ((off + 1) &&& 7) a else q
      pushLoop ops n (off + 1) q
    | _, _ => none

/-- `StartPosQueue::push` -/
def Queue.push {K : Type} (ops : CostOps K) (q : Queue K) (pd : PosData K) : Option (Queue K) :=
  let offset := (U64 - 1 - q.idx % U64) &&& 7          -- `!self.idx_ & 7`
  let idx := q.idx + 1
  let len := min idx 8
  if offset < q.q.size then
    match pushLoop ops (len - 1) offset (q.q.set! offset pd) with
    | none => none
    | some qq => some ⟨qq, idx⟩
  else none

/-! ## `EvaluateNode` -/

/-- `EvaluateNode(block_start, pos, max_backward_limit, gap = 0, starting_dist_cache, model, queue, nodes)` -/
def evaluateNode {K : Type} (ops : CostOps K) (m : CostModel K) (blockStart pos maxBackwardLimit : Nat)
    (starting : List Int) (queue : Queue K) (nodes : Array (Node K)) : Option (Queue K × Array (Node K)) :=
  match nodes[pos]? with
  | none => none
  | some n =>
    let nodeCost := costOf ops n
    match computeDistanceShortcut blockStart pos maxBackwardLimit nodes with
    | none => none
    | some sc =>
      let nodes := nodes.set! pos { n with u := .shortcut sc }
      match litCost ops m 0 pos with
      | none => none
      | some lc =>
        if ops.le nodeCost lc then
          match computeDistanceCache pos starting nodes with
          | none => none
          | some dc =>
            match queue.push ops ⟨pos, dc, ops.sub nodeCost lc, nodeCost⟩ with
            | none => none
            | some queue => some (queue, nodes)
        else some (queue, nodes)

/-! ## `UpdateNodes` -/

/-- `ComputeMinimumCopyLength(start_cost, nodes, num_bytes, pos)` -/
def minLenLoop {K : Type} (ops : CostOps K) (nodes : Array (Node K)) (numBytes pos : Nat) :
    Nat → K → Nat → Nat → Nat → Option Nat
  | 0, _, _, _, _ => none
  | fuel + 1, minCost, len, bucket, offset =>
    if pos + len ≤ numBytes then
      match nodes[pos + len]? with
      | none => none
      | some n =>
        if ops.le (costOf ops n) minCost then
          let len := len + 1
          if len = offset then minLenLoop ops nodes numBytes pos fuel (ops.add minCost ops.one) len (bucket * 2) (offset + bucket)
          else minLenLoop ops nodes numBytes pos fuel minCost len bucket offset
        else some len
    else some len

def computeMinimumCopyLength {K : Type} (ops : CostOps K) (startCost : K) (nodes : Array (Node K))
    (numBytes pos : Nat) : Option Nat :=
  minLenLoop ops nodes numBytes pos (numBytes + 2) startCost 2 4 10

/-- `UpdateZopfliNode(nodes, pos, start_pos, len, len_code, dist, short_code, cost)` -/
def updateZopfliNode {K : Type} (nodes : Array (Node K)) (pos start len lenCode dist shortCode : Nat) (cost : K) :
    Option (Array (Node K)) :=
  if pos + len < nodes.size then
    some (nodes.set! (pos + len)
      { length := (len ||| (wsub (len + 9) lenCode <<< 25)) % U32
        distance := dist % U32
        dcil := (wsub pos start % U32) ||| ((shortCode <<< 27) % U32)
        u := .cost cost })
  else none

def kDistanceCacheIndex : List Nat := [0, 1, 2, 3, 0, 0, 0, 0, 0, 0, 1, 1, 1, 1, 1, 1]
def kDistanceCacheOffset : List Int := [0, 0, 0, 0, -1, 1, -2, 2, -3, 3, -1, 1, -2, 2, -3, 3]

/-- the parameters `UpdateNodes` reads -/
structure Params where
  quality : Nat
  lgwin : Nat
  /-- `params.dist.max_distance` -/
  maxDistance : Nat
  npostfix : Nat
  ndirect : Nat

def maxBackwardLimit (p : Params) : Nat := (1 <<< p.lgwin) - 16
def maxZopfliLen (p : Params) : Nat := if p.quality ≤ 10 then 150 else 325
def maxZopfliCandidates (p : Params) : Nat := if p.quality ≤ 10 then 1 else 5

/-- running state inside `UpdateNodes` -/
structure UN (K : Type) where
  nodes : Array (Node K)
  result : Nat

/-- `for l in best_len + 1 ..= len { … }` of a distance-cache probe (`cnt` = number of iterations left, `l` = current) -/
def cacheLens {K : Type} (ops : CostOps K) (m : CostModel K) (pos start inscode j backward : Nat)
    (baseCost distCost : K) : Nat → Nat → UN K → Option (UN K)
  | 0, _, s => some s
  | cnt + 1, l, s =>
    let copycode := getCopyLengthCode l
    let cmdcode := combineLengthCodes inscode copycode (j == 0)
    match m.costCmd[cmdcode]?, s.nodes[pos + l]? with
    | some cc, some n =>
      let cost := ops.add (ops.add (if cmdcode < 128 then baseCost else distCost) (ops.ofNat (kCopyExtra.getD copycode 0))) cc
      if ops.lt cost (costOf ops n) then
        match updateZopfliNode s.nodes pos start l l backward (j + 1) cost with
        | none => none
        | some nodes => cacheLens ops m pos start inscode j backward baseCost distCost cnt (l + 1) ⟨nodes, max s.result l⟩
      else cacheLens ops m pos start inscode j backward baseCost distCost cnt (l + 1) s
    | _, _ => none

/-- one iteration `j` of the distance-cache loop: (break?, best_len, state) -/
def cacheProbe {K : Type} (ops : CostOps K) (m : CostModel K) (data : ByteArray) (mask curIx maxDistance maxLen pos start inscode : Nat)
    (pcache : List Int) (baseCost : K) (j : Nat) (bestLen : Nat) (s : UN K) : Option (Bool × Nat × UN K) :=
  if bestLen ≥ maxLen then some (true, bestLen, s)
  else
    let cm := curIx &&& mask
    match pcache[(kDistanceCacheIndex.getD j 0) &&& 3]? with
    | none => none
    | some ci =>
      let b : Int := ci + kDistanceCacheOffset.getD j 0
      if b < -(2 ^ 31 : Int) ∨ b ≥ (2 ^ 31 : Int) then none          -- `i32 + i32` overflow
      else
        let backward := i32ToUsize b
        let prevIx := wsub curIx backward
        match byteAt data (cm + bestLen) with
        | none => none
        | some continuation =>
          if cm + bestLen > mask then some (true, bestLen, s)
          else if backward > maxDistance then some (false, bestLen, s)
          else if prevIx ≥ curIx then some (false, bestLen, s)
          else
            let prevM := prevIx &&& mask
            if prevM + bestLen > mask then some (false, bestLen, s)
            else
              match byteAt data (prevM + bestLen) with
              | none => none
              | some pb =>
                if continuation ≠ pb then some (false, bestLen, s)
                else
                  match findMatchLengthWithLimit data prevM cm maxLen, m.costDist[j]? with
                  | some len, some dcost =>
                    let distCost := ops.add baseCost dcost
                    match cacheLens ops m pos start inscode j backward baseCost distCost (len - bestLen) (bestLen + 1) s with
                    | none => none
                    | some s' => some (false, max bestLen len, s')
                  | _, _ => none

/-- `for j in 0..16` with its `break` -/
def cacheLoop {K : Type} (ops : CostOps K) (m : CostModel K) (data : ByteArray) (mask curIx maxDistance maxLen pos start inscode : Nat)
    (pcache : List Int) (baseCost : K) : Nat → Nat → Nat → UN K → Option (UN K)
  | 0, _, _, s => some s
  | cnt + 1, j, bestLen, s =>
    match cacheProbe ops m data mask curIx maxDistance maxLen pos start inscode pcache baseCost j bestLen s with
    | none => none
    | some (true, _, s) => some s
    | some (false, bestLen, s) =>
      cacheLoop ops m data mask curIx maxDistance maxLen pos start inscode pcache baseCost cnt (j + 1) bestLen s

/-- `BackwardMatch`: `distance`, `length_and_code` -/
structure Match where
  distance : Nat
  lac : Nat
deriving Repr, DecidableEq, Inhabited

def Match.length (x : Match) : Nat := x.lac >>> 5
def Match.lengthCode (x : Match) : Nat := if x.lac &&& 31 ≠ 0 then x.lac &&& 31 else x.length
/-- `BackwardMatchMut::init` -/
def Match.init (dist len : Nat) : Match := ⟨dist % U32, (len <<< 5) % U32⟩
/-- `BackwardMatchMut::init_dictionary` -/
def Match.initDictionary (dist len lenCode : Nat) : Match :=
  ⟨dist % U32, ((len <<< 5) ||| (if len = lenCode then 0 else lenCode)) % U32⟩

/-- `while len <= max_match_len { … len += 1 }` for one match -/
def matchLens {K : Type} (ops : CostOps K) (m : CostModel K) (pos start inscode : Nat) (isDict : Bool)
    (mlc dist : Nat) (distCost : K) : Nat → Nat → UN K → Option (UN K)
  | 0, _, s => some s
  | cnt + 1, len, s =>
    let lenCode := if isDict then mlc else len
    let copycode := getCopyLengthCode lenCode
    let cmdcode := combineLengthCodes inscode copycode false
    match m.costCmd[cmdcode]?, s.nodes[pos + len]? with
    | some cc, some n =>
      let cost := ops.add (ops.add distCost (ops.ofNat (kCopyExtra.getD copycode 0))) cc
      let upd : Bool := match n.u with | .cost nc => ops.lt cost nc | _ => false
      if upd then
        match updateZopfliNode s.nodes pos start len lenCode dist 0 cost with
        | none => none
        | some nodes => matchLens ops m pos start inscode isDict mlc dist distCost cnt (len + 1) ⟨nodes, max s.result len⟩
      else matchLens ops m pos start inscode isDict mlc dist distCost cnt (len + 1) s
    | _, _ => none

/-- one match `j` of the match loop: the new `len` and state -/
def matchStep {K : Type} (ops : CostOps K) (m : CostModel K) (p : Params) (maxDistance pos start inscode : Nat)
    (baseCost : K) (x : Match) (len : Nat) (s : UN K) : Option (Nat × UN K) :=
  let dist := x.distance
  let isDict := decide (dist > maxDistance)
  let dc := prefixEncodeCopyDistance (dist + 15) p.ndirect p.npostfix
  match m.costDist[dc.packed &&& 0x3ff]? with
  | none => none
  | some dcost =>
    let distCost := ops.add (ops.add baseCost (ops.ofNat (dc.packed >>> 10))) dcost
    let mml := x.length
    let len := if len < mml ∧ (isDict ∨ mml > maxZopfliLen p) then mml else len
    match matchLens ops m pos start inscode isDict x.lengthCode dist distCost (mml + 1 - len) len s with
    | none => none
    | some s' => some (max len (mml + 1), s')

def matchLoop {K : Type} (ops : CostOps K) (m : CostModel K) (p : Params) (maxDistance pos start inscode : Nat)
    (baseCost : K) : List Match → Nat → UN K → Option (UN K)
  | [], _, s => some s
  | x :: xs, len, s =>
    match matchStep ops m p maxDistance pos start inscode baseCost x len s with
    | none => none
    | some (len, s) => matchLoop ops m p maxDistance pos start inscode baseCost xs len s

/-- the body of `for k in 0..min(MaxZopfliCandidates, queue.size())` -/
def candidate {K : Type} (ops : CostOps K) (m : CostModel K) (p : Params) (data : ByteArray) (mask numBytes blockStart pos : Nat)
    (mlist : List Match) (minLen : Nat) (queue : Queue K) (k : Nat) (s : UN K) : Option (UN K) :=
  let curIx := blockStart + pos
  let maxDistance := min curIx (maxBackwardLimit p)
  let maxLen := wsub numBytes pos
  match queue.at k, litCost ops m 0 pos with
  | some pd, some lc0 =>
    let start := pd.pos
    let inscode := getInsertLengthCode (wsub pos start)
    let baseCost := ops.add (ops.add pd.costdiff (ops.ofNat (kInsExtra.getD inscode 0))) lc0
    match cacheLoop ops m data mask curIx maxDistance maxLen pos start inscode pd.cache baseCost 16 0 (wsub minLen 1) s with
    | none => none
    | some s =>
      if k ≥ 2 then some s
      else matchLoop ops m p maxDistance pos start inscode baseCost mlist minLen s
  | _, _ => none

/-- `UpdateNodes(num_bytes, block_start, pos, ringbuffer, mask, params, max_backward_limit, starting_dist_cache,
num_matches, matches, model, queue, nodes)`: (`result`, queue, nodes) -/
def updateNodes {K : Type} (ops : CostOps K) (m : CostModel K) (p : Params) (data : ByteArray) (mask numBytes blockStart pos : Nat)
    (starting : List Int) (mlist : List Match) (queue : Queue K) (nodes : Array (Node K)) :
    Option (Nat × Queue K × Array (Node K)) :=
  match evaluateNode ops m blockStart pos (maxBackwardLimit p) starting queue nodes with
  | none => none
  | some (queue, nodes) =>
    match queue.at 0 with
    | none => none
    | some pd0 =>
      match litCost ops m pd0.pos pos with
      | none => none
      | some lc =>
        match computeMinimumCopyLength ops (ops.add (ops.add pd0.cost m.minCostCmd) lc) nodes numBytes pos with
        | none => none
        | some minLen =>
          match forRange (candidate ops m p data mask numBytes blockStart pos mlist minLen queue) 0
              (min (maxZopfliCandidates p) queue.size) ⟨nodes, 0⟩ with
          | none => none
          | some s => some (s.result, queue, s.nodes)

/-! ## the match finder as the path computation sees it -/

/-- H10 through its two entry points; data, mask, dictionary and params are closed over -/
structure MatcherOps (M : Type) where
  /-- `FindAllMatchesH10(handle, dictionary, data, mask, cur_ix, max_length, max_backward, gap = 0, params, matches)` -/
  findAll : M → Nat → Nat → Nat → Option (List Match × M)
  /-- `StoreRange(data, mask, ix_start, ix_end)` -/
  storeRange : M → Nat → Nat → Option M

def HASH_TYPE_LENGTH : Nat := 4
def STORE_LOOKAHEAD : Nat := 128

def storeEnd (numBytes position : Nat) : Nat :=
  if numBytes ≥ STORE_LOOKAHEAD then position + numBytes - STORE_LOOKAHEAD + 1 else position

/-- the `while skip != 0 { i += 1; if i + 3 >= num_bytes { break } EvaluateNode(i); skip -= 1 }` loop
(`after` is applied to the state after each evaluated node: `cur_match_pos += num_matches[i]` in `ZopfliIterate`) -/
def skipLoop {K : Type} (ops : CostOps K) (m : CostModel K) (p : Params) (numBytes position : Nat) (starting : List Int) :
    Nat → Nat → Queue K → Array (Node K) → Option (Nat × Queue K × Array (Node K))
  | 0, i, q, nodes => some (i, q, nodes)
  | skip + 1, i, q, nodes =>
    let i := i + 1
    if i + 3 ≥ numBytes then some (i, q, nodes)
    else
      match evaluateNode ops m position i (maxBackwardLimit p) starting q nodes with
      | none => none
      | some (q, nodes) => skipLoop ops m p numBytes position starting skip i q nodes

/-- loop state of `BrotliZopfliComputeShortestPath` -/
structure SP (K M : Type) where
  i : Nat
  h : M
  queue : Queue K
  nodes : Array (Node K)

/-- one iteration of `while i + HashTypeLength - 1 < num_bytes` (quality 10) -/
def spStep {K M : Type} (ops : CostOps K) (mo : MatcherOps M) (m : CostModel K) (p : Params) (data : ByteArray)
    (mask numBytes position : Nat) (starting : List Int) (s : SP K M) : Option (SP K M) :=
  let pos := position + s.i
  let maxDistance := min pos (maxBackwardLimit p)
  match mo.findAll s.h pos (wsub numBytes s.i) maxDistance with
  | none => none
  | some (ms, h) =>
    let ms := match ms.getLast? with
      | some l => if l.length > maxZopfliLen p then [l] else ms
      | none => ms
    match updateNodes ops m p data mask numBytes position s.i starting ms s.queue s.nodes with
    | none => none
    | some (skip, queue, nodes) =>
      let skip := if skip < 16384 then 0 else skip
      let skip := match ms with
        | [x] => if x.length > maxZopfliLen p then max x.length skip else skip
        | _ => skip
      if skip > 1 then
        match mo.storeRange h (pos + 1) (min (pos + skip) (storeEnd numBytes position)) with
        | none => none
        | some h =>
          match skipLoop ops m p numBytes position starting (skip - 1) s.i queue nodes with
          | none => none
          | some (i, queue, nodes) => some ⟨i + 1, h, queue, nodes⟩
      else some ⟨s.i + 1, h, queue, nodes⟩

def spLoop {K M : Type} (ops : CostOps K) (mo : MatcherOps M) (m : CostModel K) (p : Params) (data : ByteArray)
    (mask numBytes position : Nat) (starting : List Int) : Nat → SP K M → Option (SP K M)
  | 0, _ => none
  | fuel + 1, s =>
    if s.i + HASH_TYPE_LENGTH - 1 < numBytes then
      match spStep ops mo m p data mask numBytes position starting s with
      | none => none
      | some s' => spLoop ops mo m p data mask numBytes position starting fuel s'
    else some s

/-- `nodes[0].length = 0; nodes[0].u = cost(0.0)` -/
def initNode0 {K : Type} (ops : CostOps K) (nodes : Array (Node K)) : Option (Array (Node K)) :=
  match nodes[0]? with
  | none => none
  | some n => some (nodes.set! 0 { n with length := 0, u := .cost ops.zero })

/-- `BrotliZopfliComputeShortestPath` (the cost model is handed in instead of being set from the literal costs) -/
def zopfliComputeShortestPath {K M : Type} (ops : CostOps K) (mo : MatcherOps M) (m : CostModel K) (p : Params)
    (data : ByteArray) (mask numBytes position : Nat) (starting : List Int) (h : M) (nodes : Array (Node K)) :
    Option (Array (Node K) × Nat × M) :=
  match initNode0 ops nodes with
  | none => none
  | some nodes =>
    match spLoop ops mo m p data mask numBytes position starting (numBytes + 1) ⟨0, h, Queue.empty ops, nodes⟩ with
    | none => none
    | some s =>
      match computeShortestPathFromNodes numBytes s.nodes with
      | none => none
      | some (nodes, n) => some (nodes, n, s.h)

/-- result of a whole command-generation call -/
structure Result (M : Type) where
  cmds : List Cmd
  h : M
  cache : List Int
  lastInsertLen : Nat
  numLiterals : Nat
  numCommands : Nat

/-- `BrotliCreateZopfliBackwardReferences` (quality 10) -/
def createZopfliBackwardReferences {K M : Type} (ops : CostOps K) (mo : MatcherOps M) (m : CostModel K) (p : Params)
    (data : ByteArray) (mask numBytes position : Nat) (h : M) (cache : List Int) (lastInsertLen numLiterals : Nat) :
    Option (Result M) :=
  match zopfliComputeShortestPath ops mo m p data mask numBytes position cache h (initNodes ops numBytes) with
  | none => none
  | some (nodes, n, h) =>
    match zopfliCreateCommands p.npostfix p.ndirect numBytes position (maxBackwardLimit p) nodes cache lastInsertLen numLiterals with
    | none => none
    | some r => some ⟨r.cmds, h, r.cache, r.lastInsertLen, r.numLiterals, n⟩

/-! ## quality 11: matches once, path twice -/

/-- the collected matches: flat array + per-position counts -/
structure Collected where
  flat : Array Match
  numMatches : Array Nat

/-- loop state of the collecting loop of `BrotliCreateHqZopfliBackwardReferences` -/
structure HQ (M : Type) where
  i : Nat
  h : M
  curMatchPos : Nat
  c : Collected

/-- write `xs` at `matches[at ..]` (the array was grown to hold 128 more entries beforehand) -/
def writeMatches (a : Array Match) (at_ : Nat) (xs : List Match) : Array Match :=
  let a := if a.size < at_ + xs.length then a ++ Array.replicate (at_ + xs.length - a.size) default else a
  (xs.zipIdx).foldl (fun a (x, j) => a.set! (at_ + j) x) a

/-- zero `num_matches[from .. from + n]` (`split_at_mut(skip)` panics if the slice is shorter) -/
def zeroRange (a : Array Nat) (s n : Nat) : Option (Array Nat) :=
  if s + n ≤ a.size then some ((List.range n).foldl (fun a j => a.set! (s + j) 0) a) else none

def hqStep {M : Type} (mo : MatcherOps M) (p : Params) (numBytes position : Nat) (s : HQ M) : Option (HQ M) :=
  let pos := position + s.i
  let maxDistance := min pos (maxBackwardLimit p)
  let maxLength := wsub numBytes s.i
  match mo.findAll s.h pos maxLength maxDistance with
  | none => none
  | some (ms, h) =>
    let ma := writeMatches s.c.flat s.curMatchPos ms
    let curMatchEnd := s.curMatchPos + ms.length
    if s.i < s.c.numMatches.size then
      let nm := s.c.numMatches.set! s.i (ms.length % U32)
      match ms.getLast? with
      | none => some ⟨s.i + 1, h, s.curMatchPos, ⟨ma, nm⟩⟩
      | some l =>
        let matchLen := l.length
        if matchLen > 325 then
          let skip := matchLen - 1
          let ma := ma.set! s.curMatchPos l
          let nm := nm.set! s.i 1
          match mo.storeRange h (pos + 1) (min (pos + matchLen) (storeEnd numBytes position)) with
          | none => none
          | some h =>
            match zeroRange nm (s.i + 1) skip with
            | none => none
            | some nm => some ⟨s.i + skip + 1, h, s.curMatchPos + 1, ⟨ma, nm⟩⟩
        else some ⟨s.i + 1, h, curMatchEnd, ⟨ma, nm⟩⟩
    else none

def hqLoop {M : Type} (mo : MatcherOps M) (p : Params) (numBytes position : Nat) : Nat → HQ M → Option (HQ M)
  | 0, _ => none
  | fuel + 1, s =>
    if s.i + HASH_TYPE_LENGTH - 1 < numBytes then
      match hqStep mo p numBytes position s with
      | none => none
      | some s' => hqLoop mo p numBytes position fuel s'
    else some s

/-- loop state of `ZopfliIterate` -/
structure ZI (K : Type) where
  i : Nat
  curMatchPos : Nat
  queue : Queue K
  nodes : Array (Node K)

/-- the skip loop of `ZopfliIterate` (it also advances `cur_match_pos`) -/
def ziSkipLoop {K : Type} (ops : CostOps K) (m : CostModel K) (p : Params) (numBytes position : Nat) (starting : List Int)
    (numMatches : Array Nat) : Nat → ZI K → Option (ZI K)
  | 0, s => some s
  | skip + 1, s =>
    let i := s.i + 1
    if i + 3 ≥ numBytes then some { s with i := i }
    else
      match evaluateNode ops m position i (maxBackwardLimit p) starting s.queue s.nodes, numMatches[i]? with
      | some (q, nodes), some nm => ziSkipLoop ops m p numBytes position starting numMatches skip ⟨i, s.curMatchPos + nm, q, nodes⟩
      | _, _ => none

def ziStep {K : Type} (ops : CostOps K) (m : CostModel K) (p : Params) (data : ByteArray) (mask numBytes position : Nat)
    (starting : List Int) (c : Collected) (s : ZI K) : Option (ZI K) :=
  match c.numMatches[s.i]? with
  | none => none
  | some nm =>
    if s.curMatchPos + nm ≤ c.flat.size then        -- `matches[cur_match_pos..]`, `matches[j]` for `j < num_matches`
      let ms := (c.flat.extract s.curMatchPos (s.curMatchPos + nm)).toList
      match updateNodes ops m p data mask numBytes position s.i starting ms s.queue s.nodes with
      | none => none
      | some (skip, queue, nodes) =>
        let skip := if skip < 16384 then 0 else skip
        let cmp := s.curMatchPos + nm
        let skip := match ms with
          | [x] => if x.length > maxZopfliLen p then max x.length skip else skip
          | _ => skip
        if skip > 1 then
          match ziSkipLoop ops m p numBytes position starting c.numMatches (skip - 1) ⟨s.i, cmp, queue, nodes⟩ with
          | none => none
          | some s' => some { s' with i := s'.i + 1 }
        else some ⟨s.i + 1, cmp, queue, nodes⟩
    else none

def ziLoop {K : Type} (ops : CostOps K) (m : CostModel K) (p : Params) (data : ByteArray) (mask numBytes position : Nat)
    (starting : List Int) (c : Collected) : Nat → ZI K → Option (ZI K)
  | 0, _ => none
  | fuel + 1, s =>
    if s.i + 3 < numBytes then
      match ziStep ops m p data mask numBytes position starting c s with
      | none => none
      | some s' => ziLoop ops m p data mask numBytes position starting c fuel s'
    else some s

/-- `ZopfliIterate` -/
def zopfliIterate {K : Type} (ops : CostOps K) (m : CostModel K) (p : Params) (data : ByteArray) (mask numBytes position : Nat)
    (starting : List Int) (c : Collected) (nodes : Array (Node K)) : Option (Array (Node K) × Nat) :=
  match initNode0 ops nodes with
  | none => none
  | some nodes =>
    match ziLoop ops m p data mask numBytes position starting c (numBytes + 1) ⟨0, 0, Queue.empty ops, nodes⟩ with
    | none => none
    | some s => computeShortestPathFromNodes numBytes s.nodes

/-- `BrotliCreateHqZopfliBackwardReferences` (quality 11): `m1` is the model set from the literal costs,
`m2` the one `set_from_commands` derives from the commands of the first pass (an arbitrary function here) -/
def createHqZopfliBackwardReferences {K M : Type} (ops : CostOps K) (mo : MatcherOps M) (m1 : CostModel K)
    (m2 : List Cmd → CostModel K) (p : Params)
    (data : ByteArray) (mask numBytes position : Nat) (h : M) (cache : List Int) (lastInsertLen numLiterals : Nat) :
    Option (Result M) :=
  match hqLoop mo p numBytes position (numBytes + 1)
      ⟨0, h, 0, ⟨Array.replicate (4 * numBytes) default, Array.replicate numBytes 0⟩⟩ with
  | none => none
  | some hs =>
    if cache.length < 4 then none              -- `dist_cache.split_at(4)`
    else
    match zopfliIterate ops m1 p data mask numBytes position cache hs.c (initNodes ops numBytes) with
    | none => none
    | some (nodes1, _) =>
      match zopfliCreateCommands p.npostfix p.ndirect numBytes position (maxBackwardLimit p) nodes1 cache lastInsertLen numLiterals with
      | none => none
      | some r1 =>
        -- the second pass starts from the saved `dist_cache[..4]`, `last_insert_len`, `num_literals`
        match zopfliIterate ops (m2 r1.cmds) p data mask numBytes position cache hs.c (initNodes ops numBytes) with
        | none => none
        | some (nodes2, n2) =>
          match zopfliCreateCommands p.npostfix p.ndirect numBytes position (maxBackwardLimit p) nodes2 cache lastInsertLen numLiterals with
          | none => none
          | some r2 => some ⟨r2.cmds, hs.h, r2.cache, r2.lastInsertLen, r2.numLiterals, n2⟩


/-! ## H10: the binary-tree match finder (`hash_to_binary_tree.rs`, `FindAllMatchesH10`) -/

/-- `buckets_` (2^17 entries) and `forest` (2 per window position) -/
structure H10St where
  buckets : Array Nat
  forest : Array Nat

namespace H10

def BUCKET_BITS : Nat := 17
def kHashMul32 : Nat := 0x1e35a7bd
def kInvalidMatch : Nat := 0xfffffff

/-- `HashBytes(&data[cm..])` -/
def hashBytes (data : ByteArray) (cm : Nat) : Option Nat :=
  match win data cm 4 with
  | none => none
  | some w => some (((le w * kHashMul32) % U32) >>> (32 - BUCKET_BITS))

/-- loop state of `StoreAndFindMatchesH10` -/
structure Walk where
  forest : Array Nat
  prevIx : Nat
  nodeLeft : Nat
  nodeRight : Nat
  bestLenLeft : Nat
  bestLenRight : Nat
  bestLen : Nat
  found : List Match      -- reversed

def wrF (a : Array Nat) (i v : Nat) : Option (Array Nat) := if i < a.size then some (a.set! i v) else none

/-- the `loop { … }` of `StoreAndFindMatchesH10`; `depth` = `depth_remaining`, `cap` = free slots of `matches` -/
def walk (windowMask invalid : Nat) (data : ByteArray) (mask curIx maxLength maxBackward : Nat) (reroot : Bool) (cap : Nat) :
    Nat → Walk → Option Walk
  | depth, s =>
    let cm := curIx &&& mask
    let backward := wsub curIx s.prevIx
    let prevM := s.prevIx &&& mask
    let stop (s : Walk) : Option Walk :=
      if reroot then
        match wrF s.forest s.nodeLeft invalid with
        | none => none
        | some f => match wrF f s.nodeRight invalid with
          | none => none
          | some f => some { s with forest := f }
      else some s
    match depth with
    | 0 => stop s
    | depth + 1 =>
      if backward = 0 ∨ backward > maxBackward then stop s
      else
        let curLen := min s.bestLenLeft s.bestLenRight
        match findMatchLengthWithLimit data (cm + curLen) (prevM + curLen) (wsub maxLength curLen) with
        | none => none
        | some l =>
          let len := curLen + l
          let s := if s.found.length ≠ cap ∧ len > s.bestLen then
              { s with bestLen := len, found := Match.init backward len :: s.found } else s
          let left := 2 * (s.prevIx &&& windowMask)
          if len ≥ min maxLength 128 then
            if reroot then
              match s.forest[left]?, s.forest[left + 1]? with
              | some a, some b =>
                match wrF s.forest s.nodeLeft a with
                | none => none
                | some f => match wrF f s.nodeRight b with
                  | none => none
                  | some f => some { s with forest := f }
              | _, _ => none
            else some s
          else
            match byteAt data (cm + len), byteAt data (prevM + len) with
            | some a, some b =>
              if a > b then
                match (if reroot then wrF s.forest s.nodeLeft (s.prevIx % U32) else some s.forest) with
                | none => none
                | some f =>
                  match f[left + 1]? with
                  | none => none
                  | some nx => walk windowMask invalid data mask curIx maxLength maxBackward reroot cap depth
                      { s with forest := f, bestLenLeft := len, nodeLeft := left + 1, prevIx := nx }
              else
                match (if reroot then wrF s.forest s.nodeRight (s.prevIx % U32) else some s.forest) with
                | none => none
                | some f =>
                  match f[left]? with
                  | none => none
                  | some nx => walk windowMask invalid data mask curIx maxLength maxBackward reroot cap depth
                      { s with forest := f, bestLenRight := len, nodeRight := left, prevIx := nx }
            | _, _ => none

/-- `StoreAndFindMatchesH10(self, data, cur_ix, mask, max_length, max_backward, best_len, matches)`:
(new `best_len`, the matches in order, state) -/
def storeAndFind (windowMask invalid : Nat) (data : ByteArray) (mask curIx maxLength maxBackward bestLen cap : Nat)
    (st : H10St) : Option (Nat × List Match × H10St) :=
  let cm := curIx &&& mask
  let reroot := decide (maxLength ≥ 128)
  match hashBytes data cm with
  | none => none
  | some key =>
    match st.buckets[key]? with
    | none => none
    | some prev =>
      let buckets := if reroot then st.buckets.set! key (curIx % U32) else st.buckets
      let left := 2 * (curIx &&& windowMask)
      match walk windowMask invalid data mask curIx maxLength maxBackward reroot cap 64
          ⟨st.forest, prev, left, left + 1, 0, 0, bestLen, []⟩ with
      | none => none
      | some w => some (w.bestLen, w.found.reverse, ⟨buckets, w.forest⟩)

/-- `Store(data, mask, ix)` -/
def store (windowMask invalid : Nat) (data : ByteArray) (mask ix : Nat) (st : H10St) : Option H10St :=
  (storeAndFind windowMask invalid data mask ix 128 (wsub windowMask 16 + 1) 0 0 st).map (·.2.2)

def storeStride (windowMask invalid : Nat) (data : ByteArray) (mask stride hi : Nat) : Nat → Nat → H10St → Option H10St
  | 0, _, st => some st
  | fuel + 1, j, st =>
    if j < hi then
      match store windowMask invalid data mask j st with
      | none => none
      | some st => storeStride windowMask invalid data mask stride hi fuel (j + stride) st
    else some st

/-- `StoreRange(data, mask, ix_start, ix_end)` -/
def storeRange (windowMask invalid : Nat) (data : ByteArray) (mask ixStart ixEnd : Nat) (st : H10St) : Option H10St :=
  let i := if ixStart + 63 ≤ ixEnd then ixEnd - 63 else ixStart
  let st1 := if ixStart + 512 ≤ i then storeStride windowMask invalid data mask 8 i (i - ixStart + 1) ixStart st else some st
  match st1 with
  | none => none
  | some st => storeStride windowMask invalid data mask 1 ixEnd (ixEnd - i + 1) i st

/-- the short-distance loop at the head of `FindAllMatchesH10`: (best_len, matches reversed) -/
def shortLoop (data : ByteArray) (mask curIx maxLength maxBackward stop : Nat) : Nat → Nat → Nat → List Match → Option (Nat × List Match)
  | 0, _, bestLen, acc => some (bestLen, acc)
  | fuel + 1, i, bestLen, acc =>
    if i > stop ∧ bestLen ≤ 2 then
      let backward := wsub curIx i
      if backward > maxBackward then some (bestLen, acc)
      else
        let cm := curIx &&& mask
        let prev := i &&& mask
        match byteAt data cm, byteAt data prev with
        | some a, some b =>
          if a = b then
            match byteAt data (cm + 1), byteAt data (prev + 1) with
            | some a1, some b1 =>
              if a1 = b1 then
                match findMatchLengthWithLimit data prev cm maxLength with
                | none => none
                | some len =>
                  if len > bestLen then shortLoop data mask curIx maxLength maxBackward stop fuel (wsub i 1) len (Match.init backward len :: acc)
                  else shortLoop data mask curIx maxLength maxBackward stop fuel (wsub i 1) bestLen acc
              else shortLoop data mask curIx maxLength maxBackward stop fuel (wsub i 1) bestLen acc
            | _, _ => none
          else shortLoop data mask curIx maxLength maxBackward stop fuel (wsub i 1) bestLen acc
        | _, _ => none
    else some (bestLen, acc)

/-- `FindAllMatchesH10`; `dictAt cm minlen max_length` = the `(l, dict_matches[l])` pairs below `kInvalidMatch`
that `BrotliFindAllStaticDictionaryMatches` leaves (empty list = returned 0 / no dictionary) -/
def findAll (p : Params) (windowMask invalid : Nat) (data : ByteArray) (mask : Nat)
    (dictAt : Nat → Nat → Nat → List (Nat × Nat)) (st : H10St) (curIx maxLength maxBackward : Nat) :
    Option (List Match × H10St) :=
  let smmb := if p.quality ≠ 11 then 16 else 64
  let stop := if curIx < smmb then 0 else curIx - smmb
  match shortLoop data mask curIx maxLength maxBackward stop 65 (wsub curIx 1) 1 [] with
  | none => none
  | some (bestLen, acc) =>
    let ms := acc.reverse
    let r := if bestLen < maxLength then
        storeAndFind windowMask invalid data mask curIx maxLength maxBackward bestLen (128 - ms.length) st
      else some (bestLen, [], st)
    match r with
    | none => none
    | some (bestLen, ms2, st) =>
      let cm := curIx &&& mask
      if cm > data.size then none             -- `&data[cur_ix_masked..]`
      else
        let minlen := max 4 (bestLen + 1)
        let maxlen := min 37 maxLength
        let dm := (dictAt cm minlen maxLength).filterMap fun (l, id) =>
          if minlen ≤ l ∧ l ≤ maxlen ∧ id < kInvalidMatch then
            let distance := maxBackward + (id >>> 5) + 1
            if distance ≤ p.maxDistance then some (Match.initDictionary distance l (id &&& 31)) else none
          else none
        some (ms ++ ms2 ++ dm, st)

end H10

/-- H10 as the matcher of the path computation -/
def h10Ops (p : Params) (windowMask invalid : Nat) (data : ByteArray) (mask : Nat)
    (dictAt : Nat → Nat → Nat → List (Nat × Nat)) : MatcherOps H10St where
  findAll := fun st curIx maxLength maxBackward => H10.findAll p windowMask invalid data mask dictAt st curIx maxLength maxBackward
  storeRange := fun st a b => H10.storeRange windowMask invalid data mask a b st

end BV.Zopfli
