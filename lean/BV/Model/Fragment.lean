/-
M17 `Fragment` — executable model of the quality-1 fragment writer
`src/enc/compress_fragment_two_pass.rs` (whole file) and of the pieces of the quality-0 writer
`src/enc/compress_fragment.rs` that carry its invariants (`BuildAndStoreLiteralPrefixCode`'s
histogram, `UpdateBits`, `RewindBitPosition`, `EmitUncompressedMetaBlock`, the `Emit*` helpers,
`BuildAndStoreCommandPrefixCode`).

What is different from every other model of this project: THE STORAGE IS THE REAL BYTE ARRAY.
`BrotliWriteBits` of these two files (compress_fragment_two_pass.rs:408, no `assert!`s) reads
`array[pos >> 3]`, ORs `bits << (pos & 7)` into it, stores the 8 little-endian bytes of the word at
`array[pos>>3 .. pos>>3+8]` and adds `n_bits` to `pos`.  So
  * bits that are already set in `array[pos >> 3]` at positions `≥ pos & 7` (stale data: a carry
    byte with garbage above the carried bits, a rewind that does not clear the partial byte) stay
    in the stream — representable here (`Sto.bytes`), not in a list-of-bits writer;
  * `bits ≥ 2^n_bits` leaks into the following bit positions;
  * fewer than 8 bytes left at `pos >> 3` is a panic (`BROTLI_UNALIGNED_STORE64` → `split_at_mut`).
`BV/Lemmas/FragmentSto.lean` proves when this is "append `n_bits` bits" (conditions (W1)/(W2) of
`BV.Bits`, which the other models assume).

Conventions: `usize = u64`; `as uN` explicit `% 2^N`; `wrapping_*` explicit; slice index out of
range / `assert!` = `.panic`; `&mut storage, storage_ix` = `Sto`.  `u8`/`u16`/`u32` values are `Nat`s.
The prefix-code builders are `BV.Huffman.*` (model M4, C17); they write through
`brotli_bit_stream::BrotliWriteBits` into the same storage — the model runs them on an empty
`BV.Bits.Writer` and then `blit`s the bits they return (one-bit `BrotliWriteBits` calls: the same
bytes below `(ix+7)/8`; the model panics if fewer than 8 bytes are left at the LAST written bit,
the real chunked writes need 8 bytes at the start of the last chunk — the model is the stricter one).

UNTRUSTED / RECORDED inputs (the theorems quantify over them, the harness records them):
  * `ShouldCompress` (floating point `BitsEntropy`): the function `dec : block index → Bool`;
  * the match finder `CreateCommands` IS modelled (`createCommands`, the real hash-table
    algorithm, needed to reproduce the bytes), but no theorem depends on what it finds: the
    round-trip theorems hold for EVERY command / literal buffer accepted by `replayQ1`.

SPEC side: the RFC 7932 reader of `BV.MetaBlock` (`readMetaBlockFull`, `readMetaBlocks`) and
`replayQ1` below (RFC §4/§5 semantics of a command sequence via `BV.MetaBlock.applyCopy`).
-/
import BV.Model.MetaBlock

namespace BV.Fragment
open BV.Bits BV.Huffman

def two32 : Nat := 4294967296
def two64 : Nat := 18446744073709551616

/-! ## the storage -/

/-- `storage: &mut [u8]` (every entry `< 256`) and `storage_ix` -/
structure Sto where
  bytes : Array Nat
  ix : Nat
deriving Inhabited

/-- `BROTLI_UNALIGNED_STORE64(&mut array[off..], v)` once `off + 8 ≤ len` -/
def store64 (a : Array Nat) (off v : Nat) : Array Nat :=
  (((((((a.setIfInBounds off (v % 256)).setIfInBounds (off + 1) (v / 256 % 256)).setIfInBounds
    (off + 2) (v / 65536 % 256)).setIfInBounds (off + 3) (v / 16777216 % 256)).setIfInBounds
    (off + 4) (v / 4294967296 % 256)).setIfInBounds (off + 5) (v / 1099511627776 % 256)).setIfInBounds
    (off + 6) (v / 281474976710656 % 256)).setIfInBounds (off + 7) (v / 72057594037927936 % 256)

/-- `BrotliWriteBits(n_bits, bits, pos, array)` of compress_fragment_two_pass.rs (also used by
compress_fragment.rs): `p = &mut array[pos >> 3..]; v = p[0] as u64 | bits << (pos & 7);
STORE64(p, v); pos += n_bits`.  (`bits << k` on `u64` drops the bits shifted out.) -/
def writeBits (nBits bits : Nat) (s : Sto) : Out Sto :=
  if s.ix / 8 + 8 > s.bytes.size then .panic
  else
    let v := s.bytes.getD (s.ix / 8) 0 ||| (bits * 2 ^ (s.ix % 8)) % two64
    .ok ⟨store64 s.bytes (s.ix / 8) v, (s.ix + nBits) % two64⟩

/-- the bits a `BV.Huffman` builder returned, written one `BrotliWriteBits(1, b)` at a time -/
def blit : List Bool → Sto → Out Sto
  | [], s => .ok s
  | b :: bs, s => do
    let s ← writeBits 1 (if b then 1 else 0) s
    blit bs s

/-- `store_meta_block_header(len, is_uncompressed, storage_ix, storage)`:
ISLAST = 0, MNIBBLES − 4 (2 bits), MLEN − 1 (`len.wrapping_sub(1) as u64`), ISUNCOMPRESSED -/
def storeMetaBlockHeader (len : Nat) (isUncompressed : Bool) (s : Sto) : Out Sto := do
  let nibbles := if len ≤ 65536 then 4 else if len ≤ 1048576 then 5 else 6
  let s ← writeBits 1 0 s
  let s ← writeBits 2 (nibbles - 4) s
  let s ← writeBits (nibbles * 4) ((len + two64 - 1) % two64) s
  writeBits 1 (if isUncompressed then 1 else 0) s

/-- `*storage_ix = storage_ix.wrapping_add(7) & !7` -/
def alignIx (ix : Nat) : Nat := (ix + 7) % two64 / 8 * 8

/-- `dst[off..off + n].clone_from_slice(src)`: the slice expression panics when it leaves `dst` -/
def copyInto (a : Array Nat) (off : Nat) : List Nat → Array Nat
  | [] => a
  | b :: bs => copyInto (a.setIfInBounds off b) (off + 1) bs

/-- `EmitUncompressedMetaBlock(input, input_size, storage_ix, storage)` of the two-pass file:
header, byte alignment, `memcpy`, `storage[ix >> 3] = 0` -/
def emitUncompressedMetaBlock (data : List Nat) (s : Sto) : Out Sto := do
  let s ← storeMetaBlockHeader data.length true s
  let ix := alignIx s.ix
  if ix / 8 + data.length > s.bytes.size then .panic
  else
    let bytes := copyInto s.bytes (ix / 8) data
    let ix := (ix + data.length * 8) % two64
    if ix / 8 < bytes.size then .ok ⟨bytes.setIfInBounds (ix / 8) 0, ix⟩ else .panic

/-- `RewindBitPosition(new_storage_ix, storage_ix, storage)`:
`storage[new_ix >> 3] &= (1 << (new_ix & 7)) - 1` -/
def rewindBitPosition (newIx : Nat) (s : Sto) : Out Sto :=
  if newIx / 8 < s.bytes.size then
    .ok ⟨s.bytes.setIfInBounds (newIx / 8) (s.bytes.getD (newIx / 8) 0 % 2 ^ (newIx % 8)), newIx⟩
  else .panic

/-- the two bits ISLAST = 1, ISLASTEMPTY = 1 and the jump to the byte boundary that end a stream -/
def writeLastEmpty (s : Sto) : Out Sto := do
  let s ← writeBits 1 1 s
  let s ← writeBits 1 1 s
  .ok ⟨s.bytes, alignIx s.ix⟩

/-! ## quality 1: the command words (`EmitInsertLen`, `EmitDistance`, `EmitCopyLen…`) -/

def log2 (n : Nat) : Nat := Nat.log2 n

/-- `kNumExtraBits` of `StoreCommands` (generated from the source) -/
def kNumExtraBits : List Nat := BV.Gen.kFragNumExtraBits

/-- `kInsertOffset` of `StoreCommands` (generated from the source) -/
def kInsertOffset : List Nat := BV.Gen.kFragInsertOffset

/-- `code | extra << 8` on `u32` -/
def cmdWord (code extra : Nat) : Nat := (code ||| (extra * 256) % two32) % two32

/-- `EmitInsertLen(insertlen: u32, commands)` (two-pass): the one command word -/
def emitInsertLenQ1 (insertlen : Nat) : Nat :=
  if insertlen < 6 then insertlen
  else if insertlen < 130 then
    let tail := insertlen - 2
    let nbits := log2 tail - 1
    let pfx := tail / 2 ^ nbits
    cmdWord (nbits * 2 + pfx + 2) (tail - pfx * 2 ^ nbits)
  else if insertlen < 2114 then
    let tail := insertlen - 66
    let nbits := log2 tail
    cmdWord (nbits + 10) (tail - 2 ^ nbits)
  else if insertlen < 6210 then cmdWord 21 (insertlen - 2114)
  else if insertlen < 22594 then cmdWord 22 (insertlen - 6210)
  else cmdWord 23 (insertlen - 22594)

/-- `EmitDistance(distance: u32, commands)` (two-pass).  `d = distance + 3` (wrapping `u32`);
`Log2FloorNonZero(d) - 1` for `d < 2` is not meaningful (never reached: `distance ≥ 1`): `none`. -/
def emitDistanceQ1 (distance : Nat) : Option Nat :=
  let d := (distance + 3) % two32
  if d < 2 then none else
  let nbits := log2 d - 1
  let pfx := d / 2 ^ nbits % 2
  let offset := (2 + pfx) * 2 ^ nbits
  some (cmdWord (2 * (nbits - 1) + pfx + 80) (d - offset))

/-- `EmitCopyLenLastDistance(copylen, commands)` (two-pass): one or two command words -/
def emitCopyLenLastDistanceQ1 (copylen : Nat) : List Nat :=
  if copylen < 12 then [(copylen + 20) % two32]
  else if copylen < 72 then
    let tail := copylen - 8
    let nbits := log2 tail - 1
    let pfx := tail / 2 ^ nbits
    [cmdWord (nbits * 2 + pfx + 28) (tail - pfx * 2 ^ nbits)]
  else if copylen < 136 then
    let tail := copylen - 8
    [cmdWord (tail / 32 + 54) (tail % 32), 64]
  else if copylen < 2120 then
    let tail := copylen - 72
    let nbits := log2 tail
    [cmdWord (nbits + 52) (tail - 2 ^ nbits), 64]
  else [cmdWord 63 (copylen - 2120), 64]

/-- `EmitCopyLen(copylen, commands)` (two-pass) -/
def emitCopyLenQ1 (copylen : Nat) : Nat :=
  if copylen < 10 then (copylen + 38) % two32
  else if copylen < 134 then
    let tail := copylen - 6
    let nbits := log2 tail - 1
    let pfx := tail / 2 ^ nbits
    cmdWord (nbits * 2 + pfx + 44) (tail - pfx * 2 ^ nbits)
  else if copylen < 2118 then
    let tail := copylen - 70
    let nbits := log2 tail
    cmdWord (nbits + 52) (tail - 2 ^ nbits)
  else cmdWord 63 (copylen - 2118)

/-! ## quality 1: `CreateCommands` (the real hash-table match finder; nothing is proved about
what it finds) -/

def kHashMul32 : Nat := 0x1e35a7bd

def load32 (a : Array Nat) (i : Nat) : Out Nat :=
  if i + 4 ≤ a.size then
    .ok (a.getD i 0 + 256 * a.getD (i + 1) 0 + 65536 * a.getD (i + 2) 0 + 16777216 * a.getD (i + 3) 0)
  else .panic

def load64 (a : Array Nat) (i : Nat) : Out Nat :=
  if i + 8 ≤ a.size then
    .ok (a.getD i 0 + 256 * a.getD (i + 1) 0 + 65536 * a.getD (i + 2) 0 + 16777216 * a.getD (i + 3) 0
      + 4294967296 * a.getD (i + 4) 0 + 1099511627776 * a.getD (i + 5) 0
      + 281474976710656 * a.getD (i + 6) 0 + 72057594037927936 * a.getD (i + 7) 0)
  else .panic

/-- `HashBytesAtOffset(v, offset, shift, length)`; `Hash(p, shift, length)` is offset 0 of `LOAD64(p)` -/
def hashAt (v offset shift length : Nat) : Nat :=
  ((v / 2 ^ (8 * offset) * 2 ^ ((8 - length) * 8)) % two64 * kHashMul32) % two64 / 2 ^ shift % two32

/-- `IsMatch(&base_ip[i..], &base_ip[j..], length)` -/
def isMatch (a : Array Nat) (i j length : Nat) : Out Bool := do
  if i > a.size ∨ j > a.size then .panic else
  let x ← load32 a i
  let y ← load32 a j
  if x ≠ y then .ok false
  else if length = 4 then .ok true
  else if i + 5 < a.size ∧ j + 5 < a.size then
    .ok (a.getD (i + 4) 0 == a.getD (j + 4) 0 && a.getD (i + 5) 0 == a.getD (j + 5) 0)
  else if i + 4 < a.size ∧ j + 4 < a.size ∧ a.getD (i + 4) 0 ≠ a.getD (j + 4) 0 then .ok false
  else .panic

/-- `FindMatchLengthWithLimit(&a[i..], &a[j..], limit)` -/
def findMatchLength (a : Array Nat) (i j limit : Nat) : Out Nat :=
  if i + limit > a.size ∨ j + limit > a.size then .panic
  else
    let rec go : Nat → Nat → Nat
      | 0, k => k
      | f + 1, k => if a.getD (i + k) 0 == a.getD (j + k) 0 then go f (k + 1) else k
    .ok (go limit 0)

/-- `x as i32` of a `usize` -/
def asI32 (x : Nat) : Int :=
  if x % two32 < 2147483648 then ((x % two32 : Nat) : Int) else ((x % two32 : Nat) : Int) - 4294967296

/-- `x as usize` of an `i32` -/
def i32AsUsize (x : Int) : Nat := if 0 ≤ x then x.toNat else two64 - (-x).toNat

/-- `a.wrapping_sub(b)` on `usize` -/
def wsub (a b : Nat) : Nat := (a + two64 - b % two64) % two64

/-- `table[h] = v as i32` -/
def tset (t : Array Int) (h : Nat) (v : Nat) : Out (Array Int) :=
  if h < t.size then .ok (t.setIfInBounds h (asI32 v)) else .panic

def tget (t : Array Int) (h : Nat) : Out Nat :=
  if h < t.size then .ok (i32AsUsize (t.getD h 0)) else .panic

/-- state of `CreateCommands` -/
structure CC where
  table : Array Int
  lits : Array Nat      -- `literals` written so far (capacity `capLit`)
  cmds : Array Nat      -- `commands` written so far (capacity `capCmd`)
  ip : Nat
  nextEmit : Nat
  lastDist : Int
deriving Inhabited

def pushCmd (capCmd : Nat) (c : CC) (w : Nat) : Out CC :=
  if c.cmds.size < capCmd then .ok { c with cmds := c.cmds.push w } else .panic

def pushCmds (capCmd : Nat) (c : CC) : List Nat → Out CC
  | [] => .ok c
  | w :: ws => do
    let c ← pushCmd capCmd c w
    pushCmds capCmd c ws

/-- `literals[..n].clone_from_slice(&base_ip[from..from + n])` -/
def pushLits (capLit : Nat) (inp : Array Nat) (c : CC) (start n : Nat) : Out CC :=
  if c.lits.size + n > capLit ∨ start + n > inp.size then .panic
  else .ok { c with lits := c.lits ++ inp.extract start (start + n) }

/-- the hash-table refresh after a match ends at `ip` (both copies of it in the source; the
first copy, `first = true`, hashes offset 0 a second time where the other hashes offset 2 for
`min_match = 4`).  Returns the new candidate. -/
def rehash (inp : Array Nat) (shift minMatch : Nat) (first : Bool) (c : CC) : Out (CC × Nat) := do
  let ip := c.ip
  if minMatch = 4 then
    if ip < 3 then .panic else
    let v ← load64 inp (ip - 3)
    let cur := hashAt v 3 shift minMatch
    let t ← tset c.table (hashAt v 0 shift minMatch) (wsub ip 3)
    let t ← tset t (hashAt v 1 shift minMatch) (wsub ip 2)
    let t ← tset t (hashAt v (if first then 0 else 2) shift minMatch) (wsub ip 1)
    let cand ← tget t cur
    let t ← tset t cur ip
    .ok ({ c with table := t }, cand)
  else
    if ip < 5 then .panic else
    let v ← load64 inp (ip - 5)
    let t ← tset c.table (hashAt v 0 shift minMatch) (wsub ip 5)
    let t ← tset t (hashAt v 1 shift minMatch) (wsub ip 4)
    let t ← tset t (hashAt v 2 shift minMatch) (wsub ip 3)
    let v ← load64 inp (ip - 2)
    let cur := hashAt v 2 shift minMatch
    let t ← tset t (hashAt v 0 shift minMatch) (wsub ip 2)
    let t ← tset t (hashAt v 1 shift minMatch) (wsub ip 1)
    let cand ← tget t cur
    let t ← tset t cur ip
    .ok ({ c with table := t }, cand)

/-- the candidate search (`loop { 'break3: loop { … } if !(far && !remainder) break }`).
`none` = `goto_emit_remainder`; `some cand` = a verified match at `c.ip`. -/
def scan (inp : Array Nat) (shift minMatch ipLimit : Nat) :
    Nat → Nat → Nat → Nat → CC → Out (CC × Option Nat)
  | 0, _, _, _, _ => .fuel
  | f + 1, skip, nextIp, nextHash, c => do
    let hash := nextHash
    let between := skip / 32
    let skip := (skip + 1) % two32
    let ip := nextIp
    let nextIp := ip + between
    if nextIp > ipLimit then .ok ({ c with ip := ip }, none)
    else
      let v ← load64 inp nextIp
      let nextHash := hashAt v 0 shift minMatch
      let cand := wsub ip (i32AsUsize c.lastDist)
      let m ← isMatch inp ip cand minMatch
      if m ∧ cand < ip then do
        let t ← tset c.table hash ip
        let c := { c with table := t, ip := ip }
        if wsub ip cand > 262128 then scan inp shift minMatch ipLimit f skip nextIp nextHash c
        else .ok (c, some cand)
      else do
        let cand ← tget c.table hash
        let t ← tset c.table hash ip
        let c := { c with table := t, ip := ip }
        let m ← isMatch inp ip cand minMatch
        if m then
          if wsub ip cand > 262128 then scan inp shift minMatch ipLimit f skip nextIp nextHash c
          else .ok (c, some cand)
        else scan inp shift minMatch ipLimit f skip nextIp nextHash c

/-- the `while ip - candidate <= MAX && IsMatch(ip, candidate)` loop of immediate matches.
Returns the state and `true` when it ended with `goto_emit_remainder`. -/
def chain (inp : Array Nat) (capCmd shift minMatch ipEnd ipLimit : Nat) :
    Nat → Nat → CC → Out (CC × Bool)
  | 0, _, _ => .fuel
  | f + 1, cand, c => do
    if wsub c.ip cand > 262128 then .ok (c, false) else
    let m ← isMatch inp c.ip cand minMatch
    if !m then .ok (c, false) else
    let base := c.ip
    let n ← findMatchLength inp (cand + minMatch) (c.ip + minMatch) (wsub (wsub ipEnd c.ip) minMatch)
    let matched := minMatch + n
    let ld := asI32 (wsub base cand)
    let c := { c with ip := c.ip + matched, lastDist := ld }
    let c ← pushCmd capCmd c (emitCopyLenQ1 matched)
    let dw ← (match emitDistanceQ1 (i32AsUsize ld % two32) with
      | some w => Out.ok w | none => Out.panic)
    let c ← pushCmd capCmd c dw
    let c := { c with nextEmit := c.ip }
    if c.ip ≥ ipLimit then .ok (c, true) else
    if c.ip < 5 then .panic else
    let (c, cand) ← rehash inp shift minMatch false c
    chain inp capCmd shift minMatch ipEnd ipLimit f cand c

/-- the outer `while !goto_emit_remainder` loop -/
def matchLoop (inp : Array Nat) (capCmd capLit shift minMatch ipEnd ipLimit : Nat) :
    Nat → Nat → CC → Out CC
  | 0, _, _ => .fuel
  | f + 1, nextHash, c => do
    let (c, r) ← scan inp shift minMatch ipLimit (ipEnd + 2) 32 c.ip nextHash c
    match r with
    | none => .ok c
    | some cand =>
      let base := c.ip
      let n ← findMatchLength inp (cand + minMatch) (c.ip + minMatch) (wsub (wsub ipEnd c.ip) minMatch)
      let matched := minMatch + n
      let distance := asI32 (wsub base cand)
      let insert := asI32 (wsub base c.nextEmit)
      let c := { c with ip := c.ip + matched }
      let c ← pushCmd capCmd c (emitInsertLenQ1 (i32AsUsize insert % two32))
      let c ← pushLits capLit inp c c.nextEmit (i32AsUsize insert)
      let c ← (if distance = c.lastDist then pushCmd capCmd c 64
        else do
          let dw ← (match emitDistanceQ1 (i32AsUsize distance % two32) with
            | some w => Out.ok w | none => Out.panic)
          let c ← pushCmd capCmd c dw
          .ok { c with lastDist := distance })
      let c ← pushCmds capCmd c (emitCopyLenLastDistanceQ1 matched)
      let c := { c with nextEmit := c.ip }
      if c.ip ≥ ipLimit then .ok c else
      let (c, cand) ← rehash inp shift minMatch true c
      let (c, rem) ← chain inp capCmd shift minMatch ipEnd ipLimit (ipEnd + 2) cand c
      if rem then .ok c else
      let c := { c with ip := c.ip + 1 }
      let v ← load64 inp c.ip
      matchLoop inp capCmd capLit shift minMatch ipEnd ipLimit f (hashAt v 0 shift minMatch) c

/-- `CreateCommands(input_index, block_size, input_size, base_ip, table, table_bits, min_match,
literals, num_literals, commands, num_commands)`; `capLit`/`capCmd` = lengths of the two buffers.
Returns the table, the literals and the command words. -/
def createCommands (inputIndex blockSize inputSize : Nat) (inp : Array Nat) (table : Array Int)
    (tableBits minMatch capLit capCmd : Nat) : Out (Array Int × List Nat × List Nat) := do
  let shift := 64 - tableBits
  let ipEnd := inputIndex + blockSize
  let c : CC := ⟨table, #[], #[], inputIndex, inputIndex, -1⟩
  let c ← (if blockSize ≥ 16 then do
      let lenLimit := min (wsub blockSize minMatch) (wsub inputSize 16)
      let ipLimit := inputIndex + lenLimit
      let c := { c with ip := c.ip + 1 }
      let v ← load64 inp c.ip
      matchLoop inp capCmd capLit shift minMatch ipEnd ipLimit (blockSize + 2) (hashAt v 0 shift minMatch) c
    else Out.ok c)
  let c ← (if c.nextEmit < ipEnd then do
      let insert := (ipEnd - c.nextEmit) % two32
      let c ← pushCmd capCmd c (emitInsertLenQ1 insert)
      pushLits capLit inp c c.nextEmit insert
    else Out.ok c)
  .ok (c.table, c.lits.toList, c.cmds.toList)

/-! ## quality 1: `BuildAndStoreCommandPrefixCode`, `StoreCommands` -/

/-- `memcpy(dst, dst_offset, src, src_offset, n)` on slices -/
def memcpyL (dst : List Nat) (dOff : Nat) (src : List Nat) (sOff n : Nat) : Out (List Nat) :=
  if dOff + n > dst.length ∨ sOff + n > src.length then .panic
  else .ok (dst.take dOff ++ (src.drop sOff).take n ++ dst.drop (dOff + n))

/-- `for i in 0..8 { dst[base + 8 * i] = src[off + i] }` -/
def scatter8 (dst : List Nat) (base : Nat) (src : List Nat) (off : Nat) : Nat → Out (List Nat)
  | 0 => .ok dst
  | k + 1 => do
    let dst ← scatter8 dst base src off k
    let v ← getAt src (off + k)
    setAt dst (base + 8 * k) v

/-- the six `memcpy`s that put the 64 command depths into the order of the full alphabet
(`cmd_depth[0..64]`; `cd` = the zeroed `[u8; 704]`) -/
def q1Perm (depth cd : List Nat) : Out (List Nat) := do
  let cd ← memcpyL cd 0 depth 24 24
  let cd ← memcpyL cd 24 depth 0 8
  let cd ← memcpyL cd 32 depth 48 8
  let cd ← memcpyL cd 40 depth 8 8
  let cd ← memcpyL cd 48 depth 56 8
  memcpyL cd 56 depth 16 8

/-- the six `memcpy`s that bring the bit patterns `cb` back into command-code order (`bits[0..72]`) -/
def q1Bits (bits cb : List Nat) : Out (List Nat) := do
  let bits ← memcpyL bits 0 cb 24 16
  let bits ← memcpyL bits 8 cb 40 8
  let bits ← memcpyL bits 16 cb 56 8
  let bits ← memcpyL bits 24 cb 0 48
  let bits ← memcpyL bits 48 cb 32 8
  memcpyL bits 56 cb 48 8

/-- `cmd_depth[..64] = 0`, the five `memcpy`s and the loop that spread the 64 command depths over the
704 insert-and-copy symbols (`z64` = 64 zeros) -/
def q1Scatter (depth cd z64 : List Nat) : Out (List Nat) := do
  let cd := z64 ++ cd.drop 64
  let cd ← memcpyL cd 0 depth 24 8
  let cd ← memcpyL cd 64 depth 32 8
  let cd ← memcpyL cd 128 depth 40 8
  let cd ← memcpyL cd 192 depth 48 8
  let cd ← memcpyL cd 384 depth 56 8
  let cd ← scatter8 cd 128 depth 0 8
  let cd ← scatter8 cd 256 depth 8 8
  scatter8 cd 448 depth 16 8

/-- `BuildAndStoreCommandPrefixCode(histogram, depth, bits, storage_ix, storage)` of the two-pass
file; `histogram`: 128 counts, `depth`/`bits`: the zeroed `[u8; 128]`/`[u16; 128]` of
`StoreCommands`.  Returns `(depth, bits, bits written)`. -/
def buildAndStoreCommandPrefixCodeQ1 (histogram depth bits : List Nat) (w : Writer) :
    Out (List Nat × List Nat × Writer) := do
  if histogram.length < 128 ∨ depth.length < 128 then .panic else
  let tree := List.replicate 129 (⟨0, 0, 0⟩ : Node)
  let d0 ← createHuffmanTree (histogram.take 64) 64 15 tree (depth.take 64)
  let d1 ← createHuffmanTree ((histogram.drop 64).take 64) 64 14 tree ((depth.drop 64).take 64)
  let depth := d0 ++ d1 ++ depth.drop 128
  let cd ← q1Perm depth (List.replicate 704 0)
  let cb ← convertBitDepthsToSymbols cd 64 (List.replicate 64 0)
  let bits ← q1Bits bits cb
  let b1 ← convertBitDepthsToSymbols (depth.drop 64) 64 (bits.drop 64)
  let bits := bits.take 64 ++ b1
  let cd ← q1Scatter depth cd (List.replicate 64 0)
  let w ← storeHuffmanTree cd 704 tree w
  let w ← storeHuffmanTree (depth.drop 64) 64 tree w
  .ok (depth, bits, w)

/-- `lit_histo[literals[i]] += 1` for `i < num_literals` (`u32`, wrapping) in closed form -/
def histo (n : Nat) (xs : List Nat) : List Nat :=
  (List.range n).map fun v => xs.count v % two32

/-- `histo[i] = histo[i].wrapping_add(1)` -/
def bump (h : List Nat) (i : Nat) : List Nat := h.set i ((h.getD i 0 + 1) % two32)

/-- the literal loop of `StoreCommands`: `for literal in literals[..insert] { WriteBits(lit_depths[lit], lit_bits[lit]) }` -/
def storeLits (litD litB : List Nat) : List Nat → Sto → Out Sto
  | [], s => .ok s
  | b :: bs, s => do
    let d ← getAt litD b
    let v ← getAt litB b
    let s ← writeBits d v s
    storeLits litD litB bs s

/-- the command loop of `StoreCommands` -/
def storeCmdLoop (litD litB cmdD cmdB : List Nat) : List Nat → List Nat → Sto → Out Sto
  | [], _, s => .ok s
  | cmd :: cs, lits, s => do
    let code := cmd % 256
    let extra := cmd / 256
    let d ← getAt cmdD code
    let b ← getAt cmdB code
    let s ← writeBits d b s
    let ne ← getAt kNumExtraBits code
    let s ← writeBits ne extra s
    if code < 24 then do
      let off ← getAt kInsertOffset code
      let insert := (off + extra) % two32
      if insert > lits.length then .panic else
      let s ← storeLits litD litB (lits.take insert) s
      storeCmdLoop litD litB cmdD cmdB cs (lits.drop insert) s
    else storeCmdLoop litD litB cmdD cmdB cs lits s

/-- the command histogram of `StoreCommands`: counts of `commands[i] & 0xff` (index panic at
`≥ 128`) plus one for the codes 1, 2, 64, 84 -/
def cmdHistoQ1 (cmds : List Nat) : Out (List Nat) :=
  if cmds.any (fun c => c % 256 ≥ 128) then .panic
  else .ok (bump (bump (bump (bump (histo 128 (cmds.map (· % 256))) 1) 2) 64) 84)

/-- `StoreCommands(m, literals, num_literals, commands, num_commands, storage_ix, storage)` with
`literals = literals[..num_literals]`, `commands = commands[..num_commands]` -/
def storeCommands (lits cmds : List Nat) (s : Sto) : Out Sto := do
  let (litD, litB, w) ← buildAndStoreHuffmanTreeFast (histo 256 lits) lits.length 8
    (List.replicate 256 0) (List.replicate 256 0) []
  let s ← blit w s
  let ch ← cmdHistoQ1 cmds
  let (cmdD, cmdB, w) ← buildAndStoreCommandPrefixCodeQ1 ch (List.replicate 128 0) (List.replicate 128 0) []
  let s ← blit w s
  storeCmdLoop litD litB cmdD cmdB cmds lits s

/-! ## quality 1: the fragment -/

def kBlockSize : Nat := 131072

/-- one block of `compress_fragment_two_pass_impl` once `CreateCommands` has run -/
def storeBlock (block lits cmds : List Nat) (compress : Bool) (s : Sto) : Out Sto :=
  if compress then do
    let s ← storeMetaBlockHeader block.length false s
    let s ← writeBits 13 0 s
    storeCommands lits cmds s
  else emitUncompressedMetaBlock block s

/-- `compress_fragment_two_pass_impl`: `dec k` = what `ShouldCompress` answers for block `k` -/
def twoPassImpl (inp : Array Nat) (tableBits minMatch capLit capCmd : Nat) (dec : Nat → Bool) :
    Nat → Nat → Nat → Nat → Array Int → Sto → Out Sto
  | 0, _, _, _, _, _ => .fuel
  | f + 1, k, inputIndex, inputSize, table, s =>
    if inputSize = 0 then .ok s else do
    let blockSize := min inputSize kBlockSize
    -- an input slice shorter than `input_size` makes `CreateCommands` (the final literal copy) panic
    if inputIndex + blockSize > inp.size then .panic else
    let (table, lits, cmds) ← createCommands inputIndex blockSize inputSize inp table tableBits minMatch capLit capCmd
    let block := (inp.extract inputIndex (inputIndex + blockSize)).toList
    let s ← storeBlock block lits cmds (dec k) s
    twoPassImpl inp tableBits minMatch capLit capCmd dec f (k + 1) (inputIndex + blockSize)
      (inputSize - blockSize) table s

/-- `compress_fragment_two_pass(m, input, input_size, is_last, command_buf, literal_buf, table,
table_size, storage_ix, storage)` -/
def compressFragmentTwoPass (inp : Array Nat) (inputSize : Nat) (isLast : Bool) (capCmd capLit : Nat)
    (table : Array Int) (tableSize : Nat) (dec : Nat → Bool) (s : Sto) : Out Sto := do
  let initialIx := s.ix
  let tableBits := log2 tableSize
  let s ← (if 8 ≤ tableBits ∧ tableBits ≤ 17 then
      twoPassImpl inp tableBits (if tableBits < 15 then 4 else 6) capLit capCmd dec
        (inputSize / kBlockSize + 2) 0 0 inputSize table s
    else Out.ok s)
  let s ← (if wsub s.ix initialIx > 31 + (inputSize * 8) % two64 then do
      let s ← rewindBitPosition initialIx s
      if inputSize > inp.size then Out.panic else
      emitUncompressedMetaBlock (inp.extract 0 inputSize).toList s
    else Out.ok s)
  if isLast then writeLastEmpty s else .ok s

/-! ## quality 0: pieces -/

/-- `UpdateBits(n_bits, bits, pos, array)` -/
def updateBits : Nat → Nat → Nat → Nat → Array Nat → Out (Array Nat)
  | 0, _, _, _, _ => .fuel
  | f + 1, nBits, bits, pos, a =>
    if nBits = 0 then .ok a else
    let bytePos := pos / 8
    let nUnchanged := pos % 8
    let nChanged := min nBits (8 - nUnchanged)
    let total := nUnchanged + nChanged
    if bytePos ≥ a.size then .panic else
    let old := a.getD bytePos 0
    -- mask = !((1 << total) - 1) | ((1 << n_unchanged) - 1); `as u8` of the result
    let unchanged := old / 2 ^ total * 2 ^ total + old % 2 ^ nUnchanged
    let changed := bits % 2 ^ nChanged
    updateBits f (nBits - nChanged) (bits / 2 ^ nChanged) (pos + nChanged)
      (a.setIfInBounds bytePos ((changed * 2 ^ nUnchanged + unchanged) % 256))

/-- the histogram `BuildAndStoreLiteralPrefixCode` hands to the fast builder, and its
`histogram_total`: exact counts for `input_size < 2^15`, every 29th byte otherwise, then
`+ 2·min(h, 11)` resp. `+ 1 + 2·min(h, 11)` -/
def sampledGo (k : Nat) : Nat → List Nat → List Nat
  | _, [] => []
  | 0, b :: bs => b :: sampledGo k (k - 1) bs
  | i + 1, _ :: bs => sampledGo k i bs

/-- `input[0], input[k], input[2k], …` -/
def sampled (k : Nat) (l : List Nat) : List Nat := sampledGo k 0 l

def literalHistogram (input : List Nat) : List Nat × Nat :=
  if input.length < 32768 then
    let h := histo 256 input
    let h' := h.map fun c => (c + 2 * min c 11) % two32
    (h', input.length + (h.map fun c => 2 * min c 11).sum)
  else
    let h := histo 256 (sampled 29 input)
    let h' := h.map fun c => (c + (1 + 2 * min c 11)) % two32
    (h', (input.length + 28) / 29 + (h.map fun c => 1 + 2 * min c 11).sum)

/-- `BuildAndStoreLiteralPrefixCode`: `(depths, bits, bits written, literal_ratio)` -/
def buildAndStoreLiteralPrefixCode (input : List Nat) (w : Writer) :
    Out (List Nat × List Nat × Writer × Nat) := do
  let (h, total) := literalHistogram input
  let (d, b, w) ← buildAndStoreHuffmanTreeFast h total 8 (List.replicate 256 0) (List.replicate 256 0) w
  let ratio := ((List.range 256).map fun i => (h.getD i 0 * d.getD i 0) % two32).sum
  if total = 0 then .panic else .ok (d, b, w, ratio * 125 / total)

/-! ## SPEC side for quality 1: what a command sequence MEANS (RFC 7932 §4, §5)

The sixty-four command codes of the two-pass writer are the insert-and-copy symbols
`cell·64 + …` of RFC §5 listed in `q1Symbol`; a command sequence is a sequence of RFC commands:
an insert code (copy length 2 with an explicit distance follows unless the block ends), a copy
code from a cell with implicit distance 0, or a copy code from a cell with explicit distance
followed by a distance code.  `replayQ1` decodes the sequence with the RFC tables and executes
it with `BV.MetaBlock.applyCopy` (the reader's own copy semantics). -/

/-- the RFC insert-and-copy symbol of a two-pass command code `< 64` -/
def q1Symbol (code : Nat) : Nat :=
  if code < 8 then 128 + 8 * code
  else if code < 16 then 256 + 8 * (code - 8)
  else if code < 24 then 448 + 8 * (code - 16)
  else if code < 32 then code - 24
  else if code < 40 then 64 + (code - 32)
  else if code < 48 then 128 + (code - 40)
  else if code < 56 then 192 + (code - 48)
  else 384 + (code - 56)

open BV.MetaBlock BV.PrefixArith BV.Recoder in
/-- the copy half of one RFC command: `pos` = bytes of the meta-block produced so far (the insert
included), `out` = output so far, `imp` = "distance symbol 0 is implied by the command symbol",
`cs` = the following command words (the first one must be a distance code when `imp` is false) -/
def stepTail (wo : WordOracle) (window mlen : Nat) (imp : Bool) (cs lits : List Nat) (pos cl : Nat)
    (out : Bytes) (ring : List Int) : Option (RdSt ⊕ (List Nat × List Nat × Nat × RdSt)) :=
  if pos = mlen then
    (if cs.isEmpty ∧ lits.isEmpty then some (.inl ⟨out, ring⟩) else none)
  else if imp then
    match applyCopy wo window 0 0 mlen pos cl out ring 0 0 with
    | none => none
    | some (n, st') => some (.inr (cs, lits, pos + n, st'))
  else
    match cs with
    | [] => none
    | dcmd :: cs' =>
      if dcmd % 256 < 64 ∨ dcmd % 256 ≥ 128 ∨ dcmd / 256 ≥ 2 ^ kNumExtraBits.getD (dcmd % 256) 0 then none else
      match applyCopy wo window 0 0 mlen pos cl out ring (dcmd % 256 - 64) (dcmd / 256) with
      | none => none
      | some (n, st') => some (.inr (cs', lits, pos + n, st'))

open BV.MetaBlock BV.PrefixArith BV.Recoder in
/-- One RFC command of a two-pass command buffer (one or two command words): `none` = rejected,
`inl st` = the meta-block is complete in state `st`, `inr (cs, lits, done, st)` = continue.
`done` = bytes of the meta-block produced so far, `st` = the reader state (output so far, distance
ring).  Every code word must be in range (`code < 128`, `extra < 2^kNumExtraBits[code]`), the
codes 0 (insert length 0) and 40 (copy length 2) must not occur (`BuildAndStoreCommandPrefixCode`
maps both to the RFC symbol 128 and orders code 0 behind the codes 41..47 when it computes the bit
patterns but before them in the stored code: the writer is only correct without them;
`CreateCommands` never emits them). -/
def stepQ1 (wo : WordOracle) (window mlen : Nat) (cmd : Nat) (cs lits : List Nat) (done : Nat) (st : RdSt) :
    Option (RdSt ⊕ (List Nat × List Nat × Nat × RdSt)) :=
  let code := cmd % 256
  let extra := cmd / 256
  if code ≥ 64 ∨ code = 0 ∨ code = 40 ∨ extra ≥ 2 ^ kNumExtraBits.getD code 0 ∨ done ≥ mlen then none else
  match rfcInsTable[(rfcCmdDecode (q1Symbol code)).1]?, rfcCopyTable[(rfcCmdDecode (q1Symbol code)).2.1]? with
  | some (ib, _), some (cb, _) =>
    let ins := if code < 24 then ib + extra else ib
    let cl := if code < 24 then cb else cb + extra
    if ins > lits.length ∨ ins > mlen - done then none else
    stepTail wo window mlen (rfcCmdDecode (q1Symbol code)).2.2 cs (lits.drop ins) (done + ins) cl
      (st.out ++ lits.take ins) st.ring
  | _, _ => none

open BV.MetaBlock BV.Recoder in
/-- the command sequence, one unit of fuel per RFC command; at the end the literal buffer must be
consumed exactly and exactly `mlen` bytes produced -/
def replayGo (wo : WordOracle) (window mlen : Nat) : Nat → List Nat → List Nat → Nat → RdSt → Option RdSt
  | 0, _, _, _, _ => none
  | _ + 1, [], lits, done, st => if lits.isEmpty ∧ done = mlen then some st else none
  | f + 1, cmd :: cs, lits, done, st =>
    match stepQ1 wo window mlen cmd cs lits done st with
    | none => none
    | some (.inl fin) => some fin
    | some (.inr (cs', lits', done', st')) => replayGo wo window mlen f cs' lits' done' st'

open BV.MetaBlock BV.Recoder in
/-- Replay of a two-pass command buffer against the RFC semantics: the final reader state
(at most `mlen` RFC commands: each one produces at least one byte) -/
def replayQ1 (wo : WordOracle) (window mlen : Nat) (cmds lits : List Nat) (done : Nat) (st : RdSt) : Option RdSt :=
  replayGo wo window mlen (mlen + 1) cmds lits done st

end BV.Fragment
