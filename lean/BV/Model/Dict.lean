/-
M15 `Dict` — custom (prefix) dictionary book-keeping (C10).

ENCODER side, mirrored from `src/enc/encode.rs`:
`RingBufferSetup`, `RingBufferInitBuffer`, `RingBufferWriteTail`, `RingBufferWrite`,
`copy_input_to_ring_buffer`, `set_custom_dictionary_with_optional_precomputed_hasher`
(without the match index: `HasherPrependCustomDictionary` is C19's subject) and the
`max_distance` computation of `CreateBackwardReferences`
(`src/enc/backward_references/mod.rs`).  `SanitizeParams`, `ComputeLgBlock`, `ComputeRbBits`,
the header window come from `BV.Model.Header` (literals harvested from the source).

DECODER side: a small HAND model of what brotli-decompressor 4.0.3 does with a custom
dictionary (read from its `decode.rs`/`state.rs`; tied to the real decoder only by the
differential decode of engine `dict`): `BrotliAllocateRingBuffer` (tail truncation to
`2^wbits − 16`, placement at `(−d') & mask`, the two zeroed context bytes), the sticky
`max_distance` update in `ProcessCommandsInternal`, the literal context bytes.

Byte strings that may be 16 MiB long (dictionary, ring allocation) are functions `Nat → Nat`
with an explicit length, so that the compiled driver can digest them without building lists.
Rust panics (slice ranges, u32 shifts) are the outcome `none`.
-/
import BV.Model.Header

namespace BV.Dict
open BV.Header

/-! ### the generated dictionary of the harness -/

/-- `gen_dict(seed, n)[i]` of `harness/src/dict.rs` -/
def dictGen (seed i : Nat) : Nat := (i * 7 + (i / 8) * 13 + seed) % 251

/-- `gen_in(seed, j)` of `harness/src/dict.rs` -/
def inGen (seed j : Nat) : Nat := (j * 11 + (j / 32) * 3 + seed) % 253

/-! ### encoder ring buffer -/

/-- `RingBuffer` (`data_mo` as length + content function; unallocated = length 0) -/
structure Ring where
  size : Nat
  mask : Nat
  tailSize : Nat
  totalSize : Nat
  curSize : Nat
  pos : Nat
  bufferIndex : Nat
  dataLen : Nat
  data : Nat → Nat

/-- `RingBufferSetup` (u32 shifts: a shift count ≥ 32 is a panic) -/
def ringBufferSetup (p : Params) : Option Ring :=
  let wb := computeRbBits p
  let tb := p.lgblock
  if wb < 0 ∨ wb ≥ 32 ∨ tb < 0 ∨ tb ≥ 32 then none
  else
    let size := 2 ^ wb.toNat
    let tail := 2 ^ tb.toNat
    some { size := size, mask := size - 1, tailSize := tail, totalSize := (size + tail) % 2 ^ 32,
           curSize := 0, pos := 0, bufferIndex := 0, dataLen := 0, data := fun _ => 0 }

/-- overwrite `[lo, lo+n)` of `old` with `src[0..n)` -/
def blit (old : Nat → Nat) (lo n : Nat) (src : Nat → Nat) : Nat → Nat :=
  fun i => if lo ≤ i ∧ i < lo + n then src (i - lo) else old i

/-- `RingBufferInitBuffer(m, buflen, rb)` (fresh memory is zeroed: `alloc_cell`) -/
def ringBufferInitBuffer (buflen : Nat) (rb : Ring) : Option Ring :=
  let newLen := (2 + buflen) % 2 ^ 32 + 7
  let lim := (2 + rb.curSize) % 2 ^ 32 + 7
  if rb.dataLen ≠ 0 ∧ (lim > newLen ∨ lim > rb.dataLen) then none
  else
    let d0 : Nat → Nat := if rb.dataLen ≠ 0 then (fun i => if i < lim then rb.data i else 0) else (fun _ => 0)
    -- rb.data_mo[0] = 0; [1] = 0; [2 + cur_size + i] = 0 (i < 7)   (all inside the new allocation)
    let d1 : Nat → Nat := fun i => if i < 2 ∨ (2 + buflen ≤ i ∧ i < 2 + buflen + 7) then 0 else d0 i
    if 2 + buflen + 7 > newLen then none
    else some { rb with data := d1, dataLen := newLen, curSize := buflen, bufferIndex := 2 }

/-- `RingBufferWriteTail(bytes, n, rb)`; `blen` = `bytes.len()` -/
def ringBufferWriteTail (bytes : Nat → Nat) (blen n : Nat) (rb : Ring) : Option Ring :=
  let maskedPos := rb.pos &&& rb.mask
  if maskedPos < rb.tailSize then
    let begin := rb.bufferIndex + (rb.size + maskedPos)
    let lim := min n (rb.tailSize - maskedPos)
    if begin + lim > rb.dataLen ∨ lim > blen then none
    else some { rb with data := blit rb.data begin lim bytes }
  else some rb

/-- `RingBufferWrite(m, bytes, n, rb)` -/
def ringBufferWrite (bytes : Nat → Nat) (blen n : Nat) (rb : Ring) : Option Ring :=
  if rb.pos = 0 ∧ n < rb.tailSize then
    -- small first allocation
    match ringBufferInitBuffer (n % 2 ^ 32) { rb with pos := n % 2 ^ 32 } with
    | none => none
    | some rb =>
      if rb.bufferIndex + n > rb.dataLen ∨ n > blen then none
      else some { rb with data := blit rb.data rb.bufferIndex n bytes }
  else
    let rb? : Option Ring :=
      if rb.curSize < rb.totalSize then
        match ringBufferInitBuffer rb.totalSize rb with
        | none => none
        | some rb =>
          if rb.bufferIndex + rb.size < 2 ∨ rb.bufferIndex + rb.size - 1 ≥ rb.dataLen then none
          else
            let a := rb.bufferIndex + rb.size - 2
            some { rb with data := fun i => if i = a ∨ i = a + 1 then 0 else rb.data i }
      else some rb
    match rb? with
    | none => none
    | some rb =>
      let maskedPos := rb.pos &&& rb.mask
      match ringBufferWriteTail bytes blen n rb with
      | none => none
      | some rb =>
        let w? : Option Ring :=
          if maskedPos + n ≤ rb.size then
            let start := rb.bufferIndex + maskedPos
            if start + n > rb.dataLen ∨ n > blen then none
            else some { rb with data := blit rb.data start n bytes }
          else
            let start := rb.bufferIndex + maskedPos
            if rb.totalSize < maskedPos then none else
            let mid := min n (rb.totalSize - maskedPos)
            if start + mid > rb.dataLen ∨ mid > blen then none else
            let d1 := blit rb.data start mid bytes
            if rb.size < maskedPos ∨ n < rb.size - maskedPos then none else
            let sz := n - (rb.size - maskedPos)
            let bytesStart := rb.size - maskedPos
            if rb.bufferIndex + sz > rb.dataLen ∨ bytesStart + sz > blen then none
            else some { rb with data := blit d1 rb.bufferIndex sz (fun i => bytes (bytesStart + i)) }
        match w? with
        | none => none
        | some rb =>
          if rb.bufferIndex < 2 ∨ rb.bufferIndex + rb.size - 1 ≥ rb.dataLen ∨ rb.bufferIndex + rb.size < 2 then none
          else
            let d2 := rb.data (rb.bufferIndex + rb.size - 2)
            let dA : Nat → Nat := fun i => if i = rb.bufferIndex - 2 then d2 else rb.data i
            let d1 := dA (rb.bufferIndex + rb.size - 1)
            let dB : Nat → Nat := fun i => if i = rb.bufferIndex - 1 then d1 else dA i
            let pos := (rb.pos + n % 2 ^ 32) % 2 ^ 32
            let pos := if pos > 2 ^ 30 then (pos &&& (2 ^ 30 - 1)) ||| 2 ^ 30 else pos
            some { rb with data := dB, pos := pos }

/-! ### encoder state touched by `set_custom_dictionary` -/

structure Enc where
  params : Params
  ring : Ring
  inputPos : Nat
  lastFlushPos : Nat
  lastProcessedPos : Nat
  prevByte : Nat
  prevByte2 : Nat
  customDictionary : Bool
  recoderPos : Nat           -- `recoder_state.num_bytes_encoded`

/-- `BrotliEncoderStateStruct::new` + first `ensure_initialized` -/
def encInit (p0 : Params) : Option Enc :=
  let i := ensureInitialized true p0
  match ringBufferSetup i.params with
  | none => none
  | some rb => some { params := i.params, ring := rb, inputPos := 0, lastFlushPos := 0, lastProcessedPos := 0,
                      prevByte := 0, prevByte2 := 0, customDictionary := false, recoderPos := 0 }

/-- `copy_input_to_ring_buffer(input_size, input_buffer)` -/
def copyInputToRingBuffer (bytes : Nat → Nat) (blen n : Nat) (s : Enc) : Option Enc :=
  match ringBufferWrite bytes blen n s.ring with
  | none => none
  | some rb =>
    let s := { s with ring := rb, inputPos := (s.inputPos + n) % 2 ^ 64 }
    if rb.pos ≤ rb.mask then
      let start := rb.bufferIndex + rb.pos
      if start + 7 > rb.dataLen then none
      else some { s with ring := { rb with data := fun i => if start ≤ i ∧ i < start + 7 then 0 else rb.data i } }
    else some s

/-- `set_custom_dictionary_with_optional_precomputed_hasher(size, dict, Uninit)`;
`dlen` = `dict.len()` (the callers pass `size = dict.len()`). -/
def setCustomDictionary (p0 : Params) (size : Nat) (dict : Nat → Nat) (dlen : Nat) : Option Enc :=
  match encInit p0 with
  | none => none
  | some s =>
    -- `(1usize << lgwin).wrapping_sub(16)` with the SANITISED lgwin (10 ≤ lgwin ≤ 30)
    if s.params.lgwin < 0 ∨ s.params.lgwin ≥ 64 then none else
    let maxDictSize := 2 ^ s.params.lgwin.toNat - 16
    if size = 0 ∨ s.params.quality = 0 ∨ s.params.quality = 1 then
      some { s with params := { s.params with catable := true, appendable := true } }
    else
      let s := { s with customDictionary := true }
      -- `dict = &dict[size - max_dict_size ..]`
      let cut? : Option (Nat × Nat × Nat) :=     -- (offset into dict, new dict.len(), dict_size)
        if size > maxDictSize then
          if size - maxDictSize > dlen then none else some (size - maxDictSize, dlen - (size - maxDictSize), maxDictSize)
        else some (0, dlen, size)
      match cut? with
      | none => none
      | some (o, dl, dictSize) =>
        let d : Nat → Nat := fun i => dict (o + i)
        match copyInputToRingBuffer d dl dictSize s with
        | none => none
        | some s =>
          let s := { s with recoderPos := dictSize, lastFlushPos := dictSize, lastProcessedPos := dictSize }
          if dictSize > dl then none else          -- dict[dict_size - 1]
          let s := if dictSize > 0 then { s with prevByte := d (dictSize - 1) } else s
          let s := if dictSize > 1 then { s with prevByte2 := d (dictSize - 2) } else s
          some s

/-- `CreateBackwardReferences`: `max_distance = min(position, max_backward_limit)` with
`max_backward_limit = (1 << params.lgwin) − 16` -/
def encMaxDistance (lgwin : Nat) (position : Nat) : Nat := min position (2 ^ lgwin - 16)

/-- the byte the encoder's ring buffer holds for stream position `p` -/
def Ring.at (rb : Ring) (p : Nat) : Nat := rb.data (rb.bufferIndex + (p &&& rb.mask))

/-! ### decoder hand model (brotli-decompressor 4.0.3) -/

/-- a decoder that was given a custom dictionary of `d` bytes and read window bits `wbits` -/
structure Dec where
  wbits : Nat
  d : Nat
  dict : Nat → Nat

/-- `max_backward_distance = (1 << window_bits) − kBrotliWindowGap` -/
def Dec.mbd (D : Dec) : Nat := 2 ^ D.wbits - 16
/-- `custom_dict_size` after the truncation in `BrotliAllocateRingBuffer` -/
def Dec.dEff (D : Dec) : Nat := min D.d (2 ^ D.wbits - 16)
/-- `max_backward_distance_minus_custom_dict_size` (computed with the UNtruncated size) -/
def Dec.mbdMinus (D : Dec) : Int := (D.mbd : Int) - (D.d : Int)

/-- the sticky update before each distance is interpreted (`pos` = ring position, = stream position
before the first wrap) -/
def Dec.stepMax (D : Dec) (cur pos : Nat) : Nat :=
  if cur ≠ D.mbd then (if (pos : Int) < D.mbdMinus then pos + D.dEff else D.mbd) else cur

/-- the decoder's `max_distance` after visiting the positions `ps` in order (initial value 0) -/
def Dec.runMax (D : Dec) : Nat → List Nat → Nat
  | cur, [] => cur
  | cur, p :: ps => Dec.runMax D (D.stepMax cur p) ps

/-- ring buffer right after `BrotliAllocateRingBuffer` with `ringbuffer_size = 2^rbits`:
two zeroed context bytes, then the dictionary tail at `(−d') & mask` -/
def Dec.ring (D : Dec) (rbits : Nat) : Nat → Nat :=
  let R := 2 ^ rbits
  fun i =>
    if D.dEff ≠ 0 ∧ R - D.dEff ≤ i ∧ i < R then D.dict (D.d - D.dEff + (i - (R - D.dEff)))
    else 0

/-- byte the decoder finds `k ≥ 1` positions before stream position 0 (ring index `(−k) & mask`) -/
def Dec.before (D : Dec) (rbits k : Nat) : Nat := D.ring rbits (2 ^ rbits - k)

/-- literal context bytes at stream position 0: `ringbuffer[(pos−1) & mask]`, `[(pos−2) & mask]` -/
def Dec.ctx1 (D : Dec) (rbits : Nat) : Nat := D.before rbits 1
def Dec.ctx2 (D : Dec) (rbits : Nat) : Nat := D.before rbits 2


/-! ### decoder copy path (brotli-decompressor 4.0.3 `decode.rs`): ring shrink + speculative 16-byte copy

`BrotliAllocateRingBuffer` halves the ring while the first data meta-block is the last one and the ring is at least twice
`custom_dict_size + meta_block_remaining_len`; `ProcessCommandsInternal` performs every LZ77 copy speculatively with
`memmove16` BEFORE it tests for wrap / overlap.  The ring is a function `Nat → Nat` over the allocation
`ringbuffer_size + 42 + 24` (fresh memory zeroed).  A single last meta-block never wraps the ring
(`ringbuffer_size ≥ d' + mlen`), so the wrap-out of `COMMAND_POST_WRAP_COPY` is not modelled. -/

/-- the `while is_last && size >= 2 * (d' + mlen) && size > 32 { size >>= 1 }` loop -/
def shrinkLoop : Nat → Nat → Nat → Nat
  | 0, size, _ => size
  | fuel + 1, size, need => if size ≥ need * 2 ∧ size > 32 then shrinkLoop fuel (size / 2) need else size

/-- `ringbuffer_size` chosen by `BrotliAllocateRingBuffer` for a first meta-block of `mlen` bytes -/
def Dec.ringSize (D : Dec) (isLast : Bool) (mlen : Nat) : Nat :=
  if isLast then shrinkLoop D.wbits (2 ^ D.wbits) (D.dEff + mlen) else 2 ^ D.wbits

/-- ring right after allocation with `ringbuffer_size = R`: zeros, then the dictionary tail at `(−d') & mask` -/
def Dec.ringAt (D : Dec) (R : Nat) : Nat → Nat :=
  fun i => if D.dEff ≠ 0 ∧ R - D.dEff ≤ i ∧ i < R then D.dict (D.d - D.dEff + (i - (R - D.dEff))) else 0

/-- `memmove16(data, dst, src)`: 16 bytes are read into a local array, then written -/
def memmove16 (ring : Nat → Nat) (dst src : Nat) : Nat → Nat :=
  fun j => if dst ≤ j ∧ j < dst + 16 then ring (src + (j - dst)) else ring j

/-- `memcpy_within_slice(data, dst, src, n)` (safe build: `split_at_mut`, so overlapping ranges panic = `none`) -/
def memcpyWithin (ring : Nat → Nat) (dst src n : Nat) : Option (Nat → Nat) :=
  if dst > src then
    if src + n ≤ dst then some (fun j => if dst ≤ j ∧ j < dst + n then ring (src + (j - dst)) else ring j) else none
  else
    if dst + n ≤ src then some (fun j => if dst ≤ j ∧ j < dst + n then ring (src + (j - dst)) else ring j) else none

/-- `(pos - distance) & ringbuffer_mask` in i32 arithmetic, `distance ≤ pos + R` -/
def srcIndex (R pos dist : Nat) : Nat := (pos + R - dist) % R

/-- `COMMAND_POST_WRAP_COPY`: byte by byte, `ring[pos] = ring[(pos - distance) & mask]` -/
def wrapCopyLoop (R dist : Nat) : Nat → (Nat → Nat) → Nat → (Nat → Nat)
  | 0, ring, _ => ring
  | i + 1, ring, pos =>
    wrapCopyLoop R dist i (fun j => if j = pos then ring (srcIndex R pos dist) else ring j) (pos + 1)

/-- one LZ77 copy of `i` bytes at distance `dist` in a ring of size `R` (allocation `R + 66`): the speculative
`memmove16`, the two tests, then either the byte-wise wrap copy or the rest of the block copy.
Returns the ring (the position advances by `i`); `none` = slice panic. -/
def decCopy (R : Nat) (ring : Nat → Nat) (pos dist i : Nat) : Option (Nat → Nat) :=
  let srcStart := srcIndex R pos dist
  let dstEnd := pos + i
  let srcEnd := srcStart + i
  if srcStart + 16 > R + 66 ∨ pos + 16 > R + 66 then none else
  let ring1 := memmove16 ring pos srcStart
  if srcEnd > pos ∧ dstEnd > srcStart then some (wrapCopyLoop R dist i ring1 pos)
  else if dstEnd ≥ R ∨ srcEnd ≥ R then some (wrapCopyLoop R dist i ring1 pos)
  else if i > 16 then
    if i > 32 then memcpyWithin ring1 (pos + 16) (srcStart + 16) (i - 16)
    else some (memmove16 ring1 (pos + 16) (srcStart + 16))
  else some ring1

/-- what the decoder executes for one command of our abstraction: literal bytes / dictionary word bytes (written
exactly), or an LZ77 copy -/
inductive DecCmd where
  | bytes (b : List Nat)
  | copy (dist len : Nat)

/-- write `b` at `pos` exactly -/
def decWrite (ring : Nat → Nat) (pos : Nat) (b : List Nat) : Nat → Nat :=
  fun j => if pos ≤ j ∧ j < pos + b.length then b.getD (j - pos) 0 else ring j

def decRun (R : Nat) : List DecCmd → (Nat → Nat) → Nat → Option ((Nat → Nat) × Nat)
  | [], ring, pos => some (ring, pos)
  | .bytes b :: rest, ring, pos => decRun R rest (decWrite ring pos b) (pos + b.length)
  | .copy dist len :: rest, ring, pos =>
    match decCopy R ring pos dist len with
    | none => none
    | some ring' => decRun R rest ring' (pos + len)

/-- decoded output of a single last meta-block: ring content at `[0, pos)` -/
def decOutput (D : Dec) (mlen : Nat) (cmds : List DecCmd) : Option (List Nat) :=
  match decRun (D.ringSize true mlen) cmds (D.ringAt (D.ringSize true mlen)) 0 with
  | none => none
  | some (ring, pos) => some ((List.range pos).map ring)

end BV.Dict
