/-
M16 `MetaBlock` — executable model of the two simplest compressed meta-block writers of
`src/enc/brotli_bit_stream.rs`:

* `StoreCompressedMetaBlockHeader` (+ `BrotliEncodeMlen` with its three `assert!`s),
* `BuildHistograms`, `StoreCommandExtra`, `StoreDataWithHuffmanCodes`, `JumpToByteBoundary`,
* `store_meta_block_trivial` (`BrotliStoreMetaBlockTrivial`, quality 3) and
* `store_meta_block_fast` (`BrotliStoreMetaBlockFast`, quality ≤ 2; both branches:
  `n_commands ≤ 128` with the static command / distance codes, and the three
  `BrotliBuildAndStoreHuffmanTreeFast` calls), incl. `StoreStaticCommandHuffmanTree` /
  `StoreStaticDistanceHuffmanTree`.

The prefix-code builders are `BV.Huffman.buildAndStoreHuffmanTree` / `…Fast` (model M4, C17), the
length-code arithmetic is `BV.PrefixArith` (M3, C18), the raw command record is `BV.Recoder.Cmd`
(M12, C14), the bit writer is `BV.Bits.writeBits`.

Conventions: `usize = u64`; `as uN` is an explicit `% 2^N`; `wrapping_*` is explicit; a slice index
out of range / `assert!` is `.panic`.  `&mut storage, storage_ix` is the `Writer` (bits so far).
`commands[..n_commands]` is the list `cmds` (the callers pass `n_commands = commands.len()` or a
prefix; `n_commands > commands.len()` would be an index panic in the first loop).
The `params.log_meta_block` branch (`LogMetaBlock`) is model M12 and is not repeated here
(`log_meta_block = false`); `InputPairFromMaskedInput`, which is evaluated unconditionally and can
panic on its slices, is.

SPEC side (independent of the writers), at the end of the file: `readCompressedMetaBlock`, an
RFC 7932 §9.2 / §9.3 / §10 reader of one compressed meta-block restricted to NBLTYPES = 1 for the
three categories and NTREES = 1 (anything else is reported as `none` = outside the subset), and
`readStream` (§9.1 window bits + a sequence of meta-blocks).
-/
import BV.Model.Huffman
import BV.Model.Recoder
import BV.Lemmas.HeaderSpec

namespace BV.MetaBlock
open BV.Gen BV.Bits BV.Huffman BV.PrefixArith BV.Recoder

def two32 : Nat := 4294967296
def two64 : Nat := 18446744073709551616

/-- `Command::copy_len()`: `copy_len_ & 0x1ffffff` -/
def copyLen (c : Cmd) : Nat := c.copyLenField % 33554432

/-! ### `StoreCompressedMetaBlockHeader` -/

/-- `StoreCompressedMetaBlockHeader(is_final_block, length, …)`.  `BrotliEncodeMlen(length as u32, …)`
asserts `length > 0`, `length <= 1 << 24`, `lg <= 24` (the third is implied by the second);
`nlenbits as u8`. -/
def storeCompressedMetaBlockHeader (isLast : Bool) (length : Nat) (w : Writer) : Out Writer := do
  let w ← writeBits 1 (if isLast then 1 else 0) w
  let w ← (if isLast then writeBits 1 0 w else Out.ok w)
  let len32 := length % two32
  if len32 = 0 ∨ len32 > 16777216 then .panic
  else
    let m := encodeMlen len32
    let w ← writeBits 2 m.2.2 w
    let w ← writeBits (m.2.1 % 256) m.1 w
    if isLast then .ok w else writeBits 1 0 w

/-! ### histograms -/

/-- `HistogramLiteral / HistogramCommand / HistogramDistance`: `data_` and `total_count_` -/
structure Histo where
  data : List Nat
  total : Nat
deriving Repr, DecidableEq

def Histo.zero (n : Nat) : Histo := ⟨List.replicate n 0, 0⟩

/-- `HistogramAddItem`: `data_[val] = data_[val].wrapping_add(1)` (u32), `total_count_.wrapping_add(1)` (usize) -/
def histoAdd (h : Histo) (v : Nat) : Out Histo :=
  match h.data[v]? with
  | none => .panic
  | some c => .ok ⟨h.data.set v ((c + 1) % two32), (h.total + 1) % two64⟩

/-- `j = insert_len; while j != 0 { HistogramAddItem(lit_histo, input[pos & mask]); pos += 1; j -= 1 }` -/
def histoLits (ring : Bytes) (mask : Nat) : Nat → Nat → Histo → Out (Histo × Nat)
  | 0, pos, h => .ok (h, pos)
  | j + 1, pos, h => do
    let b ← getAt ring (pos &&& mask)
    let h ← histoAdd h b
    histoLits ring mask j ((pos + 1) % two64) h

/-- `BuildHistograms(input, start_pos, mask, commands, n_commands, lit, cmd, dist)` -/
def buildHistograms (ring : Bytes) (mask : Nat) : List Cmd → Nat → Histo × Histo × Histo →
    Out (Histo × Histo × Histo)
  | [], _, hs => .ok hs
  | c :: cs, pos, (lit, cmd, dist) => do
    let cmd ← histoAdd cmd c.cmdPrefix
    let (lit, pos) ← histoLits ring mask c.insertLen pos lit
    let pos := (pos + copyLen c) % two64
    let dist ← (if copyLen c ≠ 0 ∧ c.cmdPrefix ≥ 128 then histoAdd dist (c.distPrefix % 1024) else Out.ok dist)
    buildHistograms ring mask cs pos (lit, cmd, dist)

/-! ### `StoreCommandExtra`, `StoreDataWithHuffmanCodes` -/

/-- `StoreCommandExtra(cmd, …)`: `kInsExtra[inscode]`, `kInsBase[inscode]`, `kCopyBase[copycode]`,
`kCopyExtra[copycode]` are slice reads (a `copy_len_code < 2` makes `GetCopyLengthCode` wrap to
65534/65535: index panic); the subtractions are `wrapping_sub` on `u32`; `copyextraval <<
insnumextra` is a `u64` shift by `≤ 24`. -/
def storeCommandExtraM (c : Cmd) (w : Writer) : Out Writer := do
  let clc := copyLenCode c.copyLenField
  let ic := getInsertLengthCode c.insertLen
  let cc := getCopyLengthCode clc
  let insExtra ← getAt kInsExtra ic
  let insBase ← getAt kInsBase ic
  let copyBase ← getAt kCopyBase cc
  let copyExtra ← getAt kCopyExtra cc
  let insextraval := (c.insertLen + two32 - insBase) % two32
  let copyextraval := (clc + two32 - copyBase) % two32
  let bits := ((copyextraval * 2 ^ insExtra) % two64) ||| insextraval
  writeBits ((insExtra + copyExtra) % 256) bits w

/-- `BrotliWriteBits(depth[s], bits[s] as u64, …)` -/
def storeSym (depth bits : List Nat) (s : Nat) (w : Writer) : Out Writer := do
  let d ← getAt depth s
  let b ← getAt bits s
  writeBits d b w

/-- the literal loop of `StoreDataWithHuffmanCodes` -/
def storeLits (ring : Bytes) (mask : Nat) (litDepth litBits : List Nat) :
    Nat → Nat → Writer → Out (Writer × Nat)
  | 0, pos, w => .ok (w, pos)
  | j + 1, pos, w => do
    let b ← getAt ring (pos &&& mask)
    let w ← storeSym litDepth litBits b w
    storeLits ring mask litDepth litBits j ((pos + 1) % two64) w

/-- `StoreDataWithHuffmanCodes(input, start_pos, mask, commands, n_commands, lit_depth, lit_bits,
cmd_depth, cmd_bits, dist_depth, dist_bits, …)` -/
def storeData (ring : Bytes) (mask : Nat) (litDepth litBits cmdDepth cmdBits distDepth distBits : List Nat) :
    List Cmd → Nat → Writer → Out Writer
  | [], _, w => .ok w
  | c :: cs, pos, w => do
    let w ← storeSym cmdDepth cmdBits c.cmdPrefix w
    let w ← storeCommandExtraM c w
    let (w, pos) ← storeLits ring mask litDepth litBits c.insertLen pos w
    let pos := (pos + copyLen c) % two64
    let w ← (if copyLen c ≠ 0 ∧ c.cmdPrefix ≥ 128 then do
        let w ← storeSym distDepth distBits (c.distPrefix % 1024) w
        writeBits ((c.distPrefix / 1024) % 256) c.distExtra w
      else Out.ok w)
    storeData ring mask litDepth litBits cmdDepth cmdBits distDepth distBits cs pos w

/-- `JumpToByteBoundary`: `storage_ix = (storage_ix + 7) & !7` (the skipped bits of the zeroed
storage are zero; `storage[ix >> 3] = 0` is inside the storage by (W2) of `BV.Bits`) -/
def jumpToByteBoundary (w : Writer) : Writer := w ++ List.replicate ((8 - w.length % 8) % 8) false

/-- the zero-initialised `[HuffmanTree; 2 * 704 + 1]` scratch -/
def scratchTree : List Node := List.replicate 1409 ⟨0, 0, 0⟩

/-- `InputPairFromMaskedInput` evaluated for its panics only -/
def inputPairCheck (ring : Bytes) (start length mask : Nat) : Out Unit :=
  match inputPairFromMaskedInput ring start length mask with
  | none => .panic
  | some _ => .ok ()

/-! ### `store_meta_block_trivial` -/

/-- `store_meta_block_trivial(alloc, input, start_pos, length, mask, is_last, params, …, commands,
n_commands, …, storage_ix, storage, …)` with `params.log_meta_block = false`;
`distAlphabet = params.dist.alphabet_size`.  The three code tables are returned too (for the lemmas). -/
def storeMetaBlockTrivial (ring : Bytes) (start length mask : Nat) (isLast : Bool) (distAlphabet : Nat)
    (cmds : List Cmd) (w : Writer) : Out Writer := do
  inputPairCheck ring start length mask
  let w ← storeCompressedMetaBlockHeader isLast length w
  let (lit, cmd, dist) ← buildHistograms ring mask cmds start
    (Histo.zero BROTLI_NUM_LITERAL_SYMBOLS, Histo.zero BROTLI_NUM_COMMAND_SYMBOLS,
     Histo.zero BROTLI_NUM_HISTOGRAM_DISTANCE_SYMBOLS)
  let w ← writeBits 13 0 w
  let (litDepth, litBits, w) ← buildAndStoreHuffmanTree lit.data BROTLI_NUM_LITERAL_SYMBOLS
    BROTLI_NUM_LITERAL_SYMBOLS scratchTree (List.replicate 256 0) (List.replicate 256 0) w
  let (cmdDepth, cmdBits, w) ← buildAndStoreHuffmanTree cmd.data BROTLI_NUM_COMMAND_SYMBOLS
    BROTLI_NUM_COMMAND_SYMBOLS scratchTree (List.replicate 704 0) (List.replicate 704 0) w
  let (distDepth, distBits, w) ← buildAndStoreHuffmanTree dist.data MAX_SIMPLE_DISTANCE_ALPHABET_SIZE
    distAlphabet scratchTree (List.replicate MAX_SIMPLE_DISTANCE_ALPHABET_SIZE 0)
    (List.replicate MAX_SIMPLE_DISTANCE_ALPHABET_SIZE 0) w
  let w ← storeData ring mask litDepth litBits cmdDepth cmdBits distDepth distBits cmds start w
  .ok (if isLast then jumpToByteBoundary w else w)

/-! ### `store_meta_block_fast` -/

/-- `StoreStaticCommandHuffmanTree` -/
def storeStaticCommandHuffmanTree (w : Writer) : Out Writer := do
  let w ← writeBits 56 0x0092624416307003 w
  writeBits 3 0 w

/-- `StoreStaticDistanceHuffmanTree` -/
def storeStaticDistanceHuffmanTree (w : Writer) : Out Writer := writeBits 28 0x0369dc03 w

/-- the literal-histogram loop of the `n_commands <= 128` branch: `[u32; 256]` with `wrapping_add`,
`num_literals` (usize, `wrapping_add`) -/
def fastLitHisto (ring : Bytes) (mask : Nat) : List Cmd → Nat → List Nat → Nat → Out (List Nat × Nat)
  | [], _, h, n => .ok (h, n)
  | c :: cs, pos, h, n => do
    let (h', pos) ← histoLits ring mask c.insertLen pos ⟨h, 0⟩
    fastLitHisto ring mask cs ((pos + copyLen c) % two64) h'.data ((n + c.insertLen) % two64)

/-- `store_meta_block_fast(…)` with `params.log_meta_block = false`.
The static command / distance codes are used for `n_commands <= 128 && num_distance_symbols <=
kStaticDistanceCodeDepth.len()` (the second conjunct is the fix of the large-window panic, see
`/verif/proposed/fast-static-distance-large-window.md`).
`Log2FloorNonZero(u64::from(num_distance_symbols) - 1) + 1`: the subtraction underflows for an
alphabet size of 0 (panic under debug semantics). -/
def storeMetaBlockFast (ring : Bytes) (start length mask : Nat) (isLast : Bool) (distAlphabet : Nat)
    (cmds : List Cmd) (w : Writer) : Out Writer := do
  inputPairCheck ring start length mask
  if distAlphabet = 0 then .panic else
  let distanceAlphabetBits := log2Floor (distAlphabet - 1) + 1
  let w ← storeCompressedMetaBlockHeader isLast length w
  let w ← writeBits 13 0 w
  let w ← (if cmds.length ≤ 128 ∧ distAlphabet ≤ kStaticDistanceCodeDepth.length then do
      let (histogram, numLiterals) ← fastLitHisto ring mask cmds start (List.replicate 256 0) 0
      let (litDepth, litBits, w) ← buildAndStoreHuffmanTreeFast histogram numLiterals 8
        (List.replicate 256 0) (List.replicate 256 0) w
      let w ← storeStaticCommandHuffmanTree w
      let w ← storeStaticDistanceHuffmanTree w
      storeData ring mask litDepth litBits kStaticCommandCodeDepth kStaticCommandCodeBits
        kStaticDistanceCodeDepth kStaticDistanceCodeBits cmds start w
    else do
      let (lit, cmd, dist) ← buildHistograms ring mask cmds start
        (Histo.zero BROTLI_NUM_LITERAL_SYMBOLS, Histo.zero BROTLI_NUM_COMMAND_SYMBOLS,
         Histo.zero BROTLI_NUM_HISTOGRAM_DISTANCE_SYMBOLS)
      let (litDepth, litBits, w) ← buildAndStoreHuffmanTreeFast lit.data lit.total 8
        (List.replicate 256 0) (List.replicate 256 0) w
      let (cmdDepth, cmdBits, w) ← buildAndStoreHuffmanTreeFast cmd.data cmd.total 10
        (List.replicate 704 0) (List.replicate 704 0) w
      let (distDepth, distBits, w) ← buildAndStoreHuffmanTreeFast dist.data dist.total distanceAlphabetBits
        (List.replicate MAX_SIMPLE_DISTANCE_ALPHABET_SIZE 0) (List.replicate MAX_SIMPLE_DISTANCE_ALPHABET_SIZE 0) w
      storeData ring mask litDepth litBits cmdDepth cmdBits distDepth distBits cmds start w)
  .ok (if isLast then jumpToByteBoundary w else w)

/-! ## SPEC side: RFC 7932 reader of a compressed meta-block (restricted subset)

Written from the RFC (§3.4/§3.5 prefix codes via `BV.Huffman.readPrefixCode` / `readSym`, §4 distances
via `BV.Recoder.rfcDistance`, §5 insert-and-copy via `BV.PrefixArith.rfcCmdDecode` / `rfcInsTable` /
`rfcCopyTable`, §8 static dictionary as the oracle `WordOracle`, §9.2 header via
`BV.HeaderSpec.readMetaBlock`, §9.3/§10 the command loop).  Nothing below refers to the writers. -/

/-- §9.2 "variable length code" of NBLTYPES − 1 / NTREES − 1: value 0..255 -/
def readVarLen8 (bs : List Bool) : Option (Nat × List Bool) :=
  match bs with
  | [] => none
  | false :: r => some (0, r)
  | true :: r =>
    match takeBits 3 r with
    | none => none
    | some (n, r) =>
      match takeBits n r with
      | none => none
      | some (e, r) => some (2 ^ n + e, r)

/-- a prefix code as the decoder holds it: a single symbol (zero-length code word, §3.4 NSYM = 1) or
the code lengths of the alphabet -/
inductive Code where
  | single (s : Nat)
  | lens (l : List Nat)
deriving Repr, DecidableEq

/-- §3.4 / §3.5: read one prefix code over an alphabet of `alphabetSize` symbols.  NSYM = 1 is
read here (the symbol must be inside the alphabet); every other form is `readPrefixCode`. -/
def readCode (alphabetSize : Nat) (bs : List Bool) : Option (Code × List Bool) :=
  match takeBits 4 bs with
  | some (1, r) =>
    -- HSKIP = 1 (simple), NSYM − 1 = 0
    match takeBits (alphabetBits alphabetSize) r with
    | some (s, r') => if s < alphabetSize then some (Code.single s, r') else none
    | none => none
  | _ =>
    match readPrefixCode alphabetSize bs with
    | some (l, r) => some (Code.lens l, r)
    | none => none

/-- decode one symbol -/
def Code.read : Code → List Bool → Option (Nat × List Bool)
  | .single s, bs => some (s, bs)
  | .lens l, bs => readSym l bs

/-- §4: size of the distance alphabet: `16 + NDIRECT + (48 << NPOSTFIX)`; with the large-window
extension `16 + NDIRECT + (62 << (NPOSTFIX + 1))` -/
def distAlphabetSize (large : Bool) (npostfix ndirect : Nat) : Nat :=
  if large then 16 + ndirect + 62 * 2 ^ (npostfix + 1) else 16 + ndirect + 48 * 2 ^ npostfix

/-- decoder state across meta-blocks: everything produced so far (preceded by the custom-dictionary
tail, if any) and the ring of the last four distances (`ring[0]` = last) -/
structure RdSt where
  out : Bytes
  ring : List Int
deriving Repr, DecidableEq

/-- read `n` literals with the literal code -/
def readLiterals (lit : Code) : Nat → Bytes → List Bool → Option (Bytes × List Bool)
  | 0, acc, bs => some (acc, bs)
  | n + 1, acc, bs =>
    match lit.read bs with
    | none => none
    | some (b, r) => readLiterals lit n (acc ++ [b]) r

/-- §5: the insert half of a command: the insert-and-copy symbol, the insert extra bits, the copy
extra bits, then `insert length` literals (an insert length beyond MLEN is an error).
Returns (insert length, copy length, "distance symbol 0 is implied", output so far, rest). -/
def readInsert (lit cmd : Code) (mlen done : Nat) (out : Bytes) (bs : List Bool) :
    Option (Nat × Nat × Bool × Bytes × List Bool) :=
  match cmd.read bs with
  | none => none
  | some (sym, bs) =>
    if sym ≥ 704 then none else
    match rfcInsTable[(rfcCmdDecode sym).1]?, rfcCopyTable[(rfcCmdDecode sym).2.1]? with
    | some (ib, ie), some (cb, ce) =>
      match takeBits ie bs with
      | none => none
      | some (e1, bs) =>
        match takeBits ce bs with
        | none => none
        | some (e2, bs) =>
          if ib + e1 > mlen - done then none else
          match readLiterals lit (ib + e1) [] bs with
          | none => none
          | some (lits, bs) => some (ib + e1, cb + e2, (rfcCmdDecode sym).2.2, out ++ lits, bs)
    | _, _ => none

/-- §4 / §8: what a copy of `copyLen` bytes with distance symbol `ds` and extra bits `extra` does:
LZ77 copy if the distance is at most `min(bytes produced so far, window)`, else the static
dictionary word `distance − max_distance − 1`.  `done` = bytes of the meta-block produced so far.
Returns (bytes produced, new state). -/
def applyCopy (wo : WordOracle) (window npostfix ndirect mlen done copyLen : Nat) (out : Bytes)
    (ring : List Int) (ds extra : Nat) : Option (Nat × RdSt) :=
  match rfcDistance npostfix ndirect ring ds extra with
  | none => none
  | some (d, upd) =>
    if d ≤ 0 then none else
    if d.toNat ≤ min out.length window then
      if done + copyLen > mlen then none else
      some (copyLen, ⟨copyBytes copyLen d.toNat out, if upd then d :: ring.take 3 else ring⟩)
    else
      if copyLen < 4 ∨ copyLen > 24 then none else
      match wo copyLen ((d.toNat - min out.length window - 1) % 2 ^ dictSizeBits.getD copyLen 0)
          ((d.toNat - min out.length window - 1) / 2 ^ dictSizeBits.getD copyLen 0) with
      | none => none
      | some word =>
        if done + word.length > mlen then none else some (word.length, ⟨out ++ word, ring⟩)

/-- the copy half of a command: the distance symbol (implied 0 for command symbols < 128), its
extra bits, then `applyCopy` -/
def readCopy (wo : WordOracle) (window npostfix ndirect : Nat) (dist : Code) (mlen done : Nat)
    (implicit0 : Bool) (copyLen : Nat) (out : Bytes) (ring : List Int) (bs : List Bool) :
    Option (Nat × RdSt × List Bool) :=
  match (if implicit0 then some (0, bs) else dist.read bs) with
  | none => none
  | some (ds, bs) =>
    match takeBits (if ds < 16 + ndirect then 0 else rfcDistNBits npostfix ndirect ds) bs with
    | none => none
    | some (extra, bs) =>
      match applyCopy wo window npostfix ndirect mlen done copyLen out ring ds extra with
      | none => none
      | some (n, s) => some (n, s, bs)

/-- §9.3 / §10: the command loop.  `done` = bytes of this meta-block produced so far; the
meta-block ends when MLEN bytes are produced, which may be right after the insert half of a
command.  One unit of fuel per command. -/
def readCommands (wo : WordOracle) (window npostfix ndirect : Nat) (lit cmd dist : Code) (mlen : Nat) :
    Nat → Nat → RdSt → List Bool → Option (RdSt × List Bool)
  | 0, _, _, _ => none
  | f + 1, done, s, bs =>
    if done = mlen then some (s, bs) else
    match readInsert lit cmd mlen done s.out bs with
    | none => none
    | some (ins, cl, imp, out, bs) =>
      if done + ins = mlen then some (⟨out, s.ring⟩, bs) else
      match readCopy wo window npostfix ndirect dist mlen (done + ins) imp cl out s.ring bs with
      | none => none
      | some (n, s', bs) => readCommands wo window npostfix ndirect lit cmd dist mlen f (done + ins + n) s' bs

/-- §9.2 after the meta-block header of a compressed meta-block: block-type / context / tree
counts (all required to be 1 here), NPOSTFIX, NDIRECT, the context mode of the single literal
block type, the three prefix codes, the commands.  Returns the new state and the rest of the bits. -/
def readCompressedBody (wo : WordOracle) (window : Nat) (large : Bool) (mlen : Nat) (s : RdSt)
    (bs : List Bool) : Option (RdSt × List Bool) :=
  match readVarLen8 bs with           -- NBLTYPESL − 1
  | none => none
  | some (nl, bs) =>
    if nl ≠ 0 then none else
    match readVarLen8 bs with         -- NBLTYPESI − 1
    | none => none
    | some (ni, bs) =>
      if ni ≠ 0 then none else
      match readVarLen8 bs with       -- NBLTYPESD − 1
      | none => none
      | some (nd, bs) =>
        if nd ≠ 0 then none else
        match takeBits 2 bs with      -- NPOSTFIX
        | none => none
        | some (npostfix, bs) =>
          match takeBits 4 bs with    -- NDIRECT >> NPOSTFIX
          | none => none
          | some (ndm, bs) =>
            let ndirect := ndm * 2 ^ npostfix
            match takeBits 2 bs with  -- CMODE of literal block type 0
            | none => none
            | some (_, bs) =>
              match readVarLen8 bs with      -- NTREESL − 1
              | none => none
              | some (tl, bs) =>
                if tl ≠ 0 then none else
                match readVarLen8 bs with    -- NTREESD − 1
                | none => none
                | some (td, bs) =>
                  if td ≠ 0 then none else
                  match readCode 256 bs with
                  | none => none
                  | some (lit, bs) =>
                    match readCode 704 bs with
                    | none => none
                    | some (cmd, bs) =>
                      match readCode (distAlphabetSize large npostfix ndirect) bs with
                      | none => none
                      | some (dist, bs) =>
                        readCommands wo window npostfix ndirect lit cmd dist mlen (mlen + 1) 0 s bs

/-- One meta-block of any kind at bit position `pos` of the stream (compressed ones restricted as
above): new state, ISLAST, new position, remaining bits.  After the last meta-block the stream is
padded with zero bits to a byte boundary. -/
def readMetaBlockFull (wo : WordOracle) (window : Nat) (large : Bool) (pos : Nat) (s : RdSt)
    (bs : List Bool) : Option (RdSt × Bool × Nat × List Bool) :=
  match HeaderSpec.readMetaBlock pos bs with
  | none => none
  | some (.lastEmpty, pos', r) => some (s, true, pos', r)
  | some (.metadata _, pos', r) => some (s, false, pos', r)
  | some (.raw payload, pos', r) => some (⟨s.out ++ payload, s.ring⟩, false, pos', r)
  | some (.compressed mlen isLast, pos', r) =>
    match readCompressedBody wo window large mlen s r with
    | none => none
    | some (s', r') =>
      let pos'' := pos' + (r.length - r'.length)
      if isLast then
        match HeaderSpec.skipPad pos'' r' with
        | none => none
        | some r'' => some (s', true, pos'' + (8 - pos'' % 8) % 8, r'')
      else some (s', false, pos'', r')

/-- the meta-blocks of a stream until the last one; `fuel` bounds their number -/
def readMetaBlocks (wo : WordOracle) (window : Nat) (large : Bool) :
    Nat → Nat → RdSt → List Bool → Option (RdSt × List Bool)
  | 0, _, _, _ => none
  | f + 1, pos, s, bs =>
    match readMetaBlockFull wo window large pos s bs with
    | none => none
    | some (s', true, _, r) => some (s', r)
    | some (s', false, pos', r) => readMetaBlocks wo window large f pos' s' r

/-- §9.1 + §9.2: a whole stream (bits of its bytes, first bit first): the decoded bytes.
Everything after the last meta-block must be absent. -/
def readStream (wo : WordOracle) (bs : List Bool) : Option Bytes :=
  match HeaderSpec.readWbits bs with
  | none => none
  | some (lgwin, large, r) =>
    match readMetaBlocks wo (2 ^ lgwin - 16) large (bs.length + 1) (bs.length - r.length)
        ⟨[], [4, 11, 15, 16]⟩ r with
    | some (s, []) => some s.out
    | _ => none

/-! ### hypotheses of the round-trip theorems, as executable checks -/

/-- what the writers assume of one command besides C14's `DistWF`: the command symbol is the one
`Command::init` computes from the lengths and the "distance code 0" flag, the lengths are in the
range of the length codes, a command symbol `< 128` carries distance symbol 0, the distance symbol
is inside the alphabet and — for a command that copies (`copy_len() ≠ 0`) — its NDISTBITS field
and extra bits are consistent -/
def cmdOK (distAlphabet npostfix ndirect : Nat) (c : Cmd) : Bool :=
  let clc := copyLenCode c.copyLenField
  let ds := c.distPrefix % 1024
  decide (c.cmdPrefix = getLengthCode c.insertLen clc (ds == 0)) &&
  decide (c.insertLen ≤ 16777216) && decide (2 ≤ clc) && decide (clc < 16777216 + 2118) &&
  (decide (c.cmdPrefix ≥ 128) || ds == 0) &&
  decide (ds < distAlphabet) && decide (c.distPrefix < 65536) &&
  (decide (copyLen c = 0) ||      -- `init_insert` hard-codes `dist_prefix_ = 1 << 10 | 16`; never written
   (if ds < 16 + ndirect then decide (c.distPrefix / 1024 = 0) && decide (c.distExtra = 0)
    else decide (c.distPrefix / 1024 = rfcDistNBits npostfix ndirect ds) &&
         decide (c.distExtra < 2 ^ (c.distPrefix / 1024)) &&
         decide (rfcDistDecode npostfix ndirect ds c.distExtra < 2 ^ 31)))

/-- the encoder's position bookkeeping agrees with the decoder's: before every command the bytes
the RFC decoder has produced (`cursor`) equal the bytes the writer has skipped
(`Σ insert_len + copy_len()`), a command whose insert part completes the meta-block is the last one
and has `copy_len() = 0` (the writers emit no distance for it, the decoder reads none), every other
command has `copy_len() ≠ 0`, and after the last command exactly `mb.length` bytes are produced.  (`copy_len()` differs from the
copy length code only for static-dictionary words with a length-changing transform.) -/
def lockstep (wo : WordOracle) (npostfix ndirect window : Nat) (mb : Bytes) : DecSt → Nat → List Cmd → Bool
  | s, pos, [] => decide (s.cursor = pos) && decide (pos = mb.length)
  | s, pos, c :: cs =>
    decide (s.cursor = pos) &&
    match decStep wo npostfix ndirect window mb s c with
    | none => false
    | some s' =>
      if pos + c.insertLen = mb.length then cs.isEmpty && decide (copyLen c = 0)
      else decide (copyLen c ≠ 0) && lockstep wo npostfix ndirect window mb s' (pos + c.insertLen + copyLen c) cs

end BV.MetaBlock
