/-
M12 `Recoder` — executable model of the meta-block logger (IR recoder) of
`src/enc/brotli_bit_stream.rs`: `InputPairFromMaskedInput`, `InputPair::split_at`
(`src/enc/input_pair.rs`), `CommandProcessor::push_literals / push_rand_literals`
(`src/enc/interface.rs`), `CommandQueue::push` (growth), `process_command_queue`, the assertions
of `LogMetaBlock`, `Command::distance_index_and_offset` (`src/enc/command.rs`).
`Command::copy_len_code` is `BV.PrefixArith.copyLenCode`.

Conventions: `usize = u64`; a cast `as uN` is an explicit `% 2^N`; every Rust operation that can
panic (slice index, `assert!`, `unwrap`, unsigned underflow, overflow under debug semantics,
shift ≥ width) is the outcome `none`.  `&mut` state is returned.  The static dictionary
(`kBrotliDictionary` + `TransformDictionaryWord`) is NOT modelled: it is the parameter
`expand : copy_len → dictionary_offset → Option Bytes` (`none` = `TransformDictionaryWord` panics,
i.e. transform index ≥ 121); the two small tables that decide how an offset is cut into
(word id, transform) are `dictSizeBits` / `dictOffsets` below and are compared with the crate's
tables on every run (`recoder tables`).

The SPEC side (independent of the mirrored code) is at the end of the file: `replayIR` (what a
consumer of the callback does with the IR) and `replayCommands` (what RFC 7932 says a decoder does
with the same raw command array).
-/
import BV.Model.PrefixArith

namespace BV.Recoder
open BV.PrefixArith

abbrev Bytes := List Nat

/-! ### Data -/

/-- raw `Command` (`src/enc/command.rs`) -/
structure Cmd where
  insertLen : Nat
  copyLenField : Nat
  distExtra : Nat
  cmdPrefix : Nat
  distPrefix : Nat
deriving Repr, DecidableEq, Inhabited

structure DistParams where
  npostfix : Nat
  ndirect : Nat
deriving Repr, DecidableEq

/-- frozen IR command (`interface::StaticCommand`); literals are (offset, length) into the meta-block slice -/
inductive IR where
  | lit (off len : Nat) (he : Bool)
  | copy (dist n : Nat)
  | dict (ws tr fs id : Nat)
  | bsl (t : Nat)
  | bsc (t : Nat)
  | bsd (t : Nat)
deriving Repr, DecidableEq, Inhabited

/-- `BlockSplitRef` -/
structure Split where
  numTypes : Nat
  types : List Nat
  lengths : List Nat
deriving Repr, DecidableEq

/-- `block_split_nop()` entry -/
def Split.nop : Split := ⟨1, [], []⟩

/-- `InputReference` -/
structure Ref where
  data : Bytes
  off : Nat
deriving Repr, DecidableEq

/-- `InputPair` -/
structure Pair where
  a : Ref
  b : Ref
deriving Repr, DecidableEq

def Pair.len (p : Pair) : Nat := p.a.data.length + p.b.data.length
def Pair.bytes (p : Pair) : Bytes := p.a.data ++ p.b.data

/-- `InputPair::split_at` (note the un-clamped `orig_offset` of the second half and the
`InputReference::default()` = (empty, 0) placeholders) -/
def Pair.splitAt (p : Pair) (loc : Nat) : Pair × Pair :=
  if loc ≥ p.a.data.length then
    let o := loc - p.a.data.length
    let k := min o p.b.data.length
    (⟨p.a, ⟨p.b.data.take k, p.b.off⟩⟩, ⟨⟨[], 0⟩, ⟨p.b.data.drop k, o + p.b.off⟩⟩)
  else
    (⟨⟨p.a.data.take loc, p.a.off⟩, ⟨[], 0⟩⟩, ⟨⟨p.a.data.drop loc, p.a.off + loc⟩, p.b⟩)

/-- `InputPairFromMaskedInput(input, position, len, mask)`; `none` = slice out of range -/
def inputPairFromMaskedInput (input : Bytes) (position len mask : Nat) : Option (Bytes × Bytes) :=
  let maskedPos := position &&& mask
  if maskedPos + len > mask + 1 then
    let len1 := mask + 1 - maskedPos
    if maskedPos + len1 ≤ input.length ∧ len - len1 ≤ input.length then
      some ((input.drop maskedPos).take len1, input.take (len - len1))
    else none
  else if maskedPos + len ≤ input.length then some ((input.drop maskedPos).take len, [])
  else none

/-- the `InputPair` built at the top of `LogMetaBlock` -/
def mkPair (input0 input1 : Bytes) : Pair := ⟨⟨input0, 0⟩, ⟨input1, input0.length⟩⟩

/-- `push_literals` / `push_rand_literals`: one literal command per non-empty half; the frozen
form is `SliceOffset(orig_offset, len as u32)` -/
def pushLiterals (he : Bool) (p : Pair) : List IR :=
  (if p.a.data.length ≠ 0 then [IR.lit p.a.off (p.a.data.length % 2 ^ 32) he] else []) ++
  (if p.b.data.length ≠ 0 then [IR.lit p.b.off (p.b.data.length % 2 ^ 32) he] else [])

/-! ### `CommandQueue` (growth) -/

structure Queue where
  cap : Nat            -- `queue.len()`
  items : List IR      -- `queue[..loc]`
  overfull : Bool
deriving Repr

/-- `CommandQueue::new`: `num_commands * 17 / 16 + 4` slots -/
def Queue.new (numCommands : Nat) : Queue := ⟨numCommands * 17 / 16 + 4, [], false⟩

/-- `CommandQueue::push`: double when full, then store (or flag `overfull`) -/
def Queue.push (q : Queue) (v : IR) : Queue :=
  let cap := if q.items.length = q.cap then q.cap * 2 else q.cap
  if q.items.length ≠ cap then { cap := cap, items := q.items ++ [v], overfull := q.overfull }
  else { cap := cap, items := q.items, overfull := true }

def Queue.pushAll (q : Queue) (vs : List IR) : Queue := vs.foldl Queue.push q

/-! ### `Command::distance_index_and_offset` -/

def shortCodeTable : List (Nat × Int) :=
  [(1, 0), (2, 0), (3, 0), (4, 0), (1, -1), (1, 1), (1, -2), (1, 2), (1, -3), (1, 3),
   (2, -1), (2, 1), (2, -2), (2, 2), (2, -3), (2, 3)]

/-- `(prev_dist_index, dist_offset)`; u32 arithmetic with debug-overflow as `none` -/
def distanceIndexAndOffset (c : Cmd) (dp : DistParams) : Option (Nat × Int) :=
  let dprefix := c.distPrefix % 1024
  let nDistBits := (c.distPrefix % 65536) / 1024
  if dprefix < 16 then shortCodeTable[dprefix]?
  else if dprefix < 16 + dp.ndirect then some (0, ((dprefix + 1 - 16 : Nat) : Int))
  else if dp.npostfix ≥ 32 ∨ nDistBits ≥ 32 then none
  else
    let dcode := dprefix - 16 - dp.ndirect
    let hcode := dcode / 2 ^ dp.npostfix
    let lcode := dcode % 2 ^ dp.npostfix
    let sh := ((2 + hcode % 2) * 2 ^ nDistBits) % 2 ^ 32
    if sh < 4 then none
    else
      let offset := sh - 4
      if offset + c.distExtra ≥ 2 ^ 32 then none
      else
        let v := ((offset + c.distExtra) * 2 ^ dp.npostfix) % 2 ^ 32
        if v + lcode + dp.ndirect + 1 ≥ 2 ^ 32 then none
        else some (0, ((v + lcode + dp.ndirect + 1 : Nat) : Int))

/-! ### dictionary tables -/

/-- `kBrotliDictionarySizeBitsByLength` (compared with the crate's table on every run) -/
def dictSizeBits : List Nat :=
  [0, 0, 0, 0, 10, 10, 11, 11, 10, 10, 10, 10, 10, 9, 9, 8, 7, 7, 8, 7, 7, 6, 6, 5, 5]

/-- `kBrotliDictionaryOffsetsByLength` -/
def dictOffsets : List Nat :=
  [0, 0, 0, 0, 0, 4096, 9216, 21504, 35840, 44032, 53248, 63488, 74752, 87040, 93696, 100864,
   104704, 106752, 108928, 113536, 115968, 118528, 119872, 121280, 122016]

def dictLen : Nat := 122784

/-- `window_size_from_lgwin` -/
def windowSize (lgwin : Nat) : Nat := 2 ^ lgwin - 16

/-- `as i32` of a usize -/
def toI32 (n : Nat) : Int :=
  if n % 2 ^ 32 < 2 ^ 31 then ((n % 2 ^ 32 : Nat) : Int) else ((n % 2 ^ 32 : Nat) : Int) - 2 ^ 32

/-- `as usize` of an isize -/
def toUsize (i : Int) : Nat := (i % (2 ^ 64 : Int)).toNat

/-! ### `process_command_queue` -/

/-- static parameters of one call -/
structure Env where
  dp : DistParams
  lgwin : Nat
  hedq : Nat              -- `params.high_entropy_detection_quality`
  ctxSome : Bool          -- `context_type.is_some()`
  btl : Split
  btc : Split
  btd : Split
  expand : Nat → Nat → Option Bytes

/-- which of `push_literals` / `push_rand_literals` is used -/
def Env.he (e : Env) : Bool := if e.ctxSome then false else if e.hedq = 0 then false else true

/-- the `while tmp_inserts.len() > btypel_sub` loop.  Returns (remaining literals, btypel_sub,
btypel_counter, mb_len, emitted). `fuel` bounds the iterations (see `litLoop_fuel_enough`). -/
def litLoop (he : Bool) (bt : Split) :
    Nat → Pair → Nat → Nat → Nat → List IR → Option (Pair × Nat × Nat × Nat × List IR)
  | 0, _, _, _, _, _ => none
  | fuel + 1, tmp, sub, counter, mbLen, acc =>
    if tmp.len > sub then
      let (inA, inB) := tmp.splitAt sub
      let acc := if inA.len ≠ 0 then acc ++ pushLiterals he inA else acc
      if mbLen < inA.len then none
      else
        let mbLen := mbLen - inA.len
        let counter := counter + 1
        if bt.types.length > counter then
          match bt.lengths[counter]?, bt.types[counter]? with
          | some l, some t => litLoop he bt fuel inB l counter mbLen (acc ++ [IR.bsl t])
          | _, _ => none
        else litLoop he bt fuel inB (2 ^ 31) counter mbLen acc
    else some (tmp, sub, counter, mbLen, acc)

/-- loop state of `process_command_queue` -/
structure St where
  iter : Pair           -- `input_iter`
  mbLen : Nat
  nbe : Nat             -- `recoder_state.num_bytes_encoded`
  cache : List Int      -- `local_dist_cache` (4 × i32)
  lc : Nat              -- btypel_counter
  cc : Nat
  dc : Nat
  lsub : Nat            -- btypel_sub (u32)
  csub : Nat
  dsub : Nat
  out : List IR
deriving Repr

/-- initial `btype*_sub` -/
def initSub (s : Split) : Option Nat :=
  if s.numTypes = 1 then some (2 ^ 31) else s.lengths[0]?

/-- command / distance block counters: `sub -= 1; if sub == 0 { … }` -/
def bumpBlock (s : Split) (mk : Nat → IR) (sub counter : Nat) (out : List IR) :
    Option (Nat × Nat × List IR) :=
  if sub = 0 then none            -- u32 underflow
  else
    let sub := sub - 1
    if sub = 0 then
      let counter := counter + 1
      if s.types.length > counter then
        match s.lengths[counter]?, s.types[counter]? with
        | some l, some t => some (l, counter, out ++ [mk t])
        | _, _ => none
      else some (2 ^ 31, counter, out)
    else some (sub, counter, out)

/-- `final_distance` -/
def finalDistance (cache : List Int) (idx : Nat) (off : Int) : Option Nat :=
  if idx = 0 then some (toUsize off)
  else match cache[idx - 1]? with
    | some c => some (toUsize (c + off))
    | none => none

/-- the literal part of one iteration: `if inserts.len() != 0 { … }`.
Returns (btypel_sub, btypel_counter, mb_len, emitted so far). -/
def litPart (e : Env) (s : St) (inserts : Pair) : Option (Nat × Nat × Nat × List IR) :=
  if inserts.len ≠ 0 then
    match litLoop e.he e.btl (inserts.len + e.btl.types.length + 2) inserts s.lsub s.lc s.mbLen s.out with
    | none => none
    | some (tmp, sub, counter, mbLen, out) =>
      let out := out ++ pushLiterals e.he tmp
      if tmp.len ≠ 0 then
        if mbLen < tmp.len ∨ sub < tmp.len % 2 ^ 32 then none
        else some (sub - tmp.len % 2 ^ 32, counter, mbLen - tmp.len, out)
      else some (sub, counter, mbLen, out)
  else some (s.lsub, s.lc, s.mbLen, s.out)

/-- the `if final_distance > max_distance { dictionary } else { copy }` part.
Returns (actual_copy_len, mb_len, local_dist_cache, emitted so far). -/
def copyPart (e : Env) (cache : List Int) (interim : Pair) (mbLen : Nat) (out : List IR)
    (idx : Nat) (off : Int) (finalDistance maxDistance copyLen : Nat) : Option (Nat × Nat × List Int × List IR) :=
  if finalDistance > maxDistance then
    if copyLen < 4 ∨ copyLen ≥ 25 then none        -- assert!(copy_len >= 4); assert!(copy_len < 25)
    else
      let dictionaryOffset := finalDistance - maxDistance - 1
      let ndbits := dictSizeBits.getD copyLen 0
      let action := dictionaryOffset / 2 ^ ndbits
      let wordSubIndex := dictionaryOffset % 2 ^ ndbits
      let wordIndex := wordSubIndex * copyLen + dictOffsets.getD copyLen 0
      if wordIndex + copyLen > dictLen then none
      else match e.expand copyLen dictionaryOffset with
        | none => none
        | some word =>
          let actual := word.length
          if actual ≤ mbLen then
            let out := out ++ [IR.dict (copyLen % 256) (action % 256) (actual % 256) (wordSubIndex % 2 ^ 32)]
            if word = (interim.splitAt actual).1.bytes then some (actual, mbLen - actual, cache, out)
            else none                   -- assert_eq!
          else if mbLen ≠ 0 then
            some (actual, 0, cache, out ++ pushLiterals false (interim.splitAt mbLen).1)
          else some (actual, mbLen, cache, out)
  else
    let actual := min mbLen copyLen
    let out := if actual ≠ 0 then out ++ [IR.copy (finalDistance % 2 ^ 32) (actual % 2 ^ 32)] else out
    let cache := if idx ≠ 1 ∨ off ≠ 0 then toI32 finalDistance :: cache.take 3 else cache
    some (actual, mbLen - actual, cache, out)

/-- one iteration of `for cmd in commands.iter()` -/
def step (e : Env) (s : St) (cmd : Cmd) : Option St :=
  let inserts := (s.iter.splitAt (min (cmd.insertLen % 2 ^ 32) s.mbLen)).1
  let interim := (s.iter.splitAt (min (cmd.insertLen % 2 ^ 32) s.mbLen)).2
  let nbe := s.nbe + inserts.len
  let copyLen := copyLenCode cmd.copyLenField
  match distanceIndexAndOffset cmd e.dp with
  | none => none
  | some (idx, off) =>
    match finalDistance s.cache idx off with
    | none => none
    | some fd =>
      let maxDistance := min nbe (windowSize e.lgwin)
      if inserts.len > s.mbLen then none     -- assert!(inserts.len() <= mb_len)
      else
        match litPart e s inserts with
        | none => none
        | some (lsub, lc, mbLen, out) =>
          match copyPart e s.cache interim mbLen out idx off fd maxDistance copyLen with
          | none => none
          | some (actual, mbLen, cache, out) =>
            match bumpBlock e.btc IR.bsc s.csub s.cc out with
            | none => none
            | some (csub, cc, out) =>
              match (if copyLen ≠ 0 ∧ cmd.cmdPrefix ≥ 128 then bumpBlock e.btd IR.bsd s.dsub s.dc out
                     else some (s.dsub, s.dc, out)) with
              | none => none
              | some (dsub, dc, out) =>
                let copied := (interim.splitAt actual).1
                let remainder := (interim.splitAt actual).2
                some { iter := remainder, mbLen := mbLen, nbe := nbe + copied.len, cache := cache,
                       lc := lc, cc := cc, dc := dc, lsub := lsub, csub := csub, dsub := dsub, out := out }

def stepAll (e : Env) : St → List Cmd → Option St
  | s, [] => some s
  | s, c :: cs => match step e s c with
    | none => none
    | some s' => stepAll e s' cs

/-- `process_command_queue`: (IR pushed, returned `recoder_state.num_bytes_encoded`) -/
def processCommandQueue (e : Env) (input : Pair) (cmds : List Cmd) (distCache : List Int) (nbe : Nat) :
    Option (List IR × Nat) :=
  match initSub e.btl, initSub e.btc, initSub e.btd with
  | some ls, some cs, some ds =>
    if distCache.length ≠ 4 then none else
    match stepAll e { iter := input, mbLen := input.len, nbe := nbe, cache := distCache, lc := 0, cc := 0, dc := 0,
                      lsub := ls, csub := cs, dsub := ds, out := [IR.bsl 0] } cmds with
    | none => none
    | some s => some (s.out, s.nbe)
  | _, _, _ => none

/-- the three `assert_eq!` at the top of `LogMetaBlock` -/
def splitAssert (s : Split) : Bool := (s.types.foldl max 0) % 2 ^ 32 + 1 = s.numTypes % 2 ^ 32

/-- `LogMetaBlock` with all detection passes off: what the callback receives and the new recoder position -/
def logMetaBlock (e : Env) (input0 input1 : Bytes) (cmds : List Cmd) (distCache : List Int) (nbe : Nat) :
    Option (List IR × Nat) :=
  if splitAssert e.btl ∧ splitAssert e.btc ∧ splitAssert e.btd then
    match processCommandQueue e (mkPair input0 input1) cmds distCache nbe with
    | none => none
    | some (ir, nbe') =>
      let q := (Queue.new cmds.length).pushAll ir
      if q.overfull then none else some (q.items, nbe')     -- `command_queue.free(callback).unwrap()`
  else none

/-- the four public entry points that reach `LogMetaBlock` -/
inductive Variant | fast | trivial | full | unc
deriving Repr, DecidableEq

/-- `store_meta_block_fast / _trivial / store_meta_block / store_uncompressed_meta_block` up to the callback -/
def entry (v : Variant) (e : Env) (ring : Bytes) (pos len mask : Nat) (cmds : List Cmd) (distCache : List Int)
    (nbe : Nat) : Option (List IR × Nat) :=
  match inputPairFromMaskedInput ring pos len mask with
  | none => none
  | some (i0, i1) =>
    match v with
    | .fast | .trivial =>
      logMetaBlock { e with ctxSome := true, btl := Split.nop, btc := Split.nop, btd := Split.nop } i0 i1 cmds distCache nbe
    | .full => logMetaBlock { e with ctxSome := true } i0 i1 cmds distCache nbe
    | .unc =>
      -- `BrotliStoreUncompressedMetaBlockHeader` runs first: `BrotliEncodeMlen` asserts `0 < length ≤ 2^24`
      if len = 0 ∨ len > 2 ^ 24 then none else
      logMetaBlock { e with ctxSome := false, btl := Split.nop, btc := Split.nop, btd := Split.nop } i0 i1
        [⟨len % 2 ^ 32, 0, 0, 0, 0⟩] [0, 0, 0, 0] nbe

/-! ### SPEC side -/

/-- append `n` bytes copied from `dist` back, byte by byte (overlap allowed) -/
def copyBytes : Nat → Nat → Bytes → Bytes
  | 0, _, out => out
  | n + 1, dist, out => copyBytes n dist (out ++ [out.getD (out.length - dist) 0])

/-- static-dictionary oracle of the consumer: (word_size, word_id, transform) ↦ expansion -/
abbrev WordOracle := Nat → Nat → Nat → Option Bytes

/-- What a consumer of the callback does: literals are slices of the meta-block input, copies
refer to everything produced so far (`out` starts as the history: custom-dictionary tail ++
earlier input), dictionary commands are expanded, block switches are ignored.  `none` = the IR is
not replayable (bad slice, distance 0 or beyond the produced bytes or the window, dictionary command that
does not expand to `final_size`). -/
def replayIR (w : WordOracle) (window : Nat) (mb : Bytes) : List IR → Bytes → Option Bytes
  | [], out => some out
  | IR.lit off len _ :: rest, out =>
    if off + len ≤ mb.length then replayIR w window mb rest (out ++ (mb.drop off).take len) else none
  | IR.copy dist n :: rest, out =>
    if 1 ≤ dist ∧ dist ≤ out.length ∧ dist ≤ window then replayIR w window mb rest (copyBytes n dist out) else none
  | IR.dict ws tr fs id :: rest, out =>
    match w ws id tr with
    | some word => if word.length = fs then replayIR w window mb rest (out ++ word) else none
    | none => none
  | _ :: rest, out => replayIR w window mb rest out

/-- RFC 7932 §4: the distance denoted by a distance symbol, given the ring of last distances
(`ring[0]` = last).  Returns (distance, `true` if the ring is to be updated when this is a copy). -/
def rfcDistance (npostfix ndirect : Nat) (ring : List Int) (sym nbitsExtra : Nat) : Option (Int × Bool) :=
  let r (i : Nat) : Option Int := ring[i]?
  match sym with
  | 0 => (r 0).map (·, false)
  | 1 => (r 1).map (·, true)
  | 2 => (r 2).map (·, true)
  | 3 => (r 3).map (·, true)
  | 4 => (r 0).map (· - 1, true)
  | 5 => (r 0).map (· + 1, true)
  | 6 => (r 0).map (· - 2, true)
  | 7 => (r 0).map (· + 2, true)
  | 8 => (r 0).map (· - 3, true)
  | 9 => (r 0).map (· + 3, true)
  | 10 => (r 1).map (· - 1, true)
  | 11 => (r 1).map (· + 1, true)
  | 12 => (r 1).map (· - 2, true)
  | 13 => (r 1).map (· + 2, true)
  | 14 => (r 1).map (· - 3, true)
  | 15 => (r 1).map (· + 3, true)
  | _ => some ((rfcDistDecode npostfix ndirect sym nbitsExtra : Nat), true)

/-- decoder state while replaying raw commands -/
structure DecSt where
  out : Bytes
  ring : List Int
  cursor : Nat       -- bytes of the meta-block consumed
deriving Repr

/-- What RFC 7932 says a decoder does with one raw command of a meta-block whose uncompressed
bytes are `mb` (literals are the meta-block bytes at the cursor — they are coded explicitly in
the stream); `none` = the command array is not a valid meta-block (the decoder reports an error).
`sizeBits` is the RFC's NDBITS table. -/
def decStep (w : WordOracle) (npostfix ndirect window : Nat) (mb : Bytes) (s : DecSt) (c : Cmd) : Option DecSt :=
  let remaining := mb.length - s.cursor
  if remaining = 0 then none else                 -- a command after the end of the meta-block
  if c.insertLen > remaining then none else
  let out := s.out ++ (mb.drop s.cursor).take c.insertLen
  let cursor := s.cursor + c.insertLen
  if cursor = mb.length then some { s with out := out, cursor := cursor }    -- MLEN reached: the copy part is not executed
  else
    let copyLen := copyLenCode c.copyLenField
    match rfcDistance npostfix ndirect s.ring (c.distPrefix % 1024) c.distExtra with
    | none => none
    | some (d, upd) =>
      if d ≤ 0 then none else
      let dist := d.toNat
      let maxDistance := min out.length window
      if dist ≤ maxDistance then
        if cursor + copyLen > mb.length then none else
        some { out := copyBytes copyLen dist out, cursor := cursor + copyLen,
               ring := if upd then d :: s.ring.take 3 else s.ring }
      else
        if copyLen < 4 ∨ copyLen > 24 then none else
        let wordId := dist - maxDistance - 1
        let nbits := dictSizeBits.getD copyLen 0
        match w copyLen (wordId % 2 ^ nbits) (wordId / 2 ^ nbits) with
        | none => none
        | some word =>
          if cursor + word.length > mb.length then none else
          some { out := out ++ word, cursor := cursor + word.length, ring := s.ring }

def decSteps (w : WordOracle) (npostfix ndirect window : Nat) (mb : Bytes) : DecSt → List Cmd → Option DecSt
  | s, [] => some s
  | s, c :: cs => match decStep w npostfix ndirect window mb s c with
    | none => none
    | some s' => decSteps w npostfix ndirect window mb s' cs

/-- decoder semantics of a raw command array: the bytes after the meta-block (history ++ output) -/
def replayCommands (w : WordOracle) (npostfix ndirect window : Nat) (mb : Bytes) (ring : List Int)
    (history : Bytes) (cmds : List Cmd) : Option Bytes :=
  (decSteps w npostfix ndirect window mb ⟨history, ring, 0⟩ cmds).map (·.out)

/-! ### bookkeeping of the other `CommandProcessor`s fed by `process_command_queue`

`LogMetaBlock` runs `process_command_queue` up to three more times, pushing the same IR into `StrideEval`
(`stride_detection_quality > 2`), `ContextMapEntropy` (`cdf_adaptation_detection != 0`) and `PriorEval`
(`prior_bitmask_detection != 0`).  Only `StrideEval` has bookkeeping that depends on the number of literal blocks:
8 scores per "epoch" (one epoch per `BlockSwitchLiteral`) in a `score` array that doubles on demand
(`src/enc/stride_eval.rs`); `PriorEval` indexes a fixed 8192-entry table (`src/enc/prior_eval.rs`);
`ContextMapEntropy` has fixed tables and no per-block state.  Costs (floats) are not modelled, only sizes,
epochs and every index / assertion. -/

/-- `StrideEval`: `score.len()` and `cur_score_epoch` -/
structure StrideSt where
  len : Nat
  epoch : Nat
deriving Repr, DecidableEq

/-- `StrideEval::new`: `allocate::<floatX>(8 * 4)` -/
def StrideSt.new : StrideSt := ⟨32, 0⟩

/-- `update_block_type`: `cur_score_epoch += 1; if epoch * 8 + 7 >= score.len() { double }` -/
def StrideSt.updateBlockType (s : StrideSt) : StrideSt :=
  if (s.epoch + 1) * 8 + 7 ≥ s.len then ⟨s.len * 2, s.epoch + 1⟩ else ⟨s.len, s.epoch + 1⟩

/-- `update_cost_base` for one literal byte: `score[cur_score_epoch * 8 + i]`, `i < 8`; `none` = index panic -/
def StrideSt.updateCost (s : StrideSt) : Option StrideSt := if s.epoch * 8 + 7 < s.len then some s else none

/-- `push_base(StrideEval, cmd)`: a literal block switch opens an epoch, a non-empty literal touches the scores -/
def StrideSt.push (s : StrideSt) : IR → Option StrideSt
  | .bsl _ => some s.updateBlockType
  | .lit _ len _ => if len = 0 then some s else s.updateCost
  | _ => some s

def StrideSt.pushAll : StrideSt → List IR → Option StrideSt
  | s, [] => some s
  | s, c :: cs => match s.push c with
    | none => none
    | some s' => StrideSt.pushAll s' cs

/-- the three assertions of `choose_stride(stride_data)` as they are NOW (`n = stride_data.len()`) -/
def StrideSt.chooseAsserts (s : StrideSt) (n : Nat) : Bool := n == s.epoch && decide (s.len > n) && decide (s.len ≥ n * 8 + 8)

/-- the third assertion as it was before commit 9944f91: `score.len() > (n << 3) + 7 + 8` -/
def StrideSt.chooseAssertsOld (s : StrideSt) (n : Nat) : Bool := n == s.epoch && decide (s.len > n) && decide (s.len > n * 8 + 7 + 8)

/-- the reads of `choose_stride`: `score.split_at((1 + index) << 3).1.split_at(8)` for `index < n` -/
def StrideSt.chooseReadsOk (s : StrideSt) (n : Nat) : Bool := (List.range n).all fun index => decide ((1 + index) * 8 + 8 ≤ s.len)

/-- `LogMetaBlock`: `best_strides = allocate(stride_selector.num_types())`, then `choose_stride(best_strides)`;
`none` = a panic anywhere in the stride pass -/
def stridePass (ir : List IR) : Option Nat :=
  match StrideSt.new.pushAll ir with
  | none => none
  | some s => if s.chooseAsserts s.epoch && s.chooseReadsOk s.epoch then some s.epoch else none

/-- the same with the old assertion -/
def stridePassOld (ir : List IR) : Option Nat :=
  match StrideSt.new.pushAll ir with
  | none => none
  | some s => if s.chooseAssertsOld s.epoch && s.chooseReadsOk s.epoch then some s.epoch else none

/-- `PriorEval::update_cost_base`: the two `score` indices for a literal (`score.len() = 8192`) -/
def priorUpperIndex (strideByte cmPrior : Nat) : Nat := cmPrior + 256 * (strideByte / 16)
def priorLowerIndex (cmPrior highNibble : Nat) : Nat := cmPrior + 4096 + 256 * highNibble
def priorScoreLen : Nat := 8192
/-- `interface::NUM_MIXING_VALUES` = `16 * 256 + 16 * 256`: the `bitmask` array `choose_bitmask` fills by score index -/
def numMixingValues : Nat := 16 * 256 + 16 * 256

end BV.Recoder
