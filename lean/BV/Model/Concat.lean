/-
M7 `Concat` — executable model of the Brotli stream concatenator
(`src/concat/mod.rs`, `BroCatli`) and of the cursor arithmetic of the C ABI
wrapper (`src/ffi/broccoli.rs`, `Broccoli*`).

Conventions of this file
* Bytes are `Nat` (< 256 for every byte that comes from a `u8`).
* `&mut self` → returned `State`; `&mut in_offset` / `&mut out_offset` → the call
  takes the input slice *from `in_offset` on* and the *free* output capacity
  (`out_bytes.len() - out_offset`); i.e. inside the model `in_offset` and
  `out_offset` start at 0 — exactly what `BroccoliConcatStream` does.  The
  output written by a call is the list `out` (in order); `*out_offset -= 1`
  removes its last element.
* `Outcome.panic site` is returned at EVERY place where the (debug build) Rust
  can panic: slice / array index out of range, unsigned subtraction underflow,
  u8 addition / multiplication overflow, shift ≥ bit width, `unwrap()` on
  `None`/`Err`, `assert*!`, `split_at` out of range, `clone_from_slice` length
  mismatch.  `site` names the source location.
* `as uN` casts are explicit `% 2^N`.  Rust `<<`/`>>`/`&`/`|` are the `Nat`
  operators `<<<`/`>>>`/`&&&`/`|||`; where Rust computes in `u16`/`u64` and the
  value can exceed the width the truncation is explicit (a `u64` left shift of
  a byte by `8*index < 64` bits cannot lose bits, so no `% 2^64` is written
  there; a shift amount ≥ 64 is a panic branch).
* `[u8; 2]` is a pair, `[u8; 5]` is the structure `B5` (static indices into a
  fixed-size array cannot panic; dynamic indices go through `get?`/`set?` and
  panic on `none`); `[u8; 6]` (`realigned_header`) is a `List Nat`.
-/
import BV.Gen.Source

namespace BV.Concat
open BV.Gen

/-! ## outcomes -/

/-- every place where the Rust code can panic -/
inductive Site where
  -- parse_window_size
  | pwsIndex0 | pwsIndex1
  -- detect_varlen_offset
  | dvoShl
  -- deserialize_from_buffer / serialize_to_buffer
  | deserIndex | deserSlice | serIndex | serSlice
  -- new_with_window_size
  | nwwsAssert17 | nwwsSub18 | nwwsMulAdd
  -- flush_previous_stream
  | flushLenMul8 | flushMaxSub1 | flushIndexSub | flushShl16 | flushIndexSub1
  | flushOutIndex | flushLenSub | flushAssertIndex
  -- shift_and_check_new_stream_header
  | shiftSliceRead | shiftAssertOffset0 | shiftOutIndex0 | shiftBsfIndex | shiftShl64
  | shiftVarlenSub | shiftBitOffSub | shiftRhIndex | shiftDestSub | shiftWholeSub
  | shiftSrcIndex | shiftOutIndex1 | shiftReadSub1 | shiftCloneLen | shiftAssertWs
  | shiftUnwrap | shiftOutSub | shiftReadSubWritten | shiftSplitAt | shiftWrittenAdd
  | shiftUnwriteSub | shiftUnwriteIndex
  -- stream
  | streamBsfIndex | streamReadAdd | streamAssertPendingNone | streamLastBytesIndex
  | streamLenAdd | streamInIndex | streamOutSub | streamInSub | streamAssertToCopy
  | streamOutIndex | streamSplitAt | streamCloneLen
  -- append_eof_metablock_to_last_bytes
  | eofAssertSanitized | eofLenSub | eofMul | eofAdd | eofShl16 | eofOffAdd | eofLenAdd
  -- finish
  | finishOutIndex | finishLenSub
  -- ffi/broccoli.rs
  | ffiUnwrap | ffiAvailSub
  deriving DecidableEq, Repr

inductive Outcome (α : Type) where
  | panic (site : Site) : Outcome α
  | ok (v : α) : Outcome α
  deriving Repr, DecidableEq

namespace Outcome
@[inline] def bind {α β : Type} (x : Outcome α) (f : α → Outcome β) : Outcome β :=
  match x with
  | panic s => panic s
  | ok v => f v
def isPanic {α : Type} : Outcome α → Bool
  | panic _ => true
  | ok _ => false
end Outcome
open Outcome

/-! ## result codes (`BroCatliResult` discriminants) -/
def SUCCESS : Nat := 0
def NEEDS_MORE_INPUT : Nat := 1
def NEEDS_MORE_OUTPUT : Nat := 2
def NOT_CRAFTED_FOR_APPEND : Nat := 124
def INVALID_WINDOW_SIZE : Nat := 125
def WINDOW_SIZE_LARGER : Nat := 126
def NOT_CRAFTED_FOR_CONCAT : Nat := 127

/-- `LARGE_WINDOW_FLAG` (`src/concat/mod.rs`): bit 7 of `BroCatli::window_size` records that
the emitted header has the 14-bit large-window form -/
def LARGE_WINDOW_FLAG : Nat := 0x80
/-- `!LARGE_WINDOW_FLAG` as `u8` -/
def NOT_LARGE_WINDOW_FLAG : Nat := 0x7f

/-! ## fixed-size arrays -/

/-- `[u8; NUM_STREAM_HEADER_BYTES]` -/
structure B5 where
  b0 : Nat
  b1 : Nat
  b2 : Nat
  b3 : Nat
  b4 : Nat
  deriving DecidableEq, Repr

namespace B5
def zero : B5 := ⟨0, 0, 0, 0, 0⟩
def toList (b : B5) : List Nat := [b.b0, b.b1, b.b2, b.b3, b.b4]
/-- `arr[i]` for a run-time `i` -/
def get? (b : B5) : Nat → Option Nat
  | 0 => some b.b0 | 1 => some b.b1 | 2 => some b.b2 | 3 => some b.b3 | 4 => some b.b4
  | _ => none
/-- `arr[i] = v` for a run-time `i` -/
def set? (b : B5) : Nat → Nat → Option B5
  | 0, v => some { b with b0 := v }
  | 1, v => some { b with b1 := v }
  | 2, v => some { b with b2 := v }
  | 3, v => some { b with b3 := v }
  | 4, v => some { b with b4 := v }
  | _, _ => none
/-- `arr.clone_from_slice(l)` (`none` = length mismatch) -/
def ofList? : List Nat → Option B5
  | [a, b, c, d, e] => some ⟨a, b, c, d, e⟩
  | _ => none
end B5

/-- `NUM_STREAM_HEADER_BYTES` is the length of `B5`; a change of the generated
constant breaks this definition. -/
theorem hdr_len_is_5 : NUM_STREAM_HEADER_BYTES = B5.zero.toList.length := rfl

/-- `l[i]` on a slice -/
def idx (site : Site) (l : List Nat) (i : Nat) : Outcome Nat :=
  match l[i]? with
  | some v => ok v
  | none => panic site

/-- `l[i] = v` on a slice -/
def setAt (site : Site) (l : List Nat) (i v : Nat) : Outcome (List Nat) :=
  if i < l.length then ok (l.set i v) else panic site

/-- `for i in 0..n` with a loop-carried value (and panics) -/
def forRange {α : Type} (f : Nat → α → Outcome α) : (n : Nat) → (start : Nat) → α → Outcome α
  | 0, _, a => ok a
  | n + 1, i, a => (f i a).bind fun a' => forRange f n (i + 1) a'

/-! ## state -/

structure NewStreamData where
  bytes_so_far : B5
  num_bytes_read : Nat
  num_bytes_written : Option Nat
  deriving DecidableEq, Repr

/-- `NewStreamData::new` -/
def NewStreamData.new : NewStreamData := ⟨B5.zero, 0, none⟩

/-- `NewStreamData::sufficient` -/
def NewStreamData.sufficient (d : NewStreamData) : Bool :=
  if d.num_bytes_read = 4 ∧ (127 &&& d.bytes_so_far.b0) ≠ 17 then true
  else d.num_bytes_read = 5

structure State where
  last_bytes : Nat × Nat
  last_bytes_len : Nat
  last_byte_sanitized : Bool
  any_bytes_emitted : Bool
  last_byte_bit_offset : Nat
  window_size : Nat
  new_stream_pending : Option NewStreamData
  deriving DecidableEq, Repr

/-! ## header parsers -/

/-- `parse_window_size`: `ok none` = `Err(())`, `ok (some (window, bits))` -/
def parseWindowSize (bs : List Nat) : Outcome (Option (Nat × Nat)) :=
  (idx .pwsIndex0 bs 0).bind fun b0 =>
  if b0 &&& 1 = 0 then ok (some (16, 1)) else
  let n := b0 &&& 15
  if n = 0x3 then ok (some (18, 4)) else
  if n = 0x5 then ok (some (19, 4)) else
  if n = 0x7 then ok (some (20, 4)) else
  if n = 0x9 then ok (some (21, 4)) else
  if n = 0xb then ok (some (22, 4)) else
  if n = 0xd then ok (some (23, 4)) else
  if n = 0xf then ok (some (24, 4)) else
  let m := b0 &&& 127
  if m = 0x71 then ok (some (15, 7)) else
  if m = 0x61 then ok (some (14, 7)) else
  if m = 0x51 then ok (some (13, 7)) else
  if m = 0x41 then ok (some (12, 7)) else
  if m = 0x31 then ok (some (11, 7)) else
  if m = 0x21 then ok (some (10, 7)) else
  if m = 0x1 then ok (some (17, 7)) else
  if b0 &&& 0x80 ≠ 0 then ok none else
  (idx .pwsIndex1 bs 1).bind fun b1 =>
  let ret := b1 &&& 0x3f
  if ¬ (10 ≤ ret ∧ ret ≤ 30) then ok none else
  ok (some (ret, 14))

/-- the `for (index, item) in bytes.iter().enumerate() { acc |= u64::from(item) << (index*8) }`
loop; `<<` on `u64` panics for a shift amount ≥ 64 (slices longer than 8 bytes) -/
def packLE (site : Site) : List Nat → Nat → Nat → Outcome Nat
  | [], _, acc => ok acc
  | item :: rest, index, acc =>
    if index * 8 ≥ 64 then panic site
    else packLE site rest (index + 1) (acc ||| (item <<< (index * 8)))

/-- `detect_varlen_offset`: `ok none` = `Err(())`, `ok (some offset_in_bits)` -/
def detectVarlenOffset (bs : List Nat) : Outcome (Option Nat) :=
  (parseWindowSize bs).bind fun pw =>
  match pw with
  | none => ok none
  | some (_, offset0) =>
    (packLE .dvoShl bs 0 0).bind fun bytes0 =>
    let bytes := bytes0 >>> offset0
    let offset := offset0 + 1
    -- `if (bytes & 1) != 0 { bytes >>= 1; offset += 1; if (bytes & 1) != 0 { return Ok(offset) } }`
    let isLast : Bool := bytes &&& 1 ≠ 0
    let bytes := if isLast then bytes >>> 1 else bytes
    let offset := if isLast then offset + 1 else offset
    if isLast ∧ bytes &&& 1 ≠ 0 then ok (some offset) else
    let bytes := bytes >>> 1
    let mnibbles := bytes &&& 3
    let bytes := bytes >>> 2
    let offset := offset + 2
    if mnibbles = 3 then
      if bytes &&& 1 ≠ 0 then ok none else
      let bytes := bytes >>> 1
      let offset := offset + 1
      let mskipbytes := bytes &&& ((1 <<< 2) - 1)
      let offset := offset + 2
      let offset := offset + mskipbytes * 8
      ok (some offset)
    else
      let mnibbles := mnibbles + 4
      let offset := offset + mnibbles * 4
      let bytes := bytes >>> (mnibbles * 4)
      let offset := offset + 1
      if bytes &&& 1 = 0 then ok none else ok (some offset)

/-! ## constructors -/

/-- `BroCatli::new` (= `Default`) -/
def State.new : State :=
  { last_bytes := (0, 0), last_bytes_len := 0, last_byte_sanitized := false,
    any_bytes_emitted := false, last_byte_bit_offset := 0, window_size := 0,
    new_stream_pending := none }

/-- `BroCatli::new_with_window_size` (`log_window_size : u8`) -/
def State.newWithWindowSize (w : Nat) : Outcome State :=
  let mk (lb : Nat × Nat) (len : Nat) : State :=
    { last_bytes := lb, last_bytes_len := len, last_byte_bit_offset := 0,
      last_byte_sanitized := false, any_bytes_emitted := false,
      new_stream_pending := none,
      window_size := w ||| (if w > 24 then LARGE_WINDOW_FLAG else 0) }
  if w > 24 then ok (mk (17, w ||| 64 ||| 128) 2)
  else if w = 16 then ok (mk (2 ||| 4, 0) 1)
  else if w > 17 then
    -- `(3 + (w - 18) * 2) | (16 | 32)` in u8
    if w < 18 then panic .nwwsSub18
    else if 3 + (w - 18) * 2 ≥ 256 then panic .nwwsMulAdd
    else ok (mk ((3 + (w - 18) * 2) ||| (16 ||| 32), 0) 1)
  else if w = 15 then ok (mk (0x71 ||| 0x80, 1) 2)
  else if w = 14 then ok (mk (0x61 ||| 0x80, 1) 2)
  else if w = 13 then ok (mk (0x51 ||| 0x80, 1) 2)
  else if w = 12 then ok (mk (0x41 ||| 0x80, 1) 2)
  else if w = 11 then ok (mk (0x31 ||| 0x80, 1) 2)
  else if w = 10 then ok (mk (0x21 ||| 0x80, 1) 2)
  else if w ≠ 17 then panic .nwwsAssert17
  else ok (mk (0x1 ||| 0x80, 1) 2)

/-- `BroCatli::new_brotli_file` -/
def newBrotliFile (s : State) : State :=
  { s with new_stream_pending := some NewStreamData.new }

/-! ## output cursor helpers -/

/-- `out_bytes[*out_offset] = b; *out_offset += 1` where `out` holds the bytes
written so far and `cap = out_bytes.len()` -/
def push (site : Site) (out : List Nat) (cap : Nat) (b : Nat) : Outcome (List Nat) :=
  if out.length < cap then ok (out ++ [b]) else panic site

/-! ## flush_previous_stream -/

/-- the `for i in 0..max { index = max - 1 - i; if ((1 << index) & last_bytes) != 0 { break; } }`
loop (`1 << index` is a `u16` shift) ; `fuel` counts the remaining iterations -/
def findHighLoop (lastBytes max : Nat) : (fuel : Nat) → (i : Nat) → (index : Nat) → Outcome Nat
  | 0, _, index => ok index
  | fuel + 1, i, _ =>
    if max < 1 then panic .flushMaxSub1
    else if max - 1 < i then panic .flushIndexSub
    else
      let index := max - 1 - i
      if index ≥ 16 then panic .flushShl16
      else if ((1 <<< index) &&& lastBytes) ≠ 0 then ok index
      else findHighLoop lastBytes max fuel (i + 1) index

/-- tail of `flush_previous_stream` (from `if self.last_bytes_len == 2 && index < 8` on) -/
def flushFin (s : State) (out : List Nat) (index : Nat) : Outcome (State × List Nat × Nat) :=
  let s := if s.last_bytes_len = 2 ∧ index < 8 then { s with last_bytes_len := 1 } else s
  let s := { s with last_byte_bit_offset := index }
  if ¬ index < 8 then panic .flushAssertIndex
  else ok ({ s with last_byte_sanitized := true }, out, SUCCESS)

/-- `flush_previous_stream` from `index -= 1; // discard the final two bits` on, `index` being
the already decremented value and `lastBytes` the 16-bit tail -/
def flushStrip (s : State) (out : List Nat) (cap : Nat) (lastBytes index : Nat) :
    Outcome (State × List Nat × Nat) :=
  if index ≥ 8 ∧ cap ≤ out.length then ok (s, out, NEEDS_MORE_OUTPUT) else
  if index ≥ 16 then panic .flushShl16 else
  let lastBytes := lastBytes &&& ((1 <<< index) - 1)
  let s := { s with last_bytes := (lastBytes % 256, (lastBytes >>> 8) % 256) }
  if index ≥ 8 then
    if cap > out.length then
      (push .flushOutIndex out cap s.last_bytes.1).bind fun out =>
      -- `self.last_bytes[0] = self.last_bytes[1]; self.last_bytes[1] = 0;`
      let s := { s with last_bytes := (s.last_bytes.2, 0), any_bytes_emitted := true }
      if s.last_bytes_len < 1 then panic .flushLenSub else
      flushFin { s with last_bytes_len := s.last_bytes_len - 1 } out (index - 8)
    else ok (s, out, NEEDS_MORE_OUTPUT)
  else flushFin s out index

/-- `flush_previous_stream`: returns (state, output so far, result) -/
def flushPreviousStream (s : State) (out : List Nat) (cap : Nat) : Outcome (State × List Nat × Nat) :=
  if ¬ s.last_byte_sanitized then
    if s.last_bytes_len = 0 then
      ok ({ s with last_byte_sanitized := true }, out, SUCCESS)
    else
      let lastBytes := s.last_bytes.1 + (s.last_bytes.2 <<< 8)
      if s.last_bytes_len * 8 ≥ 256 then panic .flushLenMul8 else
      let max := s.last_bytes_len * 8
      if max < 1 then panic .flushMaxSub1 else
      (findHighLoop lastBytes max max 0 (max - 1)).bind fun index =>
      if index = 0 then ok (s, out, NOT_CRAFTED_FOR_APPEND) else
      -- `last_bytes >> (index - 1)` : index ≥ 1 here, shift < 16 was checked in the loop
      if (lastBytes >>> (index - 1)) ≠ 3 then ok (s, out, NOT_CRAFTED_FOR_APPEND) else
      flushStrip s out cap lastBytes (index - 1)
  else ok (s, out, SUCCESS)

/-! ## shift_and_check_new_stream_header -/

/-- second half of `shift_and_check_new_stream_header` (from `let to_copy = min(…)` on) -/
def shiftCopyOut (s : State) (nsp : NewStreamData) (out : List Nat) (cap : Nat) :
    Outcome (State × List Nat × Nat) :=
  match nsp.num_bytes_written with
  | none => panic .shiftUnwrap
  | some w =>
    if cap < out.length then panic .shiftOutSub else
    if nsp.num_bytes_read < w then panic .shiftReadSubWritten else
    let toCopy := min (cap - out.length) (nsp.num_bytes_read - w)
    -- bytes_so_far.split_at(w).1.split_at(to_copy)
    if w > NUM_STREAM_HEADER_BYTES then panic .shiftSplitAt else
    if toCopy > NUM_STREAM_HEADER_BYTES - w then panic .shiftSplitAt else
    let out := out ++ (nsp.bytes_so_far.toList.drop w).take toCopy
    let s := if toCopy ≠ 0 then { s with any_bytes_emitted := true } else s
    if w + toCopy % 256 ≥ 256 then panic .shiftWrittenAdd else
    let w' := w + toCopy % 256
    let nsp := { nsp with num_bytes_written := some w' }
    if w' ≠ nsp.num_bytes_read then
      ok ({ s with new_stream_pending := some nsp }, out, NEEDS_MORE_OUTPUT)
    else
      let s := { s with new_stream_pending := none, last_byte_sanitized := false,
                        last_byte_bit_offset := 0, last_bytes_len := 0, last_bytes := (0, 0) }
      -- `*out_offset -= 1; self.last_bytes[0] = out_bytes[*out_offset];`
      match out.getLast? with
      | none => panic .shiftUnwriteSub
      | some b =>
        if ¬ (out.length - 1 < cap) then panic .shiftUnwriteIndex else
        ok ({ s with last_bytes := (b, 0), last_bytes_len := 1 }, out.dropLast, SUCCESS)

/-- one iteration of the `for byte_index in 0..var_len_bytes` realignment loop -/
def realignStep (bsf bitOff : Nat) (byteIndex : Nat) (rh : List Nat) : Outcome (List Nat) :=
  if byteIndex * 8 ≥ 64 then panic .shiftShl64 else
  let curByte := bsf >>> (byteIndex * 8)
  if bitOff > 8 then panic .shiftBitOffSub else
  (idx .shiftRhIndex rh byteIndex).bind fun old =>
  let v := ((curByte &&& ((1 <<< (8 - bitOff)) - 1)) <<< bitOff) % 256
  (setAt .shiftRhIndex rh byteIndex (old ||| v)).bind fun rh =>
  setAt .shiftRhIndex rh (byteIndex + 1) ((curByte >>> (8 - bitOff)) % 256)

/-- the `for index in 0..num_bytes_read { bytes_so_far |= u64::from(arr[index]) << (index * 8) }` loop -/
def packB5 (b : B5) (n : Nat) : Outcome Nat :=
  forRange (fun index acc =>
      match b.get? index with
      | none => panic .shiftBsfIndex
      | some v => if index * 8 ≥ 64 then panic .shiftShl64 else ok (acc ||| (v <<< (index * 8))))
    n 0 0

/-- the `for aligned_index in 0..num_whole_bytes_to_copy` loop -/
def copyWholeLoop (b : B5) (src dst n : Nat) (rh : List Nat) : Outcome (List Nat) :=
  forRange (fun ai rh =>
      match b.get? (src + ai) with
      | none => panic .shiftSrcIndex
      | some v => setAt .shiftRhIndex rh (dst + ai) v)
    n 0 rh

/-- the realignment branch of `shift_and_check_new_stream_header` (a previous stream exists),
from `let mut bytes_so_far = 0u64;` to the point where the common tail starts -/
def shiftRealign (s : State) (nsp : NewStreamData) (windowOffset varlenOffset : Nat)
    (out : List Nat) (cap : Nat) : Outcome (State × NewStreamData × List Nat) :=
  let rh : List Nat := [s.last_bytes.1, 0, 0, 0, 0, 0]
  (packB5 nsp.bytes_so_far nsp.num_bytes_read).bind fun bsf =>
  let bsf := bsf >>> windowOffset
  if varlenOffset < windowOffset then panic .shiftVarlenSub else
  if varlenOffset - windowOffset ≥ 64 then panic .shiftShl64 else
  let bsf := bsf &&& ((1 <<< (varlenOffset - windowOffset)) - 1)
  let varLenBytes := ((varlenOffset - windowOffset) + 7) / 8
  (forRange (realignStep bsf s.last_byte_bit_offset) varLenBytes 0 rh).bind fun rh =>
  -- `(usize::from(bit_offset) + varlen_offset - window_offset + 7) / 8`
  if s.last_byte_bit_offset + varlenOffset < windowOffset then panic .shiftDestSub else
  let wholeByteDestination := ((s.last_byte_bit_offset + varlenOffset - windowOffset) + 7) / 8
  let wholeByteSource := (varlenOffset + 7) / 8
  if nsp.num_bytes_read < wholeByteSource then panic .shiftWholeSub else
  let numWholeBytesToCopy := nsp.num_bytes_read - wholeByteSource
  (copyWholeLoop nsp.bytes_so_far wholeByteSource wholeByteDestination numWholeBytesToCopy rh).bind fun rh =>
  (idx .shiftRhIndex rh 0).bind fun rh0 =>
  (push .shiftOutIndex1 out cap rh0).bind fun out =>
  let s := { s with any_bytes_emitted := true }
  -- `(dest + n) as u8 - 1`
  if (wholeByteDestination + numWholeBytesToCopy) % 256 < 1 then panic .shiftReadSub1 else
  let nread := (wholeByteDestination + numWholeBytesToCopy) % 256 - 1
  match B5.ofList? (rh.drop 1) with
  | none => panic .shiftCloneLen
  | some b5 => ok (s, { bytes_so_far := b5, num_bytes_read := nread, num_bytes_written := some 0 }, out)

/-- `shift_and_check_new_stream_header`: returns (state, output so far, result) -/
def shiftAndCheckNewStreamHeader (s : State) (nsp : NewStreamData) (out : List Nat) (cap : Nat) :
    Outcome (State × List Nat × Nat) :=
  match nsp.num_bytes_written with
  | none =>
    -- `&bytes_so_far[..usize::from(num_bytes_read)]`
    if nsp.num_bytes_read > NUM_STREAM_HEADER_BYTES then panic .shiftSliceRead else
    let hdr := nsp.bytes_so_far.toList.take nsp.num_bytes_read
    (parseWindowSize hdr).bind fun pw =>
    match pw with
    | none => ok (s, out, INVALID_WINDOW_SIZE)
    | some (windowSize, windowOffset) =>
      if s.window_size = 0 then
        let s := { s with window_size := windowSize ||| (if windowOffset = 14 then LARGE_WINDOW_FLAG else 0) }
        if s.last_byte_bit_offset ≠ 0 then panic .shiftAssertOffset0 else
        (push .shiftOutIndex0 out cap nsp.bytes_so_far.b0).bind fun out =>
        let nsp := { nsp with num_bytes_written := some 1 }
        let s := { s with any_bytes_emitted := true }
        shiftCopyOut s nsp out cap
      else
        if windowSize > (s.window_size &&& NOT_LARGE_WINDOW_FLAG) then ok (s, out, WINDOW_SIZE_LARGER) else
        -- `(window_offset == 14) != ((self.window_size & LARGE_WINDOW_FLAG) != 0)`
        if (decide (windowOffset = 14)) ≠ (decide ((s.window_size &&& LARGE_WINDOW_FLAG) ≠ 0)) then
          ok (s, out, NOT_CRAFTED_FOR_CONCAT) else
        (detectVarlenOffset hdr).bind fun vo =>
        match vo with
        | none => ok (s, out, NOT_CRAFTED_FOR_CONCAT)
        | some varlenOffset =>
          if (varlenOffset + 7) / 8 > nsp.num_bytes_read then ok (s, out, NOT_CRAFTED_FOR_CONCAT) else
          (shiftRealign s nsp windowOffset varlenOffset out cap).bind fun r =>
          shiftCopyOut r.1 r.2.1 r.2.2 cap
  | some _ =>
    if s.window_size = 0 then panic .shiftAssertWs else
    shiftCopyOut s nsp out cap

/-! ## stream -/

/-- what a `stream` / `finish` call did -/
structure Ret where
  st : State
  code : Nat
  /-- `*in_offset` after the call (it was 0 before) -/
  consumed : Nat
  /-- `out_bytes[..*out_offset]` after the call (`*out_offset` was 0 before) -/
  produced : List Nat
  deriving DecidableEq, Repr

/-- the `while !sufficient() && *in_offset < in_bytes.len()` loop; the list is
`in_bytes[*in_offset..]` -/
def headerLoop (nsp : NewStreamData) : List Nat → Nat → Outcome (NewStreamData × Nat)
  | [], inOff => ok (nsp, inOff)
  | b :: rest, inOff =>
    if nsp.sufficient then ok (nsp, inOff) else
    match nsp.bytes_so_far.set? nsp.num_bytes_read b with
    | none => panic .streamBsfIndex
    | some bsf =>
      if nsp.num_bytes_read + 1 ≥ 256 then panic .streamReadAdd else
      headerLoop { nsp with bytes_so_far := bsf, num_bytes_read := nsp.num_bytes_read + 1 } rest (inOff + 1)

/-- `self.last_bytes[i] = v` for a run-time `i` -/
def setLast (lb : Nat × Nat) (i v : Nat) : Outcome (Nat × Nat) :=
  if i = 0 then ok (v, lb.2) else if i = 1 then ok (lb.1, v) else panic .streamLastBytesIndex

/-- `stream` from `if out_bytes.len() == *out_offset` (line 503) on: the pass-through copy -/
def streamCopy (s : State) (inp : List Nat) (inOff : Nat) (out : List Nat) (cap : Nat) : Outcome Ret :=
  if cap = out.length then ok ⟨s, NEEDS_MORE_OUTPUT, inOff, out⟩ else
  if inp.length = inOff then ok ⟨s, NEEDS_MORE_INPUT, inOff, out⟩ else
  if cap < out.length then panic .streamOutSub else
  if inp.length < inOff then panic .streamInSub else
  let toCopy := min (cap - out.length) (inp.length - inOff)
  if toCopy = 0 then panic .streamAssertToCopy else
  if toCopy = 1 then
    (push .streamOutIndex out cap s.last_bytes.1).bind fun out =>
    (idx .streamInIndex inp inOff).bind fun b =>
    let s := { s with last_bytes := (s.last_bytes.2, b) }
    let inOff := inOff + 1
    if out.length = cap then ok ⟨s, NEEDS_MORE_OUTPUT, inOff, out⟩
    else ok ⟨s, NEEDS_MORE_INPUT, inOff, out⟩
  else
    -- out_bytes.split_at_mut(*out_offset).1.split_at_mut(2).0.clone_from_slice(&self.last_bytes[..])
    if cap - out.length < 2 then panic .streamSplitAt else
    let out := out ++ [s.last_bytes.1, s.last_bytes.2]
    -- in_bytes.split_at(*in_offset).1.split_at(to_copy).0.split_at(to_copy - 2)
    if inp.length - inOff < toCopy then panic .streamSplitAt else
    if toCopy < 2 then panic .streamSplitAt else
    let window := (inp.drop inOff).take toCopy
    let newInOffset := window.take (toCopy - 2)
    let lastTwo := window.drop (toCopy - 2)
    match lastTwo with
    | [x, y] =>
      let s := { s with last_bytes := (x, y) }
      let inOff := inOff + 2
      let toCopy := toCopy - 2
      -- out_bytes.split_at_mut(*out_offset).1.split_at_mut(to_copy).0.clone_from_slice(new_in_offset)
      if cap - out.length < toCopy then panic .streamSplitAt else
      if newInOffset.length ≠ toCopy then panic .streamCloneLen else
      let out := out ++ newInOffset
      let inOff := inOff + toCopy
      if out.length = cap then ok ⟨s, NEEDS_MORE_OUTPUT, inOff, out⟩
      else ok ⟨s, NEEDS_MORE_INPUT, inOff, out⟩
    | _ => panic .streamCloneLen

/-- `stream` from `assert!(self.new_stream_pending.is_none())` (line 480) on -/
def streamTail (s : State) (inp : List Nat) (inOff : Nat) (out : List Nat) (cap : Nat) : Outcome Ret :=
  if s.new_stream_pending.isSome then panic .streamAssertPendingNone else
  if s.last_bytes_len ≠ 2 then
    if cap = out.length then ok ⟨s, NEEDS_MORE_OUTPUT, inOff, out⟩ else
    if inp.length = inOff then ok ⟨s, NEEDS_MORE_INPUT, inOff, out⟩ else
    (idx .streamInIndex inp inOff).bind fun b =>
    (setLast s.last_bytes s.last_bytes_len b).bind fun lb =>
    let inOff := inOff + 1
    if s.last_bytes_len + 1 ≥ 256 then panic .streamLenAdd else
    let s := { s with last_bytes := lb, last_bytes_len := s.last_bytes_len + 1 }
    if s.last_bytes_len ≠ 2 then
      if cap = out.length then ok ⟨s, NEEDS_MORE_OUTPUT, inOff, out⟩ else
      if inp.length = inOff then ok ⟨s, NEEDS_MORE_INPUT, inOff, out⟩ else
      (idx .streamInIndex inp inOff).bind fun b =>
      (setLast s.last_bytes s.last_bytes_len b).bind fun lb =>
      if s.last_bytes_len + 1 ≥ 256 then panic .streamLenAdd else
      let s := { s with last_bytes := lb, last_bytes_len := s.last_bytes_len + 1 }
      let inOff := inOff + 1
      streamCopy s inp inOff out cap
    else streamCopy s inp inOff out cap
  else streamCopy s inp inOff out cap

/-- `BroCatli::stream(in_bytes, &mut 0, out_bytes, &mut 0)` with `in_bytes = inp`,
`out_bytes.len() = cap` -/
def stream (s : State) (inp : List Nat) (cap : Nat) : Outcome Ret :=
  match s.new_stream_pending with
  | some nsp0 =>
    (flushPreviousStream s [] cap).bind fun (s1, out1, fr) =>
    if fr ≠ SUCCESS then ok ⟨s1, fr, 0, out1⟩ else
    (if nsp0.num_bytes_written.isNone ∧ nsp0.num_bytes_read < NUM_STREAM_HEADER_BYTES then
        (headerLoop nsp0 inp 0).bind fun (nsp1, off1) =>
        ok (nsp1, off1, { s1 with new_stream_pending := some nsp1 })
      else ok (nsp0, 0, s1)).bind fun (nsp, inOff, s2) =>
    if nsp.num_bytes_written.isNone ∧ ¬ nsp.sufficient then ok ⟨s2, NEEDS_MORE_INPUT, inOff, out1⟩ else
    if cap = out1.length then ok ⟨s2, NEEDS_MORE_OUTPUT, inOff, out1⟩ else
    (shiftAndCheckNewStreamHeader s2 nsp out1 cap).bind fun (s3, out3, sr) =>
    if sr ≠ SUCCESS then ok ⟨s3, sr, inOff, out3⟩ else
    if out3.length = cap then ok ⟨s3, NEEDS_MORE_OUTPUT, inOff, out3⟩ else
    streamTail s3 inp inOff out3 cap
  | none => streamTail s inp 0 [] cap

/-! ## finish -/

/-- `append_eof_metablock_to_last_bytes` -/
def appendEofMetablockToLastBytes (s : State) : Outcome State :=
  if ¬ s.last_byte_sanitized then panic .eofAssertSanitized else
  let lastBytes := s.last_bytes.1 ||| (s.last_bytes.2 <<< 8)
  if s.last_bytes_len < 1 then panic .eofLenSub else
  if (s.last_bytes_len - 1) * 8 ≥ 256 then panic .eofMul else
  if (s.last_bytes_len - 1) * 8 + s.last_byte_bit_offset ≥ 256 then panic .eofAdd else
  let bitEnd := (s.last_bytes_len - 1) * 8 + s.last_byte_bit_offset
  if bitEnd ≥ 16 then panic .eofShl16 else
  let lastBytes := lastBytes ||| ((3 <<< bitEnd) % 2 ^ 16)
  let s := { s with last_bytes := (lastBytes % 256, (lastBytes >>> 8) % 256),
                    last_byte_sanitized := false }
  if s.last_byte_bit_offset + 2 ≥ 256 then panic .eofOffAdd else
  let s := { s with last_byte_bit_offset := s.last_byte_bit_offset + 2 }
  if s.last_byte_bit_offset ≥ 8 then
    let s := { s with last_byte_bit_offset := s.last_byte_bit_offset - 8 }
    if s.last_byte_bit_offset ≠ 0 then
      -- only a marker that reaches into the next byte adds a byte
      if s.last_bytes_len + 1 ≥ 256 then panic .eofLenAdd else
      ok { s with last_bytes_len := s.last_bytes_len + 1 }
    else ok s
  else ok s

/-- the `while self.last_bytes_len != 0` loop of `finish` (recursion on `last_bytes_len`);
`none` result = fall through to the code after the loop -/
def finishLoop (cap : Nat) : (len : Nat) → (s : State) → (out : List Nat) → Outcome (State × List Nat × Option Nat)
  | 0, s, out => ok ({ s with last_bytes_len := 0 }, out, none)
  | len + 1, s, out =>
    if out.length = cap then ok ({ s with last_bytes_len := len + 1 }, out, some NEEDS_MORE_OUTPUT) else
    (push .finishOutIndex out cap s.last_bytes.1).bind fun out =>
    finishLoop cap len { s with last_bytes := (s.last_bytes.2, s.last_bytes.2), any_bytes_emitted := true } out

/-- `BroCatli::finish(out_bytes, &mut 0)` with `out_bytes.len() = cap` -/
def finish (s : State) (cap : Nat) : Outcome Ret :=
  (if s.last_byte_sanitized ∧ s.last_bytes_len ≠ 0 then appendEofMetablockToLastBytes s else ok s).bind fun s =>
  (finishLoop cap s.last_bytes_len s []).bind fun (s, out, r) =>
  match r with
  | some code => ok ⟨s, code, 0, out⟩
  | none =>
    if ¬ s.any_bytes_emitted then
      if cap = out.length then ok ⟨s, NEEDS_MORE_OUTPUT, 0, out⟩ else
      let s := { s with any_bytes_emitted := true }
      (push .finishOutIndex out cap 0x3b).bind fun out =>
      ok ⟨s, SUCCESS, 0, out⟩
    else ok ⟨s, SUCCESS, 0, out⟩

/-! ## (de)serialisation -/

def b2n (b : Bool) : Nat := if b then 1 else 0

/-- `buffer[i] = v` -/
def setB (buf : List Nat) (i v : Nat) : Outcome (List Nat) := setAt .serIndex buf i v

/-- `serialize_to_buffer`: `ok none` = `Err(())`; the argument is the buffer's
previous contents, the result its new contents -/
def serializeToBuffer (s : State) (buf : List Nat) : Outcome (Option (List Nat)) :=
  if 16 + NUM_STREAM_HEADER_BYTES > buf.length then ok none else
  -- buffer[..2].clone_from_slice(&self.last_bytes[..])
  if buf.length < 2 then panic .serSlice else
  let buf := [s.last_bytes.1, s.last_bytes.2] ++ buf.drop 2
  (setB buf 8 s.last_bytes_len).bind fun buf =>
  let flags := b2n s.last_byte_sanitized ||| (b2n s.new_stream_pending.isSome <<< 6)
                ||| (b2n s.any_bytes_emitted <<< 5)
  (setB buf 9 flags).bind fun buf =>
  (setB buf 10 s.last_byte_bit_offset).bind fun buf =>
  (setB buf 11 s.window_size).bind fun buf =>
  match s.new_stream_pending with
  | some nsp =>
    (if nsp.num_bytes_written.isSome then setB buf 9 (flags ||| (1 <<< 7)) else ok buf).bind fun buf =>
    (setB buf 12 nsp.num_bytes_read).bind fun buf =>
    (setB buf 13 (nsp.num_bytes_written.getD 0)).bind fun buf =>
    -- buffer[16..16 + 5].clone_from_slice(&bytes_so_far[..])
    if buf.length < 16 + NUM_STREAM_HEADER_BYTES then panic .serSlice else
    ok (some (buf.take 16 ++ nsp.bytes_so_far.toList ++ buf.drop (16 + NUM_STREAM_HEADER_BYTES)))
  | none => ok (some buf)

/-- `deserialize_from_buffer`: `ok none` = `Err(())` -/
def deserializeFromBuffer (buf : List Nat) : Outcome (Option State) :=
  if 16 + NUM_STREAM_HEADER_BYTES > buf.length then ok none else
  (idx .deserIndex buf 12).bind fun b12 =>
  (idx .deserIndex buf 9).bind fun b9 =>
  (if b9 &&& (1 <<< 7) ≠ 0 then (idx .deserIndex buf 13).bind fun b13 => ok (some b13)
   else ok none).bind fun written =>
  let xlen := NUM_STREAM_HEADER_BYTES
  if buf.length < 16 + xlen then panic .deserSlice else
  match B5.ofList? ((buf.drop 16).take xlen) with
  | none => panic .deserSlice
  | some bsf =>
    let possible : NewStreamData := ⟨bsf, b12, written⟩
    let pending := if b9 &&& (1 <<< 6) ≠ 0 then some possible else none
    (idx .deserIndex buf 8).bind fun b8 =>
    (idx .deserIndex buf 10).bind fun b10 =>
    (idx .deserIndex buf 11).bind fun b11 =>
    -- `if ret.last_bytes.len() > 8 { return Err(()) }` : 2 > 8 is false
    if buf.length < 2 then panic .deserSlice else
    (idx .deserIndex buf 0).bind fun l0 =>
    (idx .deserIndex buf 1).bind fun l1 =>
    ok (some { last_bytes := (l0, l1), last_bytes_len := b8,
               last_byte_sanitized := decide (b9 &&& 1 ≠ 0),
               last_byte_bit_offset := b10,
               any_bytes_emitted := decide (b9 &&& (1 <<< 5) ≠ 0),
               window_size := b11, new_stream_pending := pending })

/-! ## `ffi/broccoli.rs`: the state lives in a 120-byte buffer; every call
deserialises, runs, advances the caller's cursors, serialises -/

def zeroBuf120 : List Nat := List.replicate 120 0

/-- `From<BroCatli> for BroccoliState` -/
def toBroccoli (s : State) : Outcome (List Nat) :=
  (serializeToBuffer s zeroBuf120).bind fun r =>
  match r with
  | none => panic .ffiUnwrap
  | some b => ok b

/-- `From<BroccoliState> for BroCatli` -/
def fromBroccoli (cur : List Nat) : Outcome State :=
  (deserializeFromBuffer cur).bind fun r =>
  match r with
  | none => panic .ffiUnwrap
  | some s => ok s

/-- what the C ABI does to the state on every call -/
def saveRestore (s : State) : Outcome State := (toBroccoli s).bind fromBroccoli

def broccoliCreateInstance : Outcome (List Nat) := toBroccoli State.new
def broccoliCreateInstanceWithWindowSize (w : Nat) : Outcome (List Nat) :=
  (State.newWithWindowSize w).bind toBroccoli
def broccoliNewBrotliFile (cur : List Nat) : Outcome (List Nat) :=
  (fromBroccoli cur).bind fun s => toBroccoli (newBrotliFile s)

/-- result of `BroccoliConcatStream` / `BroccoliConcatFinish`: new `current_data`,
return code, pointer advances (= bytes consumed / produced), new `*available_in`,
new `*available_out`, bytes written at the old `*output_buf_ptr` -/
structure FfiRet where
  cur : List Nat
  code : Nat
  inAdvance : Nat
  outAdvance : Nat
  availIn : Nat
  availOut : Nat
  produced : List Nat
  deriving DecidableEq, Repr

/-- `BroccoliConcatStream` (`inp = (*input_buf_ptr)[..*available_in]`) -/
def broccoliConcatStream (cur : List Nat) (inp : List Nat) (availOut : Nat) : Outcome FfiRet :=
  (fromBroccoli cur).bind fun s =>
  (stream s inp availOut).bind fun r =>
  if inp.length < r.consumed then panic .ffiAvailSub else
  if availOut < r.produced.length then panic .ffiAvailSub else
  (toBroccoli r.st).bind fun cur' =>
  ok ⟨cur', r.code, r.consumed, r.produced.length, inp.length - r.consumed,
      availOut - r.produced.length, r.produced⟩

/-- `BroccoliConcatFinish` -/
def broccoliConcatFinish (cur : List Nat) (availOut : Nat) : Outcome FfiRet :=
  (fromBroccoli cur).bind fun s =>
  (finish s availOut).bind fun r =>
  if availOut < r.produced.length then panic .ffiAvailSub else
  (toBroccoli r.st).bind fun cur' =>
  ok ⟨cur', r.code, 0, r.produced.length, 0, availOut - r.produced.length, r.produced⟩

/-! ## canonical protocol driver (used by C12): feed one member under a slicing
schedule, collecting the output -/

/-- terminal (error) result codes -/
def isTerminal (code : Nat) : Bool := code ≥ 124

/-- result of driving calls: final state, last code, all bytes emitted -/
structure Run where
  st : State
  code : Nat
  emitted : List Nat
  deriving DecidableEq, Repr

/-- Feed `inp` (one input buffer) to `stream` until it is used up, giving the
`k`-th call the output capacity `caps k` … driven by an explicit list of
capacities: when the list runs out an ample capacity (`inp.length + 8`) is used.
`fuel` bounds the number of calls.  Protocol: after `NeedsMoreOutput` call again
with the unconsumed input; after `NeedsMoreInput` with input left call again;
stop when the input is used up and the call answered `NeedsMoreInput`, or on a
terminal code. `none` = the model panicked or the fuel ran out. -/
def feedBuffer : (fuel : Nat) → State → (inp : List Nat) → (caps : List Nat) → (acc : List Nat) → Option Run
  | 0, _, _, _, _ => none
  | fuel + 1, s, inp, caps, acc =>
    let cap := caps.headD (inp.length + 8)
    match stream s inp cap with
    | .panic _ => none
    | .ok r =>
      let acc := acc ++ r.produced
      let rest := inp.drop r.consumed
      if isTerminal r.code then some ⟨r.st, r.code, acc⟩
      else if r.code = NEEDS_MORE_INPUT ∧ rest = [] then some ⟨r.st, r.code, acc⟩
      else feedBuffer fuel r.st rest caps.tail acc

/-- feed the input buffers `bufs` one after the other (each under the protocol
above, all calls with ample capacity unless `caps` says otherwise) -/
def runAll (fuel : Nat) : State → (bufs : List (List Nat)) → (caps : List Nat) → (acc : List Nat) → Option Run
  | s, [], _, acc => some ⟨s, NEEDS_MORE_INPUT, acc⟩
  | s, b :: bs, caps, acc =>
    match feedBuffer fuel s b caps acc with
    | none => none
    | some r =>
      if isTerminal r.code then some r
      else runAll fuel r.st bs [] r.emitted

/-! ## arbitrary call sequences (used by C16) -/

/-- one protocol operation, as in the driver's call tokens `N`, `S:<in>:<cap>`, `F:<cap>`, `Z` -/
inductive Op where
  | N
  | S (inp : List Nat) (cap : Nat)
  | F (cap : Nat)
  | Z
  deriving DecidableEq, Repr

/-- bytes offered / room offered by an operation -/
def Op.inLen : Op → Nat
  | .S inp _ => inp.length
  | _ => 0
def Op.room : Op → Nat
  | .S _ cap => cap
  | .F cap => cap
  | _ => 0

/-- what the driver does for one call token -/
def applyOp (s : State) : Op → Outcome Ret
  | .N => ok ⟨newBrotliFile s, SUCCESS, 0, []⟩
  | .S inp cap => stream s inp cap
  | .F cap => finish s cap
  | .Z => (saveRestore s).bind fun s' => ok ⟨s', SUCCESS, 0, []⟩

/-- protocol condition for a fresh `new()` instance: `new_brotli_file` comes before the first `stream` -/
def announcedFirst : List Op → Bool
  | [] => true
  | .N :: _ => true
  | .S _ _ :: _ => false
  | _ :: rest => announcedFirst rest

/-- a whole concatenation: for every member `new_brotli_file`, then `runAll` over that member's
input buffers under its capacity schedule; stops at the first terminal code -/
def concatAll (fuel : Nat) : State → List (List (List Nat) × List Nat) → List Nat → Option Run
  | s, [], acc => some ⟨s, NEEDS_MORE_INPUT, acc⟩
  | s, (bufs, caps) :: rest, acc =>
    match runAll fuel (newBrotliFile s) bufs caps acc with
    | none => none
    | some r => if isTerminal r.code then some r else concatAll fuel r.st rest r.emitted

/-! ## bit-string view (LSB first inside each byte), used by C03 -/

/-- the low `n` bits of `v`, least significant first -/
def bitsOf : (n : Nat) → (v : Nat) → List Bool
  | 0, _ => []
  | n + 1, v => (v % 2 = 1) :: bitsOf n (v / 2)

/-- a byte string as a bit string -/
def bytesToBits (bs : List Nat) : List Bool := bs.flatMap (bitsOf 8)

/-- `EncodeWindowBits` of `src/enc/encode.rs`: (last_bytes : u16, last_bytes_bits) -/
def encodeWindowBits (lgwin : Nat) (largeWindow : Bool) : Nat × Nat :=
  if largeWindow then ((((lgwin &&& 0x3F) <<< 8) ||| 0x11) % 2 ^ 16, 14)
  else if lgwin = 16 then (0, 1)
  else if lgwin = 17 then (1, 7)
  else if lgwin > 17 then ((((lgwin - 17) <<< 1) ||| 1) % 2 ^ 16, 4)
  else ((((lgwin - 8) <<< 4) ||| 1) % 2 ^ 16, 7)

end BV.Concat
