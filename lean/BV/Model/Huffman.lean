/-
M4 `Huffman` — executable model of the prefix-code builder
(`src/enc/entropy_encode.rs`, whole file) and of its serialisation
(`src/enc/brotli_bit_stream.rs`: `BrotliStoreHuffmanTreeOfHuffmanTreeToBitMask`,
`BrotliStoreHuffmanTreeToBitMask`, `BrotliStoreHuffmanTree`,
`StoreStaticCodeLengthCode`, `BrotliBuildAndStoreHuffmanTreeFast`,
`StoreSimpleHuffmanTree`, `BuildAndStoreHuffmanTree`).

Conventions
* slices are `List`s; `&mut` arguments are returned; a slice index out of range,
  an `assert!` and a debug-build integer overflow are the outcome `.panic`
  (`BV.Bits.Out`); `.fuel` = the bound of a model loop ran out (each place says
  what that means for the Rust code).
* `usize = u64`; `x as i16`, `x as i32`, `x as usize` are `asI16`, `asI32`,
  `asUsize`; `wrapping_*` on `u32` is an explicit `% 2^32`.
* `u8` depths, `u16` bit patterns and `u32` counts are `Nat`s; the places where
  the Rust truncates are explicit `% 256`, `% 65536`, `% 2^32`.
* The static tables are `BV.Gen.*` (generated from the Rust source).

The RFC 7932 specification side (`canonicalCodes`, `rfcExpandCodeLengths`,
`kraftSum`, the readers) is at the end of this file and is written
independently of the encoder functions.
-/
import BV.Model.HuffmanFast

namespace BV.Huffman
open BV.Gen BV.Bits

/-- fuel of `setDepthLoop`: a traversal limited to `max_depth ≤ 15` levels visits
fewer than `2^16` nodes, whatever the pool contains -/
def setDepthFuel : Nat := 65536

/-- `BrotliSetDepth(p0, pool, depth, max_depth)` -/
def setDepth (p0 : Int) (pool : List Node) (depth : List Nat) (maxDepth : Int) :
    Out (Bool × List Nat) :=
  setDepthLoop pool maxDepth setDepthFuel p0 [-1] depth

/-- One round of the `'break1` loop after the leaves are collected (`n ≥ 2`):
sort, sentinels, merge.  Shared with `BrotliBuildAndStoreHuffmanTreeFast`
(which writes the two sentinels in the other order and counts `k` as `i32`). -/
def buildNodes (cmp : Node → Node → Bool) (tree : List Node) (n : Nat) : Out (List Node) := do
  let tree ← sortItems cmp tree n
  let tree ← setAt tree n sentinel
  let tree ← setAt tree (n + 1) sentinel
  mergeLoop n (n - 1) tree 0 (n + 1)

/-- The `'break1: loop` of `BrotliCreateHuffmanTree`; `countLimit` doubles
(`wrapping_mul(2)`) at each retry.  Fuel: `count_limit` takes the values
`1, 2, …, 2^31, 0, 0, …`; a round with `count_limit = 0` builds the same leaves
as the round before it with `count_limit = 0`, so if the 34th round fails the
Rust loop never terminates: `.fuel` here means *the Rust function diverges*.

`n == 0` (all counts zero): `k = n.wrapping_sub(1) = usize::MAX`, and the merge
loop reads `tree[i]`, `tree[j]` and writes `tree[2n - k + 1]` at indices that
grow at every step, so it runs off the end of any slice: a panic. -/
def createLoop (data : List Nat) (length : Nat) (treeLimit : Int) :
    Nat → Nat → List Node → List Nat → Out (List Node × List Nat)
  | 0, _, _, _ => .fuel
  | f + 1, countLimit, tree, depth => do
    let (tree, n) ← collectLeaves data countLimit length tree 0
    if n = 1 then
      let t0 ← getAt tree 0
      let depth ← setAt depth (asUsize t0.right) 1
      .ok (tree, depth)
    else if n = 0 then .panic
    else
      let tree ← buildNodes cmpSort tree n
      let (done, depth) ← setDepth (asI32 (2 * n - 1)) tree depth treeLimit
      if done then .ok (tree, depth)
      else createLoop data length treeLimit f (countLimit * 2 % 4294967296) tree depth

def createFuel : Nat := 34

/-- `BrotliCreateHuffmanTree(data, length, tree_limit, tree, depth)`; returns `depth`.
(`tree` is scratch: every element is written before it is read.) -/
def createHuffmanTree (data : List Nat) (length : Nat) (treeLimit : Int)
    (tree : List Node) (depth : List Nat) : Out (List Nat) := do
  let (_, depth) ← createLoop data length treeLimit createFuel 1 tree depth
  .ok depth

/-! ## `BrotliOptimizeHuffmanCountsForRle` -/

def u32 : Nat := 4294967296
def u64 : Nat := 18446744073709551616

/-- `(256u32).wrapping_mul(a.wrapping_add(b).wrapping_add(c)).wrapping_div(3).wrapping_add(420) as usize` -/
def rleLimit3 (a b c : Nat) : Nat := ((256 * ((a + b + c) % u32)) % u32 / 3 + 420) % u32

/-- `for i in 0..length { if counts[i] != 0 { nonzero_count += 1 } }` -/
def countNonzeroLoop (counts : List Nat) : Nat → Nat → Nat → Out Nat
  | 0, _, acc => .ok acc
  | c + 1, i, acc => do
    let x ← getAt counts i
    countNonzeroLoop counts c (i + 1) (if x ≠ 0 then acc + 1 else acc)

/-- `while length != 0 && counts[length - 1] == 0 { length -= 1 }` -/
def trimLoop (counts : List Nat) : Nat → Out Nat
  | 0 => .ok 0
  | l + 1 => do
    let c ← getAt counts l
    if c = 0 then trimLoop counts l else .ok (l + 1)

/-- `nonzeros` and `smallest_nonzero` over `counts[..length]` -/
def smallestLoop (counts : List Nat) : Nat → Nat → Nat → Nat → Out (Nat × Nat)
  | 0, _, nz, sm => .ok (nz, sm)
  | c + 1, i, nz, sm => do
    let x ← getAt counts i
    if x ≠ 0 then smallestLoop counts c (i + 1) (nz + 1) (if sm > x then x else sm)
    else smallestLoop counts c (i + 1) nz sm

/-- `for i in 1..length - 1 { if counts[i-1] != 0 && counts[i] == 0 && counts[i+1] != 0 { counts[i] = 1 } }` -/
def fillLoop : Nat → Nat → List Nat → Out (List Nat)
  | 0, _, counts => .ok counts
  | c + 1, i, counts => do
    let a ← getAt counts (i - 1)
    let b ← getAt counts i
    let d ← getAt counts (i + 1)
    let counts ← (if a ≠ 0 ∧ b = 0 ∧ d ≠ 0 then setAt counts i 1 else Out.ok counts)
    fillLoop c (i + 1) counts

/-- `for k in 0..cnt { arr[i.wrapping_sub(k).wrapping_sub(1)] = v }` (from `k`) -/
def setRun (i v : Nat) : Nat → Nat → List Nat → Out (List Nat)
  | 0, _, arr => .ok arr
  | c + 1, k, arr => do
    let arr ← setAt arr ((i + u64 - k + u64 - 1) % u64) v
    setRun i v c (k + 1) arr

/-- the loop that marks in `good_for_rle` the runs that are already good (`i` in `0..=length`) -/
def markLoop (counts : List Nat) (length : Nat) :
    Nat → Nat → Nat → Nat → List Nat → Out (List Nat)
  | 0, _, _, _, good => .ok good
  | c + 1, i, symbol, step, good => do
    let ci ← (if i = length then Out.ok symbol else getAt counts i)
    if i = length ∨ ci ≠ symbol then
      let good ← (if (symbol = 0 ∧ step ≥ 5) ∨ (symbol ≠ 0 ∧ step ≥ 7) then setRun i 1 step 0 good
        else Out.ok good)
      markLoop counts length c (i + 1) (if i ≠ length then ci else symbol) 1 good
    else markLoop counts length c (i + 1) symbol (step + 1) good

/-- the short-circuit `||` chain that ends a stride -/
def strideBreak (counts good : List Nat) (length i limit : Nat) : Out Bool :=
  if i = length then .ok true
  else do
    let g ← getAt good i
    if g ≠ 0 then .ok true
    else do
      let g1 ← (if i ≠ 0 then getAt good (i - 1) else Out.ok 0)
      if g1 ≠ 0 then .ok true
      else do
        let c ← getAt counts i
        .ok (decide (((256 * c) % u32 + u64 - limit % u64 + 1240) % u64 ≥ 2 * 1240))

/-- the new `limit` after a stride ended at `i` -/
def strideLimit (counts : List Nat) (length i : Nat) : Out Nat :=
  if i < (length + u64 - 2) % u64 then do
    let a ← getAt counts i
    let b ← getAt counts (i + 1)
    let d ← getAt counts (i + 2)
    .ok (rleLimit3 a b d)
  else if i < length then do
    let a ← getAt counts i
    .ok ((256 * a) % u32)
  else .ok 0

/-- the value written over a finished stride -/
def strideCount (stride sum : Nat) : Nat :=
  let count := ((sum + stride / 2) % u64) / stride
  let count := if count = 0 then 1 else count
  if sum = 0 then 0 else count

/-- the smoothing loop (`i` in `0..=length`), state `(counts, stride, limit, sum)` -/
def strideLoop (good : List Nat) (length : Nat) :
    Nat → Nat → List Nat → Nat → Nat → Nat → Out (List Nat)
  | 0, _, counts, _, _, _ => .ok counts
  | c + 1, i, counts, stride, limit, sum => do
    let brk ← strideBreak counts good length i limit
    let counts ← (if brk ∧ (stride ≥ 4 ∨ (stride ≥ 3 ∧ sum = 0)) then
        setRun i (strideCount stride sum % u32) stride 0 counts else Out.ok counts)
    let limit ← (if brk then strideLimit counts length i else Out.ok limit)
    let stride := (if brk then 0 else stride) + 1
    let sum := if brk then 0 else sum
    if i ≠ length then do
      let x ← getAt counts i
      let sum := (sum + x) % u64
      let limit := if stride ≥ 4 then ((256 * sum) % u64 + stride / 2) % u64 / stride else limit
      let limit := if stride = 4 then (limit + 120) % u64 else limit
      strideLoop good length c (i + 1) counts stride limit sum
    else strideLoop good length c (i + 1) counts stride limit sum

/-- `BrotliOptimizeHuffmanCountsForRle(length, counts, good_for_rle)`; returns `counts`. -/
def optimizeHuffmanCountsForRle (length0 : Nat) (counts : List Nat) (goodForRle : List Nat) :
    Out (List Nat) := do
  let nonzeroCount ← countNonzeroLoop counts length0 0 0
  if nonzeroCount < 16 then .ok counts
  else do
    let length ← trimLoop counts length0
    if length = 0 then .ok counts
    else do
      let (nonzeros, smallest) ← smallestLoop counts length 0 0 1073741824
      if nonzeros < 5 then .ok counts
      else do
        let counts ← (if smallest < 4 ∧ length - nonzeros < 6 then fillLoop (length - 1 - 1) 1 counts
          else Out.ok counts)
        if nonzeros < 28 then .ok counts
        else do
          -- `for rle_item in good_for_rle.iter_mut() { *rle_item = 0 }`
          let good := goodForRle.map fun _ => 0
          let symbol ← getAt counts 0
          let good ← markLoop counts length (length + 1) 0 symbol 0 good
          let c0 ← getAt counts 0
          let c1 ← getAt counts 1
          let c2 ← getAt counts 2
          strideLoop good length (length + 1) 0 counts 0 (rleLimit3 c0 c1 c2) 0

/-! ## `decide_over_rle_use`, `BrotliWriteHuffmanTree` -/

/-- number of leading elements of `l` equal to `v`
(`k = i + 1; while k < length && depth[k] == value { reps += 1; k += 1 }`) -/
def runLen (v : Nat) : List Nat → Nat
  | [] => 0
  | x :: xs => if x = v then runLen v xs + 1 else 0

theorem runLen_le (v : Nat) (l : List Nat) : runLen v l ≤ l.length := by
  induction l with
  | nil => simp [runLen]
  | cons x xs ih => simp only [runLen]; split <;> simp <;> omega

/-- the `while i < length` loop of `decide_over_rle_use` over the slice
`depth[i..length]`; state `(total_reps_zero, count_reps_zero, total_reps_non_zero,
count_reps_non_zero)` -/
def decideLoop : List Nat → Nat × Nat × Nat × Nat → Nat × Nat × Nat × Nat
  | [], s => s
  | v :: rest, (tz, cz, tnz, cnz) =>
    let reps := 1 + runLen v rest
    let (tz, cz) := if reps ≥ 3 ∧ v = 0 then (tz + reps, cz + 1) else (tz, cz)
    let (tnz, cnz) := if reps ≥ 4 ∧ v ≠ 0 then (tnz + reps, cnz + 1) else (tnz, cnz)
    decideLoop (rest.drop (reps - 1)) (tz, cz, tnz, cnz)
termination_by l => l.length
decreasing_by simp; omega

/-- `decide_over_rle_use(depth, length)` on the slice `depth[..length]`
(`length ≤ depth.len()` is checked by the caller model): `(use_rle_for_non_zero, use_rle_for_zero)` -/
def decideOverRleUse (d : List Nat) : Bool × Bool :=
  let (tz, cz, tnz, cnz) := decideLoop d (0, 1, 0, 1)
  (decide (tnz > cnz * 2), decide (tz > cz * 2))

/-- The `loop { … }` of `BrotliWriteHuffmanTreeRepetitions` (`bits = 2`) and of
`…RepetitionsZeros` (`bits = 3`): the extra-bits values in emission order,
`extra = reps & (2^bits - 1); reps >>= bits; if reps == 0 break; reps -= 1`. -/
def repDigits (bits : Nat) (r : Nat) : List Nat :=
  r % 2 ^ bits :: (if _h : r / 2 ^ bits = 0 then [] else repDigits bits (r / 2 ^ bits - 1))
termination_by r
decreasing_by
  have hle : r / 2 ^ bits ≤ r := Nat.div_le_self _ _
  generalize r / 2 ^ bits = q at *
  omega

/-- `BrotliWriteHuffmanTreeRepetitions(previous_value, value, repetitions, …)`:
the `(tree[k], extra_bits_data[k])` entries appended (the block of code-16
entries is `Reverse`d in place by the Rust code, hence `.reverse`). -/
def writeReps (prev value reps : Nat) : List (Nat × Nat) :=
  let pre1 := if prev ≠ value then [(value, 0)] else []
  let reps := if prev ≠ value then (reps + u64 - 1) % u64 else reps   -- `wrapping_sub(1)`
  let pre2 := if reps = 7 then [(value, 0)] else []
  let reps := if reps = 7 then 6 else reps
  if reps < 3 then pre1 ++ pre2 ++ List.replicate reps (value, 0)
  else pre1 ++ pre2 ++ ((repDigits 2 (reps - 3)).reverse.map fun e => (16, e))

/-- `BrotliWriteHuffmanTreeRepetitionsZeros(repetitions, …)` -/
def writeRepsZeros (reps : Nat) : List (Nat × Nat) :=
  let pre := if reps = 11 then [(0, 0)] else []
  let reps := if reps = 11 then 10 else reps
  if reps < 3 then pre ++ List.replicate reps (0, 0)
  else pre ++ ((repDigits 3 (reps - 3)).reverse.map fun e => (17, e))

/-- the main `while i < new_length` loop of `BrotliWriteHuffmanTree` over the
slice `depth[i..new_length]` -/
def writeLoop (useNZ useZ : Bool) : Nat → List Nat → List (Nat × Nat)
  | _, [] => []
  | prev, v :: rest =>
    let reps := if (v ≠ 0 ∧ useNZ) ∨ (v = 0 ∧ useZ) then 1 + runLen v rest else 1
    if v = 0 then writeRepsZeros reps ++ writeLoop useNZ useZ prev (rest.drop (reps - 1))
    else writeReps prev v reps ++ writeLoop useNZ useZ v (rest.drop (reps - 1))
termination_by _ l => l.length
decreasing_by all_goals (simp; omega)

/-- `new_length`: `length` minus the number of trailing zeros of `depth[..length]` -/
def trimTrailingZeros (d : List Nat) : List Nat :=
  (d.reverse.dropWhile (· == 0)).reverse

/-- `BrotliWriteHuffmanTree(depth, length, tree_size = 0, tree, extra_bits_data)`
with the two RLE switches given: the entries written -/
def writeHuffmanTreeWith (useNZ useZ : Bool) (d : List Nat) : List (Nat × Nat) :=
  writeLoop useNZ useZ 8 (trimTrailingZeros d)

/-- the switches as the code computes them -/
def rleSwitches (d : List Nat) : Bool × Bool :=
  if d.length > 50 then decideOverRleUse (trimTrailingZeros d) else (false, false)

/-- `BrotliWriteHuffmanTree(depth, length, &mut 0, tree, extra_bits_data)`;
`cap` = `tree.len()` = `extra_bits_data.len()` (each entry is written at index
`*tree_size`, which only grows, so the run panics iff the final size exceeds `cap`).
Returns `(tree[..tree_size], extra_bits_data[..tree_size])`. -/
def writeHuffmanTree (depth : List Nat) (length cap : Nat) : Out (List Nat × List Nat) :=
  if length > depth.length then .panic
  else
    let d := depth.take length
    let sw := rleSwitches d
    let out := writeHuffmanTreeWith sw.1 sw.2 d
    if out.length > cap then .panic else .ok (out.map (·.1), out.map (·.2))

/-! ## `BrotliReverseBits`, `BrotliConvertBitDepthsToSymbols` -/

/-- `kLut[x & 0xf]` -/
def lut (x : Nat) : Nat := kReverseLut.getD (x % 16) 0   -- index `< 16 = kLut.len()`: never out of range

/-- `i = 4; while i < num_bits { retval <<= 4; bits >>= 4; retval |= kLut[bits & 0xf]; i += 4 }`
as its `(num_bits - 1) / 4` iterations -/
def reverseLoop : Nat → Nat → Nat → Nat
  | 0, retval, _ => retval
  | k + 1, retval, bits => reverseLoop k ((retval * 16) % u64 ||| lut (bits / 16)) (bits / 16)

/-- `BrotliReverseBits(num_bits, bits)` (`bits: u16`) -/
def reverseBits (numBits bits : Nat) : Nat :=
  let retval := reverseLoop ((numBits - 1) / 4) (lut bits) bits
  -- `retval >>= (0usize.wrapping_sub(num_bits) & 3)`
  (retval >>> ((u64 - numBits % u64) % 4)) % 65536

/-- `for i in 0..len { bl_count[depth[i]] += 1 }` (`u16` counters, `[u16; 16]`) -/
def blCountLoop : List Nat → List Nat → Out (List Nat)
  | [], bl => .ok bl
  | d :: ds, bl => do
    let c ← getAt bl d
    blCountLoop ds (bl.set d ((c + 1) % 65536))

/-- `for i in 1..16 { code = (code + bl_count[i-1] as i32) << 1; next_code[i] = code as u16 }`;
`code` is the 32-bit pattern of the `i32`; the `+` of a non-negative `code`
overflowing is a debug-build panic. Produces `next_code[i..]` from `bl_count[i-1..15]`. -/
def nextCodeLoop : List Nat → Nat → Out (List Nat)
  | [], _ => .ok []
  | b :: bs, code =>
    if code < 2147483648 ∧ code + b ≥ 2147483648 then .panic
    else do
      let c := (((code + b) % u32) * 2) % u32
      let rest ← nextCodeLoop bs c
      .ok (c % 65536 :: rest)

/-- `for i in 0..len { if depth[i] != 0 { bits[i] = BrotliReverseBits(depth[i], next_code[depth[i]]++) } }` -/
def assignLoop : List Nat → Nat → List Nat → List Nat → Out (List Nat)
  | [], _, _, bits => .ok bits
  | d :: ds, i, next, bits =>
    if d ≠ 0 then do
      let c ← getAt next d
      let bits ← setAt bits i (reverseBits d c)
      assignLoop ds (i + 1) (next.set d ((c + 1) % 65536)) bits
    else assignLoop ds (i + 1) next bits

/-- `BrotliConvertBitDepthsToSymbols(depth, len, bits)`; returns `bits` -/
def convertBitDepthsToSymbols (depth : List Nat) (len : Nat) (bits : List Nat) : Out (List Nat) :=
  if len > depth.length then .panic
  else do
    let d := depth.take len
    let bl ← blCountLoop d (List.replicate MAX_HUFFMAN_BITS 0)
    let bl := bl.set 0 0
    let next ← nextCodeLoop (bl.take (MAX_HUFFMAN_BITS - 1)) 0
    assignLoop d 0 (0 :: next) bits

/-! ## serialisation (`brotli_bit_stream.rs`) -/

/-- `while codes_to_store > 0 { if depth[kStorageOrder[codes_to_store - 1]] != 0 { break }; codes_to_store -= 1 }` -/
def codesToStoreLoop (cl : List Nat) : Nat → Out Nat
  | 0 => .ok 0
  | c + 1 => do
    let ix ← getAt kStorageOrder c
    let d ← getAt cl ix
    if d ≠ 0 then .ok (c + 1) else codesToStoreLoop cl c

/-- `for i in skip_some..codes_to_store { … }` as `cnt` iterations from `i` -/
def storeClLoop (cl : List Nat) : Nat → Nat → Writer → Out Writer
  | 0, _, w => .ok w
  | c + 1, i, w => do
    let ix ← getAt kStorageOrder i
    let l ← getAt cl ix
    let nb ← getAt kHuffmanBitLengthHuffmanCodeBitLengths l
    let sy ← getAt kHuffmanBitLengthHuffmanCodeSymbols l
    let w ← writeBits nb sy w
    storeClLoop cl c (i + 1) w

/-- `BrotliStoreHuffmanTreeOfHuffmanTreeToBitMask(num_codes, code_length_bitdepth, …)` -/
def storeHuffmanTreeOfHuffmanTreeToBitMask (numCodes : Nat) (cl : List Nat) (w : Writer) :
    Out Writer := do
  let codesToStore ← (if numCodes > 1 then codesToStoreLoop cl 18 else Out.ok 18)
  let o0 ← getAt kStorageOrder 0
  let o1 ← getAt kStorageOrder 1
  let o2 ← getAt kStorageOrder 2
  let d0 ← getAt cl o0
  -- `&&` short-circuits: `cl[kStorageOrder[1]]` is read only if the first test holds
  let d1 ← (if d0 = 0 then getAt cl o1 else Out.ok 1)
  let d2 ← (if d0 = 0 ∧ d1 = 0 then getAt cl o2 else Out.ok 1)
  let skipSome := if d0 = 0 ∧ d1 = 0 then (if d2 = 0 then 3 else 2) else 0
  let w ← writeBits 2 skipSome w
  storeClLoop cl (codesToStore - skipSome) skipSome w

/-- `BrotliStoreHuffmanTreeToBitMask(size, tree, extra, cl_depth, cl_bits, …)` over the zipped entries -/
def storeHuffmanTreeToBitMask (cl clBits : List Nat) : List (Nat × Nat) → Writer → Out Writer
  | [], w => .ok w
  | (ix, extra) :: rest, w => do
    let nb ← getAt cl ix
    let sy ← getAt clBits ix
    let w ← writeBits nb sy w
    let w ← if ix = 16 then writeBits 2 extra w else if ix = 17 then writeBits 3 extra w else .ok w
    storeHuffmanTreeToBitMask cl clBits rest w

/-- `for i in 0..size { histogram[tree[i]] += 1 }` (`[u32; 18]`, `wrapping_add`) -/
def histoLoop : List Nat → List Nat → Out (List Nat)
  | [], h => .ok h
  | s :: ss, h => do
    let c ← getAt h s
    histoLoop ss (h.set s ((c + 1) % u32))

/-- the `'break3` loop: `(num_codes, code)` -/
def numCodesLoop : List Nat → Nat → Nat → Nat → Nat × Nat
  | [], _, numCodes, code => (numCodes, code)
  | h :: hs, i, numCodes, code =>
    if h ≠ 0 then
      if numCodes = 0 then numCodesLoop hs (i + 1) 1 i
      else if numCodes = 1 then (2, code)
      else numCodesLoop hs (i + 1) numCodes code
    else numCodesLoop hs (i + 1) numCodes code

/-- `BrotliStoreHuffmanTree(depths, num, tree, storage_ix, storage)` -/
def storeHuffmanTree (depths : List Nat) (num : Nat) (tree : List Node) (w : Writer) :
    Out Writer := do
  let (syms, extras) ← writeHuffmanTree depths num 704
  let histo ← histoLoop syms (List.replicate 18 0)
  let (numCodes, code) := numCodesLoop histo 0 0 0
  let cl ← createHuffmanTree histo 18 5 tree (List.replicate 18 0)
  let clBits ← convertBitDepthsToSymbols cl 18 (List.replicate 18 0)
  let w ← storeHuffmanTreeOfHuffmanTreeToBitMask numCodes cl w
  let cl ← (if numCodes = 1 then setAt cl code 0 else Out.ok cl)
  storeHuffmanTreeToBitMask cl clBits (syms.zip extras) w

/-- `StoreStaticCodeLengthCode` -/
def storeStaticCodeLengthCode (w : Writer) : Out Writer := writeBits 40 0xff55555554 w

/-- the double `for` of `StoreSimpleHuffmanTree` / of the fast builder:
`for i in 0..n { for j in i+1..n { if depths[symbols[j]] < depths[symbols[i]] { symbols.swap(j, i) } } }` -/
def sortSymbolsInner (depths : List Nat) (i : Nat) : Nat → Nat → List Nat → Out (List Nat)
  | 0, _, s => .ok s
  | c + 1, j, s => do
    let sj ← getAt s j
    let si ← getAt s i
    let dj ← getAt depths sj
    let di ← getAt depths si
    let s ← (if dj < di then (do let s ← setAt s j si; setAt s i sj) else Out.ok s)
    sortSymbolsInner depths i c (j + 1) s

def sortSymbolsOuter (depths : List Nat) (n : Nat) : Nat → Nat → List Nat → Out (List Nat)
  | 0, _, s => .ok s
  | c + 1, i, s => do
    let s ← sortSymbolsInner depths i (n - (i + 1)) (i + 1) s
    sortSymbolsOuter depths n c (i + 1) s

/-- the `if num == 2 … else if num == 3 … else …` tail shared by both simple-tree writers -/
def storeSimpleTail (depths : List Nat) (s : List Nat) (num maxBits : Nat) (w : Writer) :
    Out Writer := do
  let nb := maxBits % 256   -- `max_bits as u8`
  let s0 ← getAt s 0
  let s1 ← getAt s 1
  let w ← writeBits nb s0 w
  let w ← writeBits nb s1 w
  if num = 2 then .ok w
  else
    let s2 ← getAt s 2
    let w ← writeBits nb s2 w
    if num = 3 then .ok w
    else
      let s3 ← getAt s 3
      let w ← writeBits nb s3 w
      let d0 ← getAt depths s0
      writeBits 1 (if d0 = 1 then 1 else 0) w

/-- `StoreSimpleHuffmanTree(depths, symbols, num_symbols, max_bits, …)` (`symbols: [usize; 4]`) -/
def storeSimpleHuffmanTree (depths : List Nat) (symbols : List Nat) (num maxBits : Nat)
    (w : Writer) : Out Writer := do
  let w ← writeBits 2 1 w
  let w ← writeBits 2 ((num + u64 - 1) % u64) w
  let s ← sortSymbolsOuter depths num num 0 symbols
  storeSimpleTail depths s num maxBits w

/-- the `'break31` scan of `BuildAndStoreHuffmanTree` (`cnt` iterations left): `(count, s4)` -/
def scanHistogram (histogram : List Nat) : Nat → Nat → Nat → List Nat → Out (Nat × List Nat)
  | 0, _, count, s4 => .ok (count, s4)
  | c + 1, i, count, s4 => do
    let h ← getAt histogram i
    if h ≠ 0 then
      if count < 4 then scanHistogram histogram c (i + 1) (count + 1) (s4.set count i)
      else if count > 4 then .ok (count, s4)
      else scanHistogram histogram c (i + 1) (count + 1) s4
    else scanHistogram histogram c (i + 1) count s4

/-- `while max_bits_counter != 0 { max_bits_counter >>= 1; max_bits += 1 }`
(a `u64` is zero after 64 shifts: fuel 64 is exact) -/
def bitWidth : Nat → Nat → Nat
  | 0, _ => 0
  | f + 1, x => if x = 0 then 0 else bitWidth f (x / 2) + 1

/-- `for e in depth[..n].iter_mut() { *e = 0 }` (panics if `n > depth.len()`) -/
def zeroPrefix (depth : List Nat) (n : Nat) : Out (List Nat) :=
  if n > depth.length then .panic else .ok (List.replicate n 0 ++ depth.drop n)

/-- `BuildAndStoreHuffmanTree(histogram, histogram_length, alphabet_size, tree, depth, bits, …)`;
returns `(depth, bits, writer)` -/
def buildAndStoreHuffmanTree (histogram : List Nat) (histogramLength alphabetSize : Nat)
    (tree : List Node) (depth bits : List Nat) (w : Writer) :
    Out (List Nat × List Nat × Writer) := do
  let (count, s4) ← scanHistogram histogram histogramLength 0 0 [0, 0, 0, 0]
  let maxBits := bitWidth 64 ((alphabetSize + u64 - 1) % u64)
  let s40 ← getAt s4 0
  if count ≤ 1 then
    let w ← writeBits 4 1 w
    let w ← writeBits (maxBits % 256) s40 w
    let depth ← setAt depth s40 0
    let bits ← setAt bits s40 0
    .ok (depth, bits, w)
  else
    let depth ← zeroPrefix depth histogramLength
    let depth ← createHuffmanTree histogram histogramLength 15 tree depth
    let bits ← convertBitDepthsToSymbols depth histogramLength bits
    if count ≤ 4 then
      let w ← storeSimpleHuffmanTree depth s4 count maxBits w
      .ok (depth, bits, w)
    else
      let w ← storeHuffmanTree depth histogramLength tree w
      .ok (depth, bits, w)

/-! ## `BrotliBuildAndStoreHuffmanTreeFast` -/

/-- `while total != 0 { if histogram[length] != 0 { if count < 4 { symbols[count] = length };
count += 1; total = total.wrapping_sub(histogram[length]) }; length += 1 }` over the
remaining slice `histogram[length..]`: `(count, symbols, length)` -/
def fastScan : List Nat → Nat → Nat → Nat → List Nat → Out (Nat × List Nat × Nat)
  | [], total, length, count, symbols =>
    if total = 0 then .ok (count, symbols, length) else .panic
  | h :: hs, total, length, count, symbols =>
    if total = 0 then .ok (count, symbols, length)
    else if h ≠ 0 then
      fastScan hs ((total + u64 - h) % u64) (length + 1) (count + 1)
        (if count < 4 then symbols.set count length else symbols)
    else fastScan hs total (length + 1) count symbols

/-- the `'break11: loop` (see `createLoop` for the meaning of `.fuel`);
`BrotliSetDepth(2 * n - 1, tree, depth, 14)` -/
def fastLoop (histogram : List Nat) (length : Nat) :
    Nat → Nat → List Node → List Nat → Out (List Nat)
  | 0, _, _, _ => .fuel
  | f + 1, countLimit, tree, depth => do
    let (tree, n) ← collectLeaves histogram countLimit length tree 0
    let tree ← buildNodes cmpSimple tree n
    -- `2i32 * n - 1i32` (for `n = 0` this is `-1`)
    let (done, depth) ← setDepth (2 * (n : Int) - 1) tree depth 14
    if done then .ok depth
    else fastLoop histogram length f (countLimit * 2 % 4294967296) tree depth

/-- `n` writes of the static code-length code of `value` -/
def writeClRepeat (value : Nat) : Nat → Writer → Out Writer
  | 0, w => .ok w
  | r + 1, w => do
    let nb ← getAt kCodeLengthDepth value
    let bt ← getAt kCodeLengthBits value
    let w ← writeBits nb bt w
    writeClRepeat value r w

/-- the `while i < length` loop of the fast builder that emits the depths with
the static code-length code and the precomputed repeat patterns -/
def fastRleLoop : Nat → List Nat → Writer → Out Writer
  | _, [], w => .ok w
  | prev, v :: rest, w =>
    if v = 0 then do
      let nb ← getAt kZeroRepsDepth (1 + runLen v rest)
      let bt ← getAt kZeroRepsBits (1 + runLen v rest)
      let w ← writeBits (nb % 256) bt w
      fastRleLoop prev (rest.drop (runLen v rest)) w
    else do
      let reps := 1 + runLen v rest
      let w ← (if prev ≠ v then writeClRepeat v 1 w else Out.ok w)
      let reps := if prev ≠ v then reps - 1 else reps
      let w ← (if reps < 3 then writeClRepeat v reps w
        else do
          let nb ← getAt kNonZeroRepsDepth (reps - 3)
          let bt ← getAt kNonZeroRepsBits (reps - 3)
          writeBits (nb % 256) bt w)
      fastRleLoop v (rest.drop (runLen v rest)) w
termination_by _ l _ => l.length
decreasing_by all_goals (simp; omega)

/-- `BrotliBuildAndStoreHuffmanTreeFast(m, histogram, histogram_total, max_bits, depth, bits, …)`;
returns `(depth, bits, writer)`.  The tree scratch is the freshly allocated
`2 * length + 1` default nodes. -/
def buildAndStoreHuffmanTreeFast (histogram : List Nat) (histogramTotal maxBits : Nat)
    (depth bits : List Nat) (w : Writer) : Out (List Nat × List Nat × Writer) := do
  let (count, symbols, length) ← fastScan histogram histogramTotal 0 0 [0, 0, 0, 0]
  let s0 ← getAt symbols 0
  if count ≤ 1 then
    let w ← writeBits 4 1 w
    let w ← writeBits (maxBits % 256) s0 w
    let depth ← setAt depth s0 0
    let bits ← setAt bits s0 0
    .ok (depth, bits, w)
  else
    let depth ← zeroPrefix depth length
    let tree := List.replicate (2 * length + 1) (default : Node)
    let depth ← fastLoop histogram length createFuel 1 tree depth
    let bits ← convertBitDepthsToSymbols depth length bits
    if count ≤ 4 then
      let w ← writeBits 2 1 w
      let w ← writeBits 2 (count - 1) w
      let s ← sortSymbolsOuter depth count count 0 symbols
      let w ← storeSimpleTail depth s count maxBits w
      .ok (depth, bits, w)
    else
      let w ← storeStaticCodeLengthCode w
      if length > depth.length then .panic
      else
        let w ← fastRleLoop 8 (depth.take length) w
        .ok (depth, bits, w)

/-! ## specification side: RFC 7932 §3.2, §3.5 (independent of the encoder) -/

/-- number of entries of `lens` equal to `l` -/
def countLen (lens : List Nat) (l : Nat) : Nat := (lens.filter (· == l)).length

/-- RFC 7932 §3.2 step 2: the smallest code of each length,
`code = 0; bl_count[0] = 0; for bits in 1..=MAX { code = (code + bl_count[bits-1]) << 1; next_code[bits] = code }`,
as a closed recursion: `firstCode lens l` -/
def firstCode (lens : List Nat) : Nat → Nat
  | 0 => 0
  | l + 1 => (firstCode lens l + (if l = 0 then 0 else countLen lens l)) * 2

/-- RFC 7932 §3.2 step 3: symbol `i` (of non-zero length) gets `next_code[len]++`
in symbol order, i.e. the first code of its length plus the number of earlier
symbols of the same length.  Code value, MSB-first, of each symbol (0 for unused symbols). -/
def canonicalCodes (lens : List Nat) : List Nat :=
  (List.range lens.length).map fun i =>
    let l := lens.getD i 0
    if l = 0 then 0 else firstCode lens l + countLen (lens.take i) l

/-- Kraft sum scaled by `2^L`: `Σ_{len ≠ 0} 2^(L - len)` -/
def kraftSum (L : Nat) (lens : List Nat) : Nat :=
  (lens.map fun l => if l = 0 then 0 else 2 ^ (L - l)).sum

/-- State of the RFC 7932 §3.5 code-length decoding: the lengths so far (in
order), the last non-zero length (initially 8), and the pending repeat
(`none`, or the repeated length together with the current repeat count). -/
structure ExpandState where
  out : List Nat
  prevNonZero : Nat
  rep : Option (Nat × Nat)

/-- the repeat count pending in `s` for the repeated value `val`
(0 when the previous symbol was not a repeat code of that value) -/
def pendingRepeat (s : ExpandState) (val : Nat) : Nat :=
  match s.rep with
  | some (v, c) => if v = val then c else 0
  | none => 0

/-- RFC 7932 §3.5, one code-length symbol with its extra bits:
* `0..15`: a literal code length;
* `16`: repeat the previous non-zero length `3 + extra` times; if the previous
  symbol was also a 16, the repeat count becomes `4 * (old - 2) + 3 + extra`
  and only the difference is appended;
* `17`: the same for zeros with `3 + extra` (3 extra bits) and `8 * (old - 2) + 3 + extra`. -/
def expandStep (s : ExpandState) (sym extra : Nat) : ExpandState :=
  if sym < 16 then
    ⟨s.out ++ [sym], if sym ≠ 0 then sym else s.prevNonZero, none⟩
  else
    let val := if sym = 16 then s.prevNonZero else 0
    let old := pendingRepeat s val
    let new := (if old > 0 then (if sym = 16 then 4 else 8) * (old - 2) else 0) + 3 + extra
    ⟨s.out ++ List.replicate (new - old) val, s.prevNonZero, some (val, new)⟩

/-- RFC 7932 §3.5: the code-length vector denoted by a sequence of
(code-length symbol, extra bits) -/
def rfcExpandCodeLengths (syms : List (Nat × Nat)) : List Nat :=
  (syms.foldl (fun s p => expandStep s p.1 p.2) ⟨[], 8, none⟩).out


/-! ### RFC 7932 §3.4 / §3.5: reading a prefix code description from the bit stream -/

/-- read `n` bits, least significant first: `(value, remaining stream)` -/
def takeBits (n : Nat) (bs : List Bool) : Option (Nat × List Bool) :=
  if n ≤ bs.length then some (valOf (bs.take n), bs.drop n) else none

/-- first symbol `s` with `lens[s] = l` and canonical code `codes[s] = acc` -/
def findSym (lens codes : List Nat) (l acc : Nat) : Option Nat :=
  (List.range lens.length).find? fun s => lens.getD s 0 == l && codes.getD s 0 == acc

/-- RFC 7932 §3.1/§3.2: decode one symbol of a prefix code given by its code
lengths; the stream delivers the bits of a code word most significant first.
`l` bits have been read so far with value `acc`. -/
def readSymGo (lens codes : List Nat) : Nat → Nat → Nat → List Bool → Option (Nat × List Bool)
  | 0, _, _, _ => none
  | _ + 1, _, _, [] => none
  | f + 1, l, acc, b :: bs =>
    let acc' := 2 * acc + (if b then 1 else 0)
    match findSym lens codes (l + 1) acc' with
    | some s => some (s, bs)
    | none => readSymGo lens codes f (l + 1) acc' bs

/-- one symbol of the prefix code with lengths `lens` (`≤ 15`).  RFC 7932 §3.5:
a code with a single used symbol has a code word of zero length: no bits are
consumed. -/
def readSym (lens : List Nat) (bs : List Bool) : Option (Nat × List Bool) :=
  match (List.range lens.length).filter (fun s => lens.getD s 0 != 0) with
  | [s] => some (s, bs)
  | _ => readSymGo lens (canonicalCodes lens) 15 0 0 bs

/-- RFC 7932 §3.5: the fixed variable-length code of the code length code
lengths, `(symbol, number of bits, value of these bits read LSB-first)`:
0 ↦ 00, 1 ↦ 0111, 2 ↦ 011, 3 ↦ 10, 4 ↦ 01, 5 ↦ 1111 (parsed right to left) -/
def rfcClVlc : List (Nat × Nat × Nat) :=
  [(0, 2, 0), (1, 4, 7), (2, 3, 3), (3, 2, 2), (4, 2, 1), (5, 4, 15)]

def readClVlc (bs : List Bool) : Option (Nat × List Bool) :=
  rfcClVlc.findSome? fun (sym, n, v) =>
    match takeBits n bs with
    | some (x, rest) => if x = v then some (sym, rest) else none
    | none => none

/-- RFC 7932 §3.5: the order in which the code length code lengths appear -/
def rfcClOrder : List Nat := [1, 2, 3, 4, 0, 5, 17, 6, 16, 7, 8, 9, 10, 11, 12, 13, 14, 15]

/-- RFC 7932 §3.5: read the code length code lengths for the positions `order`
(already stripped of the HSKIP first ones) until they are exhausted or the
code space `32` is used up: `(lengths, remaining stream)` -/
def readClLens : List Nat → Nat → List Nat → List Bool → Option (List Nat × List Bool)
  | [], _, cl, bs => some (cl, bs)
  | o :: os, space, cl, bs =>
    match readClVlc bs with
    | none => none
    | some (v, rest) =>
      let cl := cl.set o v
      if v ≠ 0 then
        if space ≤ 32 / 2 ^ v then some (cl, rest) else readClLens os (space - 32 / 2 ^ v) cl rest
      else readClLens os space cl rest

/-- RFC 7932 §3.5: read code length symbols with the code `cl` until
`alphabetSize` lengths are known or the code space `32768` is used up -/
def readLensGo (cl : List Nat) (alphabetSize : Nat) :
    Nat → ExpandState → List Bool → Option (List Nat × List Bool)
  | 0, _, _ => none
  | f + 1, s, bs =>
    let space := kraftSum 15 s.out
    if s.out.length ≥ alphabetSize ∨ space ≥ 32768 then
      -- a complete code is required: exactly the whole code space, no overshoot
      if s.out.length > alphabetSize ∨ space ≠ 32768 then none
      else some (s.out ++ List.replicate (alphabetSize - s.out.length) 0, bs)
    else
      match readSym cl bs with
      | none => none
      | some (sym, rest) =>
        if sym < 16 then readLensGo cl alphabetSize f (expandStep s sym 0) rest
        else
          match takeBits (if sym = 16 then 2 else 3) rest with
          | none => none
          | some (extra, rest) => readLensGo cl alphabetSize f (expandStep s sym extra) rest

/-- `max_bits` of RFC 7932 §3.4: width of `alphabetSize - 1` -/
def alphabetBits (alphabetSize : Nat) : Nat := bitWidth 64 (alphabetSize - 1)

/-- lengths `ls` given to the symbols `syms` (in that order), zero elsewhere -/
def placeLens (alphabetSize : Nat) : List Nat → List Nat → List Nat
  | s :: syms, l :: ls => (placeLens alphabetSize syms ls).set s l
  | _, _ => List.replicate alphabetSize 0

/-- RFC 7932 §3.4 + §3.5: read one prefix code description:
the code lengths of the `alphabetSize` symbols and the remaining stream -/
def readPrefixCode (alphabetSize : Nat) (bs : List Bool) : Option (List Nat × List Bool) := do
  let (hskip, bs) ← takeBits 2 bs
  if hskip = 1 then
    -- simple prefix code
    let (nsym1, bs) ← takeBits 2 bs
    let w := alphabetBits alphabetSize
    let (s0, bs) ← takeBits w bs
    if nsym1 = 0 then some (placeLens alphabetSize [s0] [0], bs)
    else
      let (s1, bs) ← takeBits w bs
      if nsym1 = 1 then some (placeLens alphabetSize [s0, s1] [1, 1], bs)
      else
        let (s2, bs) ← takeBits w bs
        if nsym1 = 2 then some (placeLens alphabetSize [s0, s1, s2] [1, 2, 2], bs)
        else
          let (s3, bs) ← takeBits w bs
          let (sel, bs) ← takeBits 1 bs
          if sel = 0 then some (placeLens alphabetSize [s0, s1, s2, s3] [2, 2, 2, 2], bs)
          else some (placeLens alphabetSize [s0, s1, s2, s3] [1, 2, 3, 3], bs)
  else
    let (cl, bs) ← readClLens (rfcClOrder.drop hskip) 32 (List.replicate 18 0) bs
    readLensGo cl alphabetSize (alphabetSize + 1) ⟨[], 8, none⟩ bs

end BV.Huffman
