/-
M7c `Catable` — the CATABLE PARAMETER SET of the encoder (`src/enc/encode.rs`): what `BROTLI_PARAM_CATABLE` /
`BROTLI_PARAM_APPENDABLE` do to the three flags (`set_parameter`), what `SanitizeParams` adds, and what
`ensure_initialized` leaves in `dist_cache_` / `saved_dist_cache_`.  Executable, import-free.

Mirrored lines:
  BROTLI_PARAM_CATABLE   => { params.catable = value != 0; if !params.appendable { params.appendable = value != 0; }
                              params.use_dictionary = (value == 0); }
  BROTLI_PARAM_APPENDABLE => params.appendable = value != 0
  SanitizeParams:           if params.catable { params.appendable = true; }
  BrotliEncoderStateStruct::new: dist_cache_ = [4, 11, 15, 16, 0 × 12], saved_dist_cache_ = its first four
  ensure_initialized:       if self.params.catable { every dist_cache_ / saved_dist_cache_ item = 0x7ffffff0 }
(the comment there: "larger than max_distance + gap but small enough so that adding or subtracting 3 will not overflow").

Not in this file (modelled elsewhere): with `use_dictionary = false` `BrotliCreateBackwardReferences` passes
`None` as the static dictionary (BV/Model/Cbr.lean: `useDict = false` / `dict = fun _ _ => none`); the first two
bytes of a catable stream are stored and `last_processed_pos_` starts at 2 (BV/Model/Stream.lean, w-stream).
Tied to the real code by the `catable setparam` / `catable init` correspondence lines of `hasher catable`.
-/
namespace BV.Catable

/-- the placeholder written into every distance-cache slot in catable mode -/
def poison : Int := 0x7ffffff0

/-- the three flags of `BrotliEncoderParams` the catable machinery touches -/
structure Flags where
  catable : Bool
  appendable : Bool
  useDictionary : Bool
deriving Repr, DecidableEq

/-- `BrotliEncoderInitParams` -/
def Flags.init : Flags := ⟨false, false, true⟩

/-- `set_parameter(params, BROTLI_PARAM_CATABLE, value)` -/
def setCatable (f : Flags) (value : Nat) : Flags :=
  { catable := value != 0
    appendable := if !f.appendable then value != 0 else f.appendable
    useDictionary := value == 0 }

/-- `set_parameter(params, BROTLI_PARAM_APPENDABLE, value)` -/
def setAppendable (f : Flags) (value : Nat) : Flags := { f with appendable := value != 0 }

/-- the flag part of `SanitizeParams` -/
def sanitize (f : Flags) : Flags := if f.catable then { f with appendable := true } else f

/-- `dist_cache_` of a fresh `BrotliEncoderStateStruct` -/
def freshDistCache : List Int := [4, 11, 15, 16, 0, 0, 0, 0, 0, 0, 0, 0, 0, 0, 0, 0]

/-- `dist_cache_` after `ensure_initialized` -/
def distCacheAfterInit (f : Flags) : List Int :=
  if (sanitize f).catable then List.replicate 16 poison else freshDistCache

/-- `saved_dist_cache_` after `ensure_initialized` -/
def savedDistCacheAfterInit (f : Flags) : List Int :=
  if (sanitize f).catable then List.replicate 4 poison else freshDistCache.take 4

/-- the encoder state a member starts from when the caller asked for a catable stream -/
def catableFlags : Flags := setCatable Flags.init 1

end BV.Catable
