import BV.Model.Stream
/-
Run-level object of the stream model: a whole HISTORY of calls on one encoder.

`run o fuel calls s` folds `set_parameter` / `compress_stream(op, chunk, cap)` / `take_output(size)`
over a list of calls, with ONE oracle `o` for the whole history (asked with the running invocation
count and the request), and accumulates a `Trace`:

* `delivered`  every byte handed to the caller, in order (through `next_out` or `take_output`);
* `reqs`       the concatenated list of payload-encoder requests (`Req`: site, `[lo, hi)`, `lf`, flags);
* `closed`     for each request, whether that invocation closed the meta-block it was working on
               (`last_flush_pos_ = input_pos_` afterwards) — `closesMb`, a function of the
               request, the oracle's `emit` answer and the quality class;
* `data`       the input bytes consumed by PROCESS / FLUSH / FINISH calls, concatenated;
* `mdata`      the bytes consumed by EMIT_METADATA calls, concatenated;
* `results`    the return value of every `set_parameter` / `compress_stream` call.

The delivered BIT stream of a history is `deliveredBits`: the bits of the delivered and pending
bytes followed by the carry — everything the encoder has produced so far.

Nothing here is new behaviour: `run` only sequences the functions of `BV/Model/Stream.lean`; the
driver prints the run-level summary of every correspondence line from it (`R:` token).
-/
namespace BV.Stream
open BV.Bits

inductive Call where
  | setParam (id v : Nat)
  | stream (op : Nat) (chunk : Bytes) (cap : Nat)
  | take (size : Nat)
deriving Repr, DecidableEq, Inhabited

/-- did invocation number `k` with request `r` close its meta-block?  Quality 0/1 and the
one-shot path always do; otherwise a forced invocation (`is_last` / `force_flush`) does, and an
unforced one does iff the payload encoder says so (`emit`) -/
def closesMb (o : Oracle) (q01 : Bool) (k : Nat) (r : Req) : Bool :=
  r.site == 2 || q01 || r.isLast || r.forceFlush || (o k r).emit

def St.q01 (s : St) : Bool := decide (s.params.quality = 0 ∨ s.params.quality = 1)

/-- `closesMb` for the requests `rs`, the first of which is invocation number `k` -/
def closedFlags (o : Oracle) (q01 : Bool) : Nat → List Req → List Bool
  | _, [] => []
  | k, r :: rs => closesMb o q01 k r :: closedFlags o q01 (k + 1) rs

structure Trace where
  delivered : Bytes := []
  reqs : List Req := []
  closed : List Bool := []
  data : Bytes := []
  mdata : Bytes := []
  results : List Bool := []
deriving Repr, DecidableEq, Inhabited

/-- the trace after one `compress_stream` call that started in (initialised) state `s1` -/
def Trace.afterStream (o : Oracle) (t : Trace) (s1 : St) (op : Nat) (chunk : Bytes) (io : Io) (r : Bool) : Trace :=
  let used := chunk.take (chunk.length - io.availIn)
  { t with delivered := t.delivered ++ io.out,
           reqs := t.reqs ++ io.reqs,
           closed := t.closed ++ closedFlags o s1.q01 s1.nEnc io.reqs,
           data := if op = 3 then t.data else t.data ++ used,
           mdata := if op = 3 then t.mdata ++ used else t.mdata,
           results := t.results ++ [r] }

/-- one call of a history -/
def runCall (o : Oracle) (fuel : Nat) (s : St) (t : Trace) : Call → Out (St × Trace)
  | .setParam id v =>
    .ok ((setParameter s id v).1, { t with results := t.results ++ [(setParameter s id v).2] })
  | .stream op chunk cap =>
    match compressStream o fuel s op chunk cap with
    | .ok (s', io, r) => .ok (s', t.afterStream o (ensureInitialized s) op chunk io r)
    | .panic => .panic
    | .fuel => .fuel
  | .take size =>
    match takeOutput s size with
    | .ok (s', out) => .ok (s', { t with delivered := t.delivered ++ out })
    | .panic => .panic
    | .fuel => .fuel

/-- a whole history (`fuel` = loop fuel of each `compress_stream` call) -/
def run (o : Oracle) (fuel : Nat) : List Call → St → Trace → Out (St × Trace)
  | [], s, t => .ok (s, t)
  | c :: cs, s, t =>
    match runCall o fuel s t c with
    | .ok (s', t') => run o fuel cs s' t'
    | .panic => .panic
    | .fuel => .fuel

/-- bytes a call offers -/
def Call.len : Call → Nat
  | .stream _ chunk _ => chunk.length
  | _ => 0

/-- total number of bytes a history offers -/
def histLen : List Call → Nat
  | [] => 0
  | c :: cs => c.len + histLen cs

/-- operation codes in range -/
def HistOK : List Call → Prop
  | [] => True
  | .stream op _ _ :: cs => op ≤ 3 ∧ HistOK cs
  | _ :: cs => HistOK cs

/-- everything produced so far as bits: delivered bytes, pending bytes, carry -/
def deliveredBits (t : Trace) (s : St) : List Bool := bytesBits (t.delivered ++ s.pending) ++ s.carry

end BV.Stream
