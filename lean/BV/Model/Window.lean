/-
M5w `Window` — the parameters `ensure_initialized` (`src/enc/encode.rs`) leaves for the command generators
and the header bits it stages, as the COMPOSITION of the definitions generated from the Rust text by
tools/rs2lean.py (BV/Gen/FnC15.lean: `SanitizeParams`, `ComputeLgBlock`, `ChooseDistanceParams` →
`BrotliInitDistanceParams`, `EncodeWindowBits`).  Only the call order is transcribed by hand:

    SanitizeParams(&mut self.params);
    self.params.lgblock = ComputeLgBlock(&mut self.params);
    ChooseDistanceParams(&mut self.params);
    …
    let mut lgwin = self.params.lgwin;
    if self.params.quality == 0 || self.params.quality == 1 { lgwin = max(lgwin, 18); }
    EncodeWindowBits(lgwin, self.params.large_window, &mut self.last_bytes_, &mut self.last_bytes_bits_);

Tied to the real `ensure_initialized` by the `window` correspondence stage on the whole grid
quality −2..13 × lgwin −5..40 × large_window × mode 0..6 × preset (NPOSTFIX, NDIRECT).
-/
import BV.Gen.FnC15
import BV.Model.Cbr

namespace BV.Window

abbrev GenParams := BV.Gen.FnC15.BrotliEncoderParams

/-- the head of `ensure_initialized`, over the generated definitions -/
def genInit (gp : GenParams) : GenParams :=
  BV.Gen.FnC15.ChooseDistanceParams
    { BV.Gen.FnC15.SanitizeParams gp with lgblock := BV.Gen.FnC15.ComputeLgBlock (BV.Gen.FnC15.SanitizeParams gp) }

/-- the header part of `ensure_initialized`: `(last_bytes_, last_bytes_bits_)` -/
def genHeaderBits (gp : GenParams) : Nat × Nat :=
  let g := genInit gp
  let lgwin : Int := if g.quality == 0 || g.quality == 1 then max g.lgwin 18 else g.lgwin
  BV.Gen.FnC15.EncodeWindowBits lgwin g.large_window 0 0

/-- what `CreateBackwardReferences` reads of `BrotliEncoderParams` (`params.quality`, `params.lgwin`,
`params.dist.max_distance`, `params.dist.distance_postfix_bits`, `params.dist.num_direct_distance_codes`) -/
def cbrParams (g : GenParams) : BV.Cbr.Params :=
  ⟨g.quality.toNat, g.lgwin.toNat, g.dist.max_distance, g.dist.distance_postfix_bits, g.dist.num_direct_distance_codes⟩

end BV.Window
