/-
M4 `HuffmanCore` — the inner loops of the Huffman model (`BrotliSetDepth`'s loop,
`SortHuffmanTreeItems`, the leaf collection and the two-queue merge of
`BrotliCreateHuffmanTree`).  They are kept in their own file so that
BV/Model/HuffmanFast.lean can give each of them a proved-equal `Array`
implementation (`@[csimp]`) before the rest of the model (BV/Model/Huffman.lean)
is compiled.  See BV/Model/Huffman.lean for the conventions.
-/
import BV.Gen.Source
import BV.Model.Bits

namespace BV.Huffman
open BV.Gen BV.Bits

/-! ## integer casts -/

/-- `x as i16` for a non-negative `x` -/
def asI16 (x : Nat) : Int :=
  if x % 65536 < 32768 then ((x % 65536 : Nat) : Int) else ((x % 65536 : Nat) : Int) - 65536

/-- `x as i32` for a non-negative `x` -/
def asI32 (x : Nat) : Int :=
  if x % 4294967296 < 2147483648 then ((x % 4294967296 : Nat) : Int)
  else ((x % 4294967296 : Nat) : Int) - 4294967296

/-- `x as usize` for a signed 16/32-bit `x` (sign extension to 64 bits) -/
def asUsize (x : Int) : Nat :=
  if 0 ≤ x then x.toNat else 18446744073709551616 - (-x).toNat

/-! ## `HuffmanTree` nodes -/

/-- `struct HuffmanTree { total_count_: u32, index_left_: i16, index_right_or_value_: i16 }` -/
structure Node where
  count : Nat
  left : Int
  right : Int
deriving DecidableEq, Repr, Inhabited

/-- `HuffmanTree::new(u32::MAX, -1, -1)` -/
def sentinel : Node := ⟨4294967295, -1, -1⟩

/-! ## `BrotliSetDepth` -/

/-- The `loop` of `BrotliSetDepth`.  The fixed `stack: [i32; 16]` together with
`level` is the list `stack` of length `level + 1`, head = `stack[level]`
(entries above `level` are never read before they are rewritten: `stack[level]`
is written at every `level += 1`).  One unit of fuel per visited node.
Returns the `bool` result and `depth`. -/
def setDepthLoop (pool : List Node) (maxDepth : Int) :
    Nat → Int → List Int → List Nat → Out (Bool × List Nat)
  | 0, _, _, _ => .fuel
  | f + 1, p, stack, depth => do
    let node ← getAt pool (asUsize p)
    if node.left ≥ 0 then
      -- `level += 1`: the new level is `stack.length`
      if (stack.length : Int) > maxDepth then .ok (false, depth)
      else if stack.length ≥ 16 then .panic            -- `stack[level as usize]`, `[i32; 16]`
      else setDepthLoop pool maxDepth f node.left (node.right :: stack) depth
    else
      let depth ← setAt depth (asUsize node.right) ((stack.length - 1) % 256)
      -- `while level >= 0 && stack[level] == -1 { level -= 1 }`
      match stack.dropWhile (· == -1) with
      | [] => .ok (true, depth)
      | q :: rest => setDepthLoop pool maxDepth f q (-1 :: rest) depth

/-! ## `SortHuffmanTreeItems` -/

/-- `SortHuffmanTree::Cmp` -/
def cmpSort (a b : Node) : Bool :=
  if a.count ≠ b.count then a.count < b.count else a.right > b.right

/-- `SimpleSortHuffmanTree::Cmp` (`brotli_bit_stream.rs`) -/
def cmpSimple (a b : Node) : Bool := a.count < b.count

/-- `while j >= gap && cmp(tmp, items[j - gap]) { items[j] = items[j - gap]; j -= gap }`.
Fuel `j + 1` always suffices when `gap ≥ 1`. -/
def gapShift (cmp : Node → Node → Bool) (tmp : Node) (gap : Nat) :
    Nat → List Node → Nat → Out (List Node × Nat)
  | 0, _, _ => .fuel
  | f + 1, items, j =>
    if j ≥ gap then do
      let x ← getAt items (j - gap)
      if cmp tmp x then do
        let items ← setAt items j x
        gapShift cmp tmp gap f items (j - gap)
      else .ok (items, j)
    else .ok (items, j)

/-- body of `for i in gap..n`: `tmp = items[i]; …shift…; items[j] = tmp` -/
def gapInsert (cmp : Node → Node → Bool) (gap : Nat) (items : List Node) (i : Nat) :
    Out (List Node) := do
  let tmp ← getAt items i
  let (items, j) ← gapShift cmp tmp gap (i + 1) items i
  setAt items j tmp

/-- `for i in gap..n { … }` as `cnt = n - gap` iterations from `i = gap` -/
def gapPass (cmp : Node → Node → Bool) (gap : Nat) : Nat → Nat → List Node → Out (List Node)
  | 0, _, items => .ok items
  | c + 1, i, items => do
    let items ← gapInsert cmp gap items i
    gapPass cmp gap c (i + 1) items

/-- `while g < 6 { gap = gaps[g]; …; g += 1 }` over the remaining gaps -/
def shellPasses (cmp : Node → Node → Bool) (n : Nat) : List Nat → List Node → Out (List Node)
  | [], items => .ok items
  | gap :: gs, items => do
    let items ← gapPass cmp gap (n - gap) gap items
    shellPasses cmp n gs items

/-- `SortHuffmanTreeItems(items, n, comparator)`.
The `n < 13` branch (`k = i; j = i - 1; while cmp(tmp, items[j]) { items[k] =
items[j]; k = j; if j-- == 0 break }; items[k] = tmp`) is the gapped insertion
with `gap = 1` (there `k = j + 1` throughout, the `break` is `j ≥ gap` failing). -/
def sortItems (cmp : Node → Node → Bool) (items : List Node) (n : Nat) : Out (List Node) :=
  if n < 13 then gapPass cmp 1 (n - 1) 1 items
  else shellPasses cmp n (kShellGaps.drop (if n < 57 then 2 else 0)) items

/-! ## `BrotliCreateHuffmanTree` -/

/-- `i = length; while i != 0 { i -= 1; if data[i] != 0 { tree[n] = new(max(data[i],
count_limit), -1, i as i16); n += 1 } }` -/
def collectLeaves (data : List Nat) (countLimit : Nat) :
    Nat → List Node → Nat → Out (List Node × Nat)
  | 0, tree, n => .ok (tree, n)
  | i + 1, tree, n => do
    let d ← getAt data i
    if d ≠ 0 then
      let tree ← setAt tree n ⟨max d countLimit, -1, asI16 i⟩
      collectLeaves data countLimit i tree (n + 1)
    else collectLeaves data countLimit i tree n

/-- `while k != 0 { … k -= 1 }`: the two-queue merge.  `i` walks the sorted
leaves, `j` the internal nodes; the node created at step `k` is `tree[2n - k]`. -/
def mergeLoop (n : Nat) : Nat → List Node → Nat → Nat → Out (List Node)
  | 0, tree, _, _ => .ok tree
  | k + 1, tree, i, j => do
    let ti ← getAt tree i
    let tj ← getAt tree j
    let (left, i, j) := if ti.count ≤ tj.count then (i, i + 1, j) else (j, i, j + 1)
    let ti ← getAt tree i
    let tj ← getAt tree j
    let (right, i, j) := if ti.count ≤ tj.count then (i, i + 1, j) else (j, i, j + 1)
    let jEnd := 2 * n - (k + 1)
    let tl ← getAt tree left
    let tr ← getAt tree right
    let tree ← setAt tree jEnd ⟨(tl.count + tr.count) % 4294967296, asI16 left, asI16 right⟩
    let tree ← setAt tree (jEnd + 1) sentinel
    mergeLoop n k tree i j

end BV.Huffman
