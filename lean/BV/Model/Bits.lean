/-
M4a `Bits` — the LSB-first bit writer `BrotliWriteBits`
(`src/enc/brotli_bit_stream.rs`) and the outcome monad shared by the models.

`BrotliWriteBits(n_bits, bits, pos, array)` reads the byte `array[pos >> 3]`,
ORs `bits << (pos & 7)` into it and stores the 8 bytes of the 64-bit word back
at `array[pos>>3 .. pos>>3+8]`, then adds `n_bits` to `pos`.  Provided that

  (W1) the bits of `array[pos >> 3]` at positions `≥ pos & 7` are zero (true for
       a zeroed storage / after `BrotliWriteBitsPrepareStorage`, and preserved
       by every call because the 7 following bytes are overwritten with the
       zero-extended remainder),
  (W2) `array.len() ≥ (pos >> 3) + 8` and `pos < 2^35` (the `as u32` truncation
       of the byte offset is the identity)

the observable effect is exactly "append the `n_bits` low bits of `bits`, least
significant first, to the stream of `pos` bits written so far".  (W1),(W2) are
preconditions on the *storage* that every model here assumes (the storage is a
caller-supplied scratch buffer; the models only produce the bit stream); the
two `assert!`s of the function are explicit panic outcomes.
-/

namespace BV.Bits

/-- Outcome of a model run: a value, a Rust panic, or exhaustion of the fuel
that bounds a loop of the model (never a Rust behaviour: each model states and
the lemmas prove when it cannot happen). -/
inductive Out (α : Type) where
  | ok (a : α)
  | panic
  | fuel
deriving Repr, DecidableEq, Inhabited

namespace Out
@[inline] def bind {α β : Type} (x : Out α) (f : α → Out β) : Out β :=
  match x with
  | ok a => f a
  | panic => panic
  | fuel => fuel

instance : Monad Out where
  pure := ok
  bind := bind

@[simp] theorem bind_ok {α β} (a : α) (f : α → Out β) : (ok a >>= f) = f a := rfl
@[simp] theorem bind_panic {α β} (f : α → Out β) : ((panic : Out α) >>= f) = panic := rfl
@[simp] theorem bind_fuel {α β} (f : α → Out β) : ((fuel : Out α) >>= f) = fuel := rfl
@[simp] theorem pure_eq {α} (a : α) : (pure a : Out α) = ok a := rfl
end Out

open Out

/-- `slice[i]` read: out of range is a Rust panic -/
@[inline] def getAt {α : Type} (l : List α) (i : Nat) : Out α :=
  match l[i]? with
  | some x => ok x
  | none => panic

/-- `slice[i] = v` write: out of range is a Rust panic -/
@[inline] def setAt {α : Type} (l : List α) (i : Nat) (v : α) : Out (List α) :=
  if i < l.length then ok (l.set i v) else panic

/-- the `n` low bits of `v`, least significant first -/
def bitsOf : Nat → Nat → List Bool
  | 0, _ => []
  | n + 1, v => (v % 2 == 1) :: bitsOf n (v / 2)

/-- value of an LSB-first bit list -/
def valOf : List Bool → Nat
  | [] => 0
  | b :: bs => (if b then 1 else 0) + 2 * valOf bs

/-- The bit stream written so far, first bit first (`storage_ix` = its length). -/
abbrev Writer := List Bool

/-- `BrotliWriteBits(n_bits, bits, pos, array)`:
`assert_eq!(bits >> n_bits, 0); assert!(n_bits <= 56);` then append.
(`n_bits` is a `u8`; callers that pass `x as u8` apply `% 256` themselves.
`bits >> n_bits` with `n_bits ≥ 64` would be a shift-overflow panic; `n_bits >
56` panics anyway by the second assert in every build.) -/
def writeBits (nBits bits : Nat) (w : Writer) : Out Writer :=
  if bits / 2 ^ nBits ≠ 0 then panic
  else if nBits > 56 then panic
  else ok (w ++ bitsOf nBits bits)

/-- one byte from up to 8 LSB-first bits -/
def byteOf (bs : List Bool) : Nat := valOf (bs.take 8)

/-- the bytes of storage that hold the stream (last byte zero-padded) -/
def packBytes : Nat → List Bool → List Nat
  | 0, _ => []
  | _ + 1, [] => []
  | k + 1, b :: bs => byteOf (b :: bs) :: packBytes k ((b :: bs).drop 8)

def toBytes (w : Writer) : List Nat := packBytes w.length w

end BV.Bits
