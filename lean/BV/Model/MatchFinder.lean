/-
M13b `MatchFinder` — executable model of the match search of the bucketed index kinds
(`src/enc/backward_references/mod.rs`):

* `FindMatchLengthWithLimit`, `FindMatchLengthWithLimitMin4`, `ComplexFindMatchLengthWithLimit`
  (`src/enc/static_dict.rs`; the 8/16/32/64/128-byte chunking is kept because it decides when a
  short slice panics; inside a chunk the 64-bit word compare + `trailing_zeros >> 3` is modelled
  as "first differing byte");
* the scores (`BackwardReferenceScore`, `…UsingLastDistance`, `…PenaltyUsingLastDistance`, the H9
  variants), `Log2FloorNonZero`;
* `TestStaticDictionaryItem`, `SearchInStaticDictionary` with the dictionary LOOKUP as an oracle
  (`DictItem`: what `dictionary_hash[key]`, `size_bits_by_length[len]` and the `len` bytes of the
  word at its offset are);
* `FindLongestMatch` of `BasicHasher` (H2/H3/H4/H54), `AdvHasher` (H5 family, H6) and `H9`;
* `ComputeDistanceCode` (`src/enc/command.rs`), `Command::init`, and the step of
  `CreateBackwardReferences` that turns an accepted `HasherSearchResult` into a `Command` and
  updates the distance cache (which candidate position is accepted — lazy matching — is not
  modelled: the step takes the accepted result as input).

Conventions as in BV/Model/Hasher.lean (`Option` = panic, tables are `Array Nat`, `usize = u64`,
hash functions are parameters).  `usize` wrapping subtraction is `wsub`.  The distance cache is a
list of `Int` (`i32`); `x as usize` is sign extension (`toUsize`).
-/
import BV.Model.Hasher
import BV.Model.Recoder

namespace BV.MatchFinder
open BV.Hasher BV.Recoder BV.PrefixArith

/-- `a.wrapping_sub(b)` on `usize` -/
def wsub (a b : Nat) : Nat := (a + U64 - b % U64) % U64

/-- `data[i]` -/
def byteAt (data : ByteArray) (i : Nat) : Option Nat :=
  if i < data.size then some (data.get! i).toNat else none

/-- `x as usize` for an `i32` -/
def i32ToUsize (x : Int) : Nat := toUsize x

/-- `Log2FloorNonZero(v)`: `63 ^ v.leading_zeros()` (127 for `v = 0`) -/
def log2FloorNonZero (v : Nat) : Nat := if v = 0 then 127 else Nat.log2 v

/-- `HasherSearchResult` -/
structure SR where
  len : Nat
  lenXCode : Nat
  distance : Nat
  score : Nat
deriving Repr, DecidableEq, Inhabited

/-! ## match lengths -/

/-- index of the first position `i < n` with `data[p+i] ≠ data[q+i]` -/
def firstDiff (data : ByteArray) (p q : Nat) : Nat → Option Nat
  | 0 => none
  | n + 1 =>
    match firstDiff data p q n with
    | some i => some i
    | none => if (data.get! (p + n)).toNat ≠ (data.get! (q + n)).toNat then some n else none

/-- read `n` bytes at `p` and at `q` and compare them: `none` = a slice is too short (panic),
`some none` = equal, `some (some i)` = first difference -/
def cmpRun (data : ByteArray) (p q n : Nat) : Option (Option Nat) :=
  if p + n ≤ data.size ∧ q + n ≤ data.size then some (firstDiff data p q n) else none

/-- `FindMatchLengthWithLimit(&data[p..], &data[q..], limit)`: `s1[..limit]`, `s2[..limit]` -/
def findMatchLengthWithLimit (data : ByteArray) (p q limit : Nat) : Option Nat :=
  match cmpRun data p q limit with
  | none => none
  | some none => some limit
  | some (some i) => some i

/-- the chunk sizes `ComplexFindMatchLengthWithLimit` reads for a given `limit`:
8, then 16, 32, 64 (each only if that much is left), then 128 while possible, then 8 while possible -/
def chunks (limit : Nat) : List Nat :=
  if limit < 8 then [] else
  let l := limit - 8
  if l < 16 then 8 :: List.replicate (l / 8) 8 else
  let l := l - 16
  if l < 32 then 8 :: 16 :: List.replicate (l / 8) 8 else
  let l := l - 32
  if l < 64 then 8 :: 16 :: 32 :: List.replicate (l / 8) 8 else
  let l := l - 64
  8 :: 16 :: 32 :: 64 :: (List.replicate (l / 128) 128 ++ List.replicate (l % 128 / 8) 8)

/-- the chunk loop: (stopped at a difference?, offset, matched); `matched` is kept `as u32` -/
def cmpChunks (data : ByteArray) (p q : Nat) : List Nat → Nat → Nat → Option (Bool × Nat × Nat)
  | [], off, m => some (false, off, m)
  | c :: cs, off, m =>
    match cmpRun data (p + off) (q + off) c with
    | none => none
    | some (some i) => some (true, off, (m + i) % U32)
    | some none => cmpChunks data p q cs (off + c) ((m + c) % U32)

/-- `ComplexFindMatchLengthWithLimit(&data[p..], &data[q..], limit)` -/
def complexFindMatchLengthWithLimit (data : ByteArray) (p q limit : Nat) : Option Nat :=
  match cmpChunks data p q (chunks limit) 0 0 with
  | none => none
  | some (true, _, m) => some m
  | some (false, off, m) =>
    let r := limit % 8
    -- `assert!(s1.len() >= (limit & 7))`, `assert!(s2.len() >= (limit & 7))`
    if p + off + r ≤ data.size ∧ q + off + r ≤ data.size then
      match firstDiff data (p + off) (q + off) r with
      | some i => some (m + i)
      | none => some (m + r)
    else none

/-- `FindMatchLengthWithLimitMin4(&data[p..], &data[q..], limit)` -/
def findMatchLengthWithLimitMin4 (data : ByteArray) (p q limit : Nat) : Option Nat :=
  match win data p 5, win data q 5 with      -- `split_at(5)` on both slices
  | some w1, some w2 =>
    if le (w1.take 4) ≠ le (w2.take 4) then some 0
    else if limit ≤ 4 ∨ w1.getD 4 0 ≠ w2.getD 4 0 then some (min limit 4)
    else
      match complexFindMatchLengthWithLimit data (p + 5) (q + 5) (limit - 5) with
      | none => none
      | some n => some (n + 5)
  | _, _ => none

/-! ## scores -/

/-- `BackwardReferenceScoreUsingLastDistance(copy_length, opts)` -/
def scoreLast (lbs len : Nat) : Nat := ((lbs >>> 2) * len + 30 * 8 * 8 + 15) % U64

/-- `BackwardReferenceScore(copy_length, backward, opts)` -/
def scoreBackward (lbs len backward : Nat) : Nat :=
  ((30 * 8 * 8 + ((lbs >>> 2) * len) % U64) % U64 + U64 - (30 * log2FloorNonZero backward) % U64) % U64

/-- `BackwardReferencePenaltyUsingLastDistance(distance_short_code)` -/
def penaltyLast (i : Nat) : Nat := 39 + ((0x1ca10 >>> (i &&& 0xe)) &&& 0xe)

def kDistanceShortCodeCost : List Nat :=
  [7680 + 60, 7680 - 95, 7680 - 117, 7680 - 127, 7680 - 93, 7680 - 93, 7680 - 96, 7680 - 96,
   7680 - 99, 7680 - 99, 7680 - 105, 7680 - 105, 7680 - 115, 7680 - 115, 7680 - 125, 7680 - 125]

/-- `BackwardReferenceScoreH9` -/
def scoreBackwardH9 (lbs len backward : Nat) : Nat :=
  (((7680 + (lbs * len) % U64) % U64 + U64 - (120 * log2FloorNonZero backward) % U64) % U64) >>> 2

/-- `BackwardReferenceScoreUsingLastDistanceH9` -/
def scoreLastH9 (lbs len code : Nat) : Nat := (((lbs * len) % U64 + kDistanceShortCodeCost.getD code 0) % U64) >>> 2

/-! ## static dictionary (lookup = oracle) -/

/-- one slot of `dictionary_hash` looked at by `SearchInStaticDictionary`: the `u16` item
(`len = item & 31`, `dist = item >> 5`), `size_bits_by_length[len]`, and the `len` bytes
`dictionary.data[offsets_by_length[len] + len*dist ..]` -/
structure DictItem where
  item : Nat
  sizeBits : Nat
  word : List Nat
deriving Repr, Inhabited

/-- `dict_num_lookups`, `dict_num_matches` of the hasher's `Struct1` -/
structure Common where
  lookups : Nat
  hits : Nat
deriving Repr, DecidableEq, Inhabited

def kCutoffTransformsCount : Nat := 10
def kCutoffTransforms : Nat := 0x071b520ada2d3200

/-- index of the first position `i < n` at which the two byte lists differ -/
def firstDiffW (w word : List Nat) : Nat → Option Nat
  | 0 => none
  | n + 1 =>
    match firstDiffW w word n with
    | some i => some i
    | none => if w.getD n 0 ≠ word.getD n 0 then some n else none

/-- `FindMatchLengthWithLimit(data, &dictionary.data[offset..], len)` against the oracle's word -/
def dictMatchLen (data : ByteArray) (cm : Nat) (word : List Nat) (len : Nat) : Option Nat :=
  match win data cm len with
  | none => none
  | some w =>
    if word.length < len then none
    else some ((firstDiffW w word len).getD len)

/-- `TestStaticDictionaryItem`: `some out'` = returned 1, `none` inside = returned 0 -/
def testStaticDictionaryItem (lbs : Nat) (d : DictItem) (data : ByteArray) (cm maxLength
    maxBackward maxDistance : Nat) (out : SR) : Option (Option SR) :=
  let len := d.item &&& 0x1f
  let dist := d.item >>> 5
  if len ≥ 25 then none            -- `offsets_by_length[len]`: `[u32; 25]`
  else if len > maxLength then some none
  else
    match dictMatchLen data cm d.word len with
    | none => none
    | some matchlen =>
      if matchlen + kCutoffTransformsCount ≤ len ∨ matchlen = 0 then some none
      else
        let cut := len - matchlen
        let tid := (cut <<< 2) + ((kCutoffTransforms >>> (cut * 6)) &&& 0x3f)
        let backward := (maxBackward + dist + 1 + (tid <<< d.sizeBits)) % U64
        if backward > maxDistance then some none
        else
          let score := scoreBackward lbs matchlen backward
          if score < out.score then some none
          else some (some ⟨matchlen, len ^^^ matchlen, backward, score⟩)

/-- the `while i < (if shallow {1} else {2})` loop of `SearchInStaticDictionary` over the looked-up slots -/
def dictLoop (lbs : Nat) (data : ByteArray) (cm maxLength maxBackward maxDistance : Nat) :
    List DictItem → Bool → SR → Common → Option (Bool × SR × Common)
  | [], found, out, c => some (found, out, c)
  | d :: ds, found, out, c =>
    let c := { c with lookups := (c.lookups + 1) % U64 }
    if d.item ≠ 0 then
      match testStaticDictionaryItem lbs d data cm maxLength maxBackward maxDistance out with
      | none => none
      | some none => dictLoop lbs data cm maxLength maxBackward maxDistance ds found out c
      | some (some out') =>
        dictLoop lbs data cm maxLength maxBackward maxDistance ds true out'
          { c with hits := (c.hits + 1) % U64 }
    else dictLoop lbs data cm maxLength maxBackward maxDistance ds found out c

/-- `SearchInStaticDictionary(dictionary, hash, handle, &data[cm..], max_length, max_backward, max_distance, out, shallow)`;
`items` = the slots `dictionary_hash[key]`, `[key+1]` (one if shallow) for `key = Hash14(data) << 1` -/
def searchInStaticDictionary (lbs : Nat) (items : List DictItem) (data : ByteArray) (cm maxLength
    maxBackward maxDistance : Nat) (out : SR) (c : Common) : Option (Bool × SR × Common) :=
  if c.hits < c.lookups >>> 7 then some (false, out, c)
  else
    match win data cm 4 with        -- `Hash14(data)`: `BROTLI_UNALIGNED_LOAD32`
    | none => none
    | some _ => dictLoop lbs data cm maxLength maxBackward maxDistance items false out c

/-! ## shared pieces of the three `FindLongestMatch` bodies

The bodies are written as chains of small functions (one per source statement group), so that
each can be reasoned about on its own. -/

/-- running state of a search: `best_score`, `best_len`, `out`, `is_match_found` -/
structure LoopSt where
  bestScore : Nat
  bestLen : Nat
  out : SR
  found : Bool
deriving Repr, Inhabited

/-- the guard `cur_ix_masked + best_len > mask || prev_ix + best_len > mask || cur_data[best_len] != data[prev_ix + best_len]`
(`none` = an index panicked; the byte reads happen only if the two range tests are false) -/
def guard (data : ByteArray) (mask cm prevM bestLen : Nat) : Option Bool :=
  if cm + bestLen > mask ∨ prevM + bestLen > mask then some true
  else
    match byteAt data (cm + bestLen), byteAt data (prevM + bestLen) with
    | some a, some b => some (a ≠ b)
    | _, _ => none

/-- `out.len = len; out.distance = backward; out.score = score; best_* = …; is_match_found = true` -/
def LoopSt.take (s : LoopSt) (len backward score : Nat) : LoopSt :=
  ⟨score, len, { s.out with len := len, distance := backward, score := score }, true⟩

/-- "skip if `g`, else measure the match and hand its length to `acc`": `g` is the (already
evaluated) guard, `fml` the match-length call (evaluated only when the guard lets the candidate through) -/
def tryAt (g : Option Bool) (fml : Unit → Option Nat) (acc : Nat → LoopSt) (s : LoopSt) : Option LoopSt :=
  match g with
  | none => none
  | some true => some s
  | some false =>
    match fml () with
    | none => none
    | some len => some (acc len)

/-- the tail of a `while` iteration: `r` = (break?, state) of the step, `k` = the remaining iterations -/
def loopBody {σ : Type} (r : Option (Bool × σ)) (k : σ → Option σ) : Option σ :=
  match r with
  | none => none
  | some (true, s) => some s
  | some (false, s) => k s

/-! ## BasicHasher::FindLongestMatch -/

namespace Basic

/-- Basic keeps `compare_char` next to the loop state -/
structure SweepSt where
  s : LoopSt
  cc : Nat
deriving Inhabited

/-- `if len != 0 { let score = …; if best_score < score { …; compare_char = data[cur_ix_masked + best_len] } }` -/
def sweepAccept (lbs : Nat) (data : ByteArray) (cm len backward : Nat) (t : SweepSt) : Option SweepSt :=
  if len ≠ 0 then
    let score := scoreBackward lbs len backward
    if t.s.bestScore < score then
      match byteAt data (cm + len) with
      | none => none
      | some cc => some ⟨t.s.take len backward score, cc⟩
    else some t
  else some t

/-- one iteration of `for prev_ix_ref in buckets[key..][..bucket_sweep]` -/
def sweepStep (lbs : Nat) (data : ByteArray) (mask curIx cm maxLength maxBackward : Nat) (prev : Nat)
    (t : SweepSt) : Option SweepSt :=
  let backward := wsub curIx prev
  let prevM := prev &&& (mask % U32)
  match byteAt data (prevM + t.s.bestLen) with
  | none => none
  | some b =>
    if t.cc ≠ b then some t
    else if backward = 0 ∨ backward > maxBackward then some t
    else
      match findMatchLengthWithLimitMin4 data prevM cm maxLength with
      | none => none
      | some len => sweepAccept lbs data cm len backward t

def sweepLoop (lbs : Nat) (data : ByteArray) (mask curIx cm maxLength maxBackward : Nat) (b : Tab)
    (key : Nat) : Nat → Nat → SweepSt → Option SweepSt
  | 0, _, t => some t
  | n + 1, j, t =>
    (rd b (key + j)).bind fun prev =>
      (sweepStep lbs data mask curIx cm maxLength maxBackward prev t).bind fun t =>
        sweepLoop lbs data mask curIx cm maxLength maxBackward b key n (j + 1) t

/-- outcome of a phase: either the function returns (`Sum.inl`) or goes on (`Sum.inr`) -/
abbrev Ret := Bool × SR × Tab × Common

/-- the accepted cached candidate: `best_score = …; out.* = …; compare_char = …; if sweep == 1 { store; return true }` -/
def phase1Take (P : BasicP) (lbs : Nat) (data : ByteArray) (curIx cm key cachedBackward len : Nat)
    (out : SR) (b : Tab) (c : Common) : Option (Ret ⊕ SweepSt) :=
  let score := scoreLast lbs len
  let s : LoopSt := (⟨out.score, out.len, out, false⟩ : LoopSt).take len cachedBackward score
  match byteAt data (cm + len) with
  | none => none
  | some cc =>
    if P.sweep = 1 then
      match wr b key (curIx % U32) with
      | none => none
      | some b => some (.inl (true, s.out, b, c))
    else some (.inr ⟨s, cc⟩)

/-- `if prev_ix < cur_ix && cached_backward <= max_backward { … }` (the last distance is tried first) -/
def phase1 (P : BasicP) (lbs : Nat) (data : ByteArray) (mask curIx cm key maxLength maxBackward
    cachedBackward cc0 : Nat) (out : SR) (b : Tab) (c : Common) : Option (Ret ⊕ SweepSt) :=
  let none' : Option (Ret ⊕ SweepSt) := some (.inr ⟨⟨out.score, out.len, out, false⟩, cc0⟩)
  let prevIx := wsub curIx cachedBackward
  if prevIx < curIx ∧ cachedBackward ≤ maxBackward then
    let prevM := prevIx &&& (mask % U32)
    match byteAt data (prevM + out.len) with
    | none => none
    | some pb =>
      if cc0 = pb then
        match findMatchLengthWithLimitMin4 data prevM cm maxLength with
        | none => none
        | some len =>
          if len ≠ 0 then phase1Take P lbs data curIx cm key cachedBackward len out b c
          else none'
      else none'
  else none'

/-- the single-slot bucket (`bucket_sweep == 1`) after the slot has been read (`prev`) and overwritten -/
def phase2Single (lbs : Nat) (data : ByteArray) (mask curIx cm maxLength maxBackward bestLenIn prev : Nat)
    (t : SweepSt) (b : Tab) (c : Common) : Option (Ret ⊕ SweepSt) :=
  let backward := wsub curIx prev
  let prevM := prev &&& (mask % U32)
  match byteAt data (prevM + bestLenIn) with
  | none => none
  | some pb =>
    if t.cc ≠ pb then some (.inl (false, t.s.out, b, c))
    else if backward = 0 ∨ backward > maxBackward then some (.inl (false, t.s.out, b, c))
    else
      match findMatchLengthWithLimitMin4 data prevM cm maxLength with
      | none => none
      | some len =>
        if len ≠ 0 then
          let o : SR := { t.s.out with len := len, distance := backward, score := scoreBackward lbs len backward }
          some (.inl (true, o, b, c))
        else some (.inr t)

/-- the bucket: one slot (`bucket_sweep == 1`) or a sweep over `bucket_sweep` slots -/
def phase2 (P : BasicP) (lbs : Nat) (data : ByteArray) (mask curIx cm key maxLength maxBackward
    bestLenIn : Nat) (t : SweepSt) (b : Tab) (c : Common) : Option ((Ret ⊕ SweepSt) × Tab) :=
  if P.sweep = 1 then
    match rd b key with
    | none => none
    | some prev =>
      match wr b key (curIx % U32) with
      | none => none
      | some b =>
        match phase2Single lbs data mask curIx cm maxLength maxBackward bestLenIn prev t b c with
        | none => none
        | some r => some (r, b)
  else
    -- `self.buckets_.slice().split_at(key).1[..bucket_sweep]`
    if key + P.sweep ≤ b.size then
      match sweepLoop lbs data mask curIx cm maxLength maxBackward b key P.sweep 0 t with
      | none => none
      | some t => some (.inr t, b)
    else none

/-- `if dictionary.is_some() && USE_DICTIONARY != 0 && !is_match_found { SearchInStaticDictionary(.., shallow = true) }` -/
def dictStep (useDict : Bool) (lbs : Nat) (dict : Option (List DictItem)) (data : ByteArray)
    (cm maxLength maxBackward maxDistance : Nat) (s : LoopSt) (c : Common) : Option (Bool × SR × Common) :=
  match dict with
  | some items =>
    if useDict ∧ ¬ s.found then
      searchInStaticDictionary lbs items data cm maxLength maxBackward maxDistance s.out c
    else some (s.found, s.out, c)
  | none => some (s.found, s.out, c)

/-- static dictionary (only if nothing was found) and the final store of `cur_ix` -/
def phase3 (P : BasicP) (useDict : Bool) (lbs : Nat) (dict : Option (List DictItem)) (data : ByteArray)
    (curIx cm key maxLength maxBackward maxDistance : Nat) (s : LoopSt) (b : Tab) (c : Common) :
    Option Ret :=
  match dictStep useDict lbs dict data cm maxLength maxBackward maxDistance s c with
  | none => none
  | some (found, out, c) =>
    if P.sweep = 0 then none          -- `wrapping_rem(0)`
    else
      match wr b (key + (curIx >>> 3) % P.sweep) (curIx % U32) with
      | none => none
      | some b => some (found, out, b, c)

/-- after the bucket phase: return, or go on to the dictionary and the final store -/
def finish2 (P : BasicP) (useDict : Bool) (lbs : Nat) (dict : Option (List DictItem)) (data : ByteArray)
    (curIx cm key maxLength maxBackward maxDistance : Nat) (c : Common)
    (r2 : Option ((Ret ⊕ SweepSt) × Tab)) : Option Ret :=
  match r2 with
  | none => none
  | some (.inl r, _) => some r
  | some (.inr t, b) => phase3 P useDict lbs dict data curIx cm key maxLength maxBackward maxDistance t.s b c

/-- after the cached-distance phase: return, or go on to the bucket -/
def finish1 (P : BasicP) (useDict : Bool) (lbs : Nat) (dict : Option (List DictItem)) (data : ByteArray)
    (mask curIx cm key maxLength maxBackward maxDistance bestLenIn : Nat) (b : Tab) (c : Common)
    (r1 : Option (Ret ⊕ SweepSt)) : Option Ret :=
  match r1 with
  | none => none
  | some (.inl r) => some r
  | some (.inr t) =>
    finish2 P useDict lbs dict data curIx cm key maxLength maxBackward maxDistance c
      (phase2 P lbs data mask curIx cm key maxLength maxBackward bestLenIn t b c)

/-- `fn FindLongestMatch` of `BasicHasher<T>`; `useDict` = `USE_DICTIONARY() != 0`,
`dict` = `dictionary.is_some()` together with the oracle's slots; `gap = 0` -/
def findLongestMatch (P : BasicP) (useDict : Bool) (lbs : Nat) (dict : Option (List DictItem))
    (data : ByteArray) (mask : Nat) (cache : List Int) (curIx maxLength maxBackward maxDistance : Nat)
    (out : SR) (b : Tab) (c : Common) : Option Ret :=
  (BV.Hasher.Basic.hashAt P data (curIx &&& mask)).bind fun key =>
  (byteAt data ((curIx &&& mask) + out.len)).bind fun cc0 =>
  (cache[0]?).bind fun c0 =>
    finish1 P useDict lbs dict data mask curIx (curIx &&& mask) key maxLength maxBackward maxDistance
      out.len b c
      (phase1 P lbs data mask curIx (curIx &&& mask) key maxLength maxBackward (i32ToUsize c0) cc0
        { out with lenXCode := 0 } b c)

end Basic

/-! ## AdvHasher::FindLongestMatch -/

namespace Adv

/-- a candidate of length `len` at cached distance number `i`: `if len >= 3 || (len == 2 && i < 2) { … }` -/
def cacheAccept (lbs i len backward : Nat) (s : LoopSt) : LoopSt :=
  if len ≥ 3 ∨ (len = 2 ∧ i < 2) then
    let score := scoreLast lbs len
    if s.bestScore < score then
      let score := if i ≠ 0 then wsub score (penaltyLast i) else score
      if s.bestScore < score then s.take len backward score else s
    else s
  else s

/-- a candidate of length `len` from the bucket: `if len != 0 { if best_score < score { … } }` -/
def bucketAccept (lbs len backward : Nat) (s : LoopSt) : LoopSt :=
  if len ≠ 0 then
    let score := scoreBackward lbs len backward
    if s.bestScore < score then s.take len backward score else s
  else s

/-- the body of the distance-cache loop once `backward = distance_cache[i] as usize` is known -/
def cacheStepAt (lbs : Nat) (data : ByteArray) (mask curIx cm maxLength maxBackward i backward : Nat)
    (s : LoopSt) : Option LoopSt :=
  let prevIx := wsub curIx backward
  if prevIx ≥ curIx ∨ backward > maxBackward then some s
  else
    let prevM := prevIx &&& mask
    tryAt (guard data mask cm prevM s.bestLen)
      (fun _ => findMatchLengthWithLimit data prevM cm maxLength)
      (fun len => cacheAccept lbs i len backward s) s

/-- one iteration of the distance-cache loop -/
def cacheStep (lbs : Nat) (data : ByteArray) (mask curIx cm maxLength maxBackward : Nat)
    (cache : List Int) (i : Nat) (s : LoopSt) : Option LoopSt :=
  match cache[i]? with
  | none => none
  | some ci => cacheStepAt lbs data mask curIx cm maxLength maxBackward i (i32ToUsize ci) s

/-- one iteration of the `while i > down` loop for the table entry `prev`: (break?, state) -/
def bucketStep (lbs : Nat) (data : ByteArray) (mask curIx cm maxLength maxBackward prev : Nat)
    (s : LoopSt) : Option (Bool × LoopSt) :=
  let backward := wsub curIx prev
  if backward = 0 then some (false, s)
  else
    let prevM := prev &&& mask
    match guard data mask cm prevM s.bestLen with
    | none => none
    | some g =>
      if backward > maxBackward then some (true, s)
      else if g then some (false, s)
      else
        match findMatchLengthWithLimitMin4 data prevM cm maxLength with
        | none => none
        | some len => some (false, bucketAccept lbs len backward s)

/-- the `while i > down` loop over the ring of the key's block; `bucket j` reads `bucket[j]` -/
def bucketLoop (lbs : Nat) (data : ByteArray) (mask curIx cm maxLength maxBackward blockMask : Nat)
    (bucket : Nat → Option Nat) : Nat → Nat → LoopSt → Option LoopSt
  | 0, _, s => some s
  | cnt + 1, i, s =>
    (bucket ((i - 1) &&& blockMask)).bind fun prev =>
      loopBody (bucketStep lbs data mask curIx cm maxLength maxBackward prev s)
        (bucketLoop lbs data mask curIx cm maxLength maxBackward blockMask bucket cnt (i - 1))

/-- the hash-table part: scan the key's ring, then store `cur_ix` and bump the counter -/
def scan (P : AdvP) (lbs : Nat) (data : ByteArray) (mask curIx cm maxLength maxBackward : Nat)
    (s : LoopSt) (st : AdvSt) : Option (LoopSt × AdvSt) :=
  match st with
  | ⟨num, buckets⟩ =>
  match BV.Hasher.Adv.hashAt P data cm with
  | none => none
  | some key =>
  match rd num key with
  | none => none
  | some n =>
  let blockSize := 1 <<< P.blockBits
  let start := (key <<< P.blockBits) % U32
  -- `split_at_mut(start).1.split_at_mut(block_size).0`, `assert!(bucket.len() > block_mask)`
  if start + blockSize > buckets.size ∨ blockSize ≤ P.blockMask then none
  else
  let bucketAt (j : Nat) : Option Nat := if j < blockSize then rd buckets (start + j) else none
  let down := if n > blockSize then n - blockSize else 0
  let loopRes := if n ≠ 0 then
      bucketLoop lbs data mask curIx cm maxLength maxBackward P.blockMask bucketAt (n - down) n s
    else some s
  match loopRes with
  | none => none
  | some s =>
  let slot := (n % U32) &&& P.blockMask
  if slot ≥ blockSize then none
  else
  match wr buckets (start + slot) (curIx % U32) with
  | none => none
  | some buckets =>
  match wr num key ((n + 1) % U16) with
  | none => none
  | some num => some (s, ⟨num, buckets⟩)

/-- `if !is_match_found && dictionary.is_some() { SearchInStaticDictionary(.., shallow = false) }` -/
def dictPhase (lbs : Nat) (dict : Option (List DictItem)) (data : ByteArray) (cm maxLength maxBackward
    maxDistance : Nat) (s : LoopSt) (c : Common) : Option (Bool × SR × Common) :=
  match dict with
  | some items =>
    if ¬ s.found then
      if cm > data.size then none       -- `data.split_at(cur_ix_masked)`
      else searchInStaticDictionary lbs items data cm maxLength maxBackward maxDistance s.out c
    else some (s.found, s.out, c)
  | none => some (s.found, s.out, c)

/-- `fn FindLongestMatch` of `AdvHasher`; `numLast` = `params.num_last_distances_to_check` -/
def findLongestMatch (P : AdvP) (numLast lbs : Nat) (dict : Option (List DictItem))
    (data : ByteArray) (mask : Nat) (cache : List Int) (curIx maxLength maxBackward maxDistance : Nat)
    (out : SR) (st : AdvSt) (c : Common) : Option (Bool × SR × AdvSt × Common) :=
  let cm := curIx &&& mask
  if cm > data.size then none        -- `data.split_at(cur_ix_masked)`
  else
  let s0 : LoopSt := ⟨out.score, out.len, { out with len := 0, lenXCode := 0 }, false⟩
  match forRange (cacheStep lbs data mask curIx cm maxLength maxBackward cache) 0 numLast s0 with
  | none => none
  | some s =>
  match scan P lbs data mask curIx cm maxLength maxBackward s st with
  | none => none
  | some (s, st) =>
  match dictPhase lbs dict data cm maxLength maxBackward maxDistance s c with
  | none => none
  | some (found, out, c) => some (found, out, st, c)

end Adv

/-! ## H9::FindLongestMatch -/

namespace H9

def kDistanceCacheIndex : List Nat := [0, 1, 2, 3, 0, 0, 0, 0, 0, 0, 1, 1, 1, 1, 1, 1]
def kDistanceCacheOffset : List Int := [0, 0, 0, 0, -1, 1, -2, 2, -3, 3, -1, 1, -2, 2, -3, 3]

/-- `if len >= 3 || (len == 2 && i < 2) { if best_score < score { … } }` of the H9 cache loop -/
def cacheAccept (lbs i len backward : Nat) (s : LoopSt) : LoopSt :=
  if len ≥ 3 ∨ (len = 2 ∧ i < 2) then
    let score := scoreLastH9 lbs len i
    if s.bestScore < score then s.take len backward score else s
  else s

/-- the body of the cache loop once `backward` is known -/
def cacheStepAt (lbs : Nat) (data : ByteArray) (mask curIx cm maxLength maxBackward i backward : Nat)
    (s : LoopSt) : Option LoopSt :=
  let prevIx := wsub curIx backward
  if prevIx ≥ curIx then some s
  else if backward > maxBackward then some s
  else
    let prevM := prevIx &&& mask
    tryAt (guard data mask cm prevM s.bestLen)
      (fun _ => findMatchLengthWithLimit data prevM cm maxLength)
      (fun len => cacheAccept lbs i len backward s) s

/-- one iteration of `for i in 0..H9_NUM_LAST_DISTANCES_TO_CHECK`:
`backward = (distance_cache[idx] as usize).wrapping_add(kDistanceCacheOffset[i] as usize)` -/
def cacheStep (lbs : Nat) (data : ByteArray) (mask curIx cm maxLength maxBackward : Nat)
    (cache : List Int) (i : Nat) (s : LoopSt) : Option LoopSt :=
  match cache[kDistanceCacheIndex.getD i 0]? with
  | none => none
  | some ci =>
    cacheStepAt lbs data mask curIx cm maxLength maxBackward i
      ((i32ToUsize ci + i32ToUsize (kDistanceCacheOffset.getD i 0)) % U64) s

/-- loop state of the bucket scan: `prev_best_val` is carried along -/
structure ScanSt where
  s : LoopSt
  pbv : Nat
deriving Inhabited

/-- `if len >= 4 { if best_score < score { …; if cm + best_len > mask { break }; prev_best_val = … } }`:
(break?, state) -/
def scanAccept (lbs : Nat) (data : ByteArray) (mask cm len backward : Nat) (t : ScanSt) :
    Option (Bool × ScanSt) :=
  if len ≥ 4 then
    let score := scoreBackwardH9 lbs len backward
    if t.s.bestScore < score then
      if cm + len > mask then some (true, ⟨t.s.take len backward score, t.pbv⟩)
      else
        match byteAt data (cm + len) with
        | none => none
        | some v => some (false, ⟨t.s.take len backward score, v⟩)
    else some (false, t)
  else some (false, t)

/-- one iteration of the `while i > down` loop of H9 for the table entry `prev`: (break?, state) -/
def scanStep (lbs : Nat) (data : ByteArray) (mask curIx cm maxLength maxBackward prev : Nat)
    (t : ScanSt) : Option (Bool × ScanSt) :=
  let backward := wsub curIx prev
  if backward = 0 then some (false, t)
  else if backward > maxBackward then some (true, t)
  else
    let prevM := prev &&& mask
    -- `prev_ix + best_len > mask || prev_best_val != data[prev_ix + best_len]`
    if prevM + t.s.bestLen > mask then some (false, t)
    else
      match byteAt data (prevM + t.s.bestLen) with
      | none => none
      | some b =>
        if t.pbv ≠ b then some (false, t)
        else
          match findMatchLengthWithLimit data prevM cm maxLength with
          | none => none
          | some len => scanAccept lbs data mask cm len backward t

/-- the `while i > down` loop of H9 -/
def bucketLoop (lbs : Nat) (data : ByteArray) (mask curIx cm maxLength maxBackward : Nat)
    (bucket : Nat → Option Nat) : Nat → Nat → ScanSt → Option ScanSt
  | 0, _, t => some t
  | cnt + 1, i, t =>
    (bucket ((i - 1) &&& BV.Hasher.H9.BLOCK_MASK)).bind fun prev =>
      loopBody (scanStep lbs data mask curIx cm maxLength maxBackward prev t)
        (bucketLoop lbs data mask curIx cm maxLength maxBackward bucket cnt (i - 1))

/-- `if max_length >= 4 && cur_ix_masked + best_len <= ring_buffer_mask { … }` -/
def scan (P : H9P) (lbs : Nat) (data : ByteArray) (mask curIx cm maxLength maxBackward : Nat)
    (s : LoopSt) (st : AdvSt) : Option (LoopSt × AdvSt) :=
  match st with
  | ⟨num, buckets⟩ =>
  if maxLength ≥ 4 ∧ cm + s.bestLen ≤ mask then
    match win data cm 4 with          -- `HashBytes(data.split_at(cur_ix_masked).1)`
    | none => none
    | some w =>
      let key := P.hash w % U32
      let start := key <<< BV.Hasher.H9.BLOCK_BITS
      -- `split_at_mut(key << 8).1.split_at_mut(256).0`; the two asserts are then true
      if start + 256 > buckets.size then none
      else
        match rd num key with
        | none => none
        | some n =>
          let bucketAt (j : Nat) : Option Nat := if j < 256 then rd buckets (start + j) else none
          let down := if n > 256 then n - 256 else 0
          match byteAt data (cm + s.bestLen) with
          | none => none
          | some pbv =>
            match bucketLoop lbs data mask curIx cm maxLength maxBackward bucketAt (n - down) n ⟨s, pbv⟩ with
            | none => none
            | some t =>
              match wr buckets (start + (n &&& BV.Hasher.H9.BLOCK_MASK)) (curIx % U32) with
              | none => none
              | some buckets =>
                match wr num key ((n + 1) % U16) with
                | none => none
                | some num => some (t.s, ⟨num, buckets⟩)
  else some (s, ⟨num, buckets⟩)

/-- `fn FindLongestMatch` of `H9` -/
def findLongestMatch (P : H9P) (lbs : Nat) (dict : Option (List DictItem))
    (data : ByteArray) (mask : Nat) (cache : List Int) (curIx maxLength maxBackward maxDistance : Nat)
    (out : SR) (st : AdvSt) (c : Common) : Option (Bool × SR × AdvSt × Common) :=
  let cm := curIx &&& mask
  let s0 : LoopSt := ⟨out.score, out.len, { out with lenXCode := 0 }, false⟩
  match forRange (cacheStep lbs data mask curIx cm maxLength maxBackward cache) 0 16 s0 with
  | none => none
  | some s =>
  match scan P lbs data mask curIx cm maxLength maxBackward s st with
  | none => none
  | some (s, st) =>
  match Adv.dictPhase lbs dict data cm maxLength maxBackward maxDistance s c with
  | none => none
  | some (found, out, c) => some (found, out, st, c)

end H9

/-! ## from a search result to a command -/

/-- `ComputeDistanceCode(distance, max_distance, dist_cache)` -/
def computeDistanceCode (distance maxDistance : Nat) (cache : List Int) : Option Nat :=
  match cache[0]?, cache[1]?, cache[2]?, cache[3]? with
  | some c0, some c1, some c2, some c3 =>
    let short : Option Nat :=
      if distance ≤ maxDistance then
        let d3 := (distance + 3) % U64
        let offset0 := wsub d3 (i32ToUsize c0)
        let offset1 := wsub d3 (i32ToUsize c1)
        if distance = i32ToUsize c0 then some 0
        else if distance = i32ToUsize c1 then some 1
        else if offset0 < 7 then some ((0x09750468 >>> (4 * offset0)) &&& 0xf)
        else if offset1 < 7 then some ((0x0fdb1ace >>> (4 * offset1)) &&& 0xf)
        else if distance = i32ToUsize c2 then some 2
        else if distance = i32ToUsize c3 then some 3
        else none
      else none
    match short with
    | some c => some c
    | none => some ((distance + 16 + U64 - 1) % U64)     -- `distance.wrapping_add(16).wrapping_sub(1)`
  | _, _, _, _ => none

/-- `Command::init(dist, insertlen, copylen, copylen_code, distance_code)` -/
def commandInit (np nd insertLen copyLen copyLenCode distanceCode : Nat) : Cmd :=
  let dc := prefixEncodeCopyDistance distanceCode nd np
  { insertLen := insertLen % U32
    copyLenField := packCopyLen copyLen copyLenCode
    distExtra := dc.extra32
    distPrefix := dc.packed
    cmdPrefix := getLengthCode insertLen copyLenCode (dc.packed &&& 0x3ff == 0) }

/-- the part of `CreateBackwardReferences` after a search result `sr` has been accepted at
`position` with `insert_length` pending literals: distance code, cache update, command.
(`as i32` of the stored distance is `toI32`.) -/
def emitCommand (np nd : Nat) (position maxBackwardLimit insertLength : Nat) (sr : SR) (cache : List Int) :
    Option (Cmd × List Int) :=
  let maxDistance := min position maxBackwardLimit
  match computeDistanceCode sr.distance maxDistance cache with
  | none => none
  | some code =>
    let cache' :=
      if sr.distance ≤ maxDistance ∧ code > 0 then
        match cache with
        | c0 :: c1 :: c2 :: _ :: rest => toI32 sr.distance :: c0 :: c1 :: c2 :: rest
        | _ => cache
      else cache
    some (commandInit np nd insertLength sr.len (sr.len ^^^ sr.lenXCode) code, cache')

end BV.MatchFinder
