/-
M13b `MatchFinder` — executable model of the match search of the bucketed index kinds
(`src/enc/backward_references/mod.rs`):

* `FindMatchLengthWithLimit`, `FindMatchLengthWithLimitMin4`, `ComplexFindMatchLengthWithLimit`
  (`src/enc/static_dict.rs`; the 8/16/32/64/128-byte chunking is kept because it decides when a
  short slice panics; inside a chunk the 64-bit word compare + `trailing_zeros >> 3` is modelled
  as "first differing byte");
* the scores (`BackwardReferenceScore`, `…UsingLastDistance`, `…PenaltyUsingLastDistance`, the H9
  variants), `Log2FloorNonZero`;
* `TestStaticDictionaryItem`, `SearchInStaticDictionary` with the dictionary LOOKUP as an oracle
  (`DictItem`: what `dictionary_hash[key]`, `size_bits_by_length[len]` and the `len` bytes of the
  word at its offset are);
* `FindLongestMatch` of `BasicHasher` (H2/H3/H4/H54), `AdvHasher` (H5 family, H6) and `H9`;
* `ComputeDistanceCode` (`src/enc/command.rs`), `Command::init`, and the step of
  `CreateBackwardReferences` that turns an accepted `HasherSearchResult` into a `Command` and
  updates the distance cache (which candidate position is accepted — lazy matching — is not
  modelled: the step takes the accepted result as input).

Conventions as in BV/Model/Hasher.lean (`Option` = panic, tables are `Array Nat`, `usize = u64`,
hash functions are parameters).  `usize` wrapping subtraction is `wsub`.  The distance cache is a
list of `Int` (`i32`); `x as usize` is sign extension (`toUsize`).
-/
import BV.Model.Hasher
import BV.Model.Recoder

namespace BV.MatchFinder
open BV.Hasher BV.Recoder BV.PrefixArith

/-- `a.wrapping_sub(b)` on `usize` -/
def wsub (a b : Nat) : Nat := (a + U64 - b % U64) % U64

/-- `data[i]` -/
def byteAt (data : ByteArray) (i : Nat) : Option Nat :=
  if i < data.size then some (data.get! i).toNat else none

/-- `x as usize` for an `i32` -/
def i32ToUsize (x : Int) : Nat := toUsize x

/-- `Log2FloorNonZero(v)`: `63 ^ v.leading_zeros()` (127 for `v = 0`) -/
def log2FloorNonZero (v : Nat) : Nat := if v = 0 then 127 else Nat.log2 v

/-- `HasherSearchResult` -/
structure SR where
  len : Nat
  lenXCode : Nat
  distance : Nat
  score : Nat
deriving Repr, DecidableEq, Inhabited

/-! ## match lengths -/

/-- index of the first position `i < n` with `data[p+i] ≠ data[q+i]` -/
def firstDiff (data : ByteArray) (p q : Nat) : Nat → Option Nat
  | 0 => none
  | n + 1 =>
    match firstDiff data p q n with
    | some i => some i
    | none => if (data.get! (p + n)).toNat ≠ (data.get! (q + n)).toNat then some n else none

/-- read `n` bytes at `p` and at `q` and compare them: `none` = a slice is too short (panic),
`some none` = equal, `some (some i)` = first difference -/
def cmpRun (data : ByteArray) (p q n : Nat) : Option (Option Nat) :=
  if p + n ≤ data.size ∧ q + n ≤ data.size then some (firstDiff data p q n) else none

/-- `FindMatchLengthWithLimit(&data[p..], &data[q..], limit)`: `s1[..limit]`, `s2[..limit]` -/
def findMatchLengthWithLimit (data : ByteArray) (p q limit : Nat) : Option Nat :=
  match cmpRun data p q limit with
  | none => none
  | some none => some limit
  | some (some i) => some i

/-- the chunk sizes `ComplexFindMatchLengthWithLimit` reads for a given `limit`:
8, then 16, 32, 64 (each only if that much is left), then 128 while possible, then 8 while possible -/
def chunks (limit : Nat) : List Nat :=
  if limit < 8 then [] else
  let l := limit - 8
  if l < 16 then 8 :: List.replicate (l / 8) 8 else
  let l := l - 16
  if l < 32 then 8 :: 16 :: List.replicate (l / 8) 8 else
  let l := l - 32
  if l < 64 then 8 :: 16 :: 32 :: List.replicate (l / 8) 8 else
  let l := l - 64
  8 :: 16 :: 32 :: 64 :: (List.replicate (l / 128) 128 ++ List.replicate (l % 128 / 8) 8)

/-- the chunk loop: (stopped at a difference?, offset, matched); `matched` is kept `as u32` -/
def cmpChunks (data : ByteArray) (p q : Nat) : List Nat → Nat → Nat → Option (Bool × Nat × Nat)
  | [], off, m => some (false, off, m)
  | c :: cs, off, m =>
    match cmpRun data (p + off) (q + off) c with
    | none => none
    | some (some i) => some (true, off, (m + i) % U32)
    | some none => cmpChunks data p q cs (off + c) ((m + c) % U32)

/-- `ComplexFindMatchLengthWithLimit(&data[p..], &data[q..], limit)` -/
def complexFindMatchLengthWithLimit (data : ByteArray) (p q limit : Nat) : Option Nat :=
  match cmpChunks data p q (chunks limit) 0 0 with
  | none => none
  | some (true, _, m) => some m
  | some (false, off, m) =>
    let r := limit % 8
    -- `assert!(s1.len() >= (limit & 7))`, `assert!(s2.len() >= (limit & 7))`
    if p + off + r ≤ data.size ∧ q + off + r ≤ data.size then
      match firstDiff data (p + off) (q + off) r with
      | some i => some (m + i)
      | none => some (m + r)
    else none

/-- `FindMatchLengthWithLimitMin4(&data[p..], &data[q..], limit)` -/
def findMatchLengthWithLimitMin4 (data : ByteArray) (p q limit : Nat) : Option Nat :=
  match win data p 5, win data q 5 with      -- `split_at(5)` on both slices
  | some w1, some w2 =>
    if le (w1.take 4) ≠ le (w2.take 4) then some 0
    else if limit ≤ 4 ∨ w1.getD 4 0 ≠ w2.getD 4 0 then some (min limit 4)
    else
      match complexFindMatchLengthWithLimit data (p + 5) (q + 5) (limit - 5) with
      | none => none
      | some n => some (n + 5)
  | _, _ => none

/-! ## scores -/

/-- `BackwardReferenceScoreUsingLastDistance(copy_length, opts)` -/
def scoreLast (lbs len : Nat) : Nat := ((lbs >>> 2) * len + 30 * 8 * 8 + 15) % U64

/-- `BackwardReferenceScore(copy_length, backward, opts)` -/
def scoreBackward (lbs len backward : Nat) : Nat :=
  ((30 * 8 * 8 + ((lbs >>> 2) * len) % U64) % U64 + U64 - (30 * log2FloorNonZero backward) % U64) % U64

/-- `BackwardReferencePenaltyUsingLastDistance(distance_short_code)` -/
def penaltyLast (i : Nat) : Nat := 39 + ((0x1ca10 >>> (i &&& 0xe)) &&& 0xe)

def kDistanceShortCodeCost : List Nat :=
  [7680 + 60, 7680 - 95, 7680 - 117, 7680 - 127, 7680 - 93, 7680 - 93, 7680 - 96, 7680 - 96,
   7680 - 99, 7680 - 99, 7680 - 105, 7680 - 105, 7680 - 115, 7680 - 115, 7680 - 125, 7680 - 125]

/-- `BackwardReferenceScoreH9` -/
def scoreBackwardH9 (lbs len backward : Nat) : Nat :=
  (((7680 + (lbs * len) % U64) % U64 + U64 - (120 * log2FloorNonZero backward) % U64) % U64) >>> 2

/-- `BackwardReferenceScoreUsingLastDistanceH9` -/
def scoreLastH9 (lbs len code : Nat) : Nat := (((lbs * len) % U64 + kDistanceShortCodeCost.getD code 0) % U64) >>> 2

/-! ## static dictionary (lookup = oracle) -/

/-- one slot of `dictionary_hash` looked at by `SearchInStaticDictionary`: the `u16` item
(`len = item & 31`, `dist = item >> 5`), `size_bits_by_length[len]`, and the `len` bytes
`dictionary.data[offsets_by_length[len] + len*dist ..]` -/
structure DictItem where
  item : Nat
  sizeBits : Nat
  word : List Nat
deriving Repr, Inhabited

/-- `dict_num_lookups`, `dict_num_matches` of the hasher's `Struct1` -/
structure Common where
  lookups : Nat
  hits : Nat
deriving Repr, DecidableEq, Inhabited

def kCutoffTransformsCount : Nat := 10
def kCutoffTransforms : Nat := 0x071b520ada2d3200

/-- index of the first position `i < n` at which the two byte lists differ -/
def firstDiffW (w word : List Nat) : Nat → Option Nat
  | 0 => none
  | n + 1 =>
    match firstDiffW w word n with
    | some i => some i
    | none => if w.getD n 0 ≠ word.getD n 0 then some n else none

/-- `FindMatchLengthWithLimit(data, &dictionary.data[offset..], len)` against the oracle's word -/
def dictMatchLen (data : ByteArray) (cm : Nat) (word : List Nat) (len : Nat) : Option Nat :=
  match win data cm len with
  | none => none
  | some w =>
    if word.length < len then none
    else some ((firstDiffW w word len).getD len)

/-- `TestStaticDictionaryItem`: `some out'` = returned 1, `none` inside = returned 0 -/
def testStaticDictionaryItem (lbs : Nat) (d : DictItem) (data : ByteArray) (cm maxLength
    maxBackward maxDistance : Nat) (out : SR) : Option (Option SR) :=
  let len := d.item &&& 0x1f
  let dist := d.item >>> 5
  if len ≥ 25 then none            -- `offsets_by_length[len]`: `[u32; 25]`
  else if len > maxLength then some none
  else
    match dictMatchLen data cm d.word len with
    | none => none
    | some matchlen =>
      if matchlen + kCutoffTransformsCount ≤ len ∨ matchlen = 0 then some none
      else
        let cut := len - matchlen
        let tid := (cut <<< 2) + ((kCutoffTransforms >>> (cut * 6)) &&& 0x3f)
        let backward := (maxBackward + dist + 1 + (tid <<< d.sizeBits)) % U64
        if backward > maxDistance then some none
        else
          let score := scoreBackward lbs matchlen backward
          if score < out.score then some none
          else some (some ⟨matchlen, len ^^^ matchlen, backward, score⟩)

/-- the `while i < (if shallow {1} else {2})` loop of `SearchInStaticDictionary` over the looked-up slots -/
def dictLoop (lbs : Nat) (data : ByteArray) (cm maxLength maxBackward maxDistance : Nat) :
    List DictItem → Bool → SR → Common → Option (Bool × SR × Common)
  | [], found, out, c => some (found, out, c)
  | d :: ds, found, out, c =>
    let c := { c with lookups := (c.lookups + 1) % U64 }
    if d.item ≠ 0 then
      match testStaticDictionaryItem lbs d data cm maxLength maxBackward maxDistance out with
      | none => none
      | some none => dictLoop lbs data cm maxLength maxBackward maxDistance ds found out c
      | some (some out') =>
        dictLoop lbs data cm maxLength maxBackward maxDistance ds true out'
          { c with hits := (c.hits + 1) % U64 }
    else dictLoop lbs data cm maxLength maxBackward maxDistance ds found out c

/-- `SearchInStaticDictionary(dictionary, hash, handle, &data[cm..], max_length, max_backward, max_distance, out, shallow)`;
`items` = the slots `dictionary_hash[key]`, `[key+1]` (one if shallow) for `key = Hash14(data) << 1` -/
def searchInStaticDictionary (lbs : Nat) (items : List DictItem) (data : ByteArray) (cm maxLength
    maxBackward maxDistance : Nat) (out : SR) (c : Common) : Option (Bool × SR × Common) :=
  if c.hits < c.lookups >>> 7 then some (false, out, c)
  else
    match win data cm 4 with        -- `Hash14(data)`: `BROTLI_UNALIGNED_LOAD32`
    | none => none
    | some _ => dictLoop lbs data cm maxLength maxBackward maxDistance items false out c

/-! ## BasicHasher::FindLongestMatch -/

namespace Basic

/-- the candidate test shared by the sweep loop iterations -/
structure LoopSt where
  bestScore : Nat
  bestLen : Nat
  cc : Nat          -- `compare_char`
  out : SR
  found : Bool
deriving Repr, Inhabited

/-- one iteration of `for prev_ix_ref in buckets[key..][..bucket_sweep]` -/
def sweepStep (lbs : Nat) (data : ByteArray) (mask curIx cm maxLength maxBackward : Nat) (prev : Nat)
    (s : LoopSt) : Option LoopSt :=
  let backward := wsub curIx prev
  let prevM := prev &&& (mask % U32)
  match byteAt data (prevM + s.bestLen) with
  | none => none
  | some b =>
    if s.cc ≠ b then some s
    else if backward = 0 ∨ backward > maxBackward then some s
    else
      match findMatchLengthWithLimitMin4 data prevM cm maxLength with
      | none => none
      | some len =>
        if len ≠ 0 then
          let score := scoreBackward lbs len backward
          if s.bestScore < score then
            match byteAt data (cm + len) with
            | none => none
            | some cc =>
              some { bestScore := score, bestLen := len, cc := cc,
                     out := { s.out with len := len, distance := backward, score := score }, found := true }
          else some s
        else some s

def sweepLoop (lbs : Nat) (data : ByteArray) (mask curIx cm maxLength maxBackward : Nat) (b : Tab)
    (key : Nat) : Nat → Nat → LoopSt → Option LoopSt
  | 0, _, s => some s
  | n + 1, j, s =>
    match rd b (key + j) with
    | none => none
    | some prev =>
      match sweepStep lbs data mask curIx cm maxLength maxBackward prev s with
      | none => none
      | some s => sweepLoop lbs data mask curIx cm maxLength maxBackward b key n (j + 1) s

/-- `fn FindLongestMatch` of `BasicHasher<T>`; `useDict` = `USE_DICTIONARY() != 0`,
`dict` = `dictionary.is_some()` together with the oracle's slots; `gap = 0` -/
def findLongestMatch (P : BasicP) (useDict : Bool) (lbs : Nat) (dict : Option (List DictItem))
    (data : ByteArray) (mask : Nat) (cache : List Int) (curIx maxLength maxBackward maxDistance : Nat)
    (out : SR) (b : Tab) (c : Common) : Option (Bool × SR × Tab × Common) :=
  let bestLenIn := out.len
  let cm := curIx &&& mask
  match BV.Hasher.Basic.hashAt P data cm with
  | none => none
  | some key =>
  match byteAt data (cm + bestLenIn) with
  | none => none
  | some cc0 =>
  match cache[0]? with
  | none => none
  | some c0 =>
  let cachedBackward := i32ToUsize c0
  let prevIx := wsub curIx cachedBackward
  let out := { out with lenXCode := 0 }
  -- phase 1: the last distance
  let phase1 : Option (Option (Bool × SR × Tab × Common) × LoopSt) :=
    if prevIx < curIx ∧ cachedBackward ≤ maxBackward then
      let prevM := prevIx &&& (mask % U32)
      match byteAt data (prevM + bestLenIn) with
      | none => none
      | some pb =>
        if cc0 = pb then
          match findMatchLengthWithLimitMin4 data prevM cm maxLength with
          | none => none
          | some len =>
            if len ≠ 0 then
              let score := scoreLast lbs len
              let out := { out with len := len, distance := cachedBackward, score := score }
              match byteAt data (cm + len) with
              | none => none
              | some cc =>
                if P.sweep = 1 then
                  match wr b key (curIx % U32) with
                  | none => none
                  | some b => some (some (true, out, b, c), ⟨score, len, cc, out, true⟩)
                else some (none, ⟨score, len, cc, out, true⟩)
            else some (none, ⟨out.score, bestLenIn, cc0, out, false⟩)
        else some (none, ⟨out.score, bestLenIn, cc0, out, false⟩)
    else some (none, ⟨out.score, bestLenIn, cc0, out, false⟩)
  match phase1 with
  | none => none
  | some (some r, _) => some r
  | some (none, s) =>
  -- phase 2: the bucket
  let phase2 : Option (Option (Bool × SR × Tab × Common) × LoopSt × Tab) :=
    if P.sweep = 1 then
      match rd b key with
      | none => none
      | some prev =>
        match wr b key (curIx % U32) with
        | none => none
        | some b =>
          let backward := wsub curIx prev
          let prevM := prev &&& (mask % U32)
          match byteAt data (prevM + bestLenIn) with
          | none => none
          | some pb =>
            if s.cc ≠ pb then some (some (false, s.out, b, c), s, b)
            else if backward = 0 ∨ backward > maxBackward then some (some (false, s.out, b, c), s, b)
            else
              match findMatchLengthWithLimitMin4 data prevM cm maxLength with
              | none => none
              | some len =>
                if len ≠ 0 then
                  let o : SR := { s.out with len := len, distance := backward, score := scoreBackward lbs len backward }
                  some (some (true, o, b, c), s, b)
                else some (none, s, b)
    else
      -- `self.buckets_.slice().split_at(key).1[..bucket_sweep]`
      if key + P.sweep ≤ b.size then
        match sweepLoop lbs data mask curIx cm maxLength maxBackward b key P.sweep 0 s with
        | none => none
        | some s => some (none, s, b)
      else none
  match phase2 with
  | none => none
  | some (some r, _, _) => some r
  | some (none, s, b) =>
  -- static dictionary
  let dictRes : Option (Bool × SR × Common) :=
    match dict with
    | some items =>
      if useDict ∧ ¬ s.found then
        searchInStaticDictionary lbs items data cm maxLength maxBackward maxDistance s.out c
      else some (s.found, s.out, c)
    | none => some (s.found, s.out, c)
  match dictRes with
  | none => none
  | some (found, out, c) =>
    if P.sweep = 0 then none          -- `wrapping_rem(0)`
    else
      match wr b (key + (curIx >>> 3) % P.sweep) (curIx % U32) with
      | none => none
      | some b => some (found, out, b, c)

end Basic

/-! ## AdvHasher::FindLongestMatch -/

namespace Adv

structure LoopSt where
  bestScore : Nat
  bestLen : Nat
  out : SR
  found : Bool
deriving Repr, Inhabited

/-- the guard `cur_ix_masked + best_len > mask || prev_ix + best_len > mask || cur_data[best_len] != data[prev_ix + best_len]`
(`none` = an index panicked; the byte reads happen only if the two range tests are false) -/
def guard (data : ByteArray) (mask cm prevM bestLen : Nat) : Option Bool :=
  if cm + bestLen > mask ∨ prevM + bestLen > mask then some true
  else
    match byteAt data (cm + bestLen), byteAt data (prevM + bestLen) with
    | some a, some b => some (a ≠ b)
    | _, _ => none

/-- a candidate of length `len` at cached distance number `i`: `if len >= 3 || (len == 2 && i < 2) { … }` -/
def cacheAccept (lbs i len backward : Nat) (s : LoopSt) : LoopSt :=
  if len ≥ 3 ∨ (len = 2 ∧ i < 2) then
    let score := scoreLast lbs len
    if s.bestScore < score then
      let score := if i ≠ 0 then wsub score (penaltyLast i) else score
      if s.bestScore < score then
        ⟨score, len, { s.out with len := len, distance := backward, score := score }, true⟩
      else s
    else s
  else s

/-- a candidate of length `len` from the bucket: `if len != 0 { if best_score < score { … } }` -/
def bucketAccept (lbs len backward : Nat) (s : LoopSt) : LoopSt :=
  if len ≠ 0 then
    let score := scoreBackward lbs len backward
    if s.bestScore < score then
      ⟨score, len, { s.out with len := len, distance := backward, score := score }, true⟩
    else s
  else s

/-- one iteration of the distance-cache loop -/
def cacheStep (lbs : Nat) (data : ByteArray) (mask curIx cm maxLength maxBackward : Nat)
    (cache : List Int) (i : Nat) (s : LoopSt) : Option LoopSt :=
  match cache[i]? with
  | none => none
  | some ci =>
    let backward := i32ToUsize ci
    let prevIx := wsub curIx backward
    if prevIx ≥ curIx ∨ backward > maxBackward then some s
    else
      let prevM := prevIx &&& mask
      match guard data mask cm prevM s.bestLen with
      | none => none
      | some true => some s
      | some false =>
        match findMatchLengthWithLimit data prevM cm maxLength with
        | none => none
        | some len => some (cacheAccept lbs i len backward s)

/-- the `while i > down` loop over the ring of the key's block; `bucketAt j` reads `bucket[j]` -/
def bucketLoop (lbs : Nat) (data : ByteArray) (mask curIx cm maxLength maxBackward blockMask : Nat)
    (bucket : Nat → Option Nat) : Nat → Nat → LoopSt → Option LoopSt
  | 0, _, s => some s
  | cnt + 1, i, s =>
    let i := i - 1
    match bucket (i &&& blockMask) with
    | none => none
    | some prev =>
      let backward := wsub curIx prev
      if backward = 0 then bucketLoop lbs data mask curIx cm maxLength maxBackward blockMask bucket cnt i s
      else
        let prevM := prev &&& mask
        match guard data mask cm prevM s.bestLen with
        | none => none
        | some true =>
          if backward > maxBackward then some s
          else bucketLoop lbs data mask curIx cm maxLength maxBackward blockMask bucket cnt i s
        | some false =>
          if backward > maxBackward then some s
          else
            match findMatchLengthWithLimitMin4 data prevM cm maxLength with
            | none => none
            | some len =>
              bucketLoop lbs data mask curIx cm maxLength maxBackward blockMask bucket cnt i
                (bucketAccept lbs len backward s)

/-- `fn FindLongestMatch` of `AdvHasher`; `numLast` = `params.num_last_distances_to_check` -/
def findLongestMatch (P : AdvP) (numLast lbs : Nat) (dict : Option (List DictItem))
    (data : ByteArray) (mask : Nat) (cache : List Int) (curIx maxLength maxBackward maxDistance : Nat)
    (out : SR) (st : AdvSt) (c : Common) : Option (Bool × SR × AdvSt × Common) :=
  match st with
  | ⟨num, buckets⟩ =>
  let cm := curIx &&& mask
  if cm > data.size then none        -- `data.split_at(cur_ix_masked)`
  else
  let s0 : LoopSt := ⟨out.score, out.len, { out with len := 0, lenXCode := 0 }, false⟩
  match forRange (cacheStep lbs data mask curIx cm maxLength maxBackward cache) 0 numLast s0 with
  | none => none
  | some s =>
  match BV.Hasher.Adv.hashAt P data cm with
  | none => none
  | some key =>
  match rd num key with
  | none => none
  | some n =>
  let blockSize := 1 <<< P.blockBits
  let start := (key <<< P.blockBits) % U32
  -- `split_at_mut(start).1.split_at_mut(block_size).0`, `assert!(bucket.len() > block_mask)`
  if start + blockSize > buckets.size ∨ blockSize ≤ P.blockMask then none
  else
  let bucketAt (j : Nat) : Option Nat := if j < blockSize then rd buckets (start + j) else none
  let down := if n > blockSize then n - blockSize else 0
  let loopRes := if n ≠ 0 then
      bucketLoop lbs data mask curIx cm maxLength maxBackward P.blockMask bucketAt (n - down) n s
    else some s
  match loopRes with
  | none => none
  | some s =>
  let slot := (n % U32) &&& P.blockMask
  if slot ≥ blockSize then none
  else
  match wr buckets (start + slot) (curIx % U32) with
  | none => none
  | some buckets =>
  match wr num key ((n + 1) % U16) with
  | none => none
  | some num =>
  match dict with
  | some items =>
    if ¬ s.found then
      match searchInStaticDictionary lbs items data cm maxLength maxBackward maxDistance s.out c with
      | none => none
      | some (found, out, c) => some (found, out, ⟨num, buckets⟩, c)
    else some (s.found, s.out, ⟨num, buckets⟩, c)
  | none => some (s.found, s.out, ⟨num, buckets⟩, c)

end Adv

/-! ## H9::FindLongestMatch -/

namespace H9

def kDistanceCacheIndex : List Nat := [0, 1, 2, 3, 0, 0, 0, 0, 0, 0, 1, 1, 1, 1, 1, 1]
def kDistanceCacheOffset : List Int := [0, 0, 0, 0, -1, 1, -2, 2, -3, 3, -1, 1, -2, 2, -3, 3]

abbrev LoopSt := Adv.LoopSt

/-- `if len >= 3 || (len == 2 && i < 2) { if best_score < score { … } }` of the H9 cache loop -/
def cacheAccept (lbs i len backward : Nat) (s : LoopSt) : LoopSt :=
  if len ≥ 3 ∨ (len = 2 ∧ i < 2) then
    let score := scoreLastH9 lbs len i
    if s.bestScore < score then
      ⟨score, len, { s.out with len := len, distance := backward, score := score }, true⟩
    else s
  else s

/-- one iteration of `for i in 0..H9_NUM_LAST_DISTANCES_TO_CHECK` -/
def cacheStep (lbs : Nat) (data : ByteArray) (mask curIx cm maxLength maxBackward : Nat)
    (cache : List Int) (i : Nat) (s : LoopSt) : Option LoopSt :=
  match cache[kDistanceCacheIndex.getD i 0]? with
  | none => none
  | some ci =>
    -- `(distance_cache[idx] as usize).wrapping_add(kDistanceCacheOffset[i] as usize)`
    let backward := (i32ToUsize ci + i32ToUsize (kDistanceCacheOffset.getD i 0)) % U64
    let prevIx := wsub curIx backward
    if prevIx ≥ curIx then some s
    else if backward > maxBackward then some s
    else
      let prevM := prevIx &&& mask
      match Adv.guard data mask cm prevM s.bestLen with
      | none => none
      | some true => some s
      | some false =>
        match findMatchLengthWithLimit data prevM cm maxLength with
        | none => none
        | some len => some (cacheAccept lbs i len backward s)

/-- loop state of the bucket scan: `prev_best_val` is carried along -/
structure ScanSt where
  s : LoopSt
  pbv : Nat
deriving Inhabited

/-- the `while i > down` loop of H9 -/
def bucketLoop (lbs : Nat) (data : ByteArray) (mask curIx cm maxLength maxBackward : Nat)
    (bucket : Nat → Option Nat) : Nat → Nat → ScanSt → Option ScanSt
  | 0, _, t => some t
  | cnt + 1, i, t =>
    let i := i - 1
    match bucket (i &&& BV.Hasher.H9.BLOCK_MASK) with
    | none => none
    | some prev =>
      let backward := wsub curIx prev
      if backward = 0 then bucketLoop lbs data mask curIx cm maxLength maxBackward bucket cnt i t
      else if backward > maxBackward then some t
      else
        let prevM := prev &&& mask
        -- `prev_ix + best_len > mask || prev_best_val != data[prev_ix + best_len]`
        let skip : Option Bool :=
          if prevM + t.s.bestLen > mask then some true
          else match byteAt data (prevM + t.s.bestLen) with
            | none => none
            | some b => some (t.pbv ≠ b)
        match skip with
        | none => none
        | some true => bucketLoop lbs data mask curIx cm maxLength maxBackward bucket cnt i t
        | some false =>
          match findMatchLengthWithLimit data prevM cm maxLength with
          | none => none
          | some len =>
            if len ≥ 4 then
              let score := scoreBackwardH9 lbs len backward
              if t.s.bestScore < score then
                let s' : LoopSt := ⟨score, len, { t.s.out with len := len, distance := backward, score := score }, true⟩
                if cm + len > mask then some ⟨s', t.pbv⟩       -- `break`
                else
                  match byteAt data (cm + len) with
                  | none => none
                  | some v => bucketLoop lbs data mask curIx cm maxLength maxBackward bucket cnt i ⟨s', v⟩
              else bucketLoop lbs data mask curIx cm maxLength maxBackward bucket cnt i t
            else bucketLoop lbs data mask curIx cm maxLength maxBackward bucket cnt i t

/-- `fn FindLongestMatch` of `H9` -/
def findLongestMatch (P : H9P) (lbs : Nat) (dict : Option (List DictItem))
    (data : ByteArray) (mask : Nat) (cache : List Int) (curIx maxLength maxBackward maxDistance : Nat)
    (out : SR) (st : AdvSt) (c : Common) : Option (Bool × SR × AdvSt × Common) :=
  match st with
  | ⟨num, buckets⟩ =>
  let cm := curIx &&& mask
  let s0 : LoopSt := ⟨out.score, out.len, { out with lenXCode := 0 }, false⟩
  match forRange (cacheStep lbs data mask curIx cm maxLength maxBackward cache) 0 16 s0 with
  | none => none
  | some s =>
  let scan : Option (LoopSt × Tab × Tab) :=
    if maxLength ≥ 4 ∧ cm + s.bestLen ≤ mask then
      match win data cm 4 with          -- `HashBytes(data.split_at(cur_ix_masked).1)`
      | none => none
      | some w =>
        let key := P.hash w % U32
        let start := key <<< BV.Hasher.H9.BLOCK_BITS
        -- `split_at_mut(key << 8).1.split_at_mut(256).0`; the two asserts are then true
        if start + 256 > buckets.size then none
        else
          match rd num key with
          | none => none
          | some n =>
            let bucketAt (j : Nat) : Option Nat := if j < 256 then rd buckets (start + j) else none
            let down := if n > 256 then n - 256 else 0
            match byteAt data (cm + s.bestLen) with
            | none => none
            | some pbv =>
              match bucketLoop lbs data mask curIx cm maxLength maxBackward bucketAt (n - down) n ⟨s, pbv⟩ with
              | none => none
              | some t =>
                match wr buckets (start + (n &&& BV.Hasher.H9.BLOCK_MASK)) (curIx % U32) with
                | none => none
                | some buckets =>
                  match wr num key ((n + 1) % U16) with
                  | none => none
                  | some num => some (t.s, num, buckets)
    else some (s, num, buckets)
  match scan with
  | none => none
  | some (s, num, buckets) =>
  match dict with
  | some items =>
    if ¬ s.found then
      if cm > data.size then none       -- `data.split_at(cur_ix_masked)`
      else
      match searchInStaticDictionary lbs items data cm maxLength maxBackward maxDistance s.out c with
      | none => none
      | some (found, out, c) => some (found, out, ⟨num, buckets⟩, c)
    else some (s.found, s.out, ⟨num, buckets⟩, c)
  | none => some (s.found, s.out, ⟨num, buckets⟩, c)

end H9

/-! ## from a search result to a command -/

/-- `ComputeDistanceCode(distance, max_distance, dist_cache)` -/
def computeDistanceCode (distance maxDistance : Nat) (cache : List Int) : Option Nat :=
  match cache[0]?, cache[1]?, cache[2]?, cache[3]? with
  | some c0, some c1, some c2, some c3 =>
    let short : Option Nat :=
      if distance ≤ maxDistance then
        let d3 := (distance + 3) % U64
        let offset0 := wsub d3 (i32ToUsize c0)
        let offset1 := wsub d3 (i32ToUsize c1)
        if distance = i32ToUsize c0 then some 0
        else if distance = i32ToUsize c1 then some 1
        else if offset0 < 7 then some ((0x09750468 >>> (4 * offset0)) &&& 0xf)
        else if offset1 < 7 then some ((0x0fdb1ace >>> (4 * offset1)) &&& 0xf)
        else if distance = i32ToUsize c2 then some 2
        else if distance = i32ToUsize c3 then some 3
        else none
      else none
    match short with
    | some c => some c
    | none => some ((distance + 16 + U64 - 1) % U64)     -- `distance.wrapping_add(16).wrapping_sub(1)`
  | _, _, _, _ => none

/-- `Command::init(dist, insertlen, copylen, copylen_code, distance_code)` -/
def commandInit (np nd insertLen copyLen copyLenCode distanceCode : Nat) : Cmd :=
  let dc := prefixEncodeCopyDistance distanceCode nd np
  { insertLen := insertLen % U32
    copyLenField := packCopyLen copyLen copyLenCode
    distExtra := dc.extra32
    distPrefix := dc.packed
    cmdPrefix := getLengthCode insertLen copyLenCode (dc.packed &&& 0x3ff == 0) }

/-- the part of `CreateBackwardReferences` after a search result `sr` has been accepted at
`position` with `insert_length` pending literals: distance code, cache update, command.
(`as i32` of the stored distance is `toI32`.) -/
def emitCommand (np nd : Nat) (position maxBackwardLimit insertLength : Nat) (sr : SR) (cache : List Int) :
    Option (Cmd × List Int) :=
  let maxDistance := min position maxBackwardLimit
  match computeDistanceCode sr.distance maxDistance cache with
  | none => none
  | some code =>
    let cache' :=
      if sr.distance ≤ maxDistance ∧ code > 0 then
        match cache with
        | c0 :: c1 :: c2 :: _ :: rest => toI32 sr.distance :: c0 :: c1 :: c2 :: rest
        | _ => cache
      else cache
    some (commandInit np nd insertLength sr.len (sr.len ^^^ sr.lenXCode) code, cache')

end BV.MatchFinder
