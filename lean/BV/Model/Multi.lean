/-
M10 `Multi` — executable model of multi-threaded compression
(`src/enc/threading.rs`: `get_range`, `compress_part`, `CompressMulti`;
`src/enc/multithreading.rs` thread-per-job spawner, `src/enc/singlethreading.rs`
inline spawner, `src/enc/worker_pool.rs` pool spawner (its queue discipline is
`BV.Pool`; here only what `CompressMulti` sees of it), `src/enc/encode.rs`
`BrotliEncoderMaxCompressedSize(+Multi)` and the position arithmetic of
`set_custom_dictionary_with_optional_precomputed_hasher`).

Conventions
* `usize = u64`; `*` / `+` / `-` overflow is a panic (debug build); the
  release-build wrapping variant of `get_range` is `getRangeWrap`.
* The single-stream encoder is an ORACLE: per job a recorded list of
  `compress_stream` answers (`EncAns`) for `compress_part`, and per job a
  recorded result (`JobRes`) for `CompressMulti`.
* The concatenator is `BV.Concat` (nothing assumed).
* `&mut output` → the list of bytes written so far (`out`, its length is
  `out_file_size`), `output.len()` → `cap`.
* The input ownership token: `returned = true` iff `*owned_input` is
  `InternalOwned::Item(..)` again when the function returns.
-/
import BV.Model.Concat

namespace BV.Multi

def U64 : Nat := 2 ^ 64

/-- panic sites of this model -/
inductive Site where
  | rangeMul            -- `thread_index * file_size` / `(thread_index + 1) * file_size` overflow (debug)
  | rangeDiv            -- `/ num_threads` with 0
  | rangeSub            -- `range.end - range.start`
  | dictSlice           -- `input[..range.start]`
  | inSlice             -- `input[range.clone()]` with start > end
  | memSlice            -- the encoder was handed more room than `mem` has
  | encoder             -- `compress_stream` (or the dictionary call) panicked inside a job
  | noThreads           -- `alloc_per_thread[num_threads - 1]` with `num_threads = 0`
  | poolAssert          -- `assert!(num_threads <= MAX_THREADS)` in the pool's `spawn`
  | jobOnCaller (i : Nat) -- job `i` panicked on the calling thread (last job; every job of the inline spawner)
  | notSpawned          -- `panic!("Thread not properly spawned")`
  | viewUnwrap          -- inline spawner: `read().unwrap()` on a poisoned lock
  | concat (s : BV.Concat.Site)
  deriving DecidableEq, Repr

inductive Res (α : Type) where
  | panic (s : Site) : Res α
  /-- the call never returns (pool: a job panicked in a worker, its `join` waits for ever;
  `compress_part`: its `loop` spins) -/
  | hang : Res α
  | ok (v : α) : Res α
  deriving Repr, DecidableEq

namespace Res
@[inline] def bind {α β : Type} (x : Res α) (f : α → Res β) : Res β :=
  match x with
  | panic s => panic s
  | hang => hang
  | ok v => f v
end Res
open Res

/-! ## `get_range` -/

/-- `get_range(thread_index, num_threads, file_size)`, debug build (overflow panics) -/
def getRange (i t n : Nat) : Res (Nat × Nat) :=
  if i * n ≥ U64 then panic .rangeMul else
  if t = 0 then panic .rangeDiv else
  if i + 1 ≥ U64 then panic .rangeMul else
  if (i + 1) * n ≥ U64 then panic .rangeMul else
  ok (i * n / t, (i + 1) * n / t)

/-- release build: wrapping multiplication (division by 0 still panics) -/
def getRangeWrap (i t n : Nat) : Res (Nat × Nat) :=
  if t = 0 then panic .rangeDiv else
  ok (i * n % U64 / t, ((i + 1) % U64) * n % U64 / t)

/-! ## `BrotliEncoderMaxCompressedSize(+Multi)` (all `wrapping_*` on u64) -/

def maxCompressedSize (n : Nat) : Nat :=
  let magic := 16
  let numLargeBlocks := n >>> 14
  let tail := (n + U64 - (numLargeBlocks <<< 24) % U64) % U64
  let tailOverhead := if tail > 1 <<< 20 then 4 else 3
  let overhead := (2 + (4 * numLargeBlocks) % U64 + tailOverhead + 1) % U64
  let result := (n + overhead) % U64
  if n = 0 then 1 + magic
  else if result < n then 0
  else result + magic

/-- `BrotliEncoderMaxCompressedSizeMulti` (`+`, `*` are checked in debug; they cannot overflow
for sizes < 2^62, see `Lemmas/MultiBound`) -/
def maxCompressedSizeMulti (n t : Nat) : Nat := maxCompressedSize n + t * 8

/-! ## `set_custom_dictionary_with_optional_precomputed_hasher`: what is kept, where positions start -/

structure DictPlan where
  /-- the encoder uses the dictionary (`custom_dictionary = true`) -/
  used : Bool
  /-- how many leading bytes of the prefix are dropped -/
  dropped : Nat
  /-- how many bytes are copied into the ring buffer = position of the first input byte
  (`last_processed_pos_ = last_flush_pos_ = dict_size`) -/
  kept : Nat
  deriving DecidableEq, Repr

/-- `size` = prefix length, `lgwin` = the SANITISED window (`ensure_initialized` has run:
10..30), `quality` (sanitised); `max_dict_size = (1usize << lgwin).wrapping_sub(16)` -/
def dictPlan (size lgwin quality : Nat) : DictPlan :=
  let maxDict := 2 ^ lgwin - 16
  if size = 0 ∨ quality = 0 ∨ quality = 1 then ⟨false, 0, 0⟩
  else if size > maxDict then ⟨true, size - maxDict, maxDict⟩
  else ⟨true, 0, size⟩

/-! ## `compress_part` with the encoder as an oracle -/

/-- one `compress_stream(FINISH, …)` call as observed: return value, `state.is_finished()`
after the call, `next_in_offset` after the call, bytes written to `mem` by the call -/
structure CallAns where
  result : Bool
  finished : Bool
  consumed : Nat
  produced : List Nat
  deriving DecidableEq, Repr

inductive EncAns where
  | panic
  | ans (a : CallAns)
  deriving DecidableEq, Repr

/-- what a job hands to the stitcher: `CompressionThreadResult.compressed` -/
inductive JobRes where
  | ok (bytes : List Nat)
  | err            -- `Err(BrotliEncoderThreadError::InsufficientOutputSpace)`
  | panic          -- the job function panicked
  | spin           -- the job's `loop` never ends
  deriving DecidableEq, Repr

/-- the `loop` of `compress_part`: `availIn = range.end - range.start`, `availOut`,
`acc = mem[..out_offset]`; the recorded answers are consumed one per iteration (no answer
left = the loop is still running when the record ends: `spin`) -/
def partLoop : List EncAns → (availIn availOut : Nat) → (acc : List Nat) → Res JobRes
  | [], _, _, _ => ok .spin
  | .panic :: _, _, _, _ => panic .encoder
  | .ans a :: rest, availIn, availOut, acc =>
    if a.produced.length > availOut then panic .memSlice else
    -- `range.start + next_in_offset .. range.end` is sliced on the next iteration
    if a.consumed > availIn then panic .inSlice else
    let availOut := availOut - a.produced.length
    let acc := acc ++ a.produced
    if a.result ∧ a.finished then ok (.ok acc)
    else if a.result ∨ availOut = 0 then ok .err
    else partLoop rest (availIn - a.consumed) availOut acc

/-- `compress_part(hasher, thread_index, num_threads, &(input, params), alloc)`; `n` = input
length.  A panic of the job is reported as `JobRes.panic` (who sees it depends on the spawner). -/
def compressPart (i t n : Nat) (calls : List EncAns) : JobRes :=
  match getRange i t n with
  | .panic _ => .panic
  | .hang => .spin
  | .ok (lo, hi) =>
    if hi < lo then .panic else
    if i ≠ 0 ∧ lo > n then .panic else      -- `&input[..range.start]`
    if hi > n then .panic else               -- `&input[range.clone()]`
    match partLoop calls (hi - lo) (maxCompressedSize (hi - lo)) [] with
    | .panic _ => .panic
    | .hang => .spin
    | .ok r => r

/-! ## `CompressMulti` -/

inductive Spawner where
  | threads    -- `MultiThreadedSpawner`: `std::thread::spawn` per job
  | pool       -- `WorkerPool`
  | inline     -- `SingleThreadedSpawner`: the job runs inside `spawn`
  deriving DecidableEq, Repr

/-- `BrotliEncoderThreadError` -/
inductive TErr where
  | insufficient
  | notFull                 -- `ConcatenationDidNotProcessFullFile` (never constructed by the code)
  | concat (code : Nat)
  | finalization (code : Nat)
  | otherPanic
  | threadExec
  deriving DecidableEq, Repr

structure MultiRet where
  /-- `Ok(k)` / `Err(e)` -/
  result : Except TErr Nat
  /-- `output[..out_file_size]` as left by the call -/
  out : List Nat
  /-- the input token is back in `owned_input` -/
  returned : Bool
  deriving Repr

instance : DecidableEq (Except TErr Nat) := fun a b =>
  match a, b with
  | .ok x, .ok y => if h : x = y then isTrue (by rw [h]) else isFalse (by intro e; cases e; exact h rfl)
  | .error x, .error y => if h : x = y then isTrue (by rw [h]) else isFalse (by intro e; cases e; exact h rfl)
  | .ok _, .error _ => isFalse (by intro e; cases e)
  | .error _, .ok _ => isFalse (by intro e; cases e)

instance : DecidableEq MultiRet := fun a b =>
  if h : a.result = b.result ∧ a.out = b.out ∧ a.returned = b.returned then
    isTrue (by cases a; cases b; simp_all)
  else isFalse (by intro e; apply h; rw [e]; exact ⟨rfl, rfl, rfl⟩)

/-- loop-carried values of the stitch loop -/
structure Acc where
  /-- `compression_result` -/
  res : Except TErr Nat
  /-- `output[..out_file_size]` -/
  out : List Nat
  /-- `bro_cat_li` -/
  cat : BV.Concat.State
  deriving Repr

/-- `match cat_result { Success | NeedsMoreInput => Ok(out_file_size), NeedsMoreOutput =>
Err(InsufficientOutputSpace), err => Err(ConcatenationError(err)) }` -/
def codeToRes (code outLen : Nat) : Except TErr Nat :=
  if code = BV.Concat.SUCCESS ∨ code = BV.Concat.NEEDS_MORE_INPUT then .ok outLen
  else if code = BV.Concat.NEEDS_MORE_OUTPUT then .error .insufficient
  else .error (.concat code)

/-- the splice of one member: `new_brotli_file()`, then
`stream(bytes, &mut 0, output, &mut out_file_size)` (free room = `cap - out_file_size`) -/
def stitchOk (cap : Nat) (a : Acc) (bytes : List Nat) : Res Acc :=
  match BV.Concat.stream (BV.Concat.newBrotliFile a.cat) bytes (cap - a.out.length) with
  | .panic s => panic (.concat s)
  | .ok r => ok ⟨codeToRes r.code (a.out ++ r.produced).length, a.out ++ r.produced, r.st⟩

/-- what the stitch loop obtains for index `i < t - 1` from `join()` -/
inductive Joined where
  | ok (bytes : List Nat)
  | err                   -- the job returned `Err(InsufficientOutputSpace)`
  | execErr               -- thread-per-job: the thread panicked → `Err(ThreadExecError)`
  | never                 -- `join` does not return (pool: the worker died, the result is never
                          --  published; any spawner: the job spins)
  deriving DecidableEq, Repr

/-- the three spawners as "what `join` of the handle of job `i` yields": the pool by
`BV.Props.C07.join_returns_own` (the handle of index `i` yields job `i`'s value under
every schedule); the inline spawner ran the job inside `spawn` (its panics are handled in
`compressMulti`, they never reach `join`) -/
def joined (sp : Spawner) (r : JobRes) : Joined :=
  match r with
  | .ok b => .ok b
  | .err => .err
  | .panic => (match sp with | .threads => .execErr | _ => .never)
  | .spin => .never

/-- the `Ok(compressed_out)` arm: the splice runs only while `compression_result` is `Ok`
(the first failure is final; later jobs are only joined and freed) -/
def stitchArm (cap : Nat) (a : Acc) (bytes : List Nat) : Res Acc :=
  match a.res with
  | .ok _ => stitchOk cap a bytes
  | .error _ => ok a

/-- the `Err(e)` arm -/
def errArm (a : Acc) : Acc :=
  match a.res with
  | .ok _ => { a with res := .error .insufficient }
  | .error _ => a

/-- the stitch loop over the joined results of jobs `0 .. t-2`; `.inr e` = the early
`return Err(e)` from inside the loop (a job thread panicked) -/
def stitch (cap : Nat) : List Joined → Acc → Res (Acc ⊕ TErr)
  | [], a => ok (.inl a)
  | j :: js, a =>
    match j with
    | .never => hang
    | .execErr => ok (.inr .threadExec)
    | .ok bytes => (stitchArm cap a bytes).bind fun a' => stitch cap js a'
    | .err => stitch cap js (errArm a)

/-- a job that runs on the calling thread: its panic is the caller's panic -/
def onCaller (i : Nat) (r : JobRes) : Res JobRes :=
  match r with
  | .panic => panic (.jobOnCaller i)
  | .spin => hang
  | r => ok r

/-- the inline spawner runs jobs `0 .. t-2` inside `spawn`, in index order -/
def inlineSpawns (jobs : Nat → JobRes) : List Nat → Res Unit
  | [] => ok ()
  | i :: is => (onCaller i (jobs i)).bind fun _ => inlineSpawns jobs is

/-- `match finish(..) { Success => Ok(out_file_size), err => Err(ConcatenationFinalizationError(err)) }` -/
def finishRes (code outLen : Nat) : Except TErr Nat :=
  if code = BV.Concat.SUCCESS then .ok outLen else .error (.finalization code)

/-- the code after the stitch loop: `finish` if nothing failed, then the hand-back
(`spawner_and_input.unwrap()` succeeds: every job has been joined — pool:
`BV.Props.C07.arc_one_after_all_joined`) -/
def finishUp (cap : Nat) (a : Acc) : Res MultiRet :=
  match a.res with
  | .error e => ok ⟨.error e, a.out, true⟩
  | .ok _ =>
    match BV.Concat.finish a.cat (cap - a.out.length) with
    | .panic s => panic (.concat s)
    | .ok f => ok ⟨finishRes f.code (a.out ++ f.produced).length, a.out ++ f.produced, true⟩

/-- the last iteration of the stitch loop (index `t-1`: the local result) -/
def stitchLast (cap : Nat) (a : Acc) (lr : JobRes) : Res Acc :=
  match lr with
  | .ok bytes => stitchArm cap a bytes
  | _ => ok (errArm a)

/-- `compression_result = Ok(0)`, `out_file_size = 0`, `BroCatli::new()` -/
def acc0 : Acc := ⟨.ok 0, [], BV.Concat.State.new⟩

/-- `CompressMulti(params, owned_input, output, alloc_per_thread, spawner)`.
`t = alloc_per_thread.len()`, `jobs i` = result of `compress_part` for index `i` (computed with
the shared pre-built hasher when `favor_cpu_efficiency ∧ t > 1 ∧ i > 0` — the flag has no
other influence on the control flow), `cap = output.len()`.
`OwnedRetriever::view` never fails: the `RwLock` is only ever read-locked and a read guard
does not poison, so the two `return Err(OtherThreadPanic)` after a failed `view` are dead.
The remaining early return — `join()` answered `Err` because a job thread panicked — leaves
the input with the still running jobs (`returned = false`). -/
def compressMulti (sp : Spawner) (t : Nat) (jobs : Nat → JobRes) (cap : Nat) : Res MultiRet :=
  if t = 0 then panic .noThreads else
  -- pool: `assert!(num_threads <= MAX_THREADS)` at the first spawn
  if sp = .pool ∧ t > 1 ∧ t > BV.Gen.MAX_THREADS then panic .poolAssert else
  -- jobs 0 .. t-2 are spawned (inline: run here), job t-1 runs on the calling thread
  (if sp = .inline then inlineSpawns jobs (List.range (t - 1)) else ok ()).bind fun _ =>
  (onCaller (t - 1) (jobs (t - 1))).bind fun last =>
  let js := ((List.range (t - 1)).map jobs).map (joined sp)
  (stitch cap js acc0).bind fun r =>
  match r with
  | .inr e => ok ⟨.error e, [], false⟩          -- `return Err(err)` inside the loop
  | .inl a => (stitchLast cap a last).bind fun a => finishUp cap a

/-! ## the aggregation as it was before the corrections e1db7f0 (hand-back) and 19df515
(first error final) — kept for the regression theorems of C02 -/

/-- stitch loop in which every iteration overwrites `compression_result` -/
def stitchV0 (cap : Nat) : List Joined → Acc → Res (Acc ⊕ TErr)
  | [], a => ok (.inl a)
  | j :: js, a =>
    match j with
    | .never => hang
    | .execErr => ok (.inr .threadExec)
    | .ok bytes => (stitchOk cap a bytes).bind fun a' => stitchV0 cap js a'
    | .err => stitchV0 cap js { a with res := .error .insufficient }

/-- `compression_result?;` before `finish` and before the hand-back -/
def finishUpV0 (cap : Nat) (a : Acc) : Res MultiRet :=
  match a.res with
  | .error e => ok ⟨.error e, a.out, false⟩
  | .ok _ => finishUp cap a

def compressMultiV0 (sp : Spawner) (t : Nat) (jobs : Nat → JobRes) (cap : Nat) : Res MultiRet :=
  if t = 0 then panic .noThreads else
  if sp = .pool ∧ t > 1 ∧ t > BV.Gen.MAX_THREADS then panic .poolAssert else
  (if sp = .inline then inlineSpawns jobs (List.range (t - 1)) else ok ()).bind fun _ =>
  (onCaller (t - 1) (jobs (t - 1))).bind fun last =>
  let js := ((List.range (t - 1)).map jobs).map (joined sp)
  (stitchV0 cap js ⟨.error .insufficient, [], BV.Concat.State.new⟩).bind fun r =>
  match r with
  | .inr e => ok ⟨.error e, [], false⟩
  | .inl a =>
    (match last with
     | .ok bytes => stitchOk cap a bytes
     | _ => ok { a with res := .error .insufficient }).bind fun a => finishUpV0 cap a

end BV.Multi
