/-
M6 `Stored` — the advertised size bound, the stored (uncompressed) stream and the
decision logic of the one-shot call (C08).

Mirrors, from `src/enc/encode.rs`: `BrotliEncoderMaxCompressedSize`,
`BrotliEncoderMaxCompressedSizeMulti`, `MakeUncompressedStream`,
`encoder_compress` (everything except the stream phase, which is an arbitrary
`StreamOutcome`).  Integer literals come from `BV.Gen.lits_*` (harvested from
the Rust source in source order).  `usize = u64`: `wrapping_*` and `<<` are
taken `mod 2^64`; the two plain `+` that can overflow are reported separately
(`…Overflows`: a panic in a debug build, a wrap in a release build).
-/
import BV.Gen.Source
import BV.Model.Bits
import BV.Model.Header

namespace BV.Stored
open BV.Bits BV.Bits.Out BV.Header

def W64 : Nat := 2 ^ 64

/-! ## `BrotliEncoderMaxCompressedSize`
literals `[16, 14, 24, 1, 20, 4, 3, 2, 4, 1, 0, 1, 0]` -/

def litsMax := BV.Gen.lits_MaxCompressedSize

/-- the value `result` of the function body (before the final `+ magic_size`) -/
def maxResult (inputSize : Nat) : Nat :=
  let numLargeBlocks := inputSize >>> lit litsMax 1
  let tail := (inputSize + W64 - (numLargeBlocks <<< lit litsMax 2) % W64) % W64
  let tailOverhead := if tail > (lit litsMax 3) <<< (lit litsMax 4) then lit litsMax 5 else lit litsMax 6
  let overhead := (lit litsMax 7 + (lit litsMax 8 * numLargeBlocks) % W64 + tailOverhead + lit litsMax 9) % W64
  (inputSize + overhead) % W64

/-- `BrotliEncoderMaxCompressedSize(input_size)` as computed by a release build
(`overflow-checks = false`) -/
def maxCompressedSize (inputSize : Nat) : Nat :=
  let magicSize := lit litsMax 0
  let result := maxResult inputSize
  if inputSize = lit litsMax 10 then lit litsMax 11 + magicSize
  else if result < inputSize then lit litsMax 12
  else (result + magicSize) % W64

/-- the final `result + magic_size` exceeds `usize` (debug build: panic) -/
def maxCompressedSizeOverflows (inputSize : Nat) : Bool :=
  inputSize ≠ lit litsMax 10 && !(maxResult inputSize < inputSize) &&
    decide (maxResult inputSize + lit litsMax 0 ≥ W64)

/-- `BrotliEncoderMaxCompressedSizeMulti(input_size, num_threads)` (release build) -/
def maxCompressedSizeMulti (inputSize numThreads : Nat) : Nat :=
  (maxCompressedSize inputSize + (numThreads * lit BV.Gen.lits_MaxCompressedSizeMulti 0) % W64) % W64

/-! ## `MakeUncompressedStream`
literals `[0,0,0, 0, 6, 1, 0x21, 1, 3, 1, 0, 0, 1,24, 1,24, 1,16, 1,20, 2, 1, 1, 1,3, 1,19,4, 1, 8, 1, 16, 1, 2, 24, 1, 3, 1]` -/

def litsMus := BV.Gen.lits_MakeUncompressedStream

/-- `output[result] = v` with `output.len() = cap`: out of range is a panic -/
@[inline] def push (cap : Nat) (out : List Nat) (v : Nat) : Out (List Nat) :=
  if out.length < cap then ok (out ++ [v]) else panic

/-- `slice[a .. a + n]` of a list; out of range is a panic -/
def slice (l : List Nat) (a n : Nat) : Out (List Nat) :=
  if a + n ≤ l.length then ok ((l.drop a).take n) else panic

/-- the 3- or 4-byte meta-block header of one chunk:
`bits = nibbles << 1 | (chunk_size - 1) << 3 | 1 << (19 + 4 * nibbles)` (all `u32`) -/
def chunkHeader (chunkSize : Nat) : Nat × Nat :=
  let nibbles :=
    if chunkSize > (lit litsMus 16) <<< (lit litsMus 17) then
      (if chunkSize > (lit litsMus 18) <<< (lit litsMus 19) then lit litsMus 20 else lit litsMus 21)
    else lit litsMus 11
  let bits := ((nibbles <<< lit litsMus 22) % 2 ^ 32)
    ||| (((chunkSize + 2 ^ 32 - lit litsMus 23) % 2 ^ 32) <<< lit litsMus 24) % 2 ^ 32
    ||| ((lit litsMus 25) <<< ((lit litsMus 26 + (lit litsMus 27 * nibbles) % 2 ^ 32) % 2 ^ 32)) % 2 ^ 32
  (nibbles, bits)

/-- the `while size > 0` loop; `out` = the `result` bytes written so far -/
def musLoop (cap : Nat) (input : List Nat) (size offset : Nat) (out : List Nat) : Out (List Nat) :=
  if h : size > 0 then
    let chunkSize := if size > (lit litsMus 12) <<< (lit litsMus 13) then (lit litsMus 14) <<< (lit litsMus 15)
                     else size % 2 ^ 32
    let nibbles := (chunkHeader chunkSize).1
    let bits := (chunkHeader chunkSize).2
    (push cap out (bits % 256)).bind fun out =>
    (push cap out ((bits >>> lit litsMus 29) % 256)).bind fun out =>
    (push cap out ((bits >>> lit litsMus 31) % 256)).bind fun out =>
    (if nibbles = lit litsMus 33 then push cap out ((bits >>> lit litsMus 34) % 256) else ok out).bind fun out =>
    -- `output[result..result + chunk].clone_from_slice(&input[offset..offset + chunk])`
    if out.length + chunkSize > cap then panic else
    (slice input offset chunkSize).bind fun data =>
    if _hc : chunkSize = 0 ∨ chunkSize > size then fuel   -- cannot happen (`BV.Stored.musLoop_ok`); keeps the recursion well-founded
    else musLoop cap input (size - chunkSize) (offset + chunkSize) (out ++ data)
  else
    push cap out (lit litsMus 36)
termination_by size
decreasing_by omega

/-- `MakeUncompressedStream(input, input_size, output)` with `output.len() = cap`:
the bytes `output[..result]` -/
def makeUncompressedStream (input : List Nat) (inputSize cap : Nat) : Out (List Nat) :=
  if inputSize = lit litsMus 2 then
    push cap [] (lit litsMus 4)
  else
    (push cap [] (lit litsMus 6)).bind fun out =>
    (push cap out (lit litsMus 8)).bind fun out =>
    musLoop cap input inputSize 0 out

/-! ## `encoder_compress`: decision logic -/

/-- everything the stream phase (`compress_stream(FINISH)` on a fresh encoder
with `available_out = *encoded_size`) can report -/
structure StreamOutcome where
  /-- return value of `compress_stream` -/
  result : Bool
  /-- `s.is_finished()` afterwards -/
  finished : Bool
  /-- `total_out`: number of bytes the stream phase put into the caller's buffer -/
  totalOut : Nat
  /-- those bytes -/
  bytes : List Nat
deriving Repr

/-- what the call returns -/
structure OneShot where
  ret : Bool
  /-- `*encoded_size` on return -/
  encodedSize : Nat
  /-- the first `encodedSize` bytes of the output buffer -/
  bytes : List Nat
  /-- which branch produced them -/
  kind : String
deriving Repr

/-- `encoder_compress(…, input_size, input_buffer, encoded_size = outSize, encoded_buffer, …)`;
`bufLen = encoded_buffer.len()` (the C ABI wrapper makes it equal to `outSize`).
literals `[0, 0, 1, 0, 6, 10, 9, 10, …]`. -/
def encoderCompress (input : List Nat) (inputSize outSize bufLen : Nat) (so : StreamOutcome) : Out OneShot :=
  let l := BV.Gen.lits_encoder_compress
  let maxOutSize := maxCompressedSize inputSize
  if outSize = lit l 0 then ok { ret := false, encodedSize := outSize, bytes := [], kind := "zero-cap" }
  else if inputSize = lit l 1 then
    -- `*encoded_size = 1; output_start[0] = 6;`
    if bufLen = 0 then panic
    else ok { ret := true, encodedSize := lit l 2, bytes := [lit l 4], kind := "empty" }
  else
    let result := so.result && so.finished
    let encodedSize := so.totalOut
    if !result || (maxOutSize ≠ 0 && decide (encodedSize > maxOutSize)) then
      -- fallback
      if maxOutSize = 0 then ok { ret := false, encodedSize := 0, bytes := [], kind := "no-bound" }
      else if outSize ≥ maxOutSize then
        (makeUncompressedStream input inputSize bufLen).bind fun st =>
        ok { ret := true, encodedSize := st.length, bytes := st, kind := "stored" }
      else ok { ret := false, encodedSize := 0, bytes := [], kind := "too-small" }
    else ok { ret := true, encodedSize := encodedSize, bytes := so.bytes, kind := "stream" }

/-- the parameters `encoder_compress` sets on its private encoder before the stream
phase: `quality` (10 is run as 9 with the q9.5 hasher), `lgwin`, mode, `size_hint =
input_size as u32`, and `large_window` when `lgwin > BROTLI_MAX_WINDOW_BITS`
(literals 5, 6 of the function: `10`, `9`; the window limit is the generated constant) -/
def oneshotParams (quality lgwin : Int) (inputSize : Nat) : Params :=
  let l := BV.Gen.lits_encoder_compress
  { quality := if quality = (lit l 5 : Int) then (lit l 6 : Int) else quality,
    lgwin := lgwin, lgblock := 0,
    largeWindow := decide (lgwin > (BV.Gen.BROTLI_MAX_DISTANCE_BITS : Int)),
    catable := false, appendable := false, useDictionary := true, magicNumber := false,
    sizeHint := inputSize % 2 ^ 32 }

/-! ## `WriteMetaBlockInternal`: which representation a meta-block gets (size decision)

literals `[16, 0, 2,3, 7,7, 4,4, 3, 1, 8, 2, 4, 10, 1, 0, 4, 4, 3, 4,4, 1, 8]`: entry 1 the
`bytes == 0` test, 2‥5 the empty last block, 8 and 18 the `>> 3`, 17 the `4` of
`bytes + 4 + saved_byte_location < (*storage_ix >> 3)`. -/

def litsWmbi := BV.Gen.lits_WriteMetaBlockInternal

/-- the two things the un-modelled payload coder decides for one meta-block: the verdict of
`should_compress`, and the bits the compressed attempt (`store_meta_block_fast` /
`store_meta_block_trivial` / `store_meta_block`) appended behind the storage position —
an ARBITRARY bit string as far as this model is concerned -/
structure MbOracle where
  shouldCompress : Bool
  attempt : List Bool
deriving Repr

/-- storage after the call: `body` = up to and including the meta-block that carries the
data; `fin` = what the function leaves (`body` plus the separate empty last meta-block,
when one is written) -/
structure MbOut where
  body : Writer
  fin : Writer
deriving Repr

/-- `WriteMetaBlockInternal(…, bytes = data.length, is_last = actualIsLast, params, …,
storage_ix = w.length, storage)`: the size decision only.

* `appendable`: the data block is never marked last, a separate empty last block follows;
  otherwise `assert!(!params.catable)`;
* `bytes == 0`: bits `1,1`, position rounded up (this IS the empty last block);
* `!should_compress(…)`: stored (uncompressed) meta-block;
* else the compressed attempt is written; `saved_byte_location = storage_ix >> 3`,
  `last_bytes_bits = storage_ix as u8` (!) are remembered, and if afterwards
  `bytes + 4 + saved_byte_location < (storage_ix >> 3)` the two saved bytes are put back,
  `storage_ix = last_bytes_bits as usize`, and the data is stored uncompressed instead.
  The `as u8` makes the rewind land on the old position only for `storage_ix < 256`
  (`encode_data` calls with at most 7 carry bits plus the ≤ 23-byte head: proved in
  `BV/Lemmas/HeaderGuard.lean`); for a larger position the code would continue at a wrong
  bit offset — outside what a bit-string model can express, reported as `fuel`. -/
def writeMetaBlockInternal (appendable catable actualIsLast : Bool) (data : List Nat) (o : MbOracle)
    (w : Writer) : Out MbOut :=
  let isLast := if appendable then false else actualIsLast
  if !appendable && catable then panic else
  if data.length = lit litsWmbi 1 then
    (writeBits (lit litsWmbi 2) (lit litsWmbi 3) w).bind fun w1 =>
    ok { body := w, fin := jumpToByteBoundary w1 }
  else
    let close (b : Writer) : Out MbOut :=
      if actualIsLast != isLast then (writeEmptyLastMetaBlock b).bind fun f => ok { body := b, fin := f }
      else ok { body := b, fin := b }
    /- `store_uncompressed_meta_block(is_last, …)` (with `is_last` it ends with bits `1,1` and
       padding); `body` is the position behind the payload bytes, i.e. the same call without them -/
    let stored (w0 : Writer) : Out MbOut :=
      (storeUncompressedMetaBlock false data w0).bind fun b =>
      (storeUncompressedMetaBlock isLast data w0).bind fun f =>
      if isLast then ok { body := b, fin := f } else close f
    if !o.shouldCompress then stored w
    else
      let savedByteLocation := w.length >>> lit litsWmbi 8
      let lastBytesBits := w.length % 256
      let w1 := w ++ o.attempt
      if data.length + lit litsWmbi 17 + savedByteLocation < w1.length >>> lit litsWmbi 18 then
        if lastBytesBits ≠ w.length then fuel else stored w
      else close w1

end BV.Stored
