import BV.Model.FFIStream
import BV.Model.Stored
/-
M14, the remaining exported functions of `src/ffi/compressor.rs` (what they pass to the Rust API,
what they hand back, which of them sit behind `catch_panic`):

* `BrotliEncoderVersion()` — `extern "C"`, no state: the constant of `enc::encode::BrotliEncoderVersion`;
* `BrotliEncoderMaxCompressedSize(n)` — `extern "C"`, NOT behind `catch_panic`: forwards to
  `enc::encode::BrotliEncoderMaxCompressedSize` (`BV.Stored.maxCompressedSize`, C08's model; its
  last `+` is unchecked in a release build and panics — i.e. aborts the process, the frame is
  `extern "C"` — in a build with overflow checks exactly when `maxCompressedSizeOverflows`);
* `BrotliEncoderCompress(quality, lgwin, mode, input_size, input_buffer, encoded_size, encoded_buffer)`
  — inside `catch_panic` (`Err ↦ 0`): `slice_from_raw_parts_or_nil(input_buffer, input_size)` and
  `slice_from_raw_parts_or_nil_mut(encoded_buffer, *encoded_size)` (both `&[]` for a zero count — the
  pointer, null or not, is then not looked at — so the output slice is EXACTLY `*encoded_size` long),
  the mode enum is mapped discriminant by discriminant, a default (non-custom) allocator pair is
  built, and `encoder_compress` (`BV.Stored.encoderCompress`) does the rest; its `bool` becomes 1/0;
* `BrotliEncoderSetCustomDictionary(state, size, dict)` — inside `catch_panic`, returns nothing (a
  panic is printed and swallowed): `set_custom_dictionary(size, slice_from_raw_parts_or_nil(dict,
  size))`, so the Rust method always sees `dict.len() = size`.  The part of that method the stream
  machine model sees is modelled here (`setCustomDictionaryHead`): it is a FIRST USE
  (`ensure_initialized`), and an empty dictionary or quality 0/1 only switch `catable` and
  `appendable` on; the copy of the dictionary into the ring buffer is `BV.Dict.setCustomDictionary`
  (C10's model).
* `BrotliEncoderIsFinished` / `BrotliEncoderHasMoreOutput`: `ffiIsFinished` / `ffiHasMoreOutput` of
  `BV/Model/FFIStream.lean` (driver line `ffi Q`).
-/
namespace BV.FFI
open BV.Stream BV.Bits

/-- `BrotliEncoderVersion()` -/
def ffiVersion : Nat := 0x01000f01

/-- `BrotliEncoderMaxCompressedSize(input_size)` (release build) -/
def ffiMaxCompressedSize (n : Nat) : Nat := BV.Stored.maxCompressedSize n

/-- the one operation of that export that panics when overflow checks are compiled in -/
def ffiMaxCompressedSizeChecked (n : Nat) : Option Nat :=
  if BV.Stored.maxCompressedSizeOverflows n then none else some (BV.Stored.maxCompressedSize n)

/-- what the C caller passes to `BrotliEncoderCompress` -/
structure OneShotCall where
  quality : Int
  lgwin : Int
  mode : Nat                  -- discriminant of `BrotliEncoderMode` (0..6)
  inputSize : Nat
  inputPtr : Option Nat
  encodedSize : Nat           -- `*encoded_size` before the call
  outPtr : Option Nat
deriving Repr

/-- `BrotliEncoderMode` (C side) ↦ `backward_references::BrotliEncoderMode`: the same discriminant -/
def translateMode (m : Nat) : Nat := m

/-- length of the `&mut [u8]` the wrapper hands to `encoder_compress` -/
def outSliceLen (c : OneShotCall) : Nat := c.encodedSize

structure OneShotRet where
  ret : Nat                   -- 0 / 1
  encodedSize : Option Nat    -- `*encoded_size` after the call (`none`: the Rust call unwound part-way; not specified)
  bytes : List Nat            -- what `encoded_buffer[.. *encoded_size]` holds after a successful call
  unwound : Bool              -- `catch_panic` caught a panic
deriving Repr

/-- `BrotliEncoderCompress`, given the outcome `so` of the stream phase inside `encoder_compress` -/
def ffiCompress (mem : Mem) (c : OneShotCall) (so : BV.Stored.StreamOutcome) : OneShotRet :=
  match BV.Stored.encoderCompress (inputSlice mem c.inputPtr c.inputSize) c.inputSize c.encodedSize (outSliceLen c) so with
  | .ok r => ⟨if r.ret then 1 else 0, some r.encodedSize, r.bytes, false⟩
  | _ => ⟨0, none, [], true⟩

/-- the dictionary slice `BrotliEncoderSetCustomDictionary` hands to the Rust method -/
def dictSlice (mem : Mem) (dict : Option Nat) (size : Nat) : List Nat := inputSlice mem dict size

/-- `set_custom_dictionary`, the part the stream machine sees: first use; an empty dictionary or
quality 0/1 switch `catable` / `appendable` on and nothing else; `true` = the dictionary is then
copied into the ring buffer (not modelled here) -/
def setCustomDictionaryHead (s : St) (size : Nat) : St × Bool :=
  let s := ensureInitialized s
  if size = 0 ∨ s.params.quality = 0 ∨ s.params.quality = 1 then
    ({ s with params := { s.params with catable := true, appendable := true } }, false)
  else (s, true)

end BV.FFI
