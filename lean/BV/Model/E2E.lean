/-
M16 `E2E` — executable model of what `encode_data` (`src/enc/encode.rs`, from
`let mut wrapped_last_processed_pos` to the end) does BETWEEN the stream state machine
(`BV/Model/Stream.lean`, where it is the oracle) and the meta-block writers, for quality 2 and 3:

  `hasher_setup` / `ChooseHasher` (quality 2 → H2, 65537 cells, USE_DICTIONARY; quality 3 → H3, 65538 cells),
  `StitchToPreviousBlock`, `extend_last_command` (`num_commands_ != 0 && last_insert_len_ == 0`),
  `BrotliCreateBackwardReferences` (model: `BV.Cbr.createBackwardReferences` over `basicOps`),
  the "emit or keep accumulating" decision (`max_length`, `max_literals`, `max_commands`,
  `next_input_fits_metablock`, `should_flush`), the `last_insert_len_` merge (`Command::init_insert`),
  the `!is_last && input_pos_ == last_flush_pos_` early return, `WriteMetaBlockInternal`
  (`should_compress` is an ARBITRARY verdict — a float decision —, the compressed attempt is
  `BV.MetaBlock.storeMetaBlockFast` / `storeMetaBlockTrivial`, the size decision and the stored fallback are
  `BV.Stored.writeMetaBlockInternal`), the `dist_cache_` rollback to `saved_dist_cache_` when the block
  ends up stored, `saved_dist_cache_ = dist_cache_[..4]`, `num_commands_ = num_literals_ = 0`.

`encodeDataPayload` is ONE invocation: payload state in, payload state + `emit` flag + storage bit string out.
It is a concrete instance of the oracle `BV.Stream.Oracle` answers (`Ans.emit`, `Ans.bits` = what is appended behind
the carry and the skeleton's own bits).

NOT modelled (explicit): the `commands_` re-allocation (allocator traffic; the slice handed to
`CreateBackwardReferences` has `bytes / 2 + 1` free cells — assumed large enough, as in `BV/Model/Cbr.lean`);
`prev_byte_` / `prev_byte2_` / `ChooseContextMode` (read by the quality ≥ 4 writers only); `HasherReset` after a
position wrap (`update_last_processed_pos` returning true: positions ≥ 3 GiB) — outcome `fuel`;
the recoder callback / `recoder_state`.  Positions are stream positions below 2^30·3 (`WrapPosition` is the identity there;
it is modelled, the wrap branch of the hasher reset is not).
-/
import BV.Model.Cbr
import BV.Model.MetaBlock
import BV.Model.Stored

namespace BV.E2E
open BV.Hasher BV.MatchFinder BV.Recoder BV.PrefixArith BV.Cbr BV.Bits

/-- the fields of `BrotliEncoderParams` (after `SanitizeParams` / `ChooseDistanceParams`) this part reads -/
structure EParams where
  quality : Nat
  lgwin : Nat
  lgblock : Nat
  large : Bool
  /-- `params.use_dictionary` -/
  useDict : Bool
  appendable : Bool
  catable : Bool
  /-- `h9_opts.literal_byte_score` (540 unless `params.hasher.literal_byte_score` is set) -/
  lbs : Nat
deriving Repr, DecidableEq, Inhabited

/-- `params.dist.max_distance` for NPOSTFIX = NDIRECT = 0 (`BrotliInitDistanceParams`) -/
def EParams.maxDistance (e : EParams) : Nat := if e.large then 134217724 else 67108860

def EParams.cbr (e : EParams) : Cbr.Params := ⟨e.quality, e.lgwin, e.maxDistance, 0, 0⟩

/-- `ChooseHasher` + `BrotliMakeHasher` for quality 2 and 3: kind, number of table cells, `USE_DICTIONARY()` -/
def chooseHasher (q : Nat) : Option (BasicP × Nat × Bool) :=
  if q = 2 then some (H2, 65537, true)
  else if q = 3 then some (H3, 65538, false)
  else none

/-- the payload state `encode_data` keeps between invocations -/
structure PSt where
  /-- `hasher_`: `none` = `UnionHasher::Uninit` -/
  hasher : Option (Tab × Common) := none
  /-- `dist_cache_` (16 entries) -/
  distCache : List Int := [4, 11, 15, 16, 0, 0, 0, 0, 0, 0, 0, 0, 0, 0, 0, 0]
  /-- `saved_dist_cache_` -/
  savedDistCache : List Int := [4, 11, 15, 16]
  /-- `commands_[.. num_commands_]` -/
  cmds : List Cmd := []
  numLiterals : Nat := 0
  lastInsertLen : Nat := 0
deriving Inhabited

/-- the payload state `ensure_initialized` leaves: in catable mode every distance-cache entry is the placeholder
`0x7ffffff0` (larger than any window, so no cached distance is ever valid) -/
def PSt.init (catable : Bool) : PSt :=
  if catable then { distCache := List.replicate 16 2147483632, savedDistCache := List.replicate 4 2147483632 } else {}

/-- `WrapPosition` -/
def wrapPosition (position : Nat) : Nat :=
  let result := position % U32
  let gb := position >>> 30
  if gb > 2 then ((result &&& ((1 <<< 30) - 1)) ||| ((((gb - 1) &&& 1) + 1) <<< 30)) % U32 else result

/-- `MaxMetablockSize` -/
def maxMetablockSize (e : EParams) : Nat := 1 <<< (min (1 + max e.lgwin e.lgblock) 24)

/-- the `while` loop of `extend_last_command`: bytes at `wlp` that continue the copy at distance `dist`;
returns how many (`fuel` = `bytes`) -/
def extendRun (data : ByteArray) (mask dist : Nat) : Nat → Nat → Option Nat
  | 0, _ => some 0
  | fuel + 1, wlp =>
    match byteAt data (wlp &&& mask), byteAt data ((wsub wlp dist) &&& mask) with
    | some a, some b =>
      if a = b then (extendRun data mask dist fuel (wlp + 1)).map (· + 1) else some 0
    | _, _ => none

/-- `extend_last_command(&mut bytes, &mut wrapped_last_processed_pos)` on the last command `c`;
`lp` = `last_processed_pos_`, `dc0` = `dist_cache_[0]`.  Returns the command and the number of bytes it swallowed. -/
def extendLastCommand (e : EParams) (data : ByteArray) (mask lp : Nat) (dc0 : Int) (c : Cmd) (bytes wlp : Nat) :
    Option (Cmd × Nat) :=
  let maxBackward := (1 <<< e.lgwin) - 16
  let lastCopyLen := c.copyLenField &&& 0x01ffffff
  if lp < lastCopyLen then none     -- `self.last_processed_pos_ - last_copy_len` (u64 underflow)
  else
    let maxDistance := min (lp - lastCopyLen) maxBackward
    let cmdDist := toUsize dc0      -- `self.dist_cache_[0] as u64`
    let distanceCode := restoreDistanceCode c.distPrefix c.distExtra 0 0
    if distanceCode < 16 ∨ distanceCode - 15 = cmdDist then
      let n : Option Nat := if cmdDist ≤ maxDistance then extendRun data mask cmdDist bytes wlp else some 0
      match n with
      | none => none
      | some n =>
        let clf := (c.copyLenField + n) % U32
        some ({ c with copyLenField := clf,
                       cmdPrefix := getLengthCode c.insertLen ((clf &&& 0x01ffffff) + (clf >>> 25)) (c.distPrefix &&& 0x3ff == 0) }, n)
    else some (c, 0)

/-- the meta-block bytes as `WriteMetaBlockInternal` reads them from the ring buffer: `data[(pos + j) & mask]`, `j < n` -/
def mbBytes (data : ByteArray) (mask : Nat) : Nat → Nat → Out Bytes
  | _, 0 => .ok []
  | pos, n + 1 =>
    match byteAt data (pos &&& mask) with
    | none => .panic
    | some b => (mbBytes data mask (pos + 1) n).bind fun l => .ok (b :: l)

/-- the slice as the list the writer models read -/
def ringList (data : ByteArray) : Bytes := data.data.toList.map (·.toNat)

/-- result of one invocation -/
structure Res where
  st : PSt
  /-- `last_flush_pos_ = input_pos_` afterwards (`Ans.emit` of the stream model) -/
  emit : Bool
  /-- the storage bit string afterwards -/
  w : Writer
  /-- the meta-block ended up stored (verdict false, or attempt too long) — `dist_cache_` rolled back -/
  stored : Bool := false
  /-- a meta-block was written at all -/
  wrote : Bool := false
  /-- `commands_[.. num_commands_]` as handed to `WriteMetaBlockInternal` (if `wrote`), else as kept -/
  cmds : List Cmd := []

/-- `InitOrStitchToPreviousBlock` for quality 2/3 -/
def initOrStitch (P : BasicP) (cells : Nat) (data : ByteArray) (mask : Nat) (h : Option (Tab × Common))
    (position inputSize : Nat) : Option (Tab × Common) :=
  let (t, c) := match h with
    | none => (Array.replicate cells 0, (⟨0, 0⟩ : Common))
    | some x => x
  (stitchToPreviousBlock (fun m ix t => BV.Hasher.Basic.store P data m ix t) 8 inputSize position mask t).map fun t => (t, c)

/-- the tail of `encode_data` once it has decided to close the meta-block: the pending literals become a last insert-only
command, the `!is_last && input_pos_ == last_flush_pos_` early return, `WriteMetaBlockInternal` with its size decision
and distance-cache rollback, the bookkeeping reset.  `h cache cmds lastInsertLen numLiterals` = hasher, `dist_cache_`,
`commands_[..num_commands_]`, `last_insert_len_`, `num_literals_` as `BrotliCreateBackwardReferences` left them. -/
def writePart (e : EParams) (data : ByteArray) (mask lp lf ip : Nat) (isLast verdict : Bool) (saved : List Int)
    (h : Tab × Common) (cache : List Int) (cmds : List Cmd) (lastInsertLen numLiterals : Nat) (w : Writer) : Out Res :=
  let cmds := closeMetaBlock cmds lastInsertLen
  let numLiterals := if lastInsertLen > 0 then numLiterals + lastInsertLen else numLiterals
  if !isLast ∧ ip = lf then
    .ok { st := { hasher := some h, distCache := cache, savedDistCache := saved, cmds := cmds, numLiterals := numLiterals,
                  lastInsertLen := 0 }, emit := true, w := w, cmds := cmds }
  else
  let len := (ip - lf) % U32
  let wlf := wrapPosition lf
  let ring : Bytes := ringList data
  let isLastW := if e.appendable then false else isLast
  match mbBytes data mask wlf len with
  | .panic => .panic
  | .fuel => .fuel
  | .ok mb =>
  -- the compressed attempt (only made when `should_compress` says so and the block is not empty)
  let att : Out (List Bool) :=
    if len = 0 ∨ !verdict then .ok []
    else
      (if e.quality ≤ 2 then BV.MetaBlock.storeMetaBlockFast ring wlf len mask isLastW (BV.MetaBlock.distAlphabetSize e.large 0 0) cmds w
       else BV.MetaBlock.storeMetaBlockTrivial ring wlf len mask isLastW (BV.MetaBlock.distAlphabetSize e.large 0 0) cmds w).bind
        fun w' => .ok (w'.drop w.length)
  match att with
  | .panic => .panic
  | .fuel => .fuel
  | .ok att =>
  match BV.Stored.writeMetaBlockInternal e.appendable e.catable isLast mb ⟨verdict, att⟩ w with
  | .panic => .panic
  | .fuel => .fuel
  | .ok out =>
    let stored := decide (len ≠ 0) && (!verdict || decide (len + 4 + (w.length >>> 3) < (w.length + att.length) >>> 3))
    let dc := if stored then saved.take 4 ++ cache.drop 4 else cache
    if wrapPosition ip < wrapPosition lp then .fuel
    else .ok { st := { hasher := some h, distCache := dc, savedDistCache := dc.take 4, cmds := [], numLiterals := 0, lastInsertLen := 0 },
               emit := true, w := out.fin, stored := stored, wrote := true, cmds := cmds }

/-- `encode_data` for quality 2/3 from `let mut wrapped_last_processed_pos` on.
`lp lf ip` = `last_processed_pos_`, `last_flush_pos_`, `input_pos_` (after the catable prelude), `data` = the slice
`ringbuffer_.data_mo[buffer_index ..]`, `mask` = `ringbuffer_.mask_`, `dict` = the static-dictionary slots by ring
position (`none` when `params.use_dictionary` is off), `verdict` = what `should_compress` answers if asked,
`w` = storage bits so far (carry and skeleton). -/
def encodeDataPayload (e : EParams) (dict : ByteArray → Nat → Option (List DictItem)) (data : ByteArray) (mask : Nat)
    (lp lf ip : Nat) (isLast forceFlush verdict : Bool) (ps : PSt) (w : Writer) : Out Res :=
  match chooseHasher e.quality with
  | none => .fuel
  | some (P, cells, kindDict) =>
  let bytes := (ip - lp) % U32
  let wlp := wrapPosition lp
  match initOrStitch P cells data mask ps.hasher wlp bytes with
  | none => .panic
  | some h =>
  -- extend_last_command
  let ext : Option (List Cmd × Nat) :=
    if ps.cmds.length ≠ 0 ∧ ps.lastInsertLen = 0 then
      match ps.cmds.getLast? with
      | none => none
      | some c =>
        (extendLastCommand e data mask lp (ps.distCache.getD 0 0) c bytes wlp).map fun (c', n) => (ps.cmds.dropLast ++ [c'], n)
    else some (ps.cmds, 0)
  match ext with
  | none => .panic
  | some (cmds0, n) =>
  match createBackwardReferences (basicOps P kindDict e.lbs (if e.useDict then dict else fun _ _ => none) data mask) e.cbr
      (bytes - n) (wlp + n) h ps.distCache ps.lastInsertLen ps.numLiterals with
  | none => .panic
  | some r =>
  let cmds := cmds0 ++ r.cmds
  let maxLength := maxMetablockSize e
  let nextFits := decide (ip - lf + (1 <<< e.lgblock) ≤ maxLength)
  let shouldFlush := decide (e.quality < 4 ∧ r.numLiterals + cmds.length ≥ 0x2fff)
  if !isLast ∧ !forceFlush ∧ !shouldFlush ∧ nextFits ∧ r.numLiterals < maxLength / 8 ∧ cmds.length < maxLength / 8 then
    if wrapPosition ip < wrapPosition lp then .fuel     -- `HasherReset` after a position wrap: not modelled
    else .ok { st := { ps with hasher := some r.h, distCache := r.cache, cmds := cmds, numLiterals := r.numLiterals,
                               lastInsertLen := r.lastInsertLen }, emit := false, w := w, cmds := cmds }
  else writePart e data mask lp lf ip isLast verdict ps.savedDistCache r.h r.cache cmds r.lastInsertLen r.numLiterals w

end BV.E2E
