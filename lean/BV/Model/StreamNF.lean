import BV.Model.StreamRun
import BV.Model.Stored
/-
C08, run level: the summary of a whole history that the size claim is about.

From the run-level trace (`BV/Model/StreamRun.lean`): the list of CLOSED meta-block spans — for
every payload-encoder request whose invocation closed its meta-block (`Trace.closed`), the number
of input bytes `hi - lf` between the start of the open meta-block and `input_pos_` (on the first
one this includes the ≤ 2 bytes of the catable prelude, which are stored in front of it) — the
number of bytes delivered, and `BrotliEncoderMaxCompressedSize` of the bytes consumed.

Tie: the driver prints `nfSummary` for the `header nfrun` lines; the harness computes the same
numbers from the real run (bytes written, `input_pos_`, the `verif_stream_hook` event log,
the real `BrotliEncoderMaxCompressedSize`).
-/
namespace BV.Stream
open BV.Bits

/-- spans `hi - lf` of the requests whose invocation closed its meta-block, in order -/
def closedSpans : List Req → List Bool → List Nat
  | r :: rs, c :: cs => if c then (r.hi - r.lf) :: closedSpans rs cs else closedSpans rs cs
  | _, _ => []

def Trace.spans (t : Trace) : List Nat := closedSpans t.reqs t.closed

/-- `(bytes delivered, input_pos_, data bytes consumed, advertised bound for input_pos_ bytes, closed spans)` -/
def nfSummary (s : St) (t : Trace) : Nat × Nat × Nat × Nat × List Nat :=
  (t.delivered.length, s.inputPos, t.data.length, BV.Stored.maxCompressedSize s.inputPos, t.spans)

/-- every element but the last is at least `m` -/
def AllButLastGe (m : Nat) : List Nat → Prop
  | [] => True
  | [_] => True
  | a :: b :: rest => m ≤ a ∧ AllButLastGe m (b :: rest)

/-- a never-flushed history: `set_parameter`, `take_output`, and `compress_stream` with PROCESS or
FINISH only (no FLUSH, no EMIT_METADATA) -/
def NeverFlushed : List Call → Prop
  | [] => True
  | .stream op _ _ :: cs => (op = 0 ∨ op = 2) ∧ NeverFlushed cs
  | _ :: cs => NeverFlushed cs

/-! ### the stream phase of the one-shot call -/

/-- what `encoder_compress` reads back from its private encoder after the single
`compress_stream(FINISH, input, available_out = *encoded_size)` call: the return value, `is_finished()`,
the bytes put into the caller's buffer and `total_out` = the encoder's own counter `total_out_`
(that it equals the number of those bytes is a theorem: `stream_phase_within_buffer`, from the byte
ledger of Lemmas/StreamTotal.lean) -/
def outcomeOf (r : Out (St × Io × Bool)) : Option BV.Stored.StreamOutcome :=
  match r with
  | .ok (s', io', res) => some { result := res, finished := isFinished s', totalOut := s'.totalOut, bytes := io'.out }
  | _ => none

/-- `x as u32` for an `i32` -/
def asU32 (x : Int) : Nat := (x % 4294967296).toNat

/-- the private encoder of `encoder_compress` after its `set_parameter` calls: quality (10 runs as 9
with the q9.5 hasher), lgwin, mode (generic), `size_hint = input_size as u32`, and `large_window`
when `lgwin > BROTLI_MAX_WINDOW_BITS` -/
def oneshotState (quality lgwin : Int) (inputSize : Nat) : St :=
  let s := (setParameter St.new 1 (asU32 (if quality = 10 then 9 else quality))).1
  let s := (setParameter s 2 (asU32 lgwin)).1
  let s := (setParameter s 0 0).1
  let s := (setParameter s 5 (inputSize % 4294967296)).1
  if lgwin > (BV.Gen.BROTLI_MAX_DISTANCE_BITS : Int) then (setParameter s 6 1).1 else s

/-- the whole one-shot call over the stream machine: `encoder_compress(quality, lgwin, generic,
|x|, x, *encoded_size = outCap, buffer of bufLen bytes)`; `none` = the stream phase did not return
(panic / fuel of the stream model) -/
def oneshotRun (o : Oracle) (fuel : Nat) (quality lgwin : Int) (x : Bytes) (outCap bufLen : Nat) : Option (Out BV.Stored.OneShot) :=
  if outCap = 0 ∨ x.length = 0 then some (BV.Stored.encoderCompress x x.length outCap bufLen ⟨false, false, 0, []⟩)
  else
    match outcomeOf (compressStream o fuel (oneshotState quality lgwin x.length) 2 x outCap) with
    | some so => some (BV.Stored.encoderCompress x x.length outCap bufLen so)
    | none => none

end BV.Stream
